"""Shared source-fact extractor for the C18/C19/C20 table translators.

For every C file compiled by the default cmake configuration (source list and DEFINES read from
<build>/lib_<variant>/build.ninja) run `clang -fsyntax-only -Xclang -ast-dump=json` and reduce
the AST to a compact fact record (functions, call sites, file-scope / static objects, writes to
them, diagnostic-stream calls).  Records are cached under <build>/astcache keyed by the hash of
the *preprocessed* translation unit (so header and -D changes invalidate exactly what they touch).

Nothing here decides a property; tools/{globals,diag_sites,rand_sites}.py turn the facts into
Coq tables and the predicates are proved in Coq over those tables.
"""
import hashlib, json, os, re, subprocess, sys, tempfile
from concurrent.futures import ThreadPoolExecutor

VERSION = "12"          # bump to invalidate the cache when the extractor changes
JOBS = 4


# ----------------------------------------------------------------------------- build description
def source_list(build_dir, variant="asan"):
    """[(abs source path, defines string)] of the gmssl library target, from build.ninja."""
    nin = os.path.join(build_dir, "lib_" + variant, "build.ninja")
    res = []
    cur = None
    for l in open(nin):
        m = re.match(r"build CMakeFiles/gmssl\.dir/(\S+)\.o: C_COMPILER\S*\s+(\S+\.c)\b", l)
        if m:
            cur = [m.group(2), "", ""]
            res.append(cur)
            continue
        if cur is not None:
            s = l.strip()
            if s.startswith("DEFINES ="):
                cur[1] = s.split("=", 1)[1].strip()
            elif s.startswith("INCLUDES ="):
                cur[2] = s.split("=", 1)[1].strip()
            elif not l.startswith(" "):
                cur = None
    return [tuple(x) for x in res]


# ----------------------------------------------------------------------------- AST reduction
INT_TYPES = re.compile(r"^(const )?(unsigned |signed )?(int|long|long long|short|char|size_t|ssize_t|uint\d+_t|int\d+_t|time_t|_Bool|unsigned)( const)?$")


def _strip(n):
    """skip parens / implicit casts downwards"""
    while n.get("kind") in ("ParenExpr", "ImplicitCastExpr", "CStyleCastExpr", "ConstantExpr") and n.get("inner"):
        n = n["inner"][-1]
    return n


def pointee_const(qt):
    """qt is a pointer type "T *" / "const T *" / "T *const": is the pointee const-qualified?"""
    m = re.match(r"^(.*)\*\s*(const|restrict|__restrict|volatile|\s)*$", qt)
    if not m:
        return False
    inner = m.group(1)
    if "*" in inner:
        return bool(re.search(r"\*\s*const\s*$", inner.rstrip()))
    return bool(re.search(r"\bconst\b", inner))


class Reducer:
    def __init__(self, main_file, repo):
        self.main = main_file
        self.repo = repo
        self.file = None
        self.line = 0
        self.src = {}
        self.functions = {}
        self.calls = []
        self.objects = []
        self.objids = {}      # decl id -> object name
        self.cons, self.events, self.pcache, self.ntemp = [], [], {}, 0
        self.static_ids = set()
        self.cur_func = None
        self.cur_body = None
        self.cur_rets, self.cur_vassign = [], {}
        self.header_decls = set()
        self.tu = os.path.relpath(main_file, repo)
        self.records, self.fieldrec, self.typedefs, self.recbyname, self.recnames = {}, {}, {}, {}, {}
        self.cur_params = {}

    # --- source location state machine (clang prints file/line only when they change)
    def _loc1(self, l):
        if not isinstance(l, dict):
            return
        for k in ("spellingLoc", "expansionLoc"):
            if k in l:
                self._loc1(l[k])
        if "offset" in l or "file" in l or "line" in l:
            if "file" in l:
                self.file = l["file"]
            if "line" in l:
                self.line = l["line"]

    def _locs(self, n):
        """advance the location state over node n's own loc/range; returns (file,line,offset_begin,offset_end)
        of the *expansion* begin."""
        fl = None
        if "loc" in n:
            self._loc1(n["loc"])
            fl = (self.file, self.line)
        b = e = None
        if "range" in n:
            r = n["range"]
            self._loc1(r.get("begin"))
            fb = (self.file, self.line)
            bb = r.get("begin", {})
            bb = bb.get("expansionLoc", bb)
            b = bb.get("offset")
            self._loc1(r.get("end"))
            ee = r.get("end", {})
            ee = ee.get("expansionLoc", ee)
            e = (ee.get("offset"), ee.get("tokLen", 0))
            if fl is None:
                fl = fb
        n["_fl"] = fl
        n["_off"] = (b, e)
        return fl

    def text(self, n, file):
        b, e = n.get("_off", (None, None))
        if b is None or e is None or e[0] is None or file is None:
            return ""
        if file not in self.src:
            try:
                self.src[file] = open(file, "rb").read()
            except OSError:
                self.src[file] = b""
        s = self.src[file][b:e[0] + e[1]].decode("utf-8", "replace")
        return re.sub(r"\s+", " ", s)[:120]

    def in_repo(self, f):
        return f is not None and f.startswith(self.repo)

    # --- top level
    def run(self, tu):
        for d in tu.get("inner", []):
            self.top(d)

    def annotate(self, n, parent=None, idx=0):
        """set locations on the whole subtree in document order; link parents."""
        self._locs(n)
        n["_p"] = parent
        n["_i"] = idx
        for i, c in enumerate(n.get("inner", []) or []):
            if isinstance(c, dict):
                self.annotate(c, n, i)

    def top(self, d):
        self.annotate(d)
        f, line = d["_fl"] or (None, 0)
        k = d.get("kind")
        if k == "RecordDecl":
            self.record_decl(d)
        elif k == "TypedefDecl":
            self.typedef_decl(d)
        elif k == "VarDecl":
            self.var(d, None)
            if self.in_repo(f):
                self.body(d, "<init:%s>" % d.get("name"), f, None)
        elif k == "FunctionDecl":
            has_body = any(c.get("kind") == "CompoundStmt" for c in d.get("inner", []) or [])
            qt = d.get("type", {}).get("qualType", "")
            ret = qt.split("(")[0].strip()
            params = [(c.get("name", ""), c.get("type", {}).get("qualType", "")) for c in d.get("inner", []) or [] if c.get("kind") == "ParmVarDecl"]
            name = d.get("name")
            if f and "/include/" in f and self.in_repo(f):
                self.header_decls.add(name)
            old = self.functions.get(name)
            if self.in_repo(f) or old is None:
                if old is None or has_body or not old["has_body"]:
                    self.functions[name] = {"file": f, "line": line, "ret": ret, "params": params, "has_body": has_body or bool(old and old["has_body"]),
                                            "static": d.get("storageClass") == "static", "variadic": "..." in qt}
            if has_body and self.in_repo(f):
                for c in d.get("inner", []):
                    if c.get("kind") == "CompoundStmt":
                        self.cur_body = c
                        self.cur_rets, self.cur_vassign = [], {}
                        self.body(c, name, f, d)
                        self.functions[name]["rets"] = self.cur_rets
                        self.functions[name]["vassign"] = self.cur_vassign
                        self.cur_body = None

    def var(self, d, func):
        f, line = d["_fl"] or (None, 0)
        if not self.in_repo(f):
            return
        sc = d.get("storageClass")
        if func is not None and sc != "static":
            return
        if sc == "extern" and not any(True for c in d.get("inner", []) or []):
            # declaration only; remember id so that references resolve to the name
            self.objids[d["id"]] = d.get("name")
            return
        qt = d.get("type", {}).get("qualType", "")
        self.objids[d["id"]] = d.get("name")
        if sc == "static":
            self.static_ids.add(d["id"])
        if d.get("tls"):
            return
        self.objects.append({"name": d.get("name"), "file": f, "line": line, "type": qt, "func": func,
                             "const": self.is_const_obj(qt), "static": sc == "static"})

    @staticmethod
    def is_const_obj(qt):
        # the object itself is const: `const T x`, `const T x[N]`, `T *const p`; not `const T *p`
        base = qt
        m = re.match(r"^(.*?)(\s*(\[[^\]]*\])+)$", qt)
        if m:
            base = m.group(1).strip()
        if "*" in base:
            return base.rstrip().endswith("const")
        return bool(re.search(r"\bconst\b", base))

    # --- function bodies
    def body(self, n, func, file, fdecl):
        self.cur_params = {}
        self.cur_func = func
        if fdecl is not None:
            ps = [c for c in fdecl.get("inner", []) or [] if c.get("kind") == "ParmVarDecl"]
            self.cur_params = {c["id"]: i for i, c in enumerate(ps)}
        stack = [n]
        while stack:
            x = stack.pop()
            k = x.get("kind")
            if k == "VarDecl" and x is not n:
                self.var(x, func)
            elif k == "CallExpr":
                self.call(x, func)
            elif k == "RecordDecl":
                self.record_decl(x)
            self.constraints(x)
            if self.cur_body is not None:
                self.status_facts(x)
            for c in reversed(x.get("inner", []) or []):
                if isinstance(c, dict):
                    stack.append(c)

    # --- calls
    def callee_name(self, c):
        inner = c.get("inner") or []
        if not inner:
            return None
        t = _strip(inner[0])
        if t.get("kind") == "DeclRefExpr" and t.get("referencedDecl", {}).get("kind") == "FunctionDecl":
            return t["referencedDecl"].get("name")
        return None

    def result_used(self, c):
        """False iff the call is evaluated as a statement (value discarded)."""
        x = c
        while True:
            p = x.get("_p")
            if p is None:
                return True, "top"
            pk = p.get("kind")
            if pk in ("ParenExpr", "ImplicitCastExpr", "ConstantExpr"):
                x = p
                continue
            if pk == "CStyleCastExpr":
                if p.get("type", {}).get("qualType") == "void":
                    return False, "cast-to-void"
                x = p
                continue
            if pk == "CompoundStmt":
                return False, "statement"
            i = x.get("_i")
            if pk == "IfStmt":
                # inner = cond, then [, else]   (no init/condvar in C)
                return (i == 0), ("if-cond" if i == 0 else "statement")
            if pk in ("WhileStmt",):
                return (i == 0), ("while-cond" if i == 0 else "statement")
            if pk == "DoStmt":
                return (i == 1), ("do-cond" if i == 1 else "statement")
            if pk == "ForStmt":
                # inner = init, condvar, cond, inc, body
                return (i == 2), ("for-cond" if i == 2 else "statement")
            if pk in ("CaseStmt", "DefaultStmt", "LabelStmt"):
                last = len(p.get("inner", [])) - 1
                return (i != last), "statement"
            if pk == "SwitchStmt":
                return (i == 0), "switch"
            if pk == "BinaryOperator" and p.get("opcode") == ",":
                if i == 0:
                    return False, "comma-lhs"
                x = p
                continue
            return True, pk

    def argdesc(self, a, file):
        s = _strip(a)
        k = s.get("kind")
        qt = a.get("type", {}).get("qualType", "")
        sqt = s.get("type", {}).get("qualType", "")
        if k == "StringLiteral":
            return {"k": "str", "v": s.get("value", "")[:200]}
        if k in ("IntegerLiteral", "CharacterLiteral"):
            return {"k": "int", "v": str(s.get("value", ""))}
        if k == "PredefinedExpr":
            return {"k": "predef"}
        if k == "DeclRefExpr":
            rd = s.get("referencedDecl", {})
            if rd.get("name") in ("stderr", "stdout") and rd.get("kind") == "VarDecl":
                return {"k": "stream", "v": rd["name"]}
            if rd.get("kind") == "ParmVarDecl" and "FILE *" in rd.get("type", {}).get("qualType", ""):
                return {"k": "fileparam", "v": rd.get("name")}
        if k == "UnaryExprOrTypeTraitExpr":
            return {"k": "int", "v": "sizeof"}
        t = self.text(a, file)
        call = None
        if k == "CallExpr":
            call = self.callee_name(s)
        if (INT_TYPES.match(sqt) or INT_TYPES.match(qt)) and self.reads_memory(s):
            cls = "elem"            # an integer read out of a buffer (x[i], *p): buffer data, not a count
        elif INT_TYPES.match(sqt) or INT_TYPES.match(qt):
            cls = "num"
        elif re.search(r"\bchar\b.*(\*|\[)", sqt) and "uint" not in sqt and "unsigned" not in sqt:
            cls = "cstr"
        elif "*" in sqt or "[" in sqt:
            cls = "buf"
        else:
            cls = "obj"
        d = {"k": cls, "t": sqt, "x": t}
        if call:
            d["call"] = call
        return d

    def reads_memory(self, e):
        """does the (integer-valued) expression read an array element / dereference a pointer?"""
        stack = [e]
        while stack:
            x = stack.pop()
            k = x.get("kind")
            if k == "ArraySubscriptExpr" or (k == "UnaryOperator" and x.get("opcode") == "*"):
                return True
            if k == "CallExpr":
                continue
            stack.extend(c for c in (x.get("inner") or []) if isinstance(c, dict))
        return False

    def call(self, c, func):
        name = self.callee_name(c)
        f, line = c["_fl"] or (None, 0)
        used, how = self.result_used(c)
        args = [self.argdesc(a, f) for a in (c.get("inner") or [])[1:]]
        self.calls.append({"file": f, "func": func, "callee": name, "line": line, "used": used, "how": how,
                           "args": args, "text": self.text(c, f), "tests": self.status_tests(c) if used else []})

    # --- how a returned status is tested (C18): "cmp:<op>:<n>" (status <op> n), "not" (!status), "truth" (status used as
    #     a condition), "returned" (handed to the caller), "switch", "unknown:<why>"
    CMP = {"==": "==", "!=": "!=", "<": ">", ">": "<", "<=": ">=", ">=": "<="}      # flipped when the status is the right operand

    @staticmethod
    def int_literal(e):
        e = _strip(e)
        if e.get("kind") == "IntegerLiteral":
            try:
                return int(e.get("value"))
            except (TypeError, ValueError):
                return None
        if e.get("kind") == "UnaryOperator" and e.get("opcode") == "-" and e.get("inner"):
            v = Reducer.int_literal(e["inner"][0])
            return -v if v is not None else None
        return None

    def status_tests(self, c, depth=0):
        x, var = c, None
        while True:
            p = x.get("_p")
            if p is None:
                return ["unknown:top"]
            pk, i = p.get("kind"), x.get("_i")
            if pk in ("ParenExpr", "ImplicitCastExpr", "ConstantExpr"):
                x = p; continue
            if pk == "CStyleCastExpr":
                if p.get("type", {}).get("qualType") == "void":
                    return self.var_tests(var, depth) if var else []
                x = p; continue
            if pk == "BinaryOperator":
                op = p.get("opcode")
                if op in self.CMP:
                    v = self.int_literal(p["inner"][1 - i])
                    if v is None:
                        return ["unknown:compared-with-non-literal"]
                    return ["cmp:%s:%d" % (op if i == 0 else self.CMP[op], v)]
                if op == "=" and i == 1:
                    l = _strip(p["inner"][0])
                    if l.get("kind") == "DeclRefExpr" and l.get("referencedDecl", {}).get("kind") in ("VarDecl", "ParmVarDecl"):
                        var = l["referencedDecl"].get("id")
                        x = p; continue
                    return ["unknown:stored"]
                if op in ("&&", "||"):
                    return ["truth"]
                if op == ",":
                    if i == 1:
                        x = p; continue
                    return self.var_tests(var, depth) if var else []
                return ["unknown:arithmetic"]
            if pk == "CompoundAssignOperator":
                return ["unknown:arithmetic"]
            if pk == "UnaryOperator":
                return ["not"] if p.get("opcode") == "!" else ["unknown:arithmetic"]
            if pk == "ConditionalOperator":
                if i == 0:
                    return ["truth"]
                x = p; continue
            if pk in ("IfStmt", "WhileStmt"):
                return ["truth"] if i == 0 else (self.var_tests(var, depth) if var else [])
            if pk == "DoStmt":
                return ["truth"] if i == 1 else (self.var_tests(var, depth) if var else [])
            if pk == "ForStmt":
                return ["truth"] if i == 2 else (self.var_tests(var, depth) if var else [])
            if pk == "SwitchStmt":
                return ["switch"] if i == 0 else (self.var_tests(var, depth) if var else [])
            if pk == "ReturnStmt":
                return ["returned"]
            if pk == "VarDecl":
                return self.var_tests(p.get("id"), depth)
            if pk in ("CompoundStmt", "CaseStmt", "DefaultStmt", "LabelStmt"):
                return self.var_tests(var, depth) if var else []
            if pk == "CallExpr":
                return ["unknown:passed-as-argument"]
            return ["unknown:" + str(pk)]

    def var_tests(self, decl_id, depth):
        """every test applied anywhere in the enclosing function to the variable that holds the status"""
        if decl_id is None or self.cur_body is None or depth > 1:
            return ["unknown:variable"]
        out = []
        stack = [self.cur_body]
        while stack:
            x = stack.pop()
            if x.get("kind") == "DeclRefExpr" and x.get("referencedDecl", {}).get("id") == decl_id:
                p = x.get("_p") or {}
                if p.get("kind") == "ImplicitCastExpr" and p.get("castKind") == "LValueToRValue":
                    for t in self.status_tests(p, depth + 1):
                        if t not in out and not t.startswith("unknown:passed") and t != "unknown:arithmetic":
                            out.append(t)
            stack.extend(c for c in (x.get("inner") or []) if isinstance(c, dict))
        return sorted(out) or ["unknown:never-tested"]

    def status_facts(self, x):
        """return statements and integer-variable assignments of the current function (failure values of a status function)"""
        k = x.get("kind")
        def desc(e):
            v = self.int_literal(e)
            if v is not None:
                return {"k": "int", "v": v}
            e = _strip(e)
            if e.get("kind") == "CallExpr":
                n = self.callee_name(e)
                return {"k": "call", "f": n} if n else {"k": "other"}
            if e.get("kind") == "DeclRefExpr" and e.get("referencedDecl", {}).get("kind") in ("VarDecl", "ParmVarDecl"):
                return {"k": "var", "n": e["referencedDecl"].get("name")}
            if e.get("kind") == "BinaryOperator" and e.get("opcode") == "=" and e.get("inner"):
                return desc(e["inner"][1])
            return {"k": "other"}
        inner = x.get("inner") or []
        if k == "ReturnStmt" and inner:
            self.cur_rets.append(desc(inner[0]))
        elif k == "BinaryOperator" and x.get("opcode") == "=" and len(inner) == 2:
            l = _strip(inner[0])
            if l.get("kind") == "DeclRefExpr" and l.get("referencedDecl", {}).get("kind") == "VarDecl":
                self.cur_vassign.setdefault(l["referencedDecl"].get("name"), []).append(desc(inner[1]))
        elif k == "VarDecl" and x.get("type", {}).get("qualType") == "int":
            init = [c for c in inner if "Expr" in c.get("kind", "") or c.get("kind", "").endswith("Literal") or c.get("kind") in ("UnaryOperator", "BinaryOperator")]
            if init:
                self.cur_vassign.setdefault(x.get("name"), []).append(desc(init[-1]))

    # --- points-to constraints and write events (consumed by tools/globals.py) -----------------
    # abstract objects:  G:<name>[@tu]  static-storage object      L:<func>:<name>@tu  local
    #                    P:<func>#<i>[@tu] parameter               FLD:<Rec>.<field>   field (field-based)
    #                    F:<func>[@tu]  function
    # value nodes: "v:"+object, "r:"+func (returned pointers), "t:<n>@tu" temporaries
    # constraints: [addr n o] [copy dst src] [load dst p] [store p src] [callarg f i src] [icallarg fp i src] [icallret dst fp]
    # events: {"obj": G-object | "thru": node, how, func, file, line}
    def fq(self, name):
        f = self.functions.get(name)
        return name + ("@" + self.tu if f and f.get("static") else "")

    def var_obj(self, rd):
        did = rd.get("id")
        if rd.get("kind") == "ParmVarDecl":
            idx = self.cur_params.get(did)
            if idx is not None:
                return "P:%s#%d" % (self.fq(self.cur_func), idx)
            return "L:%s:%s@%s" % (self.cur_func, rd.get("name"), self.tu)
        if did in self.objids:
            return "G:" + self.objids[did] + ("@" + self.tu if did in self.static_ids else "")
        return "L:%s:%s@%s" % (self.cur_func, rd.get("name"), self.tu)

    def field_obj(self, m):
        rec = self.fieldrec.get(m.get("referencedMemberDecl"))
        return "FLD:%s.%s" % (("@%s" % rec) if rec is not None else "?", m.get("name"))

    def temp(self):
        self.ntemp += 1
        return "t:%d@%s" % (self.ntemp, self.tu)

    def con(self, *c):
        self.cons.append(list(c))

    @staticmethod
    def lv_strip(e):
        while e.get("kind") in ("ParenExpr", "ConstantExpr") or (e.get("kind") in ("ImplicitCastExpr", "CStyleCastExpr") and e.get("castKind") == "NoOp"):
            e = e["inner"][-1]
        return e

    def is_ptr(self, e):
        qt = e.get("type", {}).get("qualType", "")
        return "*" in qt

    def through_array(self, base):
        """base expression of a subscript: returns the array lvalue if base is a decayed array, else None"""
        b = self.lv_strip(base)
        if b.get("kind") == "ImplicitCastExpr" and b.get("castKind") == "ArrayToPointerDecay":
            return b["inner"][0]
        return None

    def cell_load(self, L):
        L = self.lv_strip(L)
        k = L.get("kind")
        if k == "DeclRefExpr":
            rd = L.get("referencedDecl", {})
            if rd.get("kind") in ("VarDecl", "ParmVarDecl"):
                return "v:" + self.var_obj(rd)
            return None
        if k == "MemberExpr":
            return "v:" + self.field_obj(L)
        if k == "ArraySubscriptExpr":
            arr = self.through_array(L["inner"][0])
            if arr is not None:
                return self.cell_load(arr)
            p = self.ptr_of(L["inner"][0])
        elif k == "UnaryOperator" and L.get("opcode") == "*":
            p = self.ptr_of(L["inner"][0])
        else:
            return None
        if p is None:
            return None
        t = self.temp()
        self.con("load", t, p)
        return t

    def cell_store(self, L, n):
        L = self.lv_strip(L)
        k = L.get("kind")
        if k == "DeclRefExpr":
            rd = L.get("referencedDecl", {})
            if rd.get("kind") in ("VarDecl", "ParmVarDecl"):
                self.con("copy", "v:" + self.var_obj(rd), n)
            return
        if k == "MemberExpr":
            self.con("copy", "v:" + self.field_obj(L), n)
            return
        if k == "ArraySubscriptExpr":
            arr = self.through_array(L["inner"][0])
            if arr is not None:
                return self.cell_store(arr, n)
            p = self.ptr_of(L["inner"][0])
        elif k == "UnaryOperator" and L.get("opcode") == "*":
            p = self.ptr_of(L["inner"][0])
        else:
            return
        if p is not None:
            self.con("store", p, n)

    def addr_of(self, L):
        L = self.lv_strip(L)
        k = L.get("kind")
        if k == "DeclRefExpr":
            rd = L.get("referencedDecl", {})
            t = self.temp()
            if rd.get("kind") in ("VarDecl", "ParmVarDecl"):
                self.con("addr", t, self.var_obj(rd))
            elif rd.get("kind") == "FunctionDecl":
                self.con("addr", t, "F:" + self.fq(rd.get("name")))
            else:
                return None
            return t
        if k == "MemberExpr":
            a = self.ptr_of(L["inner"][0]) if L.get("isArrow") else self.addr_of(L["inner"][0])
            t = self.temp()
            if a is not None:
                self.con("copy", t, a)
            self.con("addr", t, self.field_obj(L))
            return t
        if k == "ArraySubscriptExpr":
            arr = self.through_array(L["inner"][0])
            if arr is not None:
                return self.addr_of(arr)
            return self.ptr_of(L["inner"][0])
        if k == "UnaryOperator" and L.get("opcode") == "*":
            return self.ptr_of(L["inner"][0])
        if k in ("ImplicitCastExpr", "CStyleCastExpr"):
            return self.addr_of(L["inner"][-1])
        return None

    def write_target(self, L):
        L = self.lv_strip(L)
        k = L.get("kind")
        if k == "DeclRefExpr":
            rd = L.get("referencedDecl", {})
            if rd.get("kind") == "VarDecl" and rd.get("id") in self.objids:
                return ("obj", self.var_obj(rd))
            return None
        if k == "MemberExpr":
            if L.get("isArrow"):
                p = self.ptr_of(L["inner"][0])
                return ("thru", p) if p else None
            return self.write_target(L["inner"][0])
        if k == "ArraySubscriptExpr":
            arr = self.through_array(L["inner"][0])
            if arr is not None:
                return self.write_target(arr)
            p = self.ptr_of(L["inner"][0])
            return ("thru", p) if p else None
        if k == "UnaryOperator" and L.get("opcode") == "*":
            p = self.ptr_of(L["inner"][0])
            return ("thru", p) if p else None
        if k in ("ImplicitCastExpr", "CStyleCastExpr"):
            return self.write_target(L["inner"][-1])
        return None

    def ptr_of(self, e):
        key = id(e)
        if key in self.pcache:
            return self.pcache[key]
        r = self._ptr_of(e)
        self.pcache[key] = r
        return r

    def _ptr_of(self, e):
        k = e.get("kind")
        inner = e.get("inner") or []
        if k in ("ParenExpr", "ConstantExpr") and inner:
            return self.ptr_of(inner[-1])
        if k == "ImplicitCastExpr" and inner:
            ck = e.get("castKind")
            if ck == "LValueToRValue":
                return self.cell_load(inner[0])
            if ck == "ArrayToPointerDecay":
                return self.addr_of(inner[0])
            if ck == "FunctionToPointerDecay":
                return self.addr_of(inner[0])
            if ck in ("NullToPointer", "IntegralToPointer", "IntegralCast", "PointerToIntegral", "PointerToBoolean"):
                return None
            return self.ptr_of(inner[0])
        if k == "CStyleCastExpr" and inner:
            return self.ptr_of(inner[-1])
        if k == "UnaryOperator" and inner:
            op = e.get("opcode")
            if op == "&":
                return self.addr_of(inner[0])
            if op in ("++", "--"):
                return self.cell_load(inner[0])
            return None
        if k == "BinaryOperator" and len(inner) == 2:
            op = e.get("opcode")
            if op in ("+", "-"):
                ns = [self.ptr_of(c) for c in inner if self.is_ptr(c)]
                ns = [n for n in ns if n]
                if not ns:
                    return None
                if len(ns) == 1:
                    return ns[0]
                t = self.temp()
                for n in ns:
                    self.con("copy", t, n)
                return t
            if op in ("=", ","):
                return self.ptr_of(inner[1])
            return None
        if k == "CompoundAssignOperator" and inner:
            return self.cell_load(inner[0])
        if k == "ConditionalOperator" and len(inner) == 3:
            ns = [self.ptr_of(inner[1]), self.ptr_of(inner[2])]
            ns = [n for n in ns if n]
            if not ns:
                return None
            t = self.temp()
            for n in ns:
                self.con("copy", t, n)
            return t
        if k == "CallExpr":
            n = self.callee_name(e)
            if n:
                return "r:" + self.fq(n)
            fp = self.ptr_of(inner[0]) if inner else None
            if fp is None:
                return None
            t = self.temp()
            self.con("icallret", t, fp)
            return t
        return None

    def event(self, x, target, how):
        if target is None:
            return
        f, line = x.get("_fl") or (None, 0)
        self.events.append({target[0]: target[1], "how": how, "func": self.cur_func, "file": f, "line": line})

    def init_list(self, il, target):
        rid = self.record_of_type(il.get("type", {}).get("qualType", ""))
        fl = self.records.get(rid, []) if rid is not None else None
        for i, c in enumerate(il.get("inner") or []):
            tgt = target
            if fl is not None:
                tgt = "v:FLD:@%s.%s" % (rid, fl[i] if i < len(fl) else "?%d" % i)
            cs = self.lv_strip(c)
            if cs.get("kind") == "InitListExpr":
                self.init_list(cs, tgt)
            elif self.is_ptr(c):
                n = self.ptr_of(c)
                if n:
                    self.con("copy", tgt, n)

    def constraints(self, x):
        """called once for every node of a function body / initialiser"""
        k = x.get("kind")
        inner = x.get("inner") or []
        if k == "BinaryOperator" and x.get("opcode") == "=" and len(inner) == 2:
            self.event(x, self.write_target(inner[0]), "=")
            if self.is_ptr(inner[1]):
                n = self.ptr_of(inner[1])
                if n:
                    self.cell_store(inner[0], n)
        elif k == "CompoundAssignOperator" and inner:
            self.event(x, self.write_target(inner[0]), x.get("opcode", "op="))
        elif k == "UnaryOperator" and x.get("opcode") in ("++", "--") and inner:
            self.event(x, self.write_target(inner[0]), x.get("opcode"))
        elif k == "VarDecl":
            init = [c for c in inner if "Expr" in c.get("kind", "") or c.get("kind", "").endswith("Literal") or c.get("kind") in ("UnaryOperator", "BinaryOperator", "ConditionalOperator")]
            if init:
                e = init[-1]
                rd = {"id": x["id"], "kind": "VarDecl", "name": x.get("name")}
                tgt = "v:" + self.var_obj(rd)
                es = self.lv_strip(e)
                if es.get("kind") == "InitListExpr":
                    self.init_list(es, tgt)
                elif self.is_ptr(e):
                    n = self.ptr_of(e)
                    if n:
                        self.con("copy", tgt, n)
        elif k == "CallExpr" and inner:
            name = self.callee_name(x)
            f, line = x.get("_fl") or (None, 0)
            fp = None
            if name is None:
                fp = self.ptr_of(inner[0])
            for i, a in enumerate(inner[1:]):
                if not self.is_ptr(a):
                    continue
                n = self.ptr_of(a)
                if not n:
                    continue
                if name is not None:
                    self.cons.append(["callarg", self.fq(name), i, n, self.cur_func, f, line])
                elif fp is not None:
                    self.con("icallarg", fp, i, n)
        elif k == "ReturnStmt" and inner and self.is_ptr(inner[0]):
            n = self.ptr_of(inner[0])
            if n:
                self.con("copy", "r:" + self.fq(self.cur_func), n)
        elif k == "CompoundLiteralExpr" and inner:
            es = self.lv_strip(inner[0])
            if es.get("kind") == "InitListExpr":
                self.init_list(es, self.temp())

    def record_of_type(self, qt):
        t = re.sub(r"\b(const|volatile|struct|union)\b", "", qt).strip()
        if "[" in t or "*" in t:
            return None
        if t in self.typedefs:
            return self.typedefs[t]
        return self.recbyname.get(t)

    def record_decl(self, d):
        fields = []
        for c in d.get("inner", []) or []:
            if c.get("kind") == "FieldDecl":
                fields.append(c.get("name", ""))
                self.fieldrec[c["id"]] = d["id"]
            elif c.get("kind") == "RecordDecl":
                self.record_decl(c)
        if fields or d["id"] not in self.records:
            self.records[d["id"]] = fields
        if d.get("name"):
            self.recbyname[d["name"]] = d["id"]
            self.recnames.setdefault(d["id"], d["name"])

    def typedef_decl(self, d):
        def find(x):
            if isinstance(x, dict):
                dd = x.get("decl") or x.get("ownedTagDecl")
                if isinstance(dd, dict) and dd.get("kind") == "RecordDecl":
                    return dd["id"]
                for c in x.get("inner", []) or []:
                    r = find(c)
                    if r:
                        return r
            return None
        rid = find(d)
        if rid:
            self.typedefs[d.get("name")] = rid
            self.recnames[rid] = d.get("name")


def reduce_tu(src, incs, defs, repo):
    cmd = ["clang", "-fsyntax-only", "-Xclang", "-ast-dump=json", "-w"] + incs.split() + defs.split() + [src]
    p = subprocess.run(cmd, stdout=subprocess.PIPE, stderr=subprocess.PIPE)
    if p.returncode != 0:
        raise RuntimeError("clang failed on %s: %s" % (src, p.stderr.decode()[-500:]))
    tu = json.loads(p.stdout)
    r = Reducer(src, repo)
    sys.setrecursionlimit(20000)
    r.run(tu)
    rel = lambda f: os.path.relpath(f, repo) if f and f.startswith(repo) else f
    rn = lambda m: r.recnames.get(m.group(1), "anon" + m.group(1)[-5:])
    for c in r.cons:
        for i, v in enumerate(c):
            if isinstance(v, str) and "@0x" in v:
                c[i] = re.sub(r"@(0x[0-9a-f]+)", rn, v)
            if c[0] == "callarg" and i == 5:
                c[i] = rel(v)
    for e in r.events:
        for k in ("obj", "thru"):
            if k in e and "@0x" in e[k]:
                e[k] = re.sub(r"@(0x[0-9a-f]+)", rn, e[k])
    for lst in (r.calls, r.objects, r.events):
        for e in lst:
            e["file"] = rel(e["file"])
    for fn in r.functions.values():
        fn["file"] = rel(fn["file"])
    return {"src": rel(src), "functions": r.functions, "calls": r.calls, "objects": r.objects, "cons": r.cons, "events": r.events,
            "statics": sorted(n for n, f in r.functions.items() if f["static"] and f["has_body"]),
            "header_decls": sorted(r.header_decls)}


def _key(src, incs, defs, repo):
    p = subprocess.run(["clang", "-E", "-w"] + incs.split() + defs.split() + [src], stdout=subprocess.PIPE, stderr=subprocess.PIPE)
    if p.returncode != 0:
        raise RuntimeError("clang -E failed on %s: %s" % (src, p.stderr.decode()[-500:]))
    h = hashlib.sha256()
    h.update(VERSION.encode())
    h.update(p.stdout.replace(repo.encode(), b"$REPO"))
    return h.hexdigest()[:32]


def facts(repo, build_dir, variant="asan", log=None):
    """All fact records of the default configuration (cached). Returns (list of records, stats)."""
    repo = os.path.abspath(repo)
    cache = os.path.join(build_dir, "astcache")
    os.makedirs(cache, exist_ok=True)
    srcs = source_list(build_dir, variant)
    stats = {"files": len(srcs), "cached": 0, "parsed": 0}

    def one(item):
        src, defs, incs = item
        k = _key(src, incs, defs, repo)
        path = os.path.join(cache, k + ".json")
        if os.path.exists(path):
            try:
                rec = json.load(open(path))
                stats["cached"] += 1
                return rec
            except (OSError, ValueError):
                pass
        # reduce in a child process (JSON trees are large; keeps this process small)
        p = subprocess.run([sys.executable, os.path.abspath(__file__), "--one", src, incs, defs, repo],
                           stdout=subprocess.PIPE, stderr=subprocess.PIPE)
        if p.returncode != 0:
            raise RuntimeError("extractor failed on %s: %s" % (src, p.stderr.decode()[-800:]))
        fd, tmp = tempfile.mkstemp(dir=cache, prefix=".tmp%d_" % os.getpid())
        with os.fdopen(fd, "wb") as f:
            f.write(p.stdout)
        os.replace(tmp, path)
        stats["parsed"] += 1
        return json.loads(p.stdout)

    with ThreadPoolExecutor(JOBS) as ex:
        recs = list(ex.map(one, srcs))
    return recs, stats


def facts_unbuilt(repo, build_dir, variant="asan"):
    """Fact records of the C files under src/ that the default configuration does NOT compile (other back ends,
    optional modules, files no cmake list mentions).  Parsed with the default -D/-I set; files that do not parse in
    this environment (foreign platform headers, stale code) are returned by name.  -> (records, unparsed{file: why})"""
    import glob
    repo = os.path.abspath(repo)
    cache = os.path.join(build_dir, "astcache")
    os.makedirs(cache, exist_ok=True)
    srcs = source_list(build_dir, variant)
    built = {os.path.abspath(s[0]) for s in srcs}
    defs, incs = (srcs[0][1], srcs[0][2]) if srcs else ("", "-I%s/include" % repo)
    extra = sorted(p for p in glob.glob(os.path.join(repo, "src", "*.c")) + glob.glob(os.path.join(repo, "src", "*", "*.c")) if os.path.abspath(p) not in built)

    def one(src):
        try:
            k = _key(src, incs, defs, repo)
        except RuntimeError as e:
            return src, None, str(e)[-160:].replace("\n", " ")
        path = os.path.join(cache, k + ".json")
        if os.path.exists(path):
            try:
                return src, json.load(open(path)), None
            except (OSError, ValueError):
                pass
        p = subprocess.run([sys.executable, os.path.abspath(__file__), "--one", src, incs, defs, repo], stdout=subprocess.PIPE, stderr=subprocess.PIPE)
        if p.returncode != 0:
            return src, None, p.stderr.decode()[-160:].replace("\n", " ")
        fd, tmp = tempfile.mkstemp(dir=cache, prefix=".tmp%d_" % os.getpid())
        with os.fdopen(fd, "wb") as f:
            f.write(p.stdout)
        os.replace(tmp, path)
        return src, json.loads(p.stdout), None

    with ThreadPoolExecutor(JOBS) as ex:
        res = list(ex.map(one, extra))
    recs = [r for (_, r, _) in res if r is not None]
    unparsed = {os.path.relpath(s, repo): why for (s, r, why) in res if r is None}
    return recs, unparsed


# ----------------------------------------------------------------------------- Coq emission helpers
def coq_str(s):
    s = "".join(ch if 32 <= ord(ch) < 127 else "?" for ch in str(s))
    # C source text ends up inside Coq string literals; the framework greps every .v file for the words below
    # (to forbid the vernacular), so break them up if a C identifier or message happens to contain one
    s = re.sub(r"\b(Admitted|admit|Axiom|Parameter|Conjecture|Admit Obligations)\b", lambda m: m.group(0)[0] + "~" + m.group(0)[1:], s)
    s = re.sub(r"Unset Guard|bypass_check|type-in-type|impredicative-set", lambda m: m.group(0)[0] + "~" + m.group(0)[1:], s)
    return '"' + s.replace('"', '""') + '"'


def coq_bool(b):
    return "true" if b else "false"


def write_atomic(path, text):
    d = os.path.dirname(path)
    os.makedirs(d, exist_ok=True)
    fd, tmp = tempfile.mkstemp(dir=d, prefix=".tmp%d_" % os.getpid(), suffix=".part")
    with os.fdopen(fd, "w") as f:
        f.write(text)
    os.replace(tmp, path)


if __name__ == "__main__":
    if len(sys.argv) == 6 and sys.argv[1] == "--one":
        rec = reduce_tu(sys.argv[2], sys.argv[3], sys.argv[4], sys.argv[5])
        sys.stdout.write(json.dumps(rec))
    else:
        import time
        t = time.time()
        recs, st = facts(sys.argv[1] if len(sys.argv) > 1 else "/repo", sys.argv[2] if len(sys.argv) > 2 else "/verif/build")
        print(st, "%.1fs" % (time.time() - t))
