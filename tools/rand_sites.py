"""C18 translator: entropy-dependent status-returning functions and all their call sites.

E      = least set containing rand_bytes and every function of the default-configuration library
         that returns int and (directly) calls a member of E.
site   = every call of a member of E inside src/ : (file, enclosing function, callee, line,
         result_used) where result_used = the call expression is not evaluated as a statement
         (parent CompoundStmt / loop or branch body / for-init / comma-lhs) and not cast to void.
Emits coq/Gen/RandSitesTable.v."""
import os, sys
sys.path.insert(0, os.path.dirname(os.path.abspath(__file__)))
import cast

ROOTS = ["rand_bytes"]


def table(repo, build_dir, variant="asan"):
    recs, stats = cast.facts(repo, build_dir, variant)
    fdefs = {}
    callers = {}          # callee -> set(caller)
    allcalls = []
    seen = set()
    for r in recs:
        for n, f in r["functions"].items():
            if f["has_body"] and (f["file"] or "").startswith(("src/", "include/")):
                fdefs.setdefault(n, f)
        for c in r["calls"]:
            if not (c["file"] or "").startswith(("src/", "include/")) or not c["callee"]:
                continue
            k = (c["file"], c["func"], c["line"], c["callee"], c["how"])
            if k in seen:
                continue
            seen.add(k)
            allcalls.append(c)
            callers.setdefault(c["callee"], set()).add(c["func"])
    E = set(ROOTS)
    work = list(ROOTS)
    while work:
        f = work.pop()
        for g in callers.get(f, ()):
            if g in E or g is None or g.startswith("<"):
                continue
            fd = fdefs.get(g)
            if fd and fd["ret"].strip() == "int":
                E.add(g)
                work.append(g)
    # failure values of every member of E, from its return statements (1 = success by the library's convention)
    memo = {}

    def values(f, stack=()):
        if f in memo:
            return memo[f]
        fd = fdefs.get(f)
        if fd is None or "rets" not in fd or f in stack:
            return {"?"}
        out = set()

        def dv(d, depth=0):
            if d["k"] == "int":
                return {d["v"]}
            if d["k"] == "call" and d.get("f"):
                return values(d["f"], stack + (f,))
            if d["k"] == "var" and depth < 3:
                asg = fd.get("vassign", {}).get(d["n"])
                if not asg:
                    return {"?"}
                r = set()
                for a in asg:
                    r |= dv(a, depth + 1)
                return r
            return {"?"}
        for d in fd["rets"]:
            out |= dv(d)
        if not stack:
            memo[f] = out
        return out

    def fails_of(f):
        v = values(f)
        out = {x for x in v if x != "?" and x != 1}
        if "?" in v:
            out |= {0, -1}
        return sorted(out)

    stats["failure_values"] = {f: fails_of(f) for f in sorted(E)}
    rows = []
    for c in allcalls:
        if c["callee"] in E:
            rows.append({"file": os.path.basename(c["file"]), "fn": c["func"] or "?", "callee": c["callee"], "line": c["line"],
                         "used": bool(c["used"]), "how": c["how"], "tests": c.get("tests", []), "fails": stats["failure_values"][c["callee"]]})
    rows.sort(key=lambda r: (r["file"], r["line"], r["callee"]))
    # ---- wave 5: the C files of src/ that the default configuration does not compile (other gateways, optional and
    #      unlisted modules).  Same rule; enclosing functions named test_* (self-tests embedded in the file) are counted, not judged
    urecs, unparsed = cast.facts_unbuilt(repo, build_dir, variant)
    ucalls, useen, ufdefs = [], set(), {}
    for r in urecs:
        for n, f in r["functions"].items():
            if f["has_body"] and (f["file"] or "").startswith("src/") and n not in fdefs:
                ufdefs.setdefault(n, f)
        for c in r["calls"]:
            if not (c["file"] or "").startswith("src/") or not c["callee"] or c["file"] != r["src"]:
                continue
            k = (c["file"], c["func"], c["line"], c["callee"])
            if k not in useen:
                useen.add(k); ucalls.append(c)
    for n, f in ufdefs.items():
        fdefs.setdefault(n, f)                                   # failure values of the extra functions
    EU = set(E)
    changed = True
    while changed:
        changed = False
        for c in ucalls:
            g = c["func"]
            if c["callee"] in EU and g not in EU and g in ufdefs and ufdefs[g]["ret"].strip() == "int":
                EU.add(g); changed = True
    urows, utests = [], 0
    for c in ucalls:
        if c["callee"] in EU:
            if (c["func"] or "").startswith("test_") or c["func"] == "main":
                utests += 1
                continue
            urows.append({"file": os.path.basename(c["file"]), "fn": c["func"] or "?", "callee": c["callee"], "line": c["line"],
                          "used": bool(c["used"]), "how": c["how"], "tests": c.get("tests", []), "fails": fails_of(c["callee"])})
    urows.sort(key=lambda r: (r["file"], r["line"], r["callee"]))
    # (a) optional: the file appears in some source list of CMakeLists.txt (compiled under some option / platform): judged
    # (b) unlisted: no cmake list mentions it, it cannot be part of the library in any configuration: observed only
    try:
        cm = open(os.path.join(repo, "CMakeLists.txt")).read()
    except OSError:
        cm = ""
    import re as _re
    listed = lambda rel: bool(_re.search(r"(?<![\w/])" + _re.escape(rel) + r"\b", cm))
    relof = {os.path.basename(r["src"]): r["src"] for r in urecs}
    for r in urows:
        r["cls"] = "optional" if listed(relof.get(r["file"], "src/" + r["file"])) else "unlisted"
    stats["optional_rows"] = [r for r in urows if r["cls"] == "optional"]
    stats["unlisted_rows"] = [r for r in urows if r["cls"] == "unlisted"]
    stats["unbuilt_classes"] = {"optional": sorted(f for f in [x["src"] for x in urecs] + list(unparsed) if listed(f)),
                                "unlisted": sorted(f for f in [x["src"] for x in urecs] + list(unparsed) if not listed(f))}
    stats["unbuilt_rows"] = urows
    stats["unbuilt_unparsed"] = unparsed
    stats["unbuilt_test_sites"] = utests
    stats["unbuilt_files"] = sorted(r["src"] for r in urecs)
    # void functions that call into E cannot report the failure at all: listed as unused sites already
    # (their own call of the E member is a row); additionally record them for the evidence
    stats["E"] = sorted(E)
    stats["fdefs"] = fdefs
    stats["callers"] = callers
    hd = set()
    for r in recs:
        hd |= set(r.get("header_decls", []))
    stats["header_decls"] = hd
    stats["void_callers"] = sorted({c["func"] for c in allcalls if c["callee"] in E and c["func"] in fdefs and fdefs[c["func"]]["ret"].strip() == "void"})
    return rows, stats


CMPS = {"==": "Ceq", "!=": "Cne", "<": "Clt", "<=": "Cle", ">": "Cgt", ">=": "Cge"}


def coq_test(t):
    if t.startswith("cmp:"):
        _, op, v = t.split(":")
        return "TCmp %s (%s)%%Z" % (CMPS[op], v)
    return {"not": "TNot", "truth": "TTruth", "returned": "TReturned"}.get(t) or ("TOther %s" % cast.coq_str(t))


def py_distinguishes(t, v):
    """mirror of Sys/Tables.v distinguishes (only used to cross-check the row count Coq reports)"""
    def ev(t, x):
        if t.startswith("cmp:"):
            _, op, c = t.split(":"); c = int(c)
            return {"==": x == c, "!=": x != c, "<": x < c, "<=": x <= c, ">": x > c, ">=": x >= c}[op]
        if t == "not":
            return x == 0
        if t == "truth":
            return x != 0
        return None
    if t == "returned":
        return True
    if ev(t, 1) is None:
        return False
    return ev(t, v) != ev(t, 1)


def py_site_ok(r):
    return bool(r["used"]) and all(any(py_distinguishes(t, v) for t in r["tests"]) for v in r["fails"])


def emit(rows, path=None, optional=None, unlisted=None):
    out = ["(* GENERATED by tools/rand_sites.py from the current source tree — do not edit. *)",
           "From Coq Require Import String List NArith ZArith.", "From GmVerif Require Import Sys.Tables.",
           "Import ListNotations.", "Open Scope string_scope.", "",
           "Definition rand_sites : list rand_site := ["]
    items = []
    for r in rows:
        items.append("  mkSite %s %s %s %d%%N %s %s [%s] [%s]" % (cast.coq_str(r["file"]), cast.coq_str(r["fn"]), cast.coq_str(r["callee"]), r["line"],
                     cast.coq_bool(r["used"]), cast.coq_str(r["how"]), "; ".join(coq_test(t) for t in r["tests"]),
                     "; ".join("(%d)%%Z" % v for v in r["fails"])))
    out.append(";\n".join(items))
    out.append("].")
    for name, lst, what in (("rand_sites_optional", optional, "call sites in C files that some cmake option / platform compiles but the default configuration does not"),
                            ("rand_sites_unlisted", unlisted, "call sites in C files no cmake source list mentions (observed, not judged)")):
        if lst is not None:
            out.append("")
            out.append("(* %s *)" % what)
            out.append("Definition %s : list rand_site := [" % name)
            out.append(";\n".join("  mkSite %s %s %s %d%%N %s %s [%s] [%s]" % (cast.coq_str(r["file"]), cast.coq_str(r["fn"]), cast.coq_str(r["callee"]), r["line"],
                       cast.coq_bool(r["used"]), cast.coq_str(r["how"]), "; ".join(coq_test(t) for t in r["tests"]), "; ".join("(%d)%%Z" % v for v in r["fails"])) for r in lst))
            out.append("].")
    text = "\n".join(out) + "\n"
    if path:
        if not (os.path.exists(path) and open(path).read() == text):
            cast.write_atomic(path, text)
    return text


if __name__ == "__main__":
    repo = os.environ.get("VERIF_REPO", "/repo")
    build = os.environ.get("VERIF_BUILD", "/verif/build")
    rows, st = table(repo, build)
    emit(rows, os.path.join(os.path.dirname(os.path.dirname(os.path.abspath(__file__))), "coq", "Gen", "RandSitesTable.v"), st["optional_rows"], st["unlisted_rows"])
    print("unbuilt:", len(st["unbuilt_rows"]), "rows,", st["unbuilt_test_sites"], "test sites, unparsed", sorted(st["unbuilt_unparsed"]))
    for r in st["unbuilt_rows"]:
        print("  %s %s:%d %s -> %s ok=%s" % (r["cls"], r["file"], r["line"], r["fn"], r["callee"], py_site_ok(r)))
    print({k: st[k] for k in ("files", "cached", "parsed")}, len(st["E"]), "functions in E;", len(rows), "sites;", sum(1 for r in rows if not py_site_ok(r)), "not ok")
    print({f: v for f, v in st["failure_values"].items() if v != [-1]})
    print("void callers:", st["void_callers"])
    for r in rows:
        if not py_site_ok(r):
            print("%s:%d %s -> %s (%s) tests=%s fails=%s" % (r["file"], r["line"], r["fn"], r["callee"], r["how"], r["tests"], r["fails"]))
