"""Re-prove a table theorem over a freshly generated table (DESIGN 1.4).

The table file coq/Gen/<Name>Table.v is (re)written atomically by the translator; this helper
writes a per-process check file that Loads it, asks Coq itself for the failing rows
(`Eval vm_compute in map key (filter (negb . ok) table)`), states the instance theorem and proves
it with the generic soundness lemma of Sys/Tables.v + vm_compute, and prints its assumptions.
Returns what coqc said; nothing is decided in Python."""
import os, re, sys
sys.path.insert(0, os.path.dirname(os.path.dirname(os.path.abspath(__file__))))
from vlib import core


def run(prop, table_file, table_name, key_fn, ok_fn, theorem_name, statement, lemma, extra_evals=()):
    """-> dict(failing=[keys], proved=bool, closed=bool, log=str, evals=[...])"""
    gen = os.path.join(core.COQ, "Gen")
    name = "%schk_%d" % (prop, os.getpid())
    path = os.path.join(gen, name + ".v")
    if not os.path.exists(os.path.join(core.COQ, "Sys", "Tables.vo")):
        core.coq_make(["Sys/Tables.vo"])
    with open(path, "w") as f:
        f.write("From Coq Require Import String List Bool NArith ZArith.\nFrom GmVerif Require Import Sys.Tables.\nImport ListNotations.\n")
        f.write("Set Printing Width 1000000.\nSet Printing Depth 1000000.\n")
        f.write('Load "Gen/%s".\n' % table_file)
        f.write("Eval vm_compute in (length %s).\n" % table_name)
        f.write("Eval vm_compute in (map %s (filter (fun x => negb (%s x)) %s)).\n" % (key_fn, ok_fn, table_name))
        for e in extra_evals:
            f.write("Eval vm_compute in (%s).\n" % e)
        f.write("Theorem %s : %s.\nProof. apply %s. vm_compute. reflexivity. Qed.\n" % (theorem_name, statement, lemma))
        f.write("Print Assumptions %s.\n" % theorem_name)
    rc, out = core.sh(["coqc", "-Q", ".", "GmVerif", "-w", "-all", os.path.join("Gen", name + ".v")], cwd=core.COQ, timeout=1800)
    for ext in (".v", ".vo", ".vok", ".vos", ".glob"):
        try: os.remove(os.path.join(gen, name + ext))
        except OSError: pass
    try: os.remove(os.path.join(gen, "." + name + ".aux"))
    except OSError: pass
    blocks = re.findall(r"^\s*= (.*?)\n\s*: ", out, re.M | re.S)
    res = {"failing": None, "proved": rc == 0, "closed": "Closed under the global context" in out, "log": out[-3000:], "rows": None, "evals": []}
    if len(blocks) >= 2:
        try:
            res["rows"] = int(blocks[0].strip())
        except ValueError:
            pass
        res["failing"] = [s.replace('""', '"') for s in re.findall(r'"((?:[^"]|"")*)"', blocks[1])]
        res["evals"] = blocks[2:]
    return res
