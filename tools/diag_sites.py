"""C19 translator: every call in the default-configuration library that writes output the caller
did not designate (stderr / stdout), after preprocessing (so #ifdef ENABLE_TLS_DEBUG bodies and
comments are gone).

site   = call with an argument that is the identifier stderr/stdout, or printf/puts/putchar/perror/
         vprintf, or a call to an *implicit printer* (a print-named library function without FILE*
         parameter whose own non-public Data sites are excused by its name, e.g. print_bytes) —
         closed transitively.
class  = ErrLine (only literals + __FUNCTION__: the error_print family)
         Const   (only literals)
         Data    (some buffer / number / string argument)
prov   = Public  every non-literal argument is a count/tag/errno-like integer, the text of an error
                 code (strerror, dlerror, *_name, *_text), or an object handed to a printer of
                 public formats (x509_*_print, asn1_*_print) and no argument name looks secret
         Secret  an argument's text names secret material (secret, master, key_block, priv, pass,
                 plaintext, key, iv, seed …)
         Unknown otherwise (decided by the runtime search; reported if not seen)
Emits coq/Gen/DiagSitesTable.v."""
import os, re, sys
sys.path.insert(0, os.path.dirname(os.path.abspath(__file__)))
import cast

PRINTF = {"printf", "puts", "putchar", "perror", "vprintf"}
PRINT_ROUTINE = re.compile(r"(_print$|_print_|^print_|_trace$|_trace_|^format_|_print_ex$)")
PUBLIC_PRINTERS = re.compile(r"^(x509_\w*_print|asn1_\w*_print|tls_alert_\w+|tls_\w+_name)$")
PUBLIC_STR_FUNCS = re.compile(r"^(strerror|dlerror|dylib_error_str|gai_strerror|\w+_name|\w+_text|\w+_error_string|SDF_GetErrorReason)$")
SECRET_RE = re.compile(r"(secret|master|key_block|priv|passw|\bpass\b|plaintext|premaster|pre_master|(?<!public_)(?<!pub_)\bkey\b|(?<!public)_key\b|\biv\b|\bseed\b|\bks\b|\bke\b|\bde\b|\bds\b)", re.I)


REPO_DIR = ["/repo"]


def classify(c):
    args = [a for a in c["args"] if a["k"] not in ("stream", "fileparam")]
    nonlit = [a for a in args if a["k"] not in ("str", "int", "predef")]
    if not nonlit:
        return ("ErrLine" if any(a["k"] == "predef" for a in args) else "Const"), "Public", ""
    provs = []
    for a in nonlit:
        x = a.get("x", "")
        if a["k"] == "num":
            provs.append("Public")
        elif a["k"] == "cstr" and a.get("call") and PUBLIC_STR_FUNCS.match(a["call"]):
            provs.append("Public")
        elif SECRET_RE.search(x) and not x.startswith(("error_print", "SDFerr")):
            provs.append("Secret")
        elif a["k"] in ("buf", "obj", "elem") and c["callee"] and PUBLIC_PRINTERS.match(c["callee"]):
            provs.append("Public")
        else:
            provs.append("Unknown")
    prov = "Secret" if "Secret" in provs else ("Unknown" if "Unknown" in provs else "Public")
    text = "; ".join(dict.fromkeys(a.get("x", "") for a in nonlit))
    if re.fullmatch(r"[A-Za-z_]\w*", text or "_"):        # arguments spelled inside a macro: show the source line
        try:
            text = open(os.path.join(REPO_DIR[0], c["file"])).read().split("\n")[c["line"] - 1].strip()
        except (OSError, IndexError):
            pass
    return "Data", prov, text[:200]


def table(repo, build_dir, variant="asan"):
    recs, stats = cast.facts(repo, build_dir, variant)
    REPO_DIR[0] = repo
    fdefs = {}
    for r in recs:
        for n, f in r["functions"].items():
            if f["has_body"]:
                fdefs[n] = f
    takes_file = lambda fn: any("FILE *" in p[1] for p in fdefs.get(fn, {}).get("params", []))
    calls = []
    seen = set()
    for r in recs:
        for c in r["calls"]:
            if not (c["file"] or "").startswith(("src/", "include/")):
                continue
            k = (c["file"], c["func"], c["line"], c["callee"], len(c["args"]))
            if k in seen:
                continue
            seen.add(k)
            calls.append(c)
    rows = {}
    implicit = set()

    def add(c, stream):
        cl, prov, text = classify(c)
        # excused as "explicitly requested print": a print-named routine — but one that was handed a FILE* must write there,
        # stdout / stderr inside it is a stream its caller did not designate
        inpr = bool(PRINT_ROUTINE.search(c["func"] or "")) and not (takes_file(c["func"]) and not stream.startswith("via:"))
        key = (c["file"], c["func"], c["line"], c["callee"])
        rows[key] = {"file": os.path.basename(c["file"]), "fn": c["func"] or "?", "line": c["line"], "callee": c["callee"] or "(indirect)",
                     "stream": stream, "cls": cl, "inpr": inpr, "prov": prov, "args": text}
        return cl == "Data" and prov != "Public"

    changed = True
    first = True
    while changed:
        changed = False
        for c in calls:
            key = (c["file"], c["func"], c["line"], c["callee"])
            if key in rows:
                continue
            streams = [a["v"] for a in c["args"] if a["k"] == "stream"]
            stream = streams[0] if streams else ("implicit-stdout" if c["callee"] in PRINTF else ("via:" + c["callee"] if c["callee"] in implicit else None))
            if stream is None:
                continue
            nonpublic = add(c, stream)
            changed = True
            # a site excused only because it sits in a print-named routine that has no FILE* parameter makes that
            # routine an implicit printer: every call of it is undesignated output of its caller
            if nonpublic and c["func"] and PRINT_ROUTINE.search(c["func"]) and not takes_file(c["func"]) and c["func"] not in implicit:
                implicit.add(c["func"])
        first = False
    out = sorted(rows.values(), key=lambda r: (r["file"], r["line"], r["callee"]))
    stats["implicit_printers"] = sorted(implicit)
    return out, stats


def emit(rows, path=None):
    out = ["(* GENERATED by tools/diag_sites.py from the current source tree — do not edit. *)",
           "From Coq Require Import String List NArith.", "From GmVerif Require Import Sys.Tables.",
           "Import ListNotations.", "Open Scope string_scope.", "",
           "Definition diag_sites : list diag_site := ["]
    items = []
    for r in rows:
        items.append("  mkDiag %s %s %d%%N %s %s %s %s %s %s" % (
            cast.coq_str(r["file"]), cast.coq_str(r["fn"]), r["line"], cast.coq_str(r["callee"]), cast.coq_str(r["stream"]),
            r["cls"], cast.coq_bool(r["inpr"]), r["prov"], cast.coq_str(r["args"])))
    out.append(";\n".join(items))
    out.append("].")
    text = "\n".join(out) + "\n"
    if path:
        if not (os.path.exists(path) and open(path).read() == text):
            cast.write_atomic(path, text)
    return text


if __name__ == "__main__":
    repo = os.environ.get("VERIF_REPO", "/repo")
    build = os.environ.get("VERIF_BUILD", "/verif/build")
    rows, st = table(repo, build)
    emit(rows, os.path.join(os.path.dirname(os.path.dirname(os.path.abspath(__file__))), "coq", "Gen", "DiagSitesTable.v"))
    import collections
    print(st, len(rows), collections.Counter((r["cls"], r["prov"], r["inpr"]) for r in rows))
    for r in rows:
        if r["cls"] == "Data" and not r["inpr"] and r["prov"] != "Public":
            print(r)
