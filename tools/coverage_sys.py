#!/usr/bin/env python3
"""Wave 5: coverage table for C18 / C19 / C20 (unit = site of a source-derived table, plus the entropy-dependent
functions and the printers).  Everything is generated from the same translators the checks use.
P = covered by a per-run instance theorem or a model theorem in Props/Properties_<id>.v
D = executable Coq model compared line by line with the code, no theorem
O = exercised on the implementation with a property oracle only (entropy-failure injection, fd capture, TSan, ASan)
U = not exercised / not analysable here"""
import os, re, sys, collections
ROOT = os.path.dirname(os.path.dirname(os.path.abspath(__file__)))
sys.path.insert(0, ROOT); sys.path.insert(0, os.path.join(ROOT, "tools"))
from vlib import core
import cast, rand_sites, diag_sites, printers
import globals as gl

MODEL = {   # entropy-dependent functions with a Coq model: (status, theorem, differential op)
    "rand_bytes": ("P", "C18_gateway_unix_sound, C18_gateway_unix_failure_is_err, C18_rand_bytes_guard", "rbytes (line-compared with Sys/Gateway.v rand_bytes_unix)"),
    "sm2_z256_rand_range": ("P", "C18_rand_range_in_range, C18_rand_range_bounded, C18_fail_closed", "rr sm2 (line-compared with Sys/Rand.v rand_range)"),
    "sm9_z256_rand_range": ("P", "C18_rand_range_in_range, C18_rand_range_bounded, C18_fail_closed", "rr sm9"),
    "sm2_sign_finish": ("P", "C18_pool_no_reuse, C18_failed_refill_marks_pool_empty", "pooltrace (line-compared with Sys/Rand.v sign_step)"),
    "sm2_fast_sign_pre_compute": ("P", "C18_pool_no_reuse (fill)", "pooltrace"),
    "sm2_sign_init": ("D", "initial pool of pooltrace", "pooltrace"),
    "sm2_key_generate": ("P", "C18_modelled_operations_checked (nonzero_in_range) + C18_fail_closed", "fail / eint sm2_keygen (oracle; model not line-compared)"),
}


def harness_reach(stats):
    fdefs = stats["fdefs"]
    fwd = {}
    for callee, cs in stats["callers"].items():
        for c in cs:
            fwd.setdefault(c, set()).add(callee)
    d = os.path.join(ROOT, "props", "C18")
    inc = "-I%s -I%s/include -I%s/src -I%s" % (os.path.join(ROOT, "harness"), core.REPO, core.REPO, d)
    reach, directs = {}, {}
    for src, roots in (("harness.c", ["op_", "ctx_step", "do_recover", "handle"]), ("hs_harness.c", ["role"])):
        rec = cast.reduce_tu(os.path.join(d, src), inc, "", ROOT)
        hg = {}
        for c in rec["calls"]:
            if c["callee"] and c["func"]:
                hg.setdefault(c["func"], set()).add(c["callee"])
        for root in [f for f in hg if any(f.startswith(r) for r in roots)]:
            seen, work, direct = set(), [root], set()
            while work:
                f = work.pop()
                if f in seen:
                    continue
                seen.add(f)
                for g in hg.get(f, ()):
                    if g in fdefs:
                        direct.add(g)
                    elif g in hg and not g.startswith(("prep", "make_")):
                        work.append(g)
            out, work = set(), list(direct)
            while work:
                f = work.pop()
                if f in out:
                    continue
                out.add(f)
                work.extend(g for g in fwd.get(f, ()) if g in fdefs and g not in out)
            for f in out:
                reach.setdefault(f, set()).add(root)
            for f in direct:
                directs.setdefault(f, set()).add(root)
    return reach, directs


def main():
    core.build_lib("asan"); core.build_lib("fast")
    L = []
    w = L.append
    rows, st = rand_sites.table(core.REPO, core.BUILD)
    drows, dst = diag_sites.table(core.REPO, core.BUILD)
    grows, gst = gl.table(core.REPO, core.BUILD, "fast")
    pr = printers.printers(core.REPO, core.BUILD)
    arows, ast = printers.audit(core.REPO, core.BUILD)
    reach, directs = harness_reach(st)
    sys.path.insert(0, os.path.join(ROOT, 'props', 'C18'))
    import modelcmp
    compared = {'op_' + o for o in list(modelcmp.SCRIPTS) + list(modelcmp.VALS)}
    E = st["E"]
    summary = []
    # ---------------- C18
    w("## C18 — entropy-dependent functions (set E of tools/rand_sites.py, %d functions) and the gateways\n" % len(E))
    w("| file | function | status | theorem or op name | note |\n|---|---|---|---|---|")
    cnt = collections.Counter()
    for f in sorted(E, key=lambda f: (st["fdefs"][f]["file"], f)):
        fd = st["fdefs"][f]
        ops = sorted(reach.get(f, ()))
        if f in MODEL:
            s_, th, op = MODEL[f]
            note = op
        elif directs.get(f, set()) & compared:
            s_, th = "P", "C18_modelled_operations_checked + C18_fail_closed + C18_fail_stops (draw-script model)"
            note = "lens / vals line-compared with Sys/Gateway.v line_script / line_vals via " + ", ".join(sorted(o.replace("op_", "") for o in directs[f] & compared)[:3])
        elif ops:
            s_, th, note = "O", "ops: " + ", ".join(o.replace("op_", "") for o in ops[:4]) + (" …" if len(ops) > 4 else ""), "every draw index fails once; errno/k-attempt faults; same/different streams"
        else:
            s_, th, note = "U", "-", "no harness operation reaches it"
        cnt[s_] += 1
        w("| %s | %s%s | %s | %s | %s |" % (fd["file"], f, " (static)" if fd.get("static") else "", s_, th, note))
    w("| src/rand.c | rand_bytes (HAVE_GETENTROPY off) | P | C18_gateway_urandom_sound, C18_read_loop_all_from_source | ur / urkey (scripted fopen/fread; line-compared with Sys/Gateway.v rand_bytes_urandom) |")
    cnt["P"] += 1
    for f, why in sorted(st["unbuilt_unparsed"].items()):
        t = open(os.path.join(core.REPO, f)).read() if os.path.exists(os.path.join(core.REPO, f)) else ""
        if re.search(r"\b(rand_bytes|_rand_range|sm2_key_generate|SecRandomCopyBytes|CryptGenRandom|BCryptGenRandom)\b", t):
            w("| %s | (whole file) | U | - | does not parse in this environment (%s): %s |" % (f, "optional" if f in st["unbuilt_classes"]["optional"] else "unlisted", why[:70].replace("|", "/")))
            cnt["U"] += 1
    summary.append(("C18 functions of E + gateways", cnt, "before wave 5: rand.c gateway O, rand_bytes/rand_range/pool P without line-differential (now line-compared), the rest O"))
    w("\n### C18 — call sites of members of E (tools/rand_sites.py)\n")
    w("| file | function (site) | status | theorem or op name | note |\n|---|---|---|---|---|")
    c2 = collections.Counter()
    for r in rows:
        w("| %s | %s:%d -> %s | P | all_sites_checked (per-run instance of C18_rand_table_sound) | tests %s vs failure values %s%s |" % (
            r["file"], r["fn"], r["line"], r["callee"], ",".join(r["tests"]), r["fails"], "; injected via " + ",".join(sorted(o.replace("op_", "") for o in reach.get(r["fn"], ()))[:3]) if reach.get(r["fn"]) else ""))
        c2["P"] += 1
    for r in st["optional_rows"]:
        w("| %s | %s:%d -> %s | P | all_optional_sites_checked | optional cmake source |" % (r["file"], r["fn"], r["line"], r["callee"])); c2["P"] += 1
    for r in st["unlisted_rows"]:
        w("| %s | %s:%d -> %s | O | OBSERVATION only (file in no cmake list) | adequate=%s |" % (r["file"], r["fn"], r["line"], r["callee"], rand_sites.py_site_ok(r))); c2["O"] += 1
    summary.append(("C18 call sites (default %d, optional %d, unlisted %d; %d more inside embedded test_* functions not judged)" % (
        len(rows), len(st["optional_rows"]), len(st["unlisted_rows"]), st["unbuilt_test_sites"]), c2, "before wave 5: 123 P, unbuilt sources U"))
    # ---------------- C19
    w("\n## C19 — diagnostic sites (tools/diag_sites.py): %d rows, all P by the per-run instance no_unguarded_data_site (C19_diag_table_sound); per file and class\n" % len(drows))
    w("| file | sites | ErrLine | Const | Data public | Data in explicit print routine | Data secret/unknown outside (violations) |\n|---|---|---|---|---|---|---|")
    byf = collections.defaultdict(collections.Counter)
    for r in drows:
        k = r["cls"] if r["cls"] != "Data" else ("Data-public" if r["prov"] == "Public" else ("Data-printer" if r["inpr"] else "Data-BAD"))
        byf[r["file"]][k] += 1
    for f in sorted(byf):
        c = byf[f]
        w("| %s | %d | %d | %d | %d | %d | %d |" % (f, sum(c.values()), c["ErrLine"], c["Const"], c["Data-public"], c["Data-printer"], c["Data-BAD"]))
    summary.append(("C19 diagnostic sites", collections.Counter({"P": len(drows)}), "unchanged count; rule tightened: a printer that takes FILE* is not excused for stdout/stderr writes"))
    w("\n### C19 — public printers (tools/printers.py)\n")
    w("| file | function | status | theorem or op name | note |\n|---|---|---|---|---|")
    c3 = collections.Counter()
    fd = st["fdefs"]
    recs, _ = cast.facts(core.REPO, core.BUILD)
    fdef_all = {}
    for r in recs:
        for n, f in r["functions"].items():
            if f["has_body"]:
                fdef_all[n] = f
    audited = collections.Counter(r["fn"] for r in arows)
    for fam in "ABC":
        for n in pr[fam]:
            w("| %s | %s | O | printer %s (inflated inner lengths; adjacent secret region; exact-size ASan) | %d audited output calls (P: print_calls_audited) |" % (fdef_all.get(n, {}).get("file", "?"), n, fam, audited.get(n, 0)))
            c3["O"] += 1
    for n, ty in pr["S"]:
        s_ = "U" if ty == "SM3_XMSS_KEY" else "O"
        w("| %s | %s | %s | printer S (valid %s; exact-size block; adjacent region; stdout diverted) | %d audited output calls |" % (fdef_all.get(n, {}).get("file", "?"), n, s_, ty, audited.get(n, 0)))
        c3[s_] += 1
    inrt = set(pr["A"]) | set(pr["B"]) | set(pr["C"]) | {n for n, _ in pr["S"]}
    rest = sorted(f for f in ast["print_functions"] if f not in inrt)
    fwd = {}
    for callee, cs in st["callers"].items():
        for c_ in cs:
            fwd.setdefault(c_, set()).add(callee)
    reached_pr, work = set(), [n for n in inrt if not (n in dict(pr["S"]) and dict(pr["S"])[n] == "SM3_XMSS_KEY")] + ["tls_secrets_print", "tls_pre_master_secret_print"]
    while work:
        f = work.pop()
        if f in reached_pr:
            continue
        reached_pr.add(f)
        work.extend(fwd.get(f, ()))
    for n in rest:
        special = {"tls_secrets_print": "fpprint", "tls_pre_master_secret_print": "fpprint", "format_bytes": "sink of every printer run", "format_print": "sink of every printer run", "format_string": "sink"}
        s_ = "O" if n in special or n in reached_pr else "U"
        w("| %s | %s | %s | %s | %d audited output calls (P: print_calls_audited) |" % (fdef_all.get(n, {}).get("file", "?"), n, s_, special.get(n, "called by an exercised printer (call graph)" if s_ == "O" else "-"), audited.get(n, 0)))
        c3[s_] += 1
    summary.append(("C19 print / trace / format routines (%d)" % (len(inrt) + len(rest)), c3, "before wave 5: 109 O (families A/B/C), struct printers and the rest U"))
    summary.append(("C19 output calls inside print routines (format / length audit)", collections.Counter({"P": len(arows)}), "before wave 5: U (no audit)"))
    # ---------------- C20
    w("\n## C20 — static-storage objects (tools/globals.py): %d rows, all P by the per-run instance no_written_global (C20_globals_table_sound, allow-list with guard)\n" % len(grows))
    w("| file | object | status | theorem | note |\n|---|---|---|---|---|")
    for r in grows:
        if r["writers"] or r["section"] in ("bss", "common"):
            w("| %s | %s | P | no_written_global | %s %s; writers: %s |" % (r["file"], r["name"], r["section"], r["type"], ", ".join(sorted({x[1] for x in r["writers"]})) or "none"))
    w("| (all others) | %d objects in .data / not-writable-in-build | P | no_written_global | writable or const-by-optimisation, no writer |" % sum(1 for r in grows if not r["writers"] and r["section"] not in ("bss", "common")))
    summary.append(("C20 static-storage objects", collections.Counter({"P": len(grows)}), "theorem now names (object, function, guard) triples"))
    head = ["# Coverage of builder-sys (C18, C19, C20) — generated by tools/coverage_sys.py\n",
            "Unit = site of a source-derived table (plus the entropy-dependent functions and the print routines). P/D/O/U as in work/wave5_coverage.md.\n",
            "| table | P | D | O | U | before wave 5 |\n|---|---|---|---|---|---|"]
    for name, c, before in summary:
        head.append("| %s | %d | %d | %d | %d | %s |" % (name, c["P"], c["D"], c["O"], c["U"], before))
    open(os.path.join(ROOT, "work", "coverage_sys.md"), "w").write("\n".join(head) + "\n\n" + "\n".join(L) + "\n")
    for name, c, before in summary:
        print(name, dict(c))


if __name__ == "__main__":
    main()
