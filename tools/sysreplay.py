"""--replay for C18/C19/C20: re-execute a stored operation line on the current tree with the harness
it belongs to, or re-evaluate a stored table row against the regenerated table."""
import json, os, sys
sys.path.insert(0, os.path.dirname(os.path.dirname(os.path.abspath(__file__))))
from vlib import core

C18DIR = os.path.join(core.ROOT, "props", "C18")


def harness_for(op):
    w = op.split()[0]
    if w == "hs":
        return core.build_harness("C18hs", "asan", sources=[os.path.join(C18DIR, "hs_harness.c")], extra="-I%s -no-pie -Wl,--wrap=tls_pre_master_secret_generate" % C18DIR)
    if w in ("ur", "urkey"):
        return core.build_harness("C18ur", "asan", sources=[os.path.join(C18DIR, "ur_harness.c"), os.path.join(core.REPO, "src", "rand.c")],
                                  extra="-Wl,--wrap=fopen,--wrap=fread,--wrap=fclose")
    if w == "printer":
        return core.build_harness("C19pr", "asan", sources=[os.path.join(core.ROOT, "props", "C19", "pr_harness.c")],
                                  extra="-I%s -I%s" % (C18DIR, os.path.join(core.BUILD, "gen_c19")))
    if w in ("diag", "hexodd"):
        return core.build_harness("C19", "asan", extra="-I" + C18DIR)
    if w == "conc":
        return core.build_harness("C20", "asan", extra="-I" + C18DIR)
    return core.build_harness("C18", "asan")


def replay(path):
    r = json.load(open(path))
    rp = r.get("replay", {})
    print("key:     ", r.get("key"))
    print("text:    ", r.get("text", "")[:400])
    op = rp.get("op")
    if op:
        exe, log = harness_for(op)
        if exe is None:
            print(log[-2000:])
            return 1
        variant = rp.get("variant", "asan")
        if variant == "tsan" and op.startswith("conc"):
            exe, log = core.build_harness("C20", "tsan", extra="-I" + C18DIR)
        out, err = core.run_lines(exe, [op], shards=1, env={"VERIF_STDERR": "1", "TSAN_OPTIONS": "halt_on_error=0 exitcode=0"})
        print("op:      ", op)
        print("then:    ", str(rp.get("impl"))[:300])
        print("now:     ", out[0][:300])
        print("expected:", rp.get("expected"))
        if "ThreadSanitizer" in err:
            print("stderr:  ", err[-1500:])
        return 0
    row = rp.get("row")
    if row:
        print("table row stored in the replay:", json.dumps(row)[:600])
        prop = r.get("property")
        sys.path.insert(0, os.path.join(core.ROOT, "tools"))
        core.build_lib("asan")
        if prop == "C18":
            import rand_sites
            rows, _ = rand_sites.table(core.REPO, core.BUILD, "asan")
            now = [x for x in rows if x["file"] == row["file"] and x["fn"] == row["fn"] and x["callee"] == row["callee"]]
        elif prop == "C19":
            import diag_sites
            rows, _ = diag_sites.table(core.REPO, core.BUILD, "asan")
            now = [x for x in rows if x["file"] == row["file"] and x["fn"] == row["fn"] and x["callee"] == row["callee"]]
        else:
            import globals as gl
            core.build_lib("fast")
            rows, _ = gl.table(core.REPO, core.BUILD, "fast")
            now = [x for x in rows if x["file"] == row["file"] and x["name"] == row["name"]]
        print("rows of the regenerated table for the same site/object:")
        for x in now:
            print("  ", json.dumps(x)[:500])
        if not now:
            print("   (none: the site/object no longer exists)")
        return 0
    print("replay names a proof obligation / relation, not an input:", json.dumps(rp)[:1500])
    return 0
