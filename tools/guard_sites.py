"""C09 translator: the authentication guards of the six handshake drivers, as they stand in the
current source tree.

For each of tlcp_do_connect/accept, tls12_do_connect/accept, tls13_do_connect/accept (clang JSON AST
of src/tlcp.c, src/tls12.c, src/tls13.c, compile flags from <build>/lib_<variant>/build.ninja) walk the
function body in source order and emit one row per

  * call of a guard function (GUARDS below), with
      tested  = the call sits in the condition of an `if` whose then-branch leaves the function
                unsuccessfully (contains `goto end` / `return`), and the comparison applied to the
                call's result (e.g. "!=1", "!=0");  "unchecked" if the result is not tested that way
      ctx     = the conditions of the enclosing `if` blocks between the function's top level and the
                call (normalised source text, "!" prefix for else-branches, "loop"/"switch" for those)
  * success exit (`ret = 1` / `return 1`), with its ctx.

A guard dominates the success exit (in the approximation used here) iff it is tested and its ctx
is a prefix-compatible subset of what the Coq model allows (top level, or one of the
client-auth / anchors-configured conditions).  Nothing is decided here: the rows go to
coq/Gen/GuardSitesTable.v and Coq checks them against the lists Tls/Handshake.v assumes.
"""
import hashlib, json, os, re, subprocess, sys
sys.path.insert(0, os.path.dirname(os.path.abspath(__file__)))
import cast

DRIVERS = [("src/tlcp.c", "tlcp_do_connect"), ("src/tlcp.c", "tlcp_do_accept"),
           ("src/tls12.c", "tls12_do_connect"), ("src/tls12.c", "tls12_do_accept"),
           ("src/tls13.c", "tls13_do_connect"), ("src/tls13.c", "tls13_do_accept")]
GUARDS = {"x509_certs_verify", "x509_certs_verify_tlcp", "tls_verify_server_ecdh_params", "sm2_verify_finish",
          "tls13_verify_certificate_verify", "tls_client_verify_finish", "memcmp", "gmssl_secure_memcmp",
          "tls_record_get_handshake_certificate", "tls13_record_get_handshake_certificate", "tls13_process_certificate_list",
          "x509_certs_get_cert_by_index", "sm2_decrypt", "tls_record_decrypt", "tls13_record_decrypt"}
VERSION = "5"


def _text(src, node):
    r = node.get("range", {})
    b, e = r.get("begin", {}), r.get("end", {})
    b = b.get("expansionLoc", b); e = e.get("expansionLoc", e)
    if "offset" not in b or "offset" not in e:
        return "?"
    return re.sub(r"\s+", "", src[b["offset"]: e["offset"] + e.get("tokLen", 1)].decode("utf-8", "replace"))


def _line(node, state):
    b = node.get("range", {}).get("begin", {})
    b = b.get("expansionLoc", b)
    if "line" in b:
        state["line"] = b["line"]
    return state["line"]


def _callee(n):
    if n.get("kind") != "CallExpr" or not n.get("inner"):
        return None
    f = n["inner"][0]
    while f.get("kind") in ("ImplicitCastExpr", "ParenExpr") and f.get("inner"):
        f = f["inner"][0]
    if f.get("kind") == "DeclRefExpr":
        return f.get("referencedDecl", {}).get("name")
    return None


def _leaves(n):
    """does the statement leave the function unsuccessfully (goto / return somewhere inside)?"""
    if n.get("kind") in ("GotoStmt", "ReturnStmt"):
        return True
    return any(_leaves(c) for c in n.get("inner", []) if isinstance(c, dict))


def _calls_in(n, src, state, path):
    """guard calls inside an expression: yields (callee, line, comparison applied to the result)"""
    if not isinstance(n, dict):
        return
    _line(n, state)
    name = _callee(n)
    if name in GUARDS:
        if name in ("memcmp", "gmssl_secure_memcmp"):
            # which two buffers are compared is part of the guard (comparing a value with itself checks nothing)
            args = [c for c in n.get("inner", [])[1:3]]
            name = name + "(" + ",".join(_text(src, a) for a in args) + ")"
        test = "unchecked"
        child = n
        rest = []
        for k, p in enumerate(reversed(path)):
            if p.get("kind") == "BinaryOperator" and p.get("opcode") in ("!=", "==", "<", ">", "<=", ">="):
                other = [c for c in p.get("inner", []) if c is not child]
                test = p["opcode"] + (_text(src, other[0]) if other else "?")
                rest = list(reversed(path))[k + 1:]
                child = p
                break
            if p.get("kind") == "UnaryOperator" and p.get("opcode") == "!":
                test = "!"
                rest = list(reversed(path))[k + 1:]
                child = p
                break
            if p.get("kind") not in ("ImplicitCastExpr", "ParenExpr", "CStyleCastExpr"):
                break
            child = p
        # the failing comparison alone must make the whole condition true: between it and the root of
        # the condition only `||` (and parentheses) may occur; anything else (&&, ?:, !) weakens the guard
        for p in rest:
            if p.get("kind") in ("ImplicitCastExpr", "ParenExpr"):
                child = p; continue
            if p.get("kind") == "BinaryOperator" and p.get("opcode") == "||":
                child = p; continue
            other = [c for c in p.get("inner", []) if c is not child]
            test = "weakened:" + test + ":" + str(p.get("opcode", p.get("kind"))) + ":" + (_text(src, other[0]) if other else "?")
            break
        yield (name, state["line"], test)
    for c in n.get("inner", []):
        yield from _calls_in(c, src, state, path + [n])


def _walk(n, src, ctx, rows, state):
    if not isinstance(n, dict):
        return
    k = n.get("kind")
    _line(n, state)
    if k == "IfStmt":
        inner = [c for c in n.get("inner", []) if isinstance(c, dict)]
        cond, then = inner[0], inner[1] if len(inner) > 1 else {}
        els = inner[2] if len(inner) > 2 else None
        calls = list(_calls_in(cond, src, state, []))
        if calls:
            aborts = _leaves(then)
            for (name, line, test) in calls:
                rows.append({"kind": "guard", "callee": name, "line": line, "test": test if aborts else "noabort:" + test, "ctx": list(ctx)})
            _walk(then, src, ctx + ["after:" + calls[0][0]] if not aborts else ctx + ["abort"], rows, state)
            if els:
                _walk(els, src, ctx, rows, state)
        else:
            c = _text(src, cond)
            _walk(then, src, ctx + [c], rows, state)
            if els:
                _walk(els, src, ctx + ["!" + c], rows, state)
        return
    if k in ("WhileStmt", "ForStmt", "DoStmt", "SwitchStmt"):
        for c in n.get("inner", []):
            _walk(c, src, ctx + ["loop" if k != "SwitchStmt" else "switch"], rows, state)
        return
    if k == "BinaryOperator" and n.get("opcode") == "=":
        lhs, rhs = n["inner"][0], n["inner"][1]
        while rhs.get("kind") in ("ImplicitCastExpr", "ParenExpr") and rhs.get("inner"):
            rhs = rhs["inner"][0]
        if lhs.get("kind") == "DeclRefExpr" and lhs.get("referencedDecl", {}).get("name") == "ret" \
                and rhs.get("kind") == "IntegerLiteral" and rhs.get("value") == "1":
            rows.append({"kind": "success", "callee": "ret=1", "line": state["line"], "test": "-", "ctx": list(ctx)})
            return
    if k == "ReturnStmt":
        v = n.get("inner", [{}])[0] if n.get("inner") else {}
        while v.get("kind") in ("ImplicitCastExpr", "ParenExpr") and v.get("inner"):
            v = v["inner"][0]
        if v.get("kind") == "IntegerLiteral" and v.get("value") == "1":
            rows.append({"kind": "success", "callee": "return1", "line": state["line"], "test": "-", "ctx": list(ctx)})
        return
    if k in ("CompoundStmt", "LabelStmt", "DeclStmt", "VarDecl", "CaseStmt", "DefaultStmt"):
        for c in n.get("inner", []):
            _walk(c, src, ctx, rows, state)
        return
    # any other statement / expression: guard calls here are not tested by an aborting `if`
    for (name, line, test) in _calls_in(n, src, state, []):
        rows.append({"kind": "guard", "callee": name, "line": line, "test": "unchecked", "ctx": list(ctx)})


def extract_file(path, incs, defs, wanted):
    cmd = ["clang", "-fsyntax-only", "-Xclang", "-ast-dump=json", "-w"] + incs.split() + defs.split() + [path]
    p = subprocess.run(cmd, stdout=subprocess.PIPE, stderr=subprocess.PIPE)
    if p.returncode != 0:
        raise RuntimeError("clang failed on %s: %s" % (path, p.stderr.decode()[-500:]))
    tu = json.loads(p.stdout)
    src = open(path, "rb").read()
    out = {}
    state = {"line": 0}
    for d in tu.get("inner", []):
        _line(d, state)
        if d.get("kind") == "FunctionDecl" and d.get("name") in wanted:
            body = [c for c in d.get("inner", []) if c.get("kind") == "CompoundStmt"]
            if not body:
                continue
            rows = []
            _walk(body[0], src, [], rows, state)
            out[d["name"]] = rows
    return out


def table(repo, build_dir, variant="asan"):
    repo = os.path.abspath(repo)
    flags = {os.path.relpath(s, repo): (d, i) for (s, d, i) in cast.source_list(build_dir, variant)}
    cache = os.path.join(build_dir, "astcache"); os.makedirs(cache, exist_ok=True)
    res = {}
    for f in sorted({f for f, _ in DRIVERS}):
        defs, incs = flags[f]
        src = os.path.join(repo, f)
        pp = subprocess.run(["clang", "-E", "-w"] + incs.split() + defs.split() + [src], stdout=subprocess.PIPE, stderr=subprocess.PIPE)
        key = hashlib.sha256(VERSION.encode() + pp.stdout.replace(repo.encode(), b"$REPO") + open(src, "rb").read()).hexdigest()[:32]
        cp = os.path.join(cache, "guard_" + key + ".json")
        if os.path.exists(cp):
            res.update(json.load(open(cp)))
            continue
        r = extract_file(src, incs, defs, {n for ff, n in DRIVERS if ff == f})
        tmp = cp + ".%d" % os.getpid()
        json.dump(r, open(tmp, "w")); os.replace(tmp, cp)
        res.update(r)
    return res


def emit(tab, path=None):
    q = cast.coq_str
    out = ["(* GENERATED by tools/guard_sites.py from the current source tree -- do not edit. *)",
           "From Coq Require Import String List.", "From GmVerif Require Import Tls.GuardSites.", "Import ListNotations.", "Local Open Scope string_scope.",
           "(* rows: (kind, callee, comparison applied to the result, enclosing conditions, line) : GuardSites.guard_row *)"]
    for _, fn in DRIVERS:
        rows = tab.get(fn, [])
        out.append("Definition sites_%s : list guard_row := [" % fn)
        out.append(";\n".join('  (%s, %s, %s, [%s], %d)' % (q(r["kind"]), q(r["callee"]), q(r["test"]), "; ".join(q(c) for c in r["ctx"]), r["line"]) for r in rows))
        out.append("].")
    text = "\n".join(out) + "\n"
    if path:
        cast.write_atomic(path, text)
    return text


if __name__ == "__main__":
    repo = os.environ.get("VERIF_REPO", "/repo")
    build = os.environ.get("VERIF_BUILD", os.path.join(os.path.dirname(os.path.dirname(os.path.abspath(__file__))), "build"))
    t = table(repo, build)
    for _, fn in DRIVERS:
        print("==", fn)
        for r in t.get(fn, []):
            print("  %4d %-8s %-40s %-12s %s" % (r["line"], r["kind"], r["callee"], r["test"], " & ".join(r["ctx"])))
