#!/usr/bin/env python3
"""Run every source-to-Coq translator whose output is listed in coq/_CoqProject, so that a
fresh checkout can build (the generated files are git-ignored and regenerated on every check)."""
import os, sys, importlib, traceback
ROOT = os.path.dirname(os.path.dirname(os.path.abspath(__file__)))
sys.path.insert(0, ROOT); sys.path.insert(0, os.path.join(ROOT, "tools"))
from vlib import core
GENS = ["consts_sm4", "consts_hash", "consts_sm2"]      # modules under tools/ with generate(repo)
os.makedirs(os.path.join(ROOT, "coq", "Gen"), exist_ok=True)
rc = 0
for g in GENS:
    if not os.path.exists(os.path.join(ROOT, "tools", g + ".py")):
        continue
    try:
        importlib.import_module(g).generate(core.REPO)
    except Exception:
        traceback.print_exc(); rc = 1
sys.exit(rc)
