#!/usr/bin/env python3
"""Confirm a seeded breaking change: it compiles, the pinned suite still passes with it,
its demonstration fails with it and passes without it.
usage: confirm_seed.py <name> <patch.diff> <demo.c> [--demo-cmake "-DENABLE_SMALL_FOOTPRINT=ON"]
Works in a scratch worktree under /tmp and removes it."""
import sys, os, subprocess, json, re, shutil
name, patch, demo = sys.argv[1:4]
demo_cmake = []
if "--demo-cmake" in sys.argv:
    demo_cmake = sys.argv[sys.argv.index("--demo-cmake") + 1].split()
wt = "/tmp/seedchk_" + name
base = json.load(open("/root/.vp/BASELINE.json"))["stable_pass"]
def sh(cmd, **kw):
    p = subprocess.run(cmd, shell=True, stdout=subprocess.PIPE, stderr=subprocess.STDOUT, **kw)
    return p.returncode, p.stdout.decode("utf-8", "replace")
res = {"name": name}
try:
    sh("git -C /repo worktree remove --force %s" % wt)
    rc, o = sh("git -C /repo worktree add %s HEAD" % wt); assert rc == 0, o
    rc, o = sh("git -C %s apply %s" % (wt, os.path.abspath(patch))); assert rc == 0, "patch does not apply: " + o
    rc, o = sh("cmake -G Ninja -S %s -B %s/_b >/dev/null && cmake --build %s/_b" % (wt, wt, wt))
    res["compiles"] = rc == 0
    assert rc == 0, o[-2000:]
    rc, o = sh("ctest --test-dir %s/_b -j8 --timeout 900" % wt)
    failed = set(re.findall(r"^\s*\d+ - (\S+) \(", o, re.M))
    res["suite_failed"] = sorted(failed)
    res["suite_ok"] = all(t.split("::")[0] not in failed for t in base)
    def run_demo(tag):
        b = "%s/_b" % wt
        if demo_cmake:
            b = "%s/_bd" % wt
            rc, o = sh("cmake -G Ninja -S %s -B %s %s >/dev/null && cmake --build %s --target gmssl" % (wt, b, " ".join(demo_cmake), b))
            assert rc == 0, o[-2000:]
        rc, o = sh("gcc -O1 -I%s/include -o %s/demo_%s %s -L%s/bin -lgmssl -lpthread -Wl,-rpath,%s/bin" % (wt, wt, tag, os.path.abspath(demo), b, b))
        assert rc == 0, "demo build: " + o[-2000:]
        rc, o = sh("%s/demo_%s" % (wt, tag), timeout=1800)
        return rc, o[-1500:]
    rc1, o1 = run_demo("with")
    res["demo_with_change_rc"] = rc1
    res["demo_with_change_out"] = o1
    sh("git -C %s checkout -- ." % wt)
    rc, o = sh("cmake --build %s/_b" % wt); assert rc == 0
    rc0, o0 = run_demo("without")
    res["demo_without_change_rc"] = rc0
    res["confirmed"] = bool(res["compiles"] and res["suite_ok"] and rc1 != 0 and rc0 == 0)
except AssertionError as e:
    res["error"] = str(e)[-3000:]
    res["confirmed"] = False
finally:
    sh("git -C /repo worktree remove --force %s" % wt)
    shutil.rmtree(wt, ignore_errors=True)
print(json.dumps(res, indent=1))
