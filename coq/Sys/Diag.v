(* C19 — model of the diagnostic channel.  An operation has a finite list of emission sites; on an
   execution a *path* (which sites fire, in which order — decided by public and secret inputs, e.g.
   "the MAC check failed") selects the events, and each site renders its payload either from the
   public inputs alone or from the secret as well.  Theorems: if every site of an operation is
   public-sourced, the diagnostic stream is a function of the public input and the path only
   (noninterference relative to the control path; absolute noninterference when the path does not
   depend on the secret); a single secret-sourced site that fires breaks it (witness). *)
From Coq Require Import List String Bool NArith.
Import ListNotations.

Section Diag.
Variables pub sec : Type.

Inductive payload := PNone | PText (s : string) | PBytes (b : list N).

Inductive source :=
| FromPub (f : pub -> payload)               (* ErrLine, Const, Data with public arguments *)
| FromSec (g : pub -> sec -> payload).       (* Data whose argument is secret material *)

Record site := mkSiteM { site_id : string; site_src : source }.

Definition event := (string * payload)%type.

Definition emit (p : pub) (s : sec) (st : site) : event :=
  (site_id st, match site_src st with FromPub f => f p | FromSec g => g p s end).

(* public rendering: what a public-sourced site writes; the placeholder for a secret-sourced one *)
Definition render (p : pub) (st : site) : event :=
  (site_id st, match site_src st with FromPub f => f p | FromSec _ => PNone end).

Definition site_public (st : site) : bool :=
  match site_src st with FromPub _ => true | FromSec _ => false end.

Record operation := mkOperation {
  sites : list site;
  path : pub -> sec -> list nat          (* indices of the sites that fire, in order *)
}.

Definition fired (o : operation) (p : pub) (s : sec) : list site :=
  flat_map (fun i => match nth_error (sites o) i with Some st => [st] | None => [] end) (path o p s).

Definition diag (o : operation) (p : pub) (s : sec) : list event := map (emit p s) (fired o p s).

Lemma emit_public : forall p s st, site_public st = true -> emit p s st = render p st.
Proof. intros p s [id [f|g]] H; cbn in *; [reflexivity|discriminate]. Qed.

Lemma fired_in : forall o p s st, In st (fired o p s) -> In st (sites o).
Proof.
  intros o p s st H. unfold fired in H. apply in_flat_map in H. destruct H as [i [_ Hi]].
  destruct (nth_error (sites o) i) as [x|] eqn:E; cbn in Hi; [|contradiction].
  destruct Hi as [Hi|[]]. subst. eapply nth_error_In; eauto.
Qed.

(* the stream is determined by the public input and the control path *)
Theorem diag_determined_by_path : forall o,
  forallb site_public (sites o) = true ->
  forall p s, diag o p s = map (render p) (fired o p s).
Proof.
  intros o H p s. unfold diag. apply map_ext_in. intros st Hin.
  apply emit_public. rewrite forallb_forall in H. apply H. eapply fired_in; eauto.
Qed.

Theorem noninterference : forall o,
  forallb site_public (sites o) = true ->
  forall p s1 s2, path o p s1 = path o p s2 -> diag o p s1 = diag o p s2.
Proof.
  intros o H p s1 s2 Hp. rewrite !(diag_determined_by_path o H).
  unfold fired. rewrite Hp. reflexivity.
Qed.

(* operations whose control path is independent of the secret (every success path of the
   library's operations is of this kind: no site fires) *)
Corollary noninterference_secret_independent_path : forall o,
  forallb site_public (sites o) = true ->
  (forall p s1 s2, path o p s1 = path o p s2) ->
  forall p s1 s2, diag o p s1 = diag o p s2.
Proof. intros o H Hp p s1 s2. apply noninterference; auto. Qed.

(* no event of a public-sited operation carries a payload computed from the secret *)
Theorem no_secret_payload : forall o,
  forallb site_public (sites o) = true ->
  forall p s e, In e (diag o p s) -> exists st, In st (sites o) /\ e = render p st.
Proof.
  intros o H p s e He. rewrite (diag_determined_by_path o H) in He.
  apply in_map_iff in He. destruct He as [st [E Hin]]. exists st. split; [eapply fired_in; eauto|auto].
Qed.

End Diag.

(* witness: one secret-sourced site on the path (the shape of tls_secrets_print(stderr, ...,
   master_secret, key_block) in tls12.c) makes the stream depend on the secret although the path is
   the same *)
Module DiagWitness.
  Definition dump : site unit (list N) := mkSiteM _ _ "tls12.c:tls12_do_connect:tls_secrets_print" (FromSec _ _ (fun _ k => PBytes k)).
  Definition hs : operation unit (list N) := mkOperation _ _ [dump] (fun _ _ => [0%nat]).
  Example secret_site_interferes :
    path _ _ hs tt [1%N] = path _ _ hs tt [2%N] /\ diag _ _ hs tt [1%N] <> diag _ _ hs tt [2%N].
  Proof. split; [reflexivity|cbv; intro H; discriminate]. Qed.
End DiagWitness.
