(* C18 — the entropy gateway and its callers as computations over an entropy stream.
   A stream has one entry per getentropy() call: [Some bytes] or [None] (the source fails); it is
   a function of the draw index, so "the i-th draw fails" is [src i = None].  Computations are trees
   of draws; a draw whose result is tested ([Draw]) ends the computation with [Err] when the entry
   is [None]; a draw whose result is ignored ([DrawIgnore], the shape of the unchecked call sites in
   tlcp.c / tls12.c / tls13.c) continues with whatever the buffer held.  Theorems (by induction on
   the computation, for every stream):
     no_reuse            every index is served at most once, in order (monotone draw index), over
                         any history of operations
     prefix_determined   the result is a function of the consumed entries only (same stream =>
                         same output; nothing else is an input)
     fail_closed         if a consumed entry is [None] the result is [Err] — for computations made
                         of checked draws only; refuted by a witness for an ignored draw
   and the gateway functions rand_bytes (length guard), rand_range (rejection sampling, 100 tries),
   key generation and nonce selection as instances. *)
From Coq Require Import List NArith Arith Bool Lia.
Import ListNotations.

Inductive res (A : Type) := Ok (a : A) | Zero | Err.
Arguments Ok {A} a. Arguments Zero {A}. Arguments Err {A}.

Definition stream := nat -> option (list N).
Record est := mkE { drawn : nat; log : list nat }.

Definition adv (e : est) : est := mkE (S (drawn e)) (log e ++ [drawn e]).

Definition take (len : nat) (b : list N) : list N := firstn len (b ++ repeat 0%N len).
Lemma take_length : forall len b, length (take len b) = len.
Proof. intros. unfold take. rewrite firstn_length, app_length, repeat_length. lia. Qed.
Arguments take : simpl never.

(* rand_bytes refuses len = 0 and len > 256 before touching the source *)
Definition len_ok (len : nat) : bool := negb (len =? 0) && (len <=? 256).

Inductive comp (A : Type) :=
| Ret (r : res A)
| Draw (len : nat) (k : list N -> comp A)                            (* if (rand_bytes(buf,len) != 1) return -1; k buf *)
| DrawIgnore (len : nat) (garbage : list N) (k : list N -> comp A).  (* rand_bytes(buf,len); k buf — result ignored *)
Arguments Ret {A} r. Arguments Draw {A} len k. Arguments DrawIgnore {A} len garbage k.

Fixpoint run {A} (src : stream) (c : comp A) (e : est) : res A * est :=
  match c with
  | Ret r => (r, e)
  | Draw len k =>
      if len_ok len then
        match src (drawn e) with
        | None => (Err, adv e)
        | Some b => run src (k (take len b)) (adv e)
        end
      else (Err, e)
  | DrawIgnore len g k =>
      if len_ok len then
        match src (drawn e) with
        | None => run src (k g) (adv e)
        | Some b => run src (k (take len b)) (adv e)
        end
      else run src (k g) e
  end.

Inductive checked {A} : comp A -> Prop :=
| ck_ret : forall r, checked (Ret r)
| ck_draw : forall len k, (forall b, checked (k b)) -> checked (Draw len k).

Fixpoint bind {A B} (c : comp A) (f : A -> comp B) : comp B :=
  match c with
  | Ret (Ok a) => f a
  | Ret Zero => Ret Zero
  | Ret Err => Ret Err
  | Draw len k => Draw len (fun b => bind (k b) f)
  | DrawIgnore len g k => DrawIgnore len g (fun b => bind (k b) f)
  end.

Lemma checked_bind : forall A B (c : comp A) (f : A -> comp B),
  checked c -> (forall a, checked (f a)) -> checked (bind c f).
Proof.
  intros A B c f Hc Hf. induction Hc as [r|len k Hk IH]; cbn.
  - destruct r; auto; constructor.
  - constructor. intro b. apply IH.
Qed.

(* ------------------------------------------------------------------ linearity / no reuse *)
Lemma run_linear : forall A src (c : comp A) e,
  drawn e <= drawn (snd (run src c e)) /\
  log (snd (run src c e)) = log e ++ seq (drawn e) (drawn (snd (run src c e)) - drawn e).
Proof.
  intros A src c. induction c as [r|len k IH|len g k IH]; intro e; cbn [run].
  - cbn. rewrite Nat.sub_diag. cbn. rewrite app_nil_r. auto.
  - destruct (len_ok len); [|cbn; rewrite Nat.sub_diag; cbn; rewrite app_nil_r; auto].
    destruct (src (drawn e)) as [b|].
    + destruct (IH (take len b) (adv e)) as [H1 H2]. cbn [drawn log adv] in H1, H2.
      split; [lia|]. rewrite H2, <- app_assoc.
      replace (drawn (snd (run src (k (take len b)) (adv e))) - drawn e)
        with (S (drawn (snd (run src (k (take len b)) (adv e))) - S (drawn e))) by lia.
      reflexivity.
    + cbn [snd adv drawn log]. split; [lia|]. replace (S (drawn e) - drawn e) with 1 by lia. reflexivity.
  - assert (Hstay : drawn e <= drawn (snd (run src (k g) e)) /\
        log (snd (run src (k g) e)) = log e ++ seq (drawn e) (drawn (snd (run src (k g) e)) - drawn e)) by apply IH.
    destruct (len_ok len); [|exact Hstay].
    destruct (src (drawn e)) as [b|].
    + destruct (IH (take len b) (adv e)) as [H1 H2]. cbn [drawn log adv] in H1, H2.
      split; [lia|]. rewrite H2, <- app_assoc.
      replace (drawn (snd (run src (k (take len b)) (adv e))) - drawn e)
        with (S (drawn (snd (run src (k (take len b)) (adv e))) - S (drawn e))) by lia.
      reflexivity.
    + destruct (IH g (adv e)) as [H1 H2]. cbn [drawn log adv] in H1, H2.
      split; [lia|]. rewrite H2, <- app_assoc.
      replace (drawn (snd (run src (k g) (adv e))) - drawn e)
        with (S (drawn (snd (run src (k g) (adv e))) - S (drawn e))) by lia.
      reflexivity.
Qed.

(* a whole history of operations (their results may be used or thrown away) in one stream *)
Fixpoint run_all {A} (src : stream) (cs : list (comp A)) (e : est) : list (res A) * est :=
  match cs with
  | [] => ([], e)
  | c :: r => let (x, e1) := run src c e in let (xs, e2) := run_all src r e1 in (x :: xs, e2)
  end.

Lemma run_all_linear : forall A src (cs : list (comp A)) e,
  drawn e <= drawn (snd (run_all src cs e)) /\
  log (snd (run_all src cs e)) = log e ++ seq (drawn e) (drawn (snd (run_all src cs e)) - drawn e).
Proof.
  intros A src cs. induction cs as [|c r IH]; intro e; cbn [run_all].
  - cbn. rewrite Nat.sub_diag. cbn. rewrite app_nil_r. auto.
  - destruct (run_linear A src c e) as [A1 A2].
    destruct (run src c e) as [x e1] eqn:E1. cbn [snd] in A1, A2.
    destruct (IH e1) as [B1 B2].
    destruct (run_all src r e1) as [xs e2] eqn:E2. cbn [snd] in *.
    split; [lia|]. rewrite B2, A2, <- app_assoc.
    replace (drawn e2 - drawn e) with ((drawn e1 - drawn e) + (drawn e2 - drawn e1)) by lia.
    rewrite seq_app. replace (drawn e + (drawn e1 - drawn e)) with (drawn e1) by lia. reflexivity.
Qed.

(* successive operations consume disjoint, consecutive slices: from a fresh state the log of served
   entry indices is 0,1,2,... — no index is served twice, whatever the operations are and whether
   or not their results are looked at *)
Theorem no_reuse : forall A src (cs : list (comp A)),
  let e' := snd (run_all src cs (mkE 0 [])) in
  log e' = seq 0 (drawn e') /\ NoDup (log e').
Proof.
  intros A src cs e'. destruct (run_all_linear A src cs (mkE 0 [])) as [_ H]. fold e' in H. cbn in H.
  rewrite Nat.sub_0_r in H. split; [exact H|]. rewrite H. apply seq_NoDup.
Qed.

(* ------------------------------------------------------------------ determinism *)
(* the outcome depends only on the entries consumed: any stream that agrees with [src] on the
   indices drawn gives the same result and the same final state *)
Theorem prefix_determined : forall A src (c : comp A) e src',
  (forall i, drawn e <= i < drawn (snd (run src c e)) -> src' i = src i) ->
  run src' c e = run src c e.
Proof.
  intros A src c. induction c as [r|len k IH|len g k IH]; intros e src' H; cbn [run] in *.
  - reflexivity.
  - destruct (len_ok len); [|reflexivity].
    assert (Hd : src' (drawn e) = src (drawn e)).
    { apply H. destruct (src (drawn e)) as [b|].
      - destruct (run_linear A src (k (take len b)) (adv e)) as [L _]. cbn in L. lia.
      - cbn. lia. }
    rewrite Hd. destruct (src (drawn e)) as [b|]; [|reflexivity].
    apply IH. intros i Hi. apply H. cbn in Hi. lia.
  - destruct (len_ok len).
    2:{ apply IH. exact H. }
    assert (Hd : src' (drawn e) = src (drawn e)).
    { apply H. destruct (src (drawn e)) as [b|].
      - destruct (run_linear A src (k (take len b)) (adv e)) as [L _]. cbn in L. lia.
      - destruct (run_linear A src (k g) (adv e)) as [L _]. cbn in L. lia. }
    rewrite Hd. destruct (src (drawn e)) as [b|]; apply IH; intros i Hi; apply H; cbn in Hi; lia.
Qed.

Corollary deterministic : forall A (c : comp A) e src src',
  (forall i, src' i = src i) -> run src' c e = run src c e.
Proof. intros. apply prefix_determined. auto. Qed.

(* ------------------------------------------------------------------ fail closed *)
Theorem fail_closed : forall A src (c : comp A) e,
  checked c ->
  (exists i, drawn e <= i < drawn (snd (run src c e)) /\ src i = None) ->
  fst (run src c e) = Err.
Proof.
  intros A src c e Hc. revert e. induction Hc as [r|len k Hk IH]; intros e [i [Hi Hn]]; cbn [run] in *.
  - cbn in Hi. lia.
  - destruct (len_ok len); [|reflexivity].
    destruct (src (drawn e)) as [b|] eqn:E; [|reflexivity].
    apply IH. exists i. split; [|exact Hn]. cbn [drawn adv].
    assert (i <> drawn e) by (intro; subst; congruence). lia.
Qed.

(* and a failed run of a checked computation stops at the failing draw: nothing after it is drawn *)
Theorem fail_stops : forall A src (c : comp A) e,
  checked c -> forall i, drawn e <= i < drawn (snd (run src c e)) -> src i = None ->
  drawn (snd (run src c e)) = S i.
Proof.
  intros A src c e Hc. revert e. induction Hc as [r|len k Hk IH]; intros e i Hi Hn; cbn [run] in *.
  - cbn in Hi. lia.
  - destruct (len_ok len); [|cbn in Hi; lia].
    destruct (src (drawn e)) as [b|] eqn:E.
    + apply IH; [|exact Hn]. cbn [drawn adv]. assert (i <> drawn e) by (intro; subst; congruence). lia.
    + cbn in *. lia.
Qed.

(* ------------------------------------------------------------------ the gateway functions *)
Definition rand_bytes (len : nat) : comp (list N) := Draw len (fun b => Ret (Ok b)).

Lemma rand_bytes_guard : forall src len e, len = 0 \/ 256 < len -> run src (rand_bytes len) e = (Err, e).
Proof.
  intros src len e H. unfold rand_bytes. cbn [run]. unfold len_ok.
  destruct H as [H|H].
  - subst. reflexivity.
  - destruct (len =? 0); cbn; [reflexivity|]. apply Nat.leb_gt in H. rewrite H. reflexivity.
Qed.

Lemma rand_bytes_ok : forall src len e b, len_ok len = true -> src (drawn e) = Some b ->
  run src (rand_bytes len) e = (Ok (take len b), adv e).
Proof. intros. unfold rand_bytes. cbn [run]. rewrite H, H0. reflexivity. Qed.

(* the 32 bytes are read as four little-endian 64-bit limbs, limb 0 least significant: the value
   compared with the range is the little-endian number of the buffer *)
Fixpoint le_value (b : list N) : N := match b with [] => 0 | x :: r => x + 256 * le_value r end%N.

(* sm2_z256_rand_range / sm9_z256_rand_range: up to [tries] draws of 32 bytes, accept the first
   value below [range]; 0 ("call again") when the tries are used up; -1 when a draw fails *)
Fixpoint rand_range_loop (tries : nat) (range : N) : comp N :=
  match tries with
  | 0 => Ret Zero
  | S t => Draw 32 (fun b => if (le_value b <? range)%N then Ret (Ok (le_value b)) else rand_range_loop t range)
  end.
Definition rand_range (range : N) : comp N := rand_range_loop 100 range.

Lemma rand_range_loop_checked : forall t range, checked (rand_range_loop t range).
Proof.
  induction t; intro range; cbn; constructor. intro b.
  destruct (le_value b <? range)%N; [constructor|apply IHt].
Qed.

Lemma rand_range_in_range : forall src t range e v,
  fst (run src (rand_range_loop t range) e) = Ok v -> (v < range)%N.
Proof.
  intros src t. induction t; intros range e v H; cbn [rand_range_loop run] in H.
  - discriminate.
  - cbn in H. destruct (src (drawn e)) as [b|]; [|discriminate].
    destruct (le_value (take 32 b) <? range)%N eqn:E.
    + cbn in H. inversion H. subst. apply N.ltb_lt. exact E.
    + eapply IHt. exact H.
Qed.

Lemma rand_range_bounded : forall src t range e,
  drawn (snd (run src (rand_range_loop t range) e)) <= drawn e + t.
Proof.
  intros src t. induction t; intros range e; cbn [rand_range_loop run].
  - cbn. lia.
  - cbn. destruct (src (drawn e)) as [b|]; [|cbn; lia].
    destruct (le_value (take 32 b) <? range)%N; [cbn; lia|].
    specialize (IHt range (adv e)). cbn in IHt. lia.
Qed.

(* sm2_key_generate / nonce selection: do { if (rand_range(r, n) != 1) return -1; } while (r == 0);
   [fuel] bounds the number of zero values tolerated (the C loop has no bound) *)
Fixpoint nonzero_in_range (fuel : nat) (range : N) : comp N :=
  match fuel with
  | 0 => Ret Err
  | S f => bind (rand_range range) (fun v => if (v =? 0)%N then nonzero_in_range f range else Ret (Ok v))
  end.

Lemma nonzero_in_range_checked : forall f range, checked (nonzero_in_range f range).
Proof.
  induction f; intro range; cbn [nonzero_in_range]; [constructor|].
  apply checked_bind; [apply rand_range_loop_checked|].
  intro v. destruct (v =? 0)%N; [apply IHf|constructor].
Qed.

(* a randomised operation whose draws are all checked: a script of draw lengths followed by a pure
   function of the bytes drawn (IVs, salts, TLS randoms, pre-master secret ...) *)
Fixpoint script (lens : list nat) (acc : list (list N)) (f : list (list N) -> res (list N)) : comp (list N) :=
  match lens with
  | [] => Ret (f (rev acc))
  | l :: r => Draw l (fun b => script r (b :: acc) f)
  end.

Lemma script_checked : forall lens acc f, checked (script lens acc f).
Proof. induction lens; intros; cbn; constructor. intro b. apply IHlens. Qed.

(* the same script with the result of every rand_bytes ignored — the shape of
   `tls_random_generate(client_random);` / `rand_bytes(client_random, 32);` as a statement *)
Fixpoint script_ignoring (lens : list nat) (garbage : list N) (acc : list (list N)) (f : list (list N) -> res (list N)) : comp (list N) :=
  match lens with
  | [] => Ret (f (rev acc))
  | l :: r => DrawIgnore l garbage (fun b => script_ignoring r garbage (b :: acc) f)
  end.

(* witness: with the result ignored, a failing source yields success and an output made of the
   uninitialised buffer *)
Example ignored_result_not_fail_closed :
  let src : stream := fun _ => None in
  let c := script_ignoring [32] [7%N] [] (fun l => Ok (concat l)) in
  fst (run src c (mkE 0 [])) = Ok [7%N] /\ src 0 = None /\ drawn (snd (run src c (mkE 0 []))) = 1.
Proof. cbn. auto. Qed.

(* ================================================================== the pre-computed nonce pool *)
(* SM2_SIGN_CTX / SM2_ENC_CTX keep an array of POOL pre-computed nonces and a counter [live] of the
   unused ones (sm2_sign_finish: `if (num_pre_comp == 0) { if (pre_compute(pre_comp) != 1) return -1;
   num_pre_comp = 32; } num_pre_comp--; use pre_comp[num_pre_comp]`).  A nonce is identified by the
   index of the entropy draw it came from.  pre_compute overwrites the slots in order and stops at
   the first failing draw, so after a failure the array holds a mixture of new and already-used
   nonces: what keeps them from being used again is only that the pool stays marked empty. *)
Section Pool.
Variable POOL : nat.                      (* 32 for signing, 8 for encryption *)
Variable fails : nat -> bool.             (* does draw number i fail? *)

Record pstate := mkP { slots : nat -> nat; live : nat; pdrawn : nat; used : list nat }.

Definition write (j v : nat) (s : nat -> nat) : nat -> nat := fun i => if Nat.eqb i j then v else s i.

(* pre_compute from slot j on: k slots, one draw each *)
Fixpoint fill (k j : nat) (s : nat -> nat) (d : nat) : bool * (nat -> nat) * nat :=
  match k with
  | 0 => (true, s, d)
  | S k' => if fails d then (false, s, S d) else fill k' (S j) (write j d s) (S d)
  end.

(* one signing attempt on the context: Some nonce on success, None when the library reports failure *)
Definition sign_step (mark_before_refill : bool) (st : pstate) : option nat * pstate :=
  match live st with
  | 0 =>
      match fill POOL 0 (slots st) (pdrawn st) with
      | (true, s', d') =>
          match POOL with
          | 0 => (None, mkP s' 0 d' (used st))
          | S p => (Some (s' p), mkP s' p d' (s' p :: used st))
          end
      | (false, s', d') =>
          (* the correct code leaves [live] = 0; the broken variant has already set it to POOL *)
          (None, mkP s' (if mark_before_refill then POOL else 0) d' (used st))
      end
  | S l => (Some (slots st l), mkP (slots st) l (pdrawn st) (slots st l :: used st))
  end.

Fixpoint sign_many (mark : bool) (n : nat) (st : pstate) : pstate :=
  match n with 0 => st | S n' => sign_many mark n' (snd (sign_step mark st)) end.

Lemma fill_spec : forall k j s d ok s' d',
  fill k j s d = (ok, s', d') ->
  d <= d' /\
  (forall i, i < j -> s' i = s i) /\
  (ok = true -> d' = d + k /\ forall i, j <= i < j + k -> s' i = d + (i - j)).
Proof.
  induction k as [|k IH]; intros j s d ok s' d' H; cbn [fill] in H.
  - inversion H; subst. split; [lia|]. split; [auto|]. intros _. split; [lia|]. intros i Hi. lia.
  - destruct (fails d).
    + inversion H; subst. split; [lia|]. split; [auto|]. discriminate.
    + destruct (IH _ _ _ _ _ _ H) as [H1 [H2 H3]]. split; [lia|]. split.
      * intros i Hi. rewrite H2 by lia. unfold write. destruct (Nat.eqb_spec i j); [lia|reflexivity].
      * intro Hok. destruct (H3 Hok) as [H4 H5]. split; [lia|]. intros i Hi.
        destruct (Nat.eq_dec i j) as [->|Hne].
        -- rewrite H2 by lia. unfold write. rewrite Nat.eqb_refl. lia.
        -- rewrite H5 by lia. lia.
Qed.

(* the invariant: the live slots hold pairwise different draw indices below [pdrawn], none of them
   used before; the used ones are pairwise different and below [pdrawn] *)
Definition pool_inv (st : pstate) : Prop :=
  (forall i, i < live st -> slots st i < pdrawn st) /\
  (forall i i', i < live st -> i' < live st -> slots st i = slots st i' -> i = i') /\
  (forall i, i < live st -> ~ In (slots st i) (used st)) /\
  NoDup (used st) /\
  (forall v, In v (used st) -> v < pdrawn st).

Lemma pool_inv_step : forall st, pool_inv st -> pool_inv (snd (sign_step false st)).
Proof.
  intros st [I1 [I2 [I3 [I4 I5]]]]. unfold sign_step.
  destruct (live st) as [|l] eqn:EL.
  - destruct (fill POOL 0 (slots st) (pdrawn st)) as [[ok s'] d'] eqn:EF.
    destruct (fill_spec _ _ _ _ _ _ _ EF) as [F1 [_ F3]].
    destruct ok.
    + destruct (F3 eq_refl) as [F4 F5]. destruct POOL as [|p] eqn:EP; cbn [snd].
      * unfold pool_inv; cbn. repeat split; try (intros; lia); auto. intros v Hv. specialize (I5 v Hv). lia.
      * assert (S5 : forall i, i < S p -> s' i = pdrawn st + i).
        { intros i Hi. rewrite F5 by lia. lia. }
        unfold pool_inv; cbn [slots live pdrawn used]. repeat split.
        -- intros i Hi. rewrite S5 by lia. lia.
        -- intros i i' Hi Hi' E. rewrite !S5 in E by lia. lia.
        -- intros i Hi [E|Hin].
           ++ rewrite !S5 in E by lia. lia.
           ++ specialize (I5 _ Hin). rewrite S5 in I5 by lia. lia.
        -- constructor; [|exact I4]. intro Hin. specialize (I5 _ Hin). rewrite S5 in I5 by lia. lia.
        -- intros v [E|Hin]; [subst; rewrite S5 by lia; lia|]. specialize (I5 _ Hin). lia.
    + cbn [snd]. unfold pool_inv; cbn [slots live pdrawn used]. repeat split; try (intros; lia); auto.
      intros v Hv. specialize (I5 v Hv). lia.
  - cbn [snd]. unfold pool_inv; cbn [slots live pdrawn used]. repeat split.
    + intros i Hi. apply I1. lia.
    + intros i i' Hi Hi' E. apply I2; auto; lia.
    + intros i Hi [E|Hin].
      * assert (l = i) by (apply I2; auto; lia). lia.
      * apply (I3 i); auto; lia.
    + constructor; [|exact I4]. apply I3. lia.
    + intros v [E|Hin]; [subst; apply I1; lia|]. apply I5; exact Hin.
Qed.

(* a failed refill leaves the pool marked empty *)
Theorem failed_refill_marks_pool_empty : forall st,
  live st = 0 -> fst (sign_step false st) = None -> POOL <> 0 -> live (snd (sign_step false st)) = 0.
Proof.
  intros st HL HN HP. unfold sign_step in *. rewrite HL in *.
  destruct (fill POOL 0 (slots st) (pdrawn st)) as [[ok s'] d']. destruct ok.
  - destruct POOL; [congruence|]. cbn in HN. discriminate.
  - reflexivity.
Qed.

(* consequently, over any number of signing attempts on one context, with the entropy source
   failing wherever it likes, no nonce (draw) is ever used for two signatures *)
Theorem pool_no_reuse : forall n s0,
  let st := sign_many false n (mkP s0 0 0 []) in NoDup (used st).
Proof.
  intros n s0. cbn zeta.
  assert (H : forall n st, pool_inv st -> pool_inv (sign_many false n st)).
  { induction n0 as [|m IH]; intros st Hst; cbn [sign_many]; [exact Hst|]. apply IH. apply pool_inv_step. exact Hst. }
  destruct (H n (mkP s0 0 0 [])) as [_ [_ [_ [Hd _]]]].
  - unfold pool_inv; cbn. repeat split; try (intros; lia); try constructor; try (intros ? []).
  - exact Hd.
Qed.

End Pool.

(* witness: with the counter set BEFORE the fallible refill (the seeded change to sm2_sign_finish)
   a pool of 2, a failure at draw 3 (second slot of the second refill) and five attempts use draw
   1 twice *)
Example marking_before_refill_reuses_a_nonce :
  let fails := fun d => Nat.eqb d 3 in
  used (sign_many 2 fails true 5 (mkP (fun _ => 0) 0 0 [])) = [2; 1; 0; 1] /\
  used (sign_many 2 fails false 5 (mkP (fun _ => 0) 0 0 [])) = [4; 5; 0; 1].
Proof. cbn. split; reflexivity. Qed.
