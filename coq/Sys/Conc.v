(* C20 — interleaving model: n threads, each a list of operations with read / write footprints
   over a store partitioned into caller-owned objects (one owner per location) and library
   globals.  Theorems: disjoint operations commute; for EVERY schedule (any number of threads)
   threads that write only what they own and read only what they own or globals obtain exactly
   the results of their sequential runs.  No axioms; stores are compared pointwise. *)
From Coq Require Import List Arith Bool Lia.
Import ListNotations.

Section Conc.
Variables loc val res : Type.

Definition store := loc -> val.

(* an operation: footprints (decidable sets of locations) and a state transformer *)
Record op := mkOp {
  rd : loc -> bool;                    (* locations it may read *)
  wr : loc -> bool;                    (* locations it may write *)
  run : store -> store * res
}.

(* the footprints are honest: nothing outside [wr] changes; the result and the values written
   depend only on the contents of [rd] *)
Definition wf_op (o : op) : Prop :=
  (forall s l, wr o l = false -> fst (run o s) l = s l) /\
  (forall s s', (forall l, rd o l = true -> s l = s' l) ->
      snd (run o s) = snd (run o s') /\
      (forall l, wr o l = true -> fst (run o s) l = fst (run o s') l)).

Definition agree (P : loc -> Prop) (s s' : store) := forall l, P l -> s l = s' l.

(* ------------------------------------------------------------------ two operations commute *)
Definition no_interference (o1 o2 : op) : Prop :=
  forall l, wr o1 l = true -> rd o2 l = false /\ wr o2 l = false.

Lemma disjoint_commute : forall o1 o2 s,
  wf_op o1 -> wf_op o2 -> no_interference o1 o2 -> no_interference o2 o1 ->
  let s1 := fst (run o1 s) in let s2 := fst (run o2 s) in
  snd (run o2 s1) = snd (run o2 s) /\
  snd (run o1 s2) = snd (run o1 s) /\
  forall l, fst (run o2 s1) l = fst (run o1 s2) l.
Proof.
  intros o1 o2 s [F1 D1] [F2 D2] N12 N21 s1 s2.
  assert (A1 : forall l, rd o2 l = true -> s1 l = s l).
  { intros l Hl. unfold s1. apply F1. destruct (wr o1 l) eqn:E; auto.
    destruct (N12 l E) as [H _]. congruence. }
  assert (A2 : forall l, rd o1 l = true -> s2 l = s l).
  { intros l Hl. unfold s2. apply F2. destruct (wr o2 l) eqn:E; auto.
    destruct (N21 l E) as [H _]. congruence. }
  destruct (D2 s1 s A1) as [R2 W2]. destruct (D1 s2 s A2) as [R1 W1].
  split; [exact R2|]. split; [exact R1|].
  intro l. destruct (wr o1 l) eqn:E1; destruct (wr o2 l) eqn:E2.
  - destruct (N12 l E1) as [_ H]. congruence.
  - rewrite (F2 s1 l E2). rewrite (W1 l E1). reflexivity.
  - rewrite (W2 l E2). rewrite (F1 s2 l E1). reflexivity.
  - rewrite (F2 s1 l E2), (F1 s2 l E1). unfold s1, s2. rewrite (F1 s l E1), (F2 s l E2). reflexivity.
Qed.

(* ------------------------------------------------------------------ sequential runs *)
Fixpoint seq_run (ops : list op) (s : store) : store * list res :=
  match ops with
  | [] => (s, [])
  | o :: r => let s1 := fst (run o s) in
              (fst (seq_run r s1), snd (run o s) :: snd (seq_run r s1))
  end.

Lemma seq_run_app1 : forall a o s,
  seq_run (a ++ [o]) s =
  (fst (run o (fst (seq_run a s))), snd (seq_run a s) ++ [snd (run o (fst (seq_run a s)))]).
Proof.
  induction a as [|x a IH]; intros o s; cbn [seq_run app fst snd].
  - reflexivity.
  - rewrite IH. reflexivity.
Qed.

(* ------------------------------------------------------------------ interleavings *)
(* threads are indexed by nat; a schedule is any list of thread indices (indices of threads that
   have nothing left to do are skipped), so every interleaving of any number of threads is a
   schedule *)
Record config := mkCfg { st : store; remaining : nat -> list op; outs : nat -> list res }.

Definition upd {A} (f : nat -> A) (t : nat) (v : A) : nat -> A :=
  fun u => if Nat.eqb u t then v else f u.

Definition step (t : nat) (c : config) : config :=
  match remaining c t with
  | [] => c
  | o :: r => mkCfg (fst (run o (st c))) (upd (remaining c) t r)
                    (upd (outs c) t (outs c t ++ [snd (run o (st c))]))
  end.

Definition exec (sch : list nat) (c : config) : config := fold_left (fun c t => step t c) sch c.

Variable owner : nat -> loc -> Prop.      (* objects owned by (passed by the caller to) thread t *)
Variable glob : loc -> Prop.              (* library globals *)
Variable progs : nat -> list op.

Hypothesis owners_disjoint : forall t u l, t <> u -> owner t l -> owner u l -> False.
Hypothesis owners_not_global : forall t l, owner t l -> glob l -> False.
Hypothesis progs_wf : forall t o, In o (progs t) -> wf_op o.
(* every thread writes only objects it owns (in particular: no global) ... *)
Hypothesis writes_owned : forall t o l, In o (progs t) -> wr o l = true -> owner t l.
(* ... and reads only objects it owns or (never written) globals *)
Hypothesis reads_owned_or_global : forall t o l, In o (progs t) -> rd o l = true -> owner t l \/ glob l.

Definition thread_inv (s0 : store) (c : config) (t : nat) : Prop :=
  exists done, progs t = done ++ remaining c t /\
    outs c t = snd (seq_run done s0) /\
    agree (owner t) (st c) (fst (seq_run done s0)) /\
    agree glob (fst (seq_run done s0)) s0.

Definition inv (s0 : store) (c : config) : Prop :=
  (forall t, thread_inv s0 c t) /\ agree glob (st c) s0.

Lemma inv_init : forall s0, inv s0 (mkCfg s0 progs (fun _ => [])).
Proof.
  intro s0. split.
  - intro t. exists []. cbn. repeat split; auto; intros l _; reflexivity.
  - intros l _. reflexivity.
Qed.

Lemma inv_step : forall s0 c t, inv s0 c -> inv s0 (step t c).
Proof.
  intros s0 c t [IT IG]. unfold step.
  destruct (remaining c t) as [|o r] eqn:ER; [split; assumption|].
  destruct (IT t) as [done [Hp [Ho [Ha Hg]]]].
  rewrite ER in Hp.
  assert (Hin : In o (progs t)). { rewrite Hp. apply in_or_app. right. left. reflexivity. }
  destruct (progs_wf t o Hin) as [Fr Dp].
  set (sq := fst (seq_run done s0)) in *.
  assert (AR : forall l, rd o l = true -> st c l = sq l).
  { intros l Hl. destruct (reads_owned_or_global t o l Hin Hl) as [H|H].
    - apply Ha; exact H.
    - rewrite (IG l H). symmetry. apply Hg; exact H. }
  destruct (Dp (st c) sq AR) as [Rres Rwr].
  split.
  - intro u. unfold thread_inv. cbn [st remaining outs]. unfold upd.
    destruct (Nat.eqb u t) eqn:Eut.
    + apply Nat.eqb_eq in Eut. subst u.
      exists (done ++ [o]). rewrite seq_run_app1. cbn [fst snd]. fold sq.
      split; [rewrite <- app_assoc; exact Hp|].
      split; [rewrite Ho, Rres; reflexivity|].
      split.
      * intros l Hl. destruct (wr o l) eqn:Ew.
        -- apply Rwr; exact Ew.
        -- rewrite (Fr (st c) l Ew), (Fr sq l Ew). apply Ha; exact Hl.
      * intros l Hl. destruct (wr o l) eqn:Ew.
        -- exfalso. apply (owners_not_global t l); [apply (writes_owned t o l Hin Ew)|exact Hl].
        -- rewrite (Fr sq l Ew). apply Hg; exact Hl.
    + apply Nat.eqb_neq in Eut.
      destruct (IT u) as [du [Hpu [Hou [Hau Hgu]]]].
      exists du. repeat split; auto.
      intros l Hl. destruct (wr o l) eqn:Ew.
      * exfalso. apply (owners_disjoint u t l Eut Hl). apply (writes_owned t o l Hin Ew).
      * rewrite (Fr (st c) l Ew). apply Hau; exact Hl.
  - cbn [st]. intros l Hl. destruct (wr o l) eqn:Ew.
    + exfalso. apply (owners_not_global t l); [apply (writes_owned t o l Hin Ew)|exact Hl].
    + rewrite (Fr (st c) l Ew). apply IG; exact Hl.
Qed.

Lemma inv_exec : forall s0 sch c, inv s0 c -> inv s0 (exec sch c).
Proof.
  intros s0 sch. unfold exec. induction sch as [|t sch IH]; intros c H; cbn [fold_left].
  - exact H.
  - apply IH. apply inv_step. exact H.
Qed.

(* for every schedule and every thread: what the thread has produced so far is exactly the result
   list of the sequential run of the operations it has completed, its objects hold exactly the
   sequential contents, and the globals are unchanged *)
Theorem interleaving_eq_sequential : forall (s0 : store) (sch : list nat) (t : nat),
  let c := exec sch (mkCfg s0 progs (fun _ => [])) in
  exists done, progs t = done ++ remaining c t /\
    outs c t = snd (seq_run done s0) /\
    agree (owner t) (st c) (fst (seq_run done s0)) /\
    agree glob (st c) s0.
Proof.
  intros s0 sch t c.
  destruct (inv_exec s0 sch _ (inv_init s0)) as [IT IG].
  destruct (IT t) as [done [H1 [H2 [H3 _]]]].
  exists done. repeat split; assumption.
Qed.

(* complete schedules: a thread that has finished returned exactly its sequential results *)
Corollary finished_thread_sequential : forall (s0 : store) (sch : list nat) (t : nat),
  let c := exec sch (mkCfg s0 progs (fun _ => [])) in
  remaining c t = [] ->
  outs c t = snd (seq_run (progs t) s0) /\
  agree (owner t) (st c) (fst (seq_run (progs t) s0)).
Proof.
  intros s0 sch t c Hr.
  destruct (interleaving_eq_sequential s0 sch t) as [done [H1 [H2 [H3 _]]]].
  fold c in H1, H2, H3. rewrite Hr, app_nil_r in H1. subst done. split; assumption.
Qed.

End Conc.

(* the premises are satisfiable and the conclusion is not vacuous: two threads incrementing their
   own counter while reading a shared global *)
Module ConcExample.
  Definition o_inc (me : nat) : op nat nat nat :=
    mkOp nat nat nat (fun l => Nat.eqb l me || Nat.eqb l 0) (fun l => Nat.eqb l me)
         (fun s => ((fun l => if Nat.eqb l me then s me + s 0 else s l), s me + s 0)).
  Example run_two_threads :
    let progs := fun t => match t with 1 => [o_inc 1; o_inc 1] | 2 => [o_inc 2] | _ => [] end in
    let c := exec nat nat nat [1; 2; 7; 1; 2] (mkCfg nat nat nat (fun l => match l with 0 => 5 | _ => 0 end) progs (fun _ => [])) in
    (outs _ _ _ c 1, outs _ _ _ c 2) = ([5; 10], [5]).
  Proof. reflexivity. Qed.
End ConcExample.
