(* C18 (wave 5) — the entropy gateway itself, both build configurations, as executable models that are compared
   with the compiled code on every run (props/C18: ops rbytes / ur / rr / pool), and the theorems about them.

   Bytes are identified by their position in the device's output (the device serves byte 0, 1, 2, ...), so
   "every output byte came from the entropy source, in order" is [out = seq p want].

   rand_unix.c   rand_bytes = NULL / length guard (1..256), one getentropy() attempt, no retry
   rand.c        rand_bytes = NULL guard, len <= 4096, len = 0 answers 0, fopen, ONE fread that must deliver
                 everything (a short read, EOF or error is a failure), fclose
   read_loop     the general fuelled loop (chunks, short reads continued at the right offset, bounded EINTR retries)
                 of which both are instances with fuel 1 — the theorem is proved for every policy, so a future
                 retrying gateway is covered as long as it matches some policy; the seeded "never advances buf"
                 loop is not an instance and is refuted by a witness. *)
From Coq Require Import List NArith Arith Bool Lia.
From GmVerif Require Import Sys.Rand.
Import ListNotations.

(* ------------------------------------------------------------------ device behaviour, one item per read call *)
Inductive dev_item :=
| Deliver (n : nat)          (* the call returns n bytes (n may exceed what was asked: clipped) *)
| Eof                        (* returns 0, end of file *)
| Fail (eintr : bool).       (* returns 0 / -1 with errno; eintr = interrupted, may be retried *)

Record policy := mkPolicy { continue_short : bool; max_eintr : nat }.

(* acc = positions already stored in the caller's buffer; p = next device position *)
Fixpoint read_loop (pol : policy) (fuel : nat) (want : nat) (acc : list nat) (p : nat) (eintr_left : nat)
                   (script : list dev_item) (calls : nat) : res (list nat) * nat :=
  match fuel with
  | 0 => (Err, calls)
  | S f =>
      let item := match script with [] => Deliver (want - length acc) | x :: _ => x end in
      let rest := tl script in
      match item with
      | Eof => (Err, S calls)
      | Fail e => if e && negb (eintr_left =? 0) then read_loop pol f want acc p (eintr_left - 1) rest (S calls) else (Err, S calls)
      | Deliver n =>
          let n' := Nat.min n (want - length acc) in
          let acc' := acc ++ seq p n' in
          if length acc' =? want then (Ok acc', S calls)
          else if (n' =? 0) || negb (continue_short pol) then (Err, S calls)
          else read_loop pol f want acc' (p + n') eintr_left rest (S calls)
      end
  end.

Lemma read_loop_sound : forall pol fuel want acc p e script calls out calls' s,
  acc = seq s (length acc) -> p = s + length acc ->
  read_loop pol fuel want acc p e script calls = (Ok out, calls') ->
  out = seq s want.
Proof.
  intros pol fuel. induction fuel as [|f IH]; intros want acc p e script calls out calls' s Hacc Hp H; cbn [read_loop] in H.
  - discriminate.
  - destruct (match script with [] => Deliver (want - length acc) | x :: _ => x end) as [n| |ei].
    + set (n' := Nat.min n (want - length acc)) in *.
      assert (Hacc' : acc ++ seq p n' = seq s (length acc + n')).
      { rewrite seq_app. rewrite <- Hacc. rewrite Hp. reflexivity. }
      destruct (length (acc ++ seq p n') =? want) eqn:E.
      * inversion H; subst out. apply Nat.eqb_eq in E. rewrite app_length, seq_length in E.
        rewrite Hacc'. rewrite E. reflexivity.
      * destruct ((n' =? 0) || negb (continue_short pol)); [discriminate|].
        eapply IH; [| |exact H].
        -- rewrite app_length, seq_length. exact Hacc'.
        -- rewrite app_length, seq_length. lia.
    + discriminate.
    + destruct (ei && negb (e =? 0)); [|discriminate]. eapply IH; eauto.
Qed.

(* success => the buffer holds exactly the first [want] bytes the device delivered, in order; anything else is Err *)
Theorem read_loop_all_from_source : forall pol fuel want script out calls,
  read_loop pol fuel want [] 0 (max_eintr pol) script 0 = (Ok out, calls) -> out = seq 0 want.
Proof. intros pol fuel want script out calls H. eapply read_loop_sound with (s := 0) (acc := []); [reflexivity|reflexivity|exact H]. Qed.

Theorem read_loop_fail_is_err : forall pol fuel want acc p e script calls r calls',
  read_loop pol fuel want acc p e script calls = (r, calls') -> r = Err \/ exists out, r = Ok out.
Proof.
  intros pol fuel. induction fuel as [|f IH]; intros want acc p e script calls r calls' H; cbn [read_loop] in H.
  - inversion H. auto.
  - destruct (match script with [] => Deliver (want - length acc) | x :: _ => x end) as [n| |ei].
    + destruct (length (acc ++ seq p (Nat.min n (want - length acc))) =? want); [inversion H; eauto|].
      destruct ((Nat.min n (want - length acc) =? 0) || negb (continue_short pol)); [inversion H; auto|]. eapply IH; eauto.
    + inversion H; auto.
    + destruct (ei && negb (e =? 0)); [eapply IH; eauto|inversion H; auto].
Qed.

(* ------------------------------------------------------------------ src/rand.c (HAVE_GETENTROPY off) *)
Definition strict : policy := mkPolicy false 0.

Definition rand_bytes_urandom (buf_null : bool) (len : nat) (open_ok : bool) (script : list dev_item) : res (list nat) * nat :=
  if buf_null then (Err, 0)
  else if 4096 <? len then (Err, 0)
  else if len =? 0 then (Zero, 0)                    (* `if (!len) return 0;` *)
  else if negb open_ok then (Err, 0)
  else read_loop strict 1 len [] 0 0 script 0.

Theorem rand_bytes_urandom_sound : forall nul len op script out calls,
  rand_bytes_urandom nul len op script = (Ok out, calls) -> out = seq 0 len /\ 1 <= len <= 4096 /\ calls = 1.
Proof.
  intros nul len op script out calls H. unfold rand_bytes_urandom in H.
  destruct nul; [discriminate|]. destruct (4096 <? len) eqn:E1; [discriminate|].
  destruct (len =? 0) eqn:E2; [discriminate|]. destruct (negb op); [discriminate|].
  apply Nat.ltb_ge in E1. apply Nat.eqb_neq in E2.
  split; [eapply read_loop_all_from_source with (pol := strict); exact H|]. split; [lia|].
  cbn [read_loop] in H. destruct (match script with [] => Deliver (len - length (@nil nat)) | x :: _ => x end) as [n| |ei].
  - destruct (length ([] ++ seq 0 (Nat.min n (len - length (@nil nat)))) =? len); [inversion H; reflexivity|].
    cbn in H. rewrite orb_true_r in H. discriminate.
  - discriminate.
  - cbn in H. rewrite andb_false_r in H. discriminate.
Qed.

(* the seeded loop `while (len) { n = fread(buf,1,len,fp); len -= n; }` keeps writing at offset 0 *)
Fixpoint never_advancing_loop (fuel want left p : nat) (buf : list nat) (script : list dev_item) : res (list nat) :=
  match fuel with
  | 0 => Err
  | S f => match left with
           | 0 => Ok buf
           | _ => match (match script with [] => Deliver left | x :: _ => x end) with
                  | Deliver n => let n' := Nat.min n left in
                                 if n' =? 0 then Err
                                 else never_advancing_loop f want (left - n') (p + n') (seq p n' ++ skipn n' buf) (tl script)
                  | _ => Err
                  end
           end
  end.
Example never_advancing_loop_refuted :
  (* 4 bytes wanted, the device gives 1 then 3: "success", but the buffer holds device bytes 1,2,3 and the poison 99 *)
  never_advancing_loop 5 4 4 0 [99; 99; 99; 99] [Deliver 1; Deliver 3] = Ok [1; 2; 3; 99] /\
  fst (read_loop (mkPolicy true 0) 5 4 [] 0 0 [Deliver 1; Deliver 3] 0) = Ok [0; 1; 2; 3].
Proof. split; reflexivity. Qed.

(* ------------------------------------------------------------------ src/rand_unix.c (default) *)
(* attempts = what successive getentropy() calls for this request would do; the code makes at most one *)
Definition rand_bytes_unix (buf_null : bool) (len : nat) (attempts : list bool) : res (list nat) * nat :=
  if buf_null then (Err, 0)
  else if negb (len_ok len) then (Err, 0)
  else match attempts with
       | true :: _ => (Ok (seq 0 len), 1)
       | _ => (Err, 1)
       end.

Theorem rand_bytes_unix_sound : forall nul len att out calls,
  rand_bytes_unix nul len att = (Ok out, calls) ->
  out = seq 0 len /\ 1 <= len <= 256 /\ calls = 1 /\ hd false att = true.
Proof.
  intros nul len att out calls H. unfold rand_bytes_unix in H. destruct nul; [discriminate|].
  destruct (len_ok len) eqn:E; cbn in H; [|discriminate]. destruct att as [|[|] r]; try discriminate.
  inversion H; subst. unfold len_ok in E. apply andb_true_iff in E. destruct E as [E1 E2].
  apply negb_true_iff in E1. apply Nat.eqb_neq in E1. apply Nat.leb_le in E2. repeat split; auto; lia.
Qed.

Theorem rand_bytes_unix_failure_is_err : forall nul len att r calls,
  rand_bytes_unix nul len att = (r, calls) -> r = Err \/ exists out, r = Ok out /\ hd false att = true.
Proof.
  intros nul len att r calls H. unfold rand_bytes_unix in H. destruct nul; [inversion H; auto|].
  destruct (negb (len_ok len)); [inversion H; auto|]. destruct att as [|[|] a]; inversion H; eauto.
Qed.

(* ------------------------------------------------------------------ gateway -> stream -> consumers *)
(* the entropy stream seen by the consumer computations of Sys/Rand.v: draw i is [None] exactly when the gateway
   reports failure for it *)
Definition stream_of (attempts : nat -> list bool) (bytes : nat -> list N) (len_of : nat -> nat) : stream :=
  fun i => match fst (rand_bytes_unix false (len_of i) (attempts i)) with Ok _ => Some (bytes i) | _ => None end.

(* any gateway failure inside the draws a checked consumer makes => the consumer returns Err (-1): no partial use *)
Theorem gateway_failure_fails_consumer : forall A (c : comp A) e attempts bytes len_of,
  checked c ->
  (exists i, drawn e <= i < drawn (snd (run (stream_of attempts bytes len_of) c e)) /\
             fst (rand_bytes_unix false (len_of i) (attempts i)) = Err) ->
  fst (run (stream_of attempts bytes len_of) c e) = Err.
Proof.
  intros A c e attempts bytes len_of Hc [i [Hi Hf]]. apply fail_closed; [exact Hc|].
  exists i. split; [exact Hi|]. unfold stream_of. rewrite Hf. reflexivity.
Qed.

(* ------------------------------------------------------------------ result lines for the differential run *)
From Coq Require Import String DecimalString.
Definition nat_str (n : nat) : string := NilZero.string_of_uint (Nat.to_uint n).
Local Open Scope string_scope.

Definition line_ur (r : res (list nat) * nat) : string :=
  match r with
  | (Ok _, k) => "EXACT rc=1 freads=" ++ nat_str k
  | (Zero, k) => "FAILED rc=0 freads=" ++ nat_str k
  | (Err, k) => "FAILED rc=-1 freads=" ++ nat_str k
  end.

Definition line_rbytes (r : res (list nat) * nat) : string :=
  match r with
  | (Ok _, k) => "EXACT rc=1 attempts=" ++ nat_str k
  | (_, k) => "FAILED rc=-1 attempts=" ++ nat_str k
  end.

(* rand_range driven by a script of draws: hi = value >= range (rejected), lo = accepted, fail = source failure *)
Inductive rr_item := Hi | Lo | Fl.
Definition rr_stream (script : list rr_item) (range : N) : stream :=
  fun i => match nth_error script i with
           | Some Hi => Some (repeat 255%N 32)
           | Some Fl => None
           | _ => Some (1%N :: repeat 0%N 31)        (* value 1 *)
           end.
Definition line_rr (script : list rr_item) (range : N) : string :=
  let r := run (rr_stream script range) (rand_range range) (mkE 0 []) in
  (match fst r with Ok _ => "rc=1" | Zero => "rc=0" | Err => "rc=-1" end) ++ " draws=" ++ nat_str (drawn (snd r)).

(* the nonce pool: [n] signing attempts on one context, failures at the listed absolute draw indices *)
Fixpoint pool_trace (POOL : nat) (fails : nat -> bool) (n : nat) (st : pstate) : string :=
  match n with
  | 0 => " draws=" ++ nat_str (pdrawn st)
  | S n' => let r := sign_step POOL fails false st in
            (match fst r with Some _ => "1" | None => "0" end) ++ pool_trace POOL fails n' (snd r)
  end.
Definition line_pool (POOL : nat) (init_draws : nat) (failing : list nat) (n : nat) : string :=
  (* the context was initialised with a full pool drawn from indices 0 .. init_draws-1 *)
  let fails := fun d => existsb (Nat.eqb d) failing in
  "ok=" ++ pool_trace POOL fails n (mkP (fun i => i) POOL init_draws []).

(* draw scripts: an operation whose draws have fixed lengths; [failat] = index of the failing draw (none if >= length) *)
Fixpoint lens_str (l : list nat) : string :=
  match l with [] => "" | [x] => nat_str x | x :: r => nat_str x ++ "," ++ lens_str r end.
Definition line_script (lens : list nat) (failat : option nat) : string :=
  let src : stream := fun i => match failat with Some f => if Nat.eqb i f then None else Some (repeat 0%N 256) | None => Some (repeat 0%N 256) end in
  let r := run src (script lens [] (fun l => Ok (List.concat l))) (mkE 0 []) in
  let served := match fst r with Ok _ => drawn (snd r) | _ => drawn (snd r) - 1 end in
  (match fst r with Ok _ => "rc=1" | _ => "rc=-1" end) ++ " draws=" ++ nat_str (drawn (snd r)) ++ " lens=" ++
  (match firstn served lens with [] => "-" | l => lens_str l end).

(* [ncalls] consecutive "nonzero value below range" selections fed with the very bytes the implementation drew *)
Definition line_vals (range : N) (ncalls : nat) (vals : list (list N)) : string :=
  let src : stream := fun i => match nth_error vals i with Some b => Some b | None => None end in
  let r := run_all src (repeat (nonzero_in_range 8 range) ncalls) (mkE 0 []) in
  (if forallb (fun x => match x with Ok _ => true | _ => false end) (fst r) then "rc=1" else "rc=-1") ++ " draws=" ++ nat_str (drawn (snd r)).
