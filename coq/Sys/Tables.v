(* Row types, decidable predicates and soundness lemmas for the three source-derived tables
   (DESIGN 1.4).  The tables themselves are regenerated from the current source tree on every
   check (tools/globals.py, tools/diag_sites.py, tools/rand_sites.py -> coq/Gen/*Table.v) and the
   instance theorems are re-proved over the fresh table by vm_compute + the lemmas below. *)
From Coq Require Import String List Bool NArith ZArith.
Import ListNotations.
Open Scope string_scope.

Definition str_in (s : string) (l : list string) : bool := existsb (String.eqb s) l.

Lemma str_in_In : forall s l, str_in s l = true -> In s l.
Proof.
  intros s l H. unfold str_in in H. apply existsb_exists in H.
  destruct H as [x [Hin Heq]]. apply String.eqb_eq in Heq. subst. exact Hin.
Qed.

(* ============================================================================ C20: globals *)
Record writer := mkWriter { w_file : string; w_fn : string; w_line : N; w_how : string }.

Record global := mkGlobal {
  g_name : string;        (* symbol *)
  g_file : string;        (* translation unit *)
  g_section : string;     (* data | bss | common | not-writable-in-build *)
  g_type : string;
  g_scope : string;       (* extern | static | static-in:<function> *)
  g_writers : list writer (* every statement that may write it (points-to closure) *)
}.

(* Allow-list: the only writes to static-storage objects after load time, each with the guard under which it is
   compatible with the property.  SDF_LoadLibrary / SDF_UnloadLibrary bind / unbind the one SDF device library of the
   process; they are not operations on caller-owned context or key objects. *)
Record allowed_write := mkAllowed { aw_global : string; aw_fn : string; aw_guard : string }.
Definition sdf_guard : string :=
  "process-wide lifecycle call: once before / after all SDF use, by contract never concurrent with any SDF_* call".
(* hidden static state of libc functions that need not be re-entrant (rows "libc:<function>" of the table) *)
Definition print_guard : string :=
  "explicit print routine (human-readable date via ctime): not an operation of the concurrent workload of the property; two threads printing at once share ctime's buffer (ctime_r would remove it)".
Definition errmsg_guard : string :=
  "error path only: the message text is printed, never stored; glibc strerror/dlerror use thread-local or constant storage".
Definition http_guard : string :=
  "http_get utility (CRL / OCSP fetch): name resolution through gethostbyname, not part of the property's operations".
Definition allow_list : list allowed_write := [
  mkAllowed "sdf_method" "SDF_LoadLibrary" sdf_guard; mkAllowed "sdf_method" "SDF_UnloadLibrary" sdf_guard;
  mkAllowed "sdf_vendor" "SDF_LoadLibrary" sdf_guard; mkAllowed "sdf_vendor" "SDF_UnloadLibrary" sdf_guard;
  mkAllowed "libc:ctime" "tls_random_print" print_guard; mkAllowed "libc:ctime" "x509_validity_print" print_guard;
  mkAllowed "libc:ctime" "x509_crl_entry_ext_print" print_guard; mkAllowed "libc:ctime" "x509_revoked_cert_print" print_guard;
  mkAllowed "libc:ctime" "x509_tbs_crl_print" print_guard;
  mkAllowed "libc:strerror" "tls_socket_create" errmsg_guard; mkAllowed "libc:strerror" "tls_socket_connect" errmsg_guard;
  mkAllowed "libc:strerror" "tls_socket_bind" errmsg_guard; mkAllowed "libc:strerror" "tls_socket_listen" errmsg_guard;
  mkAllowed "libc:strerror" "tls_socket_accept" errmsg_guard;
  mkAllowed "libc:dlerror" "SDF_METHOD_load_library" sdf_guard;
  mkAllowed "libc:gethostbyname" "http_get" http_guard ].
Definition lifecycle_functions : list string := map aw_fn allow_list.

Definition allows (g : string) (fn : string) (a : allowed_write) : bool := String.eqb g (aw_global a) && String.eqb fn (aw_fn a).
Definition writer_ok (g : global) (w : writer) : bool := existsb (allows (g_name g) (w_fn w)) allow_list.
Definition global_ok (g : global) : bool := forallb (writer_ok g) (g_writers g).
Definition global_key (g : global) : string := g_file g ++ ":" ++ g_name g.

(* every statement that may write a static-storage object is an allow-listed (object, function) pair with its guard *)
Lemma globals_table_sound : forall tbl : list global,
  forallb global_ok tbl = true ->
  forall g, In g tbl -> forall w, In w (g_writers g) ->
  exists a, In a allow_list /\ aw_global a = g_name g /\ aw_fn a = w_fn w.
Proof.
  intros tbl H g Hg w Hw.
  rewrite forallb_forall in H. specialize (H g Hg). unfold global_ok in H.
  rewrite forallb_forall in H. specialize (H w Hw). unfold writer_ok in H.
  apply existsb_exists in H. destruct H as [a [Ha Hb]]. unfold allows in Hb.
  apply andb_true_iff in Hb. destruct Hb as [E1 E2]. apply String.eqb_eq in E1. apply String.eqb_eq in E2.
  exists a. repeat split; auto.
Qed.

(* objects outside the allow-list have no writer at all *)
Lemma globals_never_written : forall tbl : list global,
  forallb global_ok tbl = true ->
  forall g, In g tbl ->
  (forall a, In a allow_list -> aw_global a <> g_name g) -> g_writers g = [].
Proof.
  intros tbl H g Hg Hn. destruct (g_writers g) as [|w ws] eqn:E; [reflexivity|].
  exfalso. destruct (globals_table_sound tbl H g Hg w) as [a [Ha [Hb _]]]; [rewrite E; left; reflexivity|].
  exact (Hn a Ha Hb).
Qed.

(* ============================================================================ C19: diagnostics *)
Inductive diag_class := ErrLine | Const | Data.
Inductive arg_prov := Public | Secret | Unknown.

Record diag_site := mkDiag {
  d_file : string; d_fn : string; d_line : N;
  d_callee : string;
  d_stream : string;            (* stderr | stdout | implicit-stdout *)
  d_class : diag_class;
  d_in_print_routine : bool;    (* enclosing function is an explicit print/trace/format routine *)
  d_prov : arg_prov;            (* provenance of the non-literal arguments *)
  d_args : string               (* source text of the non-literal arguments *)
}.

Definition prov_public (p : arg_prov) : bool := match p with Public => true | _ => false end.

Definition diag_ok (d : diag_site) : bool :=
  match d_class d with
  | ErrLine | Const => true
  | Data => d_in_print_routine d || prov_public (d_prov d)
  end.

Definition diag_key (d : diag_site) : string := d_file d ++ ":" ++ d_fn d ++ ":" ++ d_callee d.

Lemma diag_table_sound : forall tbl : list diag_site,
  forallb diag_ok tbl = true ->
  forall d, In d tbl -> d_class d = Data -> d_in_print_routine d = false -> d_prov d = Public.
Proof.
  intros tbl H d Hd Hc Hp. rewrite forallb_forall in H. specialize (H d Hd).
  unfold diag_ok in H. rewrite Hc, Hp in H. cbn in H.
  destruct (d_prov d); cbn in H; congruence.
Qed.

(* ============================================================================ C19: print-call audit *)
(* one row per call of an output primitive inside a print / trace / format routine (wave 5) *)
Inductive len_class := LenNone | LenFits | LenExceeds | LenDynamic.
Record print_call := mkPrintCall {
  pc_file : string; pc_fn : string; pc_line : N; pc_callee : string;
  pc_fmt_literal : bool;      (* the format is a string literal (or the routine is a variadic forwarder) *)
  pc_nargs_ok : bool;         (* as many arguments as conversion directives *)
  pc_str_ok : bool;           (* every %s gets a char string, no %n *)
  pc_len : len_class;         (* format_bytes/_string: constant length vs declared array size *)
  pc_detail : string
}.
Definition print_call_ok (c : print_call) : bool :=
  pc_fmt_literal c && pc_nargs_ok c && pc_str_ok c && match pc_len c with LenExceeds => false | _ => true end.
Definition print_call_key (c : print_call) : string := pc_file c ++ ":" ++ pc_fn c ++ ":" ++ pc_callee c.

Lemma print_audit_sound : forall tbl : list print_call,
  forallb print_call_ok tbl = true ->
  forall c, In c tbl -> pc_fmt_literal c = true /\ pc_nargs_ok c = true /\ pc_str_ok c = true /\ pc_len c <> LenExceeds.
Proof.
  intros tbl H c Hc. rewrite forallb_forall in H. specialize (H c Hc). unfold print_call_ok in H.
  repeat (apply andb_true_iff in H; destruct H as [H ?]). repeat split; auto.
  intro E. rewrite E in *. discriminate.
Qed.

(* ============================================================================ C18: entropy sites *)
(* How the caller tests the returned status.  The library's convention is 1 = success; the failure values of each
   entropy-dependent function are read off its return statements by the translator (rand_bytes: -1; *_rand_range: 0
   and -1; ...).  A test is adequate for a failure value v when it sends v down a different branch than 1. *)
Inductive cmp_op := Ceq | Cne | Clt | Cle | Cgt | Cge.
Inductive status_test :=
| TCmp (o : cmp_op) (c : Z)       (* status o c *)
| TNot                            (* !status *)
| TTruth                          (* if (status) / status && ... *)
| TReturned                       (* return status: the caller's caller decides *)
| TOther (why : string).          (* anything the translator does not understand *)

Definition eval_cmp (o : cmp_op) (v c : Z) : bool :=
  match o with
  | Ceq => Z.eqb v c | Cne => negb (Z.eqb v c) | Clt => Z.ltb v c | Cle => Z.leb v c | Cgt => Z.ltb c v | Cge => Z.leb c v
  end.

Definition eval_test (t : status_test) (v : Z) : option bool :=
  match t with
  | TCmp o c => Some (eval_cmp o v c)
  | TNot => Some (Z.eqb v 0)
  | TTruth => Some (negb (Z.eqb v 0))
  | TReturned | TOther _ => None
  end.

Definition distinguishes (t : status_test) (v : Z) : bool :=
  match t with
  | TReturned => true
  | TOther _ => false
  | _ => match eval_test t v, eval_test t 1%Z with Some a, Some b => negb (Bool.eqb a b) | _, _ => false end
  end.

Record rand_site := mkSite {
  s_file : string; s_fn : string; s_callee : string; s_line : N;
  s_result_used : bool;          (* the call's value is not discarded *)
  s_how : string;                (* syntactic position of the call *)
  s_tests : list status_test;    (* every test the caller applies to the status (directly or through the variable holding it) *)
  s_fails : list Z               (* the callee's failure return values *)
}.

Definition site_ok (s : rand_site) : bool :=
  s_result_used s && forallb (fun v => existsb (fun t => distinguishes t v) (s_tests s)) (s_fails s).
Definition site_key (s : rand_site) : string := s_file s ++ ":" ++ s_fn s ++ ":" ++ s_callee s.

Lemma rand_table_sound : forall tbl : list rand_site,
  forallb site_ok tbl = true ->
  forall s, In s tbl ->
    s_result_used s = true /\
    forall v, In v (s_fails s) -> exists t, In t (s_tests s) /\ distinguishes t v = true.
Proof.
  intros tbl H s Hs. rewrite forallb_forall in H. specialize (H s Hs). unfold site_ok in H.
  apply andb_true_iff in H. destruct H as [H1 H2]. split; [exact H1|].
  intros v Hv. rewrite forallb_forall in H2. specialize (H2 v Hv). apply existsb_exists in H2. exact H2.
Qed.

(* what "distinguishes" buys: the tested value v is not treated like success *)
Lemma distinguishes_sound : forall t v a b,
  distinguishes t v = true -> eval_test t v = Some a -> eval_test t 1%Z = Some b -> a <> b.
Proof.
  intros t v a b H Ha Hb. destruct t; cbn in H; try discriminate; cbn in Ha, Hb;
  inversion Ha; inversion Hb; subst; intro E; rewrite E in H; rewrite Bool.eqb_reflx in H; discriminate.
Qed.

(* the seeded shape: `!rand_bytes(...)` does not tell -1 from 1, `!= 1` does, `< 0` misses 0 *)
Example not_misses_minus_one : distinguishes TNot (-1)%Z = false /\ distinguishes (TCmp Cne 1%Z) (-1)%Z = true /\
  distinguishes (TCmp Clt 0%Z) 0%Z = false /\ distinguishes (TCmp Cle 0%Z) 0%Z = true /\ distinguishes TTruth (-1)%Z = false.
Proof. repeat split. Qed.
