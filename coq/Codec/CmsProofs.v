(* Proofs about Codec/Cms.v (src/cms.c): no decoder reaches Fault - every loop ends within its fuel, every read
   stays inside the buffer it was given, no store leaves an array - and the capacities:
   * digest_algors[]: with the repaired test "cnt >= max" the count never exceeds max (= the array the
     caller declared); with the test of the pinned tree "cnt > max" the bound is max + 1, and five
     identifiers against int digest_algors[4] are the witness of the overrun;
   * the caller's content buffer of the *_decrypt_from_der / *_decipher_from_der levels (no capacity
     parameter in the C interface): a buffer as long as the input is never overrun, provided the CBC
     primitive returns no more than it was given;
   * out[maxlen] of cms_recipient_info_decrypt_from_der and the local key[32], content_info_header[128],
     digest_algors[4] of the verifying levels.
   Encoders: the repaired cms_encrypted_data_to_der and cms_encrypted_data_from_der are inverse to each other
   with exact consumption; the text as it stands answers 1 with the header and the version only.
   The hints of Codec/X509Proofs.v are local to that file and are declared again here. *)
From GmVerif Require Import Base.Bytes Codec.Der Codec.DerProofs Codec.SafetyProofs Codec.Time Codec.TimeProofs
  Codec.Pkcs Codec.PkcsProofs Codec.OidTables Codec.X509 Codec.X509Proofs Codec.Cms.
From Coq Require Import Lia ZArith List ZifyN ZifyNat ZifyBool.
Import ListNotations.
Local Open Scope N_scope.
Ltac Zify.zify_post_hook ::= Z.div_mod_to_equations.

#[local] Hint Resolve type_from_der_nofault nonempty_type_from_der_nofault integer_from_der_nofault
  null_from_der_nofault oid_from_der_m_nofault int_from_der_m_nofault bit_octets_from_der_m_nofault
  oid_info_from_der_nofault any_type_from_der_nofault any_from_der_nofault
  otype_nofault ontype_nofault at_end_nofault
  digest_algor_from_der_nofault sign_algor_from_der_nofault pke_algor_from_der_nofault
  sm2_pubinfo_from_der_nofault cert_from_der_nofault cert_get_details_nofault : pkcs_nofault.

(* ------------------------------------------------------------------ 1. the plain decoders never reach Fault *)
Lemma x509_enc_algor_from_der_nofault inp : x509_enc_algor_from_der inp <> Fault.
Proof. unfold x509_enc_algor_from_der. x509_nf. Qed.
Lemma x509_enc_algor_from_der_shrinks : shrinks x509_enc_algor_from_der.
Proof. unfold x509_enc_algor_from_der. apply seq_dec_shrinks. Qed.
Lemma cms_content_type_from_der_nofault inp : cms_content_type_from_der inp <> Fault.
Proof. unfold cms_content_type_from_der. x509_nf. Qed.
Lemma cms_content_type_from_der_shrinks : shrinks cms_content_type_from_der.
Proof. unfold cms_content_type_from_der. apply oid_info_from_der_shrinks. Qed.
#[local] Hint Resolve x509_enc_algor_from_der_nofault cms_content_type_from_der_nofault : pkcs_nofault.

Lemma cms_content_info_from_der_nofault inp : cms_content_info_from_der inp <> Fault.
Proof. unfold cms_content_info_from_der. x509_nf. Qed.
Lemma cms_content_info_from_der_shrinks : shrinks cms_content_info_from_der.
Proof. unfold cms_content_info_from_der. apply seq_dec_shrinks. Qed.
Lemma cms_data_from_der_nofault inp : cms_data_from_der inp <> Fault.
Proof. unfold cms_data_from_der. x509_nf. Qed.
#[local] Hint Resolve cms_content_info_from_der_nofault : pkcs_nofault.

Lemma cms_enced_content_info_from_der_nofault inp : cms_enced_content_info_from_der inp <> Fault.
Proof. unfold cms_enced_content_info_from_der. x509_nf. Qed.
Lemma cms_enced_content_info_from_der_shrinks : shrinks cms_enced_content_info_from_der.
Proof. unfold cms_enced_content_info_from_der. apply seq_dec_shrinks. Qed.
#[local] Hint Resolve cms_enced_content_info_from_der_nofault : pkcs_nofault.
Lemma cms_encrypted_data_from_der_nofault inp : cms_encrypted_data_from_der inp <> Fault.
Proof. unfold cms_encrypted_data_from_der. x509_nf. Qed.

Lemma cms_issuer_and_serial_number_from_der_nofault inp : cms_issuer_and_serial_number_from_der inp <> Fault.
Proof. unfold cms_issuer_and_serial_number_from_der. x509_nf. Qed.
#[local] Hint Resolve cms_issuer_and_serial_number_from_der_nofault : pkcs_nofault.
Lemma cms_signer_info_from_der_nofault fx inp : cms_signer_info_from_der fx inp <> Fault.
Proof. unfold cms_signer_info_from_der. x509_nf. Qed.
Lemma cms_signer_info_from_der_shrinks fx : shrinks (cms_signer_info_from_der fx).
Proof. unfold cms_signer_info_from_der. apply seq_dec_shrinks. Qed.
Lemma cms_signer_infos_from_der_nofault inp : cms_signer_infos_from_der inp <> Fault.
Proof. unfold cms_signer_infos_from_der. x509_nf. Qed.
Lemma cms_recipient_infos_from_der_nofault inp : cms_recipient_infos_from_der inp <> Fault.
Proof. unfold cms_recipient_infos_from_der. x509_nf. Qed.
#[local] Hint Resolve cms_signer_info_from_der_nofault : pkcs_nofault.

(* ------------------------------------------------------------------ 2. DigestAlgorithmIdentifiers: the capacity *)
Lemma digest_algor_from_der_shrinks fx : shrinks (digest_algor_from_der fx).
Proof.
  intros d a r. unfold digest_algor_from_der.
  destruct (type_from_der 48 d) as [[x y]| | |] eqn:E; try discriminate.
  assert (L : (length y < length d)%nat) by exact (type_from_der_shrinks _ _ _ _ E).
  destruct (oid_info_from_der tab_digest_algors x) as [[id d1]| | |]; try discriminate.
  - destruct (is_nil d1); [intros H; injection H as _ <-; exact L|].
    destruct fx; [discriminate|]. intros H; injection H as _ <-; exact L.
  - destruct fx; discriminate.
Qed.

(* the loop: with the array at least as large as the bound of the test in force ("cnt >= max": max entries,
   "cnt > max": max + 1 entries) no store leaves the array, the loop ends within its fuel, the count stays
   within the bound, and a non-empty input leaves at least one entry *)
Definition da_bound (fxcap : bool) (maxn : N) : N := if fxcap then maxn else maxn + 1.
Lemma digest_algors_loop_safe fx fxcap cap maxn : da_bound fxcap maxn <= cap ->
  forall fuel d acc, (length d <= fuel)%nat ->
  match digest_algors_loop fx fxcap cap maxn fuel d acc with
  | Ok s => (len acc <= da_bound fxcap maxn -> len s <= da_bound fxcap maxn) /\ (length acc <= length s)%nat /\
            (d <> [] -> (length acc < length s)%nat)
  | Fault => False
  | _ => True
  end.
Proof.
  intros HB. induction fuel as [|k IH]; intros d acc L.
  - destruct d; [|cbn in L; lia]. cbn [digest_algors_loop]. split; [auto|]. split; [lia|congruence].
  - destruct d as [|b t]; cbn [digest_algors_loop]; [split; [auto|]; split; [lia|congruence]|].
    destruct (if fxcap then maxn <=? len acc else maxn <? len acc) eqn:T; [exact I|].
    assert (LA : len acc < da_bound fxcap maxn) by (unfold da_bound; destruct fxcap; lia).
    destruct (N.leb_spec cap (len acc)); [lia|].
    pose proof (digest_algor_from_der_nofault fx (b :: t)) as NF.
    destruct (digest_algor_from_der fx (b :: t)) as [[id r]| | |] eqn:E; try exact I; [|congruence].
    apply digest_algor_from_der_shrinks in E.
    specialize (IH r (acc ++ [id]) ltac:(lia)).
    destruct (digest_algors_loop fx fxcap cap maxn k r (acc ++ [id])) as [s| | |]; try exact I; [|exact IH].
    destruct IH as (I1 & I2 & _). unfold len in *. rewrite app_length in *. cbn [length] in *.
    split; [intros _; apply I1; lia|]. split; intros; lia.
Qed.

Theorem cms_digest_algors_from_der_safe fx fxcap cap maxn inp :
  da_bound fxcap maxn <= cap ->
  match cms_digest_algors_from_der fx fxcap cap maxn inp with
  | Ok (ids, _) => len ids <= da_bound fxcap maxn /\ ids <> []
  | Fault => False
  | _ => True
  end.
Proof.
  intros HB. unfold cms_digest_algors_from_der, tlv_dec.
  pose proof (nonempty_type_from_der_nofault 49 inp) as NF.
  destruct (nonempty_type_from_der 49 inp) as [[p rest]| | |] eqn:EP; try exact I; [|congruence].
  assert (NP : p <> []).
  { unfold nonempty_type_from_der in EP. destruct (type_from_der 49 inp) as [[x y]| | |]; try discriminate.
    destruct (N.eqb_spec (len x) 0) as [|NZ]; [discriminate|]. injection EP as <- _. intros ->. apply NZ. reflexivity. }
  pose proof (digest_algors_loop_safe fx fxcap cap maxn HB (length p) p [] (le_n _)) as S.
  destruct (digest_algors_loop fx fxcap cap maxn (length p) p []) as [s| | |]; try exact I; [|exact S].
  destruct S as (S1 & _ & S3). split; [apply S1; cbn; lia|]. specialize (S3 NP). intros ->. cbn [length] in S3. lia.
Qed.
(* the repaired test with the array the caller declared: the usual statement *)
Corollary cms_digest_algors_from_der_cap fx cap inp :
  match cms_digest_algors_from_der fx true cap cap inp with
  | Ok (ids, _) => len ids <= cap
  | Fault => False
  | _ => True
  end.
Proof.
  pose proof (cms_digest_algors_from_der_safe fx true cap cap inp (N.le_refl _)) as H.
  destruct (cms_digest_algors_from_der fx true cap cap inp) as [[ids r]| | |]; auto. exact (proj1 H).
Qed.
(* the test of the pinned tree: five DigestAlgorithmIdentifiers against int digest_algors[4], max = 4 *)
Example cms_digest_algors_asis_overrun :
  let sm3a := [48; 10; 6; 8; 42; 129; 28; 207; 85; 1; 131; 17] in
  let inp := [49; 60] ++ sm3a ++ sm3a ++ sm3a ++ sm3a ++ sm3a in
  cms_digest_algors_from_der true false 4 4 inp = Fault /\
  cms_digest_algors_from_der true true 4 4 inp = Err /\
  cms_digest_algors_from_der true false 5 4 inp = Ok ([13; 13; 13; 13; 13]%Z, []).
Proof. repeat split; vm_compute; reflexivity. Qed.

Lemma cms_digest_algors_from_der_nofault fx fxcap cap maxn inp :
  da_bound fxcap maxn <= cap -> cms_digest_algors_from_der fx fxcap cap maxn inp <> Fault.
Proof. intros HB E. pose proof (cms_digest_algors_from_der_safe fx fxcap cap maxn inp HB) as H. rewrite E in H. exact H. Qed.
Lemma cms_digest_algors_from_der_shrinks fx fxcap cap maxn : shrinks (cms_digest_algors_from_der fx fxcap cap maxn).
Proof. unfold cms_digest_algors_from_der. apply (tlv_dec_shrinks (nonempty_type_from_der 49)). apply nonempty_type_from_der_shrinks. Qed.

(* ------------------------------------------------------------------ 3. SignedData, RecipientInfo, EnvelopedData, SignedAndEnvelopedData *)
Lemma tlv_dec_inv {A} r (f : list N -> res A) v rest :
  tlv_dec r f = Ok (v, rest) -> exists d, r = Ok (d, rest) /\ f d = Ok v.
Proof.
  unfold tlv_dec. destruct r as [[d r0]| | |]; try discriminate. destruct (f d) eqn:E; try discriminate.
  intros H; injection H as <- <-. eauto.
Qed.
Lemma at_end_inv {A} d (v w : A) : at_end d v = Ok w -> d = [] /\ v = w.
Proof. unfold at_end. destruct d; cbn [is_nil]; [|discriminate]. intros H; injection H as <-. auto. Qed.

Lemma cms_signed_data_from_der_nofault fx fxcap cap maxn inp :
  da_bound fxcap maxn <= cap -> cms_signed_data_from_der fx fxcap cap maxn inp <> Fault.
Proof.
  intros HB. pose proof (fun i => cms_digest_algors_from_der_nofault fx fxcap cap maxn i HB) as ND.
  unfold cms_signed_data_from_der. x509_nf.
Qed.
Lemma cms_signed_data_from_der_shrinks fx fxcap cap maxn : shrinks (cms_signed_data_from_der fx fxcap cap maxn).
Proof. unfold cms_signed_data_from_der. apply seq_dec_shrinks. Qed.

Theorem cms_signed_data_from_der_safe fx fxcap cap maxn inp :
  da_bound fxcap maxn <= cap ->
  match cms_signed_data_from_der fx fxcap cap maxn inp with
  | Ok (_, ids, _, _, _, _, _, _) => len ids <= da_bound fxcap maxn /\ ids <> []
  | Fault => False
  | _ => True
  end.
Proof.
  intros HB. pose proof (cms_signed_data_from_der_nofault fx fxcap cap maxn inp HB) as NF.
  destruct (cms_signed_data_from_der fx fxcap cap maxn inp) as [[[[[[[[ver ids] ct] content] certs] crls] sis] rest]| | |] eqn:E;
    try exact I; [|congruence].
  unfold cms_signed_data_from_der, seq_dec in E. apply tlv_dec_inv in E. destruct E as (d & _ & E).
  apply bind_ok_inv in E. destruct E as ([v d1] & _ & E).
  apply bind_ok_inv in E. destruct E as ([algs d2] & EA & E).
  apply bind_ok_inv in E. destruct E as ([[ct' content'] d3] & _ & E).
  apply bind_ok_inv in E. destruct E as ([certs' d4] & _ & E).
  apply bind_ok_inv in E. destruct E as ([crls' d5] & _ & E).
  apply bind_ok_inv in E. destruct E as ([sis' d6] & _ & E).
  destruct (negb (is_nil d6)); [discriminate|]. destruct (negb (v =? CMS_version_v1)); [discriminate|].
  injection E as _ <- _ _ _ _ _.
  pose proof (cms_digest_algors_from_der_safe fx fxcap cap maxn d1 HB) as S. rewrite EA in S. exact S.
Qed.
Corollary cms_signed_data_from_der_cap fx cap inp :
  match cms_signed_data_from_der fx true cap cap inp with
  | Ok (_, ids, _, _, _, _, _, _) => len ids <= cap
  | Fault => False
  | _ => True
  end.
Proof.
  pose proof (cms_signed_data_from_der_safe fx true cap cap inp (N.le_refl _)) as H.
  destruct (cms_signed_data_from_der fx true cap cap inp) as [[[[[[[[ver ids] ct] content] certs] crls] sis] rest]| | |]; auto.
  exact (proj1 H).
Qed.

Lemma cms_recipient_info_from_der_nofault inp : cms_recipient_info_from_der inp <> Fault.
Proof. unfold cms_recipient_info_from_der. x509_nf. Qed.
Lemma cms_recipient_info_from_der_shrinks : shrinks cms_recipient_info_from_der.
Proof. unfold cms_recipient_info_from_der. apply seq_dec_shrinks. Qed.
Lemma cms_enveloped_data_from_der_nofault inp : cms_enveloped_data_from_der inp <> Fault.
Proof. unfold cms_enveloped_data_from_der. x509_nf. Qed.
Lemma cms_signed_and_enveloped_data_from_der_nofault fx fxcap cap maxn inp :
  da_bound fxcap maxn <= cap -> cms_signed_and_enveloped_data_from_der fx fxcap cap maxn inp <> Fault.
Proof.
  intros HB. pose proof (fun i => cms_digest_algors_from_der_nofault fx fxcap cap maxn i HB) as ND.
  unfold cms_signed_and_enveloped_data_from_der. x509_nf.
Qed.
Theorem cms_signed_and_enveloped_data_from_der_safe fx fxcap cap maxn inp :
  da_bound fxcap maxn <= cap ->
  match cms_signed_and_enveloped_data_from_der fx fxcap cap maxn inp with
  | Ok (_, _, ids, _, _, _, _, _) => len ids <= da_bound fxcap maxn /\ ids <> []
  | Fault => False
  | _ => True
  end.
Proof.
  intros HB. pose proof (cms_signed_and_enveloped_data_from_der_nofault fx fxcap cap maxn inp HB) as NF.
  destruct (cms_signed_and_enveloped_data_from_der fx fxcap cap maxn inp) as [[[[[[[[ver ris] ids] eci] certs] crls] sis] rest]| | |] eqn:E;
    try exact I; [|congruence].
  unfold cms_signed_and_enveloped_data_from_der, seq_dec in E. apply tlv_dec_inv in E. destruct E as (d & _ & E).
  apply bind_ok_inv in E. destruct E as ([v d1] & _ & E).
  apply bind_ok_inv in E. destruct E as ([ris' d2] & _ & E).
  apply bind_ok_inv in E. destruct E as ([algs d3] & EA & E).
  apply bind_ok_inv in E. destruct E as ([eci' d4] & _ & E).
  apply bind_ok_inv in E. destruct E as ([certs' d5] & _ & E).
  apply bind_ok_inv in E. destruct E as ([crls' d6] & _ & E).
  apply bind_ok_inv in E. destruct E as ([sis' d7] & _ & E).
  apply at_end_inv in E. destruct E as [_ E]. injection E as _ _ <- _ _ _ _.
  pose proof (cms_digest_algors_from_der_safe fx fxcap cap maxn d2 HB) as S. rewrite EA in S. exact S.
Qed.
Corollary cms_signed_and_enveloped_data_from_der_cap fx cap inp :
  match cms_signed_and_enveloped_data_from_der fx true cap cap inp with
  | Ok (_, _, ids, _, _, _, _, _) => len ids <= cap
  | Fault => False
  | _ => True
  end.
Proof.
  pose proof (cms_signed_and_enveloped_data_from_der_safe fx true cap cap inp (N.le_refl _)) as H.
  destruct (cms_signed_and_enveloped_data_from_der fx true cap cap inp) as [[[[[[[[ver ris] ids] eci] certs] crls] sis] rest]| | |]; auto.
  exact (proj1 H).
Qed.
#[local] Hint Resolve cms_recipient_info_from_der_nofault cms_enveloped_data_from_der_nofault : pkcs_nofault.

(* ------------------------------------------------------------------ 4. lengths of the pieces (used for the caller's content buffer) *)
Lemma type_from_der_len tag d a r : type_from_der tag d = Ok (a, r) -> (length a + length r < length d)%nat.
Proof.
  intros H. apply type_from_der_inv in H.
  destruct H as (r0 & l & r' & -> & HL & -> & -> & _ & _).
  apply len_from_der_suffix in HL. destruct HL as (pre & -> & _).
  unfold takeN, dropN. cbn [length]. rewrite app_length, firstn_length, skipn_length. lia.
Qed.
Lemma otype_len tag d p r : otype tag d = Ok (p, r) -> (length (ptr_bytes p) + length r <= length d)%nat.
Proof.
  unfold otype, opt, as_ptr. destruct (type_from_der tag d) as [[x y]| | |] eqn:E; try discriminate.
  - intros H; injection H as <- <-. apply type_from_der_len in E. cbn [ptr_bytes]. lia.
  - intros H; injection H as <- <-. cbn [ptr_bytes length]. lia.
Qed.
Lemma any_from_der_len d a r : any_from_der d = Ok (a, r) -> (length a + length r = length d)%nat /\ (length r < length d)%nat.
Proof.
  intros H. apply any_from_der_suffix in H. destruct H as [-> NE]. rewrite app_length.
  destruct a; [congruence|]. cbn [length]. lia.
Qed.
Lemma int_from_der_shrinks tag : shrinks (int_from_der m tag).
Proof. intros d v r H. apply int_from_der_suffix in H. apply proper_suffix_len. exact H. Qed.

Lemma cms_enced_content_info_from_der_ec_len inp ct alg iv ec s1 s2 rest :
  cms_enced_content_info_from_der inp = Ok (ct, alg, iv, ec, s1, s2, rest) ->
  (length (ptr_bytes ec) + length rest < length inp)%nat.
Proof.
  unfold cms_enced_content_info_from_der, seq_dec. intros E. apply tlv_dec_inv in E. destruct E as (d & ET & E).
  apply type_from_der_len in ET.
  apply bind_ok_inv in E. destruct E as ([ct' d1] & E1 & E). apply cms_content_type_from_der_shrinks in E1.
  apply bind_ok_inv in E. destruct E as ([[alg' iv'] d2] & E2 & E). apply x509_enc_algor_from_der_shrinks in E2.
  apply bind_ok_inv in E. destruct E as ([ec' d3] & E3 & E). apply otype_len in E3.
  apply bind_ok_inv in E. destruct E as ([s1' d4] & _ & E).
  apply bind_ok_inv in E. destruct E as ([s2' d5] & _ & E).
  apply at_end_inv in E. destruct E as [_ E]. injection E as _ _ _ <- _ _. lia.
Qed.

(* ------------------------------------------------------------------ 5. KeyAgreementInfo and the decrypting / verifying levels *)
Definition cbc_shortens (cbcdec : list N -> list N -> list N -> option (list N)) : Prop :=
  forall k iv c pt, cbcdec k iv c = Some pt -> len pt <= len c.

Lemma cbc_extent_le c : cbc_extent c <= len c.
Proof. unfold cbc_extent. destruct ((len c =? 0) || negb (len c mod 16 =? 0)); lia. Qed.

Section KeyedProofs.
  Variable pt_ok : list N -> bool.
  Variable cbcdec : list N -> list N -> list N -> option (list N).
  Variable sm2dec : list N -> option (list N).
  Variable sm3 : list N -> list N.
  Variable sm2ver : list N -> list N -> list N -> bool.

  Lemma sm2_pubkeyinfo_from_der_nofault inp : sm2_pubkeyinfo_from_der pt_ok inp <> Fault.
  Proof. unfold sm2_pubkeyinfo_from_der. x509_nf. Qed.
  #[local] Hint Resolve sm2_pubkeyinfo_from_der_nofault : pkcs_nofault.
  Lemma cms_key_agreement_info_from_der_nofault inp : cms_key_agreement_info_from_der pt_ok inp <> Fault.
  Proof. unfold cms_key_agreement_info_from_der. x509_nf. Qed.

  (* the content buffer: a buffer as long as the input is enough *)
  Theorem cms_enced_content_info_decrypt_from_der_safe ccap key inp :
    cbc_shortens cbcdec -> len inp <= ccap ->
    match cms_enced_content_info_decrypt_from_der cbcdec ccap key inp with
    | Ok (_, _, pt, _, _, _) => len pt <= ccap
    | Fault => False
    | _ => True
    end.
  Proof.
    intros CS L. unfold cms_enced_content_info_decrypt_from_der.
    pose proof (cms_enced_content_info_from_der_nofault inp) as NF.
    destruct (cms_enced_content_info_from_der inp) as [[[[[[[ct alg] iv] ec] s1] s2] rest]| | |] eqn:E;
      cbn [bind_ok]; try exact I; [|congruence].
    apply cms_enced_content_info_from_der_ec_len in E.
    destruct (negb (alg =? OID_sm4_cbc)%Z); [exact I|].
    destruct (negb (len iv =? 16)); [exact I|]. destruct (negb (len key =? 16)); [exact I|].
    pose proof (cbc_extent_le (ptr_bytes ec)) as XE.
    destruct (N.ltb_spec ccap (cbc_extent (ptr_bytes ec))) as [B|_]; [unfold len in *; lia|].
    destruct (cbcdec key iv (ptr_bytes ec)) as [pt|] eqn:D; [|exact I]. apply CS in D.
    destruct (N.ltb_spec ccap (len pt)) as [B|B]; [unfold len in *; lia|exact B].
  Qed.
  Lemma cms_enced_content_info_decrypt_from_der_nofault ccap key inp :
    cbc_shortens cbcdec -> len inp <= ccap -> cms_enced_content_info_decrypt_from_der cbcdec ccap key inp <> Fault.
  Proof. intros CS L E. pose proof (cms_enced_content_info_decrypt_from_der_safe ccap key inp CS L) as H. rewrite E in H. exact H. Qed.

  Theorem cms_encrypted_data_decrypt_from_der_safe ccap key inp :
    cbc_shortens cbcdec -> len inp <= ccap ->
    match cms_encrypted_data_decrypt_from_der cbcdec ccap key inp with
    | Ok (_, _, pt, _, _, _) => len pt <= ccap
    | Fault => False
    | _ => True
    end.
  Proof.
    intros CS L. unfold cms_encrypted_data_decrypt_from_der, seq_dec, tlv_dec.
    pose proof (type_from_der_nofault 48 inp) as NF.
    destruct (type_from_der 48 inp) as [[d rest]| | |] eqn:ET; try exact I; [|congruence].
    apply type_from_der_len in ET.
    pose proof (int_from_der_m_nofault 2 d) as NI.
    destruct (int_from_der m 2 d) as [[ver d1]| | |] eqn:EI; cbn [bind_ok]; try exact I; [|congruence].
    apply int_from_der_shrinks in EI.
    destruct (negb (ver =? CMS_version_v1)); [exact I|].
    pose proof (cms_enced_content_info_decrypt_from_der_safe ccap key d1 CS ltac:(unfold len in *; lia)) as S.
    destruct (cms_enced_content_info_decrypt_from_der cbcdec ccap key d1) as [[[[[[alg ct] pt] s1] s2] d2]| | |];
      cbn [bind_ok]; try exact I; [|contradiction].
    unfold at_end. destruct (is_nil d2); [exact S|exact I].
  Qed.
  Lemma cms_encrypted_data_decrypt_from_der_nofault ccap key inp :
    cbc_shortens cbcdec -> len inp <= ccap -> cms_encrypted_data_decrypt_from_der cbcdec ccap key inp <> Fault.
  Proof. intros CS L E. pose proof (cms_encrypted_data_decrypt_from_der_safe ccap key inp CS L) as H. rewrite E in H. exact H. Qed.

  (* RecipientInfo: the key buffer out[maxlen] *)
  Lemma cms_recipient_info_decrypt_from_der_nofault ri rs maxlen inp :
    cms_recipient_info_decrypt_from_der sm2dec ri rs maxlen inp <> Fault.
  Proof. unfold cms_recipient_info_decrypt_from_der. x509_nf. Qed.
  Lemma cms_recipient_info_decrypt_from_der_shrinks ri rs maxlen :
    shrinks (cms_recipient_info_decrypt_from_der sm2dec ri rs maxlen).
  Proof.
    intros d a r. unfold cms_recipient_info_decrypt_from_der.
    destruct (cms_recipient_info_from_der d) as [[[[[[[ver issuer] serial] alg] params] ek] rest]| | |] eqn:E;
      cbn [bind_ok]; try discriminate.
    apply cms_recipient_info_from_der_shrinks in E.
    destruct (negb (list_eqb issuer ri && list_eqb serial rs)); [intros H; injection H as _ <-; exact E|].
    destruct (negb (alg =? OID_sm2encrypt)%Z || negb (ptr_is_null params)); [discriminate|].
    destruct (sm2dec ek) as [k|]; [|discriminate].
    destruct (maxlen <? len k); [discriminate|]. intros H; injection H as _ <-; exact E.
  Qed.
  Theorem cms_recipient_info_decrypt_from_der_safe ri rs maxlen inp :
    match cms_recipient_info_decrypt_from_der sm2dec ri rs maxlen inp with
    | Ok (Some k, _) => len k <= maxlen
    | Fault => False
    | _ => True
    end.
  Proof.
    pose proof (cms_recipient_info_decrypt_from_der_nofault ri rs maxlen inp) as NF. revert NF.
    unfold cms_recipient_info_decrypt_from_der.
    destruct (cms_recipient_info_from_der inp) as [[[[[[[ver issuer] serial] alg] params] ek] rest]| | |];
      cbn [bind_ok]; try (intros; exact I); [|congruence].
    destruct (negb (list_eqb issuer ri && list_eqb serial rs)); [intros; exact I|].
    destruct (negb (alg =? OID_sm2encrypt)%Z || negb (ptr_is_null params)); [intros; exact I|].
    destruct (sm2dec ek) as [k|]; [|intros; exact I].
    destruct (N.ltb_spec maxlen (len k)); [intros; exact I|]. intros _. assumption.
  Qed.
  Theorem cms_recipient_infos_open_safe ri rs ris :
    match cms_recipient_infos_open sm2dec ri rs ris with
    | Ok key => len key <= 32
    | Fault => False
    | _ => True
    end.
  Proof.
    unfold cms_recipient_infos_open.
    pose proof (find_loop_nofault (cms_recipient_info_decrypt_from_der sm2dec ri rs 32) is_some
      (cms_recipient_info_decrypt_from_der_nofault ri rs 32) (cms_recipient_info_decrypt_from_der_shrinks ri rs 32)
      (length ris) ris (le_n _)) as NF.
    assert (K : forall fuel d k r, find_loop fuel (cms_recipient_info_decrypt_from_der sm2dec ri rs 32) is_some d = Ok (Some (Some k, r)) -> len k <= 32).
    { induction fuel as [|n IH]; intros d k r; destruct d as [|b t]; cbn [find_loop]; try discriminate.
      pose proof (cms_recipient_info_decrypt_from_der_safe ri rs 32 (b :: t)) as S.
      destruct (cms_recipient_info_decrypt_from_der sm2dec ri rs 32 (b :: t)) as [[[k'|] r']| | |]; try discriminate.
      - cbn [is_some]. intros H; injection H as <- _. exact S.
      - cbn [is_some]. apply IH. }
    destruct (find_loop _ _ _ ris) as [[[[k|] r]|]| | |] eqn:E; try exact I; [|congruence].
    exact (K _ _ _ _ E).
  Qed.
  Lemma cms_recipient_infos_open_nofault ri rs ris : cms_recipient_infos_open sm2dec ri rs ris <> Fault.
  Proof. intros E. pose proof (cms_recipient_infos_open_safe ri rs ris) as H. rewrite E in H. exact H. Qed.

  (* EnvelopedData *)
  Lemma cms_enveloped_data_from_der_eci_len inp ver ris eci rest :
    cms_enveloped_data_from_der inp = Ok (ver, ris, eci, rest) -> (length eci < length inp)%nat.
  Proof.
    unfold cms_enveloped_data_from_der, seq_dec. intros E. apply tlv_dec_inv in E. destruct E as (d & ET & E).
    apply type_from_der_len in ET.
    apply bind_ok_inv in E. destruct E as ([v d1] & E1 & E). apply int_from_der_shrinks in E1.
    apply bind_ok_inv in E. destruct E as ([ris' d2] & E2 & E). apply nonempty_type_from_der_shrinks in E2.
    apply bind_ok_inv in E. destruct E as ([eci' d3] & E3 & E). apply any_from_der_len in E3.
    apply at_end_inv in E. destruct E as [_ E]. injection E as _ _ <-. lia.
  Qed.
  Theorem cms_enveloped_data_decrypt_from_der_safe ccap ri rs inp :
    cbc_shortens cbcdec -> len inp <= ccap ->
    match cms_enveloped_data_decrypt_from_der cbcdec sm2dec ccap ri rs inp with
    | Ok (_, pt, _, _, _, _) => len pt <= ccap
    | Fault => False
    | _ => True
    end.
  Proof.
    intros CS L. unfold cms_enveloped_data_decrypt_from_der.
    pose proof (cms_enveloped_data_from_der_nofault inp) as NF.
    destruct (cms_enveloped_data_from_der inp) as [[[[ver ris] eci] rest]| | |] eqn:E; cbn [bind_ok]; try exact I; [|congruence].
    apply cms_enveloped_data_from_der_eci_len in E.
    destruct (negb (ver =? 1)%Z); [exact I|].
    pose proof (cms_recipient_infos_open_nofault ri rs ris) as NO.
    destruct (cms_recipient_infos_open sm2dec ri rs ris) as [key| | |]; cbn [bind_ok]; try exact I; [|congruence].
    pose proof (cms_enced_content_info_decrypt_from_der_safe ccap key eci CS ltac:(unfold len in *; lia)) as S.
    destruct (cms_enced_content_info_decrypt_from_der cbcdec ccap key eci) as [[[[[[alg ct] pt] s1] s2] d2]| | |];
      cbn [bind_ok]; try exact I; [exact S|contradiction].
  Qed.
  Lemma cms_enveloped_data_decrypt_from_der_nofault ccap ri rs inp :
    cbc_shortens cbcdec -> len inp <= ccap -> cms_enveloped_data_decrypt_from_der cbcdec sm2dec ccap ri rs inp <> Fault.
  Proof. intros CS L E. pose proof (cms_enveloped_data_decrypt_from_der_safe ccap ri rs inp CS L) as H. rewrite E in H. exact H. Qed.

  (* the certificate lookup and the signature levels *)
  Lemma cert_issuer_serial_step_nofault d : cert_issuer_serial_step pt_ok d <> Fault.
  Proof. unfold cert_issuer_serial_step. x509_nf. Qed.
  Lemma cert_issuer_serial_step_shrinks : shrinks (cert_issuer_serial_step pt_ok).
  Proof.
    intros d [[a i] s] r. unfold cert_issuer_serial_step. intros H.
    apply bind_ok_inv in H. destruct H as ([a' r'] & E & H).
    apply bind_ok_inv in H. destruct H as ([[t x] y] & _ & H). injection H as _ _ _ <-.
    unfold cert_from_der in E. destruct (any_from_der d) as [[a0 r0]| | |] eqn:EA; try discriminate.
    apply bind_ok_inv in E. destruct E as (? & _ & E). injection E as _ <-.
    apply any_from_der_len in EA. lia.
  Qed.
  Lemma certs_get_cert_by_issuer_and_serial_number_nofault d issuer serial :
    certs_get_cert_by_issuer_and_serial_number pt_ok d issuer serial <> Fault.
  Proof.
    unfold certs_get_cert_by_issuer_and_serial_number.
    pose proof (find_loop_nofault (cert_issuer_serial_step pt_ok) (fun '(_, i, s) => list_eqb i issuer && list_eqb s serial)
      cert_issuer_serial_step_nofault cert_issuer_serial_step_shrinks (length d) d (le_n _)) as H.
    destruct (find_loop _ _ _ d) as [[[[[? ?] ?] ?]|]| | |]; congruence.
  Qed.
  #[local] Hint Resolve certs_get_cert_by_issuer_and_serial_number_nofault : pkcs_nofault.
  Lemma cms_signer_info_verify_from_der_nofault fx pre certs inp :
    cms_signer_info_verify_from_der pt_ok sm3 sm2ver fx pre certs inp <> Fault.
  Proof. unfold cms_signer_info_verify_from_der. x509_nf. Qed.
  Lemma cms_signer_info_verify_from_der_shrinks fx pre certs :
    shrinks (cms_signer_info_verify_from_der pt_ok sm3 sm2ver fx pre certs).
  Proof.
    intros d a r. unfold cms_signer_info_verify_from_der. intros H.
    apply bind_ok_inv in H. destruct H as ([[[[[[[[ver issuer] serial] dg] aa] sa] sig] ua] rest] & E & H).
    apply cms_signer_info_from_der_shrinks in E.
    destruct (negb (ver =? 1)%Z); [discriminate|]. destruct (negb (dg =? OID_sm3)%Z); [discriminate|].
    destruct (negb (sa =? OID_sm2sign_with_sm3)%Z); [discriminate|].
    apply bind_ok_inv in H. destruct H as ([cert|] & _ & H); [|discriminate].
    apply bind_ok_inv in H. destruct H as ([[t x] y] & _ & H).
    destruct (sm2ver _ _ _); [|discriminate]. injection H as _ <-. exact E.
  Qed.
  Lemma cms_signer_infos_verify_nofault fx pre certs sis : cms_signer_infos_verify pt_ok sm3 sm2ver fx pre certs sis <> Fault.
  Proof.
    unfold cms_signer_infos_verify. apply bind_ok_nofault; [|discriminate].
    apply fold_loop_nofault; [apply cms_signer_info_verify_from_der_nofault|apply cms_signer_info_verify_from_der_shrinks|discriminate|lia].
  Qed.

  (* content_info_header[128] *)
  Lemma cms_content_type_to_der_len ct o : cms_content_type_to_der ct = Ok o -> len o = 12.
  Proof.
    unfold cms_content_type_to_der. destruct (ct =? -1)%Z; [discriminate|].
    unfold tab_cms_content_types; cbn [nodes_of].
    repeat (match goal with |- context [(?k =? ct)%Z] => destruct (Z.eqb_spec k ct) end;
            [intros H; vm_compute in H; injection H as <-; reflexivity|]).
    discriminate.
  Qed.
  Lemma header_enc_len tag l : len (header_enc tag l) <= 6.
  Proof. unfold header_enc. rewrite len_cons. pose proof (len_len_enc l). lia. Qed.
  Lemma cms_content_info_header_to_der_len ct n hdr : cms_content_info_header_to_der ct n = Ok hdr -> len hdr <= 24.
  Proof.
    unfold cms_content_info_header_to_der. intros H. apply bind_ok_inv in H. destruct H as (o & E & H).
    apply cms_content_type_to_der_len in E. injection H as <-. rewrite len_cons, !len_app, E.
    pose proof (len_len_enc (n + 12 + len (header_enc 160 n))). pose proof (header_enc_len 160 n). lia.
  Qed.
  Lemma cms_content_info_header_to_der_nofault ct n : cms_content_info_header_to_der ct n <> Fault.
  Proof.
    unfold cms_content_info_header_to_der, cms_content_type_to_der. apply bind_ok_nofault; [|discriminate].
    destruct (ct =? -1)%Z; [discriminate|]. destruct (nodes_of tab_cms_content_types ct) as [ns|]; [|discriminate].
    unfold oid_enc, oid_to_der. destruct (oid_to_octets m ns); discriminate.
  Qed.

  Lemma cms_signed_data_verify_from_der_nofault fx inp : cms_signed_data_verify_from_der pt_ok sm3 sm2ver fx true inp <> Fault.
  Proof.
    unfold cms_signed_data_verify_from_der.
    pose proof (cms_signed_data_from_der_safe fx true 4 4 inp (N.le_refl _)) as S.
    destruct (cms_signed_data_from_der fx true 4 4 inp) as [[[[[[[[ver ids] ct] content] certs] crls] sis] rest]| | |];
      cbn [bind_ok]; try discriminate; [|contradiction].
    destruct (negb (ver =? 1)%Z); [discriminate|]. destruct S as [_ NE]. destruct ids as [|a0 ids']; [congruence|].
    destruct (negb (a0 =? OID_sm3)%Z); [discriminate|]. destruct (negb (len (a0 :: ids') =? 1)); [discriminate|].
    pose proof (cms_content_info_header_to_der_nofault ct (len (ptr_bytes content))) as NH.
    destruct (cms_content_info_header_to_der ct (len (ptr_bytes content))) as [hdr| | |] eqn:EH; cbn [bind_ok]; try discriminate; [|congruence].
    apply cms_content_info_header_to_der_len in EH. destruct (N.ltb_spec 128 (len hdr)); [lia|].
    apply bind_ok_nofault; [apply cms_signer_infos_verify_nofault|discriminate].
  Qed.

  Lemma cms_signed_and_enveloped_data_from_der_eci_len fx fxcap cap maxn inp ver ris algs eci certs crls sis rest :
    cms_signed_and_enveloped_data_from_der fx fxcap cap maxn inp = Ok (ver, ris, algs, eci, certs, crls, sis, rest) ->
    (length eci < length inp)%nat.
  Proof.
    unfold cms_signed_and_enveloped_data_from_der, seq_dec. intros E. apply tlv_dec_inv in E. destruct E as (d & ET & E).
    apply type_from_der_len in ET.
    apply bind_ok_inv in E. destruct E as ([v d1] & E1 & E). apply int_from_der_shrinks in E1.
    apply bind_ok_inv in E. destruct E as ([ris' d2] & E2 & E). apply nonempty_type_from_der_shrinks in E2.
    apply bind_ok_inv in E. destruct E as ([algs' d3] & E3 & E). apply cms_digest_algors_from_der_shrinks in E3.
    apply bind_ok_inv in E. destruct E as ([eci' d4] & E4 & E). apply any_from_der_len in E4.
    apply bind_ok_inv in E. destruct E as ([certs' d5] & _ & E).
    apply bind_ok_inv in E. destruct E as ([crls' d6] & _ & E).
    apply bind_ok_inv in E. destruct E as ([sis' d7] & _ & E).
    apply at_end_inv in E. destruct E as [_ E]. injection E as _ _ _ <- _ _ _. lia.
  Qed.
  Theorem cms_signed_and_enveloped_data_decipher_from_der_safe fx ccap ri rs inp :
    cbc_shortens cbcdec -> len inp <= ccap ->
    match cms_signed_and_enveloped_data_decipher_from_der pt_ok cbcdec sm2dec sm3 sm2ver fx true ccap ri rs inp with
    | Ok (_, pt, _, _, _, _, _, _, _) => len pt <= ccap
    | Fault => False
    | _ => True
    end.
  Proof.
    intros CS L. unfold cms_signed_and_enveloped_data_decipher_from_der.
    pose proof (cms_signed_and_enveloped_data_from_der_nofault fx true 4 4 inp (N.le_refl _)) as NF.
    destruct (cms_signed_and_enveloped_data_from_der fx true 4 4 inp) as [[[[[[[[ver ris] ids] eci] certs] crls] sis] rest]| | |] eqn:E;
      cbn [bind_ok]; try exact I; [|congruence].
    apply cms_signed_and_enveloped_data_from_der_eci_len in E.
    destruct (negb (ver =? 1)%Z); [exact I|]. destruct (negb (nth 0 ids 0 =? OID_sm3)%Z); [exact I|].
    pose proof (cms_recipient_infos_open_nofault ri rs ris) as NO.
    destruct (cms_recipient_infos_open sm2dec ri rs ris) as [key| | |]; cbn [bind_ok]; try exact I; [|congruence].
    pose proof (cms_enced_content_info_decrypt_from_der_safe ccap key eci CS ltac:(unfold len in *; lia)) as S.
    destruct (cms_enced_content_info_decrypt_from_der cbcdec ccap key eci) as [[[[[[alg ct] pt] s1] s2] d2]| | |];
      cbn [bind_ok]; try exact I; [|contradiction].
    pose proof (cms_content_info_header_to_der_nofault ct (len pt)) as NH.
    destruct (cms_content_info_header_to_der ct (len pt)) as [hdr| | |] eqn:EH; cbn [bind_ok]; try exact I; [|congruence].
    apply cms_content_info_header_to_der_len in EH. destruct (N.ltb_spec 128 (len hdr)); [lia|].
    pose proof (cms_signer_infos_verify_nofault fx (hdr ++ pt) (ptr_bytes certs) sis) as NV.
    destruct (cms_signer_infos_verify pt_ok sm3 sm2ver fx (hdr ++ pt) (ptr_bytes certs) sis); cbn [bind_ok]; try exact I; [exact S|congruence].
  Qed.
  Lemma cms_signed_and_enveloped_data_decipher_from_der_nofault fx ccap ri rs inp :
    cbc_shortens cbcdec -> len inp <= ccap ->
    cms_signed_and_enveloped_data_decipher_from_der pt_ok cbcdec sm2dec sm3 sm2ver fx true ccap ri rs inp <> Fault.
  Proof.
    intros CS L E. pose proof (cms_signed_and_enveloped_data_decipher_from_der_safe fx ccap ri rs inp CS L) as H.
    rewrite E in H. exact H.
  Qed.
End KeyedProofs.

(* ------------------------------------------------------------------ 6. examples (quirks of the text, as they stand) *)
(* src/cms.c:1255: the end-of-SEQUENCE test of cms_recipient_info_from_der is commented out - 05 00 de ad be ef
   after the encryptedKey is accepted and dropped *)
Example cms_recipient_info_trailing_accepted :
  cms_recipient_info_from_der
    [48; 32; 2; 1; 1; 48; 5; 48; 0; 2; 1; 5; 48; 11; 6; 9; 42; 129; 28; 207; 85; 1; 130; 45; 2; 4; 1; 0;
     5; 0; 222; 173; 190; 239]
  = Ok (1%Z, [], [5], OID_sm2encrypt, PNull, [0], []).
Proof. vm_compute. reflexivity. Qed.
(* ContentInfo without the explicit [0]: 1 with content = NULL; an empty [0] is refused *)
Example cms_content_info_absent_content :
  cms_content_info_from_der [48; 12; 6; 10; 42; 129; 28; 207; 85; 6; 1; 4; 2; 1] = Ok (OID_cms_data, PNull, []) /\
  cms_content_info_from_der [48; 14; 6; 10; 42; 129; 28; 207; 85; 6; 1; 4; 2; 1; 160; 0] = Err.
Proof. split; vm_compute; reflexivity. Qed.
(* SignerInfo / EnvelopedData with version 2 pass the plain decoders (only the verifying / decrypting levels
   and EncryptedData, SignedData, RecipientInfo look at the version) *)
Example cms_enveloped_data_version_unchecked :
  cms_enveloped_data_from_der
    [48; 35; 2; 1; 2; 49; 28; 48; 26; 2; 1; 1; 48; 5; 48; 0; 2; 1; 5; 48; 11; 6; 9; 42; 129; 28; 207; 85; 1; 130; 45; 2;
     4; 1; 0; 5; 0]
  = Ok (2%Z, [48; 26; 2; 1; 1; 48; 5; 48; 0; 2; 1; 5; 48; 11; 6; 9; 42; 129; 28; 207; 85; 1; 130; 45; 2; 4; 1; 0], [5; 0], []).
Proof. vm_compute. reflexivity. Qed.

(* ------------------------------------------------------------------ 7. the encoders: EncryptedContentInfo, EncryptedData *)
Definition optp (o : option (list N)) : ptr := match o with Some x => PBuf x | None => PNull end.
Definition olen (o : option (list N)) : N := match o with Some x => len x | None => 0 end.

Lemma tab_cms_content_types_good id ns :
  nodes_of tab_cms_content_types id = Some ns -> good_oidb ns = true /\ id_of tab_cms_content_types ns = Some id.
Proof.
  unfold tab_cms_content_types; cbn [nodes_of].
  repeat (match goal with |- context [(?k =? id)%Z] => destruct (Z.eqb_spec k id) end;
          [intros H; injection H as <-; subst id; split; reflexivity|]).
  discriminate.
Qed.
Lemma tab_x509_enc_algors_good id ns :
  nodes_of tab_x509_enc_algors id = Some ns -> good_oidb ns = true /\ id_of tab_x509_enc_algors ns = Some id.
Proof.
  unfold tab_x509_enc_algors; cbn [nodes_of].
  repeat (match goal with |- context [(?k =? id)%Z] => destruct (Z.eqb_spec k id) end;
          [intros H; injection H as <-; subst id; split; reflexivity|]).
  discriminate.
Qed.

Lemma cms_content_type_rt ct o rest :
  cms_content_type_to_der ct = Ok o -> cms_content_type_from_der (o ++ rest) = Ok (ct, rest) /\ len o <= 129.
Proof.
  unfold cms_content_type_to_der, cms_content_type_from_der. destruct (ct =? -1)%Z; [discriminate|].
  destruct (nodes_of tab_cms_content_types ct) as [ns|] eqn:EN; [|discriminate].
  destruct (tab_cms_content_types_good ct ns EN) as [G I]. intros E.
  split; [exact (oid_info_rt _ ct ns o rest G I E)|exact (oid_enc_len _ _ G E)].
Qed.
Lemma x509_enc_algor_rt id iv e rest :
  len iv = 16 -> x509_enc_algor_to_der id iv = Ok e ->
  x509_enc_algor_from_der (e ++ rest) = Ok (id, iv, rest) /\ len e <= 163.
Proof.
  intros Hiv. unfold x509_enc_algor_to_der. destruct (nodes_of tab_x509_enc_algors id) as [ns|] eqn:EN; [|discriminate].
  destruct (tab_x509_enc_algors_good id ns EN) as [G I]. intros H.
  apply bind_ok_inv in H. destruct H as (o & Eo & H). injection H as <-.
  pose proof (oid_enc_len _ _ G Eo) as Lo.
  change (4 :: len_enc (len iv) ++ iv) with (tlv 4 iv). pose proof (len_tlv 4 iv) as Lt.
  rewrite seq_enc_tlv. pose proof (len_tlv 48 (o ++ tlv 4 iv)) as Lb. rewrite len_app in Lb. split; [|lia].
  unfold x509_enc_algor_from_der, seq_dec, tlv_dec. rewrite tlv_rt by (rewrite len_app; unfold INT_MAX; lia).
  rewrite (oid_info_rt _ id ns o (tlv 4 iv) G I Eo). cbn [bind_ok].
  rewrite <- (app_nil_r (tlv 4 iv)), tlv_rt by (unfold INT_MAX; lia). cbn [bind_ok is_nil negb].
  rewrite Hiv. reflexivity.
Qed.

Lemma not_tag_opt_tlv t t' o tail : t <> t' -> not_tag t tail -> not_tag t (opt_tlv t' o ++ tail).
Proof.
  intros NE NT. destruct o as [x|]; cbn [opt_tlv app]; [|exact NT].
  right. eexists _, _. split; [reflexivity|]. congruence.
Qed.
Lemma otype_rt tag o tail :
  olen o <= INT_MAX -> not_tag tag tail -> otype tag (opt_tlv tag o ++ tail) = Ok (optp o, tail).
Proof.
  intros L NT. unfold otype, opt, as_ptr. destruct o as [x|]; cbn [opt_tlv optp olen] in *.
  - change (tag :: len_enc (len x) ++ x) with (tlv tag x). rewrite tlv_rt by exact L. reflexivity.
  - cbn [app]. rewrite (type_from_der_absent tag tail NT). reflexivity.
Qed.
Lemma opt_tlv_len tag o : len (opt_tlv tag o) <= olen o + 6.
Proof.
  destruct o as [x|]; cbn [opt_tlv olen]; [|rewrite len_nil; lia].
  change (tag :: len_enc (len x) ++ x) with (tlv tag x). pose proof (len_tlv tag x). lia.
Qed.

Lemma cms_enced_content_info_rt ct alg iv ec s1 s2 e rest :
  len iv = 16 -> olen ec + olen s1 + olen s2 <= 1073741824 ->
  cms_enced_content_info_to_der ct alg iv ec s1 s2 = Ok e ->
  cms_enced_content_info_from_der (e ++ rest) = Ok (ct, alg, iv, optp ec, optp s1, optp s2, rest) /\
  len e <= olen ec + olen s1 + olen s2 + 320.
Proof.
  intros Hiv HL H. unfold cms_enced_content_info_to_der in H.
  apply bind_ok_inv in H. destruct H as (o & Eo & H).
  apply bind_ok_inv in H. destruct H as (a & Ea & H). injection H as <-.
  pose proof (opt_tlv_len 128 ec) as L1. pose proof (opt_tlv_len 129 s1) as L2. pose proof (opt_tlv_len 130 s2) as L3.
  destruct (cms_content_type_rt ct o (a ++ opt_tlv 128 ec ++ opt_tlv 129 s1 ++ opt_tlv 130 s2) Eo) as [Ro Lo].
  destruct (x509_enc_algor_rt alg iv a (opt_tlv 128 ec ++ opt_tlv 129 s1 ++ opt_tlv 130 s2) Hiv Ea) as [Ra La].
  rewrite seq_enc_tlv. pose proof (len_tlv 48 (o ++ a ++ opt_tlv 128 ec ++ opt_tlv 129 s1 ++ opt_tlv 130 s2)) as Lb.
  rewrite !len_app in Lb. split; [|lia].
  unfold cms_enced_content_info_from_der, seq_dec, tlv_dec. rewrite tlv_rt by (rewrite !len_app; unfold INT_MAX; lia).
  rewrite Ro. cbn [bind_ok]. rewrite Ra. cbn [bind_ok].
  assert (N0 : forall t, not_tag t []) by (intros t; left; reflexivity).
  rewrite otype_rt; [|unfold INT_MAX; lia|apply not_tag_opt_tlv; [lia|]; rewrite <- (app_nil_r (opt_tlv 130 s2)); apply not_tag_opt_tlv; [lia|apply N0]].
  cbn [bind_ok]. rewrite otype_rt; [|unfold INT_MAX; lia|rewrite <- (app_nil_r (opt_tlv 130 s2)); apply not_tag_opt_tlv; [lia|apply N0]].
  cbn [bind_ok]. rewrite <- (app_nil_r (opt_tlv 130 s2)). rewrite otype_rt; [|unfold INT_MAX; lia|apply N0].
  cbn [bind_ok at_end is_nil]. reflexivity.
Qed.

(* the repaired encoder and the decoder are inverse to each other, with exact consumption *)
Theorem cms_encrypted_data_roundtrip ct alg iv ec s1 s2 e rest :
  len iv = 16 -> olen ec + olen s1 + olen s2 <= 1073741824 ->
  cms_encrypted_data_to_der true 1 ct alg iv ec s1 s2 = Ok e ->
  cms_encrypted_data_from_der (e ++ rest) = Ok (1%Z, ct, alg, iv, optp ec, optp s1, optp s2, rest).
Proof.
  intros Hiv HL H. unfold cms_encrypted_data_to_der in H. cbn [Z.eqb Pos.eqb negb] in H.
  apply bind_ok_inv in H. destruct H as (v & Ev & H).
  apply bind_ok_inv in H. destruct H as (c & Ec & H).
  assert (E : e = tlv 48 (v ++ c)) by (injection H as <-; unfold header_enc, tlv; rewrite len_app; reflexivity).
  subst e. clear H.
  destruct (cms_enced_content_info_rt ct alg iv ec s1 s2 c [] Hiv HL Ec) as [Rc Lc]. rewrite app_nil_r in Rc.
  destruct (int_to_der_len 2 1 v ltac:(lia) Ev) as [Lv _].
  unfold cms_encrypted_data_from_der, seq_dec, tlv_dec. rewrite tlv_rt by (rewrite len_app; unfold INT_MAX; lia).
  unfold m. rewrite (int_roundtrip 2 1 v c ltac:(lia) Ev). cbn [bind_ok].
  rewrite Rc. cbn [bind_ok is_nil negb]. reflexivity.
Qed.
(* the text as it stands: 1, five bytes "30 33 02 01 01", which the decoder refuses; the repaired encoder's
   53 bytes decode to what was encoded *)
Example cms_encrypted_data_to_der_asis_truncated :
  let iv := [0;1;2;3;4;5;6;7;8;9;10;11;12;13;14;15] in
  cms_encrypted_data_to_der false 1 OID_cms_data OID_sm4_cbc iv (Some [170; 187]) None None = Ok [48; 51; 2; 1; 1] /\
  cms_encrypted_data_from_der [48; 51; 2; 1; 1] = Err /\
  exists e, cms_encrypted_data_to_der true 1 OID_cms_data OID_sm4_cbc iv (Some [170; 187]) None None = Ok e /\ len e = 53 /\
            cms_encrypted_data_from_der e = Ok (1%Z, OID_cms_data, OID_sm4_cbc, iv, PBuf [170; 187], PNull, PNull, []).
Proof. split; [vm_compute; reflexivity|]. split; [vm_compute; reflexivity|]. eexists. repeat split; vm_compute; reflexivity. Qed.
(* whenever the as-is encoder answers 1 it has produced the header and the version only, and announces more *)
Theorem cms_encrypted_data_to_der_asis_short ver ct alg iv ec s1 s2 e :
  cms_encrypted_data_to_der false ver ct alg iv ec s1 s2 = Ok e ->
  exists v c, int_to_der 2 ver = Ok v /\ cms_enced_content_info_to_der ct alg iv ec s1 s2 = Ok c /\
              e = header_enc 48 (len v + len c) ++ v /\
              cms_encrypted_data_to_der true ver ct alg iv ec s1 s2 = Ok (e ++ c).
Proof.
  unfold cms_encrypted_data_to_der. destruct (negb (ver =? 1)%Z); [discriminate|]. intros H.
  apply bind_ok_inv in H. destruct H as (v & Ev & H).
  apply bind_ok_inv in H. destruct H as (c & Ec & H).
  assert (E : e = header_enc 48 (len v + len c) ++ v) by (injection H as <-; rewrite app_nil_r; reflexivity).
  subst e. clear H. exists v, c. rewrite Ev, Ec. cbn [bind_ok]. rewrite <- app_assoc. auto.
Qed.
