(* Impl model of pem_write / pem_read (src/pem.c) over the base64 stream model.
   A FILE is the list of bytes not yet read; fgets(line, 80, fp) takes at most 79 bytes and
   stops after a newline; the C string functions see a line only up to its first NUL. *)
From GmVerif Require Import Base.Bytes Codec.Der Codec.Base64 Codec.Pkcs.
Local Open Scope N_scope.

Definition dashes5 : list N := [45; 45; 45; 45; 45].
Definition begin_line (name : list N) : list N :=
  firstn 79 (dashes5 ++ [66; 69; 71; 73; 78; 32] ++ name ++ dashes5).      (* "-----BEGIN %s-----" in char[80] *)
Definition end_line (name : list N) : list N :=
  firstn 79 (dashes5 ++ [69; 78; 68; 32] ++ name ++ dashes5).              (* "-----END %s-----" *)

(* ------------------------------------------------------------------ pem_write *)
(* while (datalen) { inlen = min(datalen, 48); base64_encode_update(...); } base64_encode_finish *)
Fixpoint pem_enc_loop (fuel : nat) (buf data : list N) : list N :=
  match fuel with
  | O => encode_finish buf
  | S f =>
      match data with
      | [] => encode_finish buf
      | _ => let '(_, buf', o) := encode_update buf (takeN 48 data) in o ++ pem_enc_loop f buf' (dropN 48 data)
      end
  end.
(* None = -1 (empty data); fprintf writes the whole name, only the reader truncates to 79 *)
Definition pem_write (name data : list N) : option (list N) :=
  if len data =? 0 then None
  else Some ((dashes5 ++ [66; 69; 71; 73; 78; 32] ++ name ++ dashes5 ++ [10])
             ++ pem_enc_loop (length data) [] data
             ++ (dashes5 ++ [69; 78; 68; 32] ++ name ++ dashes5 ++ [10])).

(* ------------------------------------------------------------------ pem_read *)
Fixpoint fgets_aux (n : nat) (inp : list N) : list N * list N :=
  match n with
  | O => ([], inp)
  | S k =>
      match inp with
      | [] => ([], [])
      | c :: r => if c =? 10 then ([c], r) else let '(l, r') := fgets_aux k r in (c :: l, r')
      end
  end.
Definition fgets (inp : list N) : option (list N * list N) :=
  match inp with [] => None | _ => Some (fgets_aux 79 inp) end.

Fixpoint cstr (l : list N) : list N :=                 (* the C string held in the line buffer *)
  match l with [] => [] | c :: r => if c =? 0 then [] else c :: cstr r end.
Definition chomp (l : list N) : list N :=              (* remove_newline *)
  match rev l with
  | 10 :: 13 :: r => rev r
  | 10 :: r => rev r
  | _ => l
  end.

Fixpoint pem_body (fuel : nat) (endl inp buf acc : list N) (maxlen : N) : res (list N * list N) :=
  match fuel with
  | O => Err
  | S f =>
      match fgets inp with
      | None => Err
      | Some (raw, rest) =>
          let l := chomp (cstr raw) in
          if list_eqb l endl then
            match decode_finish buf with
            | Ok o => if maxlen - len acc <? len o then Err else Ok (acc ++ o, rest)
            | Fault => Fault
            | _ => Err
            end
          else
            let '(rv, buf', o) := decode_update buf l in
            if (rv <? 0)%Z then Err
            else if maxlen - len acc <? len o then Err
            else pem_body f endl rest buf' (acc ++ o) maxlen
      end
  end.

(* Ok (data, unread remainder of the file) = 1; Absent = 0 (end of file); Err = -1 *)
Definition pem_read (name inp : list N) (maxlen : N) : res (list N * list N) :=
  match fgets inp with
  | None => Absent
  | Some (raw, rest) =>
      if negb (list_eqb (chomp (cstr raw)) (begin_line name)) then Err
      else pem_body (S (length rest)) (end_line name) rest [] [] maxlen
  end.

(* sm2_public_key_info_from_pem / sm2_private_key_info_from_pem: a 512-byte local buffer, the DER
   decoder, nothing may follow the object.  Result = the whole SM2_KEY. *)
Definition pem_name_public : list N := [80; 85; 66; 76; 73; 67; 32; 75; 69; 89].                  (* "PUBLIC KEY" *)
Definition pem_name_private : list N := [80; 82; 73; 86; 65; 84; 69; 32; 75; 69; 89].             (* "PRIVATE KEY" *)
Definition sm2_pubkeyinfo_from_pem (pt_ok : list N -> bool) (text : list N) : res sm2_key :=
  match pem_read pem_name_public text 512 with
  | Ok (d, _) => match sm2_pubkeyinfo_from_der pt_ok d with
                 | Ok (k, r) => if is_nil r then Ok k else Err
                 | Fault => Fault | _ => Err end
  | Fault => Fault
  | _ => Err
  end.
Definition sm2_privkeyinfo_from_pem (pub_of : list N -> list N) (pt_ok : list N -> bool) (text : list N) : res sm2_key :=
  match pem_read pem_name_private text 512 with
  | Ok (d, _) => match sm2_p8_from_der pub_of pt_ok d with
                 | Ok (dd, pub, _, r) => if is_nil r then Ok {| k_priv := dd; k_pub := pub |} else Err
                 | Fault => Fault | _ => Err end
  | Fault => Fault
  | _ => Err
  end.
