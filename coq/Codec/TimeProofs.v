(* Proofs about the time model (Codec/Time.v): asn1_time_to_str / asn1_time_from_str and the
   UTCTime / GeneralizedTime DER wrappers.
     - to_str_shape / from_str_shape : both functions characterised through the broken-down
       fields (year, month, day, hour, minute, second) and the closed form [stamp];
     - time_roundtrip(_ext), time_to_str_defined (explicit limits 2051-01-01 / 10000-01-01),
       time_to_str_length, time_canonical(_prefix), time_from_str_inj, time_from_str_nofault;
     - DER level: time_der_roundtrip, time_der_dry, time_der_canonical, time_from_der_nofault.
   All statements quantify over every input; the only computations are the sweeps over the
   366 days of a year / the 12 x 31 (month, day) pairs and the two day totals of [dby_limit]. *)
From GmVerif Require Import Base.ListX Base.Bytes Codec.Der Codec.DerProofs Codec.Time.
From Coq Require Import ZifyN ZifyNat ZifyBool.
Ltac Zify.zify_post_hook ::= Z.div_mod_to_equations.
Local Open Scope N_scope.

(* ------------------------------------------------------------------ years *)
Lemma ylen_cases y : ylen y = 365 \/ ylen y = 366.
Proof. unfold ylen. destruct (is_leap y); auto. Qed.

Lemma dby_snoc n year :
  days_before_year (S n) year = days_before_year n year + ylen (year - N.of_nat (S n)).
Proof.
  revert year. induction n as [|n IH]; intros year.
  - cbn [days_before_year]. replace (year - N.of_nat 1) with (year - 1) by lia. lia.
  - change (days_before_year (S (S n)) year)
      with (ylen (year - 1) + days_before_year (S n) (year - 1)).
    rewrite IH. change (days_before_year (S n) year) with (ylen (year - 1) + days_before_year n (year - 1)).
    replace (year - 1 - N.of_nat (S n)) with (year - N.of_nat (S (S n))) by lia. lia.
Qed.

Lemma dby_split a b year :
  days_before_year (a + b) year = days_before_year a year + days_before_year b (year - N.of_nat a).
Proof.
  revert year. induction a as [|a IH]; intros year.
  - cbn [Nat.add days_before_year]. replace (year - N.of_nat 0) with year by lia. lia.
  - cbn [Nat.add days_before_year]. rewrite IH.
    replace (year - 1 - N.of_nat a) with (year - N.of_nat (S a)) by lia. lia.
Qed.

(* the loop returns (y, d): [day] = d + days of the years [year, y) *)
Lemma year_loop_some fuel maxy : forall year day y d,
  year_loop fuel maxy year day = Some (y, d) ->
  d < ylen y /\ y <= maxy /\
  exists k, y = year + N.of_nat k /\ day = d + days_before_year k y.
Proof.
  induction fuel as [|f IH]; intros year day y d; cbn [year_loop]; [discriminate|].
  destruct (N.ltb_spec maxy year) as [|Hm]; [discriminate|].
  destruct (N.ltb_spec day (ylen year)) as [Hd|Hd].
  - intros E. injection E as <- <-. repeat split; try assumption.
    exists 0%nat. cbn [days_before_year]. split; lia.
  - intros E. apply IH in E. destruct E as (H1 & H2 & k & Ey & Ed).
    repeat split; try assumption. exists (S k). split; [lia|].
    rewrite dby_snoc. replace (y - N.of_nat (S k)) with year by lia. lia.
Qed.

Lemma year_loop_none fuel maxy : forall year day,
  year_loop fuel maxy year day = None -> year <= maxy + 1 -> maxy < year + N.of_nat fuel ->
  exists k, maxy + 1 = year + N.of_nat k /\ days_before_year k (maxy + 1) <= day.
Proof.
  induction fuel as [|f IH]; intros year day; cbn [year_loop].
  - intros _ H1 H2. exists 0%nat. cbn [days_before_year]. split; lia.
  - destruct (N.ltb_spec maxy year) as [Hm|Hm].
    + intros _ H1 H2. exists 0%nat. cbn [days_before_year]. split; lia.
    + destruct (N.ltb_spec day (ylen year)) as [Hd|Hd]; [discriminate|].
      intros E H1 H2. apply IH in E; [|lia|lia]. destruct E as (k & Ek & Hk).
      exists (S k). split; [lia|]. rewrite dby_snoc.
      replace (maxy + 1 - N.of_nat (S k)) with year by lia. lia.
Qed.

(* converse: the loop finds every (y, d) *)
Lemma year_loop_find maxy : forall k fuel year d,
  (k < fuel)%nat -> year + N.of_nat k <= maxy -> d < ylen (year + N.of_nat k) ->
  year_loop fuel maxy year (d + days_before_year k (year + N.of_nat k)) = Some (year + N.of_nat k, d).
Proof.
  induction k as [|k IH]; intros fuel year d Hf Hm Hd.
  - destruct fuel as [|f]; [lia|]. cbn [year_loop days_before_year].
    replace (year + N.of_nat 0) with year in * by lia.
    destruct (N.ltb_spec maxy year); [lia|].
    destruct (N.ltb_spec (d + 0) (ylen year)); [|lia]. f_equal. f_equal. lia.
  - destruct fuel as [|f]; [lia|]. cbn [year_loop].
    destruct (N.ltb_spec maxy year); [lia|].
    rewrite dby_snoc. replace (year + N.of_nat (S k) - N.of_nat (S k)) with year by lia.
    destruct (N.ltb_spec (d + (days_before_year k (year + N.of_nat (S k)) + ylen year)) (ylen year)); [lia|].
    replace (year + N.of_nat (S k)) with (year + 1 + N.of_nat k) in * by lia.
    replace (d + (days_before_year k (year + 1 + N.of_nat k) + ylen year) - ylen year)
      with (d + days_before_year k (year + 1 + N.of_nat k)) by lia.
    apply IH; [lia|lia|assumption].
Qed.

(* ------------------------------------------------------------------ months *)
Definition month_ok (leap : bool) (d : N) : bool :=
  let '(m, dd) := month_loop 13 leap 1 (d + 1) in
  (1 <=? m) && (m <=? 12) && (1 <=? dd) && (dd <=? mdays leap m)
  && (dd - 1 + days_before_month (N.to_nat (m - 1)) leap m =? d).

Lemma month_sweep (leap : bool) d : d < (if leap then 366 else 365) -> month_ok leap d = true.
Proof.
  destruct leap; intros H.
  - assert (S : forallb (month_ok true) (map N.of_nat (seq 0 366)) = true) by (vm_compute; reflexivity).
    apply (sweep_lt _ _ S). exact H.
  - assert (S : forallb (month_ok false) (map N.of_nat (seq 0 365)) = true) by (vm_compute; reflexivity).
    apply (sweep_lt _ _ S). exact H.
Qed.

Definition month_inv_ok (leap : bool) (m dd : N) : bool :=
  (m <? 1) || (dd <? 1) || (mdays leap m <? dd) ||
  (let d := dd - 1 + days_before_month (N.to_nat (m - 1)) leap m in
   (d <? (if leap then 366 else 365)) &&
   (let '(m', dd') := month_loop 13 leap 1 (d + 1) in (m' =? m) && (dd' =? dd))).

Lemma month_inv_sweep (leap : bool) m dd : m <= 12 -> dd <= 31 -> month_inv_ok leap m dd = true.
Proof.
  intros Hm Hd.
  assert (S : forallb (fun l => forallb (fun m => forallb (month_inv_ok l m) (map N.of_nat (seq 0 32)))
                                     (map N.of_nat (seq 0 13))) [true; false] = true)
    by (vm_compute; reflexivity).
  rewrite forallb_forall in S. specialize (S leap ltac:(destruct leap; cbn; auto)).
  apply (sweep_lt _ _ (sweep_lt _ _ S m ltac:(lia))). lia.
Qed.

Lemma mdays_le leap m : mdays leap m <= 31.
Proof.
  unfold mdays. destruct (N.to_nat m) as [|[|[|[|[|[|[|[|[|[|[|[|[|[|k]]]]]]]]]]]]]]; cbn [nth]; try lia.
  destruct leap; lia.
Qed.

(* ------------------------------------------------------------------ digits *)
Lemma v2_two x : x < 100 -> v2 (dig (x / 10)) (dig (x mod 10)) = x.
Proof. unfold v2, dig. lia. Qed.
Lemma is_digit_dig v : v <= 9 -> is_digit (dig v) = true.
Proof. unfold is_digit, dig. lia. Qed.
Lemma is_digit_spec c : is_digit c = true <-> 48 <= c <= 57.
Proof. unfold is_digit. lia. Qed.
Lemma two_of_digits a b : is_digit a = true -> is_digit b = true -> v2 a b < 100 /\ two (v2 a b) = [a; b].
Proof. rewrite !is_digit_spec. unfold two, v2, dig. intros. split; [lia|]. f_equal; [lia|f_equal; lia]. Qed.

Lemma check_two n x r : x < 100 -> check_digits (S (S n)) (two x ++ r) = check_digits n r.
Proof.
  intros H. unfold two. cbn [app check_digits].
  rewrite !is_digit_dig by lia. reflexivity.
Qed.

(* ------------------------------------------------------------------ broken-down time *)
Definition str_of (utc : bool) (year month dd hour minute sec : N) : list N :=
  (if utc then [] else two (year / 100)) ++ two (year mod 100) ++ two month ++ two dd
  ++ two hour ++ two minute ++ two sec ++ [90].

Definition fields_ok (utc : bool) (year month dd hour minute sec : N) : Prop :=
  1970 <= year <= max_year utc /\ 1 <= month <= 12 /\ 1 <= dd <= mdays (is_leap year) month
  /\ hour <= 23 /\ minute <= 59 /\ sec <= 59.

Definition stamp (year month dd hour minute sec : N) : N :=
  (dd - 1 + days_before_year (N.to_nat (year - 1970)) year
   + days_before_month (N.to_nat (month - 1)) (is_leap year) month) * 86400
  + hour * 3600 + minute * 60 + sec.

Lemma to_str_shape utc t s :
  time_to_str utc t = Some s ->
  exists year month dd hour minute sec,
    fields_ok utc year month dd hour minute sec /\
    s = str_of utc year month dd hour minute sec /\
    t = stamp year month dd hour minute sec.
Proof.
  unfold time_to_str.
  destruct (year_loop _ _ _ _) as [[y d]|] eqn:EY; [|discriminate].
  apply year_loop_some in EY. destruct EY as (Hd & Hy & k & Ek & Ed).
  pose proof (month_sweep (is_leap y) d Hd) as M. unfold month_ok in M.
  destruct (month_loop 13 (is_leap y) 1 (d + 1)) as [m dd].
  intros E. injection E as <-.
  exists y, m, dd, (t mod 86400 / 3600), (t mod 86400 mod 3600 / 60), (t mod 86400 mod 3600 mod 60).
  assert (k = N.to_nat (y - 1970)) by lia. subst k.
  split; [|split].
  - unfold fields_ok. lia.
  - reflexivity.
  - unfold stamp. lia.
Qed.

Lemma to_str_of_fields utc year month dd hour minute sec :
  fields_ok utc year month dd hour minute sec ->
  time_to_str utc (stamp year month dd hour minute sec) = Some (str_of utc year month dd hour minute sec).
Proof.
  intros (Hy & Hm & Hd & Hh & Hmi & Hs).
  pose proof (mdays_le (is_leap year) month) as ML.
  pose proof (month_inv_sweep (is_leap year) month dd ltac:(lia) ltac:(lia)) as M.
  unfold month_inv_ok in M.
  set (d := dd - 1 + days_before_month (N.to_nat (month - 1)) (is_leap year) month) in *.
  destruct (N.ltb_spec month 1); [lia|]. destruct (N.ltb_spec dd 1); [lia|].
  destruct (N.ltb_spec (mdays (is_leap year) month) dd); [lia|]. cbn [orb] in M.
  apply andb_true_iff in M. destruct M as [M1 M2]. apply N.ltb_lt in M1.
  set (D := days_before_year (N.to_nat (year - 1970)) year).
  assert (ET : stamp year month dd hour minute sec = (d + D) * 86400 + (hour * 3600 + minute * 60 + sec)).
  { unfold stamp. fold d D. lia. }
  unfold time_to_str.
  assert (E1 : stamp year month dd hour minute sec / 86400 = d + D) by (rewrite ET; lia).
  assert (E2 : stamp year month dd hour minute sec mod 86400 = hour * 3600 + minute * 60 + sec) by (rewrite ET; lia).
  rewrite E1, E2.
  pose proof (year_loop_find (max_year utc) (N.to_nat (year - 1970)) (N.to_nat (max_year utc - 1970 + 2)) 1970 d) as YL.
  replace (1970 + N.of_nat (N.to_nat (year - 1970))) with year in YL by lia.
  fold D in YL. rewrite YL; [|lia|lia|exact M1].
  destruct (month_loop 13 (is_leap year) 1 (d + 1)) as [m' dd'].
  apply andb_true_iff in M2. destruct M2 as [M2 M3]. apply N.eqb_eq in M2, M3. subst m' dd'.
  set (S := hour * 3600 + minute * 60 + sec).
  assert (F1 : S / 3600 = hour) by (subst S; lia).
  assert (F2 : S mod 3600 / 60 = minute) by (subst S; lia).
  assert (F3 : S mod 3600 mod 60 = sec) by (subst S; lia).
  rewrite F1, F2, F3. reflexivity.
Qed.

Lemma check_str_of (utc : bool) y m dd h mi s junk :
  y <= 9999 -> m < 100 -> dd < 100 -> h < 100 -> mi < 100 -> s < 100 ->
  check_digits (if utc then 12 else 14) (str_of utc y m dd h mi s ++ junk) = Ok tt.
Proof.
  intros. unfold str_of. destruct utc; cbv iota; cbn [app]; rewrite <- ?app_assoc;
    rewrite !check_two by lia; reflexivity.
Qed.

Ltac kill_ltb :=
  repeat match goal with
         | |- context [?a <? ?b] => destruct (N.ltb_spec a b); [lia|]
         end.

Lemma from_str_of_fields utc y m dd h mi s junk :
  fields_ok utc y m dd h mi s ->
  time_from_str utc (str_of utc y m dd h mi s ++ junk) = Ok (stamp y m dd h mi s).
Proof.
  intros (Hy & Hm & Hd & Hh & Hmi & Hs).
  pose proof (mdays_le (is_leap y) m) as ML.
  assert (y <= 9999) by (unfold max_year in Hy; destruct utc; lia).
  unfold time_from_str. rewrite check_str_of by lia.
  unfold str_of, two, stamp. destruct utc; cbn [app]; cbv beta iota zeta; rewrite !v2_two by lia.
  - unfold max_year in Hy.
    replace (if y mod 100 <=? 50 then y mod 100 + 2000 else y mod 100 + 1900) with y
      by (destruct (N.leb_spec (y mod 100) 50); lia).
    kill_ltb. reflexivity.
  - replace (y / 100 * 100 + y mod 100) with y by lia.
    kill_ltb. reflexivity.
Qed.

Lemma check_digits_inv n : forall s, check_digits n s = Ok tt ->
  exists body rest, s = body ++ 90 :: rest /\ length body = n /\ Forall (fun c => is_digit c = true) body.
Proof.
  induction n as [|n IH]; intros s; cbn [check_digits]; destruct s as [|c r]; try discriminate.
  - destruct (N.eqb_spec c 90) as [->|]; [|discriminate]. intros _. exists [], r. repeat split. constructor.
  - destruct (is_digit c) eqn:Ec; [|discriminate]. intros E. apply IH in E.
    destruct E as (body & rest & -> & Hl & HF). exists (c :: body), rest.
    repeat split; [cbn [length]; congruence|constructor; assumption].
Qed.

Lemma check_digits_nofault n : forall s, check_digits n s = Fault -> (length s <= n)%nat.
Proof.
  induction n as [|n IH]; intros s; cbn [check_digits]; destruct s as [|c r]; cbn [length]; try lia.
  - destruct (c =? 90); discriminate.
  - destruct (is_digit c); [|discriminate]. intros E. apply IH in E. lia.
Qed.

Lemma from_str_shape utc s t :
  time_from_str utc s = Ok t ->
  exists year month dd hour minute sec junk,
    fields_ok utc year month dd hour minute sec /\
    s = str_of utc year month dd hour minute sec ++ junk /\
    t = stamp year month dd hour minute sec.
Proof.
  unfold time_from_str.
  destruct (check_digits (if utc then 12%nat else 14%nat) s) as [[]| | |] eqn:EC; try discriminate.
  apply check_digits_inv in EC. destruct EC as (body & rest & -> & Hl & HF).
  destruct utc.
  - destruct body as [|n [|n0 [|n1 [|n2 [|n3 [|n4 [|n5 [|n6 [|n7 [|n8 [|n9 [|n10 [|x body]]]]]]]]]]]]];
      try discriminate Hl. clear Hl.
    repeat (apply Forall_cons_iff in HF; destruct HF as [? HF]). clear HF.
    cbn [app]. cbv beta iota zeta.
    match goal with |- (if ?c then _ else _) = _ -> _ => destruct c eqn:C; [discriminate|] end.
    intros E. injection E as <-.
    rewrite !orb_false_iff in C. destruct C as [[[[[[[C1 C2] C3] C4] C5] C6] C7] C8].
    apply N.ltb_ge in C1, C2, C3, C4, C5, C6, C7, C8.
    destruct (two_of_digits n n0) as [B0 T0]; try assumption.
    destruct (two_of_digits n1 n2) as [B1 T1]; try assumption.
    destruct (two_of_digits n3 n4) as [B2 T2]; try assumption.
    destruct (two_of_digits n5 n6) as [B3 T3]; try assumption.
    destruct (two_of_digits n7 n8) as [B4 T4]; try assumption.
    destruct (two_of_digits n9 n10) as [B5 T5]; try assumption.
    set (yy := v2 n n0) in *.
    set (year := if yy <=? 50 then yy + 2000 else yy + 1900) in *.
    assert (EY : year mod 100 = yy /\ year <= 2050) by (subst year; destruct (N.leb_spec yy 50); lia).
    exists year, (v2 n1 n2), (v2 n3 n4), (v2 n5 n6), (v2 n7 n8), (v2 n9 n10), rest.
    split; [|split].
    + unfold fields_ok, max_year. lia.
    + unfold str_of. destruct EY as [-> _]. rewrite T0, T1, T2, T3, T4, T5. reflexivity.
    + reflexivity.
  - destruct body as [|n [|n0 [|n1 [|n2 [|n3 [|n4 [|n5 [|n6 [|n7 [|n8 [|n9 [|n10 [|n11 [|n12 [|x body]]]]]]]]]]]]]]];
      try discriminate Hl. clear Hl.
    repeat (apply Forall_cons_iff in HF; destruct HF as [? HF]). clear HF.
    cbn [app]. cbv beta iota zeta.
    match goal with |- (if ?c then _ else _) = _ -> _ => destruct c eqn:C; [discriminate|] end.
    intros E. injection E as <-.
    rewrite !orb_false_iff in C. destruct C as [[[[[[[C1 C2] C3] C4] C5] C6] C7] C8].
    apply N.ltb_ge in C1, C2, C3, C4, C5, C6, C7, C8.
    destruct (two_of_digits n n0) as [B0 T0]; try assumption.
    destruct (two_of_digits n1 n2) as [B1 T1]; try assumption.
    destruct (two_of_digits n3 n4) as [B2 T2]; try assumption.
    destruct (two_of_digits n5 n6) as [B3 T3]; try assumption.
    destruct (two_of_digits n7 n8) as [B4 T4]; try assumption.
    destruct (two_of_digits n9 n10) as [B5 T5]; try assumption.
    destruct (two_of_digits n11 n12) as [B6 T6]; try assumption.
    set (year := v2 n n0 * 100 + v2 n1 n2) in *.
    assert (EY : year / 100 = v2 n n0 /\ year mod 100 = v2 n1 n2 /\ year <= 9999) by (subst year; lia).
    exists year, (v2 n3 n4), (v2 n5 n6), (v2 n7 n8), (v2 n9 n10), (v2 n11 n12), rest.
    split; [|split].
    + unfold fields_ok, max_year. lia.
    + unfold str_of. destruct EY as (-> & -> & _). rewrite T0, T1, T2, T3, T4, T5, T6. reflexivity.
    + reflexivity.
Qed.

(* ------------------------------------------------------------------ 1. round trip *)
Theorem time_roundtrip_ext utc t s junk :
  time_to_str utc t = Some s -> time_from_str utc (s ++ junk) = Ok t.
Proof.
  intros H. apply to_str_shape in H. destruct H as (y & m & dd & h & mi & sc & F & -> & ->).
  apply from_str_of_fields. exact F.
Qed.

Theorem time_roundtrip utc t s : time_to_str utc t = Some s -> time_from_str utc s = Ok t.
Proof. intros H. rewrite <- (app_nil_r s). apply time_roundtrip_ext. exact H. Qed.

(* ------------------------------------------------------------------ 2. domain *)
Definition day_limit (utc : bool) : N := if utc then 29585 else 2932897.
Definition limit (utc : bool) : N := if utc then 2556144000 else 253402300800.

Lemma limit_days utc : limit utc = day_limit utc * 86400.
Proof. destruct utc; reflexivity. Qed.

Lemma dby_limit utc :
  days_before_year (N.to_nat (max_year utc + 1 - 1970)) (max_year utc + 1) = day_limit utc.
Proof. destruct utc; vm_compute; reflexivity. Qed.

Lemma year_loop_defined utc day :
  year_loop (N.to_nat (max_year utc - 1970 + 2)) (max_year utc) 1970 day <> None <-> day < day_limit utc.
Proof.
  assert (MY : 1970 <= max_year utc) by (destruct utc; cbn; lia).
  rewrite <- dby_limit. split.
  - destruct (year_loop _ _ _ _) as [[y d]|] eqn:E; [intros _|congruence].
    apply year_loop_some in E. destruct E as (Hd & Hy & k & Ek & ->).
    replace (N.to_nat (max_year utc + 1 - 1970)) with (N.to_nat (max_year utc - y) + S k)%nat by lia.
    rewrite dby_split. replace (max_year utc + 1 - N.of_nat (N.to_nat (max_year utc - y))) with (y + 1) by lia.
    cbn [days_before_year]. replace (y + 1 - 1) with y by lia. lia.
  - intros H E. apply year_loop_none in E; [|lia|lia]. destruct E as (k & Ek & Hk).
    replace (N.to_nat (max_year utc + 1 - 1970)) with k in H by lia. lia.
Qed.

Theorem time_to_str_defined utc t : (exists s, time_to_str utc t = Some s) <-> t < limit utc.
Proof.
  rewrite limit_days.
  assert (Q : t < day_limit utc * 86400 <-> t / 86400 < day_limit utc) by lia.
  rewrite Q, <- year_loop_defined. unfold time_to_str.
  destruct (year_loop _ _ _ _) as [[y d]|].
  - destruct (month_loop 13 (is_leap y) 1 (d + 1)) as [m dd]. split; [congruence|eauto].
  - split; [intros [s E]; discriminate|congruence].
Qed.

(* ------------------------------------------------------------------ 3. shape of the string *)
Theorem time_to_str_length utc t s :
  time_to_str utc t = Some s ->
  length s = (if utc then 13 else 15)%nat /\
  Forall (fun c => is_digit c = true \/ c = 90) s /\
  Forall (fun c => c < 128) s /\
  check_digits (if utc then 12 else 14) s = Ok tt.
Proof.
  intros H. apply to_str_shape in H. destruct H as (y & m & dd & h & mi & sc & F & -> & _).
  destruct F as (Hy & Hm & Hd & Hh & Hmi & Hs).
  pose proof (mdays_le (is_leap y) m) as ML.
  assert (y <= 9999) by (unfold max_year in Hy; destruct utc; lia).
  assert (D : Forall (fun c => is_digit c = true \/ c = 90) (str_of utc y m dd h mi sc)).
  { unfold str_of, two. destruct utc; cbn [app];
      repeat (constructor; [first [left; apply is_digit_dig; lia | right; reflexivity]|]); constructor. }
  repeat split.
  - destruct utc; reflexivity.
  - exact D.
  - eapply Forall_impl; [|exact D]. intros c [Hc|Hc]; [apply is_digit_spec in Hc|]; lia.
  - rewrite <- (app_nil_r (str_of _ _ _ _ _ _ _)). apply check_str_of; lia.
Qed.

Lemma time_to_str_len utc t s : time_to_str utc t = Some s -> len s = (if utc then 13 else 15).
Proof. intros H. apply time_to_str_length in H. destruct H as [H _]. unfold len. rewrite H. destruct utc; reflexivity. Qed.

(* ------------------------------------------------------------------ 5. canonicity *)
Theorem time_canonical_prefix utc s t :
  time_from_str utc s = Ok t -> exists s' junk, s = s' ++ junk /\ time_to_str utc t = Some s'.
Proof.
  intros H. apply from_str_shape in H. destruct H as (y & m & dd & h & mi & sc & junk & F & -> & ->).
  exists (str_of utc y m dd h mi sc), junk. split; [reflexivity|]. apply to_str_of_fields. exact F.
Qed.

Theorem time_canonical (utc : bool) s t :
  length s = (if utc then 13 else 15)%nat -> time_from_str utc s = Ok t -> time_to_str utc t = Some s.
Proof.
  intros L H. apply time_canonical_prefix in H. destruct H as (s' & junk & -> & H).
  pose proof (time_to_str_length _ _ _ H) as [L' _]. rewrite app_length, L' in L.
  assert (length junk = 0%nat) by lia. destruct junk; [|discriminate]. rewrite app_nil_r. exact H.
Qed.

Corollary time_from_str_inj (utc : bool) s1 s2 t :
  length s1 = (if utc then 13 else 15)%nat -> length s2 = (if utc then 13 else 15)%nat ->
  time_from_str utc s1 = Ok t -> time_from_str utc s2 = Ok t -> s1 = s2.
Proof.
  intros L1 L2 H1 H2. apply time_canonical in H1, H2; try assumption. congruence.
Qed.

(* ------------------------------------------------------------------ 6. no out-of-bounds read *)
Theorem time_from_str_nofault (utc : bool) s :
  ((if utc then 13 else 15) <= length s)%nat -> time_from_str utc s <> Fault.
Proof.
  intros L. unfold time_from_str.
  destruct (check_digits (if utc then 12%nat else 14%nat) s) as [[]| | |] eqn:EC; try discriminate.
  - apply check_digits_inv in EC. destruct EC as (body & rest & -> & Hl & _).
    destruct utc.
    + destruct body as [|a0 [|a1 [|a2 [|a3 [|a4 [|a5 [|a6 [|a7 [|a8 [|a9 [|a10 [|a11 [|x body]]]]]]]]]]]]];
        try discriminate Hl.
      cbn [app]. cbv beta iota zeta.
      match goal with |- (if ?c then _ else _) <> _ => destruct c; discriminate end.
    + destruct body as [|a0 [|a1 [|a2 [|a3 [|a4 [|a5 [|a6 [|a7 [|a8 [|a9 [|a10 [|a11 [|a12 [|a13 [|x body]]]]]]]]]]]]]]];
        try discriminate Hl.
      cbn [app]. cbv beta iota zeta.
      match goal with |- (if ?c then _ else _) <> _ => destruct c; discriminate end.
  - apply check_digits_nofault in EC. destruct utc; lia.
Qed.

(* ------------------------------------------------------------------ 4. DER level *)
Lemma tlen_max (utc : bool) : (if utc then 13 else 15) <= INT_MAX.
Proof. destruct utc; unfold INT_MAX; lia. Qed.

Theorem time_der_roundtrip utc tag t e rest :
  time_to_der utc tag (Some t) = Ok e -> time_from_der utc tag (e ++ rest) = Ok (t, rest).
Proof.
  unfold time_to_der. destruct (time_to_str utc t) as [s|] eqn:ES; [|discriminate].
  intros E. injection E as <-.
  pose proof (time_to_str_len _ _ _ ES) as HL.
  cbn [app time_from_der]. rewrite N.eqb_refl. cbn [negb]. rewrite <- app_assoc.
  rewrite len_from_der_enc; [|apply tlen_max|rewrite len_app; lia].
  rewrite N.eqb_refl. rewrite <- HL, takeN_app, dropN_app.
  rewrite (time_roundtrip _ _ _ ES). reflexivity.
Qed.

Theorem time_der_dry utc tag ot e : time_to_der utc tag ot = Ok e -> time_size utc ot = len e.
Proof.
  destruct ot as [t|]; cbn [time_to_der time_size]; [|discriminate].
  destruct (time_to_str utc t) as [s|] eqn:ES; [|discriminate].
  intros E. injection E as <-.
  rewrite len_cons, len_app, len_sz_eq, (time_to_str_len _ _ _ ES). lia.
Qed.

Lemma time_from_der_inv utc tag inp t rest :
  time_from_der utc tag inp = Ok (t, rest) ->
  exists r0 r, inp = tag :: r0 /\ len_from_der r0 = Ok ((if utc then 13 else 15), r)
    /\ (if utc then 13 else 15) <= len r
    /\ time_from_str utc (takeN (if utc then 13 else 15) r) = Ok t
    /\ rest = dropN (if utc then 13 else 15) r.
Proof.
  destruct inp as [|b r0]; cbn [time_from_der]; [discriminate|].
  destruct (N.eqb_spec b tag) as [->|]; cbn [negb]; [|discriminate].
  destruct (len_from_der r0) as [[l r]| | |] eqn:EL; try discriminate.
  destruct (N.eqb_spec l (if utc then 13 else 15)) as [->|]; [|discriminate].
  destruct (time_from_str utc _) as [v| | |] eqn:ES; try discriminate.
  intros E. injection E as <- <-.
  pose proof (len_from_der_inv _ _ _ EL) as [Hle _].
  exists r0, r. auto.
Qed.

Theorem time_der_canonical utc tag inp t rest :
  bytes_okP inp -> time_from_der utc tag inp = Ok (t, rest) ->
  exists e, time_to_der utc tag (Some t) = Ok e /\ inp = e ++ rest.
Proof.
  intros HB H. apply time_from_der_inv in H. destruct H as (r0 & r & -> & EL & Hle & ES & ->).
  apply Forall_cons_iff in HB. destruct HB as [_ HB].
  destruct (len_canonical _ _ _ HB EL (tlen_max utc)) as (e' & He' & ->).
  apply time_canonical in ES.
  - unfold time_to_der. rewrite ES. eexists. split; [reflexivity|].
    unfold len_enc. rewrite He'. cbn [app]. rewrite <- app_assoc, take_drop. reflexivity.
  - pose proof (len_takeN _ r Hle) as HT. unfold len in HT. destruct utc; lia.
Qed.

Theorem time_from_der_nofault utc tag inp : time_from_der utc tag inp <> Fault.
Proof.
  destruct inp as [|b r0]; cbn [time_from_der]; [discriminate|].
  destruct (negb (b =? tag)); [discriminate|].
  pose proof (len_from_der_nofault r0) as NF.
  destruct (len_from_der r0) as [[l r]| | |] eqn:EL; try discriminate; [|congruence].
  destruct (N.eqb_spec l (if utc then 13 else 15)) as [->|]; [|discriminate].
  pose proof (len_from_der_inv _ _ _ EL) as [Hle _].
  destruct (time_from_str utc _) as [v| | |] eqn:ES; try discriminate.
  exfalso. revert ES. apply time_from_str_nofault.
  pose proof (len_takeN _ r Hle) as HT. unfold len in HT. destruct utc; lia.
Qed.

(* ------------------------------------------------------------------ examples (boundaries) *)
Example ex_epoch : time_to_str true 0 = Some [55;48;48;49;48;49;48;48;48;48;48;48;90].          (* 700101000000Z *)
Proof. vm_compute. reflexivity. Qed.
Example ex_leapday : time_to_str true 951782400 = Some [48;48;48;50;50;57;48;48;48;48;48;48;90]. (* 000229000000Z *)
Proof. vm_compute. reflexivity. Qed.
Example ex_utc_last : time_to_str true 2556143999 = Some [53;48;49;50;51;49;50;51;53;57;53;57;90]. (* 501231235959Z *)
Proof. vm_compute. reflexivity. Qed.
Example ex_utc_over : time_to_str true 2556144000 = None.
Proof. vm_compute. reflexivity. Qed.
Example ex_gen_2051 : time_to_str false 2556144000 = Some [50;48;53;49;48;49;48;49;48;48;48;48;48;48;90]. (* 20510101000000Z *)
Proof. vm_compute. reflexivity. Qed.
Example ex_gen_last : time_to_str false 253402300799 = Some [57;57;57;57;49;50;51;49;50;51;53;57;53;57;90]. (* 99991231235959Z *)
Proof. vm_compute. reflexivity. Qed.
Example ex_gen_over : time_to_str false 253402300800 = None.
Proof. vm_compute. reflexivity. Qed.
(* characters after the 'Z' are not looked at by asn1_time_from_str *)
Example ex_trailing : time_from_str true [55;48;48;49;48;49;48;48;48;48;48;48;90;1;2;3] = Ok 0.
Proof. vm_compute. reflexivity. Qed.
Example ex_feb29_refused : time_from_str true [48;49;48;50;50;57;48;48;48;48;48;48;90] = Err.     (* 010229... *)
Proof. vm_compute. reflexivity. Qed.

(* ------------------------------------------------------------------ signed time_t: every time stamp the (fixed) encoder accepts is >= 0 and round-trips *)
Theorem time_der_roundtrip_z utc tag (t : Z) e rest :
  time_to_der_z true utc tag t = Ok e -> (0 <= t)%Z /\ time_from_der utc tag (e ++ rest) = Ok (Z.to_N t, rest).
Proof.
  unfold time_to_der_z, time_to_str_z. destruct (t =? -1)%Z; [discriminate|].
  destruct (Z.ltb_spec t 0) as [L|L]; [discriminate|]. intros E. split; [assumption|].
  apply time_der_roundtrip. unfold time_to_der. destruct (time_to_str utc (Z.to_N t)); [exact E|discriminate].
Qed.
Theorem time_to_str_z_range utc (t : Z) :
  (exists s, time_to_str_z true utc t = Some s) <-> (0 <= t)%Z /\ Z.to_N t < limit utc.
Proof.
  unfold time_to_str_z. destruct (Z.ltb_spec t 0) as [L|L].
  - split; [intros [s H']; discriminate|intros [H' _]; lia].
  - rewrite time_to_str_defined. split; [intros; split; auto|intros [_ H']; exact H'].
Qed.
(* the text as it stands: one second before the epoch gives "691231..."?  no: "7001010000 0/" - not a time string *)
Example time_negative_asis_not_a_time :
  time_to_str_z false true (-5) = Some [55; 48; 48; 49; 48; 49; 48; 48; 48; 48; 48; 43; 90]
  /\ time_from_str true [55; 48; 48; 49; 48; 49; 48; 48; 48; 48; 48; 43; 90] = Err.
Proof. split; vm_compute; reflexivity. Qed.
