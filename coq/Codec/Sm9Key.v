(* Impl models of the SM9 key containers of src/sm9_key.c, the SM9 signature of src/sm9_sign.c and
   the SM9 ciphertext of src/sm9_enc.c, built from the primitives of Codec/Der.v and the PBES2
   container of Codec/Pkcs.v.

   Objects.  An SM9 scalar (ks, ke, h) is its 32 big-endian bytes; a point of G1 (ds, Ppube, S,
   C1) is the 64 bytes x || y of its affine coordinates, a point of the twist (Ppubs, de) the 128
   bytes x1 || x0 || y1 || y0 (the order of sm9_z256_fp2_to_bytes); on the wire a point is the BIT
   STRING of the octets 04 || coordinates (65 / 129 octets).  Pairing and curve arithmetic are not
   modelled: what sm9_z256_point_from_uncompressed_octets / sm9_z256_twist_point_from_uncompressed_octets
   accept is the parameter [g1_ok] / [g2_ok] of the section (first octet 04 - tested separately,
   as in the C text -, every coordinate below p, the curve equation; NO test of the order of a
   twist point, see the observations at the end of this comment).

   Every decoder returns the WHOLE target object: the six key decoders start with
   memset(key, 0, sizeof( *key)), so a master PUBLIC key decoder stores ks = 0.

   Object identifiers continue the local numbering of Pkcs.v: 40 sm9, 41 sm9sign,
   42 sm9keyagreement, 43 sm9encrypt, -1 "absent".

   The six key types share three shapes, and the C functions are copies of one another with G1
   and the twist exchanged; the model has one definition per shape ([msk_*], [mpk_*], [uk_*]),
   parametrised by the length and the validity test of each point, and the six instances.

   What the C code checks, and what it does not (observations, none of them bends the model):
   * scalars: 1 <= length <= 32 and value < n.  ZERO IS ACCEPTED (sm9_z256_cmp(ks, n) >= 0 is
     the only range test; SM2 refuses 0).
   * no relation between ks and Ppubs (Ppubs = [ks]P2) or ke and Ppube is tested by the master
     key decoders, and none can be tested for user keys.
   * points: on the curve, coordinates below p.  Twist points are NOT tested for membership of
     the order-n subgroup (the twist has a large cofactor); G1 has cofactor 1.
   * sm9_signature_from_der: h < n, h = 0 accepted.
   * sm9_ciphertext_from_der: no upper bound on the length of C2 (SM9_MAX_PLAINTEXT_SIZE is
     left to the caller). *)
From GmVerif Require Import Base.Bytes Codec.Der Codec.Pkcs.
Local Open Scope N_scope.

Definition sm9_n : N := 0xB640000002A3A6F1D603AB4FF58EC74449F2934B18EA8BEEE56EE19CD69ECF25.

(* ------------------------------------------------------------------ object identifiers, AlgorithmIdentifier *)
Definition sm9_oids : oid_tab :=
  [(40%Z, [1;2;156;10197;1;302]); (41%Z, [1;2;156;10197;1;302;1]);
   (42%Z, [1;2;156;10197;1;302;2]); (43%Z, [1;2;156;10197;1;302;3])].

(* sm9_oid_to_der: -1 => return 0; unknown => -1 *)
Definition sm9_oid_to_der (id : Z) : res (list N) :=
  if (id =? -1)%Z then Absent
  else match nodes_of sm9_oids id with
       | Some ns => bind_ok (oid_enc ns) (fun e => Ok e)
       | None => Err
       end.
(* sm9_oid_from_der; on [Absent] the C function stores *oid = -1 *)
Definition sm9_oid_from_der (inp : list N) : res (Z * list N) := oid_info_from_der sm9_oids inp.

(* sm9_algor_to_der / from_der: SEQUENCE { alg OID, params OID OPTIONAL } *)
Definition sm9_algor_to_der (alg par : Z) : res (list N) :=
  bind_ok (sm9_oid_to_der alg) (fun a =>
  bind_ok (opt_enc (sm9_oid_to_der par)) (fun p => Ok (seq_enc (a ++ p)))).
Definition sm9_algor_from_der (inp : list N) : res (Z * Z * list N) :=
  match type_from_der 48 inp with
  | Ok (d, rest) =>
      bind_ok (sm9_oid_from_der d) (fun '(alg, d1) =>
        match sm9_oid_from_der d1 with
        | Ok (par, d2) => if is_nil d2 then Ok (alg, par, rest) else Err
        | Absent => if is_nil d1 then Ok (alg, (-1)%Z, rest) else Err
        | Err => Err
        | Fault => Fault
        end)
  | Absent => Absent
  | Err => Err
  | Fault => Fault
  end.

(* ------------------------------------------------------------------ the three shapes *)
(* BIT STRING of 04 || coordinates *)
Definition pt_to_der (xy : list N) : res (list N) := bit_octets_to_der 3 (Some (4 :: xy)).
(* sm9_z256_[twist_]point_from_uncompressed_octets on octets whose number the caller has checked *)
Definition pt_from_octets (ok : list N -> bool) (o : list N) : res (list N) :=
  if negb (nth 0 o 0 =? 4) then Err
  else if negb (ok o) then Err
  else Ok (dropN 1 o).

(* master key: SEQUENCE { INTEGER k, BIT STRING P } *)
Definition msk_to_der (k P : list N) : res (list N) :=
  bind_ok (integer_to_der 2 (Some k)) (fun ek =>
  bind_ok (pt_to_der P) (fun eP => Ok (seq_enc (ek ++ eP)))).
Definition msk_from_der (plen : N) (ok : list N -> bool) (inp : list N) : res (list N * list N * list N) :=
  match type_from_der 48 inp with
  | Ok (d, rest) =>
      bind_ok (integer_from_der 2 d) (fun '(k, d1) =>
      bind_ok (bit_octets_from_der m 3 d1) (fun '(P, d2) =>
        if negb ((1 <=? len k) && (len k <=? 32)) then Err
        else if negb (len P =? plen) then Err
        else if negb (is_nil d2) then Err
        (* memset(msk, 0); left-pad to 32 bytes; sm9_z256_cmp(k, n) >= 0 => error *)
        else if sm9_n <=? be_to_N (pad32 k) then Err
        else bind_ok (pt_from_octets ok P) (fun xy => Ok (pad32 k, xy, rest))))
  | Absent => Absent
  | Err => Err
  | Fault => Fault
  end.

(* master public key: SEQUENCE { BIT STRING P } *)
Definition mpk_to_der (P : list N) : res (list N) :=
  bind_ok (pt_to_der P) (fun eP => Ok (seq_enc eP)).
Definition mpk_from_der (plen : N) (ok : list N -> bool) (inp : list N) : res (list N * list N) :=
  match type_from_der 48 inp with
  | Ok (d, rest) =>
      bind_ok (bit_octets_from_der m 3 d) (fun '(P, d1) =>
        if negb (len P =? plen) then Err
        else if negb (is_nil d1) then Err
        else bind_ok (pt_from_octets ok P) (fun xy => Ok (xy, rest)))
  | Absent => Absent
  | Err => Err
  | Fault => Fault
  end.

(* user key: SEQUENCE { BIT STRING A, BIT STRING B } *)
Definition uk_to_der (A B : list N) : res (list N) :=
  bind_ok (pt_to_der A) (fun ea =>
  bind_ok (pt_to_der B) (fun eb => Ok (seq_enc (ea ++ eb)))).
Definition uk_from_der (la : N) (oka : list N -> bool) (lb : N) (okb : list N -> bool) (inp : list N)
  : res (list N * list N * list N) :=
  match type_from_der 48 inp with
  | Ok (d, rest) =>
      bind_ok (bit_octets_from_der m 3 d) (fun '(A, d1) =>
      bind_ok (bit_octets_from_der m 3 d1) (fun '(B, d2) =>
        if negb (len A =? la) then Err
        else if negb (len B =? lb) then Err
        else if negb (is_nil d2) then Err
        else bind_ok (pt_from_octets oka A) (fun a =>
             bind_ok (pt_from_octets okb B) (fun b => Ok (a, b, rest)))))
  | Absent => Absent
  | Err => Err
  | Fault => Fault
  end.

(* ------------------------------------------------------------------ PrivateKeyInfo (static helpers of sm9_key.c) *)
Definition SM9_MAX_PRIVATE_KEY_SIZE : N := 204.
Definition SM9_MAX_PRIVATE_KEY_INFO_SIZE : N := 512.

(* SEQUENCE { 0, AlgorithmIdentifier, OCTET STRING key } *)
Definition s9_pki_to_der (alg par : Z) (prikey : list N) : res (list N) :=
  if SM9_MAX_PRIVATE_KEY_SIZE <? len prikey then Err
  else
    bind_ok (int_to_der 2 0) (fun v =>
    bind_ok (sm9_algor_to_der alg par) (fun a =>
      Ok (seq_enc (v ++ a ++ (4 :: len_enc (len prikey) ++ prikey))))).
Definition s9_pki_from_der (inp : list N) : res (Z * Z * list N * list N) :=
  match type_from_der 48 inp with
  | Ok (d, rest) =>
      bind_ok (int_from_der m 2 d) (fun '(ver, d1) =>
      bind_ok (sm9_algor_from_der d1) (fun '(alg, par, d2) =>
      bind_ok (type_from_der 4 d2) (fun '(k, d3) =>
        if negb (is_nil d3) then Err
        else if negb (ver =? 0) then Err
        else if SM9_MAX_PRIVATE_KEY_SIZE <? len k then Err
        else Ok (alg, par, k, rest))))
  | Absent => Absent
  | Err => Err
  | Fault => Fault
  end.

(* ------------------------------------------------------------------ the objects *)
Record sign_msk : Type := { sm_ks : list N; sm_Ppubs : list N }.      (* SM9_SIGN_MASTER_KEY *)
Record sign_key : Type := { sk_ds : list N; sk_Ppubs : list N }.      (* SM9_SIGN_KEY *)
Record enc_msk : Type := { em_ke : list N; em_Ppube : list N }.       (* SM9_ENC_MASTER_KEY *)
Record enc_key : Type := { ek_de : list N; ek_Ppube : list N }.       (* SM9_ENC_KEY *)

Definition map_res {A B} (f : A -> B) (r : res (A * list N)) : res (B * list N) :=
  match r with Ok (a, rest) => Ok (f a, rest) | Absent => Absent | Err => Err | Fault => Fault end.

Section Sm9.
  Variable g1_ok : list N -> bool.     (* 65 octets 04 || x || y: x, y < p, y^2 = x^3 + 5 *)
  Variable g2_ok : list N -> bool.     (* 129 octets 04 || x1 || x0 || y1 || y0: all < p, on the twist *)

  Definition sign_msk_to_der (k : sign_msk) : res (list N) := msk_to_der (sm_ks k) (sm_Ppubs k).
  Definition sign_msk_from_der (inp : list N) : res (sign_msk * list N) :=
    match msk_from_der 129 g2_ok inp with
    | Ok (ks, P, rest) => Ok ({| sm_ks := ks; sm_Ppubs := P |}, rest)
    | Absent => Absent | Err => Err | Fault => Fault
    end.
  Definition sign_mpk_to_der (k : sign_msk) : res (list N) := mpk_to_der (sm_Ppubs k).
  Definition sign_mpk_from_der (inp : list N) : res (sign_msk * list N) :=
    map_res (fun P => {| sm_ks := zeros 32; sm_Ppubs := P |}) (mpk_from_der 129 g2_ok inp).
  Definition sign_key_to_der (k : sign_key) : res (list N) := uk_to_der (sk_ds k) (sk_Ppubs k).
  Definition sign_key_from_der (inp : list N) : res (sign_key * list N) :=
    match uk_from_der 65 g1_ok 129 g2_ok inp with
    | Ok (ds, P, rest) => Ok ({| sk_ds := ds; sk_Ppubs := P |}, rest)
    | Absent => Absent | Err => Err | Fault => Fault
    end.

  Definition enc_msk_to_der (k : enc_msk) : res (list N) := msk_to_der (em_ke k) (em_Ppube k).
  Definition enc_msk_from_der (inp : list N) : res (enc_msk * list N) :=
    match msk_from_der 65 g1_ok inp with
    | Ok (ke, P, rest) => Ok ({| em_ke := ke; em_Ppube := P |}, rest)
    | Absent => Absent | Err => Err | Fault => Fault
    end.
  Definition enc_mpk_to_der (k : enc_msk) : res (list N) := mpk_to_der (em_Ppube k).
  Definition enc_mpk_from_der (inp : list N) : res (enc_msk * list N) :=
    map_res (fun P => {| em_ke := zeros 32; em_Ppube := P |}) (mpk_from_der 65 g1_ok inp).
  Definition enc_key_to_der (k : enc_key) : res (list N) := uk_to_der (ek_de k) (ek_Ppube k).
  Definition enc_key_from_der (inp : list N) : res (enc_key * list N) :=
    match uk_from_der 129 g2_ok 65 g1_ok inp with
    | Ok (de, P, rest) => Ok ({| ek_de := de; ek_Ppube := P |}, rest)
    | Absent => Absent | Err => Err | Fault => Fault
    end.

  (* ---------------------------------------------------------------- SM9 signature: SEQUENCE { OCTET STRING h, BIT STRING S } *)
  Definition sm9_sig_to_der (h sp : list N) : res (list N) :=
    bind_ok (pt_to_der sp) (fun eS => Ok (seq_enc ((4 :: len_enc (len h) ++ h) ++ eS))).
  Definition sm9_sig_from_der (inp : list N) : res (list N * list N * list N) :=
    match type_from_der 48 inp with
    | Ok (d, rest) =>
        bind_ok (type_from_der 4 d) (fun '(h, d1) =>
        bind_ok (bit_octets_from_der m 3 d1) (fun '(sp, d2) =>
          if negb (len h =? 32) then Err
          else if negb (len sp =? 65) then Err
          else if negb (is_nil d2) then Err
          else if sm9_n <=? be_to_N h then Err
          else bind_ok (pt_from_octets g1_ok sp) (fun xy => Ok (h, xy, rest))))
    | Absent => Absent
    | Err => Err
    | Fault => Fault
    end.

  (* ---------------------------------------------------------------- SM9 ciphertext: SEQUENCE { 0, BIT STRING C1, OCTET STRING C3, OCTET STRING C2 } *)
  Definition sm9_ct_to_der (C1 c2 c3 : list N) : res (list N) :=
    bind_ok (int_to_der 2 0) (fun v =>
    bind_ok (pt_to_der C1) (fun e1 =>
      Ok (seq_enc (v ++ e1 ++ (4 :: len_enc (len c3) ++ c3) ++ (4 :: len_enc (len c2) ++ c2))))).
  (* C1, c2, c3, rest *)
  Definition sm9_ct_from_der (inp : list N) : res (list N * list N * list N * list N) :=
    match type_from_der 48 inp with
    | Ok (d, rest) =>
        bind_ok (int_from_der m 2 d) (fun '(ty, d1) =>
        bind_ok (bit_octets_from_der m 3 d1) (fun '(c1, d2) =>
        bind_ok (type_from_der 4 d2) (fun '(c3, d3) =>
        bind_ok (type_from_der 4 d3) (fun '(c2, d4) =>
          if negb (is_nil d4) then Err
          else if negb (ty =? 0) then Err
          else if negb (len c1 =? 65) then Err
          else if negb (len c3 =? 32) then Err
          else bind_ok (pt_from_octets g1_ok c1) (fun xy => Ok (xy, c2, c3, rest))))))
    | Absent => Absent
    | Err => Err
    | Fault => Fault
    end.

  (* ---------------------------------------------------------------- password-encrypted containers *)
  Variable kdf : list N -> list N -> Z -> list N.               (* sm3_pbkdf2(pass, salt, iter, 16) *)
  Variable cbcdec : list N -> list N -> list N -> option (list N).   (* sm4_cbc_padding_decrypt key iv c *)
  Variable cbcenc : list N -> list N -> list N -> list N.            (* sm4_cbc_padding_encrypt key iv p *)

  (* sm9_private_key_info_encrypt_to_der with its entropy (salt, iv: 16 bytes each, drawn in this
     order) made explicit; 65536 iterations, keylen 16, prf hmac-sm3 always written *)
  Definition s9_params (salt iv : list N) : pbes2 :=
    {| p_salt := salt; p_iter := 65536; p_keylen := 16; p_prf := 30; p_cipher := 20; p_iv := iv |}.
  Definition s9_seal (alg par : Z) (prikey pass salt iv : list N) : res (list N) :=
    bind_ok (s9_pki_to_der alg par prikey) (fun info =>
    bind_ok (p8e_to_der (s9_params salt iv) (cbcenc (kdf pass salt 65536) iv info)) (fun e => Ok e)).

  (* sm9_private_key_info_decrypt_from_der: alg, params, key bytes, rest *)
  Definition s9_open (pass inp : list N) : res (Z * Z * list N * list N) :=
    match p8e_from_der inp with
    | Ok (p, enced, rest) =>
        if negb ((p_keylen p =? -1)%Z || (p_keylen p =? 16)%Z) then Err
        else if negb ((p_prf p =? -1)%Z || (p_prf p =? 30)%Z) then Err
        else if negb (p_cipher p =? 20)%Z then Err
        else if negb (len (p_iv p) =? 16) then Err
        else if SM9_MAX_PRIVATE_KEY_INFO_SIZE <? len enced then Err
        else
          match cbcdec (kdf pass (p_salt p) (p_iter p)) (p_iv p) enced with
          | None => Err
          | Some pt =>
              bind_ok (s9_pki_from_der pt) (fun '(alg, par, k, r1) =>
                if is_nil r1 then Ok (alg, par, k, rest) else Err)
          end
    | Fault => Fault
    | _ => Err
    end.

  (* the typed loaders: alg / params must be the pair of the type, the key bytes must be exactly one key *)
  Definition s9_open_as {K} (ealg epar : Z) (dec : list N -> res (K * list N)) (pass inp : list N)
    : res (K * list N) :=
    bind_ok (s9_open pass inp) (fun '(alg, par, k, rest) =>
      if negb (alg =? ealg)%Z then Err
      else if negb (par =? epar)%Z then Err
      else bind_ok (dec k) (fun '(key, r1) => if is_nil r1 then Ok (key, rest) else Err)).

  Definition sign_msk_seal (k : sign_msk) (pass salt iv : list N) : res (list N) :=
    bind_ok (sign_msk_to_der k) (fun e => s9_seal 40 41 e pass salt iv).
  Definition sign_msk_open := s9_open_as 40 41 sign_msk_from_der.
  Definition sign_key_seal (k : sign_key) (pass salt iv : list N) : res (list N) :=
    bind_ok (sign_key_to_der k) (fun e => s9_seal 41 (-1) e pass salt iv).
  Definition sign_key_open := s9_open_as 41 (-1) sign_key_from_der.
  Definition enc_msk_seal (k : enc_msk) (pass salt iv : list N) : res (list N) :=
    bind_ok (enc_msk_to_der k) (fun e => s9_seal 40 43 e pass salt iv).
  Definition enc_msk_open := s9_open_as 40 43 enc_msk_from_der.
  Definition enc_key_seal (k : enc_key) (pass salt iv : list N) : res (list N) :=
    bind_ok (enc_key_to_der k) (fun e => s9_seal 43 (-1) e pass salt iv).
  Definition enc_key_open := s9_open_as 43 (-1) enc_key_from_der.
End Sm9.
