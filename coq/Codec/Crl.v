(* Impl models of the CRL decoders (src/x509_crl.c) and of the certification request decoders
   (src/x509_req.c), built from the primitives of Codec/Der.v and the combinators / sub-decoders of
   Codec/X509.v: CRLReason, the crlEntryExtensions layer (extension id / Extension / the _ex decoder with
   its three in-out values / the two scanning loops), RevokedCertificate and the lookup by serial number,
   the crlExtensions layer (extension id / Extension / IssuingDistributionPoint / the check loop),
   TBSCertList, the signed wrapper around it, x509_crl_get_details and the functions built on it,
   CertificationRequestInfo, CertificationRequest, x509_req_get_details, x509_req_from_der.

   Conventions as in Codec/X509.v: a decoder runs over the bytes from the C pointer to the end of the
   buffer; Ok = 1, Absent = 0, Err = negative, Fault = an access outside the buffer / a capacity, or a
   loop that would not terminate within its fuel.  Every out-parameter is returned, in the order of the C
   parameter list; a (pointer, length) pair that can be NULL is a [ptr].  time_t values: [N] where the
   function can only store a decoded time, [Z] where -1 ("absent") can be stored.  The text is followed
   line by line; what looks odd in it is modelled as it is and marked QUIRK. *)
From GmVerif Require Import Base.Bytes Codec.Der Codec.Time Codec.Pkcs Codec.OidTables Codec.X509.
Local Open Scope N_scope.

(* enum values of include/gmssl/oid.h that Codec/OidTables.v does not name (they are the first
   components of the rows of tab_crl_entry_exts / tab_crl_exts; Codec/CrlProofs.v checks the agreement) *)
Definition OID_ce_issuer_alt_name : Z := 50%Z.              (* OID_ce_issuer_alt_name *)
Definition OID_ce_freshest_crl : Z := 58%Z.                 (* OID_ce_freshest_crl *)
Definition OID_ce_crl_number : Z := 64%Z.                   (* OID_ce_crl_number *)
Definition OID_ce_delta_crl_indicator : Z := 65%Z.          (* OID_ce_delta_crl_indicator *)
Definition OID_ce_issuing_distribution_point : Z := 66%Z.   (* OID_ce_issuing_distribution_point *)
Definition OID_pe_authority_info_access : Z := 67%Z.        (* OID_pe_authority_info_access *)
Definition OID_ce_crl_reasons : Z := 68%Z.                  (* OID_ce_crl_reasons *)
Definition OID_ce_invalidity_date : Z := 69%Z.              (* OID_ce_invalidity_date *)
Definition OID_ce_certificate_issuer : Z := 70%Z.           (* OID_ce_certificate_issuer *)
Definition X509_critical : Z := 1%Z.                        (* include/gmssl/x509_ext.h: X509_critical *)
Definition X509_version_v1 : Z := 0%Z.                      (* include/gmssl/x509_cer.h: X509_version_v1 *)
Definition X509_version_v2 : Z := 1%Z.                      (* include/gmssl/x509_cer.h: X509_version_v2 *)

(* a (pointer, length) pair handed on as the (d, dlen) of a scanning loop: NULL has length 0 *)
Definition ptr_bytes (p : ptr) : list N := match p with PBuf d => d | _ => [] end.

(* ------------------------------------------------------------------ CRLReason *)
(* x509_crl_reason_from_der (x509_crl.c:81) = asn1_int_from_der_ex(ENUMERATED), then
   x509_crl_reason_name: 0 <= reason < 11.  Absent: reason = -1 (stored by asn1_int_from_der_ex). *)
Definition crl_reason_from_der_ex (tag : N) (inp : list N) : res (Z * list N) :=
  match int_from_der m tag inp with
  | Ok (v, r) => if 10 <? v then Err else Ok (Z.of_N v, r)
  | Absent => Absent
  | Err => Err
  | Fault => Fault
  end.
Definition crl_reason_from_der (inp : list N) : res (Z * list N) := crl_reason_from_der_ex 10 inp.
(* x509_implicit_crl_reason_from_der (x509_crl.c:96): the text is inside a comment in the pinned tree;
   the model is what it says, tag = ASN1_TAG_IMPLICIT(index) *)
Definition implicit_crl_reason_from_der (index : N) (inp : list N) : res (Z * list N) :=
  crl_reason_from_der_ex (128 + index) inp.

(* ------------------------------------------------------------------ crlEntryExtensions: one Extension *)
(* x509_crl_entry_ext_id_from_der (x509_crl.c:158): an OID outside the table is -1; Absent: oid = -1 *)
Definition crl_entry_ext_id_from_der (inp : list N) : res (Z * list N) := oid_info_from_der tab_crl_entry_exts inp.
(* x509_crl_entry_ext_critical_check (x509_crl.c:172): true = 1, false = -1 *)
Definition crl_entry_ext_critical_check (oid crit : Z) : bool :=
  if (oid =? OID_ce_crl_reasons)%Z || (oid =? OID_ce_invalidity_date)%Z then negb (crit =? X509_critical)%Z
  else if (oid =? OID_ce_certificate_issuer)%Z then (crit =? X509_critical)%Z
  else false.
(* x509_crl_entry_ext_from_der (x509_crl.c:215): oid, critical (-1 when absent), val.
   Absent: nothing is stored. *)
Definition crl_entry_ext_from_der (inp : list N) : res (Z * Z * list N * list N) :=
  seq_dec inp (fun d =>
    bind_ok (crl_entry_ext_id_from_der d) (fun '(id, d1) =>
    bind_ok (obool 1 d1) (fun '(crit, d2) =>
    bind_ok (type_from_der 4 d2) (fun '(v, d3) => at_end d3 (id, crit, v))))).
(* x509_crl_entry_ext_from_der_ex (x509_crl.c:298): oid, critical, and the three IN-OUT values reason,
   invalid_date, cert_issuer: the value of the matching one is read first ("already set" = -1), the other
   two are returned as they came in.  Absent: reason = -1, invalid_date = -1, cert_issuer = NULL, and oid /
   critical are not stored.
   QUIRK (x509_crl.c:322,332,342): what is left of the extnValue after the inner element (vlen) is never
   tested: trailing bytes inside the OCTET STRING are accepted.
   QUIRK (x509_crl.c:346): "if (!cert_issuer)" tests the parameter, not what it points to: dead code.
   An unset in-value of cert_issuer counts as non-NULL. *)
Definition crl_entry_ext_from_der_ex (reason0 date0 : Z) (issuer0 : ptr) (inp : list N)
  : res (Z * Z * Z * Z * ptr * list N) :=
  match crl_entry_ext_from_der inp with
  | Ok (oid, crit, v, rest) =>
      if (oid =? OID_ce_crl_reasons)%Z then
        if negb (reason0 =? -1)%Z then Err
        else bind_ok (crl_reason_from_der v) (fun '(rs, _) => Ok (oid, crit, rs, date0, issuer0, rest))
      else if (oid =? OID_ce_invalidity_date)%Z then
        if negb (date0 =? -1)%Z then Err
        else bind_ok (time_from_der false 24 v) (fun '(t, _) => Ok (oid, crit, reason0, Z.of_N t, issuer0, rest))
      else if (oid =? OID_ce_certificate_issuer)%Z then
        if negb (ptr_is_null issuer0) then Err
        else bind_ok (type_from_der 48 v) (fun '(gns, _) => Ok (oid, crit, reason0, date0, PBuf gns, rest))
      else Err
  | Absent => Absent
  | Err => Err
  | Fault => Fault
  end.

(* ------------------------------------------------------------------ crlEntryExtensions: the loops *)
(* "while (dlen) { from_der_ex(.., reason, invalid_date, cert_issuer, ..) != 1 => -1; critical_check != 1 => -1 }" *)
Fixpoint crl_entry_exts_loop (fuel : nat) (reason date : Z) (issuer : ptr) (d : list N) : res (Z * Z * ptr) :=
  match d with
  | [] => Ok (reason, date, issuer)
  | _ => match fuel with
         | O => Fault
         | S k => match crl_entry_ext_from_der_ex reason date issuer d with
                  | Ok (oid, crit, reason', date', issuer', r) =>
                      if crl_entry_ext_critical_check oid crit then crl_entry_exts_loop k reason' date' issuer' r
                      else Err
                  | Fault => Fault
                  | _ => Err
                  end
         end
  end.
(* x509_crl_entry_exts_get (x509_crl.c:428) on the bytes d[0..dlen): reason, invalid_date, cert_issuer;
   starts from -1, -1, NULL; 1 or -1 *)
Definition crl_entry_exts_get (d : list N) : res (Z * Z * ptr) :=
  crl_entry_exts_loop (length d) (-1)%Z (-1)%Z PNull d.
(* x509_crl_entry_exts_from_der (x509_crl.c:451): an empty SEQUENCE is an error.
   QUIRK (x509_crl.c:459-462): Absent returns 0 WITHOUT storing reason / invalid_date / cert_issuer
   (every other optional decoder of the file stores -1 / NULL): a caller using "< 0" reads what it had. *)
Definition crl_entry_exts_from_der (inp : list N) : res (Z * Z * ptr * list N) :=
  seq_dec inp (fun d => if is_nil d then Err else crl_entry_exts_get d).
(* x509_crl_entry_exts_check (x509_crl.c:474): the same loop over locals, no out-parameter.
   QUIRK (x509_crl.c:493-496): a present certificateIssuer only prints an error line, the return -1 is
   commented out. *)
Definition crl_entry_exts_check (d : list N) : res unit :=
  match crl_entry_exts_loop (length d) (-1)%Z (-1)%Z PNull d with
  | Ok _ => Ok tt
  | Absent => Absent
  | Err => Err
  | Fault => Fault
  end.

(* ------------------------------------------------------------------ RevokedCertificate *)
(* x509_revoked_cert_from_der (x509_crl.c:564): serial, revoke_date, crl_entry_exts (NULL when absent) *)
Definition revoked_cert_from_der (inp : list N) : res (list N * N * ptr * list N) :=
  seq_dec inp (fun d =>
    bind_ok (integer_from_der 2 d) (fun '(serial, d1) =>
    bind_ok (x509_time_from_der d1) (fun '(date, d2) =>
    bind_ok (otype 48 d2) (fun '(exts, d3) => at_end d3 (serial, date, exts))))).
(* x509_revoked_cert_from_der_ex (x509_crl.c:587): serial, revoke_date, reason, invalid_date, cert_issuer.
   QUIRK (x509_crl.c:604): crlEntryExtensions, OPTIONAL in the ASN.1 and in the function above, is
   required here ("!= 1"): an entry without extensions is -1; an EMPTY SEQUENCE of extensions passes
   with -1 / -1 / NULL. *)
Definition revoked_cert_from_der_ex (inp : list N) : res (list N * N * Z * Z * ptr * list N) :=
  seq_dec inp (fun d =>
    bind_ok (integer_from_der 2 d) (fun '(serial, d1) =>
    bind_ok (x509_time_from_der d1) (fun '(date, d2) =>
    bind_ok (type_from_der 48 d2) (fun '(exts, d3) =>
      if negb (is_nil d3) then Err
      else bind_ok (crl_entry_exts_get exts) (fun '(reason, idate, issuer) =>
             Ok (serial, date, reason, idate, issuer)))))).
(* x509_revoked_certs_find_revoked_cert_by_serial_number (x509_crl.c:656) on d[0..dlen):
   Ok (Some (revoke_date, crl_entry_exts)) = 1, Ok None = 0 (revoke_date -1, crl_entry_exts NULL, length 0);
   "sn_len == serial_len && memcmp == 0" is [list_eqb] *)
Definition revoked_certs_find_by_serial (d serial : list N) : res (option (N * ptr)) :=
  match find_loop (length d) revoked_cert_from_der (fun '(sn, _, _) => list_eqb sn serial) d with
  | Ok (Some ((_, date, exts), _)) => Ok (Some (date, exts))
  | Ok None => Ok None
  | Absent => Absent
  | Err => Err
  | Fault => Fault
  end.

(* ------------------------------------------------------------------ crlExtensions: one Extension *)
(* x509_crl_ext_id_from_der_ex (x509_crl.c:751): oid (0 for an OID outside the table), nodes, nodes_cnt.
   Absent: oid = 0. *)
Definition crl_ext_id_from_der_ex (inp : list N) : res (Z * list N * list N) := oid_info_ex tab_crl_exts inp.
(* x509_crl_ext_id_from_der (x509_crl.c:767): local nodes[32]; OID_undef is -1 *)
Definition crl_ext_id_from_der (inp : list N) : res (Z * list N) :=
  match crl_ext_id_from_der_ex inp with
  | Ok (id, _, r) => if (id =? OID_undef)%Z then Err else Ok (id, r)
  | Absent => Absent
  | Err => Err
  | Fault => Fault
  end.
(* x509_issuing_distribution_point_from_der (x509_crl.c:821): dist_point_choice, dist_point,
   only_contains_user_certs, only_contains_ca_certs, only_some_reasons, indirect_crl,
   only_contains_attr_certs (-1 each when absent).
   QUIRK (x509_crl.c:840,850): distributionPoint [0] is parsed as optional ("< 0", a = NULL when absent),
   then x509_distribution_point_name_from_der is required on it: with a = NULL asn1_any_type_from_der
   refuses the NULL input, so an IssuingDistributionPoint without distributionPoint is always -1. *)
Definition issuing_distribution_point_from_der (inp : list N)
  : res (Z * list N * Z * Z * Z * Z * Z * list N) :=
  seq_dec inp (fun d =>
    bind_ok (ontype 160 d) (fun '(a, d1) =>
    bind_ok (obool 129 d1) (fun '(user, d2) =>
    bind_ok (obool 130 d2) (fun '(ca, d3) =>
    bind_ok (obits 131 d3) (fun '(reasons, d4) =>
    bind_ok (obool 132 d4) (fun '(indirect, d5) =>
    bind_ok (obool 133 d5) (fun '(attr, d6) =>
      if negb (is_nil d6) then Err
      else match a with
           | PBuf x => bind_ok (distribution_point_name_from_der x) (fun '(c, dp, a1) =>
                         at_end a1 (c, dp, user, ca, reasons, indirect, attr))
           | _ => Err
           end))))))).
(* x509_crl_ext_critical_check (x509_crl.c:890): 1, 0 (a critical issuerAltName, x509_crl.c:906-908) or -1 *)
Definition crl_ext_critical_check (oid crit : Z) : res unit :=
  if (oid =? OID_ce_delta_crl_indicator)%Z || (oid =? OID_ce_issuing_distribution_point)%Z then
    (if negb (crit =? X509_critical)%Z then Err else Ok tt)
  else if (oid =? OID_ce_authority_key_identifier)%Z then Ok tt
  else if (oid =? OID_ce_issuer_alt_name)%Z then (if (crit =? X509_critical)%Z then Absent else Ok tt)
  else if (crit =? X509_critical)%Z then Err else Ok tt.
(* x509_crl_ext_from_der_ex (x509_crl.c:945): oid, nodes, nodes_cnt, critical, val *)
Definition crl_ext_from_der_ex (inp : list N) : res (Z * list N * Z * list N * list N) :=
  seq_dec inp (fun d =>
    bind_ok (crl_ext_id_from_der_ex d) (fun '(id, ns, d1) =>
    bind_ok (obool 1 d1) (fun '(crit, d2) =>
    bind_ok (type_from_der 4 d2) (fun '(v, d3) => at_end d3 (id, ns, crit, v))))).
(* x509_crl_exts_check (x509_crl.c:1204) on d[0..dlen): 1 or -1.
   QUIRK (x509_crl.c:1218-1225): after the critical check EVERY critical extension is refused, so
   deltaCRLIndicator and issuingDistributionPoint (which the check wants critical) can never pass. *)
Definition crl_exts_check (d : list N) : res unit :=
  match fold_loop (length d) crl_ext_from_der_ex (fun _ : unit => true)
          (fun _ '(oid, _, crit, _) =>
             match crl_ext_critical_check oid crit with
             | Ok _ => if (crit =? X509_critical)%Z then Err else Ok tt
             | Fault => Fault
             | _ => Err
             end) tt d with
  | Ok _ => Ok tt
  | Absent => Absent
  | Err => Err
  | Fault => Fault
  end.

(* ------------------------------------------------------------------ TBSCertList, the signed wrapper *)
Record tbs_crl := {
  c_version : Z; c_sigalg : Z; c_issuer : list N; c_this_update : N; c_next_update : Z;
  c_revoked : ptr; c_exts : ptr }.

(* x509_tbs_crl_from_der (x509_crl.c:1279): version (-1 when absent), signature_algor, issuer,
   this_update, next_update (-1 when absent), revoked_certs (NULL when absent), exts (NULL when absent).
   An empty SEQUENCE of revokedCertificates is a non-NULL pointer of length 0 ([PBuf []]).
   QUIRK (x509_crl.c:1308): an encoded version v1 (02 01 00) is -1, the only values left are -1 and v2;
   x509_crl_check below then refuses -1, so a v1 CRL passes this function and never the check.
   next_update is not compared with this_update. *)
Definition tbs_crl_from_der (inp : list N) : res (tbs_crl * list N) :=
  seq_dec inp (fun d =>
    bind_ok (oint 2 d) (fun '(ver, d1) =>
    bind_ok (sign_algor_from_der d1) (fun '(alg, d2) =>
    bind_ok (type_from_der 48 d2) (fun '(issuer, d3) =>
    bind_ok (x509_time_from_der d3) (fun '(tu, d4) =>
    bind_ok (opt (as_z (x509_time_from_der d4)) (-1)%Z d4) (fun '(nu, d5) =>
    bind_ok (otype 48 d5) (fun '(rc, d6) =>
    bind_ok (opt (as_ptr (explicit_exts_from_der 0 d6)) PNull d6) (fun '(exts, d7) =>
      if negb (is_nil d7) then Err
      else if (0 <=? ver)%Z && negb (ver =? X509_version_v2)%Z then Err
      else if negb (ptr_is_null rc) && negb (ver =? X509_version_v2)%Z then Err
      else if negb (ptr_is_null exts) && negb (ver =? X509_version_v2)%Z then Err
      else Ok (Build_tbs_crl ver alg issuer tu nu rc exts))))))))).

(* x509_crl_from_der_ex (x509_crl.c:1475): the seven members of the TBSCertList, sig_alg, sig.
   Absent: x509_signed_from_der stores sig NULL / 0 and sig_alg -1, the TBS members are not stored. *)
Definition crl_from_der_ex (inp : list N) : res (tbs_crl * Z * list N * list N) :=
  match signed_from_der inp with
  | Ok (tbs, alg, sig, rest) =>
      bind_ok (tbs_crl_from_der tbs) (fun '(t, r) => if negb (is_nil r) then Err else Ok (t, alg, sig, rest))
  | Absent => Absent
  | Err => Err
  | Fault => Fault
  end.
(* x509_crl_get_details (x509_crl.c:1527) on the bytes a[0..alen): everything (each out-parameter that is
   not NULL) or -1 with nothing stored *)
Definition crl_get_details (a : list N) : res (tbs_crl * Z * list N) :=
  bind_ok (signed_from_der a) (fun '(tbs, alg, sig, r) =>
    if negb (is_nil r) then Err
    else bind_ok (tbs_crl_from_der tbs) (fun '(t, r1) => if negb (is_nil r1) then Err else Ok (t, alg, sig))).
(* x509_crl_check (x509_crl.c:1582): no signature is involved; [now] is the caller's time_t *)
Definition crl_check (a : list N) (now : Z) : res unit :=
  bind_ok (crl_get_details a) (fun '(t, alg, _) =>
    if negb (c_sigalg t =? alg)%Z then Err
    else if negb (c_version t =? X509_version_v1)%Z && negb (c_version t =? X509_version_v2)%Z then Err
    else if (now <? Z.of_N (c_this_update t))%Z then Err
    else if (0 <=? c_next_update t)%Z && (c_next_update t <=? now)%Z then Err
    else bind_ok (crl_exts_check (ptr_bytes (c_exts t))) (fun _ => Ok tt)).
(* x509_crl_get_issuer (x509_crl.c:1626), x509_crl_get_revoked_certs (x509_crl.c:1644): 1 or -1 *)
Definition crl_get_issuer (a : list N) : res (list N) :=
  bind_ok (crl_get_details a) (fun '(t, _, _) => Ok (c_issuer t)).
Definition crl_get_revoked_certs (a : list N) : res ptr :=
  bind_ok (crl_get_details a) (fun '(t, _, _) => Ok (c_revoked t)).
(* x509_crl_find_revoked_cert_by_serial_number (x509_crl.c:1661): as the lookup above; a CRL without
   revokedCertificates (NULL, 0) is 0 *)
Definition crl_find_revoked_cert_by_serial_number (a serial : list N) : res (option (N * ptr)) :=
  bind_ok (crl_get_revoked_certs a) (fun rc =>
    match revoked_certs_find_by_serial (ptr_bytes rc) serial with
    | Ok x => Ok x
    | Absent => Absent
    | Fault => Fault
    | Err => Err
    end).
(* x509_crl_from_der (x509_crl.c:1388): the whole TLV, accepted when x509_crl_get_issuer accepts it *)
Definition crl_from_der (inp : list N) : res (list N * list N) :=
  match any_from_der inp with
  | Ok (a, rest) => bind_ok (crl_get_issuer a) (fun _ => Ok (a, rest))
  | Absent => Absent
  | Err => Err
  | Fault => Fault
  end.
(* x509_crl_verify_by_ca_cert (x509_crl.c:1503): its parsing prefix is [crl_get_issuer] on the CRL and
   x509_cert_get_subject on the certificate ([cert_get_details] of Codec/X509.v); the name comparison and
   the signature are outside these models. *)

(* ------------------------------------------------------------------ src/x509_req.c *)
Section Req.
  Variable pt_ok : list N -> bool.

  (* x509_request_info_from_der (x509_req.c:56): version, subject, subject_public_key (the 64 bytes
     x || y as in [tbs_cert_from_der]), attrs (NULL when absent; [0] IMPLICIT SET, may be empty) *)
  Definition request_info_from_der (inp : list N) : res (Z * list N * list N * ptr * list N) :=
    seq_dec inp (fun d =>
      bind_ok (int_from_der m 2 d) (fun '(ver, d1) =>
      bind_ok (type_from_der 48 d1) (fun '(subject, d2) =>
      bind_ok (sm2_pubinfo_from_der pt_ok d2) (fun '(xy, d3) =>
      bind_ok (otype 160 d3) (fun '(attrs, d4) =>
        if negb (is_nil d4) then Err
        else if negb (Z.of_N ver =? X509_version_v1)%Z then Err
        else Ok (Z.of_N ver, subject, xy, attrs)))))).
  (* x509_request_from_der (static, x509_req.c:110): version, subject, subject_public_key, attrs,
     signature_algor, sig *)
  Definition request_from_der (inp : list N) : res (Z * list N * list N * ptr * Z * list N * list N) :=
    seq_dec inp (fun d =>
      bind_ok (request_info_from_der d) (fun '(ver, subject, xy, attrs, d1) =>
      bind_ok (sign_algor_from_der d1) (fun '(alg, d2) =>
      bind_ok (bit_octets_from_der m 3 d2) (fun '(sig, d3) => at_end d3 (ver, subject, xy, attrs, alg, sig))))).
  (* x509_req_get_details (x509_req.c:225) on the bytes a[0..alen): everything or -1 with nothing stored *)
  Definition req_get_details (a : list N) : res (Z * list N * list N * ptr * Z * list N) :=
    bind_ok (request_from_der a) (fun '(ver, subject, xy, attrs, alg, sig, r) =>
      if negb (is_nil r) then Err else Ok (ver, subject, xy, attrs, alg, sig)).
  (* x509_req_from_der (x509_req.c:276) *)
  Definition req_from_der (inp : list N) : res (list N * list N) :=
    match any_from_der inp with
    | Ok (a, rest) => bind_ok (req_get_details a) (fun _ => Ok (a, rest))
    | Absent => Absent
    | Err => Err
    | Fault => Fault
    end.
  (* x509_req_verify (x509_req.c:209): its parsing prefix is [req_get_details]; x509_signed_verify
     (SM3 / SM2) is outside these models. *)
End Req.
