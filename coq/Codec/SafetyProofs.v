(* C06, modelled part: no decoder model reaches [Fault] on any input (every read is inside the
   bytes it was given, every write inside the declared capacity), and what is left over is a
   suffix of the input (consumed <= length input).  Complements the lemmas of DerProofs.v. *)
From GmVerif Require Import Base.ListX Base.Bytes Codec.Der Codec.DerProofs.
From Coq Require Import ZifyN ZifyNat ZifyBool.
Ltac Zify.zify_post_hook ::= Z.div_mod_to_equations.
Local Open Scope N_scope.

Lemma nonempty_type_from_der_nofault tag inp : nonempty_type_from_der tag inp <> Fault.
Proof.
  unfold nonempty_type_from_der. pose proof (type_from_der_nofault tag inp).
  destruct (type_from_der tag inp) as [[d r]| | |]; try congruence; try discriminate.
  destruct (len d =? 0); discriminate.
Qed.
Lemma any_type_from_der_nofault inp : any_type_from_der inp <> Fault.
Proof.
  destruct inp as [|t r]; cbn [any_type_from_der]; [discriminate|].
  pose proof (len_from_der_nofault r). destruct (len_from_der r) as [[? ?]| | |]; congruence.
Qed.
Lemma any_from_der_nofault inp : any_from_der inp <> Fault.
Proof.
  unfold any_from_der. pose proof (any_type_from_der_nofault inp).
  destruct (any_type_from_der inp) as [[[? ?] ?]| | |]; congruence.
Qed.
Lemma any_from_der_suffix inp a rest : any_from_der inp = Ok (a, rest) -> inp = a ++ rest /\ a <> [].
Proof.
  unfold any_from_der. destruct (any_type_from_der inp) as [[[t d] r]| | |] eqn:E; try discriminate.
  intros H; injection H as <- <-.
  destruct inp as [|t0 r0]; cbn [any_type_from_der] in E; [discriminate|].
  destruct (len_from_der r0) as [[l r']| | |] eqn:EL; try discriminate. injection E as <- <- <-.
  apply len_from_der_suffix' in EL. destruct EL as [p ->].
  pose proof (dropN_suffix l r') as [q Eq]. 
  assert (S : suffix_of (dropN l r') (t0 :: p ++ r')).
  { exists (t0 :: p ++ q). cbn [app]. rewrite <- app_assoc, <- Eq. reflexivity. }
  destruct S as [pre Epre]. 
  assert (L : len (t0 :: p ++ r') - len (dropN l r') = len pre).
  { rewrite Epre at 1. rewrite len_app. lia. }
  rewrite L. clear L. remember (dropN l r') as rest eqn:Er. remember (t0 :: p ++ r') as inp eqn:Ei.
  rewrite Epre. rewrite takeN_app. split; [reflexivity|].
  intros ->. cbn [app] in Epre. subst inp rest. apply (f_equal (@length N)) in Epre. cbn [length] in Epre.
  rewrite app_length in Epre. unfold dropN in Epre. rewrite skipn_length in Epre. lia.
Qed.

Lemma bit_octets_from_der_nofault m tag inp : bit_octets_from_der m tag inp <> Fault.
Proof.
  unfold bit_octets_from_der. pose proof (bit_string_from_der_nofault m tag inp).
  destruct (bit_string_from_der m tag inp) as [[[b n] r]| | |]; try congruence; try discriminate.
  destruct (n mod 8 =? 0); discriminate.
Qed.

(* bits_from_der: 31 bits at most, i.e. at most 4 content bytes are read, all inside the content *)
Lemma unpack_bits_nofault fuel p nbits w :
  nbits <= 8 * N.of_nat fuel -> nbits <= 8 * len p -> unpack_bits fuel p nbits w <> Fault.
Proof.
  revert p nbits w. induction fuel; intros p nbits w Hf Hp; cbn [unpack_bits].
  - destruct (N.eqb_spec nbits 0); [discriminate|lia].
  - destruct (N.eqb_spec nbits 0); [discriminate|].
    destruct p as [|c r]; [change (len (@nil N)) with 0 in Hp; lia|]. rewrite len_cons in Hp.
    assert (IH := IHfuel r (nbits - N.min nbits 8) (w * 2 ^ N.min nbits 8) ltac:(lia) ltac:(lia)).
    destruct (unpack_bits fuel r (nbits - N.min nbits 8) (w * 2 ^ N.min nbits 8)); congruence.
Qed.
Lemma bit_string_from_der_content m tag inp b nbits r :
  bit_string_from_der m tag inp = Ok (b, nbits, r) -> nbits <= 8 * len b.
Proof.
  destruct inp as [|t r0]; cbn [bit_string_from_der]; [discriminate|].
  destruct (negb (t =? tag)); [discriminate|].
  destruct (len_from_der r0) as [[l r']| | |] eqn:EL; try discriminate.
  pose proof (len_from_der_inv _ _ _ EL) as [Hle _].
  destruct (if fx_bit_empty m then l <? 1 else l <? 2) eqn:E1; [discriminate|].
  destruct r' as [|u r1]; [discriminate|].
  destruct (7 <? u); [discriminate|].
  destruct (fx_bit_empty m && (l =? 1) && negb (u =? 0)); [discriminate|].
  intros H; injection H as <- <- <-. rewrite len_cons in Hle.
  assert (1 <= l) by (destruct (fx_bit_empty m); [apply N.ltb_ge in E1|apply N.ltb_ge in E1]; lia).
  rewrite len_takeN by lia. lia.
Qed.
Lemma bits_from_der_nofault m tag inp : bits_from_der m tag inp <> Fault.
Proof.
  unfold bits_from_der. pose proof (bit_string_from_der_nofault m tag inp).
  destruct (bit_string_from_der m tag inp) as [[[p nbits] r]| | |] eqn:E; try congruence; try discriminate.
  apply bit_string_from_der_content in E.
  destruct (N.ltb_spec 31 nbits); [discriminate|].
  pose proof (unpack_bits_nofault 4 p nbits 1 ltac:(cbn; lia) E).
  destruct (unpack_bits 4 p nbits 1); congruence.
Qed.

Lemma null_from_der_nofault inp : null_from_der inp <> Fault.
Proof.
  destruct inp as [|t [|v r]]; cbn; try discriminate.
  - destruct (negb (t =? 5)); discriminate.
  - destruct (negb (t =? 5)); [discriminate|]. destruct (negb (v =? 0)); discriminate.
Qed.

Lemma oid_from_der_fixed_nofault cap tag inp : OID_MAX_NODES <= cap -> oid_from_der Fixed cap tag inp <> Fault.
Proof.
  intros Hcap. destruct inp as [|t r0]; cbn [oid_from_der]; [discriminate|].
  destruct (negb (t =? tag)); [discriminate|].
  pose proof (len_from_der_nofault r0). destruct (len_from_der r0) as [[l r]| | |]; try congruence; try discriminate.
  destruct (l <? 1); [discriminate|].
  pose proof (oid_from_octets_fixed_safe cap (takeN l r) Hcap).
  destruct (oid_from_octets Fixed cap (takeN l r)); try discriminate. contradiction.
Qed.

Lemma string_from_der_nofault valid tag inp : string_from_der valid tag inp <> Fault.
Proof.
  unfold string_from_der. pose proof (type_from_der_nofault tag inp).
  destruct (type_from_der tag inp) as [[d r]| | |]; try congruence; try discriminate.
  destruct (len d =? 0); [discriminate|]. destruct (valid d); discriminate.
Qed.

(* the UTF-8 scanner stays inside its argument: every step returns a proper suffix *)
Lemma utf8char_from_bytes_suffix m inp r : utf8char_from_bytes m inp = Ok r -> proper_suffix_of r inp.
Proof.
  destruct inp as [|b t]; cbn [utf8char_from_bytes]; [discriminate|].
  match goal with |- context [if ?n =? 0 then _ else _] => destruct (n =? 0); [discriminate|]; destruct (len (b :: t) <? n); [discriminate|];
    destruct (existsb (utf8_cont_bad m) (takeN (n - 1) t)); [discriminate|]; intros H; injection H as <-;
    apply suffix_cons_proper, dropN_suffix end.
Qed.
Lemma utf8char_from_bytes_nofault m inp : utf8char_from_bytes m inp <> Fault.
Proof.
  destruct inp as [|b t]; cbn [utf8char_from_bytes]; [discriminate|].
  match goal with |- context [if ?n =? 0 then _ else _] => destruct (n =? 0); [discriminate|]; destruct (len (b :: t) <? n); [discriminate|];
    destruct (existsb (utf8_cont_bad m) (takeN (n - 1) t)); discriminate end.
Qed.

(* combined statements used by Props/Properties_C06.v *)
Lemma len_from_der_consumes inp l rest :
  len_from_der inp = Ok (l, rest) -> l <= len rest /\ exists pre, inp = pre ++ rest /\ pre <> [].
Proof. intros H. split; [exact (proj1 (len_from_der_inv _ _ _ H))|exact (len_from_der_suffix _ _ _ H)]. Qed.
Lemma any_nofault inp : any_type_from_der inp <> Fault /\ any_from_der inp <> Fault.
Proof. split; [apply any_type_from_der_nofault|apply any_from_der_nofault]. Qed.
Lemma bit_string_family_nofault m tag inp :
  bit_string_from_der m tag inp <> Fault /\ bit_octets_from_der m tag inp <> Fault /\ bits_from_der m tag inp <> Fault.
Proof. repeat split; [apply bit_string_from_der_nofault|apply bit_octets_from_der_nofault|apply bits_from_der_nofault]. Qed.
Lemma utf8_scanner_within m inp :
  utf8char_from_bytes m inp <> Fault /\ (forall r, utf8char_from_bytes m inp = Ok r -> proper_suffix_of r inp).
Proof. split; [apply utf8char_from_bytes_nofault|intros r; apply utf8char_from_bytes_suffix]. Qed.
