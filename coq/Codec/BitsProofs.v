(* Round trip of the named-bit-list codec asn1_bits_to_der_ex / asn1_bits_from_der_ex
   (src/asn1.c) as modelled in Codec/Der.v: bits_to_der / bits_from_der. *)
From GmVerif Require Import Base.ListX Base.Bytes Codec.Der Codec.DerProofs.
From Coq Require Import ZifyN ZifyNat ZifyBool.
Ltac Zify.zify_post_hook ::= Z.div_mod_to_equations.
Local Open Scope N_scope.

(* ------------------------------------------------------------------ value of a little-endian bit list *)
Fixpoint bval (bs : list bool) (w : N) : N :=
  match bs with
  | [] => 0
  | b :: r => (if b then w else 0) + bval r (w * 2)
  end.

Lemma bval_scale bs w : bval bs w = w * bval bs 1.
Proof.
  revert w. induction bs as [|b r IH]; intros w; cbn [bval]; [lia|].
  rewrite (IH (w * 2)), (IH (1 * 2)). destruct b; lia.
Qed.

Lemma bval_app a b w : bval (a ++ b) w = bval a w + bval b (w * 2 ^ len a).
Proof.
  revert w. induction a as [|x a IH]; intros w; cbn [app bval].
  - change (len (@nil bool)) with 0. change (2 ^ 0) with 1. rewrite N.mul_1_r. reflexivity.
  - rewrite IH, len_cons. rewrite N.pow_add_r. change (2 ^ 1) with 2.
    replace (w * 2 * 2 ^ len a) with (w * (2 * 2 ^ len a)) by lia. lia.
Qed.

(* ------------------------------------------------------------------ bits_lsb *)
Lemma bits_lsb_val f a w : a < 2 ^ N.of_nat f -> bval (bits_lsb f a) w = w * a.
Proof.
  revert a w. induction f as [|f IH]; intros a w H; cbn [bits_lsb].
  - change (2 ^ N.of_nat 0) with 1 in H. cbn [bval]. lia.
  - destruct (N.eqb_spec a 0) as [->|Hn]; [cbn [bval]; lia|].
    rewrite Nat2N.inj_succ, N.pow_succ_r' in H.
    cbn [bval]. rewrite IH by lia.
    pose proof (N.div2_odd a) as E. rewrite N.div2_div in E.
    destruct (N.odd a); cbn [N.b2n] in E; lia.
Qed.

Lemma bits_lsb_len f n a : a < 2 ^ N.of_nat n -> (length (bits_lsb f a) <= n)%nat.
Proof.
  revert n a. induction f as [|f IH]; intros n a H; cbn [bits_lsb]; [cbn [length]; lia|].
  destruct (N.eqb_spec a 0) as [->|Hn]; [cbn [length]; lia|].
  destruct n as [|n]; [change (2 ^ N.of_nat 0) with 1 in H; lia|].
  cbn [length]. apply le_n_S. apply IH.
  rewrite Nat2N.inj_succ, N.pow_succ_r' in H. lia.
Qed.

Lemma bits_lsb_nil f a : bits_lsb (S f) a = [] -> a = 0.
Proof. cbn [bits_lsb]. destruct (N.eqb_spec a 0); [auto|discriminate]. Qed.

(* ------------------------------------------------------------------ one byte: sweep over the bit lists of length <= 8 *)
Fixpoint bl_upto (n : nat) : list (list bool) :=
  match n with
  | O => [[]]
  | S k => [] :: map (cons true) (bl_upto k) ++ map (cons false) (bl_upto k)
  end.

Lemma bl_upto_in n bs : (length bs <= n)%nat -> In bs (bl_upto n).
Proof.
  revert bs. induction n as [|n IH]; intros [|b r] H; cbn [bl_upto length] in *;
    try (left; reflexivity); [lia|].
  right. apply in_or_app. destruct b; [left|right]; apply in_map; apply IH; lia.
Qed.

Lemma byte_rt1 bs : (length bs <= 8)%nat -> unpack_byte (length bs) (pack_byte 128 bs) 1 = bval bs 1.
Proof.
  intros H.
  assert (S : forallb (fun bs => unpack_byte (length bs) (pack_byte 128 bs) 1 =? bval bs 1) (bl_upto 8) = true)
    by (vm_compute; reflexivity).
  rewrite forallb_forall in S. apply N.eqb_eq, S, bl_upto_in, H.
Qed.

Lemma unpack_byte_scale k c w : unpack_byte k c w = w * unpack_byte k c 1.
Proof.
  revert c w. induction k as [|k IH]; intros c w; cbn [unpack_byte]; [lia|].
  rewrite (IH _ (w * 2)), (IH _ (1 * 2)). destruct (hibit c); lia.
Qed.

Lemma byte_rt bs w : (length bs <= 8)%nat -> unpack_byte (length bs) (pack_byte 128 bs) w = bval bs w.
Proof. intros H. rewrite unpack_byte_scale, (bval_scale bs w), byte_rt1 by exact H. reflexivity. Qed.

(* ------------------------------------------------------------------ the groups of eight *)
Lemma pack_bits_cons f bl :
  bl <> [] -> pack_bits (S f) bl = pack_byte 128 (firstn 8 bl) :: pack_bits f (skipn 8 bl).
Proof. destruct bl; [congruence|reflexivity]. Qed.

Lemma pack_bits_len f : forall bl, (length bl <= 8 * f)%nat -> len (pack_bits f bl) = (len bl + 7) / 8.
Proof.
  induction f as [|f IH]; intros bl H.
  - destruct bl; [reflexivity|cbn [length] in H; lia].
  - destruct bl as [|b0 bl0]; [reflexivity|].
    rewrite pack_bits_cons by discriminate. rewrite len_cons, IH by (rewrite skipn_length; lia).
    unfold len. rewrite skipn_length. cbn [length]. lia.
Qed.

Lemma unpack_pack f : forall bl w,
  (length bl <= 8 * f)%nat -> unpack_bits f (pack_bits f bl) (len bl) w = Ok (bval bl w).
Proof.
  induction f as [|f IH]; intros bl w H.
  - destruct bl; [reflexivity|cbn [length] in H; lia].
  - destruct bl as [|b0 bl0]; [reflexivity|].
    rewrite pack_bits_cons by discriminate.
    remember (b0 :: bl0) as bl eqn:Ebl.
    assert (Hne : len bl <> 0) by (subst bl; rewrite len_cons; lia).
    cbn [unpack_bits]. destruct (N.eqb_spec (len bl) 0); [contradiction|].
    assert (Ek : N.min (len bl) 8 = len (firstn 8 bl)) by (unfold len; rewrite firstn_length; lia).
    assert (Es : len bl - N.min (len bl) 8 = len (skipn 8 bl)) by (unfold len; rewrite skipn_length; lia).
    rewrite Es, IH by (rewrite skipn_length; lia).
    rewrite Ek. unfold len at 1. rewrite Nat2N.id, byte_rt by (rewrite firstn_length; lia).
    f_equal. transitivity (bval (firstn 8 bl ++ skipn 8 bl) w); [rewrite bval_app; reflexivity|rewrite firstn_skipn; reflexivity].
Qed.

(* ------------------------------------------------------------------ BIT STRING with a longer source buffer *)
Lemma bit_string_to_der_take tag b nbits :
  (nbits + 7) / 8 <= len b ->
  bit_string_to_der tag (Some b) nbits = bit_string_to_der tag (Some (takeN ((nbits + 7) / 8) b)) nbits.
Proof.
  intros H. unfold bit_string_to_der. rewrite len_takeN by exact H.
  destruct (N.ltb_spec (len b) ((nbits + 7) / 8)); [lia|].
  destruct (N.ltb_spec ((nbits + 7) / 8) ((nbits + 7) / 8)); [lia|].
  unfold takeN. rewrite firstn_firstn, Nat.min_id. reflexivity.
Qed.

Theorem bit_string_roundtrip_take tag b nbits e rest :
  (nbits + 7) / 8 <= len b -> (nbits + 7) / 8 + 1 <= INT_MAX ->
  bit_string_to_der tag (Some b) nbits = Ok e ->
  bit_string_from_der Fixed tag (e ++ rest) = Ok (takeN ((nbits + 7) / 8) b, nbits, rest).
Proof.
  intros Hb HM H. rewrite bit_string_to_der_take in H by exact Hb.
  apply bit_string_roundtrip; [rewrite len_takeN by exact Hb; reflexivity|rewrite len_takeN by exact Hb; exact HM|exact H].
Qed.

(* ------------------------------------------------------------------ what the encoder hands to the BIT STRING layer *)
Definition enc_nbits (a : N) : N :=
  let bl := bits_lsb 32 a in if len bl =? 0 then 1 else len bl.
Definition enc_buf (a : N) : list N :=
  let bl := bits_lsb 32 a in pack_bits 4 bl ++ zeros (4 - length (pack_bits 4 bl)).

Lemma bits_to_der_eq tag v :
  (0 <= v)%Z -> bits_to_der tag v = bit_string_to_der tag (Some (enc_buf (Z.to_N v))) (enc_nbits (Z.to_N v)).
Proof. intros H. unfold bits_to_der. destruct (Z.ltb_spec v 0); [lia|]. reflexivity. Qed.

Lemma enc_core a :
  a < 2147483648 ->
  enc_nbits a <= 31 /\ (enc_nbits a + 7) / 8 <= len (enc_buf a) /\
  unpack_bits 4 (takeN ((enc_nbits a + 7) / 8) (enc_buf a)) (enc_nbits a) 1 = Ok a.
Proof.
  intros Ha. change 2147483648 with (2 ^ N.of_nat 31) in Ha.
  pose proof (bits_lsb_len 32 31 a Ha) as HL.
  assert (HV : bval (bits_lsb 32 a) 1 = a).
  { rewrite bits_lsb_val; [lia|]. eapply N.lt_trans; [exact Ha|]. vm_compute. reflexivity. }
  unfold enc_nbits, enc_buf. cbv zeta.
  destruct (bits_lsb 32 a) as [|b0 bl0] eqn:Ebl.
  - apply bits_lsb_nil in Ebl. subst a. vm_compute. repeat split; discriminate.
  - rewrite <- Ebl in *. remember (bits_lsb 32 a) as bl eqn:Eb.
    assert (Hne : len bl <> 0) by (rewrite Ebl, len_cons; lia).
    destruct (N.eqb_spec (len bl) 0); [contradiction|].
    assert (HL8 : (length bl <= 8 * 4)%nat) by lia.
    pose proof (pack_bits_len 4 bl HL8) as HP.
    split; [unfold len; lia|]. split; [rewrite len_app, HP; lia|].
    rewrite <- HP, takeN_app, unpack_pack by exact HL8. rewrite HV. reflexivity.
Qed.

(* ------------------------------------------------------------------ theorems *)
Theorem bits_roundtrip tag (v : Z) e rest :
  (0 <= v < 2 ^ 31)%Z -> bits_to_der tag v = Ok e ->
  bits_from_der Fixed tag (e ++ rest) = Ok (Z.to_N v, rest).
Proof.
  intros Hv H. change (2 ^ 31)%Z with 2147483648%Z in Hv.
  rewrite bits_to_der_eq in H by lia.
  destruct (enc_core (Z.to_N v) ltac:(lia)) as (H31 & Hlen & HU).
  apply (bit_string_roundtrip_take tag _ _ e rest Hlen) in H; [|unfold INT_MAX; lia].
  unfold bits_from_der. rewrite H.
  destruct (N.ltb_spec 31 (enc_nbits (Z.to_N v))); [lia|].
  rewrite HU. reflexivity.
Qed.

Theorem bits_dry tag v e : (0 <= v)%Z -> bits_to_der tag v = Ok e -> bits_size v = len e.
Proof.
  intros Hv H. rewrite bits_to_der_eq in H by exact Hv.
  apply bit_string_dry in H. rewrite <- H.
  unfold bits_size. destruct (Z.ltb_spec v 0); [lia|]. reflexivity.
Qed.

(* ------------------------------------------------------------------ range of the decoded value *)
Lemma unpack_byte_bound k c w : unpack_byte k c w + w <= w * 2 ^ N.of_nat k.
Proof.
  revert c w. induction k as [|k IH]; intros c w; cbn [unpack_byte].
  - change (2 ^ N.of_nat 0) with 1. lia.
  - rewrite Nat2N.inj_succ, N.pow_succ_r'.
    pose proof (IH ((c * 2) mod 256) (w * 2)) as B.
    replace (w * 2 * 2 ^ N.of_nat k) with (w * (2 * 2 ^ N.of_nat k)) in B by lia.
    destruct (hibit c); lia.
Qed.

Lemma unpack_bits_bound f : forall p nbits w v,
  unpack_bits f p nbits w = Ok v -> v + w <= w * 2 ^ nbits.
Proof.
  induction f as [|f IH]; intros p nbits w v; cbn [unpack_bits].
  - destruct (N.eqb_spec nbits 0) as [->|]; [|discriminate].
    intros H; injection H as <-. change (2 ^ 0) with 1. lia.
  - destruct (N.eqb_spec nbits 0) as [->|Hn].
    { intros H; injection H as <-. change (2 ^ 0) with 1. lia. }
    destruct p as [|c r]; [discriminate|].
    destruct (unpack_bits f r (nbits - N.min nbits 8) (w * 2 ^ N.min nbits 8)) as [v'| | |] eqn:E; try discriminate.
    intros H; injection H as <-.
    apply IH in E.
    pose proof (unpack_byte_bound (N.to_nat (N.min nbits 8)) c w) as B. rewrite N2Nat.id in B.
    replace (w * 2 ^ N.min nbits 8 * 2 ^ (nbits - N.min nbits 8)) with (w * 2 ^ nbits) in E.
    + lia.
    + rewrite <- N.mul_assoc, <- N.pow_add_r. f_equal. f_equal. lia.
Qed.

Theorem bits_from_der_range tag inp v rest :
  bits_from_der Fixed tag inp = Ok (v, rest) -> v < 2 ^ 31.
Proof.
  unfold bits_from_der.
  destruct (bit_string_from_der Fixed tag inp) as [[[p nbits] r]| | |]; try discriminate.
  destruct (N.ltb_spec 31 nbits); [discriminate|].
  destruct (unpack_bits 4 p nbits 1) as [v'| | |] eqn:E; try discriminate.
  intros HH; injection HH as <- <-.
  apply unpack_bits_bound in E.
  assert (2 ^ nbits <= 2 ^ 31) by (apply N.pow_le_mono_r; lia).
  lia.
Qed.

(* canonicity does not hold: trailing zero bits are accepted (03 02 06 00 and the encoder's 03 02 07 00 both give 0) *)
Example bits_not_canonical :
  bits_to_der 3 0 = Ok [3; 2; 7; 0] /\ bits_from_der Fixed 3 [3; 2; 7; 0] = Ok (0, [])
  /\ bits_from_der Fixed 3 [3; 2; 6; 0] = Ok (0, []).
Proof. repeat split. Qed.
