(* Proofs about the base64 model (Codec/Base64.v, src/base64.c):
   1. the two tables are inverse on the 64 digits;
   2. block round trip  decode_block (encode_block bs) = bs ++ padding zeros;
   3. the line encoder does not depend on how the input is cut into update calls, shape of the text;
   4. stream round trip for EVERY cut of the text into base64_decode_update calls;
   5. output capacities of every function, the only Fault of decode_block;
   6. refusals: character outside the alphabet, data after '=', more than two '='. *)
From GmVerif Require Import Base.ListX Base.Bytes Codec.Der Codec.DerProofs Codec.Base64.
From Coq Require Import ZifyN ZifyNat ZifyBool.
Ltac Zify.zify_post_hook ::= Z.div_mod_to_equations.
Local Open Scope N_scope.

(* ------------------------------------------------------------------ 1. tables *)
Definition okc (c : N) : bool := ascii2bin c <? 64.           (* 64 digits and '=' *)
Definition digc (c : N) : bool := okc c && negb (c =? 61).     (* the 64 digits *)

Lemma tab_sweep v : v < 64 ->
  ascii2bin (bin2ascii v) = v /\ bin2ascii v < 128 /\ bin2ascii v <> 61 /\ bin2ascii v <> 10
  /\ is_base64 (ascii2bin (bin2ascii v)) = true /\ digc (bin2ascii v) = true.
Proof.
  intros H.
  pose proof (sweep_lt (fun v => (ascii2bin (bin2ascii v) =? v) && (bin2ascii v <? 128)
     && negb (bin2ascii v =? 61) && negb (bin2ascii v =? 10)
     && is_base64 (ascii2bin (bin2ascii v)) && digc (bin2ascii v)) 64 eq_refl v H) as E.
  repeat (apply andb_true_iff in E; destruct E as [E ?]).
  repeat match goal with
         | h : negb _ = true |- _ => apply negb_true_iff in h
         | h : (_ =? _) = true |- _ => apply N.eqb_eq in h
         | h : (_ =? _) = false |- _ => apply N.eqb_neq in h
         | h : (_ <? _) = true |- _ => apply N.ltb_lt in h
         end.
  repeat split; assumption.
Qed.

Theorem ascii2bin_bin2ascii v : v < 64 -> ascii2bin (bin2ascii v) = v.
Proof. intros H; apply (tab_sweep v H). Qed.
Theorem bin2ascii_is_base64 v : v < 64 ->
  is_base64 (ascii2bin (bin2ascii v)) = true /\ bin2ascii v < 128 /\ bin2ascii v <> 61 /\ bin2ascii v <> 10.
Proof. intros H; pose proof (tab_sweep v H); tauto. Qed.

Lemma bin2ascii_mod v : bin2ascii v = bin2ascii (v mod 64).
Proof. unfold bin2ascii. rewrite N.mod_mod by lia. reflexivity. Qed.
Lemma ascii2bin_bin2ascii_mod v : ascii2bin (bin2ascii v) = v mod 64.
Proof. rewrite bin2ascii_mod. apply ascii2bin_bin2ascii. apply N.mod_lt. lia. Qed.
Lemma digc_bin2ascii v : digc (bin2ascii v) = true.
Proof. rewrite bin2ascii_mod. apply tab_sweep. apply N.mod_lt. lia. Qed.

Lemma digc_okc c : digc c = true -> okc c = true.
Proof. unfold digc. intros H. apply andb_true_iff in H. tauto. Qed.
Lemma okc_61 : okc 61 = true. Proof. reflexivity. Qed.

(* facts about a table value below 64 *)
Lemma val_sweep v : v < 64 ->
  N.land v 128 = 0 /\ not_base64 v = false /\ is_base64 v = true /\ v <> B64_ERROR /\ v <> B64_EOF /\ v <> B64_WS.
Proof.
  intros H.
  pose proof (sweep_lt (fun v => (N.land v 128 =? 0) && negb (not_base64 v)) 64 eq_refl v H) as E.
  apply andb_true_iff in E. destruct E as [E1 E2]. apply N.eqb_eq in E1. apply negb_true_iff in E2.
  unfold is_base64, B64_ERROR, B64_EOF, B64_WS. rewrite E2. repeat split; try assumption; try reflexivity; lia.
Qed.

Lemma okc_lt c : okc c = true -> ascii2bin c < 64.
Proof. unfold okc. intros H. apply N.ltb_lt in H. exact H. Qed.

Lemma ascii2bin_big c : 128 <= c -> ascii2bin c = 255.
Proof.
  intros H. unfold ascii2bin. destruct (negb (N.land c 128 =? 0)); [reflexivity|].
  apply nth_overflow. change (length ascii2bin_tab) with 128%nat. lia.
Qed.
Lemma okc_small c : okc c = true -> c < 128.
Proof.
  intros H. destruct (N.lt_ge_cases c 128) as [L|L]; [exact L|].
  apply okc_lt in H. rewrite ascii2bin_big in H by exact L. lia.
Qed.
Lemma okc_not10 c : okc c = true -> c <> 10.
Proof. intros H ->. discriminate H. Qed.

(* ------------------------------------------------------------------ 2. blocks *)
Lemma sext_merge l : l < 16777216 ->
  ((l / 262144) mod 64) * 262144 + ((l / 4096) mod 64) * 4096 + ((l / 64) mod 64) * 64 + l mod 64 = l.
Proof.
  intros H.
  replace (l / 262144) with (l / 64 / 64 / 64) by (rewrite !N.div_div by lia; reflexivity).
  replace (l / 4096) with (l / 64 / 64) by (rewrite !N.div_div by lia; reflexivity).
  lia.
Qed.
Lemma bytes_split a b c : a < 256 -> b < 256 -> c < 256 ->
  let l := a * 65536 + b * 256 + c in
  (l / 65536) mod 256 = a /\ (l / 256) mod 256 = b /\ l mod 256 = c.
Proof. intros. subst l. repeat split; lia. Qed.

(* induction in steps of three and four *)
Lemma list_ind3 {A} (P : list A -> Prop) :
  P [] -> (forall a, P [a]) -> (forall a b, P [a; b]) ->
  (forall a b c r, P r -> P (a :: b :: c :: r)) -> forall l, P l.
Proof.
  intros H0 H1 H2 H3.
  assert (G : forall l, P l /\ (forall a, P (a :: l)) /\ (forall a b, P (a :: b :: l))).
  { induction l as [|x l [I0 [I1 I2]]]; [auto|]. repeat split; auto. }
  intros l. apply G.
Qed.
Lemma list_ind4 {A} (P : list A -> Prop) :
  P [] -> (forall a, P [a]) -> (forall a b, P [a; b]) -> (forall a b c, P [a; b; c]) ->
  (forall a b c d r, P r -> P (a :: b :: c :: d :: r)) -> forall l, P l.
Proof.
  intros H0 H1 H2 H3 H4.
  assert (G : forall l, P l /\ (forall a, P (a :: l)) /\ (forall a b, P (a :: b :: l))
                        /\ (forall a b c, P (a :: b :: c :: l))).
  { induction l as [|x l [I0 [I1 [I2 I3]]]]; [auto|]. repeat split; auto. }
  intros l. apply G.
Qed.

(* the group decoder without its error test *)
Fixpoint b64_dg (f : list N) : list N :=
  match f with
  | a :: b :: c :: d :: r =>
      let l := ascii2bin a * 262144 + ascii2bin b * 4096 + ascii2bin c * 64 + ascii2bin d in
      (l / 65536) mod 256 :: (l / 256) mod 256 :: l mod 256 :: b64_dg r
  | _ => []
  end.

Definition okcs (f : list N) : Prop := Forall (fun c => okc c = true) f.

Lemma decode_groups_dg f : okcs f -> decode_groups f = Some (b64_dg f).
Proof.
  induction f as [| | | |a b c d r IH] using list_ind4; intros H; try reflexivity.
  inversion H as [|? ? Ha H1]; subst. inversion H1 as [|? ? Hb H2]; subst.
  inversion H2 as [|? ? Hc H3]; subst. inversion H3 as [|? ? Hd H4]; subst.
  cbn [decode_groups b64_dg].
  destruct (val_sweep _ (okc_lt _ Ha)) as [-> _]. destruct (val_sweep _ (okc_lt _ Hb)) as [-> _].
  destruct (val_sweep _ (okc_lt _ Hc)) as [-> _]. destruct (val_sweep _ (okc_lt _ Hd)) as [-> _].
  cbn [N.eqb negb orb]. rewrite (IH H4). reflexivity.
Qed.

Lemma decode_groups_len f o : decode_groups f = Some o -> len o = 3 * (len f / 4).
Proof.
  revert o. induction f as [| | | |a b c d r IH] using list_ind4; intros o H;
    try (injection H as <-; reflexivity).
  cbn [decode_groups] in H.
  destruct (_ || _) in H; [discriminate|].
  destruct (decode_groups r) as [o'|]; [|discriminate].
  injection H as <-. rewrite !len_cons. rewrite (IH o' eq_refl). lia.
Qed.

Lemma dg_len f : len (b64_dg f) = 3 * (len f / 4).
Proof.
  induction f as [| | | |a b c d r IH] using list_ind4; try reflexivity.
  cbn [b64_dg]. rewrite !len_cons, IH. lia.
Qed.

Lemma dg_app a b : len a mod 4 = 0 -> b64_dg (a ++ b) = b64_dg a ++ b64_dg b.
Proof.
  induction a as [| | | |x y z w r IH] using list_ind4; intros H;
    try reflexivity; try (rewrite ?len_cons, len_nil in H; cbn in H; discriminate H).
  cbn [app b64_dg]. rewrite IH; [reflexivity|]. rewrite !len_cons in H. lia.
Qed.

Definition padk (n : nat) : nat := ((3 - n mod 3) mod 3)%nat.
Fixpoint count61 (f : list N) : N :=
  match f with [] => 0 | c :: r => (if c =? 61 then 1 else 0) + count61 r end.

Lemma dg4 a b c d r :
  b64_dg (a :: b :: c :: d :: r) =
  (let l := ascii2bin a * 262144 + ascii2bin b * 4096 + ascii2bin c * 64 + ascii2bin d in
   (l / 65536) mod 256 :: (l / 256) mod 256 :: l mod 256 :: b64_dg r).
Proof. reflexivity. Qed.

Lemma group_roundtrip a b c : a < 256 -> b < 256 -> c < 256 ->
  let l := a * 65536 + b * 256 + c in
  forall r, b64_dg (bin2ascii (l / 262144) :: bin2ascii (l / 4096) :: bin2ascii (l / 64) :: bin2ascii l :: r)
            = a :: b :: c :: b64_dg r.
Proof.
  intros Ha Hb Hc l r. rewrite dg4. cbv zeta. rewrite !ascii2bin_bin2ascii_mod.
  rewrite sext_merge by (subst l; lia). subst l.
  destruct (bytes_split a b c Ha Hb Hc) as [-> [-> ->]]. reflexivity.
Qed.

Lemma padk3 n : padk (S (S (S n))) = padk n.
Proof. unfold padk. replace (S (S (S n)) mod 3)%nat with (n mod 3)%nat; [reflexivity|]. lia. Qed.

Lemma encode_block3 a b c r :
  encode_block (a :: b :: c :: r) =
  (let l := a * 65536 + b * 256 + c in
   bin2ascii (l / 262144) :: bin2ascii (l / 4096) :: bin2ascii (l / 64) :: bin2ascii l :: encode_block r).
Proof. reflexivity. Qed.

Lemma bin2ascii_0 v : v mod 64 = 0 -> ascii2bin (bin2ascii v) = ascii2bin 61.
Proof. intros H. rewrite ascii2bin_bin2ascii_mod, H. reflexivity. Qed.

Theorem dg_encode_block bs : bytes_okP bs -> b64_dg (encode_block bs) = bs ++ zeros (padk (length bs)).
Proof.
  induction bs as [|a|a b|a b c r IH] using list_ind3; intros H.
  - reflexivity.
  - inversion H as [|? ? Ha _]; subst.
    pose proof (group_roundtrip a 0 0 Ha ltac:(lia) ltac:(lia) []) as G. cbv zeta in G.
    rewrite !N.mul_0_l, !N.add_0_r in G.
    cbn [encode_block]. rewrite dg4 in G |- *. cbv zeta in G |- *.
    rewrite (bin2ascii_0 (a * 65536 / 64)), (bin2ascii_0 (a * 65536)) in G by lia. exact G.
  - inversion H as [|? ? Ha H1]; subst. inversion H1 as [|? ? Hb _]; subst.
    pose proof (group_roundtrip a b 0 Ha Hb ltac:(lia) []) as G. cbv zeta in G.
    rewrite !N.add_0_r in G.
    cbn [encode_block]. rewrite dg4 in G |- *. cbv zeta in G |- *.
    rewrite (bin2ascii_0 (a * 65536 + b * 256)) in G by lia. exact G.
  - inversion H as [|? ? Ha H1]; subst. inversion H1 as [|? ? Hb H2]; subst.
    inversion H2 as [|? ? Hc H3]; subst.
    rewrite encode_block3. cbv zeta. rewrite (group_roundtrip a b c Ha Hb Hc).
    rewrite (IH H3). cbn [length]. rewrite padk3. reflexivity.
Qed.

Theorem encode_block_len bs : len (encode_block bs) = 4 * ((len bs + 2) / 3).
Proof.
  induction bs as [|a|a b|a b c r IH] using list_ind3; try reflexivity.
  rewrite encode_block3. cbv zeta. rewrite !len_cons, IH. lia.
Qed.

Lemma encode_block_okcs bs : okcs (encode_block bs).
Proof.
  induction bs as [|a|a b|a b c r IH] using list_ind3.
  - constructor.
  - cbn [encode_block]. repeat constructor; try apply digc_okc, digc_bin2ascii.
  - cbn [encode_block]. repeat constructor; try apply digc_okc, digc_bin2ascii.
  - rewrite encode_block3. cbv zeta. repeat (constructor; [apply digc_okc, digc_bin2ascii|]). exact IH.
Qed.

Lemma encode_block_app a b : (length a mod 3 = 0)%nat -> encode_block (a ++ b) = encode_block a ++ encode_block b.
Proof.
  induction a as [|x|x y|x y z r IH] using list_ind3; intros H; try reflexivity; try discriminate H.
  cbn [app]. rewrite !encode_block3. cbv zeta. rewrite IH; [reflexivity|].
  cbn [length] in H. lia.
Qed.

(* the trimming of decode_block does nothing on a buffer of digits and '=' *)
Lemma decode_block_okcs buf : okcs buf -> buf <> [] -> len buf mod 4 = 0 ->
  decode_block buf (len buf) = Ok (b64_dg buf).
Proof.
  intros H Hne Hm. unfold decode_block.
  destruct buf as [|c r]; [congruence|].
  assert (E1 : trim_ws (S (N.to_nat (len (c :: r)))) (c :: r) (len (c :: r)) = Ok (c :: r, len (c :: r))).
  { cbn [trim_ws]. inversion H as [|? ? Hc _]; subst.
    destruct (val_sweep _ (okc_lt _ Hc)) as (_ & _ & _ & _ & _ & W).
    apply N.eqb_neq in W. unfold B64_WS in *. rewrite W. reflexivity. }
  rewrite E1. clear E1.
  assert (E2 : trim_tail (N.to_nat (len (c :: r))) (c :: r) (len (c :: r)) = len (c :: r)).
  { remember (c :: r) as buf eqn:Eb.
    assert (L : (0 < length buf)%nat) by (subst buf; cbn [length]; lia).
    unfold len at 1. rewrite Nat2N.id. destruct (length buf) as [|k] eqn:El; [lia|].
    cbn [trim_tail].
    assert (Hl : okc (nth (N.to_nat (len buf - 1)) buf 0) = true).
    { unfold okcs in H. rewrite Forall_forall in H. apply H. apply nth_In. unfold len. lia. }
    destruct (val_sweep _ (okc_lt _ Hl)) as (_ & -> & _). rewrite andb_false_r. reflexivity. }
  rewrite E2. rewrite Hm. cbn [N.eqb negb]. rewrite takeN_all. rewrite (decode_groups_dg _ H). reflexivity.
Qed.

Theorem block_roundtrip bs : bytes_okP bs -> bs <> [] ->
  decode_block (encode_block bs) (len (encode_block bs)) = Ok (bs ++ zeros (padk (length bs))).
Proof.
  intros H Hne. rewrite decode_block_okcs.
  - rewrite dg_encode_block by exact H. reflexivity.
  - apply encode_block_okcs.
  - intros E. apply (f_equal len) in E. rewrite encode_block_len, len_nil in E.
    destruct bs; [congruence|]. rewrite len_cons in E. lia.
  - rewrite encode_block_len. lia.
Qed.
Theorem groups_roundtrip bs : bytes_okP bs ->
  decode_groups (encode_block bs) = Some (bs ++ zeros (padk (length bs))).
Proof. intros H. rewrite decode_groups_dg by apply encode_block_okcs. rewrite dg_encode_block by exact H. reflexivity. Qed.
Example block_empty_faults : decode_block (encode_block []) 0 = Fault.
Proof. reflexivity. Qed.

(* ------------------------------------------------------------------ 3. the line encoder *)
Lemma takeN_app_le {A} n (a b : list A) : n <= len a -> takeN n (a ++ b) = takeN n a.
Proof.
  intros H. unfold takeN, len in *. rewrite firstn_app.
  replace (N.to_nat n - length a)%nat with 0%nat by lia. cbn [firstn]. apply app_nil_r.
Qed.
Lemma dropN_app_le {A} n (a b : list A) : n <= len a -> dropN n (a ++ b) = dropN n a ++ b.
Proof.
  intros H. unfold dropN, len in *. rewrite skipn_app.
  replace (N.to_nat n - length a)%nat with 0%nat by lia. reflexivity.
Qed.
Lemma takeN_short {A} n (a : list A) : len a <= n -> takeN n a = a.
Proof. intros H. unfold takeN, len in *. apply firstn_all2. lia. Qed.
Lemma dropN_short {A} n (a : list A) : len a <= n -> dropN n a = [].
Proof. intros H. unfold dropN, len in *. apply skipn_all2. lia. Qed.

Definition enc_line (l : list N) : list N := encode_block l ++ [10].
Fixpoint split48 (fuel : nat) (bs : list N) : list (list N) :=
  match fuel with
  | O => []
  | S k => if len bs =? 0 then [] else takeN 48 bs :: split48 k (dropN 48 bs)
  end.
(* the canonical text: one line per 48 input bytes, the last one possibly shorter *)
Definition b64_canon (bs : list N) : list N := concat (map enc_line (split48 (length bs) bs)).

Lemma split48_fuel fuel : forall fuel' bs, (length bs <= fuel)%nat -> (length bs <= fuel')%nat ->
  split48 fuel bs = split48 fuel' bs.
Proof.
  induction fuel as [|k IH]; intros fuel' bs H H'.
  - destruct bs; [|cbn [length] in H; lia]. destruct fuel'; reflexivity.
  - destruct fuel' as [|k'].
    + destruct bs; [|cbn [length] in H'; lia]. reflexivity.
    + cbn [split48]. destruct (len bs =? 0) eqn:E; [reflexivity|]. apply N.eqb_neq in E.
      f_equal. apply IH; unfold dropN; rewrite skipn_length; unfold len in E; lia.
Qed.

Lemma canon_nil : b64_canon [] = [].
Proof. reflexivity. Qed.
Lemma canon_step bs : bs <> [] ->
  b64_canon bs = encode_block (takeN 48 bs) ++ [10] ++ b64_canon (dropN 48 bs).
Proof.
  intros H. unfold b64_canon. destruct bs as [|x r] eqn:E; [congruence|]. rewrite <- E.
  assert (L : (length bs = S (length r))%nat) by (subst bs; reflexivity).
  rewrite L. cbn [split48].
  assert (E0 : (len bs =? 0) = false) by (apply N.eqb_neq; unfold len; lia).
  rewrite E0. cbn [map concat]. unfold enc_line at 1. rewrite <- app_assoc.
  rewrite (split48_fuel (length r) (length (dropN 48 bs))); [reflexivity| |lia].
  unfold dropN. rewrite skipn_length. lia.
Qed.
Lemma canon_48 X Y : len X = 48 -> b64_canon (X ++ Y) = encode_block X ++ [10] ++ b64_canon Y.
Proof.
  intros H. rewrite canon_step.
  - rewrite <- H. rewrite takeN_app, dropN_app. reflexivity.
  - intros E. apply (f_equal len) in E. rewrite len_app, len_nil in E. lia.
Qed.
Lemma canon_short X : X <> [] -> len X <= 48 -> b64_canon X = encode_block X ++ [10].
Proof.
  intros Hne H. rewrite canon_step by exact Hne.
  rewrite takeN_short, dropN_short by exact H. reflexivity.
Qed.

Lemma enc_lines_spec fuel : forall inp more o r, (length inp <= fuel)%nat -> enc_lines fuel inp = (o, r) ->
  b64_canon (inp ++ more) = o ++ b64_canon (r ++ more) /\ len r = len inp mod 48 /\ len o = 65 * (len inp / 48).
Proof.
  induction fuel as [|k IH]; intros inp more o r Hf E.
  - destruct inp; [|cbn [length] in Hf; lia]. cbn [enc_lines] in E. injection E as <- <-.
    repeat split.
  - cbn [enc_lines] in E. destruct (N.leb_spec 48 (len inp)) as [L|L].
    + destruct (enc_lines k (dropN 48 inp)) as [o' r'] eqn:E'. injection E as <- <-.
      assert (Hk : (length (dropN 48 inp) <= k)%nat).
      { unfold dropN. rewrite skipn_length. unfold len in L. lia. }
      destruct (IH _ more _ _ Hk E') as (I1 & I2 & I3).
      rewrite <- (take_drop 48 inp) at 1. rewrite <- app_assoc.
      rewrite canon_48 by (apply len_takeN; lia). rewrite I1.
      rewrite I2, len_dropN. rewrite !len_app, len_cons, I3, encode_block_len, len_dropN.
      rewrite (len_takeN 48 inp) by lia.
      split; [rewrite <- !app_assoc; reflexivity|]. split; lia.
    + injection E as <- <-. repeat split; try lia. rewrite len_nil. lia.
Qed.

Lemma encode_finish_canon buf : len buf < 48 -> encode_finish buf = b64_canon buf.
Proof.
  intros H. unfold encode_finish. destruct (N.eqb_spec (len buf) 0) as [E|E].
  - apply len_0 in E. subst. reflexivity.
  - rewrite canon_short; [reflexivity| |lia]. intros ->. apply E. reflexivity.
Qed.

(* one call of base64_encode_update *)
Lemma encode_update_spec buf inp rv buf' o : len buf < 48 -> encode_update buf inp = (rv, buf', o) ->
  len buf' < 48 /\ (forall more, b64_canon (buf ++ inp ++ more) = o ++ b64_canon (buf' ++ more))
  /\ len o = 65 * ((len buf + len inp) / 48) /\ len buf' = (len buf + len inp) mod 48.
Proof.
  intros Hb E. unfold encode_update in E.
  destruct (N.eqb_spec (len inp) 0) as [E0|E0].
  { injection E as <- <- <-. apply len_0 in E0. subst inp. rewrite !len_nil.
    split; [lia|]. split; [reflexivity|]. split; lia. }
  destruct (N.ltb_spec (len inp) (48 - len buf)) as [L|L].
  { injection E as <- <- <-. rewrite len_app, len_nil. split; [lia|]. split; [|split; lia].
    intros more. rewrite <- app_assoc. reflexivity. }
  destruct (N.eqb_spec (len buf) 0) as [Eb|Eb]; cbn [negb] in E.
  - apply len_0 in Eb. subst buf. rewrite len_nil in *.
    destruct (enc_lines (length inp) inp) as [o2 rest] eqn:E2. injection E as <- <- <-.
    assert (S2 := fun more => enc_lines_spec _ inp more o2 rest (le_n _) E2).
    destruct (S2 []) as (_ & I2 & I3).
    split; [rewrite I2; lia|]. split; [|split].
    + intros more. cbn [app]. apply S2.
    + cbn [app]. rewrite I3. f_equal.
    + rewrite I2. f_equal.
  - set (i := 48 - len buf) in *.
    destruct (enc_lines (length (dropN i inp)) (dropN i inp)) as [o2 rest] eqn:E2.
    injection E as <- <- <-.
    assert (S2 := fun more => enc_lines_spec _ (dropN i inp) more o2 rest (le_n _) E2).
    destruct (S2 []) as (_ & I2 & I3). rewrite len_dropN in I2, I3.
    assert (L48 : len (buf ++ takeN i inp) = 48).
    { rewrite len_app, len_takeN by lia. lia. }
    split; [lia|]. split; [|split].
    + intros more. rewrite <- (take_drop i inp) at 1.
      replace (buf ++ (takeN i inp ++ dropN i inp) ++ more)
        with ((buf ++ takeN i inp) ++ (dropN i inp ++ more)) by (rewrite <- !app_assoc; reflexivity).
      rewrite canon_48 by exact L48. destruct (S2 more) as (I1 & _). rewrite I1.
      rewrite <- !app_assoc. reflexivity.
    + rewrite !len_app, encode_block_len, L48, I3. rewrite len_cons, len_nil. lia.
    + lia.
Qed.

Theorem encode_chunks_canon chunks : forall buf, len buf < 48 ->
  encode_chunks buf chunks = b64_canon (buf ++ concat chunks).
Proof.
  induction chunks as [|c r IH]; intros buf Hb.
  - cbn [encode_chunks concat]. rewrite app_nil_r. apply encode_finish_canon. exact Hb.
  - cbn [encode_chunks concat]. destruct (encode_update buf c) as [[rv buf'] o] eqn:E.
    destruct (encode_update_spec _ _ _ _ _ Hb E) as (Hb' & Hc & _).
    rewrite (IH _ Hb'). symmetry. apply Hc.
Qed.

Theorem encode_all_canon bs : encode_all bs = b64_canon bs.
Proof.
  unfold encode_all. rewrite encode_chunks_canon by (rewrite len_nil; lia).
  cbn [concat app]. rewrite app_nil_r. reflexivity.
Qed.

(* 3. the output does not depend on how the input is cut into update calls *)
Theorem encode_chunking_invariant chunks : encode_chunks [] chunks = encode_all (concat chunks).
Proof.
  rewrite encode_all_canon, encode_chunks_canon by (rewrite len_nil; lia). reflexivity.
Qed.

(* the shape of the text: one line of 64 characters and '\n' per 48 bytes, a shorter last line *)
Theorem encode_all_nil : encode_all [] = [].
Proof. reflexivity. Qed.
Theorem encode_all_step bs : bs <> [] ->
  encode_all bs = encode_block (takeN 48 bs) ++ [10] ++ encode_all (dropN 48 bs).
Proof. intros H. rewrite !encode_all_canon. apply canon_step. exact H. Qed.
Theorem encode_all_lines bs : encode_all bs = concat (map enc_line (split48 (length bs) bs)).
Proof. apply encode_all_canon. Qed.
Lemma split48_concat n : forall bs, (length bs <= n)%nat -> concat (split48 n bs) = bs.
Proof.
  induction n as [|n IH]; intros bs H.
  - destruct bs; [reflexivity|cbn [length] in H; lia].
  - cbn [split48]. destruct (N.eqb_spec (len bs) 0) as [E|E]; [apply len_0 in E; subst; reflexivity|].
    cbn [concat]. rewrite IH; [apply take_drop|]. unfold dropN. rewrite skipn_length. unfold len in E. lia.
Qed.
Lemma split48_bound n : forall bs, Forall (fun l => 0 < len l <= 48) (split48 n bs).
Proof.
  induction n as [|n IH]; intros bs; cbn [split48]; [constructor|].
  destruct (N.eqb_spec (len bs) 0) as [E|E]; [constructor|]. constructor; [|apply IH].
    destruct (N.le_gt_cases (len bs) 48) as [L|L]; [rewrite takeN_short by exact L; lia|].
  rewrite len_takeN by lia. lia.
Qed.
Theorem encode_all_len bs :
  len (encode_all bs) = 65 * (len bs / 48)
                        + (if len bs mod 48 =? 0 then 0 else 4 * ((len bs mod 48 + 2) / 3) + 1).
Proof.
  unfold encode_all. cbn [encode_chunks]. destruct (encode_update [] bs) as [[rv buf'] o] eqn:E.
  destruct (encode_update_spec _ _ _ _ _ ltac:(rewrite len_nil; lia) E) as (_ & _ & A & B).
  rewrite len_nil, N.add_0_l in A, B. rewrite len_app, A. f_equal.
  unfold encode_finish. rewrite B. destruct (len bs mod 48 =? 0); [reflexivity|].
  rewrite len_app, encode_block_len, B, len_cons, len_nil. reflexivity.
Qed.

(* ------------------------------------------------------------------ 4. the stream decoder *)
Definition b64_filt (t : list N) : list N := filter (fun c => negb (c =? 10)) t.
Definition b64_alph (t : list N) : Prop := Forall (fun c => c = 10 \/ okc c = true) t.

Lemma filt_nil : b64_filt [] = []. Proof. reflexivity. Qed.
Lemma filt_nl r : b64_filt (10 :: r) = b64_filt r. Proof. reflexivity. Qed.
Lemma filt_okc c r : okc c = true -> b64_filt (c :: r) = c :: b64_filt r.
Proof.
  intros H. unfold b64_filt. cbn [filter]. apply okc_not10 in H. apply N.eqb_neq in H. rewrite H. reflexivity.
Qed.
Lemma filt_app a b : b64_filt (a ++ b) = b64_filt a ++ b64_filt b.
Proof. apply filter_app. Qed.
Lemma filt_okcs a : okcs a -> b64_filt a = a.
Proof. induction 1 as [|c r Hc _ IH]; [reflexivity|]. rewrite filt_okc, IH by exact Hc. reflexivity. Qed.
Lemma okcs_alph a : okcs a -> b64_alph a.
Proof. unfold okcs, b64_alph. apply Forall_impl. intros; right; assumption. Qed.

(* well-formed character sequence: digits, then at most two '=' *)
Fixpoint b64_wf (W : list N) : Prop :=
  match W with
  | [] => True
  | c :: r => okc c = true /\ (c = 61 -> Forall (fun x => x = 61) r) /\ b64_wf r
  end.
Definition b64_good (W : list N) : Prop := b64_wf W /\ count61 W <= 2 /\ len W mod 4 = 0.

Lemma count61_app a b : count61 (a ++ b) = count61 a + count61 b.
Proof. induction a as [|x a IH]; [reflexivity|]. cbn [app count61]. rewrite IH. lia. Qed.
Lemma count61_all r : Forall (fun x => x = 61) r -> count61 r = len r.
Proof. induction 1 as [|x r Hx _ IH]; [reflexivity|]. subst x. cbn [count61]. rewrite len_cons, IH. reflexivity. Qed.
Lemma wf_app_r a b : b64_wf (a ++ b) -> b64_wf b.
Proof. induction a as [|x a IH]; [auto|]. cbn [app b64_wf]. intros (_ & _ & H). auto. Qed.
Lemma wf_app_l a b : b64_wf (a ++ b) -> b64_wf a.
Proof.
  induction a as [|x a IH]; [cbn; auto|]. cbn [app b64_wf]. intros (H1 & H2 & H3).
  split; [exact H1|]. split; [|auto]. intros E. apply H2 in E. apply Forall_app in E. tauto.
Qed.
Lemma wf_okcs a : b64_wf a -> okcs a.
Proof. induction a as [|x a IH]; [constructor|]. cbn [b64_wf]. intros (H1 & _ & H3). constructor; [exact H1|exact (IH H3)]. Qed.
Lemma wf_dig_before a c r : b64_wf (a ++ c :: r) -> c <> 61 -> count61 a = 0.
Proof.
  induction a as [|x a IH]; [reflexivity|]. cbn [app b64_wf count61]. intros (_ & H2 & H3) Hc.
  destruct (N.eqb_spec x 61) as [E|E].
  - apply H2 in E. apply Forall_app in E. destruct E as [_ E]. inversion E; subst. congruence.
  - rewrite (IH H3 Hc). reflexivity.
Qed.
Lemma wf_after_pad a r : b64_wf (a ++ r) -> 0 < count61 a -> count61 r = len r.
Proof.
  induction a as [|x a IH]; cbn [app b64_wf count61]; [lia|]. intros (_ & H2 & H3) Hc.
  destruct (N.eqb_spec x 61) as [E|E].
  - apply H2 in E. apply Forall_app in E. apply count61_all. tauto.
  - apply IH; [exact H3|lia].
Qed.

Lemma good_split a b : b64_good (a ++ b) -> len a mod 4 = 0 -> b64_good b /\ (count61 a = 0 \/ b = []).
Proof.
  intros (H1 & H2 & H3) Ha. rewrite count61_app in H2. rewrite len_app in H3.
  split.
  - split; [eapply wf_app_r; eassumption|]. split; lia.
  - destruct (N.eqb_spec (count61 a) 0) as [E|E]; [left; exact E|right].
    pose proof (wf_after_pad _ _ H1 ltac:(lia)) as P. apply len_0. lia.
Qed.
Lemma good_prefix a b : b64_good (a ++ b) -> len a mod 4 = 0 -> b64_good a.
Proof.
  intros (H1 & H2 & H3) Ha. rewrite count61_app in H2.
  split; [eapply wf_app_l; eassumption|]. split; lia.
Qed.
Lemma good_okcs a : b64_good a -> okcs a.
Proof. intros (H & _). apply wf_okcs. exact H. Qed.

(* what a flush of [X] contributes: the decoded groups without the bytes that stand for '=' *)
Definition dec_spec (X : list N) : list N := takeN (len (b64_dg X) - count61 X) (b64_dg X).

Lemma takeN_app_ge {A} (a b : list A) m : takeN (len a + m) (a ++ b) = a ++ takeN m b.
Proof.
  unfold takeN, len. replace (N.to_nat (N.of_nat (length a) + m)) with (length a + N.to_nat m)%nat by lia.
  apply firstn_app_2.
Qed.
Lemma dec_spec_nil : dec_spec [] = []. Proof. reflexivity. Qed.
Lemma good_pad_le b : b64_good b -> count61 b <= len (b64_dg b).
Proof.
  intros (_ & H2 & H3). rewrite dg_len. destruct b as [|x b]; [cbn [count61]; lia|].
  rewrite len_cons in *. lia.
Qed.
Lemma dec_spec_split a b : b64_good (a ++ b) -> len a mod 4 = 0 -> dec_spec (a ++ b) = dec_spec a ++ dec_spec b.
Proof.
  intros G Ha. destruct (good_split _ _ G Ha) as (Gb & [E|E]).
  - unfold dec_spec. rewrite dg_app by exact Ha. rewrite count61_app, E, len_app, N.sub_0_r, takeN_all.
    pose proof (good_pad_le _ Gb) as P.
    replace (len (b64_dg a) + len (b64_dg b) - (0 + count61 b)) with (len (b64_dg a) + (len (b64_dg b) - count61 b)) by lia.
    apply takeN_app_ge.
  - subst b. rewrite dec_spec_nil, !app_nil_r. reflexivity.
Qed.

Lemma dec_flush_ok buf e out : okcs buf -> buf <> [] -> len buf mod 4 = 0 -> e = count61 buf ->
  count61 buf <= len (b64_dg buf) ->
  dec_flush {| d_buf := buf; d_eof := e; d_out := out |}
  = Some {| d_buf := []; d_eof := e; d_out := out ++ dec_spec buf |}.
Proof.
  intros H Hne Hm -> Hc. unfold dec_flush. cbn [d_buf d_eof d_out].
  rewrite (decode_block_okcs _ H Hne Hm).
  assert (E : (len (b64_dg buf) <? count61 buf) = false) by (apply N.ltb_ge; exact Hc).
  rewrite E. reflexivity.
Qed.

Lemma dec_char_nl buf e out : e <= 2 -> len buf < 64 ->
  dec_char {| d_buf := buf; d_eof := e; d_out := out |} 10 = Continue {| d_buf := buf; d_eof := e; d_out := out |}.
Proof.
  intros He Hl. unfold dec_char. cbn [d_buf d_eof d_out].
  change (ascii2bin 10) with 240. change (10 =? 61) with false. cbn [negb].
  change (240 =? B64_ERROR) with false. change (is_base64 240) with false.
  change (240 =? B64_EOF) with false. cbn [andb].
  rewrite andb_false_r.
  assert (E1 : (2 <? e) = false) by (apply N.ltb_ge; exact He).
  assert (E2 : (len buf =? 64) = false) by (apply N.eqb_neq; lia).
  cbn [d_buf d_eof d_out]. rewrite E1, E2. reflexivity.
Qed.

Lemma dec_char_okc buf e out c : okc c = true -> len buf < 64 -> (c <> 61 -> e = 0) ->
  (if c =? 61 then e + 1 else e) <= 2 ->
  dec_char {| d_buf := buf; d_eof := e; d_out := out |} c =
  (let s2 := {| d_buf := buf ++ [c]; d_eof := (if c =? 61 then e + 1 else e); d_out := out |} in
   if len (buf ++ [c]) =? 64 then
     match dec_flush s2 with
     | Some s3 => Continue s3
     | None => Stop (-1) {| d_buf := []; d_eof := d_eof s2; d_out := out |}
     end
   else Continue s2).
Proof.
  intros Hc Hl He0 He. unfold dec_char. cbn [d_buf d_eof d_out].
  destruct (val_sweep _ (okc_lt _ Hc)) as (_ & _ & Hb & N1 & N2 & _).
  apply N.eqb_neq in N1, N2. rewrite N1, N2, Hb.
  assert (E1 : negb (c =? 61) && (0 <? e) = false).
  { destruct (N.eqb_spec c 61) as [E|E]; [reflexivity|]. rewrite (He0 E). reflexivity. }
  rewrite E1. cbn [andb].
  assert (E2 : (2 <? (if c =? 61 then e + 1 else e)) = false) by (apply N.ltb_ge; exact He).
  rewrite E2.
  assert (E3 : (64 <=? len buf) = false) by (apply N.leb_gt; exact Hl).
  rewrite E3. cbn [d_buf d_eof d_out]. reflexivity.
Qed.

Lemma count61_snoc buf c : count61 (buf ++ [c]) = if c =? 61 then count61 buf + 1 else count61 buf.
Proof. rewrite count61_app. cbn [count61]. destruct (c =? 61); lia. Qed.

Lemma dec_loop_spec inp : forall more s,
  b64_good (d_buf s ++ b64_filt inp ++ more) -> b64_alph inp -> len (d_buf s) < 64 ->
  (d_eof s = count61 (d_buf s) \/ (d_buf s = [] /\ b64_filt inp ++ more = [] /\ d_eof s <= 2)) ->
  exists rv s' fl, dec_loop s inp = (rv, s') /\ (0 <= rv)%Z /\
    d_buf s ++ b64_filt inp = fl ++ d_buf s' /\ len fl mod 4 = 0 /\
    d_out s' = d_out s ++ dec_spec fl /\
    (d_buf s' = [] \/ len (d_buf s') mod 4 <> 0) /\ len (d_buf s') < 64.
Proof.
  induction inp as [|c r IH]; intros more [buf e out] G A L Ee; cbn [d_buf d_eof d_out] in *.
  - cbn [dec_loop]. rewrite filt_nil in *. cbn [app] in G. rewrite app_nil_r. unfold dec_tail. cbn [d_buf d_eof d_out].
    destruct (N.ltb_spec 0 (len buf)) as [Lb|Lb].
    + destruct (N.eqb_spec (len buf mod 4) 0) as [M|M].
      * destruct Ee as [Ee|(Ee & _)]; [|subst buf; exfalso; exact (N.lt_irrefl _ Lb)].
        pose proof (good_prefix _ _ G M) as Gb.
        rewrite (dec_flush_ok buf e out (good_okcs _ Gb)); [|intros ->; exfalso; exact (N.lt_irrefl _ Lb)|exact M|exact Ee|apply good_pad_le; exact Gb].
        cbn [d_eof].
        eexists _, _, buf. split; [reflexivity|]. cbn [d_buf d_out].
        split; [destruct (_ || _); lia|]. split; [rewrite app_nil_r; reflexivity|]. split; [exact M|].
        split; [reflexivity|]. split; [left; reflexivity|]. rewrite len_nil; lia.
      * cbn [orb]. eexists _, _, []. split; [reflexivity|]. cbn [d_buf d_out app].
        split; [lia|]. split; [reflexivity|]. split; [reflexivity|]. rewrite dec_spec_nil, app_nil_r.
        split; [reflexivity|]. split; [right; exact M|exact L].
    + assert (buf = []) by (apply len_0; lia). subst buf.
      eexists _, _, []. split; [reflexivity|]. cbn [d_buf d_out app].
      split; [destruct (_ || _); lia|]. split; [reflexivity|]. split; [reflexivity|].
      rewrite dec_spec_nil, app_nil_r. split; [reflexivity|]. split; [left; reflexivity|]. rewrite len_nil; lia.
  - inversion A as [|? ? Hc A']; subst. destruct Hc as [->|Hc].
    + (* newline *)
      rewrite filt_nl in *. cbn [dec_loop].
      assert (He : e <= 2).
      { destruct Ee as [Ee|(_ & _ & Ee)]; [|exact Ee]. destruct G as (_ & G2 & _).
        rewrite count61_app in G2. lia. }
      rewrite (dec_char_nl buf e out He L).
      apply (IH more {| d_buf := buf; d_eof := e; d_out := out |}); assumption.
    + (* a digit or '=' *)
      rewrite (filt_okc _ _ Hc) in *. cbn [dec_loop].
      destruct Ee as [Ee|(_ & Ee & _)]; [|cbn [app] in Ee; discriminate Ee].
      assert (G' : b64_good ((buf ++ [c]) ++ b64_filt r ++ more)).
      { rewrite <- app_assoc. exact G. }
      assert (Hcnt : count61 (buf ++ [c]) <= 2).
      { destruct G' as (_ & G2 & _). rewrite (count61_app (buf ++ [c])) in G2. lia. }
      assert (He0 : c <> 61 -> e = 0).
      { intros Hn. rewrite Ee. destruct G as (G1 & _). cbn [app] in G1.
        eapply wf_dig_before; eassumption. }
      assert (Ee' : (if c =? 61 then e + 1 else e) = count61 (buf ++ [c])).
      { rewrite count61_snoc, Ee. reflexivity. }
      rewrite (dec_char_okc buf e out c Hc L He0) by (rewrite Ee'; exact Hcnt).
      cbv zeta. rewrite Ee'.
      destruct (N.eqb_spec (len (buf ++ [c])) 64) as [L64|L64].
      * assert (M : len (buf ++ [c]) mod 4 = 0) by (rewrite L64; reflexivity).
        pose proof (good_prefix _ _ G' M) as Gb.
        rewrite (dec_flush_ok (buf ++ [c]) _ out (good_okcs _ Gb));
          [|intros E; apply (f_equal len) in E; rewrite L64, len_nil in E; lia|exact M|reflexivity|apply good_pad_le; exact Gb].
        destruct (good_split _ _ G' M) as (Gr & Dj).
        destruct (IH more {| d_buf := []; d_eof := count61 (buf ++ [c]); d_out := out ++ dec_spec (buf ++ [c]) |})
          as (rv & s' & fl & E1 & E2 & E3 & E4 & E5 & E6 & E7); cbn [d_buf d_eof d_out app].
        { exact Gr. } { exact A'. } { rewrite len_nil; lia. }
        { destruct Dj as [Dj|Dj]; [left; exact Dj|right]. split; [reflexivity|]. split; [exact Dj|exact Hcnt]. }
        cbn [d_buf d_eof d_out app] in *.
        exists rv, s', ((buf ++ [c]) ++ fl). split; [exact E1|]. split; [exact E2|].
        split; [rewrite <- !app_assoc; cbn [app]; rewrite E3; reflexivity|].
        split; [rewrite len_app; lia|].
        split; [|split; assumption].
        rewrite E5, <- app_assoc. f_equal. symmetry. apply dec_spec_split; [|exact M].
        apply (good_prefix _ (d_buf s' ++ more)); [|rewrite len_app; lia].
        rewrite <- app_assoc. rewrite (app_assoc fl), <- E3. exact G'.
      * destruct (IH more {| d_buf := buf ++ [c]; d_eof := count61 (buf ++ [c]); d_out := out |})
          as (rv & s' & fl & E1 & E2 & E3 & E4 & E5 & E6 & E7); cbn [d_buf d_eof d_out].
        { exact G'. } { exact A'. } { rewrite len_app, len_cons, len_nil in *. lia. }
        { left; reflexivity. }
        cbn [d_buf d_eof d_out] in *.
        exists rv, s', fl. split; [exact E1|]. split; [exact E2|].
        split; [rewrite <- E3, <- app_assoc; reflexivity|]. repeat split; assumption.
Qed.

(* the eof counter that base64_decode_update recomputes from the tail of the buffer *)
Definition eof0 (buf : list N) : N :=
  match rev buf with
  | 61 :: 61 :: _ => 2
  | 61 :: _ => 1
  | _ => 0
  end.
Lemma match61 {A} (y : N) (a b : A) : y <> 61 -> match y with 61 => a | _ => b end = b.
Proof.
  intros H. destruct y as [|p]; [reflexivity|].
  do 6 (try (destruct p as [p|p|]; try reflexivity)); congruence.
Qed.
Lemma eof0_if l : match l with 61 :: 61 :: _ => 2 | 61 :: _ => 1 | _ => 0 end =
  match l with
  | [] => 0
  | x :: l' => if x =? 61 then match l' with [] => 1 | y :: _ => if y =? 61 then 2 else 1 end else 0
  end.
Proof.
  destruct l as [|x l']; [reflexivity|].
  destruct (N.eqb_spec x 61) as [->|E].
  - destruct l' as [|y l'']; [reflexivity|]. destruct (N.eqb_spec y 61) as [->|E']; [reflexivity|].
    change (match y with 61 => 2 | _ => 1 end = 1). apply match61. exact E'.
  - change (match x with 61 => match l' with 61 :: _ => 2 | _ => 1 end | _ => 0 end = 0).
    apply match61. exact E.
Qed.

Lemma eof0_snoc buf c : c <> 61 -> eof0 (buf ++ [c]) = 0.
Proof.
  intros H. unfold eof0. rewrite eof0_if. rewrite rev_app_distr. cbn [rev app].
  apply N.eqb_neq in H. rewrite H. reflexivity.
Qed.
Lemma eof0_count buf : b64_wf buf -> count61 buf <= 2 -> eof0 buf = count61 buf.
Proof.
  induction buf as [|c buf IH] using rev_ind; intros H Hc; [reflexivity|].
  rewrite count61_snoc in *. destruct (N.eqb_spec c 61) as [->|E].
  - pose proof (wf_app_l _ _ H) as Hl. specialize (IH Hl ltac:(lia)).
    unfold eof0 in *. rewrite eof0_if in *. rewrite rev_app_distr. cbn [rev app].
    change (61 =? 61) with true. cbv iota.
    destruct (rev buf) as [|y l] eqn:Er.
    + lia.
    + destruct (N.eqb_spec y 61) as [->|E].
      * destruct l as [|z l']; [lia|]. destruct (N.eqb_spec z 61); lia.
      * lia.
  - rewrite (eof0_snoc _ _ E). symmetry. eapply wf_dig_before; eassumption.
Qed.

(* one call of base64_decode_update on a well-formed text *)
Lemma decode_update_spec buf inp more :
  b64_good (buf ++ b64_filt inp ++ more) -> b64_alph inp -> len buf < 64 ->
  exists rv buf' o fl, decode_update buf inp = (rv, buf', o) /\ (0 <= rv)%Z /\
    buf ++ b64_filt inp = fl ++ buf' /\ len fl mod 4 = 0 /\ o = dec_spec fl /\
    (buf' = [] \/ len buf' mod 4 <> 0 \/ inp = []) /\ len buf' < 64.
Proof.
  intros G A L. unfold decode_update. fold (eof0 buf).
  destruct (N.eqb_spec (len inp) 0) as [E|E].
  - apply len_0 in E. subst inp. exists 0%Z, buf, [], []. rewrite filt_nil.
    repeat split; try lia; try reflexivity; [apply app_nil_r|right; right; reflexivity].
  - destruct (dec_loop_spec inp more {| d_buf := buf; d_eof := eof0 buf; d_out := [] |})
      as (rv & s' & fl & E1 & E2 & E3 & E4 & E5 & E6 & E7); cbn [d_buf d_eof d_out] in *.
    { exact G. } { exact A. } { exact L. }
    { left. destruct G as (G1 & G2 & _). rewrite count61_app in G2.
      apply eof0_count; [eapply wf_app_l; eassumption|lia]. }
    rewrite E1. exists rv, (d_buf s'), (d_out s'), fl.
    split; [reflexivity|]. split; [exact E2|]. split; [exact E3|]. split; [exact E4|].
    split; [exact E5|]. split; [tauto|exact E7].
Qed.

Lemma decode_chunks_spec chunks : forall buf,
  b64_good (buf ++ b64_filt (concat chunks)) -> b64_alph (concat chunks) -> len buf < 64 ->
  (buf = [] \/ len buf mod 4 <> 0) ->
  decode_chunks buf chunks = Some (dec_spec (buf ++ b64_filt (concat chunks))).
Proof.
  induction chunks as [|c r IH]; intros buf G A L D.
  - cbn [concat decode_chunks] in *. rewrite filt_nil, app_nil_r in *.
    destruct D as [->|D]; [reflexivity|]. destruct G as (_ & _ & G). contradiction.
  - cbn [concat decode_chunks] in *. rewrite filt_app in *.
    unfold b64_alph in A. apply Forall_app in A. destruct A as [A1 A2].
    destruct (decode_update_spec buf c (b64_filt (concat r)) G A1 L)
      as (rv & buf' & o & fl & E1 & E2 & E3 & E4 & E5 & E6 & E7).
    rewrite E1. assert (Erv : (rv <? 0)%Z = false) by (apply Z.ltb_ge; exact E2). rewrite Erv.
    assert (G' : b64_good (fl ++ buf' ++ b64_filt (concat r))).
    { rewrite app_assoc, <- E3, <- app_assoc. exact G. }
    destruct (good_split _ _ G' E4) as (Gr & _).
    assert (D' : buf' = [] \/ len buf' mod 4 <> 0).
    { destruct E6 as [E6|[E6|E6]]; [left; exact E6|right; exact E6|].
      subst c. rewrite filt_nil, app_nil_r in E3.
      (* the empty call keeps the state *)
      unfold decode_update in E1. cbn [len length N.of_nat N.eqb] in E1. injection E1 as _ <- _. exact D. }
    rewrite (IH buf' Gr A2 E7 D'). rewrite E5. f_equal.
    rewrite app_assoc, E3, <- app_assoc. symmetry. apply dec_spec_split; assumption.
Qed.

(* the canonical text: alphabet, and its characters without the newlines *)
Lemma canon_props n : forall bs, (length bs <= n)%nat -> b64_alph (b64_canon bs) /\ b64_filt (b64_canon bs) = encode_block bs.
Proof.
  induction n as [|n IH]; intros bs H.
  - destruct bs; [|cbn [length] in H; lia]. split; [constructor|reflexivity].
  - destruct bs as [|x t] eqn:Eb; [split; [constructor|reflexivity]|]. rewrite <- Eb in *.
    assert (Hne : bs <> []) by (rewrite Eb; discriminate).
    assert (Hl : (length (dropN 48 bs) <= n)%nat).
    { unfold dropN. rewrite skipn_length. rewrite Eb in *. cbn [length] in *. lia. }
    destruct (IH _ Hl) as (I1 & I2).
    rewrite (canon_step bs Hne). split.
    + apply Forall_app. split; [apply okcs_alph, encode_block_okcs|].
      apply Forall_app. split; [constructor; [left; reflexivity|constructor]|exact I1].
    + rewrite !filt_app, I2. rewrite (filt_okcs _ (encode_block_okcs _)).
      change (b64_filt [10]) with (@nil N). cbn [app].
      destruct (N.le_gt_cases (len bs) 48) as [Ls|Ls].
      * rewrite takeN_short, dropN_short by exact Ls. apply app_nil_r.
      * rewrite <- encode_block_app; [rewrite take_drop; reflexivity|].
        unfold takeN. rewrite firstn_length_le by (unfold len in Ls; lia). reflexivity.
Qed.

Lemma digc_ne c : digc c = true -> c <> 61.
Proof. unfold digc. intros H. apply andb_true_iff in H. destruct H as [_ H]. apply negb_true_iff, N.eqb_neq in H. exact H. Qed.
Lemma wf_dig_cons c r : digc c = true -> b64_wf r -> b64_wf (c :: r).
Proof.
  intros H Hr. cbn [b64_wf]. split; [apply digc_okc; exact H|]. split; [|exact Hr].
  intros E. apply digc_ne in H. contradiction.
Qed.
Lemma count61_dig_cons c r : digc c = true -> count61 (c :: r) = count61 r.
Proof. intros H. apply digc_ne, N.eqb_neq in H. cbn [count61]. rewrite H. reflexivity. Qed.

Lemma encode_block_wf bs : b64_wf (encode_block bs) /\ count61 (encode_block bs) = N.of_nat (padk (length bs)).
Proof.
  induction bs as [|a|a b|a b c r IH] using list_ind3.
  - split; reflexivity.
  - cbn [encode_block]. split.
    + do 2 (apply wf_dig_cons; [apply digc_bin2ascii|]). cbn [b64_wf]. repeat split; try reflexivity; intros; repeat constructor.
    + rewrite 2!count61_dig_cons by apply digc_bin2ascii. reflexivity.
  - cbn [encode_block]. split.
    + do 3 (apply wf_dig_cons; [apply digc_bin2ascii|]). cbn [b64_wf]. repeat split; try reflexivity; intros; repeat constructor.
    + rewrite 3!count61_dig_cons by apply digc_bin2ascii. reflexivity.
  - rewrite encode_block3. cbv zeta. destruct IH as [I1 I2]. split.
    + do 4 (apply wf_dig_cons; [apply digc_bin2ascii|]). exact I1.
    + rewrite 4!count61_dig_cons by apply digc_bin2ascii. cbn [length]. rewrite padk3. exact I2.
Qed.
Lemma padk_le n : (padk n <= 2)%nat.
Proof. unfold padk. lia. Qed.
Lemma encode_block_good bs : b64_good (encode_block bs).
Proof.
  destruct (encode_block_wf bs) as [H1 H2]. split; [exact H1|]. split.
  - rewrite H2. pose proof (padk_le (length bs)). lia.
  - rewrite encode_block_len. lia.
Qed.
Theorem dec_spec_encode_block bs : bytes_okP bs -> dec_spec (encode_block bs) = bs.
Proof.
  intros H. unfold dec_spec. rewrite dg_encode_block by exact H.
  destruct (encode_block_wf bs) as [_ ->]. rewrite len_app.
  replace (len (zeros (padk (length bs)))) with (N.of_nat (padk (length bs))) by (unfold len; rewrite zeros_length; reflexivity).
  rewrite N.add_sub. apply takeN_app.
Qed.

(* 4. stream round trip, for every way of cutting the text into update calls *)
Theorem decode_stream_roundtrip bs chunks : bytes_okP bs ->
  concat chunks = encode_all bs -> decode_chunks [] chunks = Some bs.
Proof.
  intros H E. rewrite encode_all_canon in E.
  destruct (canon_props _ bs (le_n _)) as (P1 & P2).
  rewrite decode_chunks_spec.
  - cbn [app]. rewrite E, P2. rewrite dec_spec_encode_block by exact H. reflexivity.
  - cbn [app]. rewrite E, P2. apply encode_block_good.
  - rewrite E. exact P1.
  - rewrite len_nil; lia.
  - left; reflexivity.
Qed.

Corollary decode_oneshot_roundtrip bs : bytes_okP bs -> decode_chunks [] [encode_all bs] = Some bs.
Proof. intros H. apply decode_stream_roundtrip; [exact H|]. cbn [concat]. apply app_nil_r. Qed.

(* PEM style: one update call per text line *)
Definition text_lines (bs : list N) : list (list N) := map enc_line (split48 (length bs) bs).
Corollary decode_lines_roundtrip bs : bytes_okP bs -> decode_chunks [] (text_lines bs) = Some bs.
Proof. intros H. apply decode_stream_roundtrip; [exact H|]. rewrite encode_all_canon. reflexivity. Qed.

(* and through both streaming interfaces, with independent cuts on both sides *)
Corollary stream_roundtrip ins chunks : bytes_okP (concat ins) ->
  concat chunks = encode_chunks [] ins -> decode_chunks [] chunks = Some (concat ins).
Proof. intros H E. apply decode_stream_roundtrip; [exact H|]. rewrite E. apply encode_chunking_invariant. Qed.

(* ------------------------------------------------------------------ 5. capacities, absence of Fault *)
Lemma len_takeN_le {A} n (l : list A) : len (takeN n l) <= n.
Proof. unfold len, takeN. pose proof (firstn_le_length (N.to_nat n) l). lia. Qed.
Lemma len_takeN_le2 {A} n (l : list A) : len (takeN n l) <= len l.
Proof. unfold len, takeN. rewrite firstn_length. lia. Qed.

Lemma trim_ws_le fuel : forall f n f1 n1, trim_ws fuel f n = Ok (f1, n1) -> n1 <= n.
Proof.
  induction fuel as [|k IH]; intros f n f1 n1 H; [discriminate H|].
  cbn [trim_ws] in H. destruct f as [|c r]; [discriminate H|].
  destruct ((ascii2bin c =? B64_WS) && (0 <? n)) eqn:E.
  - apply IH in H. lia.
  - injection H as _ <-. lia.
Qed.
Lemma trim_tail_le fuel : forall f n, trim_tail fuel f n <= n.
Proof.
  induction fuel as [|k IH]; intros f n; cbn [trim_tail]; [lia|].
  destruct (_ && _); [|lia]. specialize (IH f (n - 1)). lia.
Qed.

Theorem decode_block_capacity f n o : decode_block f n = Ok o -> len o <= 3 * (n / 4).
Proof.
  unfold decode_block. destruct (trim_ws (S (N.to_nat n)) f n) as [[f1 n1]| | |] eqn:E; try discriminate.
  apply trim_ws_le in E. pose proof (trim_tail_le (N.to_nat n1) f1 n1) as T.
  set (n2 := trim_tail (N.to_nat n1) f1 n1) in *.
  destruct (negb (n2 mod 4 =? 0)); [discriminate|].
  destruct (decode_groups (takeN n2 f1)) as [o'|] eqn:D; [|discriminate].
  intros H. injection H as <-. rewrite (decode_groups_len _ _ D).
  pose proof (len_takeN_le n2 f1). lia.
Qed.

Lemma takeN_cons_pos {A} n (c : A) r : 0 < n -> takeN n (c :: r) = c :: takeN (n - 1) r.
Proof.
  intros H. unfold takeN. replace (N.to_nat n) with (S (N.to_nat (n - 1))) by lia. reflexivity.
Qed.
Lemma trim_ws_nofault f : forall n,
  n < len f \/ Exists (fun c => ascii2bin c <> B64_WS) (takeN n f) ->
  trim_ws (S (N.to_nat n)) f n <> Fault.
Proof.
  induction f as [|c r IH]; intros n H.
  - exfalso. destruct H as [H|H]; [rewrite len_nil in H; lia|].
    unfold takeN in H. rewrite firstn_nil in H. inversion H.
  - cbn [trim_ws]. destruct (N.eqb_spec (ascii2bin c) B64_WS) as [E|E]; [|discriminate].
    destruct (N.ltb_spec 0 n) as [L|L]; [|discriminate]. cbn [andb].
    replace (N.to_nat n) with (S (N.to_nat (n - 1))) by lia. apply IH.
    destruct H as [H|H]; [left; rewrite len_cons in H; lia|right].
    rewrite takeN_cons_pos in H by exact L. inversion H; subst; [contradiction|assumption].
Qed.
(* the only Fault of the model: the unguarded read of *f on an all-blank input that fills the buffer *)
Theorem decode_block_nofault f n :
  n < len f \/ Exists (fun c => ascii2bin c <> B64_WS) (takeN n f) -> decode_block f n <> Fault.
Proof.
  intros H. apply trim_ws_nofault in H. unfold decode_block.
  destruct (trim_ws (S (N.to_nat n)) f n) as [[f1 n1]| | |]; try discriminate; [|congruence].
  destruct (negb _); [discriminate|]. destruct (decode_groups _); discriminate.
Qed.
Example decode_block_blank_faults : decode_block [32; 32; 32; 32] 4 = Fault.
Proof. reflexivity. Qed.

Lemma dec_flush_bound s s' : dec_flush s = Some s' ->
  d_buf s' = [] /\ d_eof s' = d_eof s /\ len (d_out s') <= len (d_out s) + 3 * (len (d_buf s) / 4).
Proof.
  unfold dec_flush. destruct (decode_block (d_buf s) (len (d_buf s))) as [o| | |] eqn:E; try discriminate.
  destruct (len o <? d_eof s); [discriminate|]. intros H. injection H as <-. cbn [d_buf d_eof d_out].
  apply decode_block_capacity in E. rewrite len_app.
  pose proof (len_takeN_le2 (len o - d_eof s) o). repeat split. lia.
Qed.

Definition dstep_ok (s : dstate) (c : N) (st : dstep) : Prop :=
  match st with
  | Stop rv s' => rv = (-1)%Z /\ d_out s' = d_out s /\ (d_buf s' = d_buf s \/ d_buf s' = [])
  | SeenEof s' => ascii2bin c = B64_EOF /\ d_buf s' = d_buf s /\ d_out s' = d_out s /\ d_eof s' <= 2
  | Continue s' =>
      d_eof s' = d_eof s + (if c =? 61 then 1 else 0) /\ d_eof s' <= 2 /\ ascii2bin c <> B64_ERROR /\
      ((d_out s' = d_out s /\
        (d_buf s' = d_buf s \/ (d_buf s' = d_buf s ++ [c] /\ len (d_buf s) < 64 /\ is_base64 (ascii2bin c) = true))
        /\ len (d_buf s') <> 64)
       \/ (d_buf s' = [] /\ len (d_out s') <= len (d_out s) + 48 /\ 63 <= len (d_buf s)))
  end.

Lemma dec_char_cases s c : dstep_ok s c (dec_char s c).
Proof.
  destruct s as [buf e out]. unfold dec_char. cbn [d_buf d_eof d_out].
  destruct (N.eqb_spec (ascii2bin c) B64_ERROR) as [E1|E1].
  { cbn [dstep_ok d_buf d_out]. auto. }
  assert (Ee : (if c =? 61 then e + 1 else e) = e + (if c =? 61 then 1 else 0)) by (destruct (c =? 61); lia).
  set (e' := if c =? 61 then e + 1 else e) in *.
  destruct (negb (c =? 61) && (0 <? e) && is_base64 (ascii2bin c)).
  { cbn [dstep_ok d_buf d_out]. auto. }
  destruct (N.ltb_spec 2 e') as [E3|E3].
  { cbn [dstep_ok d_buf d_out]. auto. }
  destruct (N.eqb_spec (ascii2bin c) B64_EOF) as [E4|E4].
  { cbn [dstep_ok d_buf d_out d_eof]. auto. }
  destruct (is_base64 (ascii2bin c)) eqn:E5; cbn [andb]; cbv iota.
  - destruct (N.leb_spec 64 (len buf)) as [E6|E6].
    { cbn [dstep_ok d_buf d_out]. auto. }
    cbn [d_buf d_eof d_out].
    destruct (N.eqb_spec (len (buf ++ [c])) 64) as [E7|E7].
    + destruct (dec_flush {| d_buf := buf ++ [c]; d_eof := e'; d_out := out |}) as [s3|] eqn:E8.
      * apply dec_flush_bound in E8. cbn [d_buf d_eof d_out] in E8. destruct E8 as (F1 & F2 & F3).
        cbn [dstep_ok d_buf d_out d_eof]. rewrite F2. split; [exact Ee|]. split; [exact E3|]. split; [exact E1|].
        right. rewrite E7 in F3. rewrite len_app, len_cons, len_nil in E7. split; [exact F1|]. split; lia.
      * cbn [dstep_ok d_buf d_out]. auto.
    + cbn [dstep_ok d_buf d_out d_eof]. split; [exact Ee|]. split; [exact E3|]. split; [exact E1|].
      left. split; [reflexivity|]. split; [right; split; [reflexivity|split; [exact E6|exact E5]]|exact E7].
  - cbn [d_buf d_eof d_out].
    destruct (N.eqb_spec (len buf) 64) as [E7|E7].
    + destruct (dec_flush {| d_buf := buf; d_eof := e'; d_out := out |}) as [s3|] eqn:E8.
      * apply dec_flush_bound in E8. cbn [d_buf d_eof d_out] in E8. destruct E8 as (F1 & F2 & F3).
        cbn [dstep_ok d_buf d_out d_eof]. rewrite F2. split; [exact Ee|]. split; [exact E3|]. split; [exact E1|].
        right. rewrite E7 in F3. split; [exact F1|]. split; lia.
      * cbn [dstep_ok d_buf d_out]. auto.
    + cbn [dstep_ok d_buf d_out d_eof]. split; [exact Ee|]. split; [exact E3|]. split; [exact E1|].
      left. split; [reflexivity|]. split; [left; reflexivity|exact E7].
Qed.

Lemma dec_tail_bound b s rv s' : dec_tail b s = (rv, s') ->
  len (d_out s') <= len (d_out s) + 3 * (len (d_buf s) / 4) /\ len (d_buf s') <= len (d_buf s)
  /\ (-1 <= rv <= 1)%Z.
Proof.
  unfold dec_tail. destruct (0 <? len (d_buf s)).
  - destruct (len (d_buf s) mod 4 =? 0).
    + destruct (dec_flush s) as [s3|] eqn:E.
      * apply dec_flush_bound in E. destruct E as (F1 & F2 & F3). intros H. injection H as <- <-.
        rewrite F1, len_nil. split; [exact F3|]. split; [lia|]. destruct (_ || _); lia.
      * intros H. injection H as <- <-. cbn [d_buf d_out]. rewrite len_nil. lia.
    + destruct b; intros H; injection H as <- <-; lia.
  - intros H; injection H as <- <-. split; [lia|]. split; [lia|]. destruct (_ || _); lia.
Qed.

Lemma dec_loop_bound inp : forall s rv s', dec_loop s inp = (rv, s') ->
  len (d_out s') <= len (d_out s) + 3 * ((len (d_buf s) + len inp) / 4)
  /\ (len (d_buf s) < 64 -> len (d_buf s') < 64) /\ (-1 <= rv <= 1)%Z.
Proof.
  induction inp as [|c r IH]; intros s rv s' H.
  - cbn [dec_loop] in H. apply dec_tail_bound in H. rewrite len_nil, N.add_0_r. split; [tauto|]. split; [lia|tauto].
  - cbn [dec_loop] in H. pose proof (dec_char_cases s c) as C. rewrite len_cons.
    destruct (dec_char s c) as [s1|rv1 s1|s1]; cbn [dstep_ok] in C.
    + apply IH in H. destruct H as (H1 & H2 & H3). destruct C as (_ & _ & _ & [(C1 & C2 & C3)|(C1 & C2 & C3)]).
      * rewrite C1 in H1. assert (len (d_buf s1) <= len (d_buf s) + 1).
        { destruct C2 as [->|[-> _]]; [lia|]. rewrite len_app, len_cons, len_nil. lia. }
        split; [lia|]. split; [|exact H3]. intros L. apply H2. lia.
      * rewrite C1, len_nil in *. split; [lia|]. split; [|exact H3]. intros _. apply H2. lia.
    + injection H as <- <-. destruct C as (-> & C1 & C2). rewrite C1. split; [lia|]. split; [|lia].
      destruct C2 as [->| ->]; [auto|rewrite len_nil; lia].
    + apply dec_tail_bound in H. destruct C as (_ & C1 & C2 & _). rewrite C1, C2 in H. split; [lia|]. split; [lia|tauto].
Qed.

(* *outl of one base64_decode_update call, and the new ctx->num *)
Theorem decode_update_capacity buf inp rv buf' o : decode_update buf inp = (rv, buf', o) ->
  len o <= 3 * ((len buf + len inp) / 4) /\ (len buf < 64 -> len buf' < 64) /\ (-1 <= rv <= 1)%Z.
Proof.
  unfold decode_update. destruct (len inp =? 0).
  - intros H. injection H as <- <- <-. rewrite len_nil. split; [lia|]. split; [auto|lia].
  - match goal with |- context [dec_loop ?s0 inp] => destruct (dec_loop s0 inp) as [rv1 s1] eqn:E end.
    intros H. injection H as <- <- <-. apply dec_loop_bound in E. cbn [d_buf d_out] in E. rewrite len_nil in E.
    exact E.
Qed.
Theorem decode_finish_capacity buf o : decode_finish buf = Ok o -> len o <= 3 * (len buf / 4).
Proof.
  unfold decode_finish. destruct (len buf =? 0).
  - intros H. injection H as <-. rewrite len_nil. lia.
  - destruct (decode_block buf (len buf)) as [o'| | |] eqn:E; try discriminate.
    intros H. injection H as <-. apply decode_block_capacity in E. exact E.
Qed.
Theorem decode_finish_nofault buf : Exists (fun c => ascii2bin c <> B64_WS) buf -> decode_finish buf <> Fault.
Proof.
  intros H. unfold decode_finish. destruct (len buf =? 0); [discriminate|].
  pose proof (decode_block_nofault buf (len buf)) as F. rewrite takeN_all in F. specialize (F (or_intror H)).
  destruct (decode_block buf (len buf)); try discriminate. congruence.
Qed.

(* *outl of one base64_encode_update call (without the NUL), and the new ctx->num *)
Theorem encode_update_capacity buf inp rv buf' o : len buf < 48 -> encode_update buf inp = (rv, buf', o) ->
  len o = 65 * ((len buf + len inp) / 48) /\ len buf' = (len buf + len inp) mod 48 /\ len buf' < 48.
Proof. intros H E. destruct (encode_update_spec _ _ _ _ _ H E) as (A & _ & B & C). auto. Qed.
Theorem encode_finish_capacity buf : len buf < 48 -> len (encode_finish buf) <= 65.
Proof.
  intros H. unfold encode_finish. destruct (len buf =? 0); [rewrite len_nil; lia|].
  rewrite len_app, encode_block_len, len_cons, len_nil. lia.
Qed.

(* dec_flush turns a Fault of decode_block into -1; it cannot happen: the buffer never holds blanks *)
Definition bufok (buf : list N) : Prop := Forall (fun c => ascii2bin c <> B64_WS) buf.
Theorem decode_block_buf_nofault buf : bufok buf -> buf <> [] -> decode_block buf (len buf) <> Fault.
Proof.
  intros H Hne. apply decode_block_nofault. right. rewrite takeN_all.
  destruct buf as [|c r]; [congruence|]. inversion H; subst. apply Exists_cons_hd. assumption.
Qed.
Lemma dec_tail_bufok b s rv s' : dec_tail b s = (rv, s') -> bufok (d_buf s) -> bufok (d_buf s').
Proof.
  unfold dec_tail. destruct (0 <? len (d_buf s)).
  - destruct (len (d_buf s) mod 4 =? 0).
    + destruct (dec_flush s) as [s3|] eqn:E.
      * apply dec_flush_bound in E. destruct E as (F1 & _). intros H _. injection H as _ <-. rewrite F1. constructor.
      * intros H _. injection H as _ <-. constructor.
    + destruct b; intros H; injection H as _ <-; auto.
  - intros H; injection H as _ <-. auto.
Qed.
Lemma dec_loop_bufok inp : forall s rv s', dec_loop s inp = (rv, s') -> bufok (d_buf s) -> bufok (d_buf s').
Proof.
  induction inp as [|c r IH]; intros s rv s' H B.
  - cbn [dec_loop] in H. eapply dec_tail_bufok; eassumption.
  - cbn [dec_loop] in H. pose proof (dec_char_cases s c) as C.
    destruct (dec_char s c) as [s1|rv1 s1|s1]; cbn [dstep_ok] in C.
    + apply (IH _ _ _ H). destruct C as (_ & _ & _ & [(_ & C2 & _)|(C1 & _)]).
      * destruct C2 as [->|(-> & _ & C3)]; [exact B|]. apply Forall_app. split; [exact B|].
        constructor; [|constructor]. intros E. rewrite E in C3. discriminate C3.
      * rewrite C1. constructor.
    + injection H as _ <-. destruct C as (_ & _ & [->| ->]); [exact B|constructor].
    + apply (dec_tail_bufok _ _ _ _ H). destruct C as (_ & -> & _). exact B.
Qed.
Theorem decode_update_bufok buf inp rv buf' o : decode_update buf inp = (rv, buf', o) -> bufok buf -> bufok buf'.
Proof.
  unfold decode_update. destruct (len inp =? 0).
  - intros H. injection H as _ <- _. auto.
  - match goal with |- context [dec_loop ?s0 inp] => destruct (dec_loop s0 inp) as [rv1 s1] eqn:E end.
    intros H. injection H as _ <- _. apply (dec_loop_bufok _ _ _ _ E).
Qed.

(* ------------------------------------------------------------------ 6. malformed text is refused *)
Definition noeof (t : list N) : Prop := Forall (fun x => ascii2bin x <> B64_EOF) t.   (* no '-' *)

(* reading a prefix without '-': either the call already failed, or the loop goes on with
   eof = old eof + number of '=' read, which the code keeps <= 2 *)
Lemma dec_loop_prefix pre : forall rest s, noeof pre ->
  fst (dec_loop s (pre ++ rest)) = (-1)%Z \/
  exists s', dec_loop s (pre ++ rest) = dec_loop s' rest /\ d_eof s' = d_eof s + count61 pre
             /\ (pre <> [] \/ d_eof s <= 2 -> d_eof s' <= 2).
Proof.
  induction pre as [|c p IH]; intros rest s H.
  - right. exists s. cbn [app count61]. split; [reflexivity|]. split; [lia|]. intros [E|E]; [congruence|exact E].
  - inversion H as [|? ? Hc Hp]; subst. cbn [app dec_loop]. pose proof (dec_char_cases s c) as C.
    destruct (dec_char s c) as [s1|rv1 s1|s1]; cbn [dstep_ok] in C.
    + destruct C as (C1 & C2 & _). destruct (IH rest s1 Hp) as [I|(s' & I1 & I2 & I3)]; [left; exact I|right].
      exists s'. split; [exact I1|]. cbn [count61]. split; [lia|]. intros _. apply I3. right. exact C2.
    + left. destruct C as (-> & _). reflexivity.
    + destruct C as (C & _). contradiction.
Qed.

Lemma decode_update_rv buf inp : inp <> [] ->
  fst (fst (decode_update buf inp)) = fst (dec_loop {| d_buf := buf; d_eof := eof0 buf; d_out := [] |} inp).
Proof.
  intros H. unfold decode_update. fold (eof0 buf).
  destruct (N.eqb_spec (len inp) 0) as [E|E]; [apply len_0 in E; contradiction|].
  destruct (dec_loop _ inp) as [rv s]. reflexivity.
Qed.
Lemma app_cons_ne {A} (a : list A) x b : a ++ x :: b <> [].
Proof. destruct a; discriminate. Qed.

(* a character outside the alphabet *)
Theorem decode_refuses_bad_char buf pre c post : noeof pre -> ascii2bin c = B64_ERROR ->
  fst (fst (decode_update buf (pre ++ c :: post))) = (-1)%Z.
Proof.
  intros H Hc. rewrite decode_update_rv by apply app_cons_ne.
  destruct (dec_loop_prefix pre (c :: post) {| d_buf := buf; d_eof := eof0 buf; d_out := [] |} H)
    as [E|(s' & E & _)]; [exact E|].
  rewrite E. cbn [dec_loop]. unfold dec_char. rewrite Hc. reflexivity.
Qed.

(* a digit after '=' *)
Theorem decode_refuses_data_after_pad buf pre mid c post : noeof pre -> noeof mid -> digc c = true ->
  fst (fst (decode_update buf (pre ++ 61 :: mid ++ c :: post))) = (-1)%Z.
Proof.
  intros H1 H2 Hc. rewrite decode_update_rv by apply app_cons_ne.
  replace (pre ++ 61 :: mid ++ c :: post) with ((pre ++ 61 :: mid) ++ c :: post)
    by (rewrite <- app_assoc; reflexivity).
  assert (H : noeof (pre ++ 61 :: mid)).
  { apply Forall_app. split; [exact H1|]. constructor; [discriminate|exact H2]. }
  destruct (dec_loop_prefix _ (c :: post) {| d_buf := buf; d_eof := eof0 buf; d_out := [] |} H)
    as [E|(s' & E & E2 & _)]; [exact E|].
  rewrite E. cbn [dec_loop]. rewrite count61_app in E2. cbn [count61] in E2. change (61 =? 61) with true in E2. cbv iota in E2. cbn [d_eof] in E2.
  unfold dec_char.
  destruct (val_sweep _ (okc_lt _ (digc_okc _ Hc))) as (_ & _ & Hb & N1 & _).
  apply N.eqb_neq in N1. rewrite N1, Hb.
  pose proof (digc_ne _ Hc) as Hn. apply N.eqb_neq in Hn. rewrite Hn.
  assert (Hp : (0 <? d_eof s') = true) by (apply N.ltb_lt; lia).
  rewrite Hp. reflexivity.
Qed.

(* more than two '=' (counting those at the end of the buffered characters) *)
Theorem decode_refuses_long_pad buf inp : noeof inp -> 3 <= eof0 buf + count61 inp -> inp <> [] ->
  fst (fst (decode_update buf inp)) = (-1)%Z.
Proof.
  intros H Hc Hne. rewrite decode_update_rv by exact Hne.
  destruct (dec_loop_prefix inp [] {| d_buf := buf; d_eof := eof0 buf; d_out := [] |} H)
    as [E|(s' & _ & E2 & E3)].
  - rewrite app_nil_r in E. exact E.
  - exfalso. cbn [d_eof] in *. specialize (E3 (or_introl Hne)). lia.
Qed.

