(* Impl models of the X.509 decoders built from the primitives of Codec/Der.v:
   AlgorithmIdentifiers with library OID tables (src/x509_alg.c), the extension layer (src/x509_ext.c:
   extension id / Extension / lookup in Extensions, OtherName, GeneralName(s), AuthorityKeyIdentifier,
   BasicConstraints, DisplayText / NoticeReference / UserNotice, policy qualifiers / information / mappings,
   Attribute, GeneralSubtree, NameConstraints, PolicyConstraints, KeyPurposeId / ExtKeyUsage with its
   capacity, DistributionPointName and the uri_as_distribution_point(s) family, AccessDescription /
   AuthorityInfoAccess), the Name layer and the certificate (src/x509_cer.c: DirectoryName,
   AttributeTypeAndValue, RDN, Name check, explicit version, Time, Validity, explicit Extensions,
   TBSCertificate, the signed wrapper, Certificate).

   Conventions as in Codec/Pkcs.v: a decoder runs over the bytes from the C pointer to the end of the
   buffer; Ok = 1, Absent = 0, Err = negative, Fault = an access outside the buffer / a capacity, or a
   loop that would not terminate within its fuel.  Every out-parameter is returned; a pointer
   out-parameter is [PNull] (NULL, length 0), [PBuf d] or [PUnset] (the function returned 1 without
   storing it).  Object identifiers carry the library's own enum values (Codec/OidTables.v, generated
   from the sources). *)
From GmVerif Require Import Base.Bytes Codec.Der Codec.Time Codec.Pkcs Codec.OidTables.
Local Open Scope N_scope.

Inductive ptr := PUnset | PNull | PBuf (d : list N).
Definition ptr_is_null (p : ptr) : bool := match p with PNull => true | _ => false end.

(* ------------------------------------------------------------------ combinators *)
(* "f(..) < 0 => error": an absent optional element stores its default and consumes nothing *)
Definition opt {A} (r : res (A * list N)) (dflt : A) (inp : list N) : res (A * list N) :=
  match r with Ok x => Ok x | Absent => Ok (dflt, inp) | Err => Err | Fault => Fault end.
(* outer TLV [r], then the body parser on its content; errors of the body are -1 *)
Definition tlv_dec {A} (r : res (list N * list N)) (f : list N -> res A) : res (A * list N) :=
  match r with
  | Ok (d, rest) => match f d with Ok a => Ok (a, rest) | Fault => Fault | _ => Err end
  | Absent => Absent
  | Err => Err
  | Fault => Fault
  end.
Definition seq_dec {A} (inp : list N) (f : list N -> res A) : res (A * list N) := tlv_dec (type_from_der 48 inp) f.
Definition at_end {A} (d : list N) (v : A) : res A := if is_nil d then Ok v else Err.   (* asn1_length_is_zero *)
Definition as_ptr (r : res (list N * list N)) : res (ptr * list N) :=
  match r with Ok (d, rest) => Ok (PBuf d, rest) | Absent => Absent | Err => Err | Fault => Fault end.
Definition otype (tag : N) (inp : list N) := opt (as_ptr (type_from_der tag inp)) PNull inp.
Definition ontype (tag : N) (inp : list N) := opt (as_ptr (nonempty_type_from_der tag inp)) PNull inp.
Definition as_z (r : res (N * list N)) : res (Z * list N) :=
  match r with Ok (v, rest) => Ok (Z.of_N v, rest) | Absent => Absent | Err => Err | Fault => Fault end.
Definition oint (tag : N) (inp : list N) := opt (as_z (int_from_der m tag inp)) (-1)%Z inp.
Definition obits (tag : N) (inp : list N) := opt (as_z (bits_from_der m tag inp)) (-1)%Z inp.
Definition obool (tag : N) (inp : list N) : res (Z * list N) :=
  opt (match boolean_from_der tag inp with Ok (b, r) => Ok ((if b then 1 else 0)%Z, r) | Absent => Absent | Err => Err | Fault => Fault end)
      (-1)%Z inp.

(* "while (len) { step; if (hit) return; }" - the fuel is the length of the data, every step consumes *)
Fixpoint find_loop {A} (fuel : nat) (step : list N -> res (A * list N)) (hit : A -> bool) (d : list N)
  : res (option (A * list N)) :=
  match d with
  | [] => Ok None
  | _ => match fuel with
         | O => Fault
         | S k => match step d with
                  | Ok (a, r) => if hit a then Ok (Some (a, r)) else find_loop k step hit r
                  | Fault => Fault
                  | _ => Err
                  end
         end
  end.
(* "while (len && cont(s)) { step; s = upd s a }" *)
Fixpoint fold_loop {A S} (fuel : nat) (step : list N -> res (A * list N)) (cont : S -> bool) (upd : S -> A -> res S)
  (s : S) (d : list N) : res (S * list N) :=
  match d with
  | [] => Ok (s, d)
  | _ => if negb (cont s) then Ok (s, d)
         else match fuel with
              | O => Fault
              | S k => match step d with
                       | Ok (a, r) => match upd s a with
                                      | Ok s' => fold_loop k step cont upd s' r
                                      | Fault => Fault
                                      | _ => Err
                                      end
                       | Fault => Fault
                       | _ => Err
                       end
              end
  end.

(* asn1_oid_info_from_der_ex: unknown well-formed OID = info NULL (oid 0), the arcs are returned *)
Definition oid_info_ex (tab : oid_tab) (inp : list N) : res (Z * list N * list N) :=
  match oid_from_der m 32 6 inp with
  | Ok (ns, r) => Ok (match id_of tab ns with Some id => id | None => 0%Z end, ns, r)
  | Absent => Absent
  | Err => Err
  | Fault => Fault
  end.
Definition no_nul (d : list N) : bool := forallb (fun c => negb (c =? 0)) d.     (* strnlen(d, dlen) == dlen *)

(* ------------------------------------------------------------------ src/x509_alg.c *)
Definition alg_to_der (tab : oid_tab) (with_null : list Z) (id : Z) : res (list N) :=
  match nodes_of tab id with
  | Some ns => bind_ok (oid_enc ns) (fun o =>
      Ok (seq_enc (o ++ (if existsb (Z.eqb id) with_null then null_to_der else []))))
  | None => Err
  end.
Definition digest_algor_to_der (id : Z) : res (list N) := alg_to_der tab_digest_algors [] id.
(* [fixed = false]: the statement "return ret" of the text, with ret = 1 after a known OID followed by
   more content: 1 with *oid = 0.  [fixed = true]: -1. *)
Definition digest_algor_from_der (fixed : bool) (inp : list N) : res (Z * list N) :=
  match type_from_der 48 inp with
  | Ok (d, rest) =>
      match oid_info_from_der tab_digest_algors d with
      | Ok (id, d1) => if is_nil d1 then Ok (id, rest) else if fixed then Err else Ok (0%Z, rest)
      | Absent => if fixed then Err else Absent
      | Err => Err
      | Fault => Fault
      end
  | Absent => Absent
  | Err => Err
  | Fault => Fault
  end.
Definition sign_algor_to_der (id : Z) : res (list N) := alg_to_der tab_sign_algors tab_sign_algors_flagged id.
Definition sign_algor_from_der (inp : list N) : res (Z * list N) :=
  seq_dec inp (fun d =>
    bind_ok (oid_info_from_der tab_sign_algors d) (fun '(id, d1) =>
      if is_nil d1 then Ok id
      else bind_ok (opt (match null_from_der d1 with Ok r => Ok (tt, r) | Absent => Absent | Err => Err | Fault => Fault end) tt d1)
             (fun '(_, d2) => at_end d2 id))).
Definition pke_algor_to_der (id : Z) : res (list N) :=
  if negb (id =? OID_sm2encrypt)%Z then Err else alg_to_der tab_pke_algors [] id.
Definition pke_algor_from_der (inp : list N) : res (Z * ptr * list N) :=
  seq_dec inp (fun d =>
    bind_ok (oid_info_from_der tab_pke_algors d) (fun '(id, d1) =>
      if is_nil d1 then Ok (id, PNull)
      else if (id =? OID_sm2encrypt)%Z then Err else Ok (id, PBuf d1))).

(* ------------------------------------------------------------------ src/x509_ext.c: Extension *)
Definition ext_id_from_der (inp : list N) : res (Z * list N * list N) := oid_info_ex tab_ext_ids inp.
Definition ext_from_der (inp : list N) : res (Z * list N * Z * list N * list N) :=
  seq_dec inp (fun d =>
    bind_ok (ext_id_from_der d) (fun '(id, ns, d1) =>
    bind_ok (obool 1 d1) (fun '(crit, d2) =>
    bind_ok (type_from_der 4 d2) (fun '(v, d3) => at_end d3 (id, ns, crit, v))))).
(* x509_exts_get_ext_by_oid: Ok None = 0 (critical -1, val NULL) *)
Definition exts_get_ext_by_oid (d : list N) (oid : Z) : res (option (Z * list N)) :=
  match find_loop (length d) ext_from_der (fun '(id, _, _, _) => (id =? oid)%Z) d with
  | Ok (Some ((_, _, crit, v), _)) => Ok (Some (crit, v))
  | Ok None => Ok None
  | Absent => Absent
  | Err => Err
  | Fault => Fault
  end.

(* ------------------------------------------------------------------ OtherName, GeneralName(s) *)
Definition other_name_from_der (inp : list N) : res (list N * list N * list N) :=
  seq_dec inp (fun d =>
    bind_ok (oid_from_der m 32 6 d) (fun '(ns, d1) =>
    bind_ok (nonempty_type_from_der 160 d1) (fun '(v, d2) => at_end d2 (ns, v)))).
Definition gn_choice (tag : N) : option Z :=
  if tag =? 160 then Some 0%Z else if tag =? 129 then Some 1%Z else if tag =? 130 then Some 2%Z
  else if tag =? 163 then Some 3%Z else if tag =? 164 then Some 4%Z else if tag =? 165 then Some 5%Z
  else if tag =? 134 then Some 6%Z else if tag =? 135 then Some 7%Z else if tag =? 136 then Some 8%Z else None.
Definition general_name_from_der (inp : list N) : res (Z * list N * list N) :=
  match any_type_from_der inp with
  | Ok (tag, d, rest) => match gn_choice tag with Some c => Ok (c, d, rest) | None => Err end
  | Absent => Absent
  | Err => Err
  | Fault => Fault
  end.
(* x509_general_names_get_next from *ptr (the bytes still to scan): Ok (Some (d, remaining)) = 1,
   Ok None = 0 with *d = NULL; gns NULL or empty is refused by the caller of this model ([gns_len = 0] => Err) *)
Definition general_names_scan (d : list N) (choice : Z) : res (option (list N * list N)) :=
  match find_loop (length d) general_name_from_der (fun '(c, _) => (c =? choice)%Z) d with
  | Ok (Some ((_, v), r)) => Ok (Some (v, r))
  | Ok None => Ok None
  | Absent => Absent
  | Err => Err
  | Fault => Fault
  end.
Definition general_names_get_first (gns : list N) (choice : Z) : res (option (list N * list N)) :=
  if is_nil gns then Err else general_names_scan gns choice.
(* x509_general_names_get_next with *ptr = gns + off *)
Definition general_names_get_next (gns : list N) (off : N) (choice : Z) : res (option (list N * list N)) :=
  if is_nil gns then Err else if len gns <? off then Err else general_names_scan (dropN off gns) choice.
(* x509_uri_as_general_names_from_der_ex: 1 with uri NULL when no URI is present *)
Definition uri_as_general_names_from_der (tag : N) (inp : list N) : res (ptr * list N) :=
  match type_from_der tag inp with
  | Ok (d, rest) =>
      match general_names_get_first d 6 with
      | Ok (Some (v, _)) => Ok (PBuf v, rest)
      | Ok None => Ok (PNull, rest)
      | Fault => Fault
      | _ => Err
      end
  | Absent => Absent
  | Err => Err
  | Fault => Fault
  end.

(* ------------------------------------------------------------------ AuthorityKeyIdentifier, BasicConstraints *)
Definition aki_from_der (inp : list N) : res (ptr * ptr * ptr * list N) :=
  seq_dec inp (fun d =>
    bind_ok (otype 128 d) (fun '(keyid, d1) =>
    bind_ok (ontype 161 d1) (fun '(issuer, d2) =>
    bind_ok (opt (as_ptr (integer_from_der 130 d2)) PNull d2) (fun '(serial, d3) =>
      at_end d3 (keyid, issuer, serial))))).
Definition basic_constraints_from_der (inp : list N) : res (Z * Z * list N) :=
  seq_dec inp (fun d =>
    if is_nil d then Err
    else bind_ok (obool 1 d) (fun '(ca, d1) =>
         bind_ok (oint 2 d1) (fun '(plc, d2) => at_end d2 (ca, plc)))).

(* ------------------------------------------------------------------ DisplayText, NoticeReference, UserNotice *)
Definition display_text_check (tag : N) (d : list N) : bool :=
  (if (tag =? 22) || (tag =? 26) || (tag =? 12) then no_nul d
   else if tag =? 30 then (len d mod 2 =? 0) else false)
  && (1 <=? len d) && (len d <=? 200).
Definition display_text_from_der (inp : list N) : res (Z * list N * list N) :=
  match inp with
  | [] => Absent
  | t :: _ =>
      if negb ((t =? 22) || (t =? 26) || (t =? 12) || (t =? 30)) then Absent
      else match any_type_from_der inp with
           | Ok (tag, d, rest) => if display_text_check tag d then Ok (Z.of_N tag, d, rest) else Err
           | Absent => Absent
           | Err => Err
           | Fault => Fault
           end
  end.
Definition notice_reference_from_der (cap : N) (inp : list N) : res (Z * list N * list N * list N) :=
  seq_dec inp (fun d =>
    bind_ok (display_text_from_der d) (fun '(tag, org, d1) =>
    bind_ok (seq_of_int_from_der m cap cap d1) (fun '(nums, d2) => at_end d2 (tag, org, nums)))).
(* absent OPTIONAL members: tag -1 / NULL / count 0, stored by the absent branches of the sub-decoders (52945f2) *)
Definition user_notice_from_der (cap : N) (inp : list N)
  : res ((Z * ptr * list N) * (Z * ptr) * list N) :=
  seq_dec inp (fun d =>
    bind_ok (match notice_reference_from_der cap d with
             | Ok (t, org, nums, r) => Ok ((t, PBuf org, nums), r)
             | Absent => Ok (((-1)%Z, PNull, []), d)
             | Err => Err | Fault => Fault end) (fun '(nref, d1) =>
    bind_ok (match display_text_from_der d1 with
             | Ok (t, v, r) => Ok ((t, PBuf v), r) | Absent => Ok (((-1)%Z, PNull), d1) | Err => Err | Fault => Fault end) (fun '(txt, d2) =>
      at_end d2 (nref, txt)))).

(* ------------------------------------------------------------------ policies *)
Definition qualifier_id_from_der (inp : list N) : res (Z * list N) := oid_info_from_der tab_qt_ids inp.
Definition policy_qualifier_info_from_der (inp : list N) : res (Z * list N * list N) :=
  seq_dec inp (fun d =>
    bind_ok (qualifier_id_from_der d) (fun '(id, d1) =>
    bind_ok (any_from_der d1) (fun '(q, d2) => at_end d2 (id, q)))).
Definition cert_policy_id_from_der (inp : list N) : res (Z * list N * list N) :=
  match oid_from_der m 32 6 inp with
  | Ok (ns, r) => Ok (if list_eqb ns arcs_any_policy then OID_any_policy else 0%Z, ns, r)
  | Absent => Absent
  | Err => Err
  | Fault => Fault
  end.
Definition policy_information_from_der (inp : list N) : res (Z * list N * ptr * list N) :=
  seq_dec inp (fun d =>
    bind_ok (cert_policy_id_from_der d) (fun '(id, ns, d1) =>
    bind_ok (otype 48 d1) (fun '(q, d2) => at_end d2 (id, ns, q)))).
Definition policy_mapping_from_der (inp : list N) : res (Z * list N * Z * list N * list N) :=
  seq_dec inp (fun d =>
    bind_ok (cert_policy_id_from_der d) (fun '(i1, n1, d1) =>
    bind_ok (cert_policy_id_from_der d1) (fun '(i2, n2, d2) => at_end d2 (i1, n1, i2, n2)))).
Definition attribute_from_der (inp : list N) : res (list N * list N * list N) :=
  seq_dec inp (fun d =>
    bind_ok (oid_from_der m 32 6 d) (fun '(ns, d1) =>
    bind_ok (nonempty_type_from_der 49 d1) (fun '(v, d2) => at_end d2 (ns, v)))).

(* ------------------------------------------------------------------ GeneralSubtree, Name / Policy constraints *)
Definition general_subtree_from_der (inp : list N) : res (Z * list N * Z * Z * list N) :=
  seq_dec inp (fun d =>
    bind_ok (general_name_from_der d) (fun '(c, base, d1) =>
    bind_ok (oint 128 d1) (fun '(mn, d2) =>
    bind_ok (oint 129 d2) (fun '(mx, d3) => at_end d3 (c, base, (if (mn <? 0)%Z then 0%Z else mn), mx))))).
Definition name_constraints_from_der (inp : list N) : res (ptr * ptr * list N) :=
  seq_dec inp (fun d =>
    bind_ok (ontype 160 d) (fun '(p, d1) =>
    bind_ok (ontype 161 d1) (fun '(e, d2) => at_end d2 (p, e)))).
Definition policy_constraints_from_der (inp : list N) : res (Z * Z * list N) :=
  seq_dec inp (fun d =>
    if is_nil d then Err
    else bind_ok (oint 128 d) (fun '(a, d1) =>
         bind_ok (oint 129 d1) (fun '(b, d2) => at_end d2 (a, b)))).

(* ------------------------------------------------------------------ KeyPurposeId, ExtKeyUsage (capacity) *)
Definition key_purpose_from_der (inp : list N) : res (Z * list N) := oid_info_from_der tab_key_purposes inp.
(* oids[max_cnt]: the loop stops at the capacity, what is left is an error *)
Definition ext_key_usage_from_der (cap : N) (inp : list N) : res (list Z * list N) :=
  seq_dec inp (fun p =>
    bind_ok (fold_loop (length p) key_purpose_from_der (fun acc : list Z => len acc <? cap) (fun acc id => Ok (acc ++ [id])) [] p)
      (fun '(acc, r) => at_end r acc)).
Definition key_purpose_to_der (id : Z) : res (list N) :=
  match nodes_of tab_key_purposes id with Some ns => oid_enc ns | None => Err end.
Fixpoint key_purposes_body (ids : list Z) : res (list N) :=
  match ids with
  | [] => Ok []
  | i :: r => bind_ok (key_purpose_to_der i) (fun a => bind_ok (key_purposes_body r) (fun b => Ok (a ++ b)))
  end.

Definition X509_MAX_KEY_PURPOSES : N := 7.
Definition ext_key_usage_to_der (ids : list Z) : res (list N) :=
  if X509_MAX_KEY_PURPOSES <? len ids then Err else bind_ok (key_purposes_body ids) (fun b => Ok (seq_enc b)).

(* ------------------------------------------------------------------ DistributionPointName and the URI helpers *)
Definition distribution_point_name_from_der (inp : list N) : res (Z * list N * list N) :=
  match any_type_from_der inp with
  | Ok (tag, d, rest) => if tag =? 160 then Ok (0%Z, d, rest) else if tag =? 161 then Ok (1%Z, d, rest) else Err
  | Absent => Absent
  | Err => Err
  | Fault => Fault
  end.
(* [u0] is what the caller's *uri shows when the function does not store it: PUnset for the text as it
   stands (nameRelativeToCRLIssuer, or an absent distributionPoint, leave *uri untouched), PNull once the
   functions store NULL first *)
Definition uri_as_dpn_from_der (u0 : ptr) (inp : list N) : res (ptr * list N) :=
  match distribution_point_name_from_der inp with
  | Ok (c, d, rest) =>
      if (c =? 0)%Z then
        match general_names_get_first d 6 with
        | Ok (Some (v, _)) => Ok (PBuf v, rest)
        | Ok None => Ok (PNull, rest)
        | Fault => Fault
        | _ => Err
        end
      else Ok (u0, rest)
  | Absent => Absent
  | Err => Err
  | Fault => Fault
  end.
Definition uri_as_explicit_dpn_from_der (u0 : ptr) (index : N) (inp : list N) : res (ptr * list N) :=
  tlv_dec (nonempty_type_from_der (160 + index) inp) (fun a =>
    bind_ok (uri_as_dpn_from_der u0 a) (fun '(u, a1) => at_end a1 u)).
Definition uri_as_dp_from_der (u0 : ptr) (inp : list N) : res (ptr * Z * ptr * list N) :=
  seq_dec inp (fun d =>
    bind_ok (opt (uri_as_explicit_dpn_from_der u0 0 d) u0 d) (fun '(u, d1) =>
    bind_ok (obits 3 d1) (fun '(reasons, d2) =>
    bind_ok (otype 48 d2) (fun '(issuer, d3) => at_end d3 (u, reasons, issuer))))).
(* loop until a point with *uri != NULL; an unset *uri (poison / stack garbage) counts as non-NULL.
   [fixed = false]: the caller's *uri is carried from one DistributionPoint to the next and is [PUnset]
   at the start; [fixed = true]: every level stores NULL before parsing. *)
Fixpoint dps_loop (fixed : bool) (fuel : nat) (u : ptr) (d : list N) : res (ptr * Z * ptr) :=
  match d with
  | [] => Ok (PNull, (-1)%Z, PNull)
  | _ => match fuel with
         | O => Fault
         | S k => match uri_as_dp_from_der (if fixed then PNull else u) d with
                  | Ok ((u', rs, ci), r) => if negb (ptr_is_null u') then Ok (u', rs, ci) else dps_loop fixed k u' r
                  | Fault => Fault
                  | _ => Err
                  end
         end
  end.
Definition uri_as_dps_from_der (fixed : bool) (inp : list N) : res (ptr * Z * ptr * list N) :=
  seq_dec inp (fun d => dps_loop fixed (length d) (if fixed then PNull else PUnset) d).

(* ------------------------------------------------------------------ AuthorityInfoAccess *)
Definition access_method_from_der (inp : list N) : res (Z * list N) :=
  match oid_info_ex tab_access_methods inp with
  | Ok (id, _, r) => if (id =? 0)%Z then Err else Ok (id, r)
  | Absent => Absent
  | Err => Err
  | Fault => Fault
  end.
Definition access_description_from_der (inp : list N) : res (Z * list N * list N) :=
  seq_dec inp (fun d =>
    bind_ok (access_method_from_der d) (fun '(id, d1) =>
    bind_ok (general_name_from_der d1) (fun '(c, uri, d2) =>
      if negb (is_nil d2) then Err
      else if negb (c =? 6)%Z then Err
      else if is_nil uri then Err else Ok (id, uri)))).
(* state: ca_issuers uri, ocsp uri; a second one of either kind is an error *)
Definition aia_from_der (inp : list N) : res (ptr * ptr * list N) :=
  tlv_dec (nonempty_type_from_der 48 inp) (fun d =>
    bind_ok (fold_loop (length d) access_description_from_der (fun _ : ptr * ptr => true)
               (fun '(ca, oc) '(id, uri) =>
                  if (id =? OID_ad_ca_issuers)%Z then (if ptr_is_null ca then Ok (PBuf uri, oc) else Err)
                  else if (id =? OID_ad_ocsp)%Z then (if ptr_is_null oc then Ok (ca, PBuf uri) else Err)
                  else Err)
               (PNull, PNull) d)
      (fun '(s, _) => Ok s)).

(* ------------------------------------------------------------------ src/x509_cer.c: names *)
Definition name_type_from_der (inp : list N) : res (Z * list N) := oid_info_from_der tab_name_types inp.
Definition is_dirname_tag (t : N) : bool := (t =? 20) || (t =? 19) || (t =? 28) || (t =? 12) || (t =? 30).
(* x509_directory_name_check: 0 for the empty string *)
Definition directory_name_check (tag : N) (d : list N) : res unit :=
  if is_nil d then Absent
  else if (tag =? 20) || (tag =? 19) || (tag =? 28) || (tag =? 12) then (if no_nul d then Ok tt else Err)
  else if tag =? 30 then (if len d mod 2 =? 0 then Ok tt else Err)
  else Err.
Definition directory_name_from_der (inp : list N) : res (Z * list N * list N) :=
  match inp with
  | [] => Absent
  | t :: _ =>
      if negb (is_dirname_tag t) then Absent
      else bind_ok (any_type_from_der inp) (fun '(tag, d, rest) =>
             bind_ok (directory_name_check tag d) (fun _ => Ok (Z.of_N tag, d, rest)))
  end.
Definition explicit_directory_name_from_der (index : N) (inp : list N) : res (Z * list N * list N) :=
  tlv_dec (nonempty_type_from_der (160 + index) inp) (fun p =>
    bind_ok (directory_name_from_der p) (fun '(t, d, p1) => at_end p1 (t, d))).
Definition edi_party_name_from_der (inp : list N) : res ((Z * ptr) * (Z * list N) * list N) :=
  seq_dec inp (fun p =>
    bind_ok (match explicit_directory_name_from_der 0 p with
             | Ok (t, d, r) => Ok ((t, PBuf d), r) | Absent => Ok (((-1)%Z, PNull), p) | Err => Err | Fault => Fault end) (fun '(a, p1) =>
    bind_ok (explicit_directory_name_from_der 1 p1) (fun '(t, d, p2) => at_end p2 (a, (t, d))))).
Fixpoint name_limit (tab : list (Z * bool * N * N)) (id : Z) : option (bool * N * N) :=
  match tab with
  | [] => None
  | (i, pr, mn, mx) :: r => if (i =? id)%Z then Some (pr, mn, mx) else name_limit r id
  end.
Definition attr_type_and_value_check (id : Z) (tag : Z) (v : list N) : bool :=
  match name_limit tab_name_limits id with
  | Some (pr, mn, mx) =>
      if pr && negb (tag =? 19)%Z then false
      else match directory_name_check (Z.to_N tag) v with
           | Ok _ => (mn <=? len v) && (len v <=? mx)
           | _ => false
           end
  | None => false
  end.
Definition attr_type_and_value_from_der (inp : list N) : res (Z * Z * list N * list N) :=
  seq_dec inp (fun d =>
    bind_ok (name_type_from_der d) (fun '(id, d1) =>
    bind_ok (directory_name_from_der d1) (fun '(tag, v, d2) =>
      if negb (attr_type_and_value_check id tag v) then Err else at_end d2 (id, tag, v)))).
(* x509_rdn_check on a non-empty buffer: every element an AttributeTypeAndValue with a non-empty value *)
Definition rdn_check (d : list N) : res unit :=
  match fold_loop (length d) attr_type_and_value_from_der (fun _ : unit => true)
          (fun _ '(_, _, v) => if is_nil v then Err else Ok tt) tt d with
  | Ok _ => if is_nil d then Absent else Ok tt
  | Absent => Absent
  | Err => Err
  | Fault => Fault
  end.
Definition rdn_from_der (inp : list N) : res (Z * Z * list N * ptr * list N) :=
  tlv_dec (nonempty_type_from_der 49 inp) (fun d =>
    bind_ok (attr_type_and_value_from_der d) (fun '(id, tag, v, d1) =>
      match rdn_check d1 with
      | Ok _ => Ok (id, tag, v, PBuf d1)
      | Absent => Ok (id, tag, v, PNull)
      | Err => Err
      | Fault => Fault
      end)).
(* x509_name_check: 1 / 0 (empty) / -1 *)
Definition name_check (d : list N) : res unit :=
  match fold_loop (length d) (nonempty_type_from_der 49) (fun _ : unit => true)
          (fun _ rdn => match rdn_check rdn with Ok _ => Ok tt | Fault => Fault | _ => Err end) tt d with
  | Ok _ => if is_nil d then Absent else Ok tt
  | Absent => Absent
  | Err => Err
  | Fault => Fault
  end.

(* ------------------------------------------------------------------ version, Time, Validity, Extensions *)
Definition explicit_version_from_der (index : N) (inp : list N) : res (Z * list N) :=
  tlv_dec (nonempty_type_from_der (160 + index) inp) (fun d =>
    bind_ok (int_from_der m 2 d) (fun '(v, d1) =>
      if negb (is_nil d1) then Err else if 2 <? v then Err else Ok (Z.of_N v))).
Definition x509_time_from_der (inp : list N) : res (N * list N) :=
  match inp with
  | [] => Absent
  | t :: _ =>
      if t =? 23 then bind_ok (time_from_der true 23 inp) (fun x => Ok x)
      else if t =? 24 then bind_ok (time_from_der false 24 inp) (fun x => Ok x)
      else Absent
  end.
Definition validity_from_der (inp : list N) : res (N * N * list N) :=
  seq_dec inp (fun d =>
    bind_ok (x509_time_from_der d) (fun '(nb, d1) =>
    bind_ok (x509_time_from_der d1) (fun '(na, d2) =>
      if negb (is_nil d2) then Err else if na <=? nb then Err else Ok (nb, na)))).
Definition explicit_exts_from_der (index : N) (inp : list N) : res (list N * list N) :=
  tlv_dec (nonempty_type_from_der (160 + index) inp) (fun p =>
    bind_ok (type_from_der 48 p) (fun '(d, p1) => at_end p1 d)).

(* ------------------------------------------------------------------ TBSCertificate, signed wrapper, Certificate *)
Record tbs_cert := {
  t_version : Z; t_serial : list N; t_sigalg : Z; t_issuer : list N; t_not_before : N; t_not_after : N;
  t_subject : list N; t_pub : list N; t_issuer_uid : ptr; t_subject_uid : ptr; t_exts : ptr }.

Section Cert.
  Variable pt_ok : list N -> bool.

  Definition tbs_cert_from_der (inp : list N) : res (tbs_cert * list N) :=
    seq_dec inp (fun d =>
      bind_ok (opt (explicit_version_from_der 0 d) (-1)%Z d) (fun '(ver, d1) =>
      bind_ok (integer_from_der 2 d1) (fun '(serial, d2) =>
      bind_ok (sign_algor_from_der d2) (fun '(alg, d3) =>
      bind_ok (type_from_der 48 d3) (fun '(issuer, d4) =>
      bind_ok (validity_from_der d4) (fun '(nb, na, d5) =>
      bind_ok (type_from_der 48 d5) (fun '(subject, d6) =>
      bind_ok (sm2_pubinfo_from_der pt_ok d6) (fun '(xy, d7) =>
      bind_ok (opt (as_ptr (bit_octets_from_der m 129 d7)) PNull d7) (fun '(iu, d8) =>
      bind_ok (opt (as_ptr (bit_octets_from_der m 130 d8)) PNull d8) (fun '(su, d9) =>
      bind_ok (opt (as_ptr (explicit_exts_from_der 3 d9)) PNull d9) (fun '(exts, d10) =>
        at_end d10 (Build_tbs_cert ver serial alg issuer nb na subject xy iu su exts)))))))))))).

  Definition signed_from_der (inp : list N) : res (list N * Z * list N * list N) :=
    seq_dec inp (fun d =>
      bind_ok (any_from_der d) (fun '(tbs, d1) =>
      bind_ok (sign_algor_from_der d1) (fun '(alg, d2) =>
      bind_ok (bit_octets_from_der m 3 d2) (fun '(sig, d3) => at_end d3 (tbs, alg, sig))))).

  (* x509_cert_get_details on the bytes a[0..alen): everything or -1 *)
  Definition cert_get_details (a : list N) : res (tbs_cert * Z * list N) :=
    bind_ok (signed_from_der a) (fun '(tbs, alg, sig, r) =>
      if negb (is_nil r) then Err
      else bind_ok (tbs_cert_from_der tbs) (fun '(t, _) => Ok (t, alg, sig))).
  Definition cert_from_der (inp : list N) : res (list N * list N) :=
    match any_from_der inp with
    | Ok (a, rest) => bind_ok (cert_get_details a) (fun _ => Ok (a, rest))
    | Absent => Absent
    | Err => Err
    | Fault => Fault
    end.
End Cert.
