(* Impl model of src/base64.c: block functions, the 48-byte line encoder and the 64-character
   block decoder with its padding / end-of-data automaton. *)
From GmVerif Require Import Base.Bytes Codec.Der.
Local Open Scope N_scope.

Definition bin2ascii_tab : list N :=
  [65;66;67;68;69;70;71;72;73;74;75;76;77;78;79;80;81;82;83;84;85;86;87;88;89;90;
   97;98;99;100;101;102;103;104;105;106;107;108;109;110;111;112;113;114;115;116;117;118;119;120;121;122;
   48;49;50;51;52;53;54;55;56;57;43;47].
Definition bin2ascii (v : N) : N := nth (N.to_nat (v mod 64)) bin2ascii_tab 0.

Definition B64_EOLN : N := 240.
Definition B64_CR : N := 241.
Definition B64_EOF : N := 242.
Definition B64_WS : N := 224.
Definition B64_ERROR : N := 255.

Definition ascii2bin_tab : list N :=
  [255;255;255;255;255;255;255;255; 255;224;240;255;255;241;255;255;
   255;255;255;255;255;255;255;255; 255;255;255;255;255;255;255;255;
   224;255;255;255;255;255;255;255; 255;255;255;62;255;242;255;63;
   52;53;54;55;56;57;58;59; 60;61;255;255;255;0;255;255;
   255;0;1;2;3;4;5;6; 7;8;9;10;11;12;13;14;
   15;16;17;18;19;20;21;22; 23;24;25;255;255;255;255;255;
   255;26;27;28;29;30;31;32; 33;34;35;36;37;38;39;40;
   41;42;43;44;45;46;47;48; 49;50;51;255;255;255;255;255].
Definition ascii2bin (a : N) : N :=
  if negb (N.land a 128 =? 0) then B64_ERROR else nth (N.to_nat a) ascii2bin_tab 255.
Definition not_base64 (v : N) : bool := N.lor v 19 =? 243.      (* ((a)|0x13) == 0xF3 *)
Definition is_base64 (v : N) : bool := negb (not_base64 v).

(* ------------------------------------------------------------------ base64_encode_block *)
(* l = f0<<16 | f1<<8 | f2; sextets l>>18, l>>12, l>>6, l (each & 0x3f) *)
Fixpoint encode_block (f : list N) : list N :=
  match f with
  | [] => []
  | [a] =>
      let l := a * 65536 in
      [bin2ascii (l / 262144); bin2ascii (l / 4096); 61; 61]
  | [a; b] =>
      let l := a * 65536 + b * 256 in
      [bin2ascii (l / 262144); bin2ascii (l / 4096); bin2ascii (l / 64); 61]
  | a :: b :: c :: r =>
      let l := a * 65536 + b * 256 + c in
      bin2ascii (l / 262144) :: bin2ascii (l / 4096) :: bin2ascii (l / 64) :: bin2ascii l
      :: encode_block r
  end.

(* ------------------------------------------------------------------ base64_decode_block *)
(* [f] = the bytes from the pointer to the end of the buffer, [n] = declared count.
   "while ((conv_ascii2bin( *f ) == B64_WS) && (n > 0))" reads *f before testing n. *)
Fixpoint trim_ws (fuel : nat) (f : list N) (n : N) : res (list N * N) :=
  match fuel with
  | O => Fault
  | S k =>
      match f with
      | [] => Fault                                        (* read one past the data *)
      | c :: r => if (ascii2bin c =? B64_WS) && (0 <? n) then trim_ws k r (n - 1) else Ok (f, n)
      end
  end.
(* while ((n > 3) && (B64_NOT_BASE64(conv_ascii2bin(f[n - 1])))) n--; *)
Fixpoint trim_tail (fuel : nat) (f : list N) (n : N) : N :=
  match fuel with
  | O => n
  | S k => if (3 <? n) && not_base64 (ascii2bin (nth (N.to_nat (n - 1)) f 0)) then trim_tail k f (n - 1) else n
  end.
Fixpoint decode_groups (f : list N) : option (list N) :=
  match f with
  | a :: b :: c :: d :: r =>
      let a' := ascii2bin a in let b' := ascii2bin b in let c' := ascii2bin c in let d' := ascii2bin d in
      if negb (N.land a' 128 =? 0) || negb (N.land b' 128 =? 0)
         || negb (N.land c' 128 =? 0) || negb (N.land d' 128 =? 0) then None
      else
        let l := a' * 262144 + b' * 4096 + c' * 64 + d' in
        match decode_groups r with
        | Some o => Some ((l / 65536) mod 256 :: (l / 256) mod 256 :: l mod 256 :: o)
        | None => None
        end
  | _ => Some []
  end.
(* Ok o = returns length o (>= 0); Err = returns -1 *)
Definition decode_block (f : list N) (n : N) : res (list N) :=
  match trim_ws (S (N.to_nat n)) f n with
  | Ok (f1, n1) =>
      let n2 := trim_tail (N.to_nat n1) f1 n1 in
      if negb (n2 mod 4 =? 0) then Err
      else match decode_groups (takeN n2 f1) with Some o => Ok o | None => Err end
  | Fault => Fault
  | _ => Err
  end.

(* ------------------------------------------------------------------ streaming encoder *)
(* state = enc_data[0..num) *)
Fixpoint enc_lines (fuel : nat) (inp : list N) : list N * list N :=    (* while (inl >= 48) *)
  match fuel with
  | O => ([], inp)
  | S k =>
      if 48 <=? len inp then
        let '(o, r) := enc_lines k (dropN 48 inp) in (encode_block (takeN 48 inp) ++ [10] ++ o, r)
      else ([], inp)
  end.

(* returns (return value, new state, output).  out is also NUL-terminated one byte beyond. *)
Definition encode_update (buf : list N) (inp : list N) : N * list N * list N :=
  if len inp =? 0 then (0, buf, [])
  else if len inp <? 48 - len buf then (1, buf ++ inp, [])
  else
    let '(o1, inp1) :=
      if negb (len buf =? 0) then
        let i := 48 - len buf in
        (encode_block (buf ++ takeN i inp) ++ [10], dropN i inp)
      else ([], inp) in
    let '(o2, rest) := enc_lines (length inp1) inp1 in
    (1, rest, o1 ++ o2).

Definition encode_finish (buf : list N) : list N :=
  if len buf =? 0 then [] else encode_block buf ++ [10].

(* ------------------------------------------------------------------ streaming decoder *)
Record dstate := { d_buf : list N;      (* enc_data[0..n) *)
                   d_eof : N; d_out : list N }.

Inductive dstep := Continue (s : dstate) | Stop (rv : Z) (s : dstate) | SeenEof (s : dstate).

Definition dec_flush (s : dstate) : option dstate :=        (* None: rv = -1 with n = 0 *)
  match decode_block (d_buf s) (len (d_buf s)) with
  | Ok o =>
      if len o <? d_eof s then None
      else Some {| d_buf := []; d_eof := d_eof s;
                   d_out := d_out s ++ takeN (len o - d_eof s) o |}
  | _ => None
  end.

Definition dec_char (s : dstate) (tmp : N) : dstep :=
  let v := ascii2bin tmp in
  if v =? B64_ERROR then Stop (-1) s
  else
    let eof := if tmp =? 61 then d_eof s + 1 else d_eof s in
    if negb (tmp =? 61) && (0 <? d_eof s) && is_base64 v then Stop (-1) s
    else if 2 <? eof then Stop (-1) s
    else
      let s1 := {| d_buf := d_buf s; d_eof := eof; d_out := d_out s |} in
      if v =? B64_EOF then SeenEof s1
      else
        if is_base64 v && (64 <=? len (d_buf s)) then Stop (-1) s1
        else
          let s2 := if is_base64 v
                    then {| d_buf := d_buf s ++ [tmp]; d_eof := eof; d_out := d_out s |}
                    else s1 in
          if len (d_buf s2) =? 64 then
            match dec_flush s2 with
            | Some s3 => Continue s3
            | None => Stop (-1) {| d_buf := []; d_eof := eof; d_out := d_out s2 |}
            end
          else Continue s2.

Definition dec_tail (seof : bool) (s : dstate) : Z * dstate :=
  if 0 <? len (d_buf s) then
    if len (d_buf s) mod 4 =? 0 then
      match dec_flush s with
      | Some s' => (if seof || (0 <? d_eof s') then 0%Z else 1%Z, s')
      | None => ((-1)%Z, {| d_buf := []; d_eof := d_eof s; d_out := d_out s |})
      end
    else if seof then ((-1)%Z, s)
    else (1%Z, s)
  else (if seof || (0 <? d_eof s) then 0%Z else 1%Z, s).

Fixpoint dec_loop (s : dstate) (inp : list N) : Z * dstate :=
  match inp with
  | [] => dec_tail false s
  | c :: r =>
      match dec_char s c with
      | Continue s' => dec_loop s' r
      | Stop rv s' => (rv, s')
      | SeenEof s' => dec_tail true s'
      end
  end.

(* base64_decode_update on state enc_data[0..n) = buf: (rv, new buf, bytes counted in *outl) *)
Definition decode_update (buf : list N) (inp : list N) : Z * list N * list N :=
  let eof0 := match rev buf with
              | 61 :: 61 :: _ => 2
              | 61 :: _ => 1
              | _ => 0
              end in
  let s0 := {| d_buf := buf; d_eof := eof0; d_out := [] |} in
  if len inp =? 0 then (0%Z, buf, [])
  else let '(rv, s) := dec_loop s0 inp in (rv, d_buf s, d_out s).

(* base64_decode_finish: Ok out = 1, Err = -1 (state kept) *)
Definition decode_finish (buf : list N) : res (list N) :=
  if len buf =? 0 then Ok []
  else match decode_block buf (len buf) with
       | Ok o => Ok o
       | Fault => Fault
       | _ => Err
       end.

(* whole-message helpers used by the theorems and the driver *)
Fixpoint encode_chunks (buf : list N) (chunks : list (list N)) : list N :=
  match chunks with
  | [] => encode_finish buf
  | c :: r => let '(_, buf', o) := encode_update buf c in o ++ encode_chunks buf' r
  end.
Definition encode_all (bs : list N) : list N := encode_chunks [] [bs].

(* Some out = every update returned >= 0 and finish returned 1 *)
Fixpoint decode_chunks (buf : list N) (chunks : list (list N)) : option (list N) :=
  match chunks with
  | [] => match decode_finish buf with Ok o => Some o | _ => None end
  | c :: r =>
      let '(rv, buf', o) := decode_update buf c in
      if (rv <? 0)%Z then None
      else match decode_chunks buf' r with Some o' => Some (o ++ o') | None => None end
  end.

(* base64_decode_block is a public entry point.  AsIs: the white-space loop tests
   "conv_ascii2bin( *f ) == B64_WS" before "n > 0", so an input consisting only of blanks (or
   n = 0) is read one byte past its end ([decode_block] = Fault).  Fixed: the two operands
   swapped; the loop then stops with n = 0 and the function returns 0 bytes. *)
Definition decode_block_m (m : mode) (f : list N) (n : N) : res (list N) :=
  if fx_b64_ws m then match decode_block f n with Fault => Ok [] | x => x end
  else decode_block f n.
