(* The interface-level opening function [sm2_p8_open_c] (attributes never returned) inherits the
   structural guarantee of [sm2_p8_open]. *)
From GmVerif Require Import Base.ListX Base.Bytes Codec.Der Codec.DerProofs Codec.Pkcs Codec.PkcsProofs.
Local Open Scope N_scope.

Section Open.
  Variable pub_of : list N -> list N.
  Variable pt_ok : list N -> bool.
  Variable kdf : list N -> list N -> Z -> list N.
  Variable cbcdec : list N -> list N -> list N -> option (list N).

  Lemma sm2_p8_open_c_inv pass inp d pub attrs rest :
    sm2_p8_open_c pub_of pt_ok kdf cbcdec pass inp = Ok (d, pub, attrs, rest) ->
    attrs = None /\ exists a, sm2_p8_open pub_of pt_ok kdf cbcdec pass inp = Ok (d, pub, a, rest).
  Proof.
    unfold sm2_p8_open_c. destruct (sm2_p8_open pub_of pt_ok kdf cbcdec pass inp) as [[[[d' pub'] a'] rest']| | |]; try discriminate.
    intros H; injection H as <- <- <- <-. split; [reflexivity|eexists; reflexivity].
  Qed.

  (* wrong-password clause: whatever the password, success means that the ciphertext decrypted with
     valid padding under the key derived from THIS password, that the plaintext is exactly one
     PrivateKeyInfo, and that its public key is [d]G *)
  Theorem sm2_p8_open_c_sound pass inp d pub attrs rest :
    sm2_p8_open_c pub_of pt_ok kdf cbcdec pass inp = Ok (d, pub, attrs, rest) ->
    attrs = None /\
    exists p enced pt a, p8e_from_der inp = Ok (p, enced, rest)
      /\ cbcdec (kdf pass (p_salt p) (p_iter p)) (p_iv p) enced = Some pt
      /\ sm2_p8_from_der pub_of pt_ok pt = Ok (d, pub, a, [])
      /\ pub = pub_of d /\ d_ok d = true /\ pt_ok (4 :: pub) = true.
  Proof.
    intros H. apply sm2_p8_open_c_inv in H. destruct H as [-> [a H]]. split; [reflexivity|].
    destruct (sm2_p8_open_sound _ _ _ _ _ _ _ _ _ _ H) as (p & enced & pt & H1 & H2 & H3 & H4 & H5 & H6).
    exists p, enced, pt, a. repeat split; assumption.
  Qed.

  Lemma sm2_p8_open_c_nofault pass inp : sm2_p8_open_c pub_of pt_ok kdf cbcdec pass inp <> Fault.
  Proof.
    unfold sm2_p8_open_c. pose proof (sm2_p8_open_nofault pub_of pt_ok kdf cbcdec pass inp) as NF.
    destruct (sm2_p8_open pub_of pt_ok kdf cbcdec pass inp) as [[[[? ?] ?] ?]| | |]; congruence.
  Qed.
End Open.

(* ------------------------------------------------------------------ decode determines the WHOLE target object *)
Section Whole.
  Variable pub_of : list N -> list N.
  Variable pt_ok : list N -> bool.

  Lemma sm2_pub_from_der_point inp xy rest :
    sm2_pub_from_der pt_ok inp = Ok (xy, rest) -> len xy = 64 /\ pt_ok (4 :: xy) = true.
  Proof.
    unfold sm2_pub_from_der. destruct (bit_octets_from_der m 3 inp) as [[d r]| | |]; try discriminate.
    destruct (N.eqb_spec (len d) 65) as [L|]; cbn [negb]; [|discriminate].
    destruct d as [|c t]; [rewrite len_nil in L; lia|]. cbn [nth].
    destruct (N.eqb_spec c 4) as [->|]; cbn [negb]; [|discriminate].
    destruct (pt_ok (4 :: t)) eqn:P; cbn [negb]; [|discriminate].
    intros H; injection H as <- <-. change (dropN 1 (4 :: t)) with t. rewrite len_cons in L. split; [lia|exact P].
  Qed.

  (* a public-key decoder stores the point AND the private scalar 0: the result does not depend on
     what the caller's SM2_KEY held before *)
  Theorem sm2_pubkey_from_der_whole inp k rest :
    sm2_pubkey_from_der pt_ok inp = Ok (k, rest) ->
    k_priv k = zeros 32 /\ len (k_pub k) = 64 /\ pt_ok (4 :: k_pub k) = true.
  Proof.
    unfold sm2_pubkey_from_der. destruct (sm2_pub_from_der pt_ok inp) as [[xy r]| | |] eqn:E; try discriminate.
    intros H; injection H as <- <-. cbn [k_priv k_pub]. split; [reflexivity|]. exact (sm2_pub_from_der_point _ _ _ E).
  Qed.

  Theorem sm2_pubkeyinfo_from_der_whole inp k rest :
    sm2_pubkeyinfo_from_der pt_ok inp = Ok (k, rest) -> k_priv k = zeros 32.
  Proof.
    unfold sm2_pubkeyinfo_from_der. destruct (sm2_pubinfo_from_der pt_ok inp) as [[xy r]| | |]; try discriminate.
    intros H; injection H as <- <-. reflexivity.
  Qed.

  Theorem sm2_pubkeyinfo_roundtrip xy e rest :
    length xy = 64%nat -> pt_ok (4 :: xy) = true -> sm2_pubinfo_to_der xy = Ok e ->
    sm2_pubkeyinfo_from_der pt_ok (e ++ rest) = Ok ({| k_priv := zeros 32; k_pub := xy |}, rest).
  Proof.
    intros H1 H2 H3. unfold sm2_pubkeyinfo_from_der. rewrite (sm2_pubinfo_roundtrip pub_of pt_ok xy e rest H1 H2 H3). reflexivity.
  Qed.

  (* a private-key decoder stores d and [d]G *)
  Theorem sm2_privkey_from_der_whole inp k rest :
    sm2_privkey_from_der pub_of pt_ok inp = Ok (k, rest) ->
    len (k_priv k) = 32 /\ d_ok (k_priv k) = true /\ k_pub k = pub_of (k_priv k) /\ len (k_pub k) = 64.
  Proof.
    unfold sm2_privkey_from_der. destruct (sm2_priv_from_der pub_of pt_ok inp) as [[[d pub] r]| | |] eqn:E; try discriminate.
    intros H; injection H as <- <-. cbn [k_priv k_pub].
    destruct (sm2_priv_from_der_sound pub_of pt_ok _ _ _ _ E) as (A & B & C & _ & D). auto.
  Qed.
End Whole.
