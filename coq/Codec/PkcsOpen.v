(* The interface-level opening function [sm2_p8_open_c] (attributes never returned) inherits the
   structural guarantee of [sm2_p8_open]. *)
From GmVerif Require Import Base.ListX Base.Bytes Codec.Der Codec.DerProofs Codec.Pkcs Codec.PkcsProofs.
Local Open Scope N_scope.

Section Open.
  Variable pub_of : list N -> list N.
  Variable pt_ok : list N -> bool.
  Variable kdf : list N -> list N -> Z -> list N.
  Variable cbcdec : list N -> list N -> list N -> option (list N).

  Lemma sm2_p8_open_c_inv pass inp d pub attrs rest :
    sm2_p8_open_c pub_of pt_ok kdf cbcdec pass inp = Ok (d, pub, attrs, rest) ->
    attrs = None /\ exists a, sm2_p8_open pub_of pt_ok kdf cbcdec pass inp = Ok (d, pub, a, rest).
  Proof.
    unfold sm2_p8_open_c. destruct (sm2_p8_open pub_of pt_ok kdf cbcdec pass inp) as [[[[d' pub'] a'] rest']| | |]; try discriminate.
    intros H; injection H as <- <- <- <-. split; [reflexivity|eexists; reflexivity].
  Qed.

  (* wrong-password clause: whatever the password, success means that the ciphertext decrypted with
     valid padding under the key derived from THIS password, that the plaintext is exactly one
     PrivateKeyInfo, and that its public key is [d]G *)
  Theorem sm2_p8_open_c_sound pass inp d pub attrs rest :
    sm2_p8_open_c pub_of pt_ok kdf cbcdec pass inp = Ok (d, pub, attrs, rest) ->
    attrs = None /\
    exists p enced pt a, p8e_from_der inp = Ok (p, enced, rest)
      /\ cbcdec (kdf pass (p_salt p) (p_iter p)) (p_iv p) enced = Some pt
      /\ sm2_p8_from_der pub_of pt_ok pt = Ok (d, pub, a, [])
      /\ pub = pub_of d /\ d_ok d = true /\ pt_ok (4 :: pub) = true.
  Proof.
    intros H. apply sm2_p8_open_c_inv in H. destruct H as [-> [a H]]. split; [reflexivity|].
    destruct (sm2_p8_open_sound _ _ _ _ _ _ _ _ _ _ H) as (p & enced & pt & H1 & H2 & H3 & H4 & H5 & H6).
    exists p, enced, pt, a. repeat split; assumption.
  Qed.

  Lemma sm2_p8_open_c_nofault pass inp : sm2_p8_open_c pub_of pt_ok kdf cbcdec pass inp <> Fault.
  Proof.
    unfold sm2_p8_open_c. pose proof (sm2_p8_open_nofault pub_of pt_ok kdf cbcdec pass inp) as NF.
    destruct (sm2_p8_open pub_of pt_ok kdf cbcdec pass inp) as [[[[? ?] ?] ?]| | |]; congruence.
  Qed.
End Open.
