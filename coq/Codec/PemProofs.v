(* Proofs about the PEM model (Codec/Pem.v, src/pem.c) over the base64 stream model:
   1. pem_write: the 48-byte update calls produce encode_all data between the BEGIN and END lines;
      capacity of out[168];
   2-6. THE round trip  pem_read name (pem_write name data ++ tail) = (data, tail)  for names of at
      most 62 characters without NUL / CR / LF, any maxlen >= len data;
   7. every input: len data <= maxlen, shape of an accepted file, the unread rest;
   8. every input: no Fault, the line and the output of every base64_decode_update call fit
      line[80] / buf[128], pem_read = Absent only at end of file, the fuel is adequate;
   9. refusals: wrong BEGIN line, no END line, character outside the alphabet, maxlen too small;
   11. the same text with "\r\n" line ends reads the same;  12. names longer than 62 characters. *)
From GmVerif Require Import Base.ListX Base.Bytes Codec.Der Codec.DerProofs Codec.Base64 Codec.Base64Proofs Codec.Pkcs Codec.Pem.
From Coq Require Import ZifyN ZifyNat ZifyBool.
Ltac Zify.zify_post_hook ::= Z.div_mod_to_equations.
Local Open Scope N_scope.

(* ------------------------------------------------------------------ 0. helpers *)
Lemma list_eqb_refl a : list_eqb a a = true.
Proof. induction a as [|x a IH]; [reflexivity|]. cbn [list_eqb]. rewrite N.eqb_refl, IH. reflexivity. Qed.
Theorem list_eqb_eq a : forall b, list_eqb a b = true <-> a = b.
Proof.
  induction a as [|x a IH]; intros [|y b]; cbn [list_eqb]; split; intros H; try reflexivity; try discriminate H.
  - apply andb_true_iff in H. destruct H as [H1 H2]. apply N.eqb_eq in H1. apply IH in H2. subst. reflexivity.
  - injection H as -> ->. rewrite N.eqb_refl. apply list_eqb_refl.
Qed.
Lemma list_eqb_neq a b : a <> b -> list_eqb a b = false.
Proof. intros H. destruct (list_eqb a b) eqn:E; [|reflexivity]. apply list_eqb_eq in E. contradiction. Qed.

Lemma dropN_length_lt {A} (l : list A) : l <> [] -> (length (dropN 48 l) < length l)%nat.
Proof. intros H. unfold dropN. rewrite skipn_length. destruct l; [congruence|]. cbn [length]. lia. Qed.

(* ------------------------------------------------------------------ 1. pem_write *)
Lemma pem_enc_loop_canon fuel : forall buf data, (length data <= fuel)%nat -> len buf < 48 ->
  pem_enc_loop fuel buf data = b64_canon (buf ++ data).
Proof.
  induction fuel as [|f IH]; intros buf data Hf Hb.
  - destruct data; [|cbn [length] in Hf; lia]. cbn [pem_enc_loop]. rewrite app_nil_r.
    apply encode_finish_canon. exact Hb.
  - cbn [pem_enc_loop]. destruct data as [|x r] eqn:Ed.
    + rewrite app_nil_r. apply encode_finish_canon. exact Hb.
    + rewrite <- Ed. assert (Hne : data <> []) by (rewrite Ed; discriminate).
      assert (Hf' : (length data <= S f)%nat) by (rewrite Ed; exact Hf).
      clear Ed Hf.
      destruct (encode_update buf (takeN 48 data)) as [[rv buf'] o] eqn:E.
      destruct (encode_update_spec _ _ _ _ _ Hb E) as (Hb' & Hc & _).
      rewrite IH; [|pose proof (dropN_length_lt data Hne); lia|exact Hb'].
      rewrite <- Hc. rewrite take_drop. reflexivity.
Qed.

(* the writer's 48-byte calls produce the text of the one-shot encoder *)
Theorem pem_enc_loop_encode_all data : pem_enc_loop (length data) [] data = encode_all data.
Proof.
  rewrite pem_enc_loop_canon by (rewrite ?len_nil; lia). rewrite encode_all_canon. reflexivity.
Qed.
(* the same as a chunking statement: the calls are encode_chunks on the 48-byte slices *)
Theorem pem_enc_loop_chunks data :
  pem_enc_loop (length data) [] data = encode_chunks [] (split48 (length data) data).
Proof.
  rewrite pem_enc_loop_encode_all, encode_chunking_invariant, split48_concat by lia. reflexivity.
Qed.

Definition pem_header (name : list N) : list N := dashes5 ++ [66; 69; 71; 73; 78; 32] ++ name ++ dashes5 ++ [10].
Definition pem_footer (name : list N) : list N := dashes5 ++ [69; 78; 68; 32] ++ name ++ dashes5 ++ [10].

Theorem pem_write_spec name data : data <> [] ->
  pem_write name data = Some (pem_header name ++ encode_all data ++ pem_footer name).
Proof.
  intros H. unfold pem_write. destruct (N.eqb_spec (len data) 0) as [E|E].
  - apply len_0 in E. contradiction.
  - rewrite pem_enc_loop_encode_all. reflexivity.
Qed.
Theorem pem_write_empty name : pem_write name [] = None.
Proof. reflexivity. Qed.
Theorem pem_write_some name data text : pem_write name data = Some text ->
  data <> [] /\ text = pem_header name ++ encode_all data ++ pem_footer name.
Proof.
  intros H. destruct data as [|x r]; [discriminate H|].
  split; [discriminate|]. rewrite pem_write_spec in H by discriminate. injection H as <-. reflexivity.
Qed.

(* every base64_encode_update call of the loop: at most 48 bytes with fewer than 48 pending ones
   write at most 65 characters (+ NUL) into out[168]; in fact the pending buffer stays empty
   after every full slice *)
Theorem pem_write_update_capacity buf inp rv buf' o : len buf < 48 -> len inp <= 48 ->
  encode_update buf inp = (rv, buf', o) -> len o <= 65 /\ len buf' < 48.
Proof.
  intros Hb Hi E. destruct (encode_update_capacity _ _ _ _ _ Hb E) as (A & B & C). split; [|exact C].
  rewrite A. lia.
Qed.
Theorem pem_write_full_slice inp rv buf' o : len inp = 48 ->
  encode_update [] inp = (rv, buf', o) -> buf' = [] /\ o = encode_block inp ++ [10].
Proof.
  intros Hi E. destruct (encode_update_spec [] _ _ _ _ ltac:(rewrite len_nil; lia) E) as (_ & Hc & A & B).
  rewrite len_nil, Hi in A, B. change ((0 + 48) mod 48) with 0 in B. apply len_0 in B. subst buf'.
  split; [reflexivity|]. specialize (Hc []). cbn [app] in Hc. rewrite app_nil_r in Hc.
  rewrite canon_short in Hc; [|intros ->; discriminate Hi|lia]. change (b64_canon []) with (@nil N) in Hc.
  rewrite app_nil_r in Hc. symmetry. exact Hc.
Qed.

(* ------------------------------------------------------------------ 2. reading one line *)
(* no NUL, no newline, no carriage return *)
Definition clean (l : list N) : Prop := Forall (fun c => c <> 0 /\ c <> 10 /\ c <> 13) l.

Lemma fgets_aux_line line : forall n more, (length line < n)%nat -> ~ In 10 line ->
  fgets_aux n (line ++ 10 :: more) = (line ++ [10], more).
Proof.
  induction line as [|c r IH]; intros n more Hn Hi.
  - destruct n; [lia|]. reflexivity.
  - destruct n; [cbn [length] in Hn; lia|]. cbn [app fgets_aux].
    destruct (N.eqb_spec c 10) as [->|_]; [exfalso; apply Hi; left; reflexivity|].
    rewrite IH; [reflexivity|cbn [length] in Hn; lia|intros H; apply Hi; right; exact H].
Qed.
Lemma fgets_nonempty l : l <> [] -> fgets l = Some (fgets_aux 79 l).
Proof. destruct l; [congruence|reflexivity]. Qed.
Lemma clean_no10 l : clean l -> ~ In 10 l.
Proof. intros H Hi. unfold clean in H. rewrite Forall_forall in H. apply H in Hi. tauto. Qed.
Lemma clean_no13 l : clean l -> ~ In 13 l.
Proof. intros H Hi. unfold clean in H. rewrite Forall_forall in H. apply H in Hi. tauto. Qed.
Lemma fgets_line line more : len line <= 78 -> ~ In 10 line ->
  fgets (line ++ 10 :: more) = Some (line ++ [10], more).
Proof.
  intros Hl Hi. rewrite fgets_nonempty by apply app_cons_ne.
  rewrite fgets_aux_line; [reflexivity|unfold len in Hl; lia|exact Hi].
Qed.

Lemma cstr_id l : Forall (fun c => c <> 0) l -> cstr l = l.
Proof.
  induction 1 as [|c r Hc _ IH]; [reflexivity|]. cbn [cstr]. apply N.eqb_neq in Hc. rewrite Hc, IH. reflexivity.
Qed.
Lemma chomp_spec l : chomp l =
  match rev l with
  | [] => l
  | x :: r => if x =? 10 then match r with
                              | [] => rev r
                              | y :: r' => if y =? 13 then rev r' else rev r
                              end
              else l
  end.
Proof.
  unfold chomp. destruct (rev l) as [|x r]; [reflexivity|].
  destruct (N.eqb_spec x 10) as [->|E].
  - destruct r as [|y r']; [reflexivity|]. destruct (N.eqb_spec y 13) as [->|E']; [reflexivity|].
    destruct y as [|p]; [reflexivity|].
    do 4 (try (destruct p as [p|p|]; try reflexivity)); congruence.
  - destruct x as [|p]; [reflexivity|].
    do 4 (try (destruct p as [p|p|]; try reflexivity)); congruence.
Qed.
Lemma chomp_nl l : ~ In 13 l -> chomp (l ++ [10]) = l.
Proof.
  intros H. rewrite chomp_spec, rev_app_distr. cbn [rev app]. change (10 =? 10) with true. cbv iota.
  destruct (rev l) as [|y r'] eqn:E.
  - rewrite <- E. apply rev_involutive.
  - destruct (N.eqb_spec y 13) as [->|_].
    + exfalso. apply H. apply in_rev. rewrite E. left. reflexivity.
    + rewrite <- E. apply rev_involutive.
Qed.
Lemma chomp_crnl l : ~ In 13 l -> chomp (l ++ [13; 10]) = l.
Proof.
  intros H. rewrite chomp_spec, rev_app_distr. cbn [rev app]. apply rev_involutive.
Qed.
Lemma clean_line l : clean l -> chomp (cstr (l ++ [10])) = l.
Proof.
  intros H. rewrite cstr_id.
  - apply chomp_nl, clean_no13, H.
  - apply Forall_app. split; [|repeat constructor; discriminate].
    eapply Forall_impl; [|exact H]. cbv beta. tauto.
Qed.

(* one turn of the for (;;) loop on a clean line *)
Lemma pem_body_step f endl line more buf acc maxlen : len line <= 78 -> clean line ->
  pem_body (S f) endl (line ++ 10 :: more) buf acc maxlen =
  if list_eqb line endl then
    match decode_finish buf with
    | Ok o => if maxlen - len acc <? len o then Err else Ok (acc ++ o, more)
    | Fault => Fault
    | _ => Err
    end
  else
    let '(rv, buf', o) := decode_update buf line in
    if (rv <? 0)%Z then Err
    else if maxlen - len acc <? len o then Err
    else pem_body f endl more buf' (acc ++ o) maxlen.
Proof.
  intros Hl Hc. cbn [pem_body]. rewrite fgets_line by (try apply clean_no10; assumption).
  rewrite clean_line by exact Hc. reflexivity.
Qed.

(* ------------------------------------------------------------------ 3. the body loop on good lines *)
Definition nl_lines (lines : list (list N)) : list N := concat (map (fun l => l ++ [10]) lines).

Lemma pem_body_lines endl maxlen tail : clean endl -> len endl <= 78 ->
  forall lines fuel buf acc out,
  (length lines < fuel)%nat ->
  decode_chunks buf lines = Some out ->
  Forall (fun l => len l <= 78 /\ clean l /\ l <> endl) lines ->
  len acc + len out <= maxlen ->
  pem_body fuel endl (nl_lines lines ++ endl ++ 10 :: tail) buf acc maxlen = Ok (acc ++ out, tail).
Proof.
  intros Ce Le. induction lines as [|l r IH]; intros fuel buf acc out Hf D A Hm.
  - destruct fuel as [|f]; [cbn [length] in Hf; lia|]. unfold nl_lines. cbn [map concat app].
    rewrite pem_body_step by assumption. rewrite list_eqb_refl.
    cbn [decode_chunks] in D. destruct (decode_finish buf) as [o| | |]; try discriminate D.
    injection D as ->.
    assert (E : (maxlen - len acc <? len out) = false) by (apply N.ltb_ge; lia).
    rewrite E. reflexivity.
  - destruct fuel as [|f]; [cbn [length] in Hf; lia|]. unfold nl_lines. cbn [map concat].
    fold (nl_lines r). rewrite <- !app_assoc. cbn [app].
    inversion A as [|? ? (Ll & Cl & Nl) A']; subst.
    rewrite pem_body_step by assumption. rewrite (list_eqb_neq _ _ Nl).
    cbn [decode_chunks] in D. destruct (decode_update buf l) as [[rv buf'] o].
    destruct (rv <? 0)%Z; [discriminate D|].
    destruct (decode_chunks buf' r) as [o'|] eqn:D'; [|discriminate D]. injection D as <-.
    rewrite len_app in Hm.
    assert (E : (maxlen - len acc <? len o) = false) by (apply N.ltb_ge; lia).
    rewrite E. rewrite (IH f buf' (acc ++ o) o'); [rewrite <- app_assoc; reflexivity| | | |].
    + cbn [length] in Hf. lia.
    + exact D'.
    + exact A'.
    + rewrite len_app. lia.
Qed.

(* ------------------------------------------------------------------ 4. the lines pem_write produces *)
Definition body_lines (bs : list N) : list (list N) := map encode_block (split48 (length bs) bs).

Lemma body_lines_text bs : nl_lines (body_lines bs) = encode_all bs.
Proof. rewrite encode_all_lines. unfold nl_lines, body_lines. rewrite map_map. reflexivity. Qed.

Lemma concat_encode_split48 n : forall bs, (length bs <= n)%nat ->
  concat (map encode_block (split48 n bs)) = encode_block bs.
Proof.
  induction n as [|n IH]; intros bs H.
  - destruct bs; [reflexivity|cbn [length] in H; lia].
  - cbn [split48]. destruct (N.eqb_spec (len bs) 0) as [E|E]; [apply len_0 in E; subst; reflexivity|].
    cbn [map concat]. rewrite IH.
    + destruct (N.le_gt_cases (len bs) 48) as [Ls|Ls].
      * rewrite takeN_short, dropN_short by exact Ls. apply app_nil_r.
      * rewrite <- encode_block_app; [rewrite take_drop; reflexivity|].
        unfold takeN. rewrite firstn_length_le by (unfold len in Ls; lia). reflexivity.
    + unfold dropN. rewrite skipn_length. unfold len in E. lia.
Qed.

Lemma okcs_concat ls : Forall okcs ls -> okcs (concat ls).
Proof. induction 1 as [|l r Hl _ IH]; [constructor|]. cbn [concat]. apply Forall_app. split; assumption. Qed.

Theorem decode_body_lines bs : bytes_okP bs -> decode_chunks [] (body_lines bs) = Some bs.
Proof.
  intros H. unfold body_lines.
  assert (O : okcs (concat (map encode_block (split48 (length bs) bs)))).
  { apply okcs_concat. apply Forall_map. apply Forall_forall. intros x _. apply encode_block_okcs. }
  rewrite decode_chunks_spec.
  - cbn [app]. rewrite (filt_okcs _ O), concat_encode_split48 by lia.
    rewrite dec_spec_encode_block by exact H. reflexivity.
  - cbn [app]. rewrite (filt_okcs _ O), concat_encode_split48 by lia. apply encode_block_good.
  - apply okcs_alph. exact O.
  - rewrite len_nil; lia.
  - left; reflexivity.
Qed.

Lemma okc_clean c : okc c = true -> c <> 0 /\ c <> 10 /\ c <> 13.
Proof. intros H. repeat split; intros ->; discriminate H. Qed.
Lemma okcs_clean l : okcs l -> clean l.
Proof. apply Forall_impl. exact okc_clean. Qed.

(* a line that starts with '-' is not a line of digits *)
Lemma okcs_not_dash l r : okcs l -> l <> 45 :: r.
Proof. intros H ->. inversion H as [|? ? Hc _]. discriminate Hc. Qed.

Lemma body_lines_props endl r bs : endl = 45 :: r ->
  Forall (fun l => len l <= 78 /\ clean l /\ l <> endl) (body_lines bs).
Proof.
  intros ->. unfold body_lines. apply Forall_map.
  eapply Forall_impl; [|apply split48_bound]. cbv beta. intros l Hl.
  split; [rewrite encode_block_len; lia|].
  split; [apply okcs_clean, encode_block_okcs|apply okcs_not_dash, encode_block_okcs].
Qed.
Lemma body_lines_length bs : (length (body_lines bs) <= length (encode_all bs))%nat.
Proof.
  rewrite <- body_lines_text. unfold nl_lines. induction (body_lines bs) as [|l r IH]; [cbn; lia|].
  cbn [map concat length]. rewrite !app_length. cbn [length]. lia.
Qed.

(* ------------------------------------------------------------------ 5. BEGIN / END lines *)
Definition name_ok (name : list N) : Prop := clean name /\ len name <= 62.

Lemma firstn_short {A} n (l : list A) : (length l <= n)%nat -> firstn n l = l.
Proof. apply firstn_all2. Qed.
Lemma begin_line_full name : len name <= 63 ->
  begin_line name = dashes5 ++ [66; 69; 71; 73; 78; 32] ++ name ++ dashes5.
Proof.
  intros H. unfold begin_line. apply firstn_all2. rewrite !app_length. unfold dashes5. cbn [length].
  unfold len in H. lia.
Qed.
Lemma end_line_full name : len name <= 65 ->
  end_line name = dashes5 ++ [69; 78; 68; 32] ++ name ++ dashes5.
Proof.
  intros H. unfold end_line. apply firstn_all2. rewrite !app_length. unfold dashes5. cbn [length].
  unfold len in H. lia.
Qed.
Lemma end_line_dash name : exists r, end_line name = 45 :: r.
Proof. unfold end_line, dashes5. cbn [app]. eexists. reflexivity. Qed.
Lemma clean_app a b : clean a -> clean b -> clean (a ++ b).
Proof. intros; apply Forall_app; split; assumption. Qed.
Lemma clean_consts : clean dashes5 /\ clean [66; 69; 71; 73; 78; 32] /\ clean [69; 78; 68; 32].
Proof. unfold clean, dashes5. repeat split; repeat constructor; discriminate. Qed.
Lemma begin_line_props name : name_ok name -> clean (begin_line name) /\ len (begin_line name) <= 78.
Proof.
  intros (C & L). rewrite begin_line_full by lia. destruct clean_consts as (C1 & C2 & _). split.
  - repeat apply clean_app; assumption.
  - rewrite !len_app. unfold dashes5. rewrite !len_cons, len_nil. lia.
Qed.
Lemma end_line_props name : name_ok name -> clean (end_line name) /\ len (end_line name) <= 78.
Proof.
  intros (C & L). rewrite end_line_full by lia. destruct clean_consts as (C1 & _ & C3). split.
  - repeat apply clean_app; assumption.
  - rewrite !len_app. unfold dashes5. rewrite !len_cons, len_nil. lia.
Qed.
Lemma pem_header_eq name : len name <= 63 -> pem_header name = begin_line name ++ [10].
Proof. intros H. rewrite begin_line_full by exact H. unfold pem_header. rewrite <- !app_assoc. reflexivity. Qed.
Lemma pem_footer_eq name : len name <= 65 -> pem_footer name = end_line name ++ [10].
Proof. intros H. rewrite end_line_full by exact H. unfold pem_footer. rewrite <- !app_assoc. reflexivity. Qed.

(* reading the BEGIN line *)
Lemma pem_read_begin name more maxlen : name_ok name ->
  pem_read name (begin_line name ++ 10 :: more) maxlen =
  pem_body (S (length more)) (end_line name) more [] [] maxlen.
Proof.
  intros H. destruct (begin_line_props name H) as (C & L). unfold pem_read.
  rewrite fgets_line by (try apply clean_no10; assumption). rewrite clean_line by exact C.
  rewrite list_eqb_refl. reflexivity.
Qed.

(* ------------------------------------------------------------------ 6. THE round trip *)
(* whatever follows the END line in the file is left unread *)
Theorem pem_roundtrip name data text tail maxlen :
  name_ok name -> bytes_okP data -> len data <= maxlen ->
  pem_write name data = Some text ->
  pem_read name (text ++ tail) maxlen = Ok (data, tail).
Proof.
  intros Hn Hd Hm W. apply pem_write_some in W. destruct W as (Hne & ->).
  destruct Hn as (Cn & Ln).
  rewrite pem_header_eq, pem_footer_eq by lia. rewrite <- !app_assoc. cbn [app].
  rewrite pem_read_begin by (split; assumption).
  destruct (end_line_props name (conj Cn Ln)) as (Ce & Le).
  destruct (end_line_dash name) as (r & Er).
  rewrite <- body_lines_text.
  rewrite (pem_body_lines (end_line name) maxlen tail Ce Le (body_lines data) _ [] [] data).
  - reflexivity.
  - rewrite app_length. pose proof (body_lines_length data) as B. rewrite <- body_lines_text in B. lia.
  - apply decode_body_lines. exact Hd.
  - eapply body_lines_props. exact Er.
  - rewrite len_nil. lia.
Qed.

(* the statement with the explicit side conditions *)
Corollary pem_roundtrip_60 name data text tail maxlen :
  Forall (fun c => c <> 0 /\ c <> 10 /\ c <> 13) name -> len name <= 60 ->
  bytes_okP data -> data <> [] -> len data <= maxlen ->
  pem_write name data = Some text ->
  pem_read name (text ++ tail) maxlen = Ok (data, tail).
Proof. intros C L Hd _ Hm W. apply (pem_roundtrip name data text tail maxlen); try assumption. split; [exact C|lia]. Qed.

(* CRLF line ends are accepted too *)

(* ------------------------------------------------------------------ 7. every input: capacity, unread rest *)
Lemma fgets_aux_split n : forall inp l r, fgets_aux n inp = (l, r) -> inp = l ++ r /\ (length l <= n)%nat.
Proof.
  induction n as [|k IH]; intros inp l r H.
  - cbn [fgets_aux] in H. injection H as <- <-. split; [reflexivity|cbn [length]; lia].
  - cbn [fgets_aux] in H. destruct inp as [|c t].
    + injection H as <- <-. split; [reflexivity|cbn [length]; lia].
    + destruct (c =? 10).
      * injection H as <- <-. split; [reflexivity|cbn [length]; lia].
      * destruct (fgets_aux k t) as [l' r'] eqn:E. injection H as <- <-.
        destruct (IH _ _ _ E) as (-> & L). split; [reflexivity|cbn [length]; lia].
Qed.
Lemma fgets_aux_nonempty k c t l r : fgets_aux (S k) (c :: t) = (l, r) -> l <> [].
Proof.
  cbn [fgets_aux]. destruct (c =? 10); [intros H; injection H as <- <-; discriminate|].
  destruct (fgets_aux k t). intros H; injection H as <- <-; discriminate.
Qed.
Lemma fgets_split inp raw rest : fgets inp = Some (raw, rest) ->
  inp = raw ++ rest /\ raw <> [] /\ len raw <= 79.
Proof.
  unfold fgets. destruct inp as [|c t]; [discriminate|].
  remember (fgets_aux 79 (c :: t)) as p eqn:Ep. intros H. injection H as ->. symmetry in Ep.
  destruct (fgets_aux_split _ _ _ _ Ep) as (E & L). split; [exact E|]. split; [|unfold len; lia].
  exact (fgets_aux_nonempty 78 c t raw rest Ep).
Qed.
Lemma fgets_none inp : fgets inp = None <-> inp = [].
Proof. unfold fgets. destruct inp; split; intros H; try reflexivity; discriminate H. Qed.

Lemma cstr_prefix l : exists s, l = cstr l ++ s.
Proof.
  induction l as [|c r (s & IH)]; [exists []; reflexivity|]. cbn [cstr]. destruct (c =? 0).
  - exists (c :: r). reflexivity.
  - exists s. cbn [app]. rewrite <- IH. reflexivity.
Qed.
Lemma chomp_prefix l : exists s, l = chomp l ++ s.
Proof.
  rewrite chomp_spec. destruct (rev l) as [|x r] eqn:E; [exists []; symmetry; apply app_nil_r|].
  assert (El : l = rev r ++ [x]) by (rewrite <- (rev_involutive l), E; reflexivity).
  destruct (x =? 10); [|exists []; symmetry; apply app_nil_r].
  destruct r as [|y r']; [exists [x]; exact El|].
  destruct (y =? 13); [|exists [x]; exact El].
  exists [y; x]. rewrite El. cbn [rev]. rewrite <- app_assoc. reflexivity.
Qed.
Lemma line_prefix raw : exists s, raw = chomp (cstr raw) ++ s.
Proof.
  destruct (cstr_prefix raw) as (s1 & E1). destruct (chomp_prefix (cstr raw)) as (s2 & E2).
  exists (s2 ++ s1). rewrite app_assoc, <- E2. exact E1.
Qed.
Lemma line_len raw : len (chomp (cstr raw)) <= len raw.
Proof. destruct (line_prefix raw) as (s & E). rewrite E at 2. rewrite len_app. lia. Qed.

(* the result of the loop: at most maxlen bytes, the collected bytes are kept, the file is read
   up to the END line (which is in the file) and no further *)
Lemma pem_body_ok fuel endl maxlen : forall inp buf acc d rest,
  pem_body fuel endl inp buf acc maxlen = Ok (d, rest) -> len acc <= maxlen ->
  len d <= maxlen /\ (exists k, d = acc ++ k) /\ exists pre post, inp = pre ++ endl ++ post ++ rest.
Proof.
  induction fuel as [|f IH]; intros inp buf acc d rest H Ha; [discriminate H|].
  cbn [pem_body] in H. destruct (fgets inp) as [[raw rest']|] eqn:F; [|discriminate H].
  destruct (fgets_split _ _ _ F) as (Ei & _ & _).
  destruct (list_eqb (chomp (cstr raw)) endl) eqn:El.
  - apply list_eqb_eq in El. destruct (decode_finish buf) as [o| | |]; try discriminate H.
    destruct (N.ltb_spec (maxlen - len acc) (len o)) as [L|L]; [discriminate H|].
    injection H as <- <-. split; [rewrite len_app; lia|]. split; [exists o; reflexivity|].
    destruct (line_prefix raw) as (s & Es). exists [], s. cbn [app]. rewrite <- El, app_assoc, <- Es. exact Ei.
  - destruct (decode_update buf (chomp (cstr raw))) as [[rv buf'] o].
    destruct (rv <? 0)%Z; [discriminate H|].
    destruct (N.ltb_spec (maxlen - len acc) (len o)) as [L|L]; [discriminate H|].
    apply IH in H; [|rewrite len_app; lia]. destruct H as (H1 & (k & H2) & (pre & post & H3)).
    split; [exact H1|]. split; [exists (o ++ k); rewrite H2, <- app_assoc; reflexivity|].
    exists (raw ++ pre), post. rewrite Ei, H3, <- app_assoc. reflexivity.
Qed.

Theorem pem_read_capacity name inp maxlen d rest : pem_read name inp maxlen = Ok (d, rest) -> len d <= maxlen.
Proof.
  unfold pem_read. destruct (fgets inp) as [[raw r]|]; [|discriminate]. destruct (negb _); [discriminate|].
  intros H. apply pem_body_ok in H; [tauto|rewrite len_nil; lia].
Qed.
(* success: the file starts with the BEGIN line, contains the END line, and rest is what follows its line *)
Theorem pem_read_ok_shape name inp maxlen d rest : pem_read name inp maxlen = Ok (d, rest) ->
  exists p0 mid p1, inp = begin_line name ++ p0 ++ mid ++ end_line name ++ p1 ++ rest.
Proof.
  unfold pem_read. destruct (fgets inp) as [[raw r]|] eqn:F; [|discriminate].
  destruct (fgets_split _ _ _ F) as (Ei & _ & _).
  destruct (list_eqb (chomp (cstr raw)) (begin_line name)) eqn:Eb; [|discriminate].
  apply list_eqb_eq in Eb. cbn [negb]. intros H. apply pem_body_ok in H; [|rewrite len_nil; lia].
  destruct H as (_ & _ & (pre & post & H)). destruct (line_prefix raw) as (s & Es).
  exists s, pre, post. rewrite <- Eb. rewrite (app_assoc _ s), <- Es, Ei, H. reflexivity.
Qed.
Corollary pem_read_rest_suffix name inp maxlen d rest : pem_read name inp maxlen = Ok (d, rest) ->
  exists pre, inp = pre ++ rest.
Proof.
  intros H. destruct (pem_read_ok_shape _ _ _ _ _ H) as (p0 & mid & p1 & E).
  exists (begin_line name ++ p0 ++ mid ++ end_line name ++ p1). rewrite E, <- !app_assoc. reflexivity.
Qed.

(* ------------------------------------------------------------------ 8. every input: no Fault, local buffer *)
Lemma pem_body_nofault fuel endl maxlen : forall inp buf acc, bufok buf ->
  pem_body fuel endl inp buf acc maxlen <> Fault.
Proof.
  induction fuel as [|f IH]; intros inp buf acc B; [discriminate|].
  cbn [pem_body]. destruct (fgets inp) as [[raw rest]|]; [|discriminate].
  destruct (list_eqb _ endl).
  - unfold decode_finish. destruct (N.eqb_spec (len buf) 0) as [E|E].
    + destruct (_ <? _); discriminate.
    + pose proof (decode_block_buf_nofault buf B) as Nf.
      destruct (decode_block buf (len buf)); try discriminate.
      * destruct (_ <? _); discriminate.
      * exfalso. apply Nf; [intros ->; apply E; reflexivity|reflexivity].
  - destruct (decode_update buf (chomp (cstr raw))) as [[rv buf'] o] eqn:U.
    destruct (rv <? 0)%Z; [discriminate|]. destruct (_ <? _); [discriminate|].
    apply IH. eapply decode_update_bufok; eassumption.
Qed.
Lemma pem_body_not_absent fuel endl maxlen : forall inp buf acc,
  pem_body fuel endl inp buf acc maxlen <> Absent.
Proof.
  induction fuel as [|f IH]; intros inp buf acc; [discriminate|].
  cbn [pem_body]. destruct (fgets inp) as [[raw rest]|]; [|discriminate].
  destruct (list_eqb _ endl).
  - destruct (decode_finish buf); try discriminate. destruct (_ <? _); discriminate.
  - destruct (decode_update buf (chomp (cstr raw))) as [[rv buf'] o].
    destruct (rv <? 0)%Z; [discriminate|]. destruct (_ <? _); [discriminate|]. apply IH.
Qed.

Theorem pem_read_nofault name inp maxlen : pem_read name inp maxlen <> Fault.
Proof.
  unfold pem_read. destruct (fgets inp) as [[raw rest]|]; [|discriminate]. destruct (negb _); [discriminate|].
  apply pem_body_nofault. constructor.
Qed.
Theorem pem_read_absent name inp maxlen : pem_read name inp maxlen = Absent <-> inp = [].
Proof.
  split.
  - unfold pem_read. destruct (fgets inp) as [[raw rest]|] eqn:F; [|intros _; apply fgets_none; exact F].
    destruct (negb _); [discriminate|]. intros H. apply pem_body_not_absent in H. contradiction.
  - intros ->. reflexivity.
Qed.

(* one turn of the loop from a state with fewer than 64 pending characters: the line has at most
   79 characters, base64_decode_update writes at most 105 bytes into buf[128] and leaves fewer
   than 64 pending characters, none of them a blank *)
Theorem pem_step_capacity inp raw rest buf rv buf' o : len buf < 64 ->
  fgets inp = Some (raw, rest) -> decode_update buf (chomp (cstr raw)) = (rv, buf', o) ->
  len (chomp (cstr raw)) <= 79 /\ len o <= 105 /\ len buf' < 64 /\ (bufok buf -> bufok buf').
Proof.
  intros Hb F U. destruct (fgets_split _ _ _ F) as (_ & _ & Lr). pose proof (line_len raw) as Ll.
  destruct (decode_update_capacity _ _ _ _ _ U) as (C1 & C2 & _).
  split; [lia|]. split; [lia|]. split; [auto|]. intros B. eapply decode_update_bufok; eassumption.
Qed.
(* and base64_decode_finish at most 45 *)
Theorem pem_finish_capacity buf o : len buf < 64 -> decode_finish buf = Ok o -> len o <= 45.
Proof. intros Hb F. apply decode_finish_capacity in F. lia. Qed.

(* the base64_decode_update calls made by the loop: (pending characters, line, output) *)
Fixpoint pem_calls (fuel : nat) (endl inp buf acc : list N) (maxlen : N) : list (list N * list N * list N) :=
  match fuel with
  | O => []
  | S f =>
      match fgets inp with
      | None => []
      | Some (raw, rest) =>
          let l := chomp (cstr raw) in
          if list_eqb l endl then []
          else
            let '(rv, buf', o) := decode_update buf l in
            (buf, l, o) :: (if (rv <? 0)%Z then []
                            else if maxlen - len acc <? len o then []
                            else pem_calls f endl rest buf' (acc ++ o) maxlen)
      end
  end.
Theorem pem_calls_capacity fuel endl maxlen : forall inp buf acc, len buf < 64 ->
  Forall (fun '(b, l, o) => len b < 64 /\ len l <= 79 /\ len o <= 105) (pem_calls fuel endl inp buf acc maxlen).
Proof.
  induction fuel as [|f IH]; intros inp buf acc Hb; [constructor|].
  cbn [pem_calls]. destruct (fgets inp) as [[raw rest]|] eqn:F; [|constructor].
  destruct (list_eqb _ endl); [constructor|].
  destruct (decode_update buf (chomp (cstr raw))) as [[rv buf'] o] eqn:U.
  destruct (pem_step_capacity _ _ _ _ _ _ _ Hb F U) as (C1 & C2 & C3 & _).
  constructor; [auto|]. destruct (rv <? 0)%Z; [constructor|]. destruct (_ <? _); [constructor|].
  apply IH. exact C3.
Qed.

(* the fuel S (length rest) of pem_read is never the reason for Err: every line read is non-empty *)
Lemma pem_body_fuel endl maxlen f : forall f' inp buf acc, (length inp < f)%nat -> (length inp < f')%nat ->
  pem_body f endl inp buf acc maxlen = pem_body f' endl inp buf acc maxlen.
Proof.
  induction f as [|f IH]; intros f' inp buf acc H H'; [lia|]. destruct f' as [|f']; [lia|].
  cbn [pem_body]. destruct (fgets inp) as [[raw rest]|] eqn:F; [|reflexivity].
  destruct (fgets_split _ _ _ F) as (Ei & Hne & _).
  destruct (list_eqb _ endl); [reflexivity|].
  destruct (decode_update buf (chomp (cstr raw))) as [[rv buf'] o].
  destruct (rv <? 0)%Z; [reflexivity|]. destruct (_ <? _); [reflexivity|].
  assert (L : (length rest < length inp)%nat).
  { rewrite Ei, app_length. destruct raw; [congruence|]. cbn [length]. lia. }
  apply IH; lia.
Qed.

(* ------------------------------------------------------------------ 9. refusals *)
(* the first line is not the BEGIN line of this name *)
Theorem pem_read_wrong_begin name inp maxlen raw rest : fgets inp = Some (raw, rest) ->
  chomp (cstr raw) <> begin_line name -> pem_read name inp maxlen = Err.
Proof. intros F H. unfold pem_read. rewrite F, (list_eqb_neq _ _ H). reflexivity. Qed.

(* no END line of this name anywhere in the file *)
Theorem pem_read_missing_end name inp maxlen : (forall pre post, inp <> pre ++ end_line name ++ post) ->
  pem_read name inp maxlen = Absent \/ pem_read name inp maxlen = Err.
Proof.
  intros H. destruct (pem_read name inp maxlen) as [[d rest]| | |] eqn:R; [|left; reflexivity|right; reflexivity|].
  - exfalso. destruct (pem_read_ok_shape _ _ _ _ _ R) as (p0 & mid & p1 & E).
    apply (H (begin_line name ++ p0 ++ mid) (p1 ++ rest)). rewrite E, <- !app_assoc. reflexivity.
  - exfalso. exact (pem_read_nofault _ _ _ R).
Qed.

(* a character outside the base64 alphabet in a body line, whatever the state of the loop *)
Theorem pem_body_bad_char f endl pre c post more buf acc maxlen :
  len (pre ++ c :: post) <= 78 -> clean (pre ++ c :: post) -> pre ++ c :: post <> endl ->
  noeof pre -> ascii2bin c = B64_ERROR ->
  pem_body (S f) endl ((pre ++ c :: post) ++ 10 :: more) buf acc maxlen = Err.
Proof.
  intros L C Ne Hp Hc. rewrite pem_body_step by assumption. rewrite (list_eqb_neq _ _ Ne).
  pose proof (decode_refuses_bad_char buf pre c post Hp Hc) as R.
  destruct (decode_update buf (pre ++ c :: post)) as [[rv buf'] o]. cbn [fst] in R. subst rv. reflexivity.
Qed.
Lemma bad_line_not_end name pre c post : noeof pre -> ascii2bin c = B64_ERROR -> pre ++ c :: post <> end_line name.
Proof.
  intros Hp Hc E. destruct (end_line_dash name) as (r & Er). rewrite Er in E.
  destruct pre as [|x p]; cbn [app] in E; injection E as -> _.
  - discriminate Hc.
  - inversion Hp as [|? ? Hx _]. apply Hx. reflexivity.
Qed.

(* clean lines other than the END line are consumed one per turn, unless one of them is refused *)
Lemma nl_lines_length lines : (length lines <= length (nl_lines lines))%nat.
Proof.
  unfold nl_lines. induction lines as [|l r IH]; [cbn; lia|].
  cbn [map concat length]. rewrite !app_length. cbn [length]. lia.
Qed.
Lemma pem_body_skip endl maxlen more fuel : forall lines buf acc,
  Forall (fun l => len l <= 78 /\ clean l /\ l <> endl) lines ->
  pem_body (length lines + fuel) endl (nl_lines lines ++ more) buf acc maxlen = Err \/
  exists buf' acc', pem_body (length lines + fuel) endl (nl_lines lines ++ more) buf acc maxlen
                    = pem_body fuel endl more buf' acc' maxlen.
Proof.
  induction lines as [|l r IH]; intros buf acc A.
  - right. exists buf, acc. reflexivity.
  - inversion A as [|? ? (Ll & Cl & Nl) A']; subst. unfold nl_lines. cbn [map concat length Nat.add].
    fold (nl_lines r). rewrite <- !app_assoc. cbn [app].
    rewrite pem_body_step by assumption. rewrite (list_eqb_neq _ _ Nl).
    destruct (decode_update buf l) as [[rv buf'] o].
    destruct (rv <? 0)%Z; [left; reflexivity|]. destruct (_ <? _); [left; reflexivity|].
    apply IH. exact A'.
Qed.

Theorem pem_read_bad_char name lines pre c post more maxlen : name_ok name ->
  Forall (fun l => len l <= 78 /\ clean l /\ l <> end_line name) lines ->
  len (pre ++ c :: post) <= 78 -> clean (pre ++ c :: post) -> noeof pre -> ascii2bin c = B64_ERROR ->
  pem_read name (begin_line name ++ 10 :: nl_lines lines ++ (pre ++ c :: post) ++ 10 :: more) maxlen = Err.
Proof.
  intros Hn A L C Hp Hc. rewrite pem_read_begin by exact Hn.
  set (bad := (pre ++ c :: post) ++ 10 :: more).
  rewrite (pem_body_fuel _ _ _ (length lines + S (length (nl_lines lines ++ bad)))) by
    (pose proof (nl_lines_length lines); rewrite ?app_length in *; lia).
  destruct (pem_body_skip (end_line name) maxlen bad (S (length (nl_lines lines ++ bad))) lines [] [] A)
    as [E|(buf' & acc' & E)]; [exact E|].
  rewrite E. subst bad. apply pem_body_bad_char; try assumption. apply bad_line_not_end; assumption.
Qed.

(* a larger maxlen does not change a success *)
Lemma pem_body_mono fuel endl m m' : m <= m' -> forall inp buf acc r, len acc <= m ->
  pem_body fuel endl inp buf acc m = Ok r -> pem_body fuel endl inp buf acc m' = Ok r.
Proof.
  intros Hm. induction fuel as [|f IH]; intros inp buf acc r Ha H; [discriminate H|].
  cbn [pem_body] in H |- *. destruct (fgets inp) as [[raw rest]|]; [|discriminate H].
  destruct (list_eqb _ endl).
  - destruct (decode_finish buf) as [o| | |]; try discriminate H.
    destruct (N.ltb_spec (m - len acc) (len o)) as [L|L]; [discriminate H|].
    assert (E : (m' - len acc <? len o) = false) by (apply N.ltb_ge; lia). rewrite E. exact H.
  - destruct (decode_update buf (chomp (cstr raw))) as [[rv buf'] o].
    destruct (rv <? 0)%Z; [discriminate H|].
    destruct (N.ltb_spec (m - len acc) (len o)) as [L|L]; [discriminate H|].
    assert (E : (m' - len acc <? len o) = false) by (apply N.ltb_ge; lia). rewrite E.
    apply IH; [rewrite len_app; lia|exact H].
Qed.
Theorem pem_read_mono name inp m m' r : m <= m' -> pem_read name inp m = Ok r -> pem_read name inp m' = Ok r.
Proof.
  intros Hm. unfold pem_read. destruct (fgets inp) as [[raw rest]|]; [|discriminate].
  destruct (negb _); [discriminate|]. apply pem_body_mono; [exact Hm|rewrite len_nil; lia].
Qed.

(* the caller's buffer is too small for the data *)
Theorem pem_read_too_small name data text tail maxlen :
  name_ok name -> bytes_okP data -> maxlen < len data ->
  pem_write name data = Some text -> pem_read name (text ++ tail) maxlen = Err.
Proof.
  intros Hn Hd Hm W. destruct (pem_read name (text ++ tail) maxlen) as [[d rest]| | |] eqn:R; [| |reflexivity|].
  - exfalso. pose proof (pem_read_capacity _ _ _ _ _ R) as Cap.
    apply (pem_read_mono _ _ maxlen (len data)) in R; [|lia].
    rewrite (pem_roundtrip name data text tail (len data) Hn Hd (N.le_refl _) W) in R.
    injection R as <- _. lia.
  - exfalso. apply pem_read_absent in R. apply pem_write_some in W. destruct W as (_ & ->).
    unfold pem_header, dashes5 in R. cbn [app] in R. discriminate R.
  - exfalso. exact (pem_read_nofault _ _ _ R).
Qed.

(* ------------------------------------------------------------------ 10. examples *)
Example pem_example :
  pem_write [65; 66] [1; 2; 3; 4] = Some ([45;45;45;45;45;66;69;71;73;78;32;65;66;45;45;45;45;45;10]
    ++ [65;81;73;68;66;65;61;61;10] ++ [45;45;45;45;45;69;78;68;32;65;66;45;45;45;45;45;10])
  /\ pem_read [65; 66] ([45;45;45;45;45;66;69;71;73;78;32;65;66;45;45;45;45;45;13;10]
    ++ [65;81;73;68;13;10;66;65;61;61;10] ++ [45;45;45;45;45;69;78;68;32;65;66;45;45;45;45;45;10;7]) 4 = Ok ([1; 2; 3; 4], [7]).
Proof. split; vm_compute; reflexivity. Qed.

(* ------------------------------------------------------------------ 11. CRLF line ends *)
(* every line of the file, BEGIN and END lines included, may end in "\n" or in "\r\n" *)
Definition term_ok (t : list N) : Prop := t = [10] \/ t = [13; 10].
Definition tl_lines (lines : list (list N * list N)) : list N := concat (map (fun p => fst p ++ snd p) lines).

Lemma fgets_line_t line t more : len line <= 77 -> clean line -> term_ok t ->
  exists raw, fgets (line ++ t ++ more) = Some (raw, more) /\ chomp (cstr raw) = line.
Proof.
  intros L C [->| ->].
  - exists (line ++ [10]). cbn [app]. split; [apply fgets_line; [lia|apply clean_no10; exact C]|].
    apply clean_line. exact C.
  - exists (line ++ [13; 10]). split.
    + replace (line ++ [13; 10] ++ more) with ((line ++ [13]) ++ 10 :: more) by (rewrite <- app_assoc; reflexivity).
      replace (line ++ [13; 10]) with ((line ++ [13]) ++ [10]) by (rewrite <- app_assoc; reflexivity).
      apply fgets_line; [rewrite len_app, len_cons, len_nil; lia|].
      intros Hi. apply in_app_or in Hi. destruct Hi as [Hi|[Hi|[]]]; [|discriminate Hi].
      exact (clean_no10 _ C Hi).
    + rewrite cstr_id.
      * apply chomp_crnl, clean_no13, C.
      * apply Forall_app. split; [|repeat constructor; discriminate].
        eapply Forall_impl; [|exact C]. cbv beta. tauto.
Qed.
Lemma pem_body_step_t f endl line t more buf acc maxlen : len line <= 77 -> clean line -> term_ok t ->
  pem_body (S f) endl (line ++ t ++ more) buf acc maxlen =
  if list_eqb line endl then
    match decode_finish buf with
    | Ok o => if maxlen - len acc <? len o then Err else Ok (acc ++ o, more)
    | Fault => Fault
    | _ => Err
    end
  else
    let '(rv, buf', o) := decode_update buf line in
    if (rv <? 0)%Z then Err
    else if maxlen - len acc <? len o then Err
    else pem_body f endl more buf' (acc ++ o) maxlen.
Proof.
  intros Hl Hc Ht. destruct (fgets_line_t line t more Hl Hc Ht) as (raw & F & E).
  cbn [pem_body]. rewrite F, E. reflexivity.
Qed.

Lemma pem_body_lines_t endl maxlen te tail : clean endl -> len endl <= 77 -> term_ok te ->
  forall lines fuel buf acc out,
  (length lines < fuel)%nat ->
  decode_chunks buf (map fst lines) = Some out ->
  Forall (fun p => len (fst p) <= 77 /\ clean (fst p) /\ fst p <> endl /\ term_ok (snd p)) lines ->
  len acc + len out <= maxlen ->
  pem_body fuel endl (tl_lines lines ++ endl ++ te ++ tail) buf acc maxlen = Ok (acc ++ out, tail).
Proof.
  intros Ce Le Te. induction lines as [|[l t] r IH]; intros fuel buf acc out Hf D A Hm.
  - destruct fuel as [|f]; [cbn [length] in Hf; lia|]. unfold tl_lines. cbn [map concat app].
    rewrite pem_body_step_t by assumption. rewrite list_eqb_refl.
    cbn [map decode_chunks] in D. destruct (decode_finish buf) as [o| | |]; try discriminate D.
    injection D as ->.
    assert (E : (maxlen - len acc <? len out) = false) by (apply N.ltb_ge; lia).
    rewrite E. reflexivity.
  - destruct fuel as [|f]; [cbn [length] in Hf; lia|]. unfold tl_lines. cbn [map concat fst snd].
    fold (tl_lines r). rewrite <- !app_assoc.
    inversion A as [|? ? (Ll & Cl & Nl & Tl) A']; subst. cbn [fst snd] in *.
    rewrite pem_body_step_t by assumption. rewrite (list_eqb_neq _ _ Nl).
    cbn [map decode_chunks fst] in D. destruct (decode_update buf l) as [[rv buf'] o].
    destruct (rv <? 0)%Z; [discriminate D|].
    destruct (decode_chunks buf' (map fst r)) as [o'|] eqn:D'; [|discriminate D]. injection D as <-.
    rewrite len_app in Hm.
    assert (E : (maxlen - len acc <? len o) = false) by (apply N.ltb_ge; lia).
    rewrite E. rewrite (IH f buf' (acc ++ o) o'); [rewrite <- app_assoc; reflexivity| | | |].
    + cbn [length] in Hf. lia.
    + exact D'.
    + exact A'.
    + rewrite len_app. lia.
Qed.

Lemma tl_lines_length lines : Forall (fun p => term_ok (snd p)) lines -> (length lines <= length (tl_lines lines))%nat.
Proof.
  unfold tl_lines. induction 1 as [|[l t] r Ht _ IH]; [cbn; lia|].
  cbn [map concat length fst snd] in *. rewrite !app_length. destruct Ht as [->| ->]; cbn [length]; lia.
Qed.

(* the text of pem_write with any mixture of "\n" and "\r\n" line ends (the body may even be empty) *)
Theorem pem_read_crlf name data lines t0 te tail maxlen :
  clean name -> len name <= 61 -> bytes_okP data -> len data <= maxlen ->
  map fst lines = body_lines data -> Forall (fun p => term_ok (snd p)) lines -> term_ok t0 -> term_ok te ->
  pem_read name (begin_line name ++ t0 ++ tl_lines lines ++ end_line name ++ te ++ tail) maxlen = Ok (data, tail).
Proof.
  intros Cn Ln Hd Hm Ef Ts T0 Te.
  assert (Hn : name_ok name) by (split; [exact Cn|lia]).
  destruct (begin_line_props name Hn) as (Cb & _). destruct (end_line_props name Hn) as (Ce & _).
  assert (Lb : len (begin_line name) <= 77).
  { rewrite begin_line_full by lia. rewrite !len_app. unfold dashes5. rewrite !len_cons, len_nil. lia. }
  assert (Le : len (end_line name) <= 77).
  { rewrite end_line_full by lia. rewrite !len_app. unfold dashes5. rewrite !len_cons, len_nil. lia. }
  set (more := tl_lines lines ++ end_line name ++ te ++ tail).
  destruct (fgets_line_t (begin_line name) t0 more Lb Cb T0) as (raw & F & E).
  unfold pem_read. rewrite F, E, list_eqb_refl. cbn [negb]. subst more.
  destruct (end_line_dash name) as (r & Er).
  rewrite (pem_body_lines_t (end_line name) maxlen te tail Ce Le Te lines _ [] [] data).
  - reflexivity.
  - rewrite app_length. pose proof (tl_lines_length lines Ts). lia.
  - rewrite Ef. apply decode_body_lines. exact Hd.
  - pose proof (body_lines_props _ r data Er) as P. rewrite <- Ef in P. rewrite Forall_map in P.
    rewrite Forall_forall in *. intros p Hp. specialize (P p Hp). specialize (Ts p Hp).
    destruct P as (P1 & P2 & P3).
    split; [|tauto].
    (* body lines have at most 64 characters *)
    assert (In (fst p) (body_lines data)) as Hi by (rewrite <- Ef; apply in_map; exact Hp).
    unfold body_lines in Hi. apply in_map_iff in Hi. destruct Hi as (x & <- & Hx).
    pose proof (split48_bound (length data) data) as B. rewrite Forall_forall in B. specialize (B x Hx).
    rewrite encode_block_len. lia.
  - rewrite len_nil. lia.
Qed.

(* ------------------------------------------------------------------ 12. names of 63 and more characters *)
(* "-----BEGIN %s-----" is cut to 79 characters by snprintf and by fgets: the round trip still
   holds for 63 and 64 characters; with 65 to 68 pem_read returns 1 but leaves the end of the
   END line unread (the file position is wrong for the next pem_read); with 69 it fails *)
Definition nameA (k : nat) : list N := List.repeat 65 k.
Definition rtA (k : nat) : res (list N * list N) :=
  match pem_write (nameA k) [1; 2; 3; 4] with Some t => pem_read (nameA k) (t ++ [7]) 4 | None => Err end.
Example long_names :
  rtA 63 = Ok ([1; 2; 3; 4], [7]) /\ rtA 64 = Ok ([1; 2; 3; 4], [7]) /\
  rtA 65 = Ok ([1; 2; 3; 4], [10; 7]) /\ rtA 66 = Ok ([1; 2; 3; 4], [45; 10; 7]) /\
  rtA 68 = Ok ([1; 2; 3; 4], [45; 45; 45; 10; 7]) /\ rtA 69 = Err.
Proof. repeat split; vm_compute; reflexivity. Qed.
