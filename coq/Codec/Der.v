(* Impl models of the ASN.1/DER primitives of src/asn1.c (C14, C06).

   Conventions.
   * The input of a decoder is the list of bytes from the C pointer [*in] to the END OF THE
     BUFFER, and the C variable [*inlen] is the length of that list (the pairing of every
     [in++] with [inlen--] is what the correspondence run compares through the
     "consumed" count).  Every dereference is a pattern match: where the C text reads a byte
     without a preceding check that it exists, the empty-list branch is [Fault] (an
     out-of-bounds read), never an error return.  Writes into caller arrays of declared
     capacity ([nodes[32]], [nums[max]]) check the index and give [Fault] beyond it.
   * [res]: [Ok v] = return 1, [Absent] = return 0, [Err] = negative return,
     [Fault] = the C code would touch memory outside what it was given (or execute
     sanitizer-visible undefined behaviour).
   * [mode]: the C text contains defects (DESIGN section 5).  [AsIs] transcribes the code
     of the pinned tree literally, [Fixed] is the code after the minimal patches proposed in
     the report.  Theorems are about [Fixed]; [AsIs] carries the refutation witnesses; the
     correspondence run prints both whenever they differ. *)
From GmVerif Require Import Base.Bytes.
Local Open Scope N_scope.

Inductive res (A : Type) : Type := Ok (a : A) | Absent | Err | Fault.
Arguments Ok {A} a.
Arguments Absent {A}.
Arguments Err {A}.
Arguments Fault {A}.

(* one switch per defect, so that a disagreement with the C code can be attributed *)
Record mode : Set := {
  fx_oid_cap : bool;     (* nodes[] index test in asn1_object_identifier_from_octets *)
  fx_oid_lead : bool;    (* leading 0x80 septet in an arc *)
  fx_oid_first : bool;   (* first subidentifier 40*X+Y per X.690 *)
  fx_seq_cap : bool;     (* nums[] index test in asn1_sequence_of_int_from_der *)
  fx_int_shift : bool;   (* signed left shift in asn1_int_from_der_ex *)
  fx_bit_empty : bool;   (* empty BIT STRING refused *)
  fx_utf8 : bool;        (* UTF-8 continuation mask *)
  fx_hex_odd : bool;     (* hex2bin prints its unterminated input with %s when the length is odd *)
  fx_b64_ws : bool       (* base64_decode_block reads f[n] when the whole input is white space *)
}.
Definition AsIs : mode := Build_mode false false false false false false false false false.
Definition Fixed : mode := Build_mode true true true true true true true true true.

Definition len {A} (l : list A) : N := N.of_nat (length l).
Definition takeN {A} (n : N) (l : list A) : list A := firstn (N.to_nat n) l.
Definition dropN {A} (n : N) (l : list A) : list A := skipn (N.to_nat n) l.
Definition hibit (b : N) : bool := negb (N.land b 128 =? 0).   (* b & 0x80 *)

Definition INT_MAX : N := 2147483647.

(* ------------------------------------------------------------------ length *)
Definition len_nbytes (l : N) : N :=
  if l <? 256 then 1 else if l <? 65536 then 2 else if l <? 16777216 then 3 else 4.

(* bytes written by asn1_length_to_der; None = return -1 *)
Definition len_to_der (l : N) : option (list N) :=
  if INT_MAX <? l then None
  else if l <? 128 then Some [l]
  else Some ((128 + len_nbytes l) :: N_to_be (N.to_nat (len_nbytes l)) l).

(* what asn1_length_to_der adds to *outlen *)
Definition len_size (l : N) : option N :=
  if INT_MAX <? l then None
  else if l <? 128 then Some 1
  else Some (1 + len_nbytes l).

Definition len_check (l : N) (rest : list N) : res (N * list N) :=
  if len rest <? l then Err else Ok (l, rest).

Definition len_from_der (inp : list N) : res (N * list N) :=
  match inp with
  | [] => Err
  | b :: r =>
      if b <? 128 then len_check b r
      else
        let nbytes := N.land b 127 in
        if (nbytes <? 1) || (4 <? nbytes) then Err
        else if len r <? nbytes then Err
        else match r with
             | [] => Fault
             | c :: _ =>
                 if (nbytes =? 1) && (c <? 128) then Err
                 else if (1 <? nbytes) && (c =? 0) then Err
                 else len_check (be_to_N (takeN nbytes r)) (dropN nbytes r)
             end
  end.

(* callers ignore the status of asn1_length_to_der: "(void)asn1_length_to_der(...)" *)
Definition len_enc (l : N) : list N := match len_to_der l with Some e => e | None => [] end.
Definition len_sz (l : N) : N := match len_size l with Some n => n | None => 0 end.

(* ------------------------------------------------------------------ generic TLV *)
Definition type_to_der (tag : N) (d : option (list N)) : res (list N) :=
  match d with
  | None => Absent
  | Some d => Ok (tag :: len_enc (len d) ++ d)
  end.
Definition type_size (tag : N) (d : option (list N)) : N :=
  match d with None => 0 | Some d => 1 + len_sz (len d) + len d end.

Definition type_from_der (tag : N) (inp : list N) : res (list N * list N) :=
  match inp with
  | [] => Absent
  | b :: r =>
      if negb (b =? tag) then Absent
      else match len_from_der r with
           | Ok (l, r') => Ok (takeN l r', dropN l r')
           | Fault => Fault
           | _ => Err
           end
  end.

Definition nonempty_type_from_der (tag : N) (inp : list N) : res (list N * list N) :=
  match type_from_der tag inp with
  | Ok (d, r) => if len d =? 0 then Err else Ok (d, r)
  | x => x
  end.

Definition any_type_from_der (inp : list N) : res (N * list N * list N) :=
  match inp with
  | [] => Absent
  | t :: r =>
      match len_from_der r with
      | Ok (l, r') => Ok (t, takeN l r', dropN l r')
      | Fault => Fault
      | _ => Err
      end
  end.

(* asn1_any_from_der: the whole TLV and the remainder *)
Definition any_from_der (inp : list N) : res (list N * list N) :=
  match any_type_from_der inp with
  | Ok (_, _, r) => Ok (takeN (len inp - len r) inp, r)
  | Absent => Absent
  | Err => Err
  | Fault => Fault
  end.

(* ------------------------------------------------------------------ BOOLEAN *)
Definition boolean_to_der (tag : N) (val : Z) : res (list N) :=
  if (val <? 0)%Z then Absent
  else Ok [tag; 1; if (val =? 0)%Z then 0 else 255].
Definition boolean_size (val : Z) : N := if (val <? 0)%Z then 0 else 3.

Definition boolean_from_der (tag : N) (inp : list N) : res (bool * list N) :=
  match inp with
  | [] => Absent
  | b :: _ =>
      if negb (b =? tag) then Absent
      else if len inp <? 3 then Err
      else match inp with
           | _ :: l :: v :: r =>
               if negb (l =? 1) then Err
               else if negb (v =? 255) && negb (v =? 0) then Err
               else Ok (v =? 255, r)
           | _ => Fault
           end
  end.

(* ------------------------------------------------------------------ INTEGER (byte string) *)
(* while (a[0] == 0 && alen > 1) { a++; alen--; } *)
Fixpoint strip0 (a : list N) : list N :=
  match a with
  | 0 :: (_ :: _) as r => strip0 r
  | _ => a
  end.

Definition integer_to_der (tag : N) (a : option (list N)) : res (list N) :=
  match a with
  | None => Absent
  | Some a =>
      if (len a =? 0) || (INT_MAX <? len a) then Err
      else
        let a' := strip0 a in
        match a' with
        | [] => Fault
        | b :: _ =>
            if hibit b then Ok (tag :: len_enc (len a' + 1) ++ 0 :: a')
            else Ok (tag :: len_enc (len a') ++ a')
        end
  end.
Definition integer_size (a : option (list N)) : N :=
  match a with
  | None => 0
  | Some a =>
      let a' := strip0 a in
      match a' with
      | [] => 0
      | b :: _ => if hibit b then 1 + len_sz (len a' + 1) + (1 + len a')
                  else 1 + len_sz (len a') + len a'
      end
  end.

Definition integer_from_der (tag : N) (inp : list N) : res (list N * list N) :=
  match inp with
  | [] => Absent
  | t :: r0 =>
      if negb (t =? tag) then Absent
      else match len_from_der r0 with
           | Ok (l, r) =>
               if l =? 0 then Err
               else match r with
                    | [] => Fault                              (* **in *)
                    | b :: r1 =>
                        if hibit b then Err                    (* negative *)
                        else
                          if (b =? 0) && (1 <? l) then          (* remove leading zero *)
                            match r1 with
                            | [] => Fault
                            | c :: _ =>
                                if negb (hibit c) then Err       (* the following bit should be one *)
                                else (* "no leading zeros": **in == 0 cannot hold here *)
                                  if (c =? 0) && (1 <? l - 1) then Err
                                  else Ok (takeN (l - 1) r1, dropN (l - 1) r1)
                            end
                          else
                            if (b =? 0) && (1 <? l) then Err
                            else Ok (takeN l r, dropN l r)
                    end
           | Fault => Fault
           | _ => Err
           end
  end.

(* ------------------------------------------------------------------ INTEGER (C int) *)
(* while (a > 0) { buf[3 - len] = a & 0xff; a >>= 8; len++; } *)
Fixpoint int_bytes (fuel : nat) (a : N) (acc : list N) : list N :=
  match fuel with
  | O => acc
  | S f => if a =? 0 then acc else int_bytes f (a / 256) (a mod 256 :: acc)
  end.

(* a is a C int: -2^31 <= a < 2^31 *)
Definition int_to_der (tag : N) (a : Z) : res (list N) :=
  if (a =? -1)%Z then Absent
  else
    let b := if (a <=? 0)%Z then [] else int_bytes 4 (Z.to_N a) [] in
    integer_to_der tag (Some (match b with [] => [0] | _ => b end)).
Definition int_size (a : Z) : N :=
  if (a =? -1)%Z then 0
  else
    let b := if (a <=? 0)%Z then [] else int_bytes 4 (Z.to_N a) [] in
    integer_size (Some (match b with [] => [0] | _ => b end)).

(* "a = (a << 8) | p[i]" on a 32-bit int: with four content bytes and p[0] >= 0x80 the last
   shift overflows the int (undefined; UBSan: "left shift ... cannot be represented").
   [AsIs]: Fault.  [Fixed] (accumulate in uint32_t / refuse first): negative result => Err. *)
Definition int_from_der (m : mode) (tag : N) (inp : list N) : res (N * list N) :=
  match integer_from_der tag inp with
  | Ok (p, r) =>
      if 4 <? len p then Err
      else match p with
           | b :: _ =>
               if (len p =? 4) && (128 <=? b)
               then (if fx_int_shift m then Err else Fault)
               else Ok (be_to_N p, r)
           | [] => Ok (0, r)
           end
  | Absent => Absent
  | Err => Err
  | Fault => Fault
  end.

(* ------------------------------------------------------------------ BIT STRING *)
Definition bit_string_to_der (tag : N) (bits : option (list N)) (nbits : N) : res (list N) :=
  let nbytes := (nbits + 7) / 8 in
  let unused := nbytes * 8 - nbits in
  match bits with
  | None => if nbits =? 0 then Absent else Err
  | Some b =>
      if len b <? nbytes then Fault                (* memcpy(out, bits, nbytes) over-reads *)
      else Ok (tag :: len_enc (nbytes + 1) ++ unused :: takeN nbytes b)
  end.
Definition bit_string_size (bits : option (list N)) (nbits : N) : N :=
  let nbytes := (nbits + 7) / 8 in
  match bits with
  | None => 0
  | Some _ => 1 + len_sz (nbytes + 1) + 1 + nbytes
  end.

(* AsIs: "if (len < 2) error" refuses the empty bit string 03 01 00 that the encoder
   produces for nbits = 0.  Fixed: len >= 1, and an empty string must have unused = 0. *)
Definition bit_string_from_der (m : mode) (tag : N) (inp : list N) : res (list N * N * list N) :=
  match inp with
  | [] => Absent
  | t :: r0 =>
      if negb (t =? tag) then Absent
      else match len_from_der r0 with
           | Ok (l, r) =>
               if (if fx_bit_empty m then l <? 1 else l <? 2) then Err
               else match r with
                    | [] => Fault
                    | u :: r1 =>
                        if 7 <? u then Err
                        else if fx_bit_empty m && (l =? 1) && negb (u =? 0) then Err
                        else Ok (takeN (l - 1) r1, (l - 1) * 8 - u, dropN (l - 1) r1)
                    end
           | Fault => Fault
           | _ => Err
           end
  end.

Definition bit_octets_to_der (tag : N) (o : option (list N)) : res (list N) :=
  bit_string_to_der tag o (match o with Some b => len b * 8 | None => 0 end).

Definition bit_octets_from_der (m : mode) (tag : N) (inp : list N) : res (list N * list N) :=
  match bit_string_from_der m tag inp with
  | Ok (b, nbits, r) => if nbits mod 8 =? 0 then Ok (b, r) else Err
  | Absent => Absent
  | Err => Err
  | Fault => Fault
  end.

(* asn1_bits_to_der_ex: named-bit list held in a C int (bit i of the int = bit i of the string) *)
Fixpoint bits_lsb (fuel : nat) (a : N) : list bool :=
  match fuel with
  | O => []
  | S f => if a =? 0 then [] else N.odd a :: bits_lsb f (a / 2)
  end.
Fixpoint pack_byte (mask : N) (bs : list bool) : N :=     (* mask = 0x80 >> k *)
  match bs with
  | [] => 0
  | b :: r => (if b then mask else 0) + pack_byte (mask / 2) r
  end.
Fixpoint pack_bits (fuel : nat) (bs : list bool) : list N :=
  match fuel with
  | O => []
  | S f => match bs with [] => [] | _ => pack_byte 128 (firstn 8 bs) :: pack_bits f (skipn 8 bs) end
  end.

Definition bits_to_der (tag : N) (bits : Z) : res (list N) :=
  if (bits <? 0)%Z then Absent
  else
    let bl := bits_lsb 32 (Z.to_N bits) in
    let nbits := if len bl =? 0 then 1 else len bl in
    (* buf[4] zero-initialised: at least one byte is always available *)
    let buf := pack_bits 4 bl ++ zeros (4 - length (pack_bits 4 bl)) in
    bit_string_to_der tag (Some buf) nbits.
Definition bits_size (bits : Z) : N :=
  if (bits <? 0)%Z then 0
  else
    let bl := bits_lsb 32 (Z.to_N bits) in
    let nbits := if len bl =? 0 then 1 else len bl in
    bit_string_size (Some []) nbits.

(* for (i = 0; i < nbits; i++) { if (i % 8 == 0) c = *p++; *bits |= ((c & 0x80) >> 7) << i; c <<= 1; } *)
Fixpoint unpack_byte (k : nat) (c : N) (w : N) : N :=     (* k bits of c, MSB first, weight w, 2w, ... *)
  match k with
  | O => 0
  | S k' => (if hibit c then w else 0) + unpack_byte k' ((c * 2) mod 256) (w * 2)
  end.
Fixpoint unpack_bits (fuel : nat) (p : list N) (nbits : N) (w : N) : res N :=
  if nbits =? 0 then Ok 0
  else match fuel with
       | O => Fault                                   (* not reached: nbits <= 31 needs <= 4 bytes *)
       | S f =>
           match p with
           | [] => Fault                              (* c = *p++ beyond the content *)
           | c :: r =>
               let k := N.min nbits 8 in
               match unpack_bits f r (nbits - k) (w * 2 ^ k) with
               | Ok v => Ok (unpack_byte (N.to_nat k) c w + v)
               | x => x
               end
           end
       end.

Definition bits_from_der (m : mode) (tag : N) (inp : list N) : res (N * list N) :=
  match bit_string_from_der m tag inp with
  | Ok (p, nbits, r) =>
      if 31 <? nbits then Err
      else match unpack_bits 4 p nbits 1 with
           | Ok v => Ok (v, r)
           | Fault => Fault
           | _ => Err
           end
  | Absent => Absent
  | Err => Err
  | Fault => Fault
  end.

(* ------------------------------------------------------------------ NULL *)
Definition null_to_der : list N := [5; 0].
Definition null_from_der (inp : list N) : res (list N) :=
  match inp with
  | [] => Absent
  | t :: r =>
      if negb (t =? 5) then Absent
      else match r with
           | [] => Err
           | v :: r' => if negb (v =? 0) then Err else Ok r'
           end
  end.

(* ------------------------------------------------------------------ OBJECT IDENTIFIER *)
(* buf[n++] = a & 0x7f; a >>= 7; while (a) { buf[n++] = 0x80 | (a & 0x7f); a >>= 7; }  then
   emitted from buf[n-1] down to buf[0].  a is a uint32_t. *)
Fixpoint b128_hi (fuel : nat) (a : N) (acc : list N) : list N :=
  match fuel with
  | O => acc
  | S f => if a =? 0 then acc else b128_hi f (a / 128) ((128 + a mod 128) :: acc)
  end.
Definition node_to_base128 (a : N) : list N := b128_hi 4 (a / 128) [a mod 128].

(* for (;;) { if (inlen-- < 1 || n >= 5) return -1; buf[n] = *in++;
              if ((buf[n++] & 0x80) == 0) break; } ; [acc] is buf reversed *)
Fixpoint node_read (fuel : nat) (inp : list N) (acc : list N) : res (list N * list N) :=
  match fuel with
  | O => Err
  | S f =>
      match inp with
      | [] => Err
      | b :: r => if hibit b then node_read f r (b :: acc) else Ok (rev (b :: acc), r)
      end
  end.

(* a = (a << 7) | (buf[i] & 0x7f) in uint32_t *)
Definition node_val (buf : list N) : N :=
  fold_left (fun a b => (a * 128 + b mod 128) mod 2 ^ 32) buf 0.

(* AsIs accepts a leading 0x80 (an arc with redundant zero septets: not DER);
   Fixed refuses it. *)
Definition node_from_base128 (m : mode) (inp : list N) : res (N * list N) :=
  match node_read 5 inp [] with
  | Ok (buf, r) =>
      match buf with
      | [] => Fault
      | b0 :: _ =>
          if (len buf =? 5) && negb (N.land b0 112 =? 0) then Err    (* n == 5 && (buf[0] & 0x70) *)
          else if fx_oid_lead m && (b0 =? 128) then Err
          else Ok (node_val buf, r)
      end
  | Absent => Absent
  | Err => Err
  | Fault => Fault
  end.

Definition OID_MAX_NODES : N := 32.

(* first subidentifier.  AsIs: one octet, nodes[0]*40 + nodes[1] truncated to uint8_t on the
   way out, in/40 and in%40 on the way in.  Fixed: X.690 8.19.4 (one base-128 subidentifier
   40*X+Y with X in {0,1,2}). *)
Definition oid_first_to (m : mode) (n0 n1 : N) : res (list N) :=
  if fx_oid_first m then
    if (2 <? n0) || ((n0 <? 2) && (39 <? n1)) || (2 ^ 32 <=? n0 * 40 + n1) then Err
    else Ok (node_to_base128 (n0 * 40 + n1))
  else Ok [((n0 * 40 + n1) mod 2 ^ 32) mod 256].

Definition oid_to_octets (m : mode) (nodes : list N) : res (list N) :=
  if (len nodes <? 2) || (OID_MAX_NODES <? len nodes) then Err
  else match nodes with
       | n0 :: n1 :: r =>
           match oid_first_to m n0 n1 with
           | Ok f => Ok (f ++ concat (map node_to_base128 r))
           | _ => Err
           end
       | _ => Fault
       end.

(* the loop of asn1_object_identifier_from_octets; [cap] is the real capacity of the caller's
   nodes[] array, [cnt] the C variable *nodes_cnt, [acc] the arcs written so far (reversed).
   AsIs tests "cnt > 32" before writing nodes[cnt]; Fixed tests "cnt >= 32". *)
Fixpoint oid_loop (m : mode) (cap : N) (fuel : nat) (inp : list N) (cnt : N) (acc : list N)
  : res (list N) :=
  match inp with
  | [] => Ok (rev acc)
  | _ =>
      match fuel with
      | O => Fault                                       (* not reached: every arc consumes a byte *)
      | S f =>
          if (if fx_oid_cap m then OID_MAX_NODES <=? cnt else OID_MAX_NODES <? cnt) then Err
          else match node_from_base128 m inp with
               | Ok (v, r) =>
                   if cap <=? cnt then Fault              (* nodes[cnt] = val beyond the array *)
                   else oid_loop m cap f r (cnt + 1) (v :: acc)
               | Fault => Fault
               | _ => Err
               end
      end
  end.

Definition oid_from_octets (m : mode) (cap : N) (inp : list N) : res (list N) :=
  match inp with
  | [] => Err                                            (* !inlen *)
  | b :: r =>
      if cap <? 2 then Fault
      else
        if fx_oid_first m then
          match node_from_base128 m inp with
          | Ok (v, r') =>
              let '(n0, n1) := if v <? 40 then (0, v) else if v <? 80 then (1, v - 40) else (2, v - 80) in
              oid_loop m cap (length r') r' 2 [n1; n0]
          | Fault => Fault
          | _ => Err
          end
        else oid_loop m cap (length r) r 2 [b mod 40; b / 40]
  end.

Definition oid_to_der (m : mode) (tag : N) (nodes : option (list N)) : res (list N) :=
  match nodes with
  | None => Absent
  | Some ns =>
      match oid_to_octets m ns with
      | Ok o => Ok (tag :: len_enc (len o) ++ o)
      | _ => Err
      end
  end.
Definition oid_size (m : mode) (nodes : option (list N)) : N :=
  match nodes with
  | None => 0
  | Some ns => match oid_to_octets m ns with Ok o => 1 + len_sz (len o) + len o | _ => 0 end
  end.

Definition oid_from_der (m : mode) (cap : N) (tag : N) (inp : list N) : res (list N * list N) :=
  match inp with
  | [] => Absent
  | t :: r0 =>
      if negb (t =? tag) then Absent
      else match len_from_der r0 with
           | Ok (l, r) =>
               if l <? 1 then Err
               else match oid_from_octets m cap (takeN l r) with
                    | Ok ns => Ok (ns, dropN l r)
                    | Fault => Fault
                    | _ => Err
                    end
           | Fault => Fault
           | _ => Err
           end
  end.

(* ------------------------------------------------------------------ SEQUENCE OF INTEGER *)
Fixpoint seq_ints_body (tag : N) (nums : list Z) : res (list N) :=
  match nums with
  | [] => Ok []
  | a :: r =>
      match int_to_der tag a with
      | Ok e => match seq_ints_body tag r with Ok e' => Ok (e ++ e') | x => x end
      | _ => Err                                          (* asn1_int_to_der(...) != 1, incl. -1 => 0 *)
      end
  end.
Definition seq_of_int_to_der (nums : list Z) : res (list N) :=
  if len nums =? 0 then Err
  else match seq_ints_body 2 nums with
       | Ok body => Ok (48 :: len_enc (len body) ++ body)
       | _ => Err
       end.
Definition seq_of_int_size (nums : list Z) : N :=
  let l := fold_left (fun acc a => acc + int_size a) nums 0 in
  1 + len_sz l + l.

Fixpoint seq_ints_loop (m : mode) (cap maxn : N) (fuel : nat) (d : list N) (cnt : N) (acc : list N)
  : res (list N) :=
  match d with
  | [] => Ok (rev acc)
  | _ =>
      match fuel with
      | O => Fault
      | S f =>
          if (if fx_seq_cap m then maxn <=? cnt else maxn <? cnt) then Err
          else match int_from_der m 2 d with
               | Ok (v, r) =>
                   if cap <=? cnt then Fault              (* *nums++ = num beyond the array *)
                   else seq_ints_loop m cap maxn f r (cnt + 1) (v :: acc)
               | Fault => Fault
               | _ => Err                                  (* 0 (wrong tag) is "!= 1" too *)
               end
      end
  end.

Definition seq_of_int_from_der (m : mode) (cap maxn : N) (inp : list N) : res (list N * list N) :=
  if maxn =? 0 then Err
  else match type_from_der 48 inp with
       | Ok (d, r) =>
           match seq_ints_loop m cap maxn (length d) d 0 [] with
           | Ok ns => Ok (ns, r)
           | Fault => Fault
           | _ => Err
           end
       | Absent => Absent
       | Err => Err
       | Fault => Fault
       end.

(* ------------------------------------------------------------------ character strings *)
(* asn1_utf8char_from_bytes: Some rest = 1, None = -1 (0 for empty input is handled by the caller).
   AsIs: continuation test "(in[i] & 0x60) != 0x80", which is always true (0x80 is not a
   sub-mask of 0x60): every multi-byte character is refused.  Fixed: "& 0xc0". *)
Definition utf8_cont_bad (m : mode) (b : N) : bool :=
  if fx_utf8 m then negb (N.land b 192 =? 128) else negb (N.land b 96 =? 128).

Definition utf8char_from_bytes (m : mode) (inp : list N) : res (list N) :=
  match inp with
  | [] => Absent
  | b :: r =>
      let n := if N.land b 128 =? 0 then 1
               else if N.land b 224 =? 192 then 2
               else if N.land b 240 =? 224 then 3
               else if N.land b 248 =? 240 then 4 else 0 in
      if n =? 0 then Err
      else if len inp <? n then Err
      else if existsb (utf8_cont_bad m) (takeN (n - 1) r) then Err
      else Ok (dropN (n - 1) r)
  end.

Fixpoint is_utf8_loop (m : mode) (fuel : nat) (a : list N) : bool :=
  match a with
  | [] => true
  | _ =>
      match fuel with
      | O => false
      | S f => match utf8char_from_bytes m a with Ok r => is_utf8_loop m f r | _ => false end
      end
  end.
Definition is_utf8_string (m : mode) (a : list N) : bool :=
  match a with [] => false | _ => is_utf8_loop m (length a) a end.

(* bytes are C chars: >= 0x80 is negative and fails every range test *)
Definition char_is_printable (c : N) : bool :=
  ((48 <=? c) && (c <=? 57)) || ((97 <=? c) && (c <=? 122)) || ((65 <=? c) && (c <=? 90))
  || existsb (N.eqb c) [32; 39; 40; 41; 43; 44; 45; 46; 47; 58; 61; 63].
Definition is_printable_string (a : list N) : bool := forallb char_is_printable a.
Definition is_ia5_string (a : list N) : bool := forallb (fun c => c <? 128) a.

(* the three *_string_to_der_ex / from_der_ex pairs share one shape *)
Definition string_to_der (valid : list N -> bool) (tag : N) (d : option (list N)) : res (list N) :=
  if negb (valid (match d with Some x => x | None => [] end)) then Err
  else type_to_der tag d.
Definition string_from_der (valid : list N -> bool) (tag : N) (inp : list N) : res (list N * list N) :=
  match type_from_der tag inp with
  | Ok (d, r) => if len d =? 0 then Err else if valid d then Ok (d, r) else Err
  | x => x
  end.

(* ------------------------------------------------------------------ SM2 signature  SEQUENCE { r, s } *)
(* r, s are the 32-byte big-endian fields of SM2_SIGNATURE *)
Definition sm2_sig_to_der (r s : list N) : res (list N) :=
  match integer_to_der 2 (Some r), integer_to_der 2 (Some s) with
  | Ok er, Ok es => Ok (48 :: len_enc (len er + len es) ++ er ++ es)
  | _, _ => Err
  end.
Definition sm2_sig_size (r s : list N) : N :=
  let l := integer_size (Some r) + integer_size (Some s) in
  1 + len_sz l + l.

Definition pad32 (a : list N) : list N := zeros (32 - length a) ++ a.

Definition sm2_sig_from_der (inp : list N) : res (list N * list N * list N) :=
  match type_from_der 48 inp with
  | Ok (d, rest) =>
      match integer_from_der 2 d with
      | Ok (r, d1) =>
          match integer_from_der 2 d1 with
          | Ok (s, d2) =>
              if (32 <? len r) || (32 <? len s) || negb (len d2 =? 0) then Err
              else Ok (pad32 r, pad32 s, rest)
          | Fault => Fault
          | _ => Err
          end
      | Fault => Fault
      | _ => Err
      end
  | Absent => Absent
  | Err => Err
  | Fault => Fault
  end.
