(* Proofs about Codec/Crl.v: no decoder of the CRL / certification request layer reaches Fault (hence:
   every loop terminates within its fuel, every read stays inside the buffer it was given), the loop
   steps consume, and the locally named enum values agree with the generated tables. *)
From GmVerif Require Import Base.Bytes Codec.Der Codec.DerProofs Codec.SafetyProofs Codec.Time Codec.TimeProofs
  Codec.Pkcs Codec.PkcsProofs Codec.OidTables Codec.X509 Codec.X509Proofs Codec.Crl.
From Coq Require Import Lia ZArith List ZifyN ZifyNat ZifyBool.
Import ListNotations.
Local Open Scope N_scope.
Ltac Zify.zify_post_hook ::= Z.div_mod_to_equations.

(* the hints of Codec/X509Proofs.v are local to that file *)
#[local] Hint Resolve type_from_der_nofault nonempty_type_from_der_nofault integer_from_der_nofault
  null_from_der_nofault oid_from_der_m_nofault int_from_der_m_nofault bit_octets_from_der_m_nofault
  oid_info_from_der_nofault any_type_from_der_nofault any_from_der_nofault boolean_from_der_nofault
  bits_from_der_nofault time_from_der_nf seq_of_int_m_nofault sm2_pubinfo_from_der_nofault
  otype_nofault ontype_nofault oint_nofault obits_nofault obool_nofault oid_info_ex_nofault at_end_nofault
  sign_algor_from_der_nofault distribution_point_name_from_der_nofault x509_time_from_der_nofault
  explicit_exts_from_der_nofault signed_from_der_nofault : pkcs_nofault.

(* ------------------------------------------------------------------ 0. the local enum values *)
Lemma crl_oid_consts :
  id_of tab_crl_entry_exts [2; 5; 29; 21] = Some OID_ce_crl_reasons /\
  id_of tab_crl_entry_exts [2; 5; 29; 24] = Some OID_ce_invalidity_date /\
  id_of tab_crl_entry_exts [2; 5; 29; 29] = Some OID_ce_certificate_issuer /\
  id_of tab_crl_exts [2; 5; 29; 35] = Some OID_ce_authority_key_identifier /\
  id_of tab_crl_exts [2; 5; 29; 18] = Some OID_ce_issuer_alt_name /\
  id_of tab_crl_exts [2; 5; 29; 20] = Some OID_ce_crl_number /\
  id_of tab_crl_exts [2; 5; 29; 27] = Some OID_ce_delta_crl_indicator /\
  id_of tab_crl_exts [2; 5; 29; 28] = Some OID_ce_issuing_distribution_point /\
  id_of tab_crl_exts [2; 5; 29; 46] = Some OID_ce_freshest_crl /\
  id_of tab_crl_exts [1; 3; 6; 1; 5; 5; 7; 1; 1] = Some OID_pe_authority_info_access /\
  id_of tab_ext_ids [2; 5; 29; 21] = Some OID_ce_crl_reasons /\
  id_of tab_ext_ids [2; 5; 29; 18] = Some OID_ce_issuer_alt_name /\
  id_of tab_ext_ids [2; 5; 29; 46] = Some OID_ce_freshest_crl.
Proof. repeat split; reflexivity. Qed.

(* ------------------------------------------------------------------ 1. CRLReason, crlEntryExtensions *)
Lemma crl_reason_from_der_ex_nofault tag inp : crl_reason_from_der_ex tag inp <> Fault.
Proof. unfold crl_reason_from_der_ex. x509_nf. Qed.
Lemma crl_reason_from_der_nofault inp : crl_reason_from_der inp <> Fault.
Proof. apply crl_reason_from_der_ex_nofault. Qed.
Lemma implicit_crl_reason_from_der_nofault i inp : implicit_crl_reason_from_der i inp <> Fault.
Proof. apply crl_reason_from_der_ex_nofault. Qed.
Lemma crl_entry_ext_id_from_der_nofault inp : crl_entry_ext_id_from_der inp <> Fault.
Proof. unfold crl_entry_ext_id_from_der. x509_nf. Qed.
#[local] Hint Resolve crl_reason_from_der_nofault crl_entry_ext_id_from_der_nofault : pkcs_nofault.
Lemma crl_entry_ext_from_der_nofault inp : crl_entry_ext_from_der inp <> Fault.
Proof. unfold crl_entry_ext_from_der. x509_nf. Qed.
Lemma crl_entry_ext_from_der_shrinks : shrinks crl_entry_ext_from_der.
Proof. unfold crl_entry_ext_from_der. apply seq_dec_shrinks. Qed.
#[local] Hint Resolve crl_entry_ext_from_der_nofault : pkcs_nofault.
Lemma crl_entry_ext_from_der_ex_nofault rs dt ci inp : crl_entry_ext_from_der_ex rs dt ci inp <> Fault.
Proof. unfold crl_entry_ext_from_der_ex. x509_nf. Qed.
(* the step of the two loops consumes: what it leaves is what x509_crl_entry_ext_from_der leaves *)
Lemma crl_entry_ext_from_der_ex_shrinks rs dt ci d oid crit rs' dt' ci' r :
  crl_entry_ext_from_der_ex rs dt ci d = Ok (oid, crit, rs', dt', ci', r) -> (length r < length d)%nat.
Proof.
  unfold crl_entry_ext_from_der_ex.
  destruct (crl_entry_ext_from_der d) as [[[[o c] v] rest]| | |] eqn:E; try discriminate.
  apply crl_entry_ext_from_der_shrinks in E. intros H.
  assert (r = rest); [|subst; exact E].
  destruct (o =? OID_ce_crl_reasons)%Z.
  { destruct (negb (rs =? -1)%Z); [discriminate|].
    destruct (crl_reason_from_der v) as [[? ?]| | |]; cbn [bind_ok] in H; try discriminate. injection H as _ _ _ _ _ <-. reflexivity. }
  destruct (o =? OID_ce_invalidity_date)%Z.
  { destruct (negb (dt =? -1)%Z); [discriminate|].
    destruct (time_from_der false 24 v) as [[? ?]| | |]; cbn [bind_ok] in H; try discriminate. injection H as _ _ _ _ _ <-. reflexivity. }
  destruct (o =? OID_ce_certificate_issuer)%Z; [|discriminate].
  destruct (negb (ptr_is_null ci)); [discriminate|].
  destruct (type_from_der 48 v) as [[? ?]| | |]; cbn [bind_ok] in H; try discriminate. injection H as _ _ _ _ _ <-. reflexivity.
Qed.
Lemma crl_entry_exts_loop_nofault fuel : forall rs dt ci d, (length d <= fuel)%nat -> crl_entry_exts_loop fuel rs dt ci d <> Fault.
Proof.
  induction fuel as [|k IH]; intros rs dt ci d L.
  - destruct d; [discriminate|cbn in L; lia].
  - destruct d as [|b t]; [discriminate|]. cbn [crl_entry_exts_loop].
    pose proof (crl_entry_ext_from_der_ex_nofault rs dt ci (b :: t)) as NF.
    destruct (crl_entry_ext_from_der_ex rs dt ci (b :: t)) as [[[[[[oid crit] rs'] dt'] ci'] r]| | |] eqn:E; try discriminate; [|congruence].
    destruct (crl_entry_ext_critical_check oid crit); [|discriminate].
    apply IH. apply crl_entry_ext_from_der_ex_shrinks in E. lia.
Qed.
Lemma crl_entry_exts_get_nofault d : crl_entry_exts_get d <> Fault.
Proof. unfold crl_entry_exts_get. apply crl_entry_exts_loop_nofault. lia. Qed.
#[local] Hint Resolve crl_entry_exts_get_nofault : pkcs_nofault.
Lemma crl_entry_exts_from_der_nofault inp : crl_entry_exts_from_der inp <> Fault.
Proof. unfold crl_entry_exts_from_der. x509_nf. Qed.
Lemma crl_entry_exts_check_nofault d : crl_entry_exts_check d <> Fault.
Proof.
  unfold crl_entry_exts_check. pose proof (crl_entry_exts_loop_nofault (length d) (-1)%Z (-1)%Z PNull d (le_n _)) as H.
  destruct (crl_entry_exts_loop _ _ _ _ d); congruence.
Qed.

(* ------------------------------------------------------------------ 2. RevokedCertificate *)
Lemma revoked_cert_from_der_nofault inp : revoked_cert_from_der inp <> Fault.
Proof. unfold revoked_cert_from_der. x509_nf. Qed.
Lemma revoked_cert_from_der_shrinks : shrinks revoked_cert_from_der.
Proof. unfold revoked_cert_from_der. apply seq_dec_shrinks. Qed.
Lemma revoked_cert_from_der_ex_nofault inp : revoked_cert_from_der_ex inp <> Fault.
Proof. unfold revoked_cert_from_der_ex. x509_nf. Qed.
Lemma revoked_cert_from_der_ex_shrinks : shrinks revoked_cert_from_der_ex.
Proof. unfold revoked_cert_from_der_ex. apply seq_dec_shrinks. Qed.
Lemma revoked_certs_find_by_serial_nofault d serial : revoked_certs_find_by_serial d serial <> Fault.
Proof.
  unfold revoked_certs_find_by_serial.
  pose proof (find_loop_nofault revoked_cert_from_der (fun '(sn, _, _) => list_eqb sn serial)
    revoked_cert_from_der_nofault revoked_cert_from_der_shrinks (length d) d (le_n _)) as H.
  destruct (find_loop _ _ _ d) as [[[[[? ?] ?] ?]|]| | |]; congruence.
Qed.
#[local] Hint Resolve revoked_certs_find_by_serial_nofault : pkcs_nofault.

(* ------------------------------------------------------------------ 3. crlExtensions *)
Lemma crl_ext_id_from_der_ex_nofault inp : crl_ext_id_from_der_ex inp <> Fault.
Proof. unfold crl_ext_id_from_der_ex. x509_nf. Qed.
#[local] Hint Resolve crl_ext_id_from_der_ex_nofault : pkcs_nofault.
Lemma crl_ext_id_from_der_nofault inp : crl_ext_id_from_der inp <> Fault.
Proof. unfold crl_ext_id_from_der. x509_nf. Qed.
Lemma issuing_distribution_point_from_der_nofault inp : issuing_distribution_point_from_der inp <> Fault.
Proof. unfold issuing_distribution_point_from_der. x509_nf. Qed.
Lemma crl_ext_critical_check_nofault oid crit : crl_ext_critical_check oid crit <> Fault.
Proof. unfold crl_ext_critical_check. x509_nf. Qed.
Lemma crl_ext_from_der_ex_nofault inp : crl_ext_from_der_ex inp <> Fault.
Proof. unfold crl_ext_from_der_ex. x509_nf. Qed.
Lemma crl_ext_from_der_ex_shrinks : shrinks crl_ext_from_der_ex.
Proof. unfold crl_ext_from_der_ex. apply seq_dec_shrinks. Qed.
Lemma crl_exts_check_nofault d : crl_exts_check d <> Fault.
Proof.
  unfold crl_exts_check.
  pose proof (fold_loop_nofault crl_ext_from_der_ex (fun _ : unit => true)
    (fun _ '(oid, _, crit, _) =>
       match crl_ext_critical_check oid crit with
       | Ok _ => if (crit =? X509_critical)%Z then Err else Ok tt
       | Fault => Fault
       | _ => Err
       end)
    crl_ext_from_der_ex_nofault crl_ext_from_der_ex_shrinks) as H.
  specialize (H ltac:(intros ? [[[oid ?] crit] ?]; pose proof (crl_ext_critical_check_nofault oid crit);
                      destruct (crl_ext_critical_check oid crit); try congruence; destruct (crit =? X509_critical)%Z; discriminate)
                (length d) tt d (le_n _)).
  destruct (fold_loop _ _ _ _ tt d); congruence.
Qed.
#[local] Hint Resolve crl_exts_check_nofault : pkcs_nofault.

(* ------------------------------------------------------------------ 4. TBSCertList, CertificateList *)
Lemma tbs_crl_from_der_nofault inp : tbs_crl_from_der inp <> Fault.
Proof. unfold tbs_crl_from_der. x509_nf. Qed.
Lemma tbs_crl_from_der_shrinks : shrinks tbs_crl_from_der.
Proof. unfold tbs_crl_from_der. apply seq_dec_shrinks. Qed.
#[local] Hint Resolve tbs_crl_from_der_nofault : pkcs_nofault.
Lemma crl_from_der_ex_nofault inp : crl_from_der_ex inp <> Fault.
Proof. unfold crl_from_der_ex. x509_nf. Qed.
Lemma crl_get_details_nofault a : crl_get_details a <> Fault.
Proof. unfold crl_get_details. x509_nf. Qed.
#[local] Hint Resolve crl_get_details_nofault : pkcs_nofault.
Lemma crl_check_nofault a now : crl_check a now <> Fault.
Proof. unfold crl_check. x509_nf. Qed.
Lemma crl_get_issuer_nofault a : crl_get_issuer a <> Fault.
Proof. unfold crl_get_issuer. x509_nf. Qed.
Lemma crl_get_revoked_certs_nofault a : crl_get_revoked_certs a <> Fault.
Proof. unfold crl_get_revoked_certs. x509_nf. Qed.
#[local] Hint Resolve crl_get_issuer_nofault crl_get_revoked_certs_nofault : pkcs_nofault.
Lemma crl_find_revoked_cert_by_serial_number_nofault a serial : crl_find_revoked_cert_by_serial_number a serial <> Fault.
Proof. unfold crl_find_revoked_cert_by_serial_number. x509_nf. Qed.
Lemma crl_from_der_nofault inp : crl_from_der inp <> Fault.
Proof. unfold crl_from_der. x509_nf. Qed.

(* ------------------------------------------------------------------ 5. certification request *)
Section ReqProofs.
  Variable pt_ok : list N -> bool.
  Lemma request_info_from_der_nofault inp : request_info_from_der pt_ok inp <> Fault.
  Proof. unfold request_info_from_der. x509_nf. Qed.
  #[local] Hint Resolve request_info_from_der_nofault : pkcs_nofault.
  Lemma request_from_der_nofault inp : request_from_der pt_ok inp <> Fault.
  Proof. unfold request_from_der. x509_nf. Qed.
  #[local] Hint Resolve request_from_der_nofault : pkcs_nofault.
  Lemma req_get_details_nofault a : req_get_details pt_ok a <> Fault.
  Proof. unfold req_get_details. x509_nf. Qed.
  #[local] Hint Resolve req_get_details_nofault : pkcs_nofault.
  Lemma req_from_der_nofault inp : req_from_der pt_ok inp <> Fault.
  Proof. unfold req_from_der. x509_nf. Qed.
End ReqProofs.

(* ------------------------------------------------------------------ 6. what the QUIRK comments of Codec/Crl.v say, as facts *)
Lemma oint_range tag inp v r : oint tag inp = Ok (v, r) -> (-1 <= v)%Z.
Proof.
  unfold oint, opt, as_z. destruct (int_from_der m tag inp) as [[x y]| | |]; try discriminate; intros H; injection H as <- _; lia.
Qed.
(* x509_tbs_crl_from_der leaves only "absent" and v2 as version; x509_crl_check then wants v1 or v2:
   only v2 CRLs pass the check, a v1 CRL (no version field) passes every decoder and never the check *)
Lemma tbs_crl_from_der_version inp t r : tbs_crl_from_der inp = Ok (t, r) -> c_version t = (-1)%Z \/ c_version t = X509_version_v2.
Proof.
  unfold tbs_crl_from_der, seq_dec, tlv_dec. destruct (type_from_der 48 inp) as [[d rest]| | |]; try discriminate.
  destruct (oint 2 d) as [[ver d1]| | |] eqn:EV; cbn [bind_ok]; try discriminate. apply oint_range in EV.
  destruct (sign_algor_from_der d1) as [[alg d2]| | |]; cbn [bind_ok]; try discriminate.
  destruct (type_from_der 48 d2) as [[issuer d3]| | |]; cbn [bind_ok]; try discriminate.
  destruct (x509_time_from_der d3) as [[tu d4]| | |]; cbn [bind_ok]; try discriminate.
  destruct (opt _ _ d4) as [[nu d5]| | |]; cbn [bind_ok]; try discriminate.
  destruct (otype 48 d5) as [[rc d6]| | |]; cbn [bind_ok]; try discriminate.
  destruct (opt _ _ d6) as [[exts d7]| | |]; cbn [bind_ok]; try discriminate.
  destruct (negb (is_nil d7)); [discriminate|].
  destruct ((0 <=? ver)%Z && negb (ver =? X509_version_v2)%Z) eqn:V; [discriminate|].
  destruct (negb (ptr_is_null rc) && negb (ver =? X509_version_v2)%Z); [discriminate|].
  destruct (negb (ptr_is_null exts) && negb (ver =? X509_version_v2)%Z); [discriminate|].
  intros H. injection H as <- _. cbn [c_version]. unfold X509_version_v2 in *. lia.
Qed.
Theorem crl_check_only_v2 a now : crl_check a now = Ok tt ->
  exists t alg sig, crl_get_details a = Ok (t, alg, sig) /\ c_version t = X509_version_v2.
Proof.
  unfold crl_check. destruct (crl_get_details a) as [[[t alg] sig]| | |] eqn:E; cbn [bind_ok]; try discriminate.
  destruct (negb (c_sigalg t =? alg)%Z); [discriminate|].
  destruct (negb (c_version t =? X509_version_v1)%Z && negb (c_version t =? X509_version_v2)%Z) eqn:V; [discriminate|].
  intros _. exists t, alg, sig. split; [reflexivity|].
  unfold crl_get_details in E. destruct (signed_from_der a) as [[[[tbs alg'] sig'] r]| | |]; cbn [bind_ok] in E; try discriminate.
  destruct (negb (is_nil r)); [discriminate|].
  destruct (tbs_crl_from_der tbs) as [[t' r1]| | |] eqn:T; cbn [bind_ok] in E; try discriminate.
  destruct (negb (is_nil r1)); [discriminate|]. injection E as -> _ _.
  apply tbs_crl_from_der_version in T. unfold X509_version_v1, X509_version_v2 in *. lia.
Qed.

(* concrete inputs *)
Definition w_time : list N := [23; 13; 50; 51; 48; 49; 48; 49; 48; 48; 48; 48; 48; 48; 90].     (* UTCTime 230101000000Z *)
Definition w_sigalg : list N := [48; 10; 6; 8; 42; 129; 28; 207; 85; 1; 131; 117].                (* sm2sign-with-sm3 *)
(* x509_crl.c:322: CRLReason keyCompromise followed by ff ff inside the extnValue is accepted *)
Example crl_entry_ext_trailing_accepted :
  crl_entry_ext_from_der_ex (-1) (-1) PNull [48; 12; 6; 3; 85; 29; 21; 4; 5; 10; 1; 1; 255; 255]
  = Ok (OID_ce_crl_reasons, (-1)%Z, 1%Z, (-1)%Z, PNull, []).
Proof. vm_compute. reflexivity. Qed.
(* x509_crl.c:604: the same entry, no crlEntryExtensions: 1 from the plain decoder, -1 from the _ex one *)
Example revoked_cert_ex_needs_exts :
  revoked_cert_from_der ([48; 18; 2; 1; 5] ++ w_time) = Ok ([5], 1672531200, PNull, []) /\
  revoked_cert_from_der_ex ([48; 18; 2; 1; 5] ++ w_time) = Err.
Proof. split; vm_compute; reflexivity. Qed.
(* x509_crl.c:840,850: IssuingDistributionPoint { onlyContainsUserCerts TRUE } is refused *)
Example idp_without_distribution_point_refused : issuing_distribution_point_from_der [48; 3; 129; 1; 255] = Err.
Proof. vm_compute. reflexivity. Qed.
(* x509_crl.c:1218-1225: issuingDistributionPoint is refused critical and non-critical; a critical
   authorityKeyIdentifier (allowed by the critical check) is refused as well *)
Example crl_exts_check_critical_refused :
  crl_exts_check [48; 12; 6; 3; 85; 29; 28; 1; 1; 255; 4; 2; 48; 0] = Err /\
  crl_exts_check [48; 9; 6; 3; 85; 29; 28; 4; 2; 48; 0] = Err /\
  crl_exts_check [48; 12; 6; 3; 85; 29; 35; 1; 1; 255; 4; 2; 48; 0] = Err /\
  crl_exts_check [48; 9; 6; 3; 85; 29; 35; 4; 2; 48; 0] = Ok tt.
Proof. repeat split; vm_compute; reflexivity. Qed.
(* x509_crl.c:1308,1604: a minimal v1 CRL is decoded (version -1) and fails the check at every time *)
Definition w_crl_v1 : list N :=
  [48; 47; 48; 29] ++ w_sigalg ++ [48; 0] ++ w_time ++ w_sigalg ++ [3; 2; 0; 1].
Example crl_v1_decoded_never_checked :
  crl_get_details w_crl_v1 = Ok (Build_tbs_crl (-1) OID_sm2sign_with_sm3 [] 1672531200 (-1) PNull PNull, OID_sm2sign_with_sm3, [1]) /\
  forall now, crl_check w_crl_v1 now = Err.
Proof. split; [vm_compute; reflexivity|]. intros now. vm_compute. reflexivity. Qed.
