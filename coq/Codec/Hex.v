(* Impl model of hex_to_bytes / hex2bin (src/hex.c) and the Spec printer it inverts. *)
From GmVerif Require Import Base.Bytes Codec.Der.
Local Open Scope N_scope.

(* bytes are C chars: values >= 0x80 are negative and fall through every range test *)
Definition hexchar2int (c : N) : option N :=
  if (48 <=? c) && (c <=? 57) then Some (c - 48)
  else if (97 <=? c) && (c <=? 102) then Some (c - 97 + 10)
  else if (65 <=? c) && (c <=? 70) then Some (c - 65 + 10)
  else None.

(* hex2bin after the parity test: Fault = a digit pair straddling the end of the input *)
Fixpoint hex2bin (inp : list N) : res (list N) :=
  match inp with
  | [] => Ok []
  | a :: b :: r =>
      match hexchar2int a with
      | None => Err
      | Some h =>
          match hexchar2int b with
          | None => Err
          | Some l =>
              match hex2bin r with
              | Ok o => Ok ((h * 16) mod 256 + l :: o)    (* ( *out = (uint8_t)c << 4 ) |= (uint8_t)c *)
              | x => x
              end
          end
      end
  | [_] => Fault
  end.

(* AsIs: for an odd length hex2bin runs error_print_msg("hex %s len = %zu\n", in, inlen): the
   input is printed as a C string although it carries an explicit length, i.e. it is read up to
   the first NUL byte -- past the end of the buffer when the text contains none. *)
Definition hex_to_bytes (m : mode) (inp : list N) : res (list N) :=
  if N.odd (len inp) then
    (if fx_hex_odd m then Err else if existsb (N.eqb 0) inp then Err else Fault)
  else hex2bin inp.

(* number of output bytes stored before the call returns (also on the error path) *)
Fixpoint hex_written (inp : list N) : N :=
  match inp with
  | a :: b :: r =>
      match hexchar2int a with
      | None => 0
      | Some _ => 1 + match hexchar2int b with None => 0 | Some _ => hex_written r end
      end
  | _ => 0
  end.

(* Spec: the printer ("%02x" / "%02X") that hex_to_bytes inverts *)
Definition hexdigit (upper : bool) (v : N) : N :=
  if v <? 10 then 48 + v else (if upper then 55 else 87) + v.
Fixpoint hex_enc (upper : bool) (bs : list N) : list N :=
  match bs with
  | [] => []
  | b :: r => hexdigit upper (b / 16) :: hexdigit upper (b mod 16) :: hex_enc upper r
  end.
