(* Proofs about the SM9 key containers of Codec/Sm9Key.v (src/sm9_key.c, src/sm9_sign.c, src/sm9_enc.c).
   (i)   round trips with exact consumption, "X_from_der (X_to_der v ++ rest) = (v, rest)", for the six key types
         (a master PUBLIC key decodes to the object with private scalar 0), the AlgorithmIdentifier, the
         PrivateKeyInfo, the signature and the ciphertext; totality of the encoders;
   (ii)  what a successful decoder guarantees about the WHOLE object (field sizes, scalar < n, validity
         predicates, ks = 0 for the public decoders);
   (iii) no decoder and no loader reaches Fault, on any input;
   (iv)  the password-encrypted containers: "open succeeds => container well formed, padding valid under
         kdf(pass), plaintext is exactly one PrivateKeyInfo naming THIS type whose key bytes are exactly one key
         of this type"; refusal of wrong passwords; seal/open round trip under the premises
         cbcdec (cbcenc x) = Some x and |cbcenc x| <= 512 for |x| <= 500; a correctly sealed key of one type is
         refused (Err, not Fault) by the loaders of the three other types;
   plus: an encoded key of the sister type (sign <-> enc) is refused by the plain decoders, and the observation
   that the scalar 0 is an accepted master key. *)
From GmVerif Require Import Base.ListX Base.Bytes Codec.Der Codec.DerProofs Codec.SafetyProofs Codec.Pkcs Codec.PkcsProofs Codec.Sm9Key.
From Coq Require Import ZifyN ZifyNat ZifyBool.
Ltac Zify.zify_post_hook ::= Z.div_mod_to_equations.
Local Open Scope N_scope.

#[local] Hint Resolve type_from_der_nofault nonempty_type_from_der_nofault integer_from_der_nofault
  null_from_der_nofault oid_from_der_m_nofault int_from_der_m_nofault bit_octets_from_der_m_nofault
  oid_info_from_der_nofault oid_expect_nofault p8e_from_der_nofault : pkcs_nofault.

(* ------------------------------------------------------------------ object identifiers, AlgorithmIdentifier *)
Lemma sm9_oids_good id ns :
  nodes_of sm9_oids id = Some ns -> good_oidb ns = true /\ id_of sm9_oids ns = Some id.
Proof.
  unfold sm9_oids; cbn [nodes_of].
  repeat (match goal with |- context [(?k =? id)%Z] => destruct (Z.eqb_spec k id) end;
          [intros H; injection H as <-; subst id; split; reflexivity|]).
  discriminate.
Qed.

Lemma sm9_oid_rt id e rest :
  sm9_oid_to_der id = Ok e ->
  sm9_oid_from_der (e ++ rest) = Ok (id, rest) /\ len e <= 129 /\ (exists t, e = 6 :: t) /\ id <> (-1)%Z.
Proof.
  unfold sm9_oid_to_der, sm9_oid_from_der. destruct (Z.eqb_spec id (-1)) as [|Hn]; [discriminate|].
  destruct (nodes_of sm9_oids id) as [ns|] eqn:EN; [|discriminate].
  destruct (sm9_oids_good id ns EN) as [G I]. intros H. apply bind_ok_inv in H. destruct H as (o & Eo & H). injection H as <-.
  destruct (oid_rt ns o rest G Eo) as (_ & L & T).
  split; [exact (oid_info_rt sm9_oids id ns o rest G I Eo)|]. auto.
Qed.

Theorem sm9_oid_roundtrip id e rest :
  sm9_oid_to_der id = Ok e -> sm9_oid_from_der (e ++ rest) = Ok (id, rest).
Proof. intros H. exact (proj1 (sm9_oid_rt id e rest H)). Qed.

Lemma sm9_algor_rt alg par e :
  sm9_algor_to_der alg par = Ok e ->
  (forall rest, sm9_algor_from_der (e ++ rest) = Ok (alg, par, rest)) /\ len e <= 270.
Proof.
  unfold sm9_algor_to_der. intros H.
  apply bind_ok_inv in H. destruct H as (a & Ea & H).
  apply bind_ok_inv in H. destruct H as (p & Ep & H). injection H as <-.
  destruct (sm9_oid_rt alg a p Ea) as (Ra & La & _ & _).
  assert (P : (p = [] /\ par = (-1)%Z) \/ (sm9_oid_to_der par = Ok p)).
  { destruct (sm9_oid_to_der par) as [x| | |] eqn:E; cbn [opt_enc] in Ep; try discriminate.
    - right. congruence.
    - left. split; [congruence|]. unfold sm9_oid_to_der in E. destruct (Z.eqb_spec par (-1)); [assumption|].
      destruct (nodes_of sm9_oids par); [|discriminate]. destruct (oid_enc l); discriminate. }
  assert (Lp : len p <= 129).
  { destruct P as [[-> _]|P]; [rewrite len_nil; lia|]. destruct (sm9_oid_rt par p [] P) as (_ & L & _). exact L. }
  rewrite seq_enc_tlv. pose proof (len_tlv 48 (a ++ p)) as Lb. rewrite len_app in Lb. split; [|lia]. intros rest.
  unfold sm9_algor_from_der. rewrite tlv_rt by (rewrite len_app; unfold INT_MAX; lia).
  rewrite Ra. cbn [bind_ok].
  destruct P as [[-> ->]|P]; [reflexivity|].
  rewrite <- (app_nil_r p). destruct (sm9_oid_rt par p [] P) as (-> & _). reflexivity.
Qed.
Theorem sm9_algor_roundtrip alg par e rest :
  sm9_algor_to_der alg par = Ok e -> sm9_algor_from_der (e ++ rest) = Ok (alg, par, rest).
Proof. intros H. exact (proj1 (sm9_algor_rt alg par e H) rest). Qed.

(* the AlgorithmIdentifiers the four private key types use are encodable *)
Theorem sm9_algor_to_der_total alg par :
  In (alg, par) [(40, 41); (41, -1); (40, 43); (43, -1)]%Z -> exists e, sm9_algor_to_der alg par = Ok e.
Proof. cbn [In]. intros [H|[H|[H|[H|[]]]]]; injection H as <- <-; eexists; vm_compute; reflexivity. Qed.

(* ------------------------------------------------------------------ points *)
Lemma pt_to_der_rt xy e rest :
  len xy <= 1000 -> pt_to_der xy = Ok e ->
  bit_octets_from_der m 3 (e ++ rest) = Ok (4 :: xy, rest) /\ len xy < len e <= len xy + 9 /\ exists t, e = 3 :: t.
Proof.
  intros L E. unfold pt_to_der, bit_octets_to_der in E.
  assert (Lc : len (4 :: xy) = 1 + len xy) by apply len_cons.
  remember (4 :: xy) as b eqn:Eb. clear Eb.
  split; [|split].
  - unfold bit_octets_from_der, m.
    rewrite (bit_string_roundtrip 3 b (len b * 8) e rest); [|lia|unfold INT_MAX; lia|exact E].
    destruct (N.eqb_spec ((len b * 8) mod 8) 0); [reflexivity|lia].
  - unfold bit_string_to_der in E. cbv zeta in E.
    replace ((len b * 8 + 7) / 8) with (len b) in E by lia.
    destruct (N.ltb_spec (len b) (len b)); [lia|]. rewrite takeN_all in E. injection E as <-.
    rewrite len_cons, len_app, len_cons. pose proof (len_len_enc (len b + 1)). lia.
  - unfold bit_string_to_der in E. cbv zeta in E.
    destruct (len b <? (len b * 8 + 7) / 8); [discriminate|]. injection E as <-. eauto.
Qed.
Lemma pt_to_der_total xy : exists e, pt_to_der xy = Ok e.
Proof.
  unfold pt_to_der, bit_octets_to_der, bit_string_to_der. cbv zeta.
  replace ((len (4 :: xy) * 8 + 7) / 8) with (len (4 :: xy)) by lia.
  destruct (N.ltb_spec (len (4 :: xy)) (len (4 :: xy))); [lia|]. eauto.
Qed.
Lemma pt_from_octets_ok ok xy : ok (4 :: xy) = true -> pt_from_octets ok (4 :: xy) = Ok xy.
Proof. intros H. unfold pt_from_octets. cbn [nth]. rewrite H. reflexivity. Qed.
Lemma pt_from_octets_inv ok o xy : pt_from_octets ok o = Ok xy -> o = 4 :: xy /\ ok o = true.
Proof.
  unfold pt_from_octets. destruct o as [|b t]; cbn [nth]; [discriminate|].
  destruct (N.eqb_spec b 4) as [->|]; cbn [negb]; [|discriminate].
  destruct (ok (4 :: t)) eqn:E; cbn [negb]; [|discriminate].
  intros H; injection H as <-. split; reflexivity.
Qed.
Lemma pt_from_octets_nofault ok o : pt_from_octets ok o <> Fault.
Proof. unfold pt_from_octets. pkcs_nf. Qed.
#[local] Hint Resolve pt_from_octets_nofault : pkcs_nofault.

(* ------------------------------------------------------------------ the three shapes: round trips *)
Lemma len_of_length {A} (a : list A) n : length a = n -> len a = N.of_nat n.
Proof. intros <-. reflexivity. Qed.

Lemma msk_rt plen ok k P e :
  length k = 32%nat -> be_to_N k < sm9_n -> len P + 1 = plen -> plen <= 1000 -> ok (4 :: P) = true ->
  msk_to_der k P = Ok e ->
  (forall rest, msk_from_der plen ok (e ++ rest) = Ok (k, P, rest)) /\ len e <= plen + 50.
Proof.
  intros Hk Hn HP HL Hok H. unfold msk_to_der in H.
  apply bind_ok_inv in H. destruct H as (ek & Ek & H).
  apply bind_ok_inv in H. destruct H as (eP & EP & H). injection H as <-.
  destruct (integer_to_der_ok32 2 k Hk) as (ek' & Ek' & Lk). rewrite Ek in Ek'. injection Ek' as <-.
  destruct (pt_to_der_rt P eP [] ltac:(lia) EP) as (RP & LP & _). rewrite app_nil_r in RP.
  rewrite seq_enc_tlv. pose proof (len_tlv 48 (ek ++ eP)) as Lb. rewrite len_app in Lb. split; [|lia]. intros rest.
  unfold msk_from_der. rewrite tlv_rt by (rewrite len_app; unfold INT_MAX; lia).
  assert (L32 : len k < INT_MAX) by (rewrite (len_of_length k 32 Hk); unfold INT_MAX; lia).
  rewrite (integer_roundtrip 2 k ek eP Ek L32). cbn [bind_ok]. rewrite RP. cbn [bind_ok].
  apply integer_to_der_shape in Ek. destruct Ek as (_ & _ & b & r & ES & _).
  pose proof (strip0_len k) as SL. rewrite (len_of_length k 32 Hk) in SL. rewrite ES in *.
  assert (1 <= len (b :: r)) by (rewrite len_cons; lia).
  destruct (N.leb_spec 1 (len (b :: r))); [|lia]. destruct (N.leb_spec (len (b :: r)) 32); [|lia]. cbn [andb negb].
  assert (LP4 : len (4 :: P) = plen) by (rewrite len_cons; lia). rewrite LP4, N.eqb_refl. cbn [negb is_nil].
  rewrite <- ES, (pad32_strip0 k Hk). destruct (N.leb_spec sm9_n (be_to_N k)); [lia|].
  rewrite (pt_from_octets_ok ok P Hok). reflexivity.
Qed.

Lemma mpk_rt plen ok P e :
  len P + 1 = plen -> plen <= 1000 -> ok (4 :: P) = true -> mpk_to_der P = Ok e ->
  (forall rest, mpk_from_der plen ok (e ++ rest) = Ok (P, rest)) /\ len e <= plen + 20.
Proof.
  intros HP HL Hok H. unfold mpk_to_der in H.
  apply bind_ok_inv in H. destruct H as (eP & EP & H). injection H as <-.
  destruct (pt_to_der_rt P eP [] ltac:(lia) EP) as (RP & LP & _). rewrite app_nil_r in RP.
  rewrite seq_enc_tlv. pose proof (len_tlv 48 eP) as Lb. split; [|lia]. intros rest.
  unfold mpk_from_der. rewrite tlv_rt by (unfold INT_MAX; lia). rewrite RP. cbn [bind_ok].
  assert (LP4 : len (4 :: P) = plen) by (rewrite len_cons; lia). rewrite LP4, N.eqb_refl. cbn [negb is_nil].
  rewrite (pt_from_octets_ok ok P Hok). reflexivity.
Qed.

Lemma uk_rt la oka lb okb A B e :
  len A + 1 = la -> la <= 1000 -> len B + 1 = lb -> lb <= 1000 -> oka (4 :: A) = true -> okb (4 :: B) = true ->
  uk_to_der A B = Ok e ->
  (forall rest, uk_from_der la oka lb okb (e ++ rest) = Ok (A, B, rest)) /\ len e <= la + lb + 30.
Proof.
  intros HA HLa HB HLb Ha Hb H. unfold uk_to_der in H.
  apply bind_ok_inv in H. destruct H as (ea & EA & H).
  apply bind_ok_inv in H. destruct H as (eb & EB & H). injection H as <-.
  destruct (pt_to_der_rt A ea eb ltac:(lia) EA) as (RA & LA & _).
  destruct (pt_to_der_rt B eb [] ltac:(lia) EB) as (RB & LB & _). rewrite app_nil_r in RB.
  rewrite seq_enc_tlv. pose proof (len_tlv 48 (ea ++ eb)) as Lb. rewrite len_app in Lb. split; [|lia]. intros rest.
  unfold uk_from_der. rewrite tlv_rt by (rewrite len_app; unfold INT_MAX; lia). rewrite RA. cbn [bind_ok]. rewrite RB. cbn [bind_ok].
  assert (LA4 : len (4 :: A) = la) by (rewrite len_cons; lia). assert (LB4 : len (4 :: B) = lb) by (rewrite len_cons; lia).
  rewrite LA4, LB4, !N.eqb_refl. cbn [negb is_nil].
  rewrite (pt_from_octets_ok oka A Ha), (pt_from_octets_ok okb B Hb). reflexivity.
Qed.

(* ------------------------------------------------------------------ the three shapes: what a successful decoder guarantees *)
Lemma msk_from_der_sound plen ok inp k P rest :
  msk_from_der plen ok inp = Ok (k, P, rest) ->
  length k = 32%nat /\ be_to_N k < sm9_n /\ len P + 1 = plen /\ ok (4 :: P) = true.
Proof.
  unfold msk_from_der. destruct (type_from_der 48 inp) as [[d rest']| | |]; try discriminate.
  intros H. apply bind_ok_inv in H. destruct H as ([k' d1] & _ & H).
  apply bind_ok_inv in H. destruct H as ([P' d2] & _ & H).
  destruct ((1 <=? len k') && (len k' <=? 32)) eqn:EK; cbn [negb] in H; [|discriminate].
  destruct (N.eqb_spec (len P') plen) as [LP|]; cbn [negb] in H; [|discriminate].
  destruct (negb (is_nil d2)); [discriminate|].
  destruct (N.leb_spec sm9_n (be_to_N (pad32 k'))) as [|Hn]; [discriminate|].
  apply bind_ok_inv in H. destruct H as (xy & Ex & H). injection H as <- <- <-.
  apply pt_from_octets_inv in Ex. destruct Ex as [-> Hok]. rewrite len_cons in LP.
  apply andb_true_iff in EK. destruct EK as [_ EK]. apply N.leb_le in EK.
  split; [apply pad32_length; exact EK|]. split; [exact Hn|]. split; [lia|exact Hok].
Qed.
Lemma mpk_from_der_sound plen ok inp P rest :
  mpk_from_der plen ok inp = Ok (P, rest) -> len P + 1 = plen /\ ok (4 :: P) = true.
Proof.
  unfold mpk_from_der. destruct (type_from_der 48 inp) as [[d rest']| | |]; try discriminate.
  intros H. apply bind_ok_inv in H. destruct H as ([P' d1] & _ & H).
  destruct (N.eqb_spec (len P') plen) as [LP|]; cbn [negb] in H; [|discriminate].
  destruct (negb (is_nil d1)); [discriminate|].
  apply bind_ok_inv in H. destruct H as (xy & Ex & H). injection H as <- <-.
  apply pt_from_octets_inv in Ex. destruct Ex as [-> Hok]. rewrite len_cons in LP. split; [lia|exact Hok].
Qed.
Lemma uk_from_der_sound la oka lb okb inp A B rest :
  uk_from_der la oka lb okb inp = Ok (A, B, rest) ->
  len A + 1 = la /\ oka (4 :: A) = true /\ len B + 1 = lb /\ okb (4 :: B) = true.
Proof.
  unfold uk_from_der. destruct (type_from_der 48 inp) as [[d rest']| | |]; try discriminate.
  intros H. apply bind_ok_inv in H. destruct H as ([A' d1] & _ & H).
  apply bind_ok_inv in H. destruct H as ([B' d2] & _ & H).
  destruct (N.eqb_spec (len A') la) as [LA|]; cbn [negb] in H; [|discriminate].
  destruct (N.eqb_spec (len B') lb) as [LB|]; cbn [negb] in H; [|discriminate].
  destruct (negb (is_nil d2)); [discriminate|].
  apply bind_ok_inv in H. destruct H as (a & Ea & H).
  apply bind_ok_inv in H. destruct H as (b & Eb & H). injection H as <- <- <-.
  apply pt_from_octets_inv in Ea, Eb. destruct Ea as [-> Ha]. destruct Eb as [-> Hb]. rewrite len_cons in LA, LB.
  repeat split; try assumption; lia.
Qed.

(* ------------------------------------------------------------------ never Fault *)
Lemma sm9_oid_from_der_nofault inp : sm9_oid_from_der inp <> Fault.
Proof. unfold sm9_oid_from_der. auto with pkcs_nofault. Qed.
#[local] Hint Resolve sm9_oid_from_der_nofault : pkcs_nofault.
Lemma sm9_algor_from_der_nofault inp : sm9_algor_from_der inp <> Fault.
Proof. unfold sm9_algor_from_der. pkcs_nf. Qed.
#[local] Hint Resolve sm9_algor_from_der_nofault : pkcs_nofault.
Lemma msk_from_der_nofault plen ok inp : msk_from_der plen ok inp <> Fault.
Proof. unfold msk_from_der. pkcs_nf. Qed.
Lemma mpk_from_der_nofault plen ok inp : mpk_from_der plen ok inp <> Fault.
Proof. unfold mpk_from_der. pkcs_nf. Qed.
Lemma uk_from_der_nofault la oka lb okb inp : uk_from_der la oka lb okb inp <> Fault.
Proof. unfold uk_from_der. pkcs_nf. Qed.
#[local] Hint Resolve msk_from_der_nofault mpk_from_der_nofault uk_from_der_nofault : pkcs_nofault.
Lemma s9_pki_from_der_nofault inp : s9_pki_from_der inp <> Fault.
Proof. unfold s9_pki_from_der. pkcs_nf. Qed.
#[local] Hint Resolve s9_pki_from_der_nofault : pkcs_nofault.

(* same shape, other group: the lengths tell the two apart *)
Lemma msk_other_len plen ok k P e rest :
  len P <= 1000 -> len P + 1 <> plen -> length k = 32%nat -> msk_to_der k P = Ok e -> msk_from_der plen ok (e ++ rest) = Err.
Proof.
  intros HL HP Hk H. unfold msk_to_der in H.
  apply bind_ok_inv in H. destruct H as (ek & Ek & H).
  apply bind_ok_inv in H. destruct H as (eP & EP & H). injection H as <-.
  destruct (integer_to_der_ok32 2 k Hk) as (ek' & Ek' & Lk). rewrite Ek in Ek'. injection Ek' as <-.
  destruct (pt_to_der_rt P eP [] ltac:(lia) EP) as (RP & LP & _). rewrite app_nil_r in RP.
  rewrite seq_enc_tlv. unfold msk_from_der. rewrite tlv_rt by (rewrite len_app; unfold INT_MAX; lia).
  assert (L32 : len k < INT_MAX) by (rewrite (len_of_length k 32 Hk); unfold INT_MAX; lia).
  rewrite (integer_roundtrip 2 k ek eP Ek L32). cbn [bind_ok]. rewrite RP. cbn [bind_ok].
  destruct (negb _); [reflexivity|]. rewrite len_cons.
  destruct (N.eqb_spec (1 + len P) plen); [lia|]. reflexivity.
Qed.
Lemma mpk_other_len plen ok P e rest :
  len P <= 1000 -> len P + 1 <> plen -> mpk_to_der P = Ok e -> mpk_from_der plen ok (e ++ rest) = Err.
Proof.
  intros HL HP H. unfold mpk_to_der in H.
  apply bind_ok_inv in H. destruct H as (eP & EP & H). injection H as <-.
  destruct (pt_to_der_rt P eP [] ltac:(lia) EP) as (RP & LP & _). rewrite app_nil_r in RP.
  rewrite seq_enc_tlv. unfold mpk_from_der. rewrite tlv_rt by (unfold INT_MAX; lia). rewrite RP. cbn [bind_ok].
  rewrite len_cons. destruct (N.eqb_spec (1 + len P) plen); [lia|]. reflexivity.
Qed.
Lemma uk_other_len la oka lb okb A B e rest :
  len A <= 1000 -> len B <= 1000 -> len A + 1 <> la -> uk_to_der A B = Ok e -> uk_from_der la oka lb okb (e ++ rest) = Err.
Proof.
  intros HLa HLb HA H. unfold uk_to_der in H.
  apply bind_ok_inv in H. destruct H as (ea & EA & H).
  apply bind_ok_inv in H. destruct H as (eb & EB & H). injection H as <-.
  destruct (pt_to_der_rt A ea eb ltac:(lia) EA) as (RA & LA & _).
  destruct (pt_to_der_rt B eb [] ltac:(lia) EB) as (RB & LB & _). rewrite app_nil_r in RB.
  rewrite seq_enc_tlv. unfold uk_from_der. rewrite tlv_rt by (rewrite len_app; unfold INT_MAX; lia). rewrite RA. cbn [bind_ok]. rewrite RB. cbn [bind_ok].
  rewrite len_cons. destruct (N.eqb_spec (1 + len A) la); [lia|]. reflexivity.
Qed.

(* ------------------------------------------------------------------ PrivateKeyInfo *)
Lemma s9_pki_rt alg par key e :
  s9_pki_to_der alg par key = Ok e ->
  (forall rest, s9_pki_from_der (e ++ rest) = Ok (alg, par, key, rest)) /\ len e <= 500 /\ len key <= 204.
Proof.
  unfold s9_pki_to_der, SM9_MAX_PRIVATE_KEY_SIZE. destruct (N.ltb_spec 204 (len key)) as [|Lk]; [discriminate|]. intros H.
  apply bind_ok_inv in H. destruct H as (v & Ev & H).
  apply bind_ok_inv in H. destruct H as (a & Ea & H).
  assert (E : e = seq_enc (v ++ a ++ tlv 4 key)) by (injection H as <-; reflexivity). subst e. clear H.
  destruct (int_to_der_len 2 0 v ltac:(lia) Ev) as [Lv _]. destruct (sm9_algor_rt alg par a Ea) as [Ra La].
  pose proof (len_tlv 4 key) as L1.
  rewrite seq_enc_tlv. pose proof (len_tlv 48 (v ++ a ++ tlv 4 key)) as Lb. rewrite !len_app in Lb.
  split; [|lia]. intros rest.
  unfold s9_pki_from_der. rewrite tlv_rt by (rewrite !len_app; unfold INT_MAX; lia).
  unfold m. rewrite (int_roundtrip 2 0 v _ ltac:(lia) Ev). cbn [bind_ok]. rewrite Ra. cbn [bind_ok].
  rewrite <- (app_nil_r (tlv 4 key)), tlv_rt by (unfold INT_MAX; lia). cbn [bind_ok is_nil negb].
  change (Z.to_N 0 =? 0) with true. cbn [negb]. unfold SM9_MAX_PRIVATE_KEY_SIZE.
  destruct (N.ltb_spec 204 (len key)); [lia|]. reflexivity.
Qed.
Theorem s9_pki_roundtrip alg par key e rest :
  s9_pki_to_der alg par key = Ok e -> s9_pki_from_der (e ++ rest) = Ok (alg, par, key, rest).
Proof. intros H. exact (proj1 (s9_pki_rt alg par key e H) rest). Qed.
Lemma s9_pki_from_der_sound inp alg par key rest :
  s9_pki_from_der inp = Ok (alg, par, key, rest) -> len key <= 204.
Proof.
  unfold s9_pki_from_der. destruct (type_from_der 48 inp) as [[d rest']| | |]; try discriminate.
  intros H. apply bind_ok_inv in H. destruct H as ([ver d1] & _ & H).
  apply bind_ok_inv in H. destruct H as ([[a p] d2] & _ & H).
  apply bind_ok_inv in H. destruct H as ([k d3] & _ & H).
  destruct (negb (is_nil d3)); [discriminate|]. destruct (negb (ver =? 0)); [discriminate|].
  unfold SM9_MAX_PRIVATE_KEY_SIZE in H. destruct (N.ltb_spec 204 (len k)); [discriminate|]. injection H as <- <- <- <-. assumption.
Qed.

Section Sm9Proofs.
  Variable g1_ok g2_ok : list N -> bool.

  Lemma len128 (a : list N) : length a = 128%nat -> len a + 1 = 129 /\ len a <= 1000.
  Proof. intros H. rewrite (len_of_length a _ H). split; [reflexivity|lia]. Qed.
  Lemma len64 (a : list N) : length a = 64%nat -> len a + 1 = 65 /\ len a <= 1000.
  Proof. intros H. rewrite (len_of_length a _ H). split; [reflexivity|lia]. Qed.

  (* ---------------------------------------------------------------- (i) round trips of the six key types *)
  Theorem sign_msk_roundtrip k e rest :
    length (sm_ks k) = 32%nat -> be_to_N (sm_ks k) < sm9_n -> length (sm_Ppubs k) = 128%nat -> g2_ok (4 :: sm_Ppubs k) = true ->
    sign_msk_to_der k = Ok e -> sign_msk_from_der g2_ok (e ++ rest) = Ok (k, rest).
  Proof.
    intros H1 H2 H3 H4 E. destruct (len128 _ H3) as [L _].
    destruct (msk_rt 129 g2_ok _ _ e H1 H2 L ltac:(lia) H4 E) as [R _].
    unfold sign_msk_from_der. rewrite R. destruct k; reflexivity.
  Qed.
  (* the private scalar is not part of a master PUBLIC key: it is neither written nor kept *)
  Theorem sign_mpk_roundtrip k e rest :
    length (sm_Ppubs k) = 128%nat -> g2_ok (4 :: sm_Ppubs k) = true ->
    sign_mpk_to_der k = Ok e -> sign_mpk_from_der g2_ok (e ++ rest) = Ok ({| sm_ks := zeros 32; sm_Ppubs := sm_Ppubs k |}, rest).
  Proof.
    intros H3 H4 E. destruct (len128 _ H3) as [L _].
    destruct (mpk_rt 129 g2_ok _ e L ltac:(lia) H4 E) as [R _].
    unfold sign_mpk_from_der. rewrite R. reflexivity.
  Qed.
  Theorem sign_key_roundtrip k e rest :
    length (sk_ds k) = 64%nat -> g1_ok (4 :: sk_ds k) = true -> length (sk_Ppubs k) = 128%nat -> g2_ok (4 :: sk_Ppubs k) = true ->
    sign_key_to_der k = Ok e -> sign_key_from_der g1_ok g2_ok (e ++ rest) = Ok (k, rest).
  Proof.
    intros H1 H2 H3 H4 E. destruct (len64 _ H1) as [L1 _]. destruct (len128 _ H3) as [L2 _].
    destruct (uk_rt 65 g1_ok 129 g2_ok _ _ e L1 ltac:(lia) L2 ltac:(lia) H2 H4 E) as [R _].
    unfold sign_key_from_der. rewrite R. destruct k; reflexivity.
  Qed.
  Theorem enc_msk_roundtrip k e rest :
    length (em_ke k) = 32%nat -> be_to_N (em_ke k) < sm9_n -> length (em_Ppube k) = 64%nat -> g1_ok (4 :: em_Ppube k) = true ->
    enc_msk_to_der k = Ok e -> enc_msk_from_der g1_ok (e ++ rest) = Ok (k, rest).
  Proof.
    intros H1 H2 H3 H4 E. destruct (len64 _ H3) as [L _].
    destruct (msk_rt 65 g1_ok _ _ e H1 H2 L ltac:(lia) H4 E) as [R _].
    unfold enc_msk_from_der. rewrite R. destruct k; reflexivity.
  Qed.
  Theorem enc_mpk_roundtrip k e rest :
    length (em_Ppube k) = 64%nat -> g1_ok (4 :: em_Ppube k) = true ->
    enc_mpk_to_der k = Ok e -> enc_mpk_from_der g1_ok (e ++ rest) = Ok ({| em_ke := zeros 32; em_Ppube := em_Ppube k |}, rest).
  Proof.
    intros H3 H4 E. destruct (len64 _ H3) as [L _].
    destruct (mpk_rt 65 g1_ok _ e L ltac:(lia) H4 E) as [R _].
    unfold enc_mpk_from_der. rewrite R. reflexivity.
  Qed.
  Theorem enc_key_roundtrip k e rest :
    length (ek_de k) = 128%nat -> g2_ok (4 :: ek_de k) = true -> length (ek_Ppube k) = 64%nat -> g1_ok (4 :: ek_Ppube k) = true ->
    enc_key_to_der k = Ok e -> enc_key_from_der g1_ok g2_ok (e ++ rest) = Ok (k, rest).
  Proof.
    intros H1 H2 H3 H4 E. destruct (len128 _ H1) as [L1 _]. destruct (len64 _ H3) as [L2 _].
    destruct (uk_rt 129 g2_ok 65 g1_ok _ _ e L1 ltac:(lia) L2 ltac:(lia) H2 H4 E) as [R _].
    unfold enc_key_from_der. rewrite R. destruct k; reflexivity.
  Qed.

  (* the encoders succeed on every object with fields of the right size: the round trips are not vacuous *)
  Theorem sm9_key_encoders_total (a b : list N) :
    (length a = 32%nat -> exists e, msk_to_der a b = Ok e) /\ (exists e, mpk_to_der b = Ok e) /\ (exists e, uk_to_der a b = Ok e).
  Proof.
    split; [|split].
    - intros Ha. unfold msk_to_der. destruct (integer_to_der_ok32 2 a Ha) as (ea & -> & _). cbn [bind_ok].
      destruct (pt_to_der_total b) as [eb ->]. cbn [bind_ok]. eauto.
    - unfold mpk_to_der. destruct (pt_to_der_total b) as [eb ->]. cbn [bind_ok]. eauto.
    - unfold uk_to_der. destruct (pt_to_der_total a) as [ea ->]. destruct (pt_to_der_total b) as [eb ->]. cbn [bind_ok]. eauto.
  Qed.

  (* ---------------------------------------------------------------- (ii) a decoded object is whole and consistent *)
  Theorem sign_msk_from_der_sound inp k rest :
    sign_msk_from_der g2_ok inp = Ok (k, rest) ->
    length (sm_ks k) = 32%nat /\ be_to_N (sm_ks k) < sm9_n /\ len (sm_Ppubs k) = 128 /\ g2_ok (4 :: sm_Ppubs k) = true.
  Proof.
    unfold sign_msk_from_der. destruct (msk_from_der 129 g2_ok inp) as [[[ks P] r]| | |] eqn:E; try discriminate.
    intros H; injection H as <- <-. apply msk_from_der_sound in E. cbn [sm_ks sm_Ppubs]. destruct E as (A & B & C & D). repeat split; try assumption; lia.
  Qed.
  Theorem sign_mpk_from_der_sound inp k rest :
    sign_mpk_from_der g2_ok inp = Ok (k, rest) ->
    sm_ks k = zeros 32 /\ len (sm_Ppubs k) = 128 /\ g2_ok (4 :: sm_Ppubs k) = true.
  Proof.
    unfold sign_mpk_from_der, map_res. destruct (mpk_from_der 129 g2_ok inp) as [[P r]| | |] eqn:E; try discriminate.
    intros H; injection H as <- <-. apply mpk_from_der_sound in E. cbn [sm_ks sm_Ppubs]. destruct E as (C & D). repeat split; try assumption; lia.
  Qed.
  Theorem sign_key_from_der_sound inp k rest :
    sign_key_from_der g1_ok g2_ok inp = Ok (k, rest) ->
    len (sk_ds k) = 64 /\ g1_ok (4 :: sk_ds k) = true /\ len (sk_Ppubs k) = 128 /\ g2_ok (4 :: sk_Ppubs k) = true.
  Proof.
    unfold sign_key_from_der. destruct (uk_from_der 65 g1_ok 129 g2_ok inp) as [[[A B] r]| | |] eqn:E; try discriminate.
    intros H; injection H as <- <-. apply uk_from_der_sound in E. cbn [sk_ds sk_Ppubs]. destruct E as (E1 & E2 & E3 & E4). repeat split; try assumption; lia.
  Qed.
  Theorem enc_msk_from_der_sound inp k rest :
    enc_msk_from_der g1_ok inp = Ok (k, rest) ->
    length (em_ke k) = 32%nat /\ be_to_N (em_ke k) < sm9_n /\ len (em_Ppube k) = 64 /\ g1_ok (4 :: em_Ppube k) = true.
  Proof.
    unfold enc_msk_from_der. destruct (msk_from_der 65 g1_ok inp) as [[[ks P] r]| | |] eqn:E; try discriminate.
    intros H; injection H as <- <-. apply msk_from_der_sound in E. cbn [em_ke em_Ppube]. destruct E as (A & B & C & D). repeat split; try assumption; lia.
  Qed.
  Theorem enc_mpk_from_der_sound inp k rest :
    enc_mpk_from_der g1_ok inp = Ok (k, rest) ->
    em_ke k = zeros 32 /\ len (em_Ppube k) = 64 /\ g1_ok (4 :: em_Ppube k) = true.
  Proof.
    unfold enc_mpk_from_der, map_res. destruct (mpk_from_der 65 g1_ok inp) as [[P r]| | |] eqn:E; try discriminate.
    intros H; injection H as <- <-. apply mpk_from_der_sound in E. cbn [em_ke em_Ppube]. destruct E as (C & D). repeat split; try assumption; lia.
  Qed.
  Theorem enc_key_from_der_sound inp k rest :
    enc_key_from_der g1_ok g2_ok inp = Ok (k, rest) ->
    len (ek_de k) = 128 /\ g2_ok (4 :: ek_de k) = true /\ len (ek_Ppube k) = 64 /\ g1_ok (4 :: ek_Ppube k) = true.
  Proof.
    unfold enc_key_from_der. destruct (uk_from_der 129 g2_ok 65 g1_ok inp) as [[[A B] r]| | |] eqn:E; try discriminate.
    intros H; injection H as <- <-. apply uk_from_der_sound in E. cbn [ek_de ek_Ppube]. destruct E as (E1 & E2 & E3 & E4). repeat split; try assumption; lia.
  Qed.

  (* ---------------------------------------------------------------- (iii) never Fault *)
  Lemma sign_msk_from_der_nofault inp : sign_msk_from_der g2_ok inp <> Fault.
  Proof. unfold sign_msk_from_der. pkcs_nf. Qed.
  Lemma sign_mpk_from_der_nofault inp : sign_mpk_from_der g2_ok inp <> Fault.
  Proof. unfold sign_mpk_from_der, map_res. pkcs_nf. Qed.
  Lemma sign_key_from_der_nofault inp : sign_key_from_der g1_ok g2_ok inp <> Fault.
  Proof. unfold sign_key_from_der. pkcs_nf. Qed.
  Lemma enc_msk_from_der_nofault inp : enc_msk_from_der g1_ok inp <> Fault.
  Proof. unfold enc_msk_from_der. pkcs_nf. Qed.
  Lemma enc_mpk_from_der_nofault inp : enc_mpk_from_der g1_ok inp <> Fault.
  Proof. unfold enc_mpk_from_der, map_res. pkcs_nf. Qed.
  Lemma enc_key_from_der_nofault inp : enc_key_from_der g1_ok g2_ok inp <> Fault.
  Proof. unfold enc_key_from_der. pkcs_nf. Qed.
  Lemma sm9_sig_from_der_nofault inp : sm9_sig_from_der g1_ok inp <> Fault.
  Proof. unfold sm9_sig_from_der. pkcs_nf. Qed.
  Lemma sm9_ct_from_der_nofault inp : sm9_ct_from_der g1_ok inp <> Fault.
  Proof. unfold sm9_ct_from_der. pkcs_nf. Qed.

  (* ---------------------------------------------------------------- an encoded key of the sister type is refused (no Fault) *)
  Theorem sign_enc_types_distinct (sm : sign_msk) (em : enc_msk) (sk : sign_key) (ek : enc_key) rest :
    length (sm_ks sm) = 32%nat -> length (sm_Ppubs sm) = 128%nat -> length (em_ke em) = 32%nat -> length (em_Ppube em) = 64%nat ->
    length (sk_ds sk) = 64%nat -> length (sk_Ppubs sk) = 128%nat -> length (ek_de ek) = 128%nat -> length (ek_Ppube ek) = 64%nat ->
    (forall e, sign_msk_to_der sm = Ok e -> enc_msk_from_der g1_ok (e ++ rest) = Err) /\
    (forall e, enc_msk_to_der em = Ok e -> sign_msk_from_der g2_ok (e ++ rest) = Err) /\
    (forall e, sign_mpk_to_der sm = Ok e -> enc_mpk_from_der g1_ok (e ++ rest) = Err) /\
    (forall e, enc_mpk_to_der em = Ok e -> sign_mpk_from_der g2_ok (e ++ rest) = Err) /\
    (forall e, sign_key_to_der sk = Ok e -> enc_key_from_der g1_ok g2_ok (e ++ rest) = Err) /\
    (forall e, enc_key_to_der ek = Ok e -> sign_key_from_der g1_ok g2_ok (e ++ rest) = Err).
  Proof.
    intros H1 H2 H3 H4 H5 H6 H7 H8.
    pose proof (len_of_length _ _ H2) as L2. pose proof (len_of_length _ _ H4) as L4. pose proof (len_of_length _ _ H5) as L5.
    pose proof (len_of_length _ _ H6) as L6. pose proof (len_of_length _ _ H7) as L7. pose proof (len_of_length _ _ H8) as L8.
    repeat split; intros e E.
    - unfold enc_msk_from_der. rewrite (msk_other_len 65 g1_ok (sm_ks sm) (sm_Ppubs sm) e rest ltac:(lia) ltac:(lia) H1 E). reflexivity.
    - unfold sign_msk_from_der. rewrite (msk_other_len 129 g2_ok (em_ke em) (em_Ppube em) e rest ltac:(lia) ltac:(lia) H3 E). reflexivity.
    - unfold enc_mpk_from_der. rewrite (mpk_other_len 65 g1_ok (sm_Ppubs sm) e rest ltac:(lia) ltac:(lia) E). reflexivity.
    - unfold sign_mpk_from_der. rewrite (mpk_other_len 129 g2_ok (em_Ppube em) e rest ltac:(lia) ltac:(lia) E). reflexivity.
    - unfold enc_key_from_der. rewrite (uk_other_len 129 g2_ok 65 g1_ok (sk_ds sk) (sk_Ppubs sk) e rest ltac:(lia) ltac:(lia) ltac:(lia) E). reflexivity.
    - unfold sign_key_from_der. rewrite (uk_other_len 65 g1_ok 129 g2_ok (ek_de ek) (ek_Ppube ek) e rest ltac:(lia) ltac:(lia) ltac:(lia) E). reflexivity.
  Qed.

  (* ---------------------------------------------------------------- signature and ciphertext *)
  Theorem sm9_sig_roundtrip h sp e rest :
    length h = 32%nat -> be_to_N h < sm9_n -> length sp = 64%nat -> g1_ok (4 :: sp) = true ->
    sm9_sig_to_der h sp = Ok e -> sm9_sig_from_der g1_ok (e ++ rest) = Ok (h, sp, rest).
  Proof.
    intros Hh Hn Hs Hok H. unfold sm9_sig_to_der in H.
    apply bind_ok_inv in H. destruct H as (eS & ES & H).
    assert (E : e = seq_enc (tlv 4 h ++ eS)) by (injection H as <-; reflexivity). subst e. clear H.
    destruct (len64 _ Hs) as [L1 L2]. pose proof (len_of_length _ _ Hh) as Lh.
    destruct (pt_to_der_rt sp eS [] L2 ES) as (RS & LS & _). rewrite app_nil_r in RS.
    pose proof (len_tlv 4 h) as Lt.
    unfold sm9_sig_from_der. rewrite seq_enc_tlv, tlv_rt by (rewrite len_app; unfold INT_MAX; lia).
    rewrite tlv_rt by (unfold INT_MAX; lia). cbn [bind_ok]. rewrite RS. cbn [bind_ok].
    rewrite Lh. cbn [N.of_nat Pos.of_succ_nat Pos.succ N.eqb Pos.eqb negb].
    assert (L4 : len (4 :: sp) = 65) by (rewrite len_cons; lia). rewrite L4. cbn [N.eqb Pos.eqb negb is_nil].
    destruct (N.leb_spec sm9_n (be_to_N h)); [lia|]. rewrite (pt_from_octets_ok g1_ok sp Hok). reflexivity.
  Qed.
  Theorem sm9_sig_from_der_sound inp h sp rest :
    sm9_sig_from_der g1_ok inp = Ok (h, sp, rest) -> len h = 32 /\ be_to_N h < sm9_n /\ len sp = 64 /\ g1_ok (4 :: sp) = true.
  Proof.
    unfold sm9_sig_from_der. destruct (type_from_der 48 inp) as [[d rest']| | |]; try discriminate.
    intros H. apply bind_ok_inv in H. destruct H as ([h' d1] & _ & H).
    apply bind_ok_inv in H. destruct H as ([S' d2] & _ & H).
    destruct (N.eqb_spec (len h') 32) as [Lh|]; cbn [negb] in H; [|discriminate].
    destruct (N.eqb_spec (len S') 65) as [LS|]; cbn [negb] in H; [|discriminate].
    destruct (negb (is_nil d2)); [discriminate|].
    destruct (N.leb_spec sm9_n (be_to_N h')) as [|Hn]; [discriminate|].
    apply bind_ok_inv in H. destruct H as (xy & Ex & H). injection H as <- <- <-.
    apply pt_from_octets_inv in Ex. destruct Ex as [-> Hok]. rewrite len_cons in LS. repeat split; try assumption; lia.
  Qed.

  Theorem sm9_ct_roundtrip C1 c2 c3 e rest :
    length C1 = 64%nat -> g1_ok (4 :: C1) = true -> len c3 = 32 -> len c2 <= 1048576 ->
    sm9_ct_to_der C1 c2 c3 = Ok e -> sm9_ct_from_der g1_ok (e ++ rest) = Ok (C1, c2, c3, rest).
  Proof.
    intros H1 Hok H3 H2 H. unfold sm9_ct_to_der in H.
    apply bind_ok_inv in H. destruct H as (v & Ev & H).
    apply bind_ok_inv in H. destruct H as (e1 & E1 & H).
    assert (E : e = seq_enc (v ++ e1 ++ tlv 4 c3 ++ tlv 4 c2)) by (injection H as <-; reflexivity). subst e. clear H.
    destruct (len64 _ H1) as [L1 L2].
    destruct (pt_to_der_rt C1 e1 (tlv 4 c3 ++ tlv 4 c2) L2 E1) as (R1 & Le1 & _).
    destruct (int_to_der_len 2 0 v ltac:(lia) Ev) as [Lv _].
    pose proof (len_tlv 4 c3) as Lt3. pose proof (len_tlv 4 c2) as Lt2.
    unfold sm9_ct_from_der. rewrite seq_enc_tlv, tlv_rt by (rewrite !len_app; unfold INT_MAX; lia).
    unfold m. rewrite (int_roundtrip 2 0 v _ ltac:(lia) Ev). cbn [bind_ok]. fold m. rewrite R1. cbn [bind_ok].
    rewrite tlv_rt by (unfold INT_MAX; lia). cbn [bind_ok].
    rewrite <- (app_nil_r (tlv 4 c2)), tlv_rt by (unfold INT_MAX; lia). cbn [bind_ok is_nil negb].
    change (Z.to_N 0 =? 0) with true. cbn [negb].
    assert (L4 : len (4 :: C1) = 65) by (rewrite len_cons; lia). rewrite L4, H3. cbn [N.eqb Pos.eqb negb].
    rewrite (pt_from_octets_ok g1_ok C1 Hok). reflexivity.
  Qed.
  Theorem sm9_ct_from_der_sound inp C1 c2 c3 rest :
    sm9_ct_from_der g1_ok inp = Ok (C1, c2, c3, rest) -> len C1 = 64 /\ g1_ok (4 :: C1) = true /\ len c3 = 32.
  Proof.
    unfold sm9_ct_from_der. destruct (type_from_der 48 inp) as [[d rest']| | |]; try discriminate.
    intros H. apply bind_ok_inv in H. destruct H as ([ty d1] & _ & H).
    apply bind_ok_inv in H. destruct H as ([c1' d2] & _ & H).
    apply bind_ok_inv in H. destruct H as ([c3' d3] & _ & H).
    apply bind_ok_inv in H. destruct H as ([c2' d4] & _ & H).
    destruct (negb (is_nil d4)); [discriminate|]. destruct (negb (ty =? 0)); [discriminate|].
    destruct (N.eqb_spec (len c1') 65) as [L1|]; cbn [negb] in H; [|discriminate].
    destruct (N.eqb_spec (len c3') 32) as [L3|]; cbn [negb] in H; [|discriminate].
    apply bind_ok_inv in H. destruct H as (xy & Ex & H). injection H as <- <- <- <-.
    apply pt_from_octets_inv in Ex. destruct Ex as [-> Hok]. rewrite len_cons in L1. repeat split; try assumption; lia.
  Qed.

  (* ---------------------------------------------------------------- (iv) password-encrypted containers *)
  Variable kdf : list N -> list N -> Z -> list N.
  Variable cbcdec : list N -> list N -> list N -> option (list N).

  Lemma s9_open_nofault pass inp : s9_open kdf cbcdec pass inp <> Fault.
  Proof. unfold s9_open. pkcs_nf. Qed.
  Lemma s9_open_as_nofault {K} ealg epar (dec : list N -> res (K * list N)) pass inp :
    (forall x, dec x <> Fault) -> s9_open_as kdf cbcdec ealg epar dec pass inp <> Fault.
  Proof.
    intros Hd. unfold s9_open_as. apply bind_ok_nofault; [apply s9_open_nofault|]. intros [[[alg par] k] rest].
    destruct (negb (alg =? ealg)%Z); [discriminate|]. destruct (negb (par =? epar)%Z); [discriminate|].
    apply bind_ok_nofault; [apply Hd|]. intros [key r1]. destruct (is_nil r1); discriminate.
  Qed.
  Theorem sm9_open_nofault pass inp :
    sign_msk_open g2_ok kdf cbcdec pass inp <> Fault /\ sign_key_open g1_ok g2_ok kdf cbcdec pass inp <> Fault /\
    enc_msk_open g1_ok kdf cbcdec pass inp <> Fault /\ enc_key_open g1_ok g2_ok kdf cbcdec pass inp <> Fault.
  Proof.
    repeat split; apply s9_open_as_nofault; intros x.
    - apply sign_msk_from_der_nofault. - apply sign_key_from_der_nofault.
    - apply enc_msk_from_der_nofault. - apply enc_key_from_der_nofault.
  Qed.

  (* open succeeds => the container is well formed with the supported parameters, the padding is valid under
     kdf(pass), and the plaintext is exactly one PrivateKeyInfo (nothing after it) *)
  Theorem s9_open_inv pass inp alg par k rest :
    s9_open kdf cbcdec pass inp = Ok (alg, par, k, rest) ->
    exists p enced pt,
      p8e_from_der inp = Ok (p, enced, rest) /\
      cbcdec (kdf pass (p_salt p) (p_iter p)) (p_iv p) enced = Some pt /\
      s9_pki_from_der pt = Ok (alg, par, k, []) /\ len k <= 204 /\
      (p_keylen p = -1 \/ p_keylen p = 16)%Z /\ (p_prf p = -1 \/ p_prf p = 30)%Z /\
      p_cipher p = 20%Z /\ len (p_iv p) = 16 /\ len enced <= 512.
  Proof.
    unfold s9_open. destruct (p8e_from_der inp) as [[[p enced] rest']| | |]; try discriminate.
    destruct ((p_keylen p =? -1)%Z || (p_keylen p =? 16)%Z) eqn:Kl; cbn [negb]; [|discriminate].
    destruct ((p_prf p =? -1)%Z || (p_prf p =? 30)%Z) eqn:P; cbn [negb]; [|discriminate].
    destruct (Z.eqb_spec (p_cipher p) 20) as [C|]; cbn [negb]; [|discriminate].
    destruct (N.eqb_spec (len (p_iv p)) 16) as [I|]; cbn [negb]; [|discriminate].
    unfold SM9_MAX_PRIVATE_KEY_INFO_SIZE. destruct (N.ltb_spec 512 (len enced)) as [|L]; [discriminate|].
    destruct (cbcdec (kdf pass (p_salt p) (p_iter p)) (p_iv p) enced) as [pt|] eqn:D; [|discriminate].
    intros H. apply bind_ok_inv in H. destruct H as ([[[alg' par'] k'] r1] & E8 & H).
    destruct r1 as [|? ?]; cbn [is_nil] in H; [|discriminate]. injection H as <- <- <- <-.
    pose proof (s9_pki_from_der_sound _ _ _ _ _ E8) as Lk.
    exists p, enced, pt. repeat split; auto; lia.
  Qed.

  (* the typed loaders: ... and that PrivateKeyInfo names THIS type, and its key bytes are exactly one key of this type *)
  Theorem s9_open_as_inv {K} ealg epar (dec : list N -> res (K * list N)) pass inp key rest :
    s9_open_as kdf cbcdec ealg epar dec pass inp = Ok (key, rest) ->
    exists p enced pt kb,
      p8e_from_der inp = Ok (p, enced, rest) /\
      cbcdec (kdf pass (p_salt p) (p_iter p)) (p_iv p) enced = Some pt /\
      s9_pki_from_der pt = Ok (ealg, epar, kb, []) /\
      dec kb = Ok (key, []).
  Proof.
    unfold s9_open_as. intros H. apply bind_ok_inv in H. destruct H as ([[[alg par] kb] rest'] & EO & H).
    destruct (Z.eqb_spec alg ealg) as [->|]; cbn [negb] in H; [|discriminate].
    destruct (Z.eqb_spec par epar) as [->|]; cbn [negb] in H; [|discriminate].
    apply bind_ok_inv in H. destruct H as ([key' r1] & ED & H).
    destruct r1 as [|? ?]; cbn [is_nil] in H; [|discriminate]. injection H as <- <-.
    apply s9_open_inv in EO. destruct EO as (p & enced & pt & H1 & H2 & H3 & _).
    exists p, enced, pt, kb. auto.
  Qed.

  Theorem sign_msk_open_sound pass inp k rest :
    sign_msk_open g2_ok kdf cbcdec pass inp = Ok (k, rest) ->
    exists p enced pt kb,
      p8e_from_der inp = Ok (p, enced, rest) /\ cbcdec (kdf pass (p_salt p) (p_iter p)) (p_iv p) enced = Some pt /\
      s9_pki_from_der pt = Ok (40%Z, 41%Z, kb, []) /\ sign_msk_from_der g2_ok kb = Ok (k, []) /\
      length (sm_ks k) = 32%nat /\ be_to_N (sm_ks k) < sm9_n /\ len (sm_Ppubs k) = 128 /\ g2_ok (4 :: sm_Ppubs k) = true.
  Proof.
    intros H. apply s9_open_as_inv in H. destruct H as (p & enced & pt & kb & H1 & H2 & H3 & H4).
    exists p, enced, pt, kb. repeat split; try assumption; apply (sign_msk_from_der_sound _ _ _ H4).
  Qed.
  Theorem sign_key_open_sound pass inp k rest :
    sign_key_open g1_ok g2_ok kdf cbcdec pass inp = Ok (k, rest) ->
    exists p enced pt kb,
      p8e_from_der inp = Ok (p, enced, rest) /\ cbcdec (kdf pass (p_salt p) (p_iter p)) (p_iv p) enced = Some pt /\
      s9_pki_from_der pt = Ok (41%Z, (-1)%Z, kb, []) /\ sign_key_from_der g1_ok g2_ok kb = Ok (k, []) /\
      len (sk_ds k) = 64 /\ g1_ok (4 :: sk_ds k) = true /\ len (sk_Ppubs k) = 128 /\ g2_ok (4 :: sk_Ppubs k) = true.
  Proof.
    intros H. apply s9_open_as_inv in H. destruct H as (p & enced & pt & kb & H1 & H2 & H3 & H4).
    exists p, enced, pt, kb. repeat split; try assumption; apply (sign_key_from_der_sound _ _ _ H4).
  Qed.
  Theorem enc_msk_open_sound pass inp k rest :
    enc_msk_open g1_ok kdf cbcdec pass inp = Ok (k, rest) ->
    exists p enced pt kb,
      p8e_from_der inp = Ok (p, enced, rest) /\ cbcdec (kdf pass (p_salt p) (p_iter p)) (p_iv p) enced = Some pt /\
      s9_pki_from_der pt = Ok (40%Z, 43%Z, kb, []) /\ enc_msk_from_der g1_ok kb = Ok (k, []) /\
      length (em_ke k) = 32%nat /\ be_to_N (em_ke k) < sm9_n /\ len (em_Ppube k) = 64 /\ g1_ok (4 :: em_Ppube k) = true.
  Proof.
    intros H. apply s9_open_as_inv in H. destruct H as (p & enced & pt & kb & H1 & H2 & H3 & H4).
    exists p, enced, pt, kb. repeat split; try assumption; apply (enc_msk_from_der_sound _ _ _ H4).
  Qed.
  Theorem enc_key_open_sound pass inp k rest :
    enc_key_open g1_ok g2_ok kdf cbcdec pass inp = Ok (k, rest) ->
    exists p enced pt kb,
      p8e_from_der inp = Ok (p, enced, rest) /\ cbcdec (kdf pass (p_salt p) (p_iter p)) (p_iv p) enced = Some pt /\
      s9_pki_from_der pt = Ok (43%Z, (-1)%Z, kb, []) /\ enc_key_from_der g1_ok g2_ok kb = Ok (k, []) /\
      len (ek_de k) = 128 /\ g2_ok (4 :: ek_de k) = true /\ len (ek_Ppube k) = 64 /\ g1_ok (4 :: ek_Ppube k) = true.
  Proof.
    intros H. apply s9_open_as_inv in H. destruct H as (p & enced & pt & kb & H1 & H2 & H3 & H4).
    exists p, enced, pt, kb. repeat split; try assumption; apply (enc_key_from_der_sound _ _ _ H4).
  Qed.

  (* a wrong password (bad padding, or a plaintext that is not one PrivateKeyInfo) is refused, never Fault *)
  Theorem s9_open_refuses pass inp p enced rest :
    p8e_from_der inp = Ok (p, enced, rest) ->
    (cbcdec (kdf pass (p_salt p) (p_iter p)) (p_iv p) enced = None \/
     exists pt, cbcdec (kdf pass (p_salt p) (p_iter p)) (p_iv p) enced = Some pt /\
                forall alg par k, s9_pki_from_der pt <> Ok (alg, par, k, [])) ->
    s9_open kdf cbcdec pass inp = Err.
  Proof.
    intros E W.
    destruct (s9_open kdf cbcdec pass inp) as [[[[alg par] k] r]| | |] eqn:O.
    - apply s9_open_inv in O. destruct O as (p' & enced' & pt & H1 & H2 & H3 & _).
      rewrite E in H1. injection H1 as <- <- <-.
      destruct W as [W|(pt' & W1 & W2)]; [congruence|]. rewrite W1 in H2. injection H2 as <-.
      exfalso. exact (W2 _ _ _ H3).
    - exfalso. unfold s9_open in O. rewrite E in O.
      repeat match type of O with (if ?c then _ else _) = _ => destruct c; [discriminate|] end.
      destruct W as [W|(pt' & W1 & W2)]; [rewrite W in O; discriminate|]. rewrite W1 in O.
      destruct (s9_pki_from_der pt') as [[[[? ?] ?] r1]| | |]; try discriminate.
      cbn [bind_ok] in O. destruct (is_nil r1); discriminate.
    - reflexivity.
    - exfalso. exact (s9_open_nofault pass inp O).
  Qed.

  (* a container that opens, but holds a key of another type, is refused by the loader *)
  Theorem s9_open_as_other_type {K} ealg epar (dec : list N -> res (K * list N)) pass inp alg par kb rest :
    s9_open kdf cbcdec pass inp = Ok (alg, par, kb, rest) -> (alg <> ealg \/ par <> epar) ->
    s9_open_as kdf cbcdec ealg epar dec pass inp = Err.
  Proof.
    intros E W. unfold s9_open_as. rewrite E. cbn [bind_ok].
    destruct (Z.eqb_spec alg ealg) as [->|]; cbn [negb]; [|reflexivity].
    destruct (Z.eqb_spec par epar) as [->|]; cbn [negb]; [|reflexivity]. destruct W; contradiction.
  Qed.

  Variable cbcenc : list N -> list N -> list N -> list N.
  Hypothesis cbc_inverse : forall key iv x, cbcdec key iv (cbcenc key iv x) = Some x.
  Hypothesis cbc_length : forall key iv x, len x <= 500 -> len (cbcenc key iv x) <= 512.

  Lemma s9_params_ok salt iv : salt <> [] -> len salt <= 1048576 -> len iv = 16 -> pbes2_ok (s9_params salt iv).
  Proof. intros H1 H2 H3. unfold pbes2_ok, s9_params. cbn. repeat split; auto; lia. Qed.

  Theorem s9_seal_open alg par key pass salt iv e rest :
    salt <> [] -> len salt <= 1048576 -> len iv = 16 ->
    s9_seal kdf cbcenc alg par key pass salt iv = Ok e ->
    s9_open kdf cbcdec pass (e ++ rest) = Ok (alg, par, key, rest).
  Proof.
    intros Hs Ls Hiv H. unfold s9_seal in H.
    apply bind_ok_inv in H. destruct H as (info & Ei & H).
    apply bind_ok_inv in H. destruct H as (e' & Ee & H). injection H as <-.
    destruct (s9_pki_rt alg par key info Ei) as (Ri & Li & _).
    remember (cbcenc (kdf pass salt 65536) iv info) as enced eqn:EE.
    pose proof (cbc_length (kdf pass salt 65536) iv info Li) as Le. rewrite <- EE in Le.
    unfold s9_open. rewrite (p8e_roundtrip _ enced e' rest (s9_params_ok salt iv Hs Ls Hiv) ltac:(lia) Ee).
    cbn [s9_params p_keylen p_prf p_cipher p_iv p_salt p_iter Z.eqb Pos.eqb orb negb]. rewrite Hiv. cbn [N.eqb Pos.eqb negb].
    unfold SM9_MAX_PRIVATE_KEY_INFO_SIZE. destruct (N.ltb_spec 512 (len enced)); [lia|].
    rewrite EE, cbc_inverse. rewrite <- (app_nil_r info), Ri. cbn [bind_ok is_nil]. reflexivity.
  Qed.

  Lemma s9_seal_open_as {K} alg par ealg epar (dec : list N -> res (K * list N)) key pass salt iv e rest :
    salt <> [] -> len salt <= 1048576 -> len iv = 16 ->
    s9_seal kdf cbcenc alg par key pass salt iv = Ok e ->
    s9_open_as kdf cbcdec ealg epar dec pass (e ++ rest) =
      if negb (alg =? ealg)%Z then Err else if negb (par =? epar)%Z then Err
      else bind_ok (dec key) (fun '(k, r1) => if is_nil r1 then Ok (k, rest) else Err).
  Proof.
    intros Hs Ls Hiv H. unfold s9_open_as. rewrite (s9_seal_open _ _ _ _ _ _ _ rest Hs Ls Hiv H). reflexivity.
  Qed.

  (* seal / open round trips of the four private key types *)
  Theorem sign_msk_seal_open k pass salt iv e rest :
    salt <> [] -> len salt <= 1048576 -> len iv = 16 ->
    length (sm_ks k) = 32%nat -> be_to_N (sm_ks k) < sm9_n -> length (sm_Ppubs k) = 128%nat -> g2_ok (4 :: sm_Ppubs k) = true ->
    sign_msk_seal kdf cbcenc k pass salt iv = Ok e ->
    sign_msk_open g2_ok kdf cbcdec pass (e ++ rest) = Ok (k, rest).
  Proof.
    intros Hs Ls Hiv H1 H2 H3 H4 H. unfold sign_msk_seal in H. apply bind_ok_inv in H. destruct H as (kb & Ek & H).
    unfold sign_msk_open. rewrite (s9_seal_open_as _ _ 40%Z 41%Z _ _ _ _ _ _ rest Hs Ls Hiv H). cbn [Z.eqb Pos.eqb negb].
    rewrite <- (app_nil_r kb), (sign_msk_roundtrip k kb [] H1 H2 H3 H4 Ek). reflexivity.
  Qed.
  Theorem sign_key_seal_open k pass salt iv e rest :
    salt <> [] -> len salt <= 1048576 -> len iv = 16 ->
    length (sk_ds k) = 64%nat -> g1_ok (4 :: sk_ds k) = true -> length (sk_Ppubs k) = 128%nat -> g2_ok (4 :: sk_Ppubs k) = true ->
    sign_key_seal kdf cbcenc k pass salt iv = Ok e ->
    sign_key_open g1_ok g2_ok kdf cbcdec pass (e ++ rest) = Ok (k, rest).
  Proof.
    intros Hs Ls Hiv H1 H2 H3 H4 H. unfold sign_key_seal in H. apply bind_ok_inv in H. destruct H as (kb & Ek & H).
    unfold sign_key_open. rewrite (s9_seal_open_as _ _ 41%Z (-1)%Z _ _ _ _ _ _ rest Hs Ls Hiv H). cbn [Z.eqb Pos.eqb negb].
    rewrite <- (app_nil_r kb), (sign_key_roundtrip k kb [] H1 H2 H3 H4 Ek). reflexivity.
  Qed.
  Theorem enc_msk_seal_open k pass salt iv e rest :
    salt <> [] -> len salt <= 1048576 -> len iv = 16 ->
    length (em_ke k) = 32%nat -> be_to_N (em_ke k) < sm9_n -> length (em_Ppube k) = 64%nat -> g1_ok (4 :: em_Ppube k) = true ->
    enc_msk_seal kdf cbcenc k pass salt iv = Ok e ->
    enc_msk_open g1_ok kdf cbcdec pass (e ++ rest) = Ok (k, rest).
  Proof.
    intros Hs Ls Hiv H1 H2 H3 H4 H. unfold enc_msk_seal in H. apply bind_ok_inv in H. destruct H as (kb & Ek & H).
    unfold enc_msk_open. rewrite (s9_seal_open_as _ _ 40%Z 43%Z _ _ _ _ _ _ rest Hs Ls Hiv H). cbn [Z.eqb Pos.eqb negb].
    rewrite <- (app_nil_r kb), (enc_msk_roundtrip k kb [] H1 H2 H3 H4 Ek). reflexivity.
  Qed.
  Theorem enc_key_seal_open k pass salt iv e rest :
    salt <> [] -> len salt <= 1048576 -> len iv = 16 ->
    length (ek_de k) = 128%nat -> g2_ok (4 :: ek_de k) = true -> length (ek_Ppube k) = 64%nat -> g1_ok (4 :: ek_Ppube k) = true ->
    enc_key_seal kdf cbcenc k pass salt iv = Ok e ->
    enc_key_open g1_ok g2_ok kdf cbcdec pass (e ++ rest) = Ok (k, rest).
  Proof.
    intros Hs Ls Hiv H1 H2 H3 H4 H. unfold enc_key_seal in H. apply bind_ok_inv in H. destruct H as (kb & Ek & H).
    unfold enc_key_open. rewrite (s9_seal_open_as _ _ 43%Z (-1)%Z _ _ _ _ _ _ rest Hs Ls Hiv H). cbn [Z.eqb Pos.eqb negb].
    rewrite <- (app_nil_r kb), (enc_key_roundtrip k kb [] H1 H2 H3 H4 Ek). reflexivity.
  Qed.

  (* a correctly encrypted key of one type, under the right password, is refused by the loaders of the three other
     types: the AlgorithmIdentifier pairs (sm9, sm9sign) (sm9sign, -) (sm9, sm9encrypt) (sm9encrypt, -) are pairwise distinct *)
  Theorem sm9_sealed_key_other_loader_refused (sm : sign_msk) (sk : sign_key) (em : enc_msk) (ek : enc_key) pass salt iv rest :
    salt <> [] -> len salt <= 1048576 -> len iv = 16 ->
    (forall e, sign_msk_seal kdf cbcenc sm pass salt iv = Ok e ->
       sign_key_open g1_ok g2_ok kdf cbcdec pass (e ++ rest) = Err /\ enc_msk_open g1_ok kdf cbcdec pass (e ++ rest) = Err /\
       enc_key_open g1_ok g2_ok kdf cbcdec pass (e ++ rest) = Err) /\
    (forall e, sign_key_seal kdf cbcenc sk pass salt iv = Ok e ->
       sign_msk_open g2_ok kdf cbcdec pass (e ++ rest) = Err /\ enc_msk_open g1_ok kdf cbcdec pass (e ++ rest) = Err /\
       enc_key_open g1_ok g2_ok kdf cbcdec pass (e ++ rest) = Err) /\
    (forall e, enc_msk_seal kdf cbcenc em pass salt iv = Ok e ->
       sign_msk_open g2_ok kdf cbcdec pass (e ++ rest) = Err /\ sign_key_open g1_ok g2_ok kdf cbcdec pass (e ++ rest) = Err /\
       enc_key_open g1_ok g2_ok kdf cbcdec pass (e ++ rest) = Err) /\
    (forall e, enc_key_seal kdf cbcenc ek pass salt iv = Ok e ->
       sign_msk_open g2_ok kdf cbcdec pass (e ++ rest) = Err /\ sign_key_open g1_ok g2_ok kdf cbcdec pass (e ++ rest) = Err /\
       enc_msk_open g1_ok kdf cbcdec pass (e ++ rest) = Err).
  Proof.
    intros Hs Ls Hiv.
    repeat split; intros; unfold sign_msk_seal, sign_key_seal, enc_msk_seal, enc_key_seal in *;
      match goal with H : bind_ok _ _ = Ok _ |- _ => apply bind_ok_inv in H; destruct H as (kb & _ & H) end;
      unfold sign_msk_open, sign_key_open, enc_msk_open, enc_key_open;
      match goal with H : s9_seal _ _ _ _ _ _ _ _ = Ok _ |- _ => rewrite (s9_seal_open_as _ _ _ _ _ _ _ _ _ _ rest Hs Ls Hiv H) end; reflexivity.
  Qed.
End Sm9Proofs.

(* ------------------------------------------------------------------ examples (the encoders compute; zero is an accepted master scalar) *)
Example sm9_algor_examples :
  sm9_algor_to_der 40 41 = Ok [48; 21; 6; 8; 42; 129; 28; 207; 85; 1; 130; 46; 6; 9; 42; 129; 28; 207; 85; 1; 130; 46; 1] /\
  sm9_algor_to_der 41 (-1) = Ok [48; 11; 6; 9; 42; 129; 28; 207; 85; 1; 130; 46; 1] /\
  sm9_algor_from_der [48; 11; 6; 9; 42; 129; 28; 207; 85; 1; 130; 46; 1; 255] = Ok (41%Z, (-1)%Z, [255]).
Proof. repeat split; vm_compute; reflexivity. Qed.

(* observation: the master key decoders accept the scalar 0 (any point the validity test accepts) *)
Theorem sm9_master_scalar_zero_accepted (ok : list N -> bool) P rest :
  len P + 1 <= 1000 -> ok (4 :: P) = true ->
  exists e, msk_to_der (zeros 32) P = Ok e /\ msk_from_der (len P + 1) ok (e ++ rest) = Ok (zeros 32, P, rest).
Proof.
  intros HL Hok. destruct (sm9_key_encoders_total (zeros 32) P) as (T & _). destruct (T eq_refl) as [e E].
  exists e. split; [exact E|].
  exact (proj1 (msk_rt (len P + 1) ok (zeros 32) P e eq_refl ltac:(vm_compute; reflexivity) eq_refl HL Hok E) rest).
Qed.
