(* Proofs about the composite DER objects of Codec/Pkcs.v (src/x509_alg.c, src/ec.c, src/pkcs8.c,
   src/sm2_key.c, src/sm2_enc.c): round trips with exact consumption ("decode (encode v ++ rest) =
   (v, rest)") for the algorithm identifiers, PBKDF2-params with its OPTIONAL fields (absent
   keyLength / prf decode to exactly -1), PBES2, EncryptedPrivateKeyInfo, the SM2 ciphertext
   (plus canonicity), SM2 public / private keys and PrivateKeyInfo; soundness of the key decoders
   (range of d, embedded public key = [d]G, point checks); the structure of a successful
   sm2_p8_open (wrong-password clause) and the seal/open round trip under an explicit premise on
   the cipher; absence of Fault for every decoder; totality of the encoders on the stated domains. *)
From GmVerif Require Import Base.ListX Base.Bytes Codec.Der Codec.DerProofs Codec.SafetyProofs Codec.Pkcs.
From Coq Require Import ZifyN ZifyNat ZifyBool.
Ltac Zify.zify_post_hook ::= Z.div_mod_to_equations.
Local Open Scope N_scope.

(* ------------------------------------------------------------------ generic helpers *)
Lemma bind_ok_inv {A B} (r : res A) (f : A -> res B) v :
  bind_ok r f = Ok v -> exists a, r = Ok a /\ f a = Ok v.
Proof. destruct r; cbn [bind_ok]; try discriminate. eauto. Qed.
Lemma bind_ok_nofault {A B} (r : res A) (f : A -> res B) :
  r <> Fault -> (forall a, f a <> Fault) -> bind_ok r f <> Fault.
Proof. destruct r; cbn [bind_ok]; auto; discriminate. Qed.
Lemma is_nil_true {A} (l : list A) : is_nil l = true -> l = [].
Proof. destruct l; [reflexivity|discriminate]. Qed.

Definition tlv (tag : N) (d : list N) : list N := tag :: len_enc (len d) ++ d.

Lemma len_len_enc l : len (len_enc l) <= 5.
Proof.
  unfold len_enc, len_to_der. destruct (INT_MAX <? l); [rewrite len_nil; lia|].
  destruct (l <? 128); [rewrite len_cons, len_nil; lia|].
  rewrite len_cons. unfold len. rewrite N_to_be_length, N2Nat.id.
  unfold len_nbytes. destruct (l <? 256), (l <? 65536), (l <? 16777216); lia.
Qed.
Lemma len_tlv tag d : len d < len (tlv tag d) <= len d + 6.
Proof. unfold tlv. rewrite len_cons, len_app. pose proof (len_len_enc (len d)). lia. Qed.
Lemma tlv_rt tag d rest : len d <= INT_MAX -> type_from_der tag (tlv tag d ++ rest) = Ok (d, rest).
Proof. intros H. unfold tlv. cbn [app]. rewrite <- app_assoc. apply type_roundtrip; assumption. Qed.
Lemma seq_enc_tlv body : seq_enc body = tlv 48 body.
Proof. reflexivity. Qed.
Lemma tlv_ne tag d : tlv tag d <> [].
Proof. discriminate. Qed.
Lemma len_32 (a : list N) : length a = 32%nat -> len a = 32.
Proof. intros H. unfold len. rewrite H. reflexivity. Qed.
Lemma len_64 (a : list N) : length a = 64%nat -> len a = 64.
Proof. intros H. unfold len. rewrite H. reflexivity. Qed.

Lemma list_eqb_refl a : list_eqb a a = true.
Proof. induction a; cbn [list_eqb]; [reflexivity|]. rewrite N.eqb_refl. exact IHa. Qed.
Lemma list_eqb_eq a b : list_eqb a b = true -> a = b.
Proof.
  revert b; induction a as [|x a IH]; intros [|y b]; cbn [list_eqb]; try discriminate; [reflexivity|].
  intros H. apply andb_true_iff in H. destruct H as [H1 H2]. apply N.eqb_eq in H1. f_equal; auto.
Qed.

(* ------------------------------------------------------------------ object identifiers *)
Definition good_oidb (ns : list N) : bool :=
  forallb (fun a => a <? 4294967296) ns &&
  match oid_to_octets Fixed ns with Ok o => (1 <=? len o) && (len o <=? 127) | _ => false end.

Lemma oid_rt ns e rest :
  good_oidb ns = true -> oid_enc ns = Ok e ->
  oid_from_der m 32 6 (e ++ rest) = Ok (ns, rest) /\ len e <= 129 /\ exists t, e = 6 :: t.
Proof.
  unfold good_oidb, oid_enc, oid_to_der, m. intros G.
  apply andb_true_iff in G. destruct G as [GA GO].
  destruct (oid_to_octets Fixed ns) as [o| | |] eqn:EO; try discriminate.
  apply andb_true_iff in GO. destruct GO as [G1 G2]. apply N.leb_le in G1, G2.
  intros HE; injection HE as <-.
  assert (FA : Forall (fun a => a < 2 ^ 32) ns).
  { apply Forall_forall. intros x Hin. rewrite forallb_forall in GA. specialize (GA x Hin).
    apply N.ltb_lt in GA. change (2 ^ 32) with 4294967296. exact GA. }
  split; [|split].
  - cbn [app oid_from_der]. rewrite N.eqb_refl. cbn [negb]. rewrite <- app_assoc.
    rewrite len_from_der_enc; [|unfold INT_MAX; lia|rewrite len_app; lia].
    destruct (N.ltb_spec (len o) 1); [lia|]. rewrite takeN_app, dropN_app.
    rewrite (oid_octets_roundtrip ns o FA EO). reflexivity.
  - rewrite len_cons, len_app. pose proof (len_len_enc (len o)).
    assert (len (len_enc (len o)) = 1).
    { unfold len_enc, len_to_der. destruct (N.ltb_spec INT_MAX (len o)); [unfold INT_MAX in *; lia|].
      destruct (N.ltb_spec (len o) 128); [reflexivity|lia]. }
    lia.
  - eauto.
Qed.

Lemma oid_info_rt tab id ns e rest :
  good_oidb ns = true -> id_of tab ns = Some id -> oid_enc ns = Ok e ->
  oid_info_from_der tab (e ++ rest) = Ok (id, rest).
Proof.
  intros G I E. unfold oid_info_from_der. destruct (oid_rt ns e rest G E) as [-> _]. rewrite I. reflexivity.
Qed.
Lemma oid_expect_rt ns e rest :
  good_oidb ns = true -> oid_enc ns = Ok e -> oid_expect ns (e ++ rest) = Ok rest.
Proof.
  intros G E. unfold oid_expect. destruct (oid_rt ns e rest G E) as [-> _]. rewrite list_eqb_refl. reflexivity.
Qed.
Lemma oid_enc_len ns e : good_oidb ns = true -> oid_enc ns = Ok e -> len e <= 129.
Proof. intros G E. destruct (oid_rt ns e [] G E) as (_ & L & _). exact L. Qed.

Lemma curves_good id ns :
  nodes_of curves id = Some ns -> good_oidb ns = true /\ id_of curves ns = Some id.
Proof.
  unfold curves; cbn [nodes_of].
  repeat (match goal with |- context [(?k =? id)%Z] => destruct (Z.eqb_spec k id) end;
          [intros H; injection H as <-; subst id; split; reflexivity|]).
  discriminate.
Qed.
Lemma enc_algors_good id ns :
  nodes_of enc_algors id = Some ns -> good_oidb ns = true /\ id_of enc_algors ns = Some id.
Proof.
  unfold enc_algors; cbn [nodes_of].
  repeat (match goal with |- context [(?k =? id)%Z] => destruct (Z.eqb_spec k id) end;
          [intros H; injection H as <-; subst id; split; reflexivity|]).
  discriminate.
Qed.
Lemma good_ecpk : good_oidb [1;2;840;10045;2;1] = true. Proof. reflexivity. Qed.
Lemma good_rsa : good_oidb [1;2;840;113549;1;1;1] = true. Proof. reflexivity. Qed.
Lemma good_hmac_sm3 : good_oidb oid_hmac_sm3 = true. Proof. reflexivity. Qed.
Lemma good_pbkdf2 : good_oidb oid_pbkdf2 = true. Proof. reflexivity. Qed.
Lemma good_pbes2 : good_oidb oid_pbes2 = true. Proof. reflexivity. Qed.

(* ------------------------------------------------------------------ 1. named curve, AlgorithmIdentifiers *)
Theorem curve_roundtrip id e rest :
  curve_to_der id = Ok e -> curve_from_der (e ++ rest) = Ok (id, rest).
Proof.
  unfold curve_to_der, curve_from_der. destruct (nodes_of curves id) as [ns|] eqn:EN; [|discriminate].
  destruct (curves_good id ns EN) as [G I]. intros E. exact (oid_info_rt curves id ns e rest G I E).
Qed.
Lemma curve_to_der_len id e : curve_to_der id = Ok e -> len e <= 129 /\ e <> [].
Proof.
  unfold curve_to_der. destruct (nodes_of curves id) as [ns|] eqn:EN; [|discriminate].
  destruct (curves_good id ns EN) as [G I]. intros E. destruct (oid_rt ns e [] G E) as (_ & L & t & ->).
  split; [exact L|discriminate].
Qed.
(* every id of the table is encodable *)
Theorem curve_to_der_total id : In id [1;2;3;4;5;6]%Z -> exists e, curve_to_der id = Ok e.
Proof. cbn [In]. intros [<-|[<-|[<-|[<-|[<-|[<-|[]]]]]]]; eexists; vm_compute; reflexivity. Qed.

Theorem pk_algor_roundtrip id par e rest :
  pk_algor_to_der id par = Ok e ->
  pk_algor_from_der (e ++ rest) = Ok (id, (if (id =? 10)%Z then par else 1%Z), rest).
Proof.
  unfold pk_algor_to_der. destruct (Z.eqb_spec id 10) as [->|N10].
  - intros H. apply bind_ok_inv in H. destruct H as (o & Eo & H).
    apply bind_ok_inv in H. destruct H as (c & Ec & H). injection H as <-.
    pose proof (oid_enc_len _ _ good_ecpk Eo) as Lo. destruct (curve_to_der_len _ _ Ec) as [Lc _].
    unfold pk_algor_from_der. rewrite seq_enc_tlv, tlv_rt by (rewrite len_app; unfold INT_MAX; lia).
    rewrite (oid_info_rt pk_algors 10%Z _ o c good_ecpk eq_refl Eo). cbn [bind_ok Z.eqb Pos.eqb].
    rewrite <- (app_nil_r c). rewrite (curve_roundtrip par c [] Ec). cbn [bind_ok is_nil]. reflexivity.
  - destruct (Z.eqb_spec id 11) as [->|]; [|discriminate].
    intros H. apply bind_ok_inv in H. destruct H as (o & Eo & H). injection H as <-.
    pose proof (oid_enc_len _ _ good_rsa Eo) as Lo.
    unfold pk_algor_from_der. rewrite seq_enc_tlv, tlv_rt by (rewrite len_app; unfold INT_MAX, null_to_der; rewrite !len_cons, len_nil; lia).
    rewrite (oid_info_rt pk_algors 11%Z _ o null_to_der good_rsa eq_refl Eo). cbn [bind_ok Z.eqb Pos.eqb].
    reflexivity.
Qed.
Lemma pk_algor_to_der_len id par e : pk_algor_to_der id par = Ok e -> len e <= 300.
Proof.
  unfold pk_algor_to_der. destruct (Z.eqb_spec id 10) as [->|N10].
  - intros H. apply bind_ok_inv in H. destruct H as (o & Eo & H).
    apply bind_ok_inv in H. destruct H as (c & Ec & H). injection H as <-.
    pose proof (oid_enc_len _ _ good_ecpk Eo) as Lo. destruct (curve_to_der_len _ _ Ec) as [Lc _].
    rewrite seq_enc_tlv. pose proof (len_tlv 48 (o ++ c)). rewrite len_app in *. lia.
  - destruct (Z.eqb_spec id 11) as [->|]; [|discriminate].
    intros H. apply bind_ok_inv in H. destruct H as (o & Eo & H). injection H as <-.
    pose proof (oid_enc_len _ _ good_rsa Eo) as Lo.
    rewrite seq_enc_tlv. pose proof (len_tlv 48 (o ++ null_to_der)). rewrite len_app in *.
    unfold null_to_der in *. rewrite !len_cons, len_nil in *. lia.
Qed.

Theorem sm2_algor_roundtrip e rest :
  sm2_algor_to_der = Ok e -> sm2_algor_from_der (e ++ rest) = Ok rest.
Proof.
  unfold sm2_algor_to_der, sm2_algor_from_der. intros H.
  rewrite (pk_algor_roundtrip 10 1 e rest H). reflexivity.
Qed.
Theorem sm2_algor_to_der_ok : exists e, sm2_algor_to_der = Ok e /\ len e <= 300.
Proof.
  destruct sm2_algor_to_der as [e| | |] eqn:E; try (vm_compute in E; discriminate).
  exists e. split; [reflexivity|]. exact (pk_algor_to_der_len 10 1 e E).
Qed.

Theorem enc_algor_roundtrip id iv e rest :
  len iv = 16 -> enc_algor_to_der id iv = Ok e -> enc_algor_from_der (e ++ rest) = Ok (id, iv, rest).
Proof.
  intros Hiv. unfold enc_algor_to_der. destruct (nodes_of enc_algors id) as [ns|] eqn:EN; [|discriminate].
  destruct (enc_algors_good id ns EN) as [G I]. intros H.
  apply bind_ok_inv in H. destruct H as (o & Eo & H). injection H as <-.
  pose proof (oid_enc_len _ _ G Eo) as Lo.
  change (4 :: len_enc (len iv) ++ iv) with (tlv 4 iv). pose proof (len_tlv 4 iv) as Lt.
  unfold enc_algor_from_der. rewrite seq_enc_tlv, tlv_rt by (rewrite len_app; unfold INT_MAX; lia).
  rewrite (oid_info_rt enc_algors id ns o (tlv 4 iv) G I Eo). cbn [bind_ok].
  rewrite <- (app_nil_r (tlv 4 iv)), tlv_rt by (unfold INT_MAX; lia). cbn [bind_ok is_nil negb].
  rewrite Hiv. reflexivity.
Qed.
Lemma enc_algor_to_der_len id iv e : enc_algor_to_der id iv = Ok e -> len e <= len iv + 141.
Proof.
  unfold enc_algor_to_der. destruct (nodes_of enc_algors id) as [ns|] eqn:EN; [|discriminate].
  destruct (enc_algors_good id ns EN) as [G I]. intros H.
  apply bind_ok_inv in H. destruct H as (o & Eo & H). injection H as <-.
  pose proof (oid_enc_len _ _ G Eo) as Lo.
  change (4 :: len_enc (len iv) ++ iv) with (tlv 4 iv). pose proof (len_tlv 4 iv) as Lt.
  rewrite seq_enc_tlv. pose proof (len_tlv 48 (o ++ tlv 4 iv)). rewrite len_app in *. lia.
Qed.

Theorem pbes2_enc_algor_roundtrip id iv e rest :
  len iv = 16 -> pbes2_enc_algor_to_der id iv = Ok e ->
  id = 20%Z /\ pbes2_enc_algor_from_der (e ++ rest) = Ok (20%Z, iv, rest).
Proof.
  intros Hiv. unfold pbes2_enc_algor_to_der, pbes2_enc_algor_from_der.
  destruct (Z.eqb_spec id 20) as [->|]; cbn [negb]; [|discriminate]. intros H. split; [reflexivity|].
  rewrite (enc_algor_roundtrip 20 iv e rest Hiv H). reflexivity.
Qed.

(* ------------------------------------------------------------------ 2. PBKDF2-params *)
Lemma len_enc_small l : l < 128 -> len_enc l = [l].
Proof.
  intros H. unfold len_enc, len_to_der. destruct (N.ltb_spec INT_MAX l); [unfold INT_MAX in *; lia|].
  destruct (N.ltb_spec l 128); [reflexivity|lia].
Qed.
Lemma int_to_der_len tag a e : (0 <= a < 2 ^ 31)%Z -> int_to_der tag a = Ok e -> len e <= 7 /\ exists t, e = tag :: t.
Proof.
  intros Ha HE. destruct (int_to_der_shape tag a Ha) as (p & E1 & _ & Hn & V & L & _). rewrite E1 in HE.
  apply integer_to_der_shape in HE. destruct HE as (_ & _ & b & r & ES & ->).
  pose proof (strip0_len p) as SL. rewrite ES in SL.
  rewrite len_cons in SL.
  destruct (hibit b); rewrite len_cons, len_app, len_enc_small by (rewrite ?len_cons; lia); rewrite ?len_cons, ?len_nil; split; eauto; lia.
Qed.
Definition not_tag (tag : N) (inp : list N) : Prop := inp = [] \/ exists t r, inp = t :: r /\ t <> tag.
Lemma int_from_der_absent tag inp : not_tag tag inp -> int_from_der m tag inp = Absent.
Proof.
  intros [->|(t & r & -> & Ht)]; [reflexivity|]. unfold int_from_der. cbn [integer_from_der].
  destruct (N.eqb_spec t tag); [contradiction|]. reflexivity.
Qed.
Lemma type_from_der_absent tag inp : not_tag tag inp -> type_from_der tag inp = Absent.
Proof.
  intros [->|(t & r & -> & Ht)]; [reflexivity|]. cbn [type_from_der].
  destruct (N.eqb_spec t tag); [contradiction|]. reflexivity.
Qed.

Lemma opt_int_rt keylen ek tail :
  (keylen = -1 \/ 0 <= keylen < 2 ^ 31)%Z -> opt_enc (int_to_der 2 keylen) = Ok ek -> not_tag 2 tail ->
  opt_int_from_der (ek ++ tail) = Ok (keylen, tail) /\ len ek <= 7.
Proof.
  intros [->|Hk] HE HT.
  - cbn in HE. injection HE as <-. cbn [app]. unfold opt_int_from_der. rewrite int_from_der_absent by assumption.
    rewrite len_nil. split; [reflexivity|lia].
  - destruct (int_to_der_shape 2 keylen Hk) as (p & E1 & _).
    assert (E : int_to_der 2 keylen = Ok ek).
    { rewrite E1 in *. unfold integer_to_der in *.
      destruct ((len p =? 0) || (INT_MAX <? len p)); [discriminate|].
      destruct (strip0 p) as [|b t]; [discriminate|]. destruct (hibit b); exact HE. }
    unfold opt_int_from_der, m. rewrite (int_roundtrip 2 keylen ek tail Hk E).
    rewrite Z2N.id by lia. split; [reflexivity|]. exact (proj1 (int_to_der_len 2 keylen ek Hk E)).
Qed.

Lemma prf_rt prf ep rest :
  (prf = -1 \/ prf = 30)%Z -> opt_enc (prf_to_der prf) = Ok ep -> not_tag 48 rest ->
  prf_from_der (ep ++ rest) = Ok (prf, rest) /\ len ep <= 135 /\ not_tag 2 ep.
Proof.
  intros [->| ->] HE HT.
  - cbn in HE. injection HE as <-. cbn [app]. unfold prf_from_der. rewrite type_from_der_absent by assumption.
    rewrite len_nil. split; [reflexivity|]. split; [lia|]. left; reflexivity.
  - unfold prf_to_der in HE. cbn [Z.eqb Pos.eqb negb] in HE.
    destruct (oid_enc oid_hmac_sm3) as [o| | |] eqn:Eo; try discriminate. cbn [bind_ok opt_enc] in HE.
    injection HE as <-. pose proof (oid_enc_len _ _ good_hmac_sm3 Eo) as Lo.
    rewrite seq_enc_tlv. pose proof (len_tlv 48 o).
    unfold prf_from_der. rewrite tlv_rt by (unfold INT_MAX; lia).
    rewrite <- (app_nil_r o). rewrite (oid_expect_rt _ o [] good_hmac_sm3 Eo). cbn [bind_ok is_nil].
    split; [reflexivity|]. split; [rewrite app_nil_r; lia|].
    right. unfold tlv. eexists _, _. split; [reflexivity|lia].
Qed.

Lemma pbkdf2_params_rt salt iter keylen prf e :
  salt <> [] -> len salt <= 1048576 -> (0 < iter < 2 ^ 31)%Z ->
  (keylen = -1 \/ 0 <= keylen < 2 ^ 31)%Z -> (prf = -1 \/ prf = 30)%Z ->
  pbkdf2_params_to_der salt iter keylen prf = Ok e ->
  (forall rest, pbkdf2_params_from_der (e ++ rest) = Ok (salt, iter, keylen, prf, rest)) /\ len e <= len salt + 170.
Proof.
  intros Hs Ls Hi Hk Hp H. unfold pbkdf2_params_to_der in H.
  apply bind_ok_inv in H. destruct H as (ei & Ei & H).
  apply bind_ok_inv in H. destruct H as (ek & Ek & H).
  apply bind_ok_inv in H. destruct H as (ep & Ep & H).
  assert (E : e = seq_enc (tlv 4 salt ++ ei ++ ek ++ ep)) by (injection H as <-; reflexivity). subst e. clear H.
  destruct (int_to_der_len 2 iter ei ltac:(lia) Ei) as [Li _].
  destruct (prf_rt prf ep [] Hp Ep ltac:(left; reflexivity)) as (Rp & Lp & Tp). rewrite app_nil_r in Rp.
  destruct (opt_int_rt keylen ek ep Hk Ek Tp) as (Rk & Lk).
  pose proof (len_tlv 4 salt) as Lt.
  rewrite seq_enc_tlv. pose proof (len_tlv 48 (tlv 4 salt ++ ei ++ ek ++ ep)) as Lb. rewrite !len_app in Lb.
  split; [|lia]. intros rest.
  unfold pbkdf2_params_from_der. rewrite tlv_rt by (rewrite !len_app; unfold INT_MAX; lia).
  rewrite tlv_rt by (unfold INT_MAX; lia). cbn [bind_ok].
  unfold m. rewrite (int_roundtrip 2 iter ei (ek ++ ep) ltac:(lia) Ei). cbn [bind_ok].
  rewrite Rk. cbn [bind_ok]. rewrite Rp. cbn [bind_ok is_nil negb].
  destruct (N.eqb_spec (len salt) 0) as [Z|]; [apply len_0 in Z; contradiction|].
  destruct (N.eqb_spec (Z.to_N iter) 0); [lia|]. rewrite Z2N.id by lia. reflexivity.
Qed.

Theorem pbkdf2_params_roundtrip salt iter keylen prf e rest :
  salt <> [] -> len salt <= 1048576 -> (0 < iter < 2 ^ 31)%Z ->
  (keylen = -1 \/ 0 <= keylen < 2 ^ 31)%Z -> (prf = -1 \/ prf = 30)%Z ->
  pbkdf2_params_to_der salt iter keylen prf = Ok e ->
  pbkdf2_params_from_der (e ++ rest) = Ok (salt, iter, keylen, prf, rest).
Proof. intros Hs Ls Hi Hk Hp H. exact (proj1 (pbkdf2_params_rt salt iter keylen prf e Hs Ls Hi Hk Hp H) rest). Qed.

(* absent optional fields decode to exactly -1 *)
Corollary pbkdf2_params_absent_defaults salt iter e rest :
  salt <> [] -> len salt <= 1048576 -> (0 < iter < 2 ^ 31)%Z ->
  pbkdf2_params_to_der salt iter (-1) (-1) = Ok e ->
  pbkdf2_params_from_der (e ++ rest) = Ok (salt, iter, (-1)%Z, (-1)%Z, rest).
Proof. intros. apply pbkdf2_params_roundtrip; auto. Qed.

Lemma pbkdf2_algor_rt salt iter keylen prf e :
  salt <> [] -> len salt <= 1048576 -> (0 < iter < 2 ^ 31)%Z ->
  (keylen = -1 \/ 0 <= keylen < 2 ^ 31)%Z -> (prf = -1 \/ prf = 30)%Z ->
  pbkdf2_algor_to_der salt iter keylen prf = Ok e ->
  (forall rest, pbkdf2_algor_from_der (e ++ rest) = Ok (salt, iter, keylen, prf, rest)) /\ len e <= len salt + 310.
Proof.
  intros Hs Ls Hi Hk Hp H. unfold pbkdf2_algor_to_der in H.
  apply bind_ok_inv in H. destruct H as (o & Eo & H).
  apply bind_ok_inv in H. destruct H as (p & Ep & H). injection H as <-.
  pose proof (oid_enc_len _ _ good_pbkdf2 Eo) as Lo.
  destruct (pbkdf2_params_rt salt iter keylen prf p Hs Ls Hi Hk Hp Ep) as [Rp Lp].
  rewrite seq_enc_tlv. pose proof (len_tlv 48 (o ++ p)) as Lb. rewrite len_app in Lb.
  split; [|lia]. intros rest.
  unfold pbkdf2_algor_from_der. rewrite tlv_rt by (rewrite len_app; unfold INT_MAX; lia).
  rewrite (oid_expect_rt _ o p good_pbkdf2 Eo). cbn [bind_ok].
  rewrite <- (app_nil_r p), Rp. cbn [bind_ok is_nil]. reflexivity.
Qed.
Theorem pbkdf2_algor_roundtrip salt iter keylen prf e rest :
  salt <> [] -> len salt <= 1048576 -> (0 < iter < 2 ^ 31)%Z ->
  (keylen = -1 \/ 0 <= keylen < 2 ^ 31)%Z -> (prf = -1 \/ prf = 30)%Z ->
  pbkdf2_algor_to_der salt iter keylen prf = Ok e ->
  pbkdf2_algor_from_der (e ++ rest) = Ok (salt, iter, keylen, prf, rest).
Proof. intros Hs Ls Hi Hk Hp H. exact (proj1 (pbkdf2_algor_rt salt iter keylen prf e Hs Ls Hi Hk Hp H) rest). Qed.

(* ------------------------------------------------------------------ PBES2, EncryptedPrivateKeyInfo *)
Definition pbes2_ok (p : pbes2) : Prop :=
  p_salt p <> [] /\ len (p_salt p) <= 1048576 /\ (0 < p_iter p < 2 ^ 31)%Z /\
  (p_keylen p = -1 \/ 0 <= p_keylen p < 2 ^ 31)%Z /\ (p_prf p = -1 \/ p_prf p = 30)%Z /\
  p_cipher p = 20%Z /\ len (p_iv p) = 16.

Lemma pbes2_params_rt p e :
  pbes2_ok p -> pbes2_params_to_der p = Ok e ->
  (forall rest, pbes2_params_from_der (e ++ rest) = Ok (p, rest)) /\ len e <= len (p_salt p) + 480.
Proof.
  intros (Hs & Ls & Hi & Hk & Hp & Hc & Hiv) H. unfold pbes2_params_to_der in H.
  apply bind_ok_inv in H. destruct H as (k & Ek & H).
  apply bind_ok_inv in H. destruct H as (c & Ec & H). injection H as <-.
  destruct (pbkdf2_algor_rt _ _ _ _ k Hs Ls Hi Hk Hp Ek) as [Rk Lk].
  destruct (pbes2_enc_algor_roundtrip _ _ c [] Hiv Ec) as [_ Rc]. rewrite app_nil_r in Rc.
  assert (Lc : len c <= 157).
  { unfold pbes2_enc_algor_to_der in Ec. destruct (negb (p_cipher p =? 20)%Z); [discriminate|].
    apply enc_algor_to_der_len in Ec. lia. }
  rewrite seq_enc_tlv. pose proof (len_tlv 48 (k ++ c)) as Lb. rewrite len_app in Lb.
  split; [|lia]. intros rest.
  unfold pbes2_params_from_der. rewrite tlv_rt by (rewrite len_app; unfold INT_MAX; lia).
  rewrite Rk. cbn [bind_ok]. rewrite Rc. cbn [bind_ok is_nil].
  destruct p; cbn in *; subst; reflexivity.
Qed.
Theorem pbes2_params_roundtrip p e rest :
  pbes2_ok p -> pbes2_params_to_der p = Ok e -> pbes2_params_from_der (e ++ rest) = Ok (p, rest).
Proof. intros Hp H. exact (proj1 (pbes2_params_rt p e Hp H) rest). Qed.

Lemma pbes2_algor_rt p e :
  pbes2_ok p -> pbes2_algor_to_der p = Ok e ->
  (forall rest, pbes2_algor_from_der (e ++ rest) = Ok (p, rest)) /\ len e <= len (p_salt p) + 620.
Proof.
  intros Hp H. unfold pbes2_algor_to_der in H.
  apply bind_ok_inv in H. destruct H as (o & Eo & H).
  apply bind_ok_inv in H. destruct H as (q & Eq & H). injection H as <-.
  pose proof (oid_enc_len _ _ good_pbes2 Eo) as Lo.
  destruct (pbes2_params_rt p q Hp Eq) as [Rq Lq].
  destruct Hp as (_ & Ls & _).
  rewrite seq_enc_tlv. pose proof (len_tlv 48 (o ++ q)) as Lb. rewrite len_app in Lb.
  split; [|lia]. intros rest.
  unfold pbes2_algor_from_der. rewrite tlv_rt by (rewrite len_app; unfold INT_MAX; lia).
  rewrite (oid_expect_rt _ o q good_pbes2 Eo). cbn [bind_ok].
  rewrite <- (app_nil_r q), Rq. cbn [bind_ok is_nil]. reflexivity.
Qed.
Theorem pbes2_algor_roundtrip p e rest :
  pbes2_ok p -> pbes2_algor_to_der p = Ok e -> pbes2_algor_from_der (e ++ rest) = Ok (p, rest).
Proof. intros Hp H. exact (proj1 (pbes2_algor_rt p e Hp H) rest). Qed.

Theorem p8e_roundtrip p enced e rest :
  pbes2_ok p -> len enced <= 1048576 -> p8e_to_der p enced = Ok e ->
  p8e_from_der (e ++ rest) = Ok (p, enced, rest).
Proof.
  intros Hp Le H. unfold p8e_to_der in H.
  apply bind_ok_inv in H. destruct H as (a & Ea & H). injection H as <-.
  destruct (pbes2_algor_rt p a Hp Ea) as [Ra La]. destruct Hp as (_ & Ls & _).
  change (4 :: len_enc (len enced) ++ enced) with (tlv 4 enced). pose proof (len_tlv 4 enced) as Lt.
  unfold p8e_from_der. rewrite seq_enc_tlv, tlv_rt by (rewrite len_app; unfold INT_MAX; lia).
  rewrite Ra. cbn [bind_ok]. rewrite <- (app_nil_r (tlv 4 enced)), tlv_rt by (unfold INT_MAX; lia).
  cbn [bind_ok is_nil]. reflexivity.
Qed.

(* ------------------------------------------------------------------ 3. SM2 ciphertext *)
Theorem sm2_ct_roundtrip x y hash c e rest :
  length x = 32%nat -> length y = 32%nat -> len hash = 32 -> len c <= 255 ->
  sm2_ct_to_der x y hash c = Ok e -> sm2_ct_from_der (e ++ rest) = Ok (x, y, hash, c, rest).
Proof.
  intros Hx Hy Hh Hc. unfold sm2_ct_to_der.
  destruct (integer_to_der_ok32 2 x Hx) as (ex & Ex & Lx). destruct (integer_to_der_ok32 2 y Hy) as (ey & Ey & Ly).
  rewrite Ex, Ey. cbn [bind_ok]. intros H.
  assert (E : e = seq_enc (ex ++ ey ++ tlv 4 hash ++ tlv 4 c)) by (injection H as <-; reflexivity). subst e. clear H.
  pose proof (len_tlv 4 hash) as Lh. pose proof (len_tlv 4 c) as Lc.
  unfold sm2_ct_from_der. rewrite seq_enc_tlv, tlv_rt by (rewrite !len_app; unfold INT_MAX; lia).
  assert (L32 : forall a : list N, length a = 32%nat -> len a < INT_MAX) by (intros a Ha; unfold len, INT_MAX; rewrite Ha; lia).
  rewrite (integer_roundtrip 2 x ex _ Ex (L32 x Hx)). cbn [bind_ok].
  pose proof (strip0_len x). pose proof (strip0_len y). pose proof (len_32 x Hx). pose proof (len_32 y Hy).
  destruct (N.ltb_spec 32 (len (strip0 x))); [lia|].
  rewrite (integer_roundtrip 2 y ey _ Ey (L32 y Hy)). cbn [bind_ok].
  destruct (N.ltb_spec 32 (len (strip0 y))); [lia|].
  rewrite tlv_rt by (unfold INT_MAX; lia). cbn [bind_ok]. rewrite Hh. cbn [N.eqb Pos.eqb negb].
  rewrite <- (app_nil_r (tlv 4 c)), tlv_rt by (unfold INT_MAX; lia). cbn [bind_ok is_nil negb].
  destruct (N.ltb_spec 255 (len c)); [lia|].
  rewrite !pad32_strip0 by assumption. reflexivity.
Qed.

Theorem sm2_ct_canonical inp x y h c rest :
  bytes_okP inp -> len inp <= INT_MAX -> sm2_ct_from_der inp = Ok (x, y, h, c, rest) ->
  length x = 32%nat /\ length y = 32%nat /\ len h = 32 /\ len c <= 255 /\
  exists e, sm2_ct_to_der x y h c = Ok e /\ inp = e ++ rest.
Proof.
  intros HB HM. unfold sm2_ct_from_der.
  destruct (type_from_der 48 inp) as [[d rest']| | |] eqn:ET; try discriminate.
  intros H. apply bind_ok_inv in H. destruct H as ([x' d1] & EX & H).
  destruct (N.ltb_spec 32 (len x')) as [|Lx]; [discriminate|].
  apply bind_ok_inv in H. destruct H as ([y' d2] & EY & H).
  destruct (N.ltb_spec 32 (len y')) as [|Ly]; [discriminate|].
  apply bind_ok_inv in H. destruct H as ([h' d3] & EH & H).
  destruct (N.eqb_spec (len h') 32) as [Lh|]; cbn [negb] in H; [|discriminate].
  apply bind_ok_inv in H. destruct H as ([c' d4] & EC & H).
  destruct (N.ltb_spec 255 (len c')) as [|Lc]; [discriminate|].
  destruct d4 as [|? ?]; cbn [is_nil negb] in H; [|discriminate].
  injection H as <- <- <- <- <-.
  pose proof (type_canonical 48 inp d rest' HB HM ET) as EI.
  assert (HBd : bytes_okP d).
  { rewrite EI in HB. apply Forall_cons_iff in HB. destruct HB as [_ HB]. apply Forall_app in HB. destruct HB as [_ HB].
    apply Forall_app in HB. tauto. }
  assert (HMd : len d <= INT_MAX).
  { rewrite EI in HM. rewrite len_cons, !len_app in HM. lia. }
  destruct (integer_canonical 2 d x' d1 HBd HMd EX) as (Nx & ex & Ex & Ed).
  assert (HBd1 : bytes_okP d1) by (rewrite Ed in HBd; apply Forall_app in HBd; tauto).
  assert (HMd1 : len d1 <= INT_MAX) by (rewrite Ed, len_app in HMd; lia).
  destruct (integer_canonical 2 d1 y' d2 HBd1 HMd1 EY) as (Ny & ey & Ey & Ed1).
  assert (HBd2 : bytes_okP d2) by (rewrite Ed1 in HBd1; apply Forall_app in HBd1; tauto).
  assert (HMd2 : len d2 <= INT_MAX) by (rewrite Ed1, len_app in HMd1; lia).
  pose proof (type_canonical 4 d2 h' d3 HBd2 HMd2 EH) as Ed2.
  assert (HBd3 : bytes_okP d3).
  { rewrite Ed2 in HBd2. apply Forall_cons_iff in HBd2. destruct HBd2 as [_ HB2]. apply Forall_app in HB2. destruct HB2 as [_ HB2].
    apply Forall_app in HB2. tauto. }
  assert (HMd3 : len d3 <= INT_MAX).
  { rewrite Ed2 in HMd2. rewrite len_cons, !len_app in HMd2. lia. }
  pose proof (type_canonical 4 d3 c' [] HBd3 HMd3 EC) as Ed3. rewrite app_nil_r in Ed3.
  split; [apply pad32_length; exact Lx|]. split; [apply pad32_length; exact Ly|]. split; [exact Lh|]. split; [exact Lc|].
  unfold sm2_ct_to_der.
  assert (P : forall a, int_norm a -> len a <= 32 -> integer_to_der 2 (Some (pad32 a)) = integer_to_der 2 (Some a)).
  { intros a Na La. pose proof (pad32_length a La) as PL.
    apply integer_to_der_strip.
    - intros E. rewrite E in PL. discriminate.
    - unfold len, INT_MAX. rewrite PL. lia.
    - unfold pad32. rewrite strip0_zeros by exact Na. symmetry. apply strip0_id. exact Na.
    - intros ->. contradiction.
    - unfold INT_MAX; lia. }
  rewrite (P x' Nx Lx), (P y' Ny Ly), Ex, Ey. cbn [bind_ok].
  eexists. split; [reflexivity|]. rewrite EI, Ed, Ed1, Ed2, Ed3. unfold seq_enc. cbn [app]. rewrite <- !app_assoc. reflexivity.
Qed.

(* ------------------------------------------------------------------ 4. SM2 keys *)
Lemma nonempty_rt tag d rest :
  d <> [] -> len d <= INT_MAX -> nonempty_type_from_der tag (tlv tag d ++ rest) = Ok (d, rest).
Proof.
  intros Hd HM. unfold nonempty_type_from_der. rewrite tlv_rt by assumption.
  destruct (N.eqb_spec (len d) 0) as [Z|]; [apply len_0 in Z; contradiction|reflexivity].
Qed.
Lemma explicit_enc_inv i body e : explicit_enc i body = Ok e -> body <> [] /\ e = tlv (160 + i) body.
Proof.
  unfold explicit_enc. destruct (N.eqb_spec (len body) 0) as [|Hn]; [discriminate|].
  intros H; injection H as <-. split; [|reflexivity]. intros ->. apply Hn. reflexivity.
Qed.
Lemma sm2_pub_to_der_shape xy : length xy = 64%nat -> sm2_pub_to_der xy = Ok (3 :: 66 :: 0 :: 4 :: xy).
Proof.
  intros H. unfold sm2_pub_to_der, bit_octets_to_der, bit_string_to_der.
  assert (L : len (4 :: xy) = 65) by (rewrite len_cons, (len_64 xy H); reflexivity). rewrite L.
  assert (T : takeN 65 (4 :: xy) = 4 :: xy) by (rewrite <- L; apply takeN_all).
  change ((65 * 8 + 7) / 8) with 65. cbv zeta. rewrite T. reflexivity.
Qed.

Section KeysProofs.
  Variable pub_of : list N -> list N.
  Variable pt_ok : list N -> bool.

  Lemma sm2_pub_rt xy e rest :
    length xy = 64%nat -> pt_ok (4 :: xy) = true -> sm2_pub_to_der xy = Ok e ->
    sm2_pub_from_der pt_ok (e ++ rest) = Ok (xy, rest) /\ len e = 68.
  Proof.
    intros H Hp E.
    assert (L : len (4 :: xy) = 65) by (rewrite len_cons, (len_64 xy H); reflexivity).
    split.
    - unfold sm2_pub_to_der, bit_octets_to_der in E.
      unfold sm2_pub_from_der, bit_octets_from_der, m.
      rewrite (bit_string_roundtrip 3 (4 :: xy) (len (4 :: xy) * 8) e rest); [|lia|unfold INT_MAX; lia|exact E].
      destruct (N.eqb_spec ((len (4 :: xy) * 8) mod 8) 0); [|lia].
      rewrite L. cbn [N.eqb Pos.eqb negb nth]. rewrite Hp. reflexivity.
    - rewrite (sm2_pub_to_der_shape xy H) in E. injection E as <-. rewrite !len_cons, (len_64 xy H). reflexivity.
  Qed.
  Theorem sm2_pub_roundtrip xy e rest :
    length xy = 64%nat -> pt_ok (4 :: xy) = true -> sm2_pub_to_der xy = Ok e ->
    sm2_pub_from_der pt_ok (e ++ rest) = Ok (xy, rest).
  Proof. intros H Hp E. exact (proj1 (sm2_pub_rt xy e rest H Hp E)). Qed.

  Theorem sm2_pubinfo_roundtrip xy e rest :
    length xy = 64%nat -> pt_ok (4 :: xy) = true -> sm2_pubinfo_to_der xy = Ok e ->
    sm2_pubinfo_from_der pt_ok (e ++ rest) = Ok (xy, rest).
  Proof.
    intros H Hp E. unfold sm2_pubinfo_to_der in E.
    apply bind_ok_inv in E. destruct E as (a & Ea & E).
    apply bind_ok_inv in E. destruct E as (k & Ek & E). injection E as <-.
    pose proof (pk_algor_to_der_len 10 1 a Ea) as La.
    destruct (sm2_pub_rt xy k [] H Hp Ek) as [Rk Lk]. rewrite app_nil_r in Rk.
    unfold sm2_pubinfo_from_der. rewrite seq_enc_tlv, tlv_rt by (rewrite len_app; unfold INT_MAX; lia).
    rewrite (sm2_algor_roundtrip a k Ea). cbn [bind_ok]. rewrite Rk. cbn [bind_ok is_nil]. reflexivity.
  Qed.

  Lemma sm2_priv_rt d e :
    length d = 32%nat -> d_ok d = true -> length (pub_of d) = 64%nat -> pt_ok (4 :: pub_of d) = true ->
    sm2_priv_to_der pub_of d = Ok e ->
    (forall rest, sm2_priv_from_der pub_of pt_ok (e ++ rest) = Ok (d, pub_of d, rest)) /\ len e <= 300.
  Proof.
    intros Hd Hok Hpl Hpt H. unfold sm2_priv_to_der in H.
    apply bind_ok_inv in H. destruct H as (c & Ec & H).
    apply bind_ok_inv in H. destruct H as (k & Ek & H).
    apply bind_ok_inv in H. destruct H as (v & Ev & H).
    apply bind_ok_inv in H. destruct H as (e0 & E0 & H).
    apply bind_ok_inv in H. destruct H as (e1 & E1 & H).
    apply explicit_enc_inv in E0, E1. destruct E0 as [Nc ->]. destruct E1 as [Nk ->].
    change (160 + 0) with 160 in *. change (160 + 1) with 161 in *.
    assert (E : e = seq_enc (v ++ tlv 4 d ++ tlv 160 c ++ tlv 161 k)) by (injection H as <-; reflexivity). subst e. clear H.
    destruct (curve_to_der_len 1 c Ec) as [Lc _].
    destruct (sm2_pub_rt (pub_of d) k [] Hpl Hpt Ek) as [Rk Lk]. rewrite app_nil_r in Rk.
    destruct (int_to_der_len 2 1 v ltac:(lia) Ev) as [Lv _].
    pose proof (len_32 d Hd) as Ld.
    pose proof (len_tlv 4 d) as L1. pose proof (len_tlv 160 c) as L2. pose proof (len_tlv 161 k) as L3.
    rewrite seq_enc_tlv. pose proof (len_tlv 48 (v ++ tlv 4 d ++ tlv 160 c ++ tlv 161 k)) as Lb. rewrite !len_app in Lb.
    split; [|lia]. intros rest.
    unfold sm2_priv_from_der. rewrite tlv_rt by (rewrite !len_app; unfold INT_MAX; lia).
    unfold m. rewrite (int_roundtrip 2 1 v _ ltac:(lia) Ev). cbn [bind_ok].
    rewrite tlv_rt by (unfold INT_MAX; lia). cbn [bind_ok].
    rewrite nonempty_rt by (auto; unfold INT_MAX; lia). cbn [bind_ok].
    rewrite <- (app_nil_r (tlv 161 k)), nonempty_rt by (auto; unfold INT_MAX; lia). cbn [bind_ok].
    change (Z.to_N 1 =? 1) with true. cbn [negb is_nil].
    rewrite <- (app_nil_r c), (curve_roundtrip 1 c [] Ec). cbn [bind_ok Z.eqb Pos.eqb negb is_nil].
    rewrite Ld, Hok. cbn [N.eqb Pos.eqb negb].
    rewrite Rk. cbn [bind_ok is_nil negb]. rewrite list_eqb_refl. reflexivity.
  Qed.
  Theorem sm2_priv_roundtrip d e rest :
    length d = 32%nat -> d_ok d = true -> length (pub_of d) = 64%nat -> pt_ok (4 :: pub_of d) = true ->
    sm2_priv_to_der pub_of d = Ok e ->
    sm2_priv_from_der pub_of pt_ok (e ++ rest) = Ok (d, pub_of d, rest).
  Proof. intros Hd Hok Hpl Hpt H. exact (proj1 (sm2_priv_rt d e Hd Hok Hpl Hpt H) rest). Qed.

  Theorem sm2_p8_roundtrip d e rest :
    length d = 32%nat -> d_ok d = true -> length (pub_of d) = 64%nat -> pt_ok (4 :: pub_of d) = true ->
    sm2_p8_to_der pub_of d = Ok e ->
    sm2_p8_from_der pub_of pt_ok (e ++ rest) = Ok (d, pub_of d, None, rest).
  Proof.
    intros Hd Hok Hpl Hpt H. unfold sm2_p8_to_der in H.
    apply bind_ok_inv in H. destruct H as (k & Ek & H).
    apply bind_ok_inv in H. destruct H as (v & Ev & H).
    apply bind_ok_inv in H. destruct H as (a & Ea & H).
    assert (E : e = seq_enc (v ++ a ++ tlv 4 k)) by (injection H as <-; reflexivity). subst e. clear H.
    destruct (sm2_priv_rt d k Hd Hok Hpl Hpt Ek) as [Rk Lk].
    destruct (int_to_der_len 2 0 v ltac:(lia) Ev) as [Lv _].
    pose proof (pk_algor_to_der_len 10 1 a Ea) as La. pose proof (len_tlv 4 k) as L1.
    unfold sm2_p8_from_der. rewrite seq_enc_tlv, tlv_rt by (rewrite !len_app; unfold INT_MAX; lia).
    unfold m. rewrite (int_roundtrip 2 0 v _ ltac:(lia) Ev). cbn [bind_ok].
    rewrite (sm2_algor_roundtrip a _ Ea). cbn [bind_ok].
    rewrite <- (app_nil_r (tlv 4 k)), tlv_rt by (unfold INT_MAX; lia). cbn [bind_ok type_from_der is_nil negb].
    change (Z.to_N 0 =? 0) with true. cbn [negb].
    rewrite <- (app_nil_r k), Rk. cbn [bind_ok is_nil]. reflexivity.
  Qed.

  (* ---------------------------------------------------------------- soundness of the decoders *)
  Lemma sm2_pub_from_der_sound inp xy rest :
    sm2_pub_from_der pt_ok inp = Ok (xy, rest) -> len xy = 64 /\ pt_ok (4 :: xy) = true.
  Proof.
    unfold sm2_pub_from_der. destruct (bit_octets_from_der m 3 inp) as [[d r]| | |]; try discriminate.
    destruct (N.eqb_spec (len d) 65) as [L|]; cbn [negb]; [|discriminate].
    destruct d as [|b t]; [rewrite len_nil in L; lia|]. cbn [nth].
    destruct (N.eqb_spec b 4) as [->|]; cbn [negb]; [|discriminate].
    destruct (pt_ok (4 :: t)) eqn:P; cbn [negb]; [|discriminate].
    intros H; injection H as <- <-. change (dropN 1 (4 :: t)) with t. rewrite len_cons in L. split; [lia|exact P].
  Qed.

  Theorem sm2_priv_from_der_sound inp d pub rest :
    sm2_priv_from_der pub_of pt_ok inp = Ok (d, pub, rest) ->
    len d = 32 /\ d_ok d = true /\ pub = pub_of d /\ pt_ok (4 :: pub) = true /\ len pub = 64.
  Proof.
    unfold sm2_priv_from_der. destruct (type_from_der 48 inp) as [[body rest']| | |]; try discriminate.
    intros H. apply bind_ok_inv in H. destruct H as ([ver b1] & _ & H).
    apply bind_ok_inv in H. destruct H as ([d' b2] & _ & H).
    apply bind_ok_inv in H. destruct H as ([params b3] & _ & H).
    apply bind_ok_inv in H. destruct H as ([pk b4] & _ & H).
    destruct (negb (ver =? 1)); [discriminate|]. destruct (negb (is_nil b4)); [discriminate|].
    apply bind_ok_inv in H. destruct H as ([c p1] & _ & H).
    destruct (negb (c =? 1)%Z); [discriminate|]. destruct (negb (is_nil p1)); [discriminate|].
    destruct (N.eqb_spec (len d') 32) as [L|]; cbn [negb] in H; [|discriminate].
    destruct (d_ok d') eqn:Dk; cbn [negb] in H; [|discriminate].
    apply bind_ok_inv in H. destruct H as ([xy k1] & Ek & H).
    destruct (negb (is_nil k1)); [discriminate|].
    destruct (list_eqb xy (pub_of d')) eqn:EQ; cbn [negb] in H; [|discriminate].
    injection H as <- <- <-. apply list_eqb_eq in EQ. subst xy.
    apply sm2_pub_from_der_sound in Ek. destruct Ek as [Lp Pk]. auto.
  Qed.

  Theorem sm2_p8_from_der_sound inp d pub attrs rest :
    sm2_p8_from_der pub_of pt_ok inp = Ok (d, pub, attrs, rest) ->
    len d = 32 /\ d_ok d = true /\ pub = pub_of d /\ pt_ok (4 :: pub) = true /\ len pub = 64.
  Proof.
    unfold sm2_p8_from_der. destruct (type_from_der 48 inp) as [[body rest']| | |]; try discriminate.
    intros H. apply bind_ok_inv in H. destruct H as ([ver b1] & _ & H).
    apply bind_ok_inv in H. destruct H as (b2 & _ & H).
    apply bind_ok_inv in H. destruct H as ([k b3] & _ & H). cbv zeta in H.
    apply bind_ok_inv in H. destruct H as ([at' b4] & _ & H).
    destruct (negb (is_nil b4)); [discriminate|]. destruct (negb (ver =? 0)); [discriminate|].
    apply bind_ok_inv in H. destruct H as ([[d' pub'] k1] & Ek & H).
    destruct (is_nil k1); [|discriminate]. injection H as <- <- <- <-.
    exact (sm2_priv_from_der_sound _ _ _ _ Ek).
  Qed.
End KeysProofs.

(* ------------------------------------------------------------------ 6. no decoder reaches Fault *)
Lemma oid_from_der_m_nofault inp : oid_from_der m 32 6 inp <> Fault.
Proof. apply oid_from_der_fixed_nofault. unfold OID_MAX_NODES. lia. Qed.
Lemma int_from_der_m_nofault tag inp : int_from_der m tag inp <> Fault.
Proof. apply int_from_der_fixed_nofault. Qed.
Lemma bit_octets_from_der_m_nofault tag inp : bit_octets_from_der m tag inp <> Fault.
Proof. apply bit_octets_from_der_nofault. Qed.

Create HintDb pkcs_nofault.
#[local] Hint Resolve type_from_der_nofault nonempty_type_from_der_nofault integer_from_der_nofault
  null_from_der_nofault oid_from_der_m_nofault int_from_der_m_nofault bit_octets_from_der_m_nofault : pkcs_nofault.

Ltac pkcs_nf :=
  repeat (cbv zeta; cbn [bind_ok];
    match goal with
    | |- Ok _ <> Fault => discriminate
    | |- Err <> Fault => discriminate
    | |- Absent <> Fault => discriminate
    | |- bind_ok _ _ <> Fault => apply bind_ok_nofault; [first [solve [auto with pkcs_nofault]|idtac]|intros ?]
    | |- (if ?c then _ else _) <> Fault => destruct c
    | |- match ?x with _ => _ end <> Fault => is_var x; destruct x
    | |- match ?x with _ => _ end <> Fault =>
        let H := fresh in assert (H : x <> Fault) by (auto with pkcs_nofault); destruct x; [| | |congruence]
    | |- match ?x with _ => _ end <> Fault => destruct x
    end).

Lemma oid_info_from_der_nofault tab inp : oid_info_from_der tab inp <> Fault.
Proof. unfold oid_info_from_der. pkcs_nf. Qed.
Lemma oid_expect_nofault ns inp : oid_expect ns inp <> Fault.
Proof. unfold oid_expect. pkcs_nf. Qed.
#[local] Hint Resolve oid_info_from_der_nofault oid_expect_nofault : pkcs_nofault.
Lemma curve_from_der_nofault inp : curve_from_der inp <> Fault.
Proof. unfold curve_from_der. auto with pkcs_nofault. Qed.
#[local] Hint Resolve curve_from_der_nofault : pkcs_nofault.
Lemma pk_algor_from_der_nofault inp : pk_algor_from_der inp <> Fault.
Proof. unfold pk_algor_from_der. pkcs_nf. Qed.
#[local] Hint Resolve pk_algor_from_der_nofault : pkcs_nofault.
Lemma sm2_algor_from_der_nofault inp : sm2_algor_from_der inp <> Fault.
Proof. unfold sm2_algor_from_der. pkcs_nf. Qed.
Lemma enc_algor_from_der_nofault inp : enc_algor_from_der inp <> Fault.
Proof. unfold enc_algor_from_der. pkcs_nf. Qed.
#[local] Hint Resolve sm2_algor_from_der_nofault enc_algor_from_der_nofault : pkcs_nofault.
Lemma prf_from_der_nofault inp : prf_from_der inp <> Fault.
Proof. unfold prf_from_der. pkcs_nf. Qed.
Lemma opt_int_from_der_nofault inp : opt_int_from_der inp <> Fault.
Proof. unfold opt_int_from_der. pkcs_nf. Qed.
#[local] Hint Resolve prf_from_der_nofault opt_int_from_der_nofault : pkcs_nofault.
Lemma pbkdf2_params_from_der_nofault inp : pbkdf2_params_from_der inp <> Fault.
Proof. unfold pbkdf2_params_from_der. pkcs_nf. Qed.
#[local] Hint Resolve pbkdf2_params_from_der_nofault : pkcs_nofault.
Lemma pbkdf2_algor_from_der_nofault inp : pbkdf2_algor_from_der inp <> Fault.
Proof. unfold pbkdf2_algor_from_der. pkcs_nf. Qed.
Lemma pbes2_enc_algor_from_der_nofault inp : pbes2_enc_algor_from_der inp <> Fault.
Proof. unfold pbes2_enc_algor_from_der. pkcs_nf. Qed.
#[local] Hint Resolve pbkdf2_algor_from_der_nofault pbes2_enc_algor_from_der_nofault : pkcs_nofault.
Lemma pbes2_params_from_der_nofault inp : pbes2_params_from_der inp <> Fault.
Proof. unfold pbes2_params_from_der. pkcs_nf. Qed.
#[local] Hint Resolve pbes2_params_from_der_nofault : pkcs_nofault.
Lemma pbes2_algor_from_der_nofault inp : pbes2_algor_from_der inp <> Fault.
Proof. unfold pbes2_algor_from_der. pkcs_nf. Qed.
#[local] Hint Resolve pbes2_algor_from_der_nofault : pkcs_nofault.
Lemma p8e_from_der_nofault inp : p8e_from_der inp <> Fault.
Proof. unfold p8e_from_der. pkcs_nf. Qed.
#[local] Hint Resolve p8e_from_der_nofault : pkcs_nofault.
Lemma sm2_ct_from_der_nofault inp : sm2_ct_from_der inp <> Fault.
Proof. unfold sm2_ct_from_der. pkcs_nf. Qed.

Section OpenProofs.
  Variable pub_of : list N -> list N.
  Variable pt_ok : list N -> bool.

  Lemma sm2_pub_from_der_nofault inp : sm2_pub_from_der pt_ok inp <> Fault.
  Proof. unfold sm2_pub_from_der. pkcs_nf. Qed.
  #[local] Hint Resolve sm2_pub_from_der_nofault : pkcs_nofault.
  Lemma sm2_pubinfo_from_der_nofault inp : sm2_pubinfo_from_der pt_ok inp <> Fault.
  Proof. unfold sm2_pubinfo_from_der. pkcs_nf. Qed.
  Lemma sm2_priv_from_der_nofault inp : sm2_priv_from_der pub_of pt_ok inp <> Fault.
  Proof. unfold sm2_priv_from_der. pkcs_nf. Qed.
  #[local] Hint Resolve sm2_priv_from_der_nofault : pkcs_nofault.
  Lemma sm2_p8_from_der_nofault inp : sm2_p8_from_der pub_of pt_ok inp <> Fault.
  Proof. unfold sm2_p8_from_der. pkcs_nf. Qed.
  #[local] Hint Resolve sm2_p8_from_der_nofault : pkcs_nofault.

  Variable kdf : list N -> list N -> Z -> list N.
  Variable cbcdec : list N -> list N -> list N -> option (list N).

  Lemma sm2_p8_open_nofault pass inp : sm2_p8_open pub_of pt_ok kdf cbcdec pass inp <> Fault.
  Proof. unfold sm2_p8_open. pkcs_nf. Qed.

  (* -------------------------------------------------------------- 5. opening an encrypted key *)
  Theorem sm2_p8_open_inv pass inp d pub attrs rest :
    sm2_p8_open pub_of pt_ok kdf cbcdec pass inp = Ok (d, pub, attrs, rest) ->
    exists p enced pt,
      p8e_from_der inp = Ok (p, enced, rest) /\
      cbcdec (kdf pass (p_salt p) (p_iter p)) (p_iv p) enced = Some pt /\
      sm2_p8_from_der pub_of pt_ok pt = Ok (d, pub, attrs, []) /\
      pub = pub_of d /\ d_ok d = true /\ pt_ok (4 :: pub) = true /\
      len d = 32 /\ len pub = 64 /\
      (p_keylen p = -1 \/ p_keylen p = 16)%Z /\ (p_prf p = -1 \/ p_prf p = 30)%Z /\
      p_cipher p = 20%Z /\ len (p_iv p) = 16 /\ len enced <= 256.
  Proof.
    unfold sm2_p8_open. destruct (p8e_from_der inp) as [[[p enced] rest']| | |]; try discriminate.
    destruct ((p_keylen p =? -1)%Z || (p_keylen p =? 16)%Z) eqn:K; cbn [negb]; [|discriminate].
    destruct ((p_prf p =? -1)%Z || (p_prf p =? 30)%Z) eqn:P; cbn [negb]; [|discriminate].
    destruct (Z.eqb_spec (p_cipher p) 20) as [C|]; cbn [negb]; [|discriminate].
    destruct (N.eqb_spec (len (p_iv p)) 16) as [I|]; cbn [negb]; [|discriminate].
    destruct (N.ltb_spec 256 (len enced)) as [|L]; [discriminate|].
    destruct (cbcdec (kdf pass (p_salt p) (p_iter p)) (p_iv p) enced) as [pt|] eqn:D; [|discriminate].
    intros H. apply bind_ok_inv in H. destruct H as ([[[d' pub'] attrs'] r1] & E8 & H).
    destruct r1 as [|? ?]; cbn [is_nil] in H; [|discriminate]. injection H as <- <- <- <-.
    destruct (sm2_p8_from_der_sound pub_of pt_ok _ _ _ _ _ E8) as (S1 & S2 & S3 & S4 & S5).
    exists p, enced, pt. repeat split; auto; lia.
  Qed.

  Theorem sm2_p8_open_sound pass inp d pub attrs rest :
    sm2_p8_open pub_of pt_ok kdf cbcdec pass inp = Ok (d, pub, attrs, rest) ->
    exists p enced pt,
      p8e_from_der inp = Ok (p, enced, rest) /\
      cbcdec (kdf pass (p_salt p) (p_iter p)) (p_iv p) enced = Some pt /\
      sm2_p8_from_der pub_of pt_ok pt = Ok (d, pub, attrs, []) /\
      pub = pub_of d /\ d_ok d = true /\ pt_ok (4 :: pub) = true.
  Proof.
    intros H. apply sm2_p8_open_inv in H. destruct H as (p & enced & pt & H1 & H2 & H3 & H4 & H5 & H6 & _).
    exists p, enced, pt. repeat split; assumption.
  Qed.

  (* a wrong password: whenever the padding check or the parse of the decrypted bytes fails, open fails *)
  Theorem sm2_p8_open_refuses pass inp p enced rest :
    p8e_from_der inp = Ok (p, enced, rest) ->
    (cbcdec (kdf pass (p_salt p) (p_iter p)) (p_iv p) enced = None \/
     exists pt, cbcdec (kdf pass (p_salt p) (p_iter p)) (p_iv p) enced = Some pt /\
                forall d pub attrs, sm2_p8_from_der pub_of pt_ok pt <> Ok (d, pub, attrs, [])) ->
    sm2_p8_open pub_of pt_ok kdf cbcdec pass inp = Err.
  Proof.
    intros E W.
    destruct (sm2_p8_open pub_of pt_ok kdf cbcdec pass inp) as [[[[d pub] attrs] r]| | |] eqn:O.
    - apply sm2_p8_open_inv in O. destruct O as (p' & enced' & pt & H1 & H2 & H3 & _).
      rewrite E in H1. injection H1 as <- <- <-.
      destruct W as [W|(pt' & W1 & W2)]; [congruence|]. rewrite W1 in H2. injection H2 as <-.
      exfalso. exact (W2 _ _ _ H3).
    - exfalso. unfold sm2_p8_open in O. rewrite E in O.
      repeat match type of O with (if ?c then _ else _) = _ => destruct c; [discriminate|] end.
      destruct W as [W|(pt' & W1 & W2)]; [rewrite W in O; discriminate|]. rewrite W1 in O.
      destruct (sm2_p8_from_der pub_of pt_ok pt') as [[[[? ?] ?] r1]| | |]; try discriminate.
      cbn [bind_ok] in O. destruct (is_nil r1); discriminate.
    - reflexivity.
    - exfalso. exact (sm2_p8_open_nofault pass inp O).
  Qed.

  Variable cbcenc : list N -> list N -> list N -> list N.

  Theorem sm2_p8_seal_open pass p d info e rest :
    (forall key iv x, cbcdec key iv (cbcenc key iv x) = Some x) ->
    pbes2_ok p -> (p_keylen p = -1 \/ p_keylen p = 16)%Z ->
    length d = 32%nat -> d_ok d = true -> length (pub_of d) = 64%nat -> pt_ok (4 :: pub_of d) = true ->
    sm2_p8_to_der pub_of d = Ok info ->
    len (cbcenc (kdf pass (p_salt p) (p_iter p)) (p_iv p) info) <= 256 ->
    p8e_to_der p (cbcenc (kdf pass (p_salt p) (p_iter p)) (p_iv p) info) = Ok e ->
    sm2_p8_open pub_of pt_ok kdf cbcdec pass (e ++ rest) = Ok (d, pub_of d, None, rest).
  Proof.
    intros HC Hp Hk Hd Hok Hpl Hpt Ei Le Ee.
    remember (cbcenc (kdf pass (p_salt p) (p_iter p)) (p_iv p) info) as enced eqn:EE.
    unfold sm2_p8_open. rewrite (p8e_roundtrip p enced e rest Hp ltac:(lia) Ee).
    destruct Hp as (_ & _ & _ & _ & Hprf & Hc & Hiv).
    assert (K : ((p_keylen p =? -1)%Z || (p_keylen p =? 16)%Z) = true) by (destruct Hk as [-> | ->]; reflexivity).
    assert (P : ((p_prf p =? -1)%Z || (p_prf p =? 30)%Z) = true) by (destruct Hprf as [-> | ->]; reflexivity).
    rewrite K, P, Hc, Hiv. cbn [negb Z.eqb Pos.eqb N.eqb].
    destruct (N.ltb_spec 256 (len enced)); [lia|].
    rewrite EE, HC. rewrite <- (app_nil_r info), (sm2_p8_roundtrip pub_of pt_ok d info [] Hd Hok Hpl Hpt Ei).
    cbn [bind_ok is_nil]. reflexivity.
  Qed.
End OpenProofs.

(* ------------------------------------------------------------------ the encoders succeed (the round trips are not vacuous) *)
Lemma oid_enc_total ns : good_oidb ns = true -> exists e, oid_enc ns = Ok e.
Proof.
  unfold good_oidb, oid_enc, oid_to_der, m. intros G. apply andb_true_iff in G. destruct G as [_ G]. revert G.
  destruct (oid_to_octets Fixed ns); try discriminate. intros _. eexists. reflexivity.
Qed.
Lemma int_to_der_total tag a : (0 <= a < 2 ^ 31)%Z -> exists e, int_to_der tag a = Ok e.
Proof.
  intros Ha. destruct (int_to_der_shape tag a Ha) as (p & E1 & _ & Hn & _ & L & _). rewrite E1.
  destruct p as [|b r]; [contradiction|]. rewrite integer_to_der_norm by (auto; unfold INT_MAX; lia). eauto.
Qed.
Theorem pk_algor_to_der_total id par :
  (id = 10%Z /\ In par [1;2;3;4;5;6]%Z) \/ id = 11%Z -> exists e, pk_algor_to_der id par = Ok e.
Proof.
  intros [[-> H]| ->]; [|eexists; vm_compute; reflexivity].
  cbn [In] in H. destruct H as [<-|[<-|[<-|[<-|[<-|[<-|[]]]]]]]; eexists; vm_compute; reflexivity.
Qed.
Theorem enc_algor_to_der_total id iv : In id [20;21;22;23]%Z -> exists e, enc_algor_to_der id iv = Ok e.
Proof.
  intros H. unfold enc_algor_to_der. destruct (nodes_of enc_algors id) as [ns|] eqn:EN.
  - destruct (enc_algors_good id ns EN) as [G _]. destruct (oid_enc_total ns G) as [o ->]. cbn [bind_ok]. eauto.
  - cbn [In] in H. destruct H as [<-|[<-|[<-|[<-|[]]]]]; discriminate.
Qed.
Theorem pbkdf2_params_to_der_total salt iter keylen prf :
  (0 <= iter < 2 ^ 31)%Z -> (keylen = -1 \/ 0 <= keylen < 2 ^ 31)%Z -> (prf = -1 \/ prf = 30)%Z ->
  exists e, pbkdf2_params_to_der salt iter keylen prf = Ok e.
Proof.
  intros Hi Hk Hp. unfold pbkdf2_params_to_der.
  destruct (int_to_der_total 2 iter Hi) as [ei ->]. cbn [bind_ok].
  assert (K : exists ek, opt_enc (int_to_der 2 keylen) = Ok ek).
  { destruct Hk as [->|Hk]; [exists []; reflexivity|]. destruct (int_to_der_total 2 keylen Hk) as [ek ->]. exists ek; reflexivity. }
  destruct K as [ek ->]. cbn [bind_ok].
  assert (P : exists ep, opt_enc (prf_to_der prf) = Ok ep).
  { destruct Hp as [-> | ->]; [exists []; reflexivity|]. eexists. vm_compute. reflexivity. }
  destruct P as [ep ->]. cbn [bind_ok]. eauto.
Qed.
Theorem p8e_to_der_total p enced :
  (0 <= p_iter p < 2 ^ 31)%Z -> (p_keylen p = -1 \/ 0 <= p_keylen p < 2 ^ 31)%Z -> (p_prf p = -1 \/ p_prf p = 30)%Z ->
  p_cipher p = 20%Z -> exists e, p8e_to_der p enced = Ok e.
Proof.
  intros Hi Hk Hp Hc. unfold p8e_to_der, pbes2_algor_to_der, pbes2_params_to_der, pbkdf2_algor_to_der, pbes2_enc_algor_to_der.
  destruct (oid_enc_total _ good_pbes2) as [o1 ->]. destruct (oid_enc_total _ good_pbkdf2) as [o2 ->].
  destruct (pbkdf2_params_to_der_total (p_salt p) _ _ _ Hi Hk Hp) as [q ->].
  destruct (enc_algor_to_der_total 20 (p_iv p) ltac:(cbn [In]; auto)) as [c Ec].
  rewrite Hc. cbn [bind_ok Z.eqb Pos.eqb negb]. rewrite Ec. cbn [bind_ok]. eauto.
Qed.
Theorem sm2_ct_to_der_total x y hash c :
  length x = 32%nat -> length y = 32%nat -> exists e, sm2_ct_to_der x y hash c = Ok e.
Proof.
  intros Hx Hy. unfold sm2_ct_to_der.
  destruct (integer_to_der_ok32 2 x Hx) as (ex & -> & _). destruct (integer_to_der_ok32 2 y Hy) as (ey & -> & _).
  cbn [bind_ok]. eauto.
Qed.
Theorem sm2_p8_to_der_total pub_of d :
  length (pub_of d) = 64%nat ->
  exists k e, sm2_priv_to_der pub_of d = Ok k /\ sm2_p8_to_der pub_of d = Ok e.
Proof.
  intros H.
  assert (K : exists k, sm2_priv_to_der pub_of d = Ok k).
  { unfold sm2_priv_to_der. destruct (curve_to_der_total 1 ltac:(cbn [In]; auto)) as [c Ec].
    destruct (curve_to_der_len 1 c Ec) as [_ Nc]. rewrite Ec. cbn [bind_ok].
    rewrite (sm2_pub_to_der_shape _ H). cbn [bind_ok].
    destruct (int_to_der_total 2 1 ltac:(lia)) as [v ->]. cbn [bind_ok].
    unfold explicit_enc.
    destruct (N.eqb_spec (len c) 0) as [Z|]; [apply len_0 in Z; contradiction|]. cbn [bind_ok].
    rewrite len_cons. destruct (N.eqb_spec (1 + len (66 :: 0 :: 4 :: pub_of d)) 0); [lia|]. cbn [bind_ok]. eauto. }
  destruct K as [k Ek]. exists k. unfold sm2_p8_to_der. rewrite Ek. cbn [bind_ok].
  destruct (int_to_der_total 2 0 ltac:(lia)) as [v ->]. cbn [bind_ok].
  destruct sm2_algor_to_der_ok as (a & -> & _). cbn [bind_ok]. eauto.
Qed.

(* ------------------------------------------------------------------ examples *)
Example pbkdf2_params_absent_example :
  pbkdf2_params_to_der [1;2;3;4;5;6;7;8] 65536 (-1) (-1) = Ok [48; 15; 4; 8; 1;2;3;4;5;6;7;8; 2; 3; 1; 0; 0] /\
  pbkdf2_params_from_der [48; 15; 4; 8; 1;2;3;4;5;6;7;8; 2; 3; 1; 0; 0; 255] = Ok ([1;2;3;4;5;6;7;8], 65536%Z, (-1)%Z, (-1)%Z, [255]).
Proof. split; vm_compute; reflexivity. Qed.
Example pbkdf2_params_full_example :
  exists e, pbkdf2_params_to_der [1;2;3;4;5;6;7;8] 65536 16 30 = Ok e /\
            pbkdf2_params_from_der (e ++ [255]) = Ok ([1;2;3;4;5;6;7;8], 65536%Z, 16%Z, 30%Z, [255]).
Proof. eexists. split; vm_compute; reflexivity. Qed.
Example sm2_algor_example :
  sm2_algor_to_der = Ok [48; 19; 6; 7; 42; 134; 72; 206; 61; 2; 1; 6; 8; 42; 129; 28; 207; 85; 1; 130; 45].
Proof. vm_compute. reflexivity. Qed.
