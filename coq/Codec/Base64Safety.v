(* C06: the corrected base64_decode_block never reads outside its input. *)
From GmVerif Require Import Base.Bytes Codec.Der Codec.Base64.
Lemma decode_block_m_fixed_nofault f n : decode_block_m Fixed f n <> Fault.
Proof. unfold decode_block_m. cbn [fx_b64_ws Fixed]. destruct (decode_block f n); discriminate. Qed.
