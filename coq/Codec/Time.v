(* Impl model of asn1_time_to_str / asn1_time_from_str and the UTCTime / GeneralizedTime
   DER wrappers (src/asn1.c).  time_t values are modelled for t >= 0 (and the "absent"
   marker -1 in the DER wrappers); the C code does not guard negative values. *)
From GmVerif Require Import Base.Bytes Codec.Der.
Local Open Scope N_scope.

Definition is_leap (y : N) : bool :=
  ((y mod 4 =? 0) && negb (y mod 100 =? 0)) || (y mod 400 =? 0).
Definition ylen (y : N) : N := if is_leap y then 366 else 365.
Definition mdays (leap : bool) (m : N) : N :=
  nth (N.to_nat m) [0; 31; if leap then 29 else 28; 31; 30; 31; 30; 31; 31; 30; 31; 30; 31] 0.

(* for (year = 1970; year <= max_year; year++) { if (day < ylen) break; day -= ylen; } *)
Fixpoint year_loop (fuel : nat) (maxy year day : N) : option (N * N) :=
  match fuel with
  | O => None
  | S f =>
      if maxy <? year then None
      else if day <? ylen year then Some (year, day)
      else year_loop f maxy (year + 1) (day - ylen year)
  end.
(* for (month = 1; month <= 12; month++) { if (day <= dpm[month]) break; day -= dpm[month]; } *)
Fixpoint month_loop (fuel : nat) (leap : bool) (month day : N) : N * N :=
  match fuel with
  | O => (month, day)
  | S f =>
      if 12 <? month then (month, day)
      else if day <=? mdays leap month then (month, day)
      else month_loop f leap (month + 1) (day - mdays leap month)
  end.

Definition dig (v : N) : N := 48 + v.          (* '0' + v as a C char (v <= 9 on every path proved) *)
Definition two (v : N) : list N := [dig (v / 10); dig (v mod 10)].

Definition max_year (utc : bool) : N := if utc then 2050 else 9999.

(* None = return -1 *)
Definition time_to_str (utc : bool) (t : N) : option (list N) :=
  let day := t / 86400 in
  let second := t mod 86400 in
  match year_loop (N.to_nat (max_year utc - 1970 + 2)) (max_year utc) 1970 day with
  | None => None
  | Some (year, d) =>
      let '(month, dd) := month_loop 13 (is_leap year) 1 (d + 1) in
      let hour := second / 3600 in
      let s1 := second mod 3600 in
      let minute := s1 / 60 in
      let sec := s1 mod 60 in
      Some ((if utc then [] else [dig ((year / 100) / 10); dig ((year / 100) mod 10)])
            ++ two (year mod 100) ++ two month ++ two dd ++ two hour ++ two minute ++ two sec ++ [90])
  end.

Definition is_digit (c : N) : bool := (48 <=? c) && (c <=? 57).
Fixpoint check_digits (n : nat) (s : list N) : res unit :=
  match n with
  | O => match s with [] => Fault | c :: _ => if c =? 90 then Ok tt else Err end
  | S k => match s with [] => Fault | c :: r => if is_digit c then check_digits k r else Err end
  end.

Fixpoint days_before_year (n : nat) (year : N) : N :=     (* while (year-- > 1970) day += ylen(year) *)
  match n with
  | O => 0
  | S k => ylen (year - 1) + days_before_year k (year - 1)
  end.
Fixpoint days_before_month (n : nat) (leap : bool) (month : N) : N :=   (* while (month-- > 1) *)
  match n with
  | O => 0
  | S k => mdays leap (month - 1) + days_before_month k leap (month - 1)
  end.

Definition v2 (a b : N) : N := (a - 48) * 10 + (b - 48).

Definition time_from_str (utc : bool) (str : list N) : res N :=
  match check_digits (if utc then 12 else 14) str with
  | Ok _ =>
      let '(year, p) :=
        match utc, str with
        | true, a :: b :: r => (let y := v2 a b in if y <=? 50 then y + 2000 else y + 1900, r)
        | false, a :: b :: c :: d :: r => (v2 a b * 100 + v2 c d, r)
        | _, _ => (0, [])
        end in
      match p with
      | m1 :: m2 :: d1 :: d2 :: h1 :: h2 :: n1 :: n2 :: s1 :: s2 :: _ =>
          let month := v2 m1 m2 in let day := v2 d1 d2 in let hour := v2 h1 h2 in
          let minute := v2 n1 n2 in let second := v2 s1 s2 in
          let leap := is_leap year in
          if (year <? 1970) || (month <? 1) || (12 <? month) || (day <? 1)
             || (mdays leap month <? day) || (23 <? hour) || (59 <? minute) || (59 <? second)
          then Err
          else
            let days := (day - 1) + days_before_year (N.to_nat (year - 1970)) year
                        + days_before_month (N.to_nat (month - 1)) leap month in
            Ok (days * 86400 + hour * 3600 + minute * 60 + second)
      | _ => Fault
      end
  | Fault => Fault
  | _ => Err
  end.

(* DER wrappers; t = None is the C value -1 ("absent") *)
Definition time_to_der (utc : bool) (tag : N) (t : option N) : res (list N) :=
  match t with
  | None => Absent
  | Some t =>
      match time_to_str utc t with
      | None => Err
      | Some s => Ok (tag :: len_enc (if utc then 13 else 15) ++ s)
      end
  end.
Definition time_size (utc : bool) (t : option N) : N :=
  match t with
  | None => 0
  | Some t => match time_to_str utc t with None => 0 | Some _ => 1 + len_sz (if utc then 13 else 15) + (if utc then 13 else 15) end
  end.

Definition time_from_der (utc : bool) (tag : N) (inp : list N) : res (N * list N) :=
  match inp with
  | [] => Absent
  | t :: r0 =>
      if negb (t =? tag) then Absent
      else match len_from_der r0 with
           | Ok (l, r) =>
               if l =? (if utc then 13 else 15) then
                 match time_from_str utc (takeN l r) with
                 | Ok v => Ok (v, dropN l r)
                 | Fault => Fault
                 | _ => Err
                 end
               else Err
           | Fault => Fault
           | _ => Err
           end
  end.

(* ------------------------------------------------------------------ signed time_t
   time_t is signed.  The text of asn1_time_to_str has no test for a negative time stamp (other than the
   marker -1 of the DER wrappers): C division truncates toward zero, the year loop stops at once in 1970,
   and every field is added to '0' as it is - a 13/15-byte string with characters below '0' and return 1,
   which the decoder of the same file refuses.  [fixed = true]: negative time stamps are refused (-1). *)
Definition cbyte (z : Z) : N := Z.to_N (z mod 256).
Definition time_to_str_neg_asis (utc : bool) (t : Z) : list N :=
  let day := (Z.quot t 86400 + 1)%Z in
  let second := Z.rem t 86400 in
  let hour := Z.quot second 3600 in
  let s1 := Z.rem second 3600 in
  let minute := Z.quot s1 60 in
  let sec := Z.rem s1 60 in
  let d (v : Z) := cbyte (48 + v) in
  (if utc then [] else [d 1%Z; d 9%Z])
  ++ [d 7%Z; d 0%Z; d 0%Z; d 1%Z; d (Z.quot day 10); d (Z.rem day 10); d (Z.quot hour 10); d (Z.rem hour 10);
      d (Z.quot minute 10); d (Z.rem minute 10); d (Z.quot sec 10); d (Z.rem sec 10); 90].
Definition time_to_str_z (fixed utc : bool) (t : Z) : option (list N) :=
  if (t <? 0)%Z then (if fixed then None else Some (time_to_str_neg_asis utc t)) else time_to_str utc (Z.to_N t).
Definition time_to_der_z (fixed utc : bool) (tag : N) (t : Z) : res (list N) :=
  if (t =? -1)%Z then Absent
  else match time_to_str_z fixed utc t with
       | None => Err
       | Some s => Ok (tag :: len_enc (if utc then 13 else 15) ++ s)
       end.
