(* Proofs about the hex decoder model (Codec/Hex.v). *)
From GmVerif Require Import Base.ListX Base.Bytes Codec.Der Codec.DerProofs Codec.Hex.
From Coq Require Import ZifyN ZifyNat ZifyBool.
Ltac Zify.zify_post_hook ::= Z.div_mod_to_equations.
Local Open Scope N_scope.

Lemma hexdigit_inv up v : v < 16 -> hexchar2int (hexdigit up v) = Some v.
Proof.
  intros H. destruct up.
  - pose proof (sweep_lt (fun v => match hexchar2int (hexdigit true v) with Some x => x =? v | None => false end) 16 eq_refl v H) as E.
    cbv beta in E. destruct (hexchar2int (hexdigit true v)); [apply N.eqb_eq in E; subst; reflexivity|discriminate].
  - pose proof (sweep_lt (fun v => match hexchar2int (hexdigit false v) with Some x => x =? v | None => false end) 16 eq_refl v H) as E.
    cbv beta in E. destruct (hexchar2int (hexdigit false v)); [apply N.eqb_eq in E; subst; reflexivity|discriminate].
Qed.

Lemma hexchar2int_lt c v : hexchar2int c = Some v -> v < 16.
Proof.
  unfold hexchar2int.
  destruct ((48 <=? c) && (c <=? 57)) eqn:E1; [intros H; injection H as <-; lia|].
  destruct ((97 <=? c) && (c <=? 102)) eqn:E2; [intros H; injection H as <-; lia|].
  destruct ((65 <=? c) && (c <=? 70)) eqn:E3; [intros H; injection H as <-; lia|discriminate].
Qed.

Lemma hex_enc_len up bs : len (hex_enc up bs) = 2 * len bs.
Proof. induction bs; cbn [hex_enc]; [reflexivity|]. rewrite !len_cons, IHbs. lia. Qed.

Lemma hex2bin_enc up bs : bytes_okP bs -> hex2bin (hex_enc up bs) = Ok bs.
Proof.
  induction 1 as [|b bs Hb _ IH]; [reflexivity|].
  cbn [hex_enc hex2bin].
  rewrite hexdigit_inv by (apply N.div_lt_upper_bound; lia).
  rewrite hexdigit_inv by (apply N.mod_lt; lia). rewrite IH.
  f_equal. f_equal. rewrite N.mod_small by (pose proof (N.div_mod b 16); lia). pose proof (N.div_mod b 16). lia.
Qed.

Theorem hex_roundtrip up bs : bytes_okP bs -> hex_to_bytes Fixed (hex_enc up bs) = Ok bs.
Proof.
  intros H. unfold hex_to_bytes. rewrite hex_enc_len.
  replace (N.odd (2 * len bs)) with false by (symmetry; rewrite N.odd_mul; reflexivity).
  apply hex2bin_enc. exact H.
Qed.

(* only complete pairs of hex digits are accepted, and the output is the digit pairs' values *)
Lemma hex2bin_sound t bs : hex2bin t = Ok bs ->
  len t = 2 * len bs /\ Forall (fun c => hexchar2int c <> None) t /\ bytes_okP bs.
Proof.
  revert bs. induction t as [t IH] using (well_founded_induction (well_founded_ltof _ (@length N))).
  intros bs. destruct t as [|a [|b r]]; cbn [hex2bin].
  - intros H; injection H as <-. repeat split; constructor.
  - discriminate.
  - destruct (hexchar2int a) as [h|] eqn:Ea; [|discriminate]. destruct (hexchar2int b) as [l|] eqn:Eb; [|discriminate].
    destruct (hex2bin r) as [o| | |] eqn:Er; try discriminate. intros H; injection H as <-.
    destruct (IH r ltac:(unfold ltof; cbn; lia) o Er) as (L & F & B).
    apply hexchar2int_lt in Ea as La. apply hexchar2int_lt in Eb as Lb.
    repeat split.
    + rewrite !len_cons, L. lia.
    + constructor; [congruence|]. constructor; [congruence|exact F].
    + constructor; [|exact B]. rewrite N.mod_small by lia. lia.
Qed.
Theorem hex_decode_sound t bs : hex_to_bytes Fixed t = Ok bs ->
  len t = 2 * len bs /\ Forall (fun c => hexchar2int c <> None) t.
Proof.
  unfold hex_to_bytes. destruct (N.odd (len t)); [cbn; discriminate|].
  intros H. apply hex2bin_sound in H. tauto.
Qed.

(* lower-case texts are canonical: an accepted text without upper-case digits is the printer's output *)
Lemma hex2bin_nofault t : N.even (len t) = true -> hex2bin t <> Fault.
Proof.
  induction t as [t IH] using (well_founded_induction (well_founded_ltof _ (@length N))).
  destruct t as [|a [|b r]]; cbn [hex2bin]; intros E.
  - discriminate.
  - cbn in E. discriminate.
  - destruct (hexchar2int a); [|discriminate]. destruct (hexchar2int b); [|discriminate].
    assert (E' : N.even (len r) = true).
    { rewrite !len_cons in E. replace (1 + (1 + len r)) with (len r + 2 * 1) in E by lia. rewrite N.even_add_mul_2 in E. exact E. }
    pose proof (IH r ltac:(unfold ltof; cbn; lia) E'). destruct (hex2bin r); congruence.
Qed.
Theorem hex_to_bytes_fixed_nofault t : hex_to_bytes Fixed t <> Fault.
Proof.
  unfold hex_to_bytes. destruct (N.odd (len t)) eqn:E; [cbn; discriminate|].
  apply hex2bin_nofault. rewrite <- N.negb_odd, E. reflexivity.
Qed.
(* bytes stored into out[] never exceed inlen / 2, also on the error paths *)
Theorem hex_written_le t : hex_written t <= len t / 2.
Proof.
  induction t as [t IH] using (well_founded_induction (well_founded_ltof _ (@length N))).
  destruct t as [|a [|b r]]; cbn [hex_written]; try (cbn; lia).
  rewrite !len_cons. specialize (IH r ltac:(unfold ltof; cbn; lia)).
  destruct (hexchar2int a); [|lia]. destruct (hexchar2int b); lia.
Qed.
(* the defect of the pinned tree: an odd-length text without NUL is printed with %s *)
Example hex_odd_asis_faults : hex_to_bytes AsIs [48; 49; 50] = Fault /\ hex_to_bytes Fixed [48; 49; 50] = Err.
Proof. split; reflexivity. Qed.
