(* Impl models of the composite DER objects built from the primitives of Codec/Der.v:
   algorithm identifiers (src/x509_alg.c, src/ec.c), PBKDF2 / PBES2 / EncryptedPrivateKeyInfo
   (src/pkcs8.c), SM2 public / private keys and PrivateKeyInfo, opening a password-encrypted key
   (src/sm2_key.c), SM2 ciphertext (src/sm2_enc.c).

   Every decoder returns ALL its out-parameters: where the C text leaves one to an "absent"
   convention the model names the value that must be stored (-1 / NULL), and the harness
   pre-fills every out-parameter with a poison value and prints it, so "left unset" shows up
   as a disagreement.  Object identifiers are numbered locally (the harness translates the
   library's enum):  -1 absent, 0 undef, 1 sm2, 2 prime192v1, 3 prime256v1, 4 secp256k1,
   5 secp384r1, 6 secp521r1, 10 ecPublicKey, 11 rsaEncryption, 20 sm4-cbc, 21/22/23
   aes128/192/256-cbc, 30 hmac-sm3.  Curve arithmetic, PBKDF2 and SM4-CBC are parameters of
   the models ([pub_of], [pt_ok], [kdf], [cbcdec]). *)
From GmVerif Require Import Base.Bytes Codec.Der.
Local Open Scope N_scope.

Definition m := Fixed.

(* ------------------------------------------------------------------ OID tables *)
Definition oid_tab := list (Z * list N).
Fixpoint list_eqb (a b : list N) : bool :=
  match a, b with
  | [], [] => true
  | x :: a', y :: b' => (x =? y) && list_eqb a' b'
  | _, _ => false
  end.
Fixpoint nodes_of (tab : oid_tab) (id : Z) : option (list N) :=
  match tab with
  | [] => None
  | (i, ns) :: r => if (i =? id)%Z then Some ns else nodes_of r id
  end.
Fixpoint id_of (tab : oid_tab) (ns : list N) : option Z :=
  match tab with
  | [] => None
  | (i, n) :: r => if list_eqb n ns then Some i else id_of r ns
  end.

Definition curves : oid_tab :=
  [(1%Z, [1;2;156;10197;1;301]); (2%Z, [1;2;840;10045;3;1;1]); (3%Z, [1;2;840;10045;3;1;7]);
   (4%Z, [1;3;132;0;10]); (5%Z, [1;3;132;0;34]); (6%Z, [1;3;132;0;35])].
Definition pk_algors : oid_tab := [(10%Z, [1;2;840;10045;2;1]); (11%Z, [1;2;840;113549;1;1;1])].
Definition enc_algors : oid_tab :=
  [(20%Z, [1;2;156;10197;1;104;2]); (21%Z, [2;16;840;1;101;3;4;1;2]); (22%Z, [2;16;840;1;101;3;4;1;22]);
   (23%Z, [2;16;840;1;101;3;4;1;42])].
Definition oid_hmac_sm3 : list N := [1;2;156;10197;1;401;2].
Definition oid_pbkdf2 : list N := [1;2;840;113549;1;5;12].
Definition oid_pbes2 : list N := [1;2;840;113549;1;5;13].

(* asn1_oid_info_from_der: 0 when the next element is no OID, -1 for an OID outside the table *)
Definition oid_info_from_der (tab : oid_tab) (inp : list N) : res (Z * list N) :=
  match oid_from_der m 32 6 inp with
  | Ok (ns, r) => match id_of tab ns with Some id => Ok (id, r) | None => Err end
  | Absent => Absent
  | Err => Err
  | Fault => Fault
  end.
Definition oid_enc (ns : list N) : res (list N) := oid_to_der m 6 (Some ns).
(* asn1_object_identifier_from_der + asn1_object_identifier_equ against one fixed OID *)
Definition oid_expect (ns : list N) (inp : list N) : res (list N) :=
  match oid_from_der m 32 6 inp with
  | Ok (got, r) => if list_eqb got ns then Ok r else Err
  | Fault => Fault
  | _ => Err
  end.

Definition seq_enc (body : list N) : list N := 48 :: len_enc (len body) ++ body.
Definition is_nil {A} (l : list A) : bool := match l with [] => true | _ => false end.
Definition bind_ok {A B} (r : res A) (f : A -> res B) : res B :=      (* "x != 1 => error" *)
  match r with Ok a => f a | Fault => Fault | _ => Err end.

(* ------------------------------------------------------------------ named curve, AlgorithmIdentifiers *)
Definition curve_to_der (id : Z) : res (list N) :=
  match nodes_of curves id with Some ns => oid_enc ns | None => Err end.
Definition curve_from_der (inp : list N) : res (Z * list N) := oid_info_from_der curves inp.

(* x509_public_key_algor_to_der / from_der; second component: curve id, or the status of NULL *)
Definition pk_algor_to_der (id par : Z) : res (list N) :=
  if (id =? 10)%Z then
    bind_ok (oid_enc [1;2;840;10045;2;1]) (fun o => bind_ok (curve_to_der par) (fun c => Ok (seq_enc (o ++ c))))
  else if (id =? 11)%Z then
    bind_ok (oid_enc [1;2;840;113549;1;1;1]) (fun o => Ok (seq_enc (o ++ null_to_der)))
  else Err.
Definition pk_algor_from_der (inp : list N) : res (Z * Z * list N) :=
  match type_from_der 48 inp with
  | Ok (d, rest) =>
      bind_ok (oid_info_from_der pk_algors d) (fun '(id, d1) =>
        if (id =? 10)%Z then
          bind_ok (curve_from_der d1) (fun '(c, d2) => if is_nil d2 then Ok (id, c, rest) else Err)
        else
          match null_from_der d1 with
          | Ok d2 => if is_nil d2 then Ok (id, 1%Z, rest) else Err
          | Absent => if is_nil d1 then Ok (id, 0%Z, rest) else Err
          | Fault => Fault
          | Err => Err
          end)
  | Absent => Absent
  | Err => Err
  | Fault => Fault
  end.
Definition sm2_algor_to_der : res (list N) := pk_algor_to_der 10 1.
Definition sm2_algor_from_der (inp : list N) : res (list N) :=
  match pk_algor_from_der inp with
  | Ok (id, c, rest) => if (id =? 10)%Z && (c =? 1)%Z then Ok rest else Err
  | Absent => Absent
  | Err => Err
  | Fault => Fault
  end.

(* x509_encryption_algor_to_der / from_der: SEQUENCE { OID, OCTET STRING iv } , iv of 16 bytes *)
Definition enc_algor_to_der (id : Z) (iv : list N) : res (list N) :=
  match nodes_of enc_algors id with
  | Some ns => bind_ok (oid_enc ns) (fun o => Ok (seq_enc (o ++ 4 :: len_enc (len iv) ++ iv)))
  | None => Err
  end.
Definition enc_algor_from_der (inp : list N) : res (Z * list N * list N) :=
  match type_from_der 48 inp with
  | Ok (d, rest) =>
      bind_ok (oid_info_from_der enc_algors d) (fun '(id, d1) =>
      bind_ok (type_from_der 4 d1) (fun '(iv, d2) =>
        if negb (is_nil d2) then Err
        else if negb (len iv =? 16) then Err
        else Ok (id, iv, rest)))
  | Absent => Absent
  | Err => Err
  | Fault => Fault
  end.

(* ------------------------------------------------------------------ PBKDF2-params *)
Definition prf_to_der (prf : Z) : res (list N) :=
  if (prf =? -1)%Z then Absent
  else if negb (prf =? 30)%Z then Err
  else bind_ok (oid_enc oid_hmac_sm3) (fun o => Ok (seq_enc o)).
(* returns the value stored in *oid: 30, or -1 when the optional field is absent *)
Definition prf_from_der (inp : list N) : res (Z * list N) :=
  match type_from_der 48 inp with
  | Ok (d, rest) => bind_ok (oid_expect oid_hmac_sm3 d) (fun d1 => if is_nil d1 then Ok (30%Z, rest) else Err)
  | Absent => Ok ((-1)%Z, inp)
  | Err => Err
  | Fault => Fault
  end.

Definition opt_enc (r : res (list N)) : res (list N) :=     (* "x < 0 => error": absent contributes nothing *)
  match r with Absent => Ok [] | x => x end.

Definition pbkdf2_params_to_der (salt : list N) (iter keylen prf : Z) : res (list N) :=
  bind_ok (int_to_der 2 iter) (fun ei =>
  bind_ok (opt_enc (int_to_der 2 keylen)) (fun ek =>
  bind_ok (opt_enc (prf_to_der prf)) (fun ep =>
    Ok (seq_enc ((4 :: len_enc (len salt) ++ salt) ++ ei ++ ek ++ ep))))).

Definition opt_int_from_der (inp : list N) : res (Z * list N) :=   (* asn1_int_from_der(..) < 0 *)
  match int_from_der m 2 inp with
  | Ok (v, r) => Ok (Z.of_N v, r)
  | Absent => Ok ((-1)%Z, inp)
  | Err => Err
  | Fault => Fault
  end.

Definition pbkdf2_params_from_der (inp : list N) : res (list N * Z * Z * Z * list N) :=
  match type_from_der 48 inp with
  | Ok (d, rest) =>
      bind_ok (type_from_der 4 d) (fun '(salt, d1) =>
      bind_ok (int_from_der m 2 d1) (fun '(iter, d2) =>
      bind_ok (opt_int_from_der d2) (fun '(keylen, d3) =>
      bind_ok (prf_from_der d3) (fun '(prf, d4) =>
        if len salt =? 0 then Err
        else if iter =? 0 then Err
        else if negb (is_nil d4) then Err
        else Ok (salt, Z.of_N iter, keylen, prf, rest)))))
  | Absent => Absent
  | Err => Err
  | Fault => Fault
  end.

Definition pbkdf2_algor_to_der (salt : list N) (iter keylen prf : Z) : res (list N) :=
  bind_ok (oid_enc oid_pbkdf2) (fun o =>
  bind_ok (pbkdf2_params_to_der salt iter keylen prf) (fun p => Ok (seq_enc (o ++ p)))).
Definition pbkdf2_algor_from_der (inp : list N) : res (list N * Z * Z * Z * list N) :=
  match type_from_der 48 inp with
  | Ok (d, rest) =>
      bind_ok (oid_expect oid_pbkdf2 d) (fun d1 =>
      bind_ok (pbkdf2_params_from_der d1) (fun '(salt, iter, keylen, prf, d2) =>
        if is_nil d2 then Ok (salt, iter, keylen, prf, rest) else Err))
  | Absent => Absent
  | Err => Err
  | Fault => Fault
  end.

(* ------------------------------------------------------------------ PBES2, EncryptedPrivateKeyInfo *)
Definition pbes2_enc_algor_to_der (id : Z) (iv : list N) : res (list N) :=
  if negb (id =? 20)%Z then Err else enc_algor_to_der id iv.
Definition pbes2_enc_algor_from_der (inp : list N) : res (Z * list N * list N) :=
  match enc_algor_from_der inp with
  | Ok (id, iv, rest) => if (id =? 20)%Z then Ok (id, iv, rest) else Err
  | x => x
  end.

Record pbes2 : Type := { p_salt : list N; p_iter : Z; p_keylen : Z; p_prf : Z; p_cipher : Z; p_iv : list N }.

Definition pbes2_params_to_der (p : pbes2) : res (list N) :=
  bind_ok (pbkdf2_algor_to_der (p_salt p) (p_iter p) (p_keylen p) (p_prf p)) (fun k =>
  bind_ok (pbes2_enc_algor_to_der (p_cipher p) (p_iv p)) (fun e => Ok (seq_enc (k ++ e)))).
Definition pbes2_params_from_der (inp : list N) : res (pbes2 * list N) :=
  match type_from_der 48 inp with
  | Ok (d, rest) =>
      bind_ok (pbkdf2_algor_from_der d) (fun '(salt, iter, keylen, prf, d1) =>
      bind_ok (pbes2_enc_algor_from_der d1) (fun '(id, iv, d2) =>
        if is_nil d2 then Ok (Build_pbes2 salt iter keylen prf id iv, rest) else Err))
  | Absent => Absent
  | Err => Err
  | Fault => Fault
  end.
Definition pbes2_algor_to_der (p : pbes2) : res (list N) :=
  bind_ok (oid_enc oid_pbes2) (fun o => bind_ok (pbes2_params_to_der p) (fun q => Ok (seq_enc (o ++ q)))).
Definition pbes2_algor_from_der (inp : list N) : res (pbes2 * list N) :=
  match type_from_der 48 inp with
  | Ok (d, rest) =>
      bind_ok (oid_expect oid_pbes2 d) (fun d1 =>
      bind_ok (pbes2_params_from_der d1) (fun '(p, d2) => if is_nil d2 then Ok (p, rest) else Err))
  | Absent => Absent
  | Err => Err
  | Fault => Fault
  end.

Definition p8e_to_der (p : pbes2) (enced : list N) : res (list N) :=
  bind_ok (pbes2_algor_to_der p) (fun a => Ok (seq_enc (a ++ 4 :: len_enc (len enced) ++ enced))).
Definition p8e_from_der (inp : list N) : res (pbes2 * list N * list N) :=
  match type_from_der 48 inp with
  | Ok (d, rest) =>
      bind_ok (pbes2_algor_from_der d) (fun '(p, d1) =>
      bind_ok (type_from_der 4 d1) (fun '(enced, d2) => if is_nil d2 then Ok (p, enced, rest) else Err))
  | Absent => Absent
  | Err => Err
  | Fault => Fault
  end.

(* ------------------------------------------------------------------ SM2 ciphertext *)
Definition sm2_ct_to_der (x y hash c : list N) : res (list N) :=
  bind_ok (integer_to_der 2 (Some x)) (fun ex =>
  bind_ok (integer_to_der 2 (Some y)) (fun ey =>
    Ok (seq_enc (ex ++ ey ++ (4 :: len_enc (len hash) ++ hash) ++ (4 :: len_enc (len c) ++ c))))).
Definition sm2_ct_from_der (inp : list N) : res (list N * list N * list N * list N * list N) :=
  match type_from_der 48 inp with
  | Ok (d, rest) =>
      bind_ok (integer_from_der 2 d) (fun '(x, d1) => if 32 <? len x then Err else
      bind_ok (integer_from_der 2 d1) (fun '(y, d2) => if 32 <? len y then Err else
      bind_ok (type_from_der 4 d2) (fun '(h, d3) => if negb (len h =? 32) then Err else
      bind_ok (type_from_der 4 d3) (fun '(c, d4) =>
        if 255 <? len c then Err
        else if negb (is_nil d4) then Err
        else Ok (pad32 x, pad32 y, h, c, rest)))))
  | Absent => Absent
  | Err => Err
  | Fault => Fault
  end.

(* ------------------------------------------------------------------ SM2 keys *)
Definition sm2_n : N := 0xFFFFFFFEFFFFFFFFFFFFFFFFFFFFFFFF7203DF6B21C6052B53BBF40939D54123.

Record sm2_key : Type := { k_priv : list N; k_pub : list N }.      (* SM2_KEY: private scalar (32 bytes), public point x || y *)

Section Keys.
  Variable pub_of : list N -> list N.      (* 32-byte d |-> the 64 bytes x || y of [d]G *)
  Variable pt_ok : list N -> bool.         (* 65 octets 04 || x || y: x, y < p, on the curve, not (0,0) *)

  (* sm2_public_key_to_der / from_der: BIT STRING of the 65 uncompressed octets *)
  Definition sm2_pub_to_der (xy : list N) : res (list N) := bit_octets_to_der 3 (Some (4 :: xy)).
  Definition sm2_pub_from_der (inp : list N) : res (list N * list N) :=
    match bit_octets_from_der m 3 inp with
    | Ok (d, rest) =>
        if negb (len d =? 65) then Err
        else if negb (nth 0 d 0 =? 4) then Err        (* 02/03 need 33 octets, everything else is refused *)
        else if negb (pt_ok d) then Err
        else Ok (dropN 1 d, rest)
    | Absent => Absent
    | Err => Err
    | Fault => Fault
    end.

  Definition sm2_pubinfo_to_der (xy : list N) : res (list N) :=
    bind_ok sm2_algor_to_der (fun a => bind_ok (sm2_pub_to_der xy) (fun k => Ok (seq_enc (a ++ k)))).
  Definition sm2_pubinfo_from_der (inp : list N) : res (list N * list N) :=
    match type_from_der 48 inp with
    | Ok (d, rest) =>
        bind_ok (sm2_algor_from_der d) (fun d1 =>
        bind_ok (sm2_pub_from_der d1) (fun '(xy, d2) => if is_nil d2 then Ok (xy, rest) else Err))
    | Absent => Absent
    | Err => Err
    | Fault => Fault
    end.

  (* sm2_key_set_private_key: 1 <= d <= n - 2 *)
  Definition d_ok (d : list N) : bool := negb (be_to_N d =? 0) && (be_to_N d <? sm2_n - 1).

  Definition explicit_enc (i : N) (body : list N) : res (list N) :=      (* asn1_explicit_to_der: non-empty *)
    if len body =? 0 then Err else Ok ((160 + i) :: len_enc (len body) ++ body).

  (* ECPrivateKey ::= SEQUENCE { 1, OCTET STRING d, [0] { curve }, [1] { BIT STRING pub } } *)
  Definition sm2_priv_to_der (d : list N) : res (list N) :=
    bind_ok (curve_to_der 1) (fun c =>
    bind_ok (sm2_pub_to_der (pub_of d)) (fun k =>
    bind_ok (int_to_der 2 1) (fun v =>
    bind_ok (explicit_enc 0 c) (fun e0 =>
    bind_ok (explicit_enc 1 k) (fun e1 =>
      Ok (seq_enc (v ++ (4 :: len_enc (len d) ++ d) ++ e0 ++ e1))))))).

  Definition sm2_priv_from_der (inp : list N) : res (list N * list N * list N) :=   (* d, public x||y, rest *)
    match type_from_der 48 inp with
    | Ok (body, rest) =>
        bind_ok (int_from_der m 2 body) (fun '(ver, b1) =>
        bind_ok (type_from_der 4 b1) (fun '(d, b2) =>
        bind_ok (nonempty_type_from_der 160 b2) (fun '(params, b3) =>
        bind_ok (nonempty_type_from_der 161 b3) (fun '(pk, b4) =>
          if negb (ver =? 1) then Err
          else if negb (is_nil b4) then Err
          else
            bind_ok (curve_from_der params) (fun '(c, p1) =>
              if negb (c =? 1)%Z then Err
              else if negb (is_nil p1) then Err
              else if negb (len d =? 32) then Err
              else if negb (d_ok d) then Err
              else
                bind_ok (sm2_pub_from_der pk) (fun '(xy, k1) =>
                  if negb (is_nil k1) then Err
                  else if negb (list_eqb xy (pub_of d)) then Err
                  else Ok (d, pub_of d, rest)))))))
    | Absent => Absent
    | Err => Err
    | Fault => Fault
    end.

  (* PrivateKeyInfo ::= SEQUENCE { 0, AlgorithmIdentifier, OCTET STRING ECPrivateKey, [0] attrs OPTIONAL } *)
  Definition sm2_p8_to_der (d : list N) : res (list N) :=
    bind_ok (sm2_priv_to_der d) (fun k =>
    bind_ok (int_to_der 2 0) (fun v =>
    bind_ok sm2_algor_to_der (fun a =>
      Ok (seq_enc (v ++ a ++ (4 :: len_enc (len k) ++ k)))))).

  (* d, public, attrs (None = NULL), rest *)
  Definition sm2_p8_from_der (inp : list N) : res (list N * list N * option (list N) * list N) :=
    match type_from_der 48 inp with
    | Ok (body, rest) =>
        bind_ok (int_from_der m 2 body) (fun '(ver, b1) =>
        bind_ok (sm2_algor_from_der b1) (fun b2 =>
        bind_ok (type_from_der 4 b2) (fun '(k, b3) =>
          let attrs_r := match type_from_der 160 b3 with
                         | Ok (a, b4) => Ok (Some a, b4)
                         | Absent => Ok (None, b3)
                         | Err => Err
                         | Fault => Fault
                         end in
          bind_ok attrs_r (fun '(attrs, b4) =>
            if negb (is_nil b4) then Err
            else if negb (ver =? 0) then Err
            else bind_ok (sm2_priv_from_der k) (fun '(d, pub, k1) =>
                   if is_nil k1 then Ok (d, pub, attrs, rest) else Err)))))
    | Absent => Absent
    | Err => Err
    | Fault => Fault
    end.

  (* ---------------------------------------------------------------- opening an encrypted key *)
  Variable kdf : list N -> list N -> Z -> list N.               (* sm3_pbkdf2(pass, salt, iter, 16) *)
  Variable cbcdec : list N -> list N -> list N -> option (list N).   (* sm4_cbc_padding_decrypt key iv c *)

  Definition sm2_p8_open (pass : list N) (inp : list N)
    : res (list N * list N * option (list N) * list N) :=
    match p8e_from_der inp with
    | Ok (p, enced, rest) =>
        if negb ((p_keylen p =? -1)%Z || (p_keylen p =? 16)%Z) then Err
        else if negb ((p_prf p =? -1)%Z || (p_prf p =? 30)%Z) then Err
        else if negb (p_cipher p =? 20)%Z then Err
        else if negb (len (p_iv p) =? 16) then Err
        else if 256 <? len enced then Err
        else
          match cbcdec (kdf pass (p_salt p) (p_iter p)) (p_iv p) enced with
          | None => Err
          | Some pt =>
              bind_ok (sm2_p8_from_der pt) (fun '(d, pub, attrs, r1) =>
                if is_nil r1 then Ok (d, pub, attrs, rest) else Err)
          end
    | Fault => Fault
    | _ => Err                            (* "!= 1": an absent SEQUENCE is an error here *)
    end.
  (* ---------------------------------------------------------------- the WHOLE target object
     An SM2_KEY has two fields.  A decoder that succeeds determines both, whatever the caller's
     object held before: a public-key decoder stores the point and the private scalar 0
     (sm2_z256_set_zero(key->private_key)), a private-key decoder stores d and [d]G. *)
  Definition sm2_pubkey_from_der (inp : list N) : res (sm2_key * list N) :=
    match sm2_pub_from_der inp with
    | Ok (xy, rest) => Ok ({| k_priv := zeros 32; k_pub := xy |}, rest)
    | Absent => Absent | Err => Err | Fault => Fault
    end.
  Definition sm2_pubkeyinfo_from_der (inp : list N) : res (sm2_key * list N) :=
    match sm2_pubinfo_from_der inp with
    | Ok (xy, rest) => Ok ({| k_priv := zeros 32; k_pub := xy |}, rest)
    | Absent => Absent | Err => Err | Fault => Fault
    end.
  Definition sm2_privkey_from_der (inp : list N) : res (sm2_key * list N) :=
    match sm2_priv_from_der inp with
    | Ok (d, pub, rest) => Ok ({| k_priv := d; k_pub := pub |}, rest)
    | Absent => Absent | Err => Err | Fault => Fault
    end.

  (* sm2_private_key_info_decrypt_from_der as an interface: the attributes of the decrypted
     PrivateKeyInfo lie in the function's local plaintext buffer, which is cleared on return, so
     the call reports none ( *attrs = NULL, *attrs_len = 0 ). *)
  Definition sm2_p8_open_c (pass : list N) (inp : list N)
    : res (list N * list N * option (list N) * list N) :=
    match sm2_p8_open pass inp with
    | Ok (d, pub, _, rest) => Ok (d, pub, None, rest)
    | x => x
    end.
End Keys.
