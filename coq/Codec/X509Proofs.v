(* Proofs about Codec/X509.v: no decoder reaches Fault (hence: every loop terminates within its fuel,
   every read stays inside the buffer it was given), the ExtKeyUsage capacity, and the shape facts used
   by Props/Properties_C06.v. *)
From GmVerif Require Import Base.Bytes Codec.Der Codec.DerProofs Codec.SafetyProofs Codec.Time Codec.TimeProofs
  Codec.Pkcs Codec.PkcsProofs Codec.OidTables Codec.X509.
From Coq Require Import Lia ZArith List ZifyN ZifyNat ZifyBool.
Import ListNotations.
Local Open Scope N_scope.
Ltac Zify.zify_post_hook ::= Z.div_mod_to_equations.

(* ------------------------------------------------------------------ 1. consumption *)
Definition shrinks {A} (step : list N -> res (A * list N)) : Prop :=
  forall d a r, step d = Ok (a, r) -> (length r < length d)%nat.

Lemma type_from_der_shrinks tag : shrinks (type_from_der tag).
Proof.
  intros d a r H. apply type_from_der_inv in H.
  destruct H as (r0 & l & r' & -> & HL & _ & -> & _ & _).
  apply len_from_der_suffix in HL. destruct HL as (pre & -> & _).
  unfold dropN. cbn [length]. rewrite app_length. pose proof (skipn_length (N.to_nat l) r'). lia.
Qed.
Lemma nonempty_type_from_der_shrinks tag : shrinks (nonempty_type_from_der tag).
Proof.
  intros d a r. unfold nonempty_type_from_der. destruct (type_from_der tag d) as [[x y]| | |] eqn:E; try discriminate.
  destruct (len x =? 0); [discriminate|]. intros H. injection H as <- <-. exact (type_from_der_shrinks _ _ _ _ E).
Qed.
Lemma any_type_from_der_shrinks d t a r : any_type_from_der d = Ok (t, a, r) -> (length r < length d)%nat.
Proof.
  destruct d as [|b d']; cbn [any_type_from_der]; [discriminate|].
  destruct (len_from_der d') as [[l r']| | |] eqn:E; try discriminate.
  intros H. injection H as _ _ <-. apply len_from_der_suffix in E. destruct E as (pre & -> & _).
  unfold dropN. cbn [length]. rewrite app_length. pose proof (skipn_length (N.to_nat l) r'). lia.
Qed.
Lemma tlv_dec_shrinks {A} (r : list N -> res (list N * list N)) (f : list N -> res A) :
  shrinks r -> shrinks (fun d => tlv_dec (r d) f).
Proof.
  intros Hr d a rest. unfold tlv_dec. destruct (r d) as [[x y]| | |] eqn:E; try discriminate.
  destruct (f x); try discriminate. intros H. injection H as _ <-. exact (Hr _ _ _ E).
Qed.
Lemma seq_dec_shrinks {A} (f : list N -> res A) : shrinks (fun d => seq_dec d f).
Proof. apply (tlv_dec_shrinks (type_from_der 48)). apply type_from_der_shrinks. Qed.

(* ------------------------------------------------------------------ 2. the loops never run out of fuel *)
Lemma find_loop_nofault {A} (step : list N -> res (A * list N)) hit :
  (forall d, step d <> Fault) -> shrinks step ->
  forall fuel d, (length d <= fuel)%nat -> find_loop fuel step hit d <> Fault.
Proof.
  intros NF SH. induction fuel as [|k IH]; intros d L.
  - destruct d; [discriminate|cbn in L; lia].
  - destruct d as [|b t]; [discriminate|]. cbn [find_loop].
    destruct (step (b :: t)) as [[a r]| | |] eqn:E; try discriminate.
    + destruct (hit a); [discriminate|]. apply IH. apply SH in E. lia.
    + exfalso. exact (NF _ E).
Qed.
Lemma fold_loop_nofault {A S} (step : list N -> res (A * list N)) (cont : S -> bool) upd :
  (forall d, step d <> Fault) -> shrinks step -> (forall s a, upd s a <> Fault) ->
  forall fuel s d, (length d <= fuel)%nat -> fold_loop fuel step cont upd s d <> Fault.
Proof.
  intros NF SH NU. induction fuel as [|k IH]; intros s d L.
  - destruct d; [discriminate|cbn in L; lia].
  - destruct d as [|b t]; [discriminate|]. cbn [fold_loop].
    destruct (negb (cont s)); [discriminate|].
    destruct (step (b :: t)) as [[a r]| | |] eqn:E; try discriminate.
    + destruct (upd s a) as [s'| | |] eqn:U; try discriminate.
      * apply IH. apply SH in E. lia.
      * exfalso. exact (NU _ _ U).
    + exfalso. exact (NF _ E).
Qed.

(* ------------------------------------------------------------------ 3. combinators *)
Lemma opt_nofault {A} (r : res (A * list N)) dflt inp : r <> Fault -> opt r dflt inp <> Fault.
Proof. destruct r; cbn; congruence. Qed.
Lemma tlv_dec_nofault {A} r (f : list N -> res A) : r <> Fault -> (forall d, f d <> Fault) -> tlv_dec r f <> Fault.
Proof. intros Hr Hf. unfold tlv_dec. destruct r as [[d rest]| | |]; try congruence. specialize (Hf d). destruct (f d); congruence. Qed.
Lemma seq_dec_nofault {A} inp (f : list N -> res A) : (forall d, f d <> Fault) -> seq_dec inp f <> Fault.
Proof. intros. apply tlv_dec_nofault; [apply type_from_der_nofault|assumption]. Qed.
Lemma at_end_nofault {A} d (v : A) : at_end d v <> Fault.
Proof. unfold at_end. destruct (is_nil d); discriminate. Qed.
Lemma as_ptr_nofault r : r <> Fault -> as_ptr r <> Fault.
Proof. destruct r as [[? ?]| | |]; cbn; congruence. Qed.
Lemma as_z_nofault r : r <> Fault -> as_z r <> Fault.
Proof. destruct r as [[? ?]| | |]; cbn; congruence. Qed.

(* ------------------------------------------------------------------ 4. no decoder reaches Fault *)
Lemma seq_of_int_m_nofault cap inp : seq_of_int_from_der m cap cap inp <> Fault.
Proof. pose proof (seq_of_int_from_der_fixed_safe cap cap inp (N.le_refl _)) as H. unfold m. intros E. rewrite E in H. exact H. Qed.
Lemma time_from_der_nf utc tag inp : time_from_der utc tag inp <> Fault.
Proof. apply time_from_der_nofault. Qed.

#[local] Hint Resolve type_from_der_nofault nonempty_type_from_der_nofault integer_from_der_nofault
  null_from_der_nofault oid_from_der_m_nofault int_from_der_m_nofault bit_octets_from_der_m_nofault
  oid_info_from_der_nofault any_type_from_der_nofault any_from_der_nofault boolean_from_der_nofault
  bits_from_der_nofault time_from_der_nf seq_of_int_m_nofault sm2_pubinfo_from_der_nofault : pkcs_nofault.

Ltac x509_nf :=
  repeat (cbv zeta; cbn [bind_ok];
    match goal with
    | |- Ok _ <> Fault => discriminate
    | |- Err <> Fault => discriminate
    | |- Absent <> Fault => discriminate
    | |- _ <> Fault => solve [auto with pkcs_nofault]
    | |- seq_dec _ _ <> Fault => apply seq_dec_nofault; intros ?
    | |- tlv_dec _ _ <> Fault => apply tlv_dec_nofault; [|intros ?]
    | |- opt _ _ _ <> Fault => apply opt_nofault
    | |- as_ptr _ <> Fault => apply as_ptr_nofault
    | |- as_z _ <> Fault => apply as_z_nofault
    | |- at_end _ _ <> Fault => apply at_end_nofault
    | |- bind_ok _ _ <> Fault => apply bind_ok_nofault; [|intros ?]
    | |- (if ?c then _ else _) <> Fault => destruct c
    | |- match ?x with _ => _ end <> Fault => is_var x; destruct x
    | |- match ?x with _ => _ end <> Fault =>
        let H := fresh in assert (H : x <> Fault) by (auto with pkcs_nofault); destruct x; [| | |congruence]
    | |- match ?x with _ => _ end <> Fault => destruct x
    end).

Lemma otype_nofault tag inp : otype tag inp <> Fault.            Proof. unfold otype. x509_nf. Qed.
Lemma ontype_nofault tag inp : ontype tag inp <> Fault.          Proof. unfold ontype. x509_nf. Qed.
Lemma oint_nofault tag inp : oint tag inp <> Fault.              Proof. unfold oint. x509_nf. Qed.
Lemma obits_nofault tag inp : obits tag inp <> Fault.            Proof. unfold obits. x509_nf. Qed.
Lemma obool_nofault tag inp : obool tag inp <> Fault.            Proof. unfold obool. x509_nf. Qed.
Lemma oid_info_ex_nofault tab inp : oid_info_ex tab inp <> Fault. Proof. unfold oid_info_ex. x509_nf. Qed.
#[local] Hint Resolve otype_nofault ontype_nofault oint_nofault obits_nofault obool_nofault oid_info_ex_nofault at_end_nofault : pkcs_nofault.

Lemma digest_algor_from_der_nofault fx inp : digest_algor_from_der fx inp <> Fault.
Proof. unfold digest_algor_from_der. x509_nf. Qed.
Lemma sign_algor_from_der_nofault inp : sign_algor_from_der inp <> Fault.
Proof. unfold sign_algor_from_der. x509_nf. Qed.
Lemma pke_algor_from_der_nofault inp : pke_algor_from_der inp <> Fault.
Proof. unfold pke_algor_from_der. x509_nf. Qed.
#[local] Hint Resolve digest_algor_from_der_nofault sign_algor_from_der_nofault pke_algor_from_der_nofault : pkcs_nofault.

Lemma ext_id_from_der_nofault inp : ext_id_from_der inp <> Fault.
Proof. unfold ext_id_from_der. x509_nf. Qed.
#[local] Hint Resolve ext_id_from_der_nofault : pkcs_nofault.
Lemma ext_from_der_nofault inp : ext_from_der inp <> Fault.
Proof. unfold ext_from_der. x509_nf. Qed.
Lemma ext_from_der_shrinks : shrinks ext_from_der.
Proof. unfold ext_from_der. apply seq_dec_shrinks. Qed.
Lemma exts_get_ext_by_oid_nofault d oid : exts_get_ext_by_oid d oid <> Fault.
Proof.
  unfold exts_get_ext_by_oid.
  pose proof (find_loop_nofault ext_from_der (fun '(id, _, _, _) => (id =? oid)%Z) ext_from_der_nofault ext_from_der_shrinks (length d) d (le_n _)) as H.
  destruct (find_loop _ _ _ d) as [[[[[[? ?] ?] ?] ?]|]| | |]; congruence.
Qed.

Lemma other_name_from_der_nofault inp : other_name_from_der inp <> Fault.
Proof. unfold other_name_from_der. x509_nf. Qed.
Lemma general_name_from_der_nofault inp : general_name_from_der inp <> Fault.
Proof. unfold general_name_from_der. x509_nf. Qed.
Lemma general_name_from_der_shrinks : shrinks general_name_from_der.
Proof.
  intros d [c v] r. unfold general_name_from_der. destruct (any_type_from_der d) as [[[t x] y]| | |] eqn:E; try discriminate.
  destruct (gn_choice t); [|discriminate]. intros H. injection H as _ _ <-. exact (any_type_from_der_shrinks _ _ _ _ E).
Qed.
#[local] Hint Resolve general_name_from_der_nofault : pkcs_nofault.
Lemma general_names_scan_nofault d c : general_names_scan d c <> Fault.
Proof.
  unfold general_names_scan.
  pose proof (find_loop_nofault general_name_from_der (fun '(c0, _) => (c0 =? c)%Z) general_name_from_der_nofault general_name_from_der_shrinks (length d) d (le_n _)) as H.
  destruct (find_loop _ _ _ d) as [[[[? ?] ?]|]| | |]; congruence.
Qed.
Lemma general_names_get_first_nofault d c : general_names_get_first d c <> Fault.
Proof. unfold general_names_get_first. destruct (is_nil d); [discriminate|apply general_names_scan_nofault]. Qed.
#[local] Hint Resolve general_names_get_first_nofault : pkcs_nofault.
Lemma uri_as_general_names_from_der_nofault tag inp : uri_as_general_names_from_der tag inp <> Fault.
Proof. unfold uri_as_general_names_from_der. x509_nf. Qed.

Lemma aki_from_der_nofault inp : aki_from_der inp <> Fault.
Proof. unfold aki_from_der. x509_nf. Qed.
Lemma basic_constraints_from_der_nofault inp : basic_constraints_from_der inp <> Fault.
Proof. unfold basic_constraints_from_der. x509_nf. Qed.
Lemma display_text_from_der_nofault inp : display_text_from_der inp <> Fault.
Proof. unfold display_text_from_der. x509_nf. Qed.
#[local] Hint Resolve display_text_from_der_nofault : pkcs_nofault.
Lemma notice_reference_from_der_nofault cap inp : notice_reference_from_der cap inp <> Fault.
Proof. unfold notice_reference_from_der. x509_nf. Qed.
#[local] Hint Resolve notice_reference_from_der_nofault : pkcs_nofault.
Lemma user_notice_from_der_nofault cap inp : user_notice_from_der cap inp <> Fault.
Proof. unfold user_notice_from_der. x509_nf. Qed.
Lemma policy_qualifier_info_from_der_nofault inp : policy_qualifier_info_from_der inp <> Fault.
Proof. unfold policy_qualifier_info_from_der, qualifier_id_from_der. x509_nf. Qed.
Lemma cert_policy_id_from_der_nofault inp : cert_policy_id_from_der inp <> Fault.
Proof. unfold cert_policy_id_from_der. x509_nf. Qed.
#[local] Hint Resolve cert_policy_id_from_der_nofault : pkcs_nofault.
Lemma policy_information_from_der_nofault inp : policy_information_from_der inp <> Fault.
Proof. unfold policy_information_from_der. x509_nf. Qed.
Lemma policy_mapping_from_der_nofault inp : policy_mapping_from_der inp <> Fault.
Proof. unfold policy_mapping_from_der. x509_nf. Qed.
Lemma attribute_from_der_nofault inp : attribute_from_der inp <> Fault.
Proof. unfold attribute_from_der. x509_nf. Qed.
Lemma general_subtree_from_der_nofault inp : general_subtree_from_der inp <> Fault.
Proof. unfold general_subtree_from_der. x509_nf. Qed.
Lemma name_constraints_from_der_nofault inp : name_constraints_from_der inp <> Fault.
Proof. unfold name_constraints_from_der. x509_nf. Qed.
Lemma policy_constraints_from_der_nofault inp : policy_constraints_from_der inp <> Fault.
Proof. unfold policy_constraints_from_der. x509_nf. Qed.

Lemma key_purpose_from_der_nofault inp : key_purpose_from_der inp <> Fault.
Proof. unfold key_purpose_from_der. x509_nf. Qed.
Lemma oid_from_der_shrinks d ns r : oid_from_der m 32 6 d = Ok (ns, r) -> (length r < length d)%nat.
Proof.
  destruct d as [|t r0]; cbn [oid_from_der]; [discriminate|].
  destruct (negb (t =? 6)); [discriminate|].
  destruct (len_from_der r0) as [[l r']| | |] eqn:E; try discriminate.
  destruct (l <? 1); [discriminate|]. destruct (oid_from_octets m 32 (takeN l r')); try discriminate.
  intros H. injection H as _ <-. apply len_from_der_suffix in E. destruct E as (pre & -> & _).
  unfold dropN. cbn [length]. rewrite app_length. pose proof (skipn_length (N.to_nat l) r'). lia.
Qed.
Lemma oid_info_from_der_shrinks tab : shrinks (oid_info_from_der tab).
Proof.
  intros d a r. unfold oid_info_from_der. destruct (oid_from_der m 32 6 d) as [[ns y]| | |] eqn:E; try discriminate.
  destruct (id_of tab ns); [|discriminate]. intros H. injection H as _ <-. exact (oid_from_der_shrinks _ _ _ E).
Qed.

(* ExtKeyUsage: never Fault, and never more than [cap] identifiers - the capacity of the caller's oids[] *)
Lemma eku_loop_len cap fuel : forall acc d s r,
  fold_loop fuel key_purpose_from_der (fun acc : list Z => len acc <? cap) (fun acc id => Ok (acc ++ [id])) acc d = Ok (s, r) ->
  len acc <= cap -> len s <= cap.
Proof.
  induction fuel as [|k IH]; intros acc d s r.
  - destruct d; cbn [fold_loop]; [intros H; injection H as <- _; auto|].
    destruct (negb (len acc <? cap)); [intros H; injection H as <- _; auto|discriminate].
  - destruct d as [|b t]; cbn [fold_loop]; [intros H; injection H as <- _; auto|].
    destruct (N.ltb_spec (len acc) cap) as [L|L]; cbn [negb]; [|intros H; injection H as <- _; auto].
    destruct (key_purpose_from_der (b :: t)) as [[a r1]| | |]; try discriminate.
    intros H _. apply IH in H; [exact H|]. unfold len in *. rewrite app_length. cbn [length]. lia.
Qed.
Theorem ext_key_usage_from_der_safe cap inp :
  match ext_key_usage_from_der cap inp with
  | Ok (ids, _) => len ids <= cap
  | Fault => False
  | _ => True
  end.
Proof.
  unfold ext_key_usage_from_der, seq_dec, tlv_dec.
  pose proof (type_from_der_nofault 48 inp) as NF.
  destruct (type_from_der 48 inp) as [[p rest]| | |]; try exact I; [|congruence].
  pose proof (fold_loop_nofault key_purpose_from_der (fun acc : list Z => len acc <? cap) (fun acc id => Ok (acc ++ [id]))
    key_purpose_from_der_nofault (oid_info_from_der_shrinks _) ltac:(discriminate) (length p) [] p (le_n _)) as NL.
  destruct (fold_loop _ _ _ _ [] p) as [[acc r]| | |] eqn:E; cbn [bind_ok]; try exact I; [|congruence].
  unfold at_end. destruct (is_nil r); [|exact I]. apply eku_loop_len in E; [exact E|]. cbn. lia.
Qed.
Lemma ext_key_usage_from_der_nofault cap inp : ext_key_usage_from_der cap inp <> Fault.
Proof. pose proof (ext_key_usage_from_der_safe cap inp) as H. intros E. rewrite E in H. exact H. Qed.

(* ------------------------------------------------------------------ distribution points *)
Lemma distribution_point_name_from_der_nofault inp : distribution_point_name_from_der inp <> Fault.
Proof. unfold distribution_point_name_from_der. x509_nf. Qed.
#[local] Hint Resolve distribution_point_name_from_der_nofault : pkcs_nofault.
Lemma uri_as_dpn_from_der_nofault u0 inp : uri_as_dpn_from_der u0 inp <> Fault.
Proof. unfold uri_as_dpn_from_der. x509_nf. Qed.
#[local] Hint Resolve uri_as_dpn_from_der_nofault : pkcs_nofault.
Lemma uri_as_explicit_dpn_from_der_nofault u0 i inp : uri_as_explicit_dpn_from_der u0 i inp <> Fault.
Proof. unfold uri_as_explicit_dpn_from_der. x509_nf. Qed.
#[local] Hint Resolve uri_as_explicit_dpn_from_der_nofault : pkcs_nofault.
Lemma uri_as_dp_from_der_nofault u0 inp : uri_as_dp_from_der u0 inp <> Fault.
Proof. unfold uri_as_dp_from_der. x509_nf. Qed.
Lemma uri_as_dp_from_der_shrinks u0 : shrinks (uri_as_dp_from_der u0).
Proof. unfold uri_as_dp_from_der. apply seq_dec_shrinks. Qed.
Lemma dps_loop_nofault fx fuel : forall u d, (length d <= fuel)%nat -> dps_loop fx fuel u d <> Fault.
Proof.
  induction fuel as [|k IH]; intros u d L.
  - destruct d; [discriminate|cbn in L; lia].
  - destruct d as [|b t]; [discriminate|]. cbn [dps_loop].
    pose proof (uri_as_dp_from_der_nofault (if fx then PNull else u) (b :: t)) as NF.
    destruct (uri_as_dp_from_der _ (b :: t)) as [[[[u' rs] ci] r]| | |] eqn:E; try discriminate; [|congruence].
    destruct (negb (ptr_is_null u')); [discriminate|]. apply IH. apply uri_as_dp_from_der_shrinks in E. lia.
Qed.
Lemma uri_as_dps_from_der_nofault fx inp : uri_as_dps_from_der fx inp <> Fault.
Proof. unfold uri_as_dps_from_der. apply seq_dec_nofault. intros d. apply dps_loop_nofault. lia. Qed.

(* ------------------------------------------------------------------ AuthorityInfoAccess *)
Lemma access_method_from_der_nofault inp : access_method_from_der inp <> Fault.
Proof. unfold access_method_from_der. x509_nf. Qed.
#[local] Hint Resolve access_method_from_der_nofault : pkcs_nofault.
Lemma access_description_from_der_nofault inp : access_description_from_der inp <> Fault.
Proof. unfold access_description_from_der. x509_nf. Qed.
Lemma access_description_from_der_shrinks : shrinks access_description_from_der.
Proof. unfold access_description_from_der. apply seq_dec_shrinks. Qed.
Lemma aia_from_der_nofault inp : aia_from_der inp <> Fault.
Proof.
  unfold aia_from_der. apply tlv_dec_nofault; [auto with pkcs_nofault|]. intros d.
  apply bind_ok_nofault; [|intros [[? ?] ?]; discriminate].
  apply fold_loop_nofault; [apply access_description_from_der_nofault|apply access_description_from_der_shrinks| |lia].
  intros [ca oc] [id uri]. x509_nf.
Qed.

(* ------------------------------------------------------------------ names *)
Lemma directory_name_from_der_nofault inp : directory_name_from_der inp <> Fault.
Proof. unfold directory_name_from_der, directory_name_check. x509_nf. Qed.
#[local] Hint Resolve directory_name_from_der_nofault : pkcs_nofault.
Lemma explicit_directory_name_from_der_nofault i inp : explicit_directory_name_from_der i inp <> Fault.
Proof. unfold explicit_directory_name_from_der. x509_nf. Qed.
#[local] Hint Resolve explicit_directory_name_from_der_nofault : pkcs_nofault.
Lemma edi_party_name_from_der_nofault inp : edi_party_name_from_der inp <> Fault.
Proof. unfold edi_party_name_from_der. x509_nf. Qed.
Lemma attr_type_and_value_from_der_nofault inp : attr_type_and_value_from_der inp <> Fault.
Proof. unfold attr_type_and_value_from_der, name_type_from_der. x509_nf. Qed.
Lemma attr_type_and_value_from_der_shrinks : shrinks attr_type_and_value_from_der.
Proof. unfold attr_type_and_value_from_der. apply seq_dec_shrinks. Qed.
#[local] Hint Resolve attr_type_and_value_from_der_nofault : pkcs_nofault.
Lemma rdn_check_nofault d : rdn_check d <> Fault.
Proof.
  unfold rdn_check.
  pose proof (fold_loop_nofault attr_type_and_value_from_der (fun _ : unit => true) (fun _ '(_, _, v) => if is_nil v then Err else Ok tt)
    attr_type_and_value_from_der_nofault attr_type_and_value_from_der_shrinks) as H.
  specialize (H ltac:(intros ? [[? ?] v]; destruct (is_nil v); discriminate) (length d) tt d (le_n _)).
  destruct (fold_loop _ _ _ _ tt d); try congruence. destruct (is_nil d); discriminate.
Qed.
#[local] Hint Resolve rdn_check_nofault : pkcs_nofault.
Lemma rdn_from_der_nofault inp : rdn_from_der inp <> Fault.
Proof. unfold rdn_from_der. x509_nf. Qed.
Lemma name_check_nofault d : name_check d <> Fault.
Proof.
  unfold name_check.
  pose proof (fold_loop_nofault (nonempty_type_from_der 49) (fun _ : unit => true)
    (fun _ rdn => match rdn_check rdn with Ok _ => Ok tt | Fault => Fault | _ => Err end)
    (nonempty_type_from_der_nofault 49) (nonempty_type_from_der_shrinks 49)) as H.
  specialize (H ltac:(intros ? rdn; cbv beta; pose proof (rdn_check_nofault rdn); destruct (rdn_check rdn); congruence) (length d) tt d (le_n _)).
  destruct (fold_loop _ _ _ _ tt d); try congruence. destruct (is_nil d); discriminate.
Qed.

(* ------------------------------------------------------------------ certificate *)
Lemma explicit_version_from_der_nofault i inp : explicit_version_from_der i inp <> Fault.
Proof. unfold explicit_version_from_der. x509_nf. Qed.
Lemma x509_time_from_der_nofault inp : x509_time_from_der inp <> Fault.
Proof. unfold x509_time_from_der. x509_nf. Qed.
#[local] Hint Resolve explicit_version_from_der_nofault x509_time_from_der_nofault : pkcs_nofault.
Lemma validity_from_der_nofault inp : validity_from_der inp <> Fault.
Proof. unfold validity_from_der. x509_nf. Qed.
Lemma explicit_exts_from_der_nofault i inp : explicit_exts_from_der i inp <> Fault.
Proof. unfold explicit_exts_from_der. x509_nf. Qed.
#[local] Hint Resolve validity_from_der_nofault explicit_exts_from_der_nofault : pkcs_nofault.

Section CertProofs.
  Variable pt_ok : list N -> bool.
  Lemma tbs_cert_from_der_nofault inp : tbs_cert_from_der pt_ok inp <> Fault.
  Proof. unfold tbs_cert_from_der. x509_nf. Qed.
  Lemma signed_from_der_nofault inp : signed_from_der inp <> Fault.
  Proof. unfold signed_from_der. x509_nf. Qed.
  #[local] Hint Resolve tbs_cert_from_der_nofault signed_from_der_nofault : pkcs_nofault.
  Lemma cert_get_details_nofault a : cert_get_details pt_ok a <> Fault.
  Proof. unfold cert_get_details. x509_nf. Qed.
  #[local] Hint Resolve cert_get_details_nofault : pkcs_nofault.
  Lemma cert_from_der_nofault inp : cert_from_der pt_ok inp <> Fault.
  Proof. unfold cert_from_der. x509_nf. Qed.
End CertProofs.

(* ------------------------------------------------------------------ 5. AlgorithmIdentifiers round-trip; the tables are injective *)
Lemma nodes_of_in tab id ns : nodes_of tab id = Some ns -> In id (map fst tab).
Proof.
  induction tab as [|[i n] t IH]; cbn [nodes_of map fst]; [discriminate|].
  destruct (Z.eqb_spec i id) as [->|]; [intros _; left; reflexivity|intros H; right; auto].
Qed.
Ltac by_table E := cbn in E; repeat (destruct E as [<-|E]; [vm_compute; intros H; injection H as <-; reflexivity|]); destruct E.

Theorem digest_algor_roundtrip id e : digest_algor_to_der id = Ok e -> digest_algor_from_der true e = Ok (id, []).
Proof.
  intros H. assert (E : In id (map fst tab_digest_algors)).
  { unfold digest_algor_to_der, alg_to_der in H. destruct (nodes_of tab_digest_algors id) eqn:N; [|discriminate]. exact (nodes_of_in _ _ _ N). }
  revert H. by_table E.
Qed.
Theorem sign_algor_roundtrip id e : sign_algor_to_der id = Ok e -> sign_algor_from_der e = Ok (id, []).
Proof.
  intros H. assert (E : In id (map fst tab_sign_algors)).
  { unfold sign_algor_to_der, alg_to_der in H. destruct (nodes_of tab_sign_algors id) eqn:N; [|discriminate]. exact (nodes_of_in _ _ _ N). }
  revert H. by_table E.
Qed.
Theorem pke_algor_roundtrip id e : pke_algor_to_der id = Ok e -> pke_algor_from_der e = Ok (id, PNull, []).
Proof.
  unfold pke_algor_to_der. destruct (Z.eqb_spec id OID_sm2encrypt) as [->|]; cbn [negb]; [|discriminate].
  vm_compute. intros H; injection H as <-. reflexivity.
Qed.
(* every row of the library tables decodes to its own identifier: no two rows share an OID *)
Theorem oid_tables_injective :
  forallb (fun tab => forallb (fun '(id, ns) => match id_of tab ns with Some i => (i =? id)%Z | None => false end) tab)
    [tab_digest_algors; tab_sign_algors; tab_pke_algors; tab_ext_ids; tab_key_purposes; tab_cms_content_types; tab_x509_enc_algors;
     tab_public_key_algors; tab_named_curves; tab_name_types; tab_qt_ids; tab_access_methods; tab_crl_entry_exts; tab_crl_exts] = true.
Proof. vm_compute. reflexivity. Qed.
