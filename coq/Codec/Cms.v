(* Impl models of the CMS (GM/T 0010, PKCS #7) decoders of src/cms.c, built from the primitives of
   Codec/Der.v and the X.509 layer of Codec/X509.v / Codec/Pkcs.v:
   ContentType, ContentInfo, EncryptedContentInfo, EncryptedData, IssuerAndSerialNumber, SignerInfo,
   DigestAlgorithmIdentifiers (with its capacity), SignedData, RecipientInfo, EnvelopedData,
   SignedAndEnvelopedData, KeyAgreementInfo, the three *_from_der macros of include/gmssl/cms.h, the
   callee x509_encryption_algor_from_der (src/x509_alg.c) with the library's own enum values, and the
   encoders of EncryptedContentInfo / EncryptedData.
   Second part: the *_decrypt_from_der / *_verify_from_der / *_decipher_from_der levels, with the
   cryptographic primitives as parameters.

   Conventions as in Codec/X509.v: a decoder runs over the bytes from the C pointer to the end of the
   buffer; Ok = 1, Absent = 0, Err = negative, Fault = an access outside the buffer / a capacity, or a
   loop that would not terminate within its fuel.  Every out-parameter is returned, in the order of the
   C parameter list; a pointer out-parameter that can be NULL is a [ptr] ([PNull] = NULL with length 0,
   [PBuf d]); a (pointer, length) pair that is never NULL after a return of 1 is a plain [list N].
   An array out-parameter with its count (digest_algors[], *digest_algors_cnt) is one [list Z], the
   count being its length; the capacity of the array is an explicit parameter.
   The text is followed line by line: order of the checks, "!= 1" ([bind_ok]: 0 is an error too) versus
   "< 0" ([opt]: an absent element stores NULL / 0 and consumes nothing), the checks after the parse.
   Object identifiers carry the library's enum values (Codec/OidTables.v).

   Two switches, one per defect of the pinned tree 81c26a9 that reaches these decoders (both repaired in
   the current tree; the main definitions are meant to be used with [true], the [false] forms carry the
   refutation witnesses and let the pinned text be run as it is):
   [fixed]  the switch of X509.digest_algor_from_der: x509_digest_algor_from_der returned the status of the
            OID lookup, i.e. 1 with *oid = 0 when the known OID is followed by more content
            (src/x509_alg.c:117-121, repaired by 7e2773a);
   [fxcap]  the capacity test of cms_digest_algors_from_der, src/cms.c:903: "cnt > max" in the pinned tree
            (one store beyond digest_algors[max]), "cnt >= max" since e5c010f. *)
From GmVerif Require Import Base.Bytes Codec.Der Codec.Time Codec.Pkcs Codec.OidTables Codec.X509.
Local Open Scope N_scope.

Definition CMS_version_v1 : N := 1.

(* ------------------------------------------------------------------ src/x509_alg.c:198 *)
(* x509_encryption_algor_from_der(oid, iv, ivlen): SEQUENCE { OID of x509_enc_algors, OCTET STRING iv }, ivlen = 16.
   Before anything else the function stores *oid = OID_undef, *iv = NULL, *ivlen = 0: that is what the
   caller sees on Absent and on Err.  On Ok the iv is never NULL ("!( *iv)" cannot hold after
   asn1_type_from_der returned 1). *)
Definition x509_enc_algor_from_der (inp : list N) : res (Z * list N * list N) :=
  seq_dec inp (fun d =>
    bind_ok (oid_info_from_der tab_x509_enc_algors d) (fun '(id, d1) =>
    bind_ok (type_from_der 4 d1) (fun '(iv, d2) =>
      if negb (is_nil d2) then Err
      else if negb (len iv =? 16) then Err
      else Ok (id, iv)))).

(* ------------------------------------------------------------------ ContentType, ContentInfo *)
(* cms_content_type_from_der(oid): on Absent the function stores *oid = -1; on Err *oid is left untouched *)
Definition cms_content_type_from_der (inp : list N) : res (Z * list N) :=
  oid_info_from_der tab_cms_content_types inp.

(* cms_content_info_from_der(content_type, content, content_len): content = the bytes inside the
   explicit [0], PNull when the [0] is absent ("asn1_explicit_from_der(..) < 0"); an empty [0] is an error *)
Definition cms_content_info_from_der (inp : list N) : res (Z * ptr * list N) :=
  seq_dec inp (fun d =>
    bind_ok (cms_content_type_from_der d) (fun '(ct, d1) =>
    bind_ok (ontype 160 d1) (fun '(content, d2) => at_end d2 (ct, content)))).

(* cms_data_from_der = asn1_octet_string_from_der *)
Definition cms_data_from_der (inp : list N) : res (list N * list N) := type_from_der 4 inp.

(* ------------------------------------------------------------------ EncryptedContentInfo, EncryptedData *)
(* cms_enced_content_info_from_der(content_type, enc_algor, enc_iv, enced_content, shared_info1, shared_info2):
   the three implicit OCTET STRINGs [0] [1] [2] are optional (PNull) and may be empty (PBuf []) *)
Definition cms_enced_content_info_from_der (inp : list N) : res (Z * Z * list N * ptr * ptr * ptr * list N) :=
  seq_dec inp (fun d =>
    bind_ok (cms_content_type_from_der d) (fun '(ct, d1) =>
    bind_ok (x509_enc_algor_from_der d1) (fun '(alg, iv, d2) =>
    bind_ok (otype 128 d2) (fun '(ec, d3) =>
    bind_ok (otype 129 d3) (fun '(s1, d4) =>
    bind_ok (otype 130 d4) (fun '(s2, d5) => at_end d5 (ct, alg, iv, ec, s1, s2))))))).

(* cms_encrypted_data_from_der(version, content_type, enc_algor, iv, enced_content, shared_info1, shared_info2);
   the version is compared with 1 after the whole parse *)
Definition cms_encrypted_data_from_der (inp : list N) : res (Z * Z * Z * list N * ptr * ptr * ptr * list N) :=
  seq_dec inp (fun d =>
    bind_ok (int_from_der m 2 d) (fun '(ver, d1) =>
    bind_ok (cms_enced_content_info_from_der d1) (fun '(ct, alg, iv, ec, s1, s2, d2) =>
      if negb (is_nil d2) then Err
      else if negb (ver =? 1) then Err
      else Ok (Z.of_N ver, ct, alg, iv, ec, s1, s2)))).

(* ------------------------------------------------------------------ IssuerAndSerialNumber, SignerInfo *)
(* cms_issuer_and_serial_number_from_der(issuer, serial_number): the issuer is the content of any SEQUENCE
   (it may be empty; x509_name_from_der / x509_name_check is not called) *)
Definition cms_issuer_and_serial_number_from_der (inp : list N) : res (list N * list N * list N) :=
  seq_dec inp (fun d =>
    bind_ok (type_from_der 48 d) (fun '(issuer, d1) =>
    bind_ok (integer_from_der 2 d1) (fun '(serial, d2) => at_end d2 (issuer, serial)))).

(* cms_signer_info_from_der(version, issuer, serial_number, digest_algor, authed_attrs, signature_algor,
   enced_digest, unauthed_attrs); the version is NOT examined at this level (cms_signer_info_verify_from_der does) *)
Definition cms_signer_info_from_der (fixed : bool) (inp : list N)
  : res (Z * list N * list N * Z * ptr * Z * list N * ptr * list N) :=
  seq_dec inp (fun d =>
    bind_ok (int_from_der m 2 d) (fun '(ver, d1) =>
    bind_ok (cms_issuer_and_serial_number_from_der d1) (fun '(issuer, serial, d2) =>
    bind_ok (digest_algor_from_der fixed d2) (fun '(dg, d3) =>
    bind_ok (otype 160 d3) (fun '(aa, d4) =>
    bind_ok (sign_algor_from_der d4) (fun '(sa, d5) =>
    bind_ok (type_from_der 4 d5) (fun '(ed, d6) =>
    bind_ok (otype 161 d6) (fun '(ua, d7) =>
      at_end d7 (Z.of_N ver, issuer, serial, dg, aa, sa, ed, ua))))))))).

(* cms_signer_infos_from_der = cms_recipient_infos_from_der = asn1_set_from_der (non-empty SET) *)
Definition cms_signer_infos_from_der (inp : list N) : res (list N * list N) := nonempty_type_from_der 49 inp.
Definition cms_recipient_infos_from_der (inp : list N) : res (list N * list N) := nonempty_type_from_der 49 inp.

(* ------------------------------------------------------------------ DigestAlgorithmIdentifiers (capacity) *)
(* cms_digest_algors_from_der(digest_algors[], digest_algors_cnt, max_digest_algors): non-empty SET;
   "while (dlen) { if (cnt >= max) return -1; x509_digest_algor_from_der(digest_algors, ..) != 1 => -1;
                   digest_algors++; cnt++; }"
   [cap] is the real size of the caller's array, [maxn] the argument max_digest_algors, [acc] what has been
   stored so far (cnt = its length).  x509_digest_algor_from_der begins with "*oid = 0": the element
   digest_algors[cnt] is written before anything is parsed, so a cnt beyond the array is a Fault whatever
   the element turns out to be.  With [fixed = false] a stored entry can be 0 (OID_undef). *)
Fixpoint digest_algors_loop (fixed fxcap : bool) (cap maxn : N) (fuel : nat) (d : list N) (acc : list Z)
  : res (list Z) :=
  match d with
  | [] => Ok acc
  | _ =>
      match fuel with
      | O => Fault
      | S k =>
          if (if fxcap then maxn <=? len acc else maxn <? len acc) then Err
          else if cap <=? len acc then Fault
          else match digest_algor_from_der fixed d with
               | Ok (id, r) => digest_algors_loop fixed fxcap cap maxn k r (acc ++ [id])
               | Fault => Fault
               | _ => Err
               end
      end
  end.
Definition cms_digest_algors_from_der (fixed fxcap : bool) (cap maxn : N) (inp : list N) : res (list Z * list N) :=
  tlv_dec (nonempty_type_from_der 49 inp) (fun p => digest_algors_loop fixed fxcap cap maxn (length p) p []).

(* ------------------------------------------------------------------ SignedData *)
(* cms_signed_data_from_der(version, digest_algors[], cnt, max, content_type, content, certs, crls, signer_infos):
   certs / crls are the raw contents of the implicit SETs [0] / [1] (PNull when absent, possibly empty);
   signer_infos is a non-empty SET; version = 1 is required after the parse *)
Definition cms_signed_data_from_der (fixed fxcap : bool) (cap maxn : N) (inp : list N)
  : res (Z * list Z * Z * ptr * ptr * ptr * list N * list N) :=
  seq_dec inp (fun d =>
    bind_ok (int_from_der m 2 d) (fun '(ver, d1) =>
    bind_ok (cms_digest_algors_from_der fixed fxcap cap maxn d1) (fun '(algs, d2) =>
    bind_ok (cms_content_info_from_der d2) (fun '(ct, content, d3) =>
    bind_ok (otype 160 d3) (fun '(certs, d4) =>
    bind_ok (otype 161 d4) (fun '(crls, d5) =>
    bind_ok (nonempty_type_from_der 49 d5) (fun '(sis, d6) =>
      if negb (is_nil d6) then Err
      else if negb (ver =? CMS_version_v1) then Err
      else Ok (Z.of_N ver, algs, ct, content, certs, crls, sis)))))))).

(* ------------------------------------------------------------------ RecipientInfo, EnvelopedData *)
(* cms_recipient_info_from_der(version, issuer, serial_number, pke_algor, params, enced_key):
   the test asn1_length_is_zero(dlen) is commented out in the text (src/cms.c:1255): whatever follows
   the encryptedKey inside the SEQUENCE is ignored.  Then version = 1, pke_algor = sm2encrypt and
   "*params || *params_len" => -1 (so params is NULL on every return of 1). *)
Definition cms_recipient_info_from_der (inp : list N) : res (Z * list N * list N * Z * ptr * list N * list N) :=
  seq_dec inp (fun d =>
    bind_ok (int_from_der m 2 d) (fun '(ver, d1) =>
    bind_ok (cms_issuer_and_serial_number_from_der d1) (fun '(issuer, serial, d2) =>
    bind_ok (pke_algor_from_der d2) (fun '(alg, params, d3) =>
    bind_ok (type_from_der 4 d3) (fun '(ek, _) =>
      if negb (ver =? 1) then Err
      else if negb (alg =? OID_sm2encrypt)%Z then Err
      else if negb (ptr_is_null params) then Err
      else Ok (Z.of_N ver, issuer, serial, alg, params, ek)))))).

(* cms_enveloped_data_from_der(version, rcpt_infos, enced_content_info): the EncryptedContentInfo is returned
   as one whole TLV of ANY tag (asn1_any_from_der); the version is not examined at this level *)
Definition cms_enveloped_data_from_der (inp : list N) : res (Z * list N * list N * list N) :=
  seq_dec inp (fun d =>
    bind_ok (int_from_der m 2 d) (fun '(ver, d1) =>
    bind_ok (nonempty_type_from_der 49 d1) (fun '(ris, d2) =>
    bind_ok (any_from_der d2) (fun '(eci, d3) => at_end d3 (Z.of_N ver, ris, eci))))).

(* cms_signed_and_enveloped_data_from_der(version, rcpt_infos, digest_algors[], cnt, max, enced_content_info,
   certs, crls, signer_infos); the version is not examined at this level *)
Definition cms_signed_and_enveloped_data_from_der (fixed fxcap : bool) (cap maxn : N) (inp : list N)
  : res (Z * list N * list Z * list N * ptr * ptr * list N * list N) :=
  seq_dec inp (fun d =>
    bind_ok (int_from_der m 2 d) (fun '(ver, d1) =>
    bind_ok (nonempty_type_from_der 49 d1) (fun '(ris, d2) =>
    bind_ok (cms_digest_algors_from_der fixed fxcap cap maxn d2) (fun '(algs, d3) =>
    bind_ok (any_from_der d3) (fun '(eci, d4) =>
    bind_ok (otype 160 d4) (fun '(certs, d5) =>
    bind_ok (otype 161 d5) (fun '(crls, d6) =>
    bind_ok (nonempty_type_from_der 49 d6) (fun '(sis, d7) =>
      at_end d7 (Z.of_N ver, ris, algs, eci, certs, crls, sis))))))))).

(* ------------------------------------------------------------------ encoders *)
(* cms_content_type_to_der (0 for oid = -1), asn1_header_to_der, cms_content_info_header_to_der (the header the
   verifying levels rebuild and hash: SEQUENCE header, contentType, [0] header) *)
Definition cms_content_type_to_der (id : Z) : res (list N) :=
  if (id =? -1)%Z then Absent
  else match nodes_of tab_cms_content_types id with Some ns => oid_enc ns | None => Err end.
Definition header_enc (tag l : N) : list N := tag :: len_enc l.
Definition cms_content_info_header_to_der (ct : Z) (content_len : N) : res (list N) :=
  bind_ok (cms_content_type_to_der ct) (fun o =>
    Ok (header_enc 48 (content_len + len o + len (header_enc 160 content_len)) ++ o ++ header_enc 160 content_len)).

(* x509_encryption_algor_to_der (src/x509_alg.c:177) with the library's enum values; the iv is a non-NULL
   buffer (NULL is "asn1_octet_string_to_der(..) != 1" = -1); its length is NOT examined by the encoder *)
Definition x509_enc_algor_to_der (id : Z) (iv : list N) : res (list N) :=
  match nodes_of tab_x509_enc_algors id with
  | Some ns => bind_ok (oid_enc ns) (fun o => Ok (seq_enc (o ++ 4 :: len_enc (len iv) ++ iv)))
  | None => Err
  end.
(* "asn1_implicit_octet_string_to_der(i, d, dlen, ..) < 0": NULL (None) contributes nothing *)
Definition opt_tlv (tag : N) (d : option (list N)) : list N :=
  match d with Some x => tag :: len_enc (len x) ++ x | None => [] end.
(* cms_enced_content_info_to_der(content_type, enc_algor, enc_iv, enced_content, shared_info1, shared_info2) *)
Definition cms_enced_content_info_to_der (ct alg : Z) (iv : list N) (ec s1 s2 : option (list N)) : res (list N) :=
  bind_ok (cms_content_type_to_der ct) (fun o =>
  bind_ok (x509_enc_algor_to_der alg iv) (fun a =>
    Ok (seq_enc (o ++ a ++ opt_tlv 128 ec ++ opt_tlv 129 s1 ++ opt_tlv 130 s2)))).
(* cms_encrypted_data_to_der(version, ...), src/cms.c:425.  The second pass of the text calls
   cms_enced_content_info_to_der(.., NULL, &len) once more instead of (.., out, outlen) (src/cms.c:449-455):
   [fixed = false] is that text - the SEQUENCE header announcing the full length and the version, nothing else,
   answered 1, the dry run reporting the same short length; [fixed = true] writes the EncryptedContentInfo. *)
Definition cms_encrypted_data_to_der (fixed : bool) (ver ct alg : Z) (iv : list N) (ec s1 s2 : option (list N))
  : res (list N) :=
  if negb (ver =? 1)%Z then Err
  else bind_ok (int_to_der 2 ver) (fun v =>
       bind_ok (cms_enced_content_info_to_der ct alg iv ec s1 s2) (fun e =>
         Ok (header_enc 48 (len v + len e) ++ v ++ (if fixed then e else [])))).

(* ------------------------------------------------------------------ KeyAgreementInfo *)
Section Keyed.
  Variable pt_ok : list N -> bool.         (* the point check of sm2_public_key_from_der, as in Codec/Pkcs.v *)

  (* cms_key_agreement_info_from_der(version, temp_public_key_r, user_cert, user_id): the SM2_KEY is the whole
     target object (public point, private scalar zeroed); user_cert is one whole certificate TLV that
     passed x509_cert_from_der; the version is not examined *)
  Definition cms_key_agreement_info_from_der (inp : list N) : res (Z * sm2_key * list N * list N * list N) :=
    seq_dec inp (fun d =>
      bind_ok (int_from_der m 2 d) (fun '(ver, d1) =>
      bind_ok (sm2_pubkeyinfo_from_der pt_ok d1) (fun '(k, d2) =>
      bind_ok (cert_from_der pt_ok d2) (fun '(cert, d3) =>
      bind_ok (type_from_der 4 d3) (fun '(uid, d4) => at_end d4 (Z.of_N ver, k, cert, uid)))))).

  (* ================================================================ second part: decoders that also decrypt / verify
     The primitives are parameters:
       cbcdec key iv c   sm4_cbc_padding_decrypt: Some plaintext = 1, None = 0 (empty input) or -1
       sm2dec c          sm2_decrypt under the caller's private key: Some plaintext (at most
                         SM2_MAX_PLAINTEXT_SIZE = 255 bytes, the size of the local outbuf) = 1
       sm3 msg           the SM3 digest; an SM3_CTX is represented by the bytes absorbed so far
       sm2ver pub dgst sig   sm2_verify(..) == 1 for the public key x || y *)
  Variable cbcdec : list N -> list N -> list N -> option (list N).
  Variable sm2dec : list N -> option (list N).
  Variable sm3 : list N -> list N.
  Variable sm2ver : list N -> list N -> list N -> bool.

  Definition ptr_bytes (p : ptr) : list N := match p with PBuf d => d | _ => [] end.     (* NULL, 0 *)
  Definition is_some {A} (o : option A) : bool := match o with Some _ => true | None => false end.

  (* what sm4_cbc_padding_decrypt has written to out[] before it looks at the padding: all blocks but the last *)
  Definition cbc_extent (c : list N) : N :=
    if (len c =? 0) || negb (len c mod 16 =? 0) then 0 else len c - 16.

  (* cms_enced_content_info_decrypt_from_der(enc_algor, key, keylen, content_type, content, content_len,
     shared_info1, shared_info2): content is a caller buffer WITHOUT a capacity parameter; [ccap] is the real
     size of that buffer, a write beyond it is a Fault.  An absent encryptedContent [0] decrypts NULL, 0
     (sm4_cbc_padding_decrypt returns 0 => -1). *)
  Definition cms_enced_content_info_decrypt_from_der (ccap : N) (key : list N) (inp : list N)
    : res (Z * Z * list N * ptr * ptr * list N) :=
    bind_ok (cms_enced_content_info_from_der inp) (fun '(ct, alg, iv, ec, s1, s2, rest) =>
      if negb (alg =? OID_sm4_cbc)%Z then Err
      else if negb (len iv =? 16) then Err
      else if negb (len key =? 16) then Err
      else if ccap <? cbc_extent (ptr_bytes ec) then Fault
      else match cbcdec key iv (ptr_bytes ec) with
           | None => Err
           | Some pt => if ccap <? len pt then Fault else Ok (alg, ct, pt, s1, s2, rest)
           end).

  (* cms_encrypted_data_decrypt_from_der(enc_algor, key, keylen, content_type, content, content_len, shared_info1,
     shared_info2): here the version is a local and is tested BEFORE the content is decrypted *)
  Definition cms_encrypted_data_decrypt_from_der (ccap : N) (key : list N) (inp : list N)
    : res (Z * Z * list N * ptr * ptr * list N) :=
    seq_dec inp (fun d =>
      bind_ok (int_from_der m 2 d) (fun '(ver, d1) =>
        if negb (ver =? CMS_version_v1) then Err
        else bind_ok (cms_enced_content_info_decrypt_from_der ccap key d1) (fun '(alg, ct, pt, s1, s2, d2) =>
               at_end d2 (alg, ct, pt, s1, s2)))).

  (* cms_recipient_info_decrypt_from_der(sm2_key, rcpt_issuer, rcpt_serial, out, outlen, maxlen):
     Ok (Some key, rest) = 1; Ok (None, rest) = 0: a well-formed RecipientInfo of another recipient, the input
     HAS been consumed and *outlen is not stored (the model cannot use Absent for this 0: Absent carries no
     remainder); the second test of pke_algor / params repeats what cms_recipient_info_from_der enforced *)
  Definition cms_recipient_info_decrypt_from_der (rcpt_issuer rcpt_serial : list N) (maxlen : N) (inp : list N)
    : res (option (list N) * list N) :=
    bind_ok (cms_recipient_info_from_der inp) (fun '(ver, issuer, serial, alg, params, ek, rest) =>
      if negb (list_eqb issuer rcpt_issuer && list_eqb serial rcpt_serial) then Ok (None, rest)
      else if negb (alg =? OID_sm2encrypt)%Z || negb (ptr_is_null params) then Err
      else match sm2dec ek with
           | None => Err
           | Some k => if maxlen <? len k then Err else Ok (Some k, rest)
           end).

  (* the loop shared by the two openers: "while (rcpt_infos_len) { ret = ..decrypt_from_der(.., key, &keylen,
     sizeof(key), ..); if (ret < 0) return -1; else if (ret) break; } if (!ret) return -1;" with key[32] *)
  Definition cms_recipient_infos_open (issuer serial : list N) (ris : list N) : res (list N) :=
    match find_loop (length ris) (cms_recipient_info_decrypt_from_der issuer serial 32) is_some ris with
    | Ok (Some (Some key, _)) => Ok key
    | Fault => Fault
    | _ => Err
    end.

  (* cms_enveloped_data_decrypt_from_der(sm2_key, issuer, serial, content_type, content, content_len,
     recipient_infos, shared_info1, shared_info2) *)
  Definition cms_enveloped_data_decrypt_from_der (ccap : N) (issuer serial : list N) (inp : list N)
    : res (Z * list N * list N * ptr * ptr * list N) :=
    bind_ok (cms_enveloped_data_from_der inp) (fun '(ver, ris, eci, rest) =>
      if negb (ver =? 1)%Z then Err
      else bind_ok (cms_recipient_infos_open issuer serial ris) (fun key =>
           bind_ok (cms_enced_content_info_decrypt_from_der ccap key eci) (fun '(_, ct, pt, s1, s2, _) =>
             Ok (ct, pt, ris, s1, s2, rest)))).

  (* x509_certs_get_cert_by_issuer_and_serial_number (src/x509_cer.c:1664): every certificate on the way is
     parsed twice (x509_cert_from_der, x509_cert_get_issuer_and_serial_number); Ok None = 0 with *cert = NULL *)
  Definition cert_issuer_serial_step (d : list N) : res (list N * list N * list N * list N) :=
    bind_ok (cert_from_der pt_ok d) (fun '(a, r) =>
    bind_ok (cert_get_details pt_ok a) (fun '(t, _, _) => Ok (a, t_issuer t, t_serial t, r))).
  Definition certs_get_cert_by_issuer_and_serial_number (d issuer serial : list N) : res (option (list N)) :=
    match find_loop (length d) cert_issuer_serial_step
            (fun '(_, i, s) => list_eqb i issuer && list_eqb s serial) d with
    | Ok (Some ((a, _, _), _)) => Ok (Some a)
    | Ok None => Ok None
    | Absent => Absent
    | Err => Err
    | Fault => Fault
    end.

  (* cms_signer_info_verify_from_der(ctx, certs, certslen, cert, issuer, serial, authed_attrs, unauthed_attrs):
     [pre] = the bytes already absorbed by *ctx; the signature is checked over SM3(pre || authed_attrs contents)
     with the key of the certificate of [certs] named by issuer and serial *)
  Definition cms_signer_info_verify_from_der (fixed : bool) (pre certs : list N) (inp : list N)
    : res (list N * list N * list N * ptr * ptr * list N) :=
    bind_ok (cms_signer_info_from_der fixed inp) (fun '(ver, issuer, serial, dg, aa, sa, sig, ua, rest) =>
      if negb (ver =? 1)%Z then Err
      else if negb (dg =? OID_sm3)%Z then Err
      else if negb (sa =? OID_sm2sign_with_sm3)%Z then Err
      else bind_ok (certs_get_cert_by_issuer_and_serial_number certs issuer serial) (fun oc =>
           match oc with
           | None => Err
           | Some cert =>
               bind_ok (cert_get_details pt_ok cert) (fun '(t, _, _) =>
                 if sm2ver (t_pub t) (sm3 (pre ++ ptr_bytes aa)) sig
                 then Ok (cert, issuer, serial, aa, ua, rest) else Err)
           end)).

  (* "while (signer_infos_len) { cms_signer_info_verify_from_der(&sm3_ctx, *certs, *certs_len, ..) != 1 => -1 }" *)
  Definition cms_signer_infos_verify (fixed : bool) (pre certs : list N) (sis : list N) : res unit :=
    bind_ok (fold_loop (length sis) (cms_signer_info_verify_from_der fixed pre certs)
               (fun _ : unit => true) (fun _ _ => Ok tt) tt sis) (fun _ => Ok tt).

  (* cms_signed_data_verify_from_der(extra_certs, extra_crls, content_type, content, certs, crls, psigner_infos):
     the four extra_* parameters are never used.  Locals: digest_algors[4] with max = 4 (NOT initialised;
     digest_algors[0] is read before the count is compared with 1: the empty list stands for that read of an
     unset int), content_info_header[128]. *)
  Definition cms_signed_data_verify_from_der (fixed fxcap : bool) (inp : list N)
    : res (Z * ptr * ptr * ptr * list N * list N) :=
    bind_ok (cms_signed_data_from_der fixed fxcap 4 4 inp) (fun '(ver, algs, ct, content, certs, crls, sis, rest) =>
      if negb (ver =? 1)%Z then Err
      else match algs with
           | [] => Fault
           | a0 :: _ =>
               if negb (a0 =? OID_sm3)%Z then Err
               else if negb (len algs =? 1) then Err
               else bind_ok (cms_content_info_header_to_der ct (len (ptr_bytes content))) (fun hdr =>
                      if 128 <? len hdr then Fault
                      else bind_ok (cms_signer_infos_verify fixed (hdr ++ ptr_bytes content) (ptr_bytes certs) sis)
                             (fun _ => Ok (ct, content, certs, crls, sis, rest)))
           end).

  (* cms_signed_and_enveloped_data_decipher_from_der(rcpt_key, rcpt_issuer, rcpt_serial, content_type, content,
     content_len, prcpt_infos, shared_info1, shared_info2, certs, crls, psigner_infos, extra_certs, extra_crls):
     digest_algors[4] = {0} here, the count is not compared with 1; the plaintext is in the caller's buffer
     before any signature is examined; extra_* unused *)
  Definition cms_signed_and_enveloped_data_decipher_from_der (fixed fxcap : bool) (ccap : N)
    (rcpt_issuer rcpt_serial : list N) (inp : list N)
    : res (Z * list N * list N * ptr * ptr * ptr * ptr * list N * list N) :=
    bind_ok (cms_signed_and_enveloped_data_from_der fixed fxcap 4 4 inp) (fun '(ver, ris, algs, eci, certs, crls, sis, rest) =>
      if negb (ver =? 1)%Z then Err
      else if negb (nth 0 algs 0 =? OID_sm3)%Z then Err
      else bind_ok (cms_recipient_infos_open rcpt_issuer rcpt_serial ris) (fun key =>
           bind_ok (cms_enced_content_info_decrypt_from_der ccap key eci) (fun '(_, ct, pt, s1, s2, _) =>
           bind_ok (cms_content_info_header_to_der ct (len pt)) (fun hdr =>
             if 128 <? len hdr then Fault
             else bind_ok (cms_signer_infos_verify fixed (hdr ++ pt) (ptr_bytes certs) sis)
                    (fun _ => Ok (ct, pt, ris, s1, s2, certs, crls, sis, rest)))))).
End Keyed.
