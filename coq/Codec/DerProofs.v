(* Proofs about the DER primitive models (Codec/Der.v): round trips, exact consumption,
   dry-run length = written length, canonicity, refusals, absence of Fault, capacities. *)
From GmVerif Require Import Base.ListX Base.Bytes Codec.Der.
From Coq Require Import ZifyN ZifyNat ZifyBool.
Ltac Zify.zify_post_hook ::= Z.div_mod_to_equations.
Local Open Scope N_scope.

(* ------------------------------------------------------------------ lists and lengths *)
Definition bytes_okP (l : list N) : Prop := Forall (fun b => b < 256) l.

Lemma len_nil {A} : len (@nil A) = 0. Proof. reflexivity. Qed.
Lemma len_cons {A} (x : A) l : len (x :: l) = 1 + len l.
Proof. unfold len; cbn [length]; lia. Qed.
Lemma len_app {A} (a b : list A) : len (a ++ b) = len a + len b.
Proof. unfold len; rewrite app_length; lia. Qed.
Lemma len_0 {A} (l : list A) : len l = 0 -> l = [].
Proof. destruct l; [reflexivity|rewrite len_cons; lia]. Qed.

Lemma takeN_app {A} (a b : list A) : takeN (len a) (a ++ b) = a.
Proof.
  unfold takeN, len. rewrite Nat2N.id.
  rewrite firstn_app, Nat.sub_diag, firstn_all. cbn. apply app_nil_r.
Qed.
Lemma dropN_app {A} (a b : list A) : dropN (len a) (a ++ b) = b.
Proof.
  unfold dropN, len. rewrite Nat2N.id. rewrite skipn_app, Nat.sub_diag, skipn_all. reflexivity.
Qed.
Lemma takeN_all {A} (a : list A) : takeN (len a) a = a.
Proof. rewrite <- (app_nil_r a) at 2. apply takeN_app. Qed.
Lemma dropN_all {A} (a : list A) : dropN (len a) a = [].
Proof. rewrite <- (app_nil_r a) at 2. apply dropN_app. Qed.
Lemma take_drop {A} n (l : list A) : takeN n l ++ dropN n l = l.
Proof. apply firstn_skipn. Qed.
Lemma len_takeN {A} n (l : list A) : n <= len l -> len (takeN n l) = n.
Proof. unfold len, takeN. intros. rewrite firstn_length. lia. Qed.
Lemma len_dropN {A} n (l : list A) : len (dropN n l) = len l - n.
Proof. unfold len, dropN. rewrite skipn_length. lia. Qed.

Lemma Forall_takeN {A} (P : A -> Prop) n l : Forall P l -> Forall P (takeN n l).
Proof.
  unfold takeN. generalize (N.to_nat n) as k. intros k H. revert k.
  induction H; intros [|k]; cbn; constructor; auto.
Qed.
Lemma Forall_dropN {A} (P : A -> Prop) n l : Forall P l -> Forall P (dropN n l).
Proof.
  unfold dropN. generalize (N.to_nat n) as k. intros k H. revert k.
  induction H; intros [|k]; cbn; auto.
Qed.

(* ------------------------------------------------------------------ finite sweeps over a byte *)
Lemma sweep_lt (P : N -> bool) (n : nat) :
  forallb P (map N.of_nat (seq 0 n)) = true -> forall b, b < N.of_nat n -> P b = true.
Proof.
  intros H b Hb. rewrite forallb_forall in H. apply H.
  apply in_map_iff. exists (N.to_nat b). split; [apply N2Nat.id|].
  apply in_seq. lia.
Qed.
Lemma sweep256 (P : N -> bool) :
  forallb P (map N.of_nat (seq 0 256)) = true -> forall b, b < 256 -> P b = true.
Proof. intros H b Hb. apply (sweep_lt P 256 H). exact Hb. Qed.

Lemma hibit_ge b : b < 256 -> hibit b = (128 <=? b).
Proof.
  intros H.
  pose proof (sweep256 (fun b => Bool.eqb (hibit b) (128 <=? b)) eq_refl b H) as E.
  apply eqb_prop in E. exact E.
Qed.
Lemma land127 b : b < 256 -> 128 <= b -> b = 128 + N.land b 127.
Proof.
  intros H1 H2.
  pose proof (sweep256 (fun b => (b <? 128) || (b =? 128 + N.land b 127)) eq_refl b H1) as E.
  apply orb_true_iff in E. destruct E as [E|E]; [apply N.ltb_lt in E; lia|apply N.eqb_eq in E; exact E].
Qed.
Lemma land127_lo k : k < 128 -> N.land (128 + k) 127 = k.
Proof.
  intros H.
  pose proof (sweep_lt (fun k => N.land (128 + k) 127 =? k) 128 eq_refl k H) as E.
  apply N.eqb_eq in E. exact E.
Qed.

(* ------------------------------------------------------------------ big-endian numbers *)
Lemma be_to_N_acc_app acc a b : be_to_N_acc acc (a ++ b) = be_to_N_acc (be_to_N_acc acc a) b.
Proof. revert acc; induction a; intros; cbn; [reflexivity|apply IHa]. Qed.
Lemma be_to_N_snoc l x : be_to_N (l ++ [x]) = be_to_N l * 256 + x.
Proof. unfold be_to_N. rewrite be_to_N_acc_app. reflexivity. Qed.
Lemma N_to_be_length k x : length (N_to_be k x) = k.
Proof. revert x; induction k; intros; cbn; [reflexivity|]. rewrite app_length, IHk. cbn. lia. Qed.
Lemma be_to_N_to_be k x : x < 256 ^ N.of_nat k -> be_to_N (N_to_be k x) = x.
Proof.
  revert x; induction k; intros x H.
  - cbn in *. lia.
  - cbn [N_to_be]. rewrite be_to_N_snoc. rewrite IHk.
    + pose proof (N.div_mod x 256). lia.
    + rewrite Nat2N.inj_succ, N.pow_succ_r' in H. apply N.div_lt_upper_bound; lia.
Qed.
Lemma N_to_be_ok k x : bytes_okP (N_to_be k x).
Proof.
  revert x; induction k; intros; cbn; [constructor|].
  apply Forall_app; split; [apply IHk|]. constructor; [|constructor].
  apply N.mod_lt; lia.
Qed.
Lemma be_to_N_lt l : bytes_okP l -> be_to_N l < 256 ^ len l.
Proof.
  induction l using rev_ind; intros H.
  - cbn. lia.
  - apply Forall_app in H. destruct H as [H1 H2]. inversion H2; subst.
    rewrite be_to_N_snoc, len_app. specialize (IHl H1).
    change (len [x]) with 1. rewrite N.pow_add_r. change (256 ^ 1) with 256. nia.
Qed.
Lemma N_to_be_of_be l : bytes_okP l -> N_to_be (length l) (be_to_N l) = l.
Proof.
  induction l using rev_ind; intros H; [reflexivity|].
  apply Forall_app in H. destruct H as [H1 H2]. inversion H2; subst.
  rewrite app_length. cbn [length]. rewrite Nat.add_1_r. cbn [N_to_be].
  rewrite be_to_N_snoc.
  replace ((be_to_N l * 256 + x) / 256) with (be_to_N l) by (apply N.div_unique with x; lia).
  replace ((be_to_N l * 256 + x) mod 256) with x by (apply N.mod_unique with (be_to_N l); lia).
  rewrite IHl by assumption. reflexivity.
Qed.

(* ------------------------------------------------------------------ length *)
Lemma be_to_N_acc_lin acc l : be_to_N_acc acc l = acc * 256 ^ len l + be_to_N l.
Proof.
  revert acc; induction l; intros acc.
  - cbn. lia.
  - cbn [be_to_N_acc]. unfold be_to_N. cbn [be_to_N_acc]. rewrite IHl, (IHl (0 * 256 + a)).
    rewrite len_cons, N.add_comm, N.pow_add_r. change (256 ^ 1) with 256. lia.
Qed.
Lemma be_to_N_cons c l : be_to_N (c :: l) = c * 256 ^ len l + be_to_N l.
Proof. unfold be_to_N at 1. cbn [be_to_N_acc]. rewrite be_to_N_acc_lin. lia. Qed.

Lemma len_from_der_short b rest : b < 128 -> len_from_der (b :: rest) = len_check b rest.
Proof. intros H. cbn [len_from_der]. destruct (N.ltb_spec b 128); [reflexivity|lia]. Qed.

Lemma len_from_der_long k c cs rest :
  1 <= k <= 4 -> len (c :: cs) = k -> (k = 1 -> 128 <= c) -> (1 < k -> c <> 0) ->
  len_from_der ((128 + k) :: (c :: cs) ++ rest) = len_check (be_to_N (c :: cs)) rest.
Proof.
  intros Hk Hl H1 H2. cbn [len_from_der].
  destruct (N.ltb_spec (128 + k) 128); [lia|].
  rewrite land127_lo by lia.
  destruct (N.ltb_spec k 1); [lia|]. destruct (N.ltb_spec 4 k); [lia|]. cbn [orb].
  rewrite len_app, Hl. destruct (N.ltb_spec (k + len rest) k); [lia|].
  cbn [app].
  destruct (N.eqb_spec k 1) as [E|E]; cbn [andb].
  - destruct (N.ltb_spec c 128); [specialize (H1 E); lia|].
    destruct (N.ltb_spec 1 k); [lia|]. cbn [andb].
    change (c :: cs ++ rest) with ((c :: cs) ++ rest). rewrite <- Hl, takeN_app, dropN_app. reflexivity.
  - destruct (N.ltb_spec 1 k); [|lia]. cbn [andb].
    destruct (N.eqb_spec c 0); [exfalso; apply H2; [lia|assumption]|].
    change (c :: cs ++ rest) with ((c :: cs) ++ rest). rewrite <- Hl, takeN_app, dropN_app. reflexivity.
Qed.

Lemma len_from_der_inv inp l rest :
  len_from_der inp = Ok (l, rest) ->
  l <= len rest /\
  ((l < 128 /\ inp = l :: rest) \/
   (exists b k c cs, inp = b :: (c :: cs) ++ rest
      /\ k = N.land b 127 /\ 128 <= b /\ 1 <= k <= 4 /\ len (c :: cs) = k
      /\ (k = 1 -> 128 <= c) /\ (1 < k -> c <> 0) /\ l = be_to_N (c :: cs))).
Proof.
  destruct inp as [|b r]; cbn [len_from_der]; [discriminate|].
  assert (CK : forall x y, len_check x y = Ok (l, rest) -> x = l /\ y = rest /\ l <= len rest).
  { unfold len_check. intros x y. destruct (N.ltb_spec (len y) x); [discriminate|].
    intros E; inversion E; subst. auto. }
  destruct (N.ltb_spec b 128) as [Hb|Hb].
  - intros E. apply CK in E. destruct E as (-> & -> & ?). split; [assumption|]. left. auto.
  - set (k := N.land b 127).
    destruct (N.ltb_spec k 1); [discriminate|]. destruct (N.ltb_spec 4 k); [discriminate|]. cbn [orb].
    destruct (N.ltb_spec (len r) k) as [|Hr]; [discriminate|].
    destruct r as [|c r']; [discriminate|].
    destruct ((k =? 1) && (c <? 128)) eqn:E1; [discriminate|].
    destruct ((1 <? k) && (c =? 0)) eqn:E2; [discriminate|].
    intros E. apply CK in E. destruct E as (E & <- & Hle). split; [assumption|]. right.
    pose proof (take_drop k (c :: r')) as TD.
    assert (Hlt : len (takeN k (c :: r')) = k) by (apply len_takeN; assumption).
    destruct (takeN k (c :: r')) as [|c0 cs] eqn:ET; [rewrite len_nil in Hlt; lia|].
    assert (c0 = c).
    { unfold takeN in ET. destruct (N.to_nat k) eqn:EK; [lia|]. cbn in ET. inversion ET; reflexivity. }
    subst c0.
    exists b, k, c, cs. rewrite TD. repeat split; try assumption; try lia.
Qed.

Lemma len_nbytes_cases l : 128 <= l -> l <= INT_MAX ->
  (len_nbytes l = 1 /\ l < 256) \/ (len_nbytes l = 2 /\ 256 <= l < 65536) \/
  (len_nbytes l = 3 /\ 65536 <= l < 16777216) \/ (len_nbytes l = 4 /\ 16777216 <= l < 4294967296).
Proof.
  unfold len_nbytes, INT_MAX. intros.
  destruct (N.ltb_spec l 256); [left; lia|].
  destruct (N.ltb_spec l 65536); [right; left; lia|].
  destruct (N.ltb_spec l 16777216); [right; right; left; lia| right; right; right; lia].
Qed.

Lemma len_size_eq l e : len_to_der l = Some e -> len_size l = Some (len e).
Proof.
  unfold len_to_der, len_size. destruct (INT_MAX <? l); [discriminate|].
  destruct (l <? 128); intros E; inversion E; subst; [reflexivity|].
  rewrite len_cons. unfold len at 1. rewrite N_to_be_length, N2Nat.id. reflexivity.
Qed.

Lemma pow256 k : 1 <= k <= 4 -> (k = 1 /\ 256 ^ k = 256) \/ (k = 2 /\ 256 ^ k = 65536) \/ (k = 3 /\ 256 ^ k = 16777216) \/ (k = 4 /\ 256 ^ k = 4294967296).
Proof.
  intros H. assert (C : k = 1 \/ k = 2 \/ k = 3 \/ k = 4) by lia.
  destruct C as [E|[E|[E|E]]]; subst k; cbn; auto.
Qed.

Lemma len_roundtrip l e rest :
  len_to_der l = Some e -> l <= len rest -> len_from_der (e ++ rest) = Ok (l, rest).
Proof.
  unfold len_to_der. remember (128 + len_nbytes l) as h eqn:Eh.
  destruct (N.ltb_spec INT_MAX l) as [|Hmax]; [discriminate|].
  destruct (N.ltb_spec l 128) as [Hs|Hs]; intros E Hr; injection E as <-; subst h.
  - cbn [app]. rewrite len_from_der_short by assumption.
    unfold len_check. destruct (N.ltb_spec (len rest) l); [lia|reflexivity].
  - set (k := len_nbytes l).
    assert (Hk : 1 <= k <= 4) by (destruct (len_nbytes_cases l Hs Hmax) as [[E B]|[[E B]|[[E B]|[E B]]]]; subst k; lia).
    assert (Hlt : l < 256 ^ k).
    { destruct (len_nbytes_cases l Hs Hmax) as [[E B]|[[E B]|[[E B]|[E B]]]]; subst k; rewrite E; cbn; lia. }
    assert (Hge : (k = 1 -> 128 <= l) /\ (1 < k -> 256 ^ (k - 1) <= l)).
    { destruct (len_nbytes_cases l Hs Hmax) as [[E B]|[[E B]|[[E B]|[E B]]]]; subst k; rewrite E; cbn; lia. }
    pose proof (N_to_be_length (N.to_nat k) l) as HL.
    pose proof (be_to_N_to_be (N.to_nat k) l) as HV. rewrite N2Nat.id in HV. specialize (HV Hlt).
    pose proof (N_to_be_ok (N.to_nat k) l) as HB.
    destruct (N_to_be (N.to_nat k) l) as [|c cs] eqn:EB; [cbn in HL; lia|].
    rewrite <- app_comm_cons.
    assert (Hlen : len (c :: cs) = k) by (unfold len; rewrite HL; lia).
    rewrite len_from_der_long; try assumption.
    + rewrite HV. unfold len_check. destruct (N.ltb_spec (len rest) l); [lia|reflexivity].
    + intros E1. rewrite be_to_N_cons in HV. rewrite len_cons in Hlen.
      assert (len cs = 0) by lia. apply len_0 in H. subst cs. cbn in HV. destruct Hge as [G _]. specialize (G E1). lia.
    + intros E1 ->. rewrite be_to_N_cons in HV. 
      inversion HB; subst. pose proof (be_to_N_lt cs H2) as LT.
      rewrite len_cons in Hlen. replace (len cs) with (k - 1) in * by lia.
      destruct Hge as [_ G]. specialize (G E1). lia.
Qed.

Lemma len_canonical inp l rest :
  bytes_okP inp -> len_from_der inp = Ok (l, rest) -> l <= INT_MAX ->
  exists e, len_to_der l = Some e /\ inp = e ++ rest.
Proof.
  intros HB HD Hmax. apply len_from_der_inv in HD. destruct HD as [Hle [[Hs ->]|HD]].
  - exists [l]. unfold len_to_der. destruct (N.ltb_spec INT_MAX l); [lia|].
    destruct (N.ltb_spec l 128); [|lia]. auto.
  - destruct HD as (b & k & c & cs & -> & Ek & Hb & Hk & Hlen & H1 & H2 & ->).
    apply Forall_cons_iff in HB; destruct HB as [Hb256 HB']. change (c :: cs ++ rest) with ((c :: cs) ++ rest) in HB'. apply Forall_app in HB'. destruct HB' as [HBc HBr].
    pose proof (land127 b Hb256 Hb) as Eb. rewrite <- Ek in Eb. clear Ek.
    pose proof (be_to_N_lt _ HBc) as LT. rewrite Hlen in LT.
    remember (be_to_N (c :: cs)) as l eqn:El.
    assert (GE : (k = 1 -> 128 <= l) /\ (1 < k -> 256 ^ (k - 1) <= l)).
    { rewrite El. rewrite be_to_N_cons. rewrite len_cons in Hlen. split; intros E.
      - assert (len cs = 0) by lia. apply len_0 in H. subst cs. cbn. specialize (H1 E). lia.
      - replace (len cs) with (k - 1) by lia. specialize (H2 E). nia. }
    assert (NB : len_nbytes l = k).
    { unfold len_nbytes. destruct GE as [G1 G2].
      destruct (pow256 k Hk) as [[E P]|[[E P]|[[E P]|[E P]]]]; rewrite P in LT.
      - destruct (N.ltb_spec l 256); lia.
      - specialize (G2 ltac:(lia)). rewrite E in G2. cbn in G2.
        destruct (N.ltb_spec l 256); [lia|]. destruct (N.ltb_spec l 65536); lia.
      - specialize (G2 ltac:(lia)). rewrite E in G2. cbn in G2.
        destruct (N.ltb_spec l 256); [lia|]. destruct (N.ltb_spec l 65536); [lia|].
        destruct (N.ltb_spec l 16777216); lia.
      - specialize (G2 ltac:(lia)). rewrite E in G2. cbn in G2.
        destruct (N.ltb_spec l 256); [lia|]. destruct (N.ltb_spec l 65536); [lia|].
        destruct (N.ltb_spec l 16777216); lia. }
    exists (b :: c :: cs). split; [|reflexivity].
    unfold len_to_der. destruct (N.ltb_spec INT_MAX l); [lia|].
    assert (128 <= l).
    { destruct GE as [G1 G2]. destruct (N.eq_dec k 1) as [E|E]; [apply G1; exact E|].
      specialize (G2 ltac:(lia)). destruct (pow256 (k - 1) ltac:(lia)) as [[_ P]|[[_ P]|[[_ P]|[_ P]]]]; rewrite P in G2; lia. }
    destruct (N.ltb_spec l 128); [lia|]. rewrite NB.
    f_equal. f_equal; [lia|].
    rewrite El. rewrite <- (N_to_be_of_be (c :: cs) HBc) at 2. f_equal. unfold len in Hlen. lia.
Qed.
Lemma len_enc_ok l : l <= INT_MAX -> len_to_der l = Some (len_enc l).
Proof.
  intros H. unfold len_enc. destruct (len_to_der l) eqn:E; [reflexivity|].
  unfold len_to_der in E. destruct (N.ltb_spec INT_MAX l); [lia|]. destruct (l <? 128); discriminate.
Qed.
Lemma len_sz_eq l : len_sz l = len (len_enc l).
Proof.
  unfold len_sz, len_enc. destruct (len_to_der l) eqn:E.
  - rewrite (len_size_eq _ _ E). reflexivity.
  - unfold len_to_der, len_size in *. destruct (INT_MAX <? l); [reflexivity|]. destruct (l <? 128); discriminate.
Qed.
Lemma len_from_der_enc l rest :
  l <= INT_MAX -> l <= len rest -> len_from_der (len_enc l ++ rest) = Ok (l, rest).
Proof. intros H1 H2. apply len_roundtrip; [apply len_enc_ok; assumption|assumption]. Qed.
Lemma len_from_der_nofault inp : len_from_der inp <> Fault.
Proof.
  destruct inp as [|b r]; cbn [len_from_der]; [discriminate|].
  unfold len_check.
  destruct (b <? 128); [destruct (len r <? b); discriminate|].
  destruct ((N.land b 127 <? 1) || (4 <? N.land b 127)) eqn:E; [discriminate|].
  destruct (N.ltb_spec (len r) (N.land b 127)); [discriminate|].
  destruct r as [|c r']; [rewrite len_nil in *; lia|].
  destruct ((N.land b 127 =? 1) && (c <? 128)); [discriminate|].
  destruct ((1 <? N.land b 127) && (c =? 0)); [discriminate|].
  match goal with |- context [if ?c then _ else _] => destruct c end; discriminate.
Qed.
Lemma len_from_der_suffix inp l rest :
  len_from_der inp = Ok (l, rest) -> exists pre, inp = pre ++ rest /\ pre <> [].
Proof.
  intros H. apply len_from_der_inv in H. destruct H as [_ [[_ ->]|(b & k & c & cs & -> & _)]].
  - exists [l]. split; [reflexivity|discriminate].
  - exists (b :: c :: cs). split; [reflexivity|discriminate].
Qed.

(* ------------------------------------------------------------------ generic TLV *)
Lemma type_from_der_inv tag inp d rest :
  type_from_der tag inp = Ok (d, rest) ->
  exists r l r', inp = tag :: r /\ len_from_der r = Ok (l, r') /\ d = takeN l r' /\ rest = dropN l r'
                 /\ l <= len r' /\ len d = l.
Proof.
  destruct inp as [|b r]; cbn [type_from_der]; [discriminate|].
  destruct (N.eqb_spec b tag) as [->|]; cbn [negb]; [|discriminate].
  destruct (len_from_der r) as [[l r']| | |] eqn:E; try discriminate.
  intros H; inversion H; subst. exists r, l, r'.
  pose proof (len_from_der_inv _ _ _ E) as [Hle _].
  repeat split; auto. apply len_takeN; assumption.
Qed.

Theorem type_roundtrip tag d rest :
  len d <= INT_MAX ->
  type_from_der tag (tag :: len_enc (len d) ++ d ++ rest) = Ok (d, rest).
Proof.
  intros H. cbn [type_from_der]. rewrite N.eqb_refl. cbn [negb].
  rewrite len_from_der_enc; [|assumption|rewrite len_app; lia].
  rewrite takeN_app, dropN_app. reflexivity.
Qed.

Theorem type_dry tag d e : type_to_der tag d = Ok e -> type_size tag d = len e.
Proof.
  destruct d as [d|]; cbn [type_to_der type_size]; [|discriminate]. intros H; inversion H; subst.
  rewrite len_cons, len_app, len_sz_eq. lia.
Qed.

Theorem type_canonical tag inp d rest :
  bytes_okP inp -> len inp <= INT_MAX -> type_from_der tag inp = Ok (d, rest) ->
  inp = tag :: len_enc (len d) ++ d ++ rest.
Proof.
  intros HB HM H. apply type_from_der_inv in H.
  destruct H as (r & l & r' & -> & HL & -> & -> & Hle & Hd).
  apply Forall_cons_iff in HB. destruct HB as [_ HB].
  destruct (len_from_der_suffix _ _ _ HL) as (pre & Epre & _).
  assert (l <= INT_MAX).
  { rewrite len_cons, Epre, len_app in HM. lia. }
  destruct (len_canonical _ _ _ HB HL H) as (e & He & ->).
  rewrite Hd. unfold len_enc. rewrite He. rewrite take_drop. reflexivity.
Qed.

Lemma type_from_der_nofault tag inp : type_from_der tag inp <> Fault.
Proof.
  destruct inp as [|b r]; cbn [type_from_der]; [discriminate|].
  destruct (negb (b =? tag)); [discriminate|].
  pose proof (len_from_der_nofault r). destruct (len_from_der r) as [[? ?]| | |]; congruence.
Qed.

(* ------------------------------------------------------------------ BOOLEAN *)
Theorem boolean_roundtrip tag val e rest :
  boolean_to_der tag val = Ok e -> boolean_from_der tag (e ++ rest) = Ok (negb (val =? 0)%Z, rest).
Proof.
  unfold boolean_to_der. destruct (val <? 0)%Z; [discriminate|]. intros H; inversion H; subst.
  cbn [app boolean_from_der]. rewrite N.eqb_refl. cbn [negb].
  rewrite !len_cons. destruct (N.ltb_spec (1 + (1 + (1 + len rest))) 3); [lia|].
  destruct (val =? 0)%Z; reflexivity.
Qed.
Theorem boolean_dry tag val e : boolean_to_der tag val = Ok e -> boolean_size val = len e.
Proof.
  unfold boolean_to_der, boolean_size. destruct (val <? 0)%Z; [discriminate|]. intros H; inversion H. reflexivity.
Qed.
Theorem boolean_canonical tag inp v rest :
  boolean_from_der tag inp = Ok (v, rest) -> inp = [tag; 1; if v then 255 else 0] ++ rest.
Proof.
  destruct inp as [|b r]; cbn [boolean_from_der]; [discriminate|].
  destruct (N.eqb_spec b tag) as [->|]; cbn [negb]; [|discriminate].
  destruct (len (tag :: r) <? 3); [discriminate|].
  destruct r as [|l [|x r']]; try discriminate.
  destruct (N.eqb_spec l 1) as [->|]; cbn [negb]; [|discriminate].
  destruct (N.eqb_spec x 255) as [->|]; cbn [negb andb].
  - intros H; inversion H; subst. reflexivity.
  - destruct (N.eqb_spec x 0) as [->|]; cbn [negb]; [|discriminate].
    intros H; inversion H; subst. reflexivity.
Qed.
(* bad booleans are refused: any content octet other than 00 / ff, any length other than 1 *)
Theorem boolean_refuses tag l x rest :
  l <> 1 \/ (x <> 0 /\ x <> 255) -> boolean_from_der tag (tag :: l :: x :: rest) = Err.
Proof.
  intros H. cbn [boolean_from_der]. rewrite N.eqb_refl. cbn [negb]. rewrite !len_cons.
  destruct (N.ltb_spec (1 + (1 + (1 + len rest))) 3); [lia|].
  destruct (N.eqb_spec l 1); cbn [negb]; [|reflexivity].
  destruct H as [H|[H1 H2]]; [contradiction|].
  destruct (N.eqb_spec x 255); [contradiction|]. destruct (N.eqb_spec x 0); [contradiction|]. reflexivity.
Qed.
Lemma boolean_from_der_nofault tag inp : boolean_from_der tag inp <> Fault.
Proof.
  destruct inp as [|b r]; cbn [boolean_from_der]; [discriminate|].
  destruct (negb (b =? tag)); [discriminate|]. rewrite len_cons.
  destruct (N.ltb_spec (1 + len r) 3); [discriminate|].
  destruct r as [|l [|x r']]; try (rewrite ?len_cons, ?len_nil in *; lia).
  destruct (negb (l =? 1)); [discriminate|]. destruct (negb (x =? 255) && negb (x =? 0)); discriminate.
Qed.

(* ------------------------------------------------------------------ INTEGER *)
Lemma hibit_0 : hibit 0 = false. Proof. reflexivity. Qed.

Definition int_norm (a : list N) : Prop :=        (* minimal unsigned big-endian form *)
  match a with [] => False | [_] => True | b :: _ => b <> 0 end.

Lemma strip0_norm a : a <> [] -> int_norm (strip0 a).
Proof.
  induction a as [|x a IH]; intros H; [contradiction|].
  destruct a as [|y a']; [cbn; destruct x; exact I|].
  destruct x as [|p].
  - change (strip0 (0 :: y :: a')) with (strip0 (y :: a')). apply IH. discriminate.
  - cbn. discriminate.
Qed.
Lemma strip0_id a : int_norm a -> strip0 a = a.
Proof.
  destruct a as [|x [|y a']]; cbn; intros H; try reflexivity.
  all: destruct x; try reflexivity; exfalso; apply H; reflexivity.
Qed.
Lemma strip0_len a : len (strip0 a) <= len a.
Proof.
  induction a as [|x a IH]; [cbn; lia|].
  destruct a as [|y a']; [destruct x; cbn; lia|].
  destruct x as [|p]; [|cbn [strip0]; lia].
  change (strip0 (0 :: y :: a')) with (strip0 (y :: a')). rewrite (len_cons 0). lia.
Qed.

Lemma integer_from_der_inv tag inp a rest :
  integer_from_der tag inp = Ok (a, rest) ->
  exists r0 l r, inp = tag :: r0 /\ len_from_der r0 = Ok (l, r) /\ l <> 0 /\ l <= len r /\
    ((exists c r2, r = 0 :: c :: r2 /\ 1 < l /\ hibit c = true /\ a = takeN (l - 1) (c :: r2) /\ rest = dropN (l - 1) (c :: r2)) \/
     (exists b r1, r = b :: r1 /\ hibit b = false /\ (b = 0 -> l = 1) /\ a = takeN l r /\ rest = dropN l r)).
Proof.
  destruct inp as [|t r0]; cbn [integer_from_der]; [discriminate|].
  destruct (N.eqb_spec t tag) as [->|]; cbn [negb]; [|discriminate].
  destruct (len_from_der r0) as [[l r]| | |] eqn:EL; try discriminate.
  destruct (N.eqb_spec l 0); [discriminate|].
  destruct r as [|b r1]; [discriminate|].
  destruct (hibit b) eqn:Hb; [discriminate|].
  pose proof (len_from_der_inv _ _ _ EL) as [Hle _].
  destruct ((b =? 0) && (1 <? l)) eqn:E.
  - apply andb_true_iff in E. destruct E as [E1 E2]. apply N.eqb_eq in E1. apply N.ltb_lt in E2. subst b.
    destruct r1 as [|c r2]; [discriminate|].
    destruct (hibit c) eqn:Hc; cbn [negb]; [|discriminate].
    destruct ((c =? 0) && (1 <? l - 1)); [discriminate|].
    intros H; inversion H; subst. exists r0, l, (0 :: c :: r2). repeat split; auto.
    left. exists c, r2. auto.
  - intros H; inversion H; subst. exists r0, l, (b :: r1). repeat split; auto.
    right. exists b, r1. repeat split; auto.
    intros ->. cbn in E. destruct (N.ltb_spec 1 l); [discriminate|lia].
Qed.

Lemma integer_to_der_shape tag a e :
  integer_to_der tag (Some a) = Ok e ->
  a <> [] /\ len a <= INT_MAX /\ exists b r, strip0 a = b :: r /\
    e = if hibit b then tag :: len_enc (len (b :: r) + 1) ++ 0 :: b :: r
        else tag :: len_enc (len (b :: r)) ++ b :: r.
Proof.
  unfold integer_to_der. destruct (N.eqb_spec (len a) 0) as [|Hne]; [discriminate|].
  destruct (N.ltb_spec INT_MAX (len a)); [discriminate|]. cbn [orb].
  assert (Ha : a <> []) by (intros ->; apply Hne; reflexivity).
  destruct (strip0 a) as [|b r] eqn:ES; [discriminate|].
  intros HE. split; [assumption|]. split; [assumption|]. exists b, r. split; [reflexivity|].
  destruct (hibit b); injection HE as <-; reflexivity.
Qed.

Theorem integer_roundtrip tag a e rest :
  integer_to_der tag (Some a) = Ok e -> len a < INT_MAX ->
  integer_from_der tag (e ++ rest) = Ok (strip0 a, rest).
Proof.
  intros HE HM. apply integer_to_der_shape in HE. destruct HE as (Ha & _ & b & r & ES & ->).
  pose proof (strip0_norm a Ha) as Hn. pose proof (strip0_len a) as Hl. rewrite ES in *.
  destruct (hibit b) eqn:Hb.
  - cbn [app integer_from_der]. rewrite N.eqb_refl. cbn [negb]. rewrite <- app_assoc.
    rewrite len_from_der_enc; [| lia | rewrite len_app, (len_cons 0); lia].
    destruct (N.eqb_spec (len (b :: r) + 1) 0); [lia|].
    cbn [app]. rewrite hibit_0. cbn [N.eqb andb].
    destruct (N.ltb_spec 1 (len (b :: r) + 1)); [|rewrite len_cons in *; lia].
    rewrite Hb. cbn [negb].
    destruct (N.eqb_spec b 0) as [->|]; [rewrite hibit_0 in Hb; discriminate|]. cbn [andb].
    replace (len (b :: r) + 1 - 1) with (len (b :: r)) by lia.
    change (b :: r ++ rest) with ((b :: r) ++ rest). rewrite takeN_app, dropN_app. reflexivity.
  - cbn [app integer_from_der]. rewrite N.eqb_refl. cbn [negb]. rewrite <- app_assoc.
    rewrite len_from_der_enc; [| lia | rewrite len_app; lia].
    destruct (N.eqb_spec (len (b :: r)) 0); [rewrite len_cons in *; lia|].
    cbn [app]. rewrite Hb.
    assert (E : (b =? 0) && (1 <? len (b :: r)) = false).
    { destruct (N.eqb_spec b 0) as [->|]; [|reflexivity]. cbn [andb].
      destruct r; [reflexivity|]. cbn in Hn. contradiction. }
    rewrite E.
    change (b :: r ++ rest) with ((b :: r) ++ rest). rewrite takeN_app, dropN_app. reflexivity.
Qed.

Theorem integer_dry tag a e : integer_to_der tag a = Ok e -> integer_size a = len e.
Proof.
  destruct a as [a|]; [|discriminate]. intros HE. apply integer_to_der_shape in HE.
  destruct HE as (_ & _ & b & r & ES & ->). unfold integer_size. rewrite ES.
  destruct (hibit b); rewrite (len_cons tag), len_app, len_sz_eq, ?(len_cons 0); lia.
Qed.

Lemma integer_to_der_norm tag b r :
  int_norm (b :: r) -> len (b :: r) <= INT_MAX ->
  integer_to_der tag (Some (b :: r)) =
  Ok (if hibit b then tag :: len_enc (len (b :: r) + 1) ++ 0 :: b :: r else tag :: len_enc (len (b :: r)) ++ b :: r).
Proof.
  intros Hn HM. unfold integer_to_der.
  destruct (N.eqb_spec (len (b :: r)) 0); [rewrite len_cons in *; lia|].
  destruct (N.ltb_spec INT_MAX (len (b :: r))); [lia|]. cbn [orb].
  rewrite (strip0_id (b :: r) Hn). cbv zeta. destruct (hibit b); reflexivity.
Qed.

Theorem integer_canonical tag inp a rest :
  bytes_okP inp -> len inp <= INT_MAX -> integer_from_der tag inp = Ok (a, rest) ->
  int_norm a /\ exists e, integer_to_der tag (Some a) = Ok e /\ inp = e ++ rest.
Proof.
  intros HB HM H. apply integer_from_der_inv in H.
  destruct H as (r0 & l & r & -> & HL & Hl0 & Hle & HC).
  apply Forall_cons_iff in HB. destruct HB as [_ HB].
  destruct (len_from_der_suffix _ _ _ HL) as (pre & Epre & Hpre).
  assert (Hpl : 1 <= len pre) by (destruct pre; [contradiction|rewrite len_cons; lia]).
  assert (HlM : l + 2 <= INT_MAX) by (rewrite len_cons, Epre, len_app in HM; lia).
  destruct (len_canonical _ _ _ HB HL ltac:(lia)) as (el & Hel & ->).
  assert (Eenc : len_enc l = el) by (unfold len_enc; rewrite Hel; reflexivity).
  destruct HC as [(c & r2 & -> & Hl1 & Hc & -> & ->)|(b & r1 & -> & Hb & Hb0 & -> & ->)].
  - rewrite !len_cons in Hle.
    assert (Hlen : len (takeN (l - 1) (c :: r2)) = l - 1) by (apply len_takeN; rewrite len_cons; lia).
    pose proof (take_drop (l - 1) (c :: r2)) as TD.
    destruct (takeN (l - 1) (c :: r2)) as [|c' a'] eqn:ET; [rewrite len_nil in Hlen; lia|].
    assert (c' = c).
    { unfold takeN in ET. destruct (N.to_nat (l - 1)) eqn:EK; [lia|]. cbn in ET. inversion ET; reflexivity. }
    subst c'.
    assert (Hc0 : c <> 0) by (intros ->; rewrite hibit_0 in Hc; discriminate).
    assert (Hn : int_norm (c :: a')) by (destruct a'; cbn; auto).
    split; [exact Hn|].
    rewrite (integer_to_der_norm tag c a' Hn) by lia. rewrite Hc.
    eexists. split; [reflexivity|].
    replace (len (c :: a') + 1) with l by lia. rewrite Eenc.
    cbn [app]. f_equal. rewrite <- app_assoc. f_equal. cbn [app]. f_equal. exact (eq_sym TD).
  - assert (Hlen : len (takeN l (b :: r1)) = l) by (apply len_takeN; assumption).
    pose proof (take_drop l (b :: r1)) as TD.
    destruct (takeN l (b :: r1)) as [|b' a'] eqn:ET; [rewrite len_nil in Hlen; lia|].
    assert (b' = b).
    { unfold takeN in ET. destruct (N.to_nat l) eqn:EK; [lia|]. cbn in ET. inversion ET; reflexivity. }
    subst b'.
    assert (Hn : int_norm (b :: a')).
    { destruct a' as [|y a'']; cbn; [exact I|]. intros ->. specialize (Hb0 eq_refl). rewrite !len_cons in Hlen. lia. }
    split; [exact Hn|].
    rewrite (integer_to_der_norm tag b a' Hn) by lia. rewrite Hb.
    eexists. split; [reflexivity|]. rewrite Hlen, Eenc.
    cbn [app]. f_equal. rewrite <- app_assoc. f_equal. exact (eq_sym TD).
Qed.

Lemma integer_from_der_nofault tag inp : integer_from_der tag inp <> Fault.
Proof.
  destruct inp as [|t r0]; cbn [integer_from_der]; [discriminate|].
  destruct (negb (t =? tag)); [discriminate|].
  pose proof (len_from_der_nofault r0) as NF.
  destruct (len_from_der r0) as [[l r]| | |] eqn:EL; try discriminate; [|congruence].
  pose proof (len_from_der_inv _ _ _ EL) as [Hle _].
  destruct (N.eqb_spec l 0); [discriminate|].
  destruct r as [|b r1]; [rewrite len_nil in Hle; lia|].
  destruct (hibit b); [discriminate|].
  destruct ((b =? 0) && (1 <? l)) eqn:E.
  - apply andb_true_iff in E. destruct E as [_ E2]. apply N.ltb_lt in E2.
    destruct r1 as [|c r2]; [rewrite !len_cons, len_nil in Hle; lia|].
    destruct (negb (hibit c)); [discriminate|]. destruct ((c =? 0) && (1 <? l - 1)); discriminate.
  - discriminate.
Qed.
(* ------------------------------------------------------------------ refusals *)
Theorem len_refuses_nonminimal :
  (forall c r, c < 128 -> len_from_der (129 :: c :: r) = Err) /\
  (forall k r, 1 < k <= 4 -> len_from_der ((128 + k) :: 0 :: r) = Err) /\
  (forall r, len_from_der (128 :: r) = Err) /\
  (forall k r, 4 < k < 128 -> len_from_der ((128 + k) :: r) = Err).
Proof.
  repeat split; intros.
  - cbn [len_from_der]. change (129 <? 128) with false. change (N.land 129 127) with 1.
    cbn [N.ltb N.compare Pos.compare Pos.compare_cont orb N.eqb Pos.eqb andb].
    rewrite len_cons. destruct (N.ltb_spec (1 + len r) 1); [reflexivity|].
    destruct (N.ltb_spec c 128); [reflexivity|lia].
  - cbn [len_from_der]. destruct (N.ltb_spec (128 + k) 128); [lia|]. rewrite land127_lo by lia.
    destruct (N.ltb_spec k 1); [lia|]. destruct (N.ltb_spec 4 k); [lia|]. cbn [orb].
    destruct (len (0 :: r) <? k); [reflexivity|].
    destruct (N.eqb_spec k 1); [lia|]. cbn [andb]. destruct (N.ltb_spec 1 k); [reflexivity|lia].
  - cbn [len_from_der]. destruct (N.ltb_spec (128 + k) 128); [lia|]. rewrite land127_lo by lia.
    destruct (N.ltb_spec k 1); [reflexivity|]. destruct (N.ltb_spec 4 k); [reflexivity|lia].
Qed.

Theorem integer_refuses tag r0 l :
  (forall b r1, len_from_der r0 = Ok (l, b :: r1) -> hibit b = true -> integer_from_der tag (tag :: r0) = Err) /\
  (forall c r2, len_from_der r0 = Ok (l, 0 :: c :: r2) -> 1 < l -> hibit c = false -> integer_from_der tag (tag :: r0) = Err) /\
  (forall r, len_from_der r0 = Ok (0, r) -> integer_from_der tag (tag :: r0) = Err).
Proof.
  repeat split; intros; cbn [integer_from_der]; rewrite N.eqb_refl; cbn [negb]; rewrite H.
  - destruct (l =? 0); [reflexivity|]. rewrite H0. reflexivity.
  - destruct (N.eqb_spec l 0); [reflexivity|]. rewrite hibit_0. cbn [N.eqb].
    destruct (N.ltb_spec 1 l); [|lia]. cbn [andb]. rewrite H1. reflexivity.
  - reflexivity.
Qed.

(* ------------------------------------------------------------------ INTEGER as C int *)
Lemma int_bytes_spec f a acc :
  a < 256 ^ N.of_nat f ->
  exists pre, int_bytes f a acc = pre ++ acc /\ be_to_N pre = a /\ bytes_okP pre /\ len pre <= N.of_nat f /\
              (a = 0 -> pre = []) /\ (a <> 0 -> exists b t, pre = b :: t /\ b <> 0).
Proof.
  revert a acc; induction f; intros a acc H.
  - cbn in H. exists []. cbn. repeat split; try constructor; try lia; try (intros; lia).
  - cbn [int_bytes]. destruct (N.eqb_spec a 0) as [->|Hne].
    + exists []. cbn. repeat split; try constructor; try lia; try (intros; lia).
    + rewrite Nat2N.inj_succ, N.pow_succ_r' in H.
      destruct (IHf (a / 256) (a mod 256 :: acc)) as (pre & E & V & B & L & Z0 & NZ).
      { apply N.div_lt_upper_bound; lia. }
      exists (pre ++ [a mod 256]). rewrite <- app_assoc. cbn [app]. split; [exact E|].
      split; [rewrite be_to_N_snoc, V; pose proof (N.div_mod a 256); lia|].
      split; [apply Forall_app; split; [exact B|constructor; [apply N.mod_lt; lia|constructor]]|].
      split; [rewrite len_app; change (len [a mod 256]) with 1; lia|].
      split; [intros; lia|]. intros _.
      destruct (N.eq_dec (a / 256) 0) as [E0|E0].
      * rewrite (Z0 E0). cbn [app]. exists (a mod 256), []. split; [reflexivity|].
        pose proof (N.div_mod a 256). lia.
      * destruct (NZ E0) as (b & t & -> & Hb). exists b, (t ++ [a mod 256]). split; [reflexivity|exact Hb].
Qed.

Lemma int_to_der_shape tag a :
  (0 <= a < 2 ^ 31)%Z ->
  exists p, int_to_der tag a = integer_to_der tag (Some p) /\ int_size a = integer_size (Some p) /\
            int_norm p /\ be_to_N p = Z.to_N a /\ len p <= 4 /\
            (forall b t, p = b :: t -> len p = 4 -> b < 128).
Proof.
  intros H. unfold int_to_der, int_size. destruct (Z.eqb_spec a (-1)); [lia|].
  destruct (Z.leb_spec a 0).
  - assert (a = 0%Z) by lia. subst a. exists [0]. cbn. repeat split; try lia; try (intros b t E _; inversion E; lia).
  - destruct (int_bytes_spec 4 (Z.to_N a) []) as (pre & E & V & B & L & _ & NZ).
    { change (256 ^ N.of_nat 4) with 4294967296. lia. }
    rewrite app_nil_r in E. rewrite E.
    destruct NZ as (b & t & -> & Hb); [lia|].
    exists (b :: t). repeat split; auto.
    + destruct t; cbn; auto.
    + intros b' t' E' L4. inversion E'; subst b' t'. rewrite be_to_N_cons in V. rewrite len_cons in L4.
      replace (len t) with 3 in V by lia. change (256 ^ 3) with 16777216 in V. lia.
Qed.

Theorem int_roundtrip tag a e rest :
  (0 <= a < 2 ^ 31)%Z -> int_to_der tag a = Ok e ->
  int_from_der Fixed tag (e ++ rest) = Ok (Z.to_N a, rest).
Proof.
  intros Ha HE. destruct (int_to_der_shape tag a Ha) as (p & E1 & _ & Hn & V & L & Top).
  rewrite E1 in HE. unfold int_from_der.
  rewrite (integer_roundtrip tag p e rest HE) by (unfold INT_MAX; lia).
  rewrite (strip0_id p Hn). destruct (N.ltb_spec 4 (len p)); [lia|].
  destruct p as [|b t]; [contradiction|].
  destruct (N.eqb_spec (len (b :: t)) 4) as [E4|]; cbn [andb].
  - specialize (Top b t eq_refl E4). destruct (N.leb_spec 128 b); [lia|]. rewrite V. reflexivity.
  - rewrite V. reflexivity.
Qed.
Theorem int_dry tag a e : (0 <= a < 2 ^ 31)%Z -> int_to_der tag a = Ok e -> int_size a = len e.
Proof.
  intros Ha HE. destruct (int_to_der_shape tag a Ha) as (p & E1 & E2 & _).
  rewrite E2. rewrite E1 in HE. apply (integer_dry tag (Some p) e HE).
Qed.

Lemma int_from_der_fixed_nofault tag inp : int_from_der Fixed tag inp <> Fault.
Proof.
  unfold int_from_der. pose proof (integer_from_der_nofault tag inp).
  destruct (integer_from_der tag inp) as [[p r]| | |]; try congruence.
  destruct (4 <? len p); [discriminate|]. destruct p as [|b t]; [discriminate|].
  destruct ((len (b :: t) =? 4) && (128 <=? b)); discriminate.
Qed.
(* the defect of the pinned tree: content 00 80 00 00 00 drives the signed shift into the sign bit *)
Example int_from_der_asis_faults : int_from_der AsIs 2 [2; 5; 0; 128; 0; 0; 0] = Fault.
Proof. reflexivity. Qed.

(* ------------------------------------------------------------------ NULL *)
Theorem null_roundtrip rest : null_from_der (null_to_der ++ rest) = Ok rest.
Proof. reflexivity. Qed.
Theorem null_canonical inp rest : null_from_der inp = Ok rest -> inp = null_to_der ++ rest.
Proof.
  destruct inp as [|t [|v r]]; cbn; try discriminate.
  - destruct (t =? 5); discriminate.
  - destruct (N.eqb_spec t 5) as [->|]; cbn; [|discriminate].
    destruct (N.eqb_spec v 0) as [->|]; cbn; [|discriminate]. intros H; inversion H; reflexivity.
Qed.
(* ------------------------------------------------------------------ BIT STRING *)
Theorem bit_string_roundtrip tag b nbits e rest :
  len b = (nbits + 7) / 8 -> len b + 1 <= INT_MAX ->
  bit_string_to_der tag (Some b) nbits = Ok e ->
  bit_string_from_der Fixed tag (e ++ rest) = Ok (b, nbits, rest).
Proof.
  intros Hb HM. unfold bit_string_to_der. rewrite <- Hb.
  destruct (N.ltb_spec (len b) (len b)); [lia|]. rewrite takeN_all. intros HE; injection HE as <-.
  cbn [app bit_string_from_der]. rewrite N.eqb_refl. cbn [negb]. rewrite <- app_assoc.
  rewrite len_from_der_enc; [| lia | rewrite len_app, len_cons; lia].
  cbn [fx_bit_empty Fixed app andb].
  destruct (N.ltb_spec (len b + 1) 1); [lia|].
  assert (U : len b * 8 - nbits <= 7) by lia.
  destruct (N.ltb_spec 7 (len b * 8 - nbits)); [lia|].
  assert (E : (len b + 1 =? 1) && negb (len b * 8 - nbits =? 0) = false).
  { destruct (N.eqb_spec (len b + 1) 1); [|reflexivity]. cbn [andb].
    destruct (N.eqb_spec (len b * 8 - nbits) 0); [reflexivity|lia]. }
  rewrite E. replace (len b + 1 - 1) with (len b) by lia.
  rewrite takeN_app, dropN_app. repeat f_equal. lia.
Qed.
Theorem bit_string_dry tag b nbits e :
  bit_string_to_der tag b nbits = Ok e -> bit_string_size b nbits = len e.
Proof.
  unfold bit_string_to_der, bit_string_size. destruct b as [b|]; [|destruct (nbits =? 0); discriminate].
  destruct (N.ltb_spec (len b) ((nbits + 7) / 8)); [discriminate|]. intros HE; injection HE as <-.
  rewrite len_cons, len_app, len_cons, len_sz_eq, len_takeN by assumption. lia.
Qed.
(* the defect of the pinned tree: the encoder's own output for the empty string is refused *)
Example bit_string_empty_asis_refused :
  bit_string_to_der 3 (Some []) 0 = Ok [3; 1; 0] /\ bit_string_from_der AsIs 3 [3; 1; 0] = Err
  /\ bit_string_from_der Fixed 3 [3; 1; 0] = Ok ([], 0, []).
Proof. repeat split. Qed.

Lemma bit_string_from_der_nofault m tag inp : bit_string_from_der m tag inp <> Fault.
Proof.
  destruct inp as [|t r0]; cbn [bit_string_from_der]; [discriminate|].
  destruct (negb (t =? tag)); [discriminate|].
  pose proof (len_from_der_nofault r0) as NF.
  destruct (len_from_der r0) as [[l r]| | |] eqn:EL; try discriminate; [|congruence].
  pose proof (len_from_der_inv _ _ _ EL) as [Hle _].
  destruct (fx_bit_empty m).
  - destruct (N.ltb_spec l 1); [discriminate|]. destruct r as [|u r1]; [rewrite len_nil in Hle; lia|].
    destruct (7 <? u); [discriminate|]. destruct (true && (l =? 1) && negb (u =? 0)); discriminate.
  - destruct (N.ltb_spec l 2); [discriminate|]. destruct r as [|u r1]; [rewrite len_nil in Hle; lia|].
    destruct (7 <? u); [discriminate|]. cbn [andb]. discriminate.
Qed.

(* ------------------------------------------------------------------ OID arcs, base 128 *)
Definition septet_val (buf : list N) : N := fold_left (fun a b => a * 128 + b mod 128) buf 0.

Lemma b128_hi_spec f a acc :
  a < 128 ^ N.of_nat f ->
  exists pre, b128_hi f a acc = pre ++ acc /\ Forall (fun b => 128 <= b < 256) pre /\ len pre <= N.of_nat f /\
              septet_val pre = a /\ (a = 0 -> pre = []) /\ (a <> 0 -> exists b t, pre = b :: t /\ b <> 128).
Proof.
  revert a acc; induction f; intros a acc H.
  - cbn in H. exists []. cbn. repeat split; try constructor; try lia; try (intros; lia).
  - cbn [b128_hi]. destruct (N.eqb_spec a 0) as [->|Hne].
    + exists []. cbn. repeat split; try constructor; try lia; try (intros; lia).
    + rewrite Nat2N.inj_succ, N.pow_succ_r' in H.
      destruct (IHf (a / 128) ((128 + a mod 128) :: acc)) as (pre & E & B & L & V & Z0 & NZ).
      { apply N.div_lt_upper_bound; lia. }
      exists (pre ++ [128 + a mod 128]). rewrite <- app_assoc. cbn [app]. split; [exact E|].
      split; [apply Forall_app; split; [exact B|constructor; [pose proof (N.mod_lt a 128); lia|constructor]]|].
      split; [rewrite len_app; change (len [128 + a mod 128]) with 1; lia|].
      split.
      { unfold septet_val in *. rewrite fold_left_app, V. cbn [fold_left].
        replace ((128 + a mod 128) mod 128) with (a mod 128) by (pose proof (N.mod_lt a 128); lia).
        pose proof (N.div_mod a 128); lia. }
      split; [intros; lia|]. intros _.
      destruct (N.eq_dec (a / 128) 0) as [E0|E0].
      * rewrite (Z0 E0). cbn [app]. exists (128 + a mod 128), []. split; [reflexivity|].
        pose proof (N.div_mod a 128). lia.
      * destruct (NZ E0) as (b & t & -> & Hb). exists b, (t ++ [128 + a mod 128]). split; [reflexivity|exact Hb].
Qed.

Lemma hibit_hi b : 128 <= b < 256 -> hibit b = true.
Proof. intros H. rewrite hibit_ge by lia. apply N.leb_le. lia. Qed.
Lemma hibit_lo b : b < 128 -> hibit b = false.
Proof. intros H. rewrite hibit_ge by lia. apply N.leb_gt. lia. Qed.

Lemma node_read_app pre d0 rest acc k :
  Forall (fun b => 128 <= b < 256) pre -> d0 < 128 ->
  node_read (length pre + S k) (pre ++ d0 :: rest) acc = Ok (rev acc ++ pre ++ [d0], rest).
Proof.
  revert acc; induction pre as [|b pre IH]; intros acc HB Hd.
  - cbn [length Nat.add node_read app]. rewrite hibit_lo by assumption. cbn [rev app]. reflexivity.
  - inversion HB; subst. cbn [length Nat.add node_read app]. rewrite hibit_hi by assumption.
    rewrite IH by assumption. cbn [rev]. rewrite <- !app_assoc. reflexivity.
Qed.

(* partial sums never exceed the final value: the mod 2^32 of the C arithmetic is the identity *)
Lemma septet_val_snoc l x : septet_val (l ++ [x]) = septet_val l * 128 + x mod 128.
Proof. unfold septet_val. rewrite fold_left_app. reflexivity. Qed.
Lemma node_val_eq buf : septet_val buf < 2 ^ 32 -> node_val buf = septet_val buf.
Proof.
  induction buf using rev_ind; intros H; [reflexivity|].
  rewrite septet_val_snoc in H. unfold node_val. rewrite fold_left_app. cbn [fold_left].
  fold (node_val buf). rewrite IHbuf by nia. rewrite septet_val_snoc. apply N.mod_small. exact H.
Qed.

Lemma top_septet_ok q : q < 16 -> N.land (128 + q) 112 = 0.
Proof.
  intros H. pose proof (sweep_lt (fun q => N.land (128 + q) 112 =? 0) 16 eq_refl q H) as E.
  apply N.eqb_eq in E. exact E.
Qed.

Theorem node_roundtrip a rest :
  a < 2 ^ 32 -> node_from_base128 Fixed (node_to_base128 a ++ rest) = Ok (a, rest).
Proof.
  intros Ha. unfold node_to_base128.
  destruct (b128_hi_spec 4 (a / 128) [a mod 128]) as (pre & E & B & L & V & Z0 & NZ).
  { change (128 ^ N.of_nat 4) with 268435456. change (2 ^ 32) with 4294967296 in Ha. lia. }
  rewrite E. unfold node_from_base128. rewrite <- app_assoc. cbn [app].
  assert (Hd : a mod 128 < 128) by (apply N.mod_lt; lia).
  assert (Hl : (length pre <= 4)%nat) by (unfold len in L; lia).
  replace 5%nat with (length pre + S (4 - length pre))%nat by lia.
  rewrite node_read_app by assumption. cbn [rev app].
  assert (SV : septet_val (pre ++ [a mod 128]) = a).
  { rewrite septet_val_snoc, V, N.mod_mod by lia. pose proof (N.div_mod a 128); lia. }
  destruct (pre ++ [a mod 128]) as [|b0 t] eqn:EP; [destruct pre; discriminate|].
  assert (Hlead : (len (b0 :: t) =? 5) && negb (N.land b0 112 =? 0) = false).
  { destruct (N.eqb_spec (len (b0 :: t)) 5) as [E5|]; [|reflexivity]. cbn [andb].
    assert (len pre = 4).
    { rewrite <- EP, len_app in E5. change (len [a mod 128]) with 1 in E5. lia. }
    destruct pre as [|p0 pt]; [rewrite len_nil in *; lia|]. cbn [app] in EP. injection EP as <- <-.
    (* p0 = 128 + top septet, top septet = a / 2^28 < 16 *)
    inversion B as [|? ? Hp0 Bt]; subst.
    assert (p0 - 128 < 16).
    { unfold septet_val in V. cbn [fold_left] in V.
      destruct pt as [|p1 [|p2 [|p3 [|p4 pt]]]]; rewrite ?len_cons, ?len_nil in *; try lia.
      cbn [fold_left] in V. inversion Bt as [|? ? Hp1 Bt1]; subst. inversion Bt1 as [|? ? Hp2 Bt2]; subst.
      inversion Bt2 as [|? ? Hp3 _]; subst.
      change (2 ^ 32) with 4294967296 in Ha. lia. }
    replace p0 with (128 + (p0 - 128)) by lia. rewrite top_septet_ok by assumption. reflexivity. }
  rewrite Hlead. cbn [fx_oid_lead Fixed andb].
  assert (Hb0 : (b0 =? 128) = false).
  { apply N.eqb_neq. destruct pre as [|p0 pt].
    - cbn [app] in EP. injection EP as <- <-. lia.
    - cbn [app] in EP. injection EP as <- <-.
      destruct (N.eq_dec (a / 128) 0) as [E0|E0]; [specialize (Z0 E0); discriminate|].
      destruct (NZ E0) as (b & t' & Eq & Hb). injection Eq as <- <-. exact Hb. }
  rewrite Hb0. rewrite node_val_eq by (rewrite SV; exact Ha). rewrite SV. reflexivity.
Qed.

(* the accepted non-canonical arc of the pinned tree *)
Example node_lead80_asis_accepted :
  node_from_base128 AsIs [128; 1] = Ok (1, []) /\ node_from_base128 Fixed [128; 1] = Err /\ node_to_base128 1 = [1].
Proof. repeat split. Qed.

(* ------------------------------------------------------------------ OID: octets, capacity *)
Lemma node_to_base128_nonempty a : exists b t, node_to_base128 a = b :: t.
Proof.
  unfold node_to_base128.
  assert (G : forall f x acc, acc <> [] -> exists b t, b128_hi f x acc = b :: t).
  { induction f; intros y ac Hac; cbn [b128_hi].
    - destruct ac; [contradiction|eauto].
    - destruct (y =? 0); [destruct ac; [contradiction|eauto]|]. apply IHf. discriminate. }
  apply G. discriminate.
Qed.

Lemma node_read_inv f inp acc buf r :
  node_read f inp acc = Ok (buf, r) -> buf <> [] /\ (length r < length inp)%nat.
Proof.
  revert inp acc; induction f; intros inp acc; cbn [node_read]; [discriminate|].
  destruct inp as [|b t]; [discriminate|]. destruct (hibit b).
  - intros H. apply IHf in H. destruct H as [H1 H2]. split; [exact H1|cbn [length]; lia].
  - intros H; injection H as <- <-. split; [|cbn [length]; lia].
    cbn [rev]. destruct (rev acc); discriminate.
Qed.
Lemma node_read_nofault f inp acc : node_read f inp acc <> Fault.
Proof.
  revert inp acc; induction f; intros inp acc; cbn [node_read]; [discriminate|].
  destruct inp as [|b t]; [discriminate|]. destruct (hibit b); [apply IHf|discriminate].
Qed.
Lemma node_from_base128_nofault m inp : node_from_base128 m inp <> Fault.
Proof.
  unfold node_from_base128. pose proof (node_read_nofault 5 inp []) as NF.
  destruct (node_read 5 inp []) as [[buf r]| | |] eqn:E; try congruence; try discriminate.
  apply node_read_inv in E. destruct E as [E _]. destruct buf as [|b0 t]; [contradiction|].
  destruct ((len (b0 :: t) =? 5) && negb (N.land b0 112 =? 0)); [discriminate|].
  destruct (fx_oid_lead m && (b0 =? 128)); discriminate.
Qed.
Lemma node_from_base128_shorter m inp v r :
  node_from_base128 m inp = Ok (v, r) -> (length r < length inp)%nat.
Proof.
  unfold node_from_base128. destruct (node_read 5 inp []) as [[buf r']| | |] eqn:E; try discriminate.
  apply node_read_inv in E. destruct E as [E1 E2]. destruct buf as [|b0 t]; [discriminate|].
  destruct ((len (b0 :: t) =? 5) && negb (N.land b0 112 =? 0)); [discriminate|].
  destruct (fx_oid_lead m && (b0 =? 128)); [discriminate|]. intros H; injection H as <- <-. exact E2.
Qed.

(* C06: with the corrected index test the loop never writes at or beyond index 32 *)
Lemma oid_loop_fixed_safe cap fuel inp cnt acc :
  OID_MAX_NODES <= cap -> (length inp <= fuel)%nat -> len acc = cnt ->
  match oid_loop Fixed cap fuel inp cnt acc with
  | Ok ns => cnt <= len ns /\ (len ns <= OID_MAX_NODES \/ len ns = cnt)
  | Fault => False
  | _ => True
  end.
Proof.
  intros Hcap. revert inp cnt acc. induction fuel; intros inp cnt acc Hf Hacc.
  - destruct inp; [|cbn in Hf; lia]. cbn. unfold len in *. rewrite rev_length. lia.
  - destruct inp as [|b t]; [cbn; unfold len in *; rewrite rev_length; lia|].
    cbn [oid_loop fx_oid_cap Fixed].
    destruct (N.leb_spec OID_MAX_NODES cnt); [exact I|].
    pose proof (node_from_base128_nofault Fixed (b :: t)) as NF.
    destruct (node_from_base128 Fixed (b :: t)) as [[v r]| | |] eqn:E; try exact I; [|congruence].
    apply node_from_base128_shorter in E.
    destruct (N.leb_spec cap cnt); [lia|].
    specialize (IHfuel r (cnt + 1) (v :: acc) ltac:(cbn [length] in *; lia) ltac:(rewrite len_cons; lia)).
    destruct (oid_loop Fixed cap fuel r (cnt + 1) (v :: acc)); auto.
    destruct IHfuel as [I1 I2]. split; [lia|]. left. destruct I2; lia.
Qed.

Theorem oid_from_octets_fixed_safe cap inp :
  OID_MAX_NODES <= cap ->
  match oid_from_octets Fixed cap inp with
  | Ok ns => 2 <= len ns <= OID_MAX_NODES
  | Fault => False
  | _ => True
  end.
Proof.
  intros Hcap. unfold oid_from_octets. destruct inp as [|b r]; [exact I|].
  destruct (N.ltb_spec cap 2); [unfold OID_MAX_NODES in *; lia|]. cbn [fx_oid_first Fixed].
  pose proof (node_from_base128_nofault Fixed (b :: r)) as NF.
  destruct (node_from_base128 Fixed (b :: r)) as [[v r']| | |] eqn:E; try exact I; [|congruence].
  set (p := if v <? 40 then (0, v) else if v <? 80 then (1, v - 40) else (2, v - 80)).
  destruct p as [n0 n1].
  pose proof (oid_loop_fixed_safe cap (length r') r' 2 [n1; n0] Hcap (le_n _) eq_refl) as S.
  destruct (oid_loop Fixed cap (length r') r' 2 [n1; n0]); auto.
  unfold OID_MAX_NODES in *. lia.
Qed.

(* the defect of the pinned tree: 33 arcs write nodes[32] *)
Example oid_33_arcs_asis_faults :
  oid_from_octets AsIs 32 (42 :: repeat 1 31) = Fault /\ oid_from_octets Fixed 32 (42 :: repeat 1 31) = Err.
Proof. split; vm_compute; reflexivity. Qed.

Lemma oid_loop_concat cap fuel arcs cnt acc :
  OID_MAX_NODES <= cap -> Forall (fun a => a < 2 ^ 32) arcs -> cnt + len arcs <= OID_MAX_NODES ->
  (length (concat (map node_to_base128 arcs)) <= fuel)%nat ->
  oid_loop Fixed cap fuel (concat (map node_to_base128 arcs)) cnt acc = Ok (rev acc ++ arcs).
Proof.
  intros Hcap. revert fuel cnt acc. induction arcs as [|a arcs IH]; intros fuel cnt acc HA HC HF.
  - cbn. destruct fuel; rewrite app_nil_r; reflexivity.
  - inversion HA as [|? ? Ha HA']; subst. cbn [map concat] in *.
    destruct (node_to_base128_nonempty a) as (b & t & Eb).
    destruct fuel as [|fuel]; [rewrite Eb in HF; cbn in HF; lia|].
    assert (U : forall X, oid_loop Fixed cap (S fuel) (node_to_base128 a ++ X) cnt acc =
                    if OID_MAX_NODES <=? cnt then Err else
                    match node_from_base128 Fixed (node_to_base128 a ++ X) with
                    | Ok (v, r) => if cap <=? cnt then Fault else oid_loop Fixed cap fuel r (cnt + 1) (v :: acc)
                    | Fault => Fault | _ => Err end).
    { intros X. rewrite Eb. reflexivity. }
    rewrite U. rewrite len_cons in HC.
    destruct (N.leb_spec OID_MAX_NODES cnt); [lia|]. rewrite node_roundtrip by assumption.
    destruct (N.leb_spec cap cnt); [lia|].
    rewrite IH; [cbn [rev]; rewrite <- app_assoc; reflexivity|assumption|lia|].
    rewrite app_length, Eb in HF. cbn [length] in HF. lia.
Qed.

Theorem oid_octets_roundtrip nodes o :
  Forall (fun a => a < 2 ^ 32) nodes -> oid_to_octets Fixed nodes = Ok o ->
  oid_from_octets Fixed 32 o = Ok nodes.
Proof.
  intros HA. unfold oid_to_octets.
  destruct (N.ltb_spec (len nodes) 2); [discriminate|]. destruct (N.ltb_spec OID_MAX_NODES (len nodes)); [discriminate|].
  cbn [orb]. destruct nodes as [|n0 [|n1 r]]; try discriminate.
  unfold oid_first_to. cbn [fx_oid_first Fixed].
  destruct (N.ltb_spec 2 n0) as [|Hn0]; [discriminate|]. cbn [orb].
  destruct ((n0 <? 2) && (39 <? n1)) eqn:E1; [discriminate|]. cbn [orb].
  destruct (N.leb_spec (2 ^ 32) (n0 * 40 + n1)) as [|Hn2]; [discriminate|].
  intros HE; injection HE as <-.
  unfold oid_from_octets.
  destruct (node_to_base128_nonempty (n0 * 40 + n1)) as (b & t & Eb). rewrite Eb. cbn [app].
  change (32 <? 2) with false. cbn [fx_oid_first Fixed]. change (b :: t ++ ?X) with ((b :: t) ++ X). rewrite <- Eb.
  rewrite node_roundtrip by assumption.
  inversion HA as [|? ? _ HA1]; subst. inversion HA1 as [|? ? _ HA2]; subst.
  assert (Esplit : (if n0 * 40 + n1 <? 40 then (0, n0 * 40 + n1)
                    else if n0 * 40 + n1 <? 80 then (1, n0 * 40 + n1 - 40) else (2, n0 * 40 + n1 - 80)) = (n0, n1)).
  { destruct (N.ltb_spec (n0 * 40 + n1) 40); [f_equal; lia|].
    destruct (N.ltb_spec (n0 * 40 + n1) 80); f_equal; lia. }
  rewrite Esplit. rewrite oid_loop_concat; [reflexivity|unfold OID_MAX_NODES; lia|assumption| |apply le_n].
  rewrite !len_cons in *. unfold OID_MAX_NODES in *. lia.
Qed.
(* ------------------------------------------------------------------ consumed <= length input *)
Definition suffix_of (rest inp : list N) : Prop := exists pre, inp = pre ++ rest.
Definition proper_suffix_of (rest inp : list N) : Prop := exists pre, inp = pre ++ rest /\ pre <> [].

Lemma dropN_suffix n (l : list N) : suffix_of (dropN n l) l.
Proof. exists (takeN n l). symmetry. apply take_drop. Qed.
Lemma suffix_trans a b c : suffix_of a b -> suffix_of b c -> suffix_of a c.
Proof. intros [p ->] [q ->]. exists (q ++ p). rewrite app_assoc. reflexivity. Qed.
Lemma proper_suffix_len rest inp : proper_suffix_of rest inp -> (length rest < length inp)%nat.
Proof. intros (pre & -> & H). rewrite app_length. destruct pre; [contradiction|cbn; lia]. Qed.
Lemma suffix_cons_proper x rest inp : suffix_of rest inp -> proper_suffix_of rest (x :: inp).
Proof. intros [p ->]. exists (x :: p). split; [reflexivity|discriminate]. Qed.

Lemma len_from_der_suffix' inp l rest : len_from_der inp = Ok (l, rest) -> suffix_of rest inp.
Proof. intros H. apply len_from_der_suffix in H. destruct H as (p & -> & _). exists p; reflexivity. Qed.

Theorem type_from_der_suffix tag inp d rest :
  type_from_der tag inp = Ok (d, rest) -> proper_suffix_of rest inp /\ len d <= len inp.
Proof.
  intros H. apply type_from_der_inv in H. destruct H as (r & l & r' & -> & HL & -> & -> & Hle & Hd).
  split.
  - apply suffix_cons_proper. eapply suffix_trans; [apply dropN_suffix|eapply len_from_der_suffix'; eassumption].
  - rewrite Hd. apply len_from_der_suffix' in HL. destruct HL as [p ->]. rewrite len_cons, len_app. lia.
Qed.
Theorem integer_from_der_suffix tag inp a rest :
  integer_from_der tag inp = Ok (a, rest) -> proper_suffix_of rest inp.
Proof.
  intros H. apply integer_from_der_inv in H.
  destruct H as (r0 & l & r & -> & HL & _ & _ & [(c & r2 & -> & _ & _ & _ & ->)|(b & r1 & -> & _ & _ & _ & ->)]);
    apply suffix_cons_proper; (eapply suffix_trans; [|eapply len_from_der_suffix'; eassumption]).
  - eapply suffix_trans; [apply dropN_suffix|]. exists [0]. reflexivity.
  - apply dropN_suffix.
Qed.
Theorem int_from_der_suffix m tag inp v rest :
  int_from_der m tag inp = Ok (v, rest) -> proper_suffix_of rest inp.
Proof.
  unfold int_from_der. destruct (integer_from_der tag inp) as [[p r]| | |] eqn:E; try discriminate.
  apply integer_from_der_suffix in E. destruct (4 <? len p); [discriminate|].
  destruct p as [|b t].
  - intros H; injection H as <- <-. exact E.
  - destruct ((len (b :: t) =? 4) && (128 <=? b)); [destruct (fx_int_shift m); discriminate|].
    intros H; injection H as <- <-. exact E.
Qed.

(* ------------------------------------------------------------------ SEQUENCE OF INTEGER *)
Lemma seq_ints_loop_fixed_safe cap maxn fuel d cnt acc :
  maxn <= cap -> (length d <= fuel)%nat -> len acc = cnt ->
  match seq_ints_loop Fixed cap maxn fuel d cnt acc with
  | Ok ns => cnt <= len ns /\ (len ns <= maxn \/ len ns = cnt)
  | Fault => False
  | _ => True
  end.
Proof.
  intros Hcap. revert d cnt acc. induction fuel; intros d cnt acc Hf Hacc.
  - destruct d; [|cbn in Hf; lia]. cbn. unfold len in *. rewrite rev_length. lia.
  - destruct d as [|b t]; [cbn; unfold len in *; rewrite rev_length; lia|].
    cbn [seq_ints_loop fx_seq_cap Fixed].
    destruct (N.leb_spec maxn cnt); [exact I|].
    pose proof (int_from_der_fixed_nofault 2 (b :: t)) as NF.
    destruct (int_from_der Fixed 2 (b :: t)) as [[v r]| | |] eqn:E; try exact I; [|congruence].
    apply int_from_der_suffix, proper_suffix_len in E.
    destruct (N.leb_spec cap cnt); [lia|].
    specialize (IHfuel r (cnt + 1) (v :: acc) ltac:(cbn [length] in *; lia) ltac:(rewrite len_cons; lia)).
    destruct (seq_ints_loop Fixed cap maxn fuel r (cnt + 1) (v :: acc)); auto.
    destruct IHfuel as [I1 I2]. split; [lia|]. left. destruct I2; lia.
Qed.

Theorem seq_of_int_from_der_fixed_safe cap maxn inp :
  maxn <= cap ->
  match seq_of_int_from_der Fixed cap maxn inp with
  | Ok (ns, rest) => len ns <= maxn /\ proper_suffix_of rest inp
  | Fault => False
  | _ => True
  end.
Proof.
  intros Hcap. unfold seq_of_int_from_der. destruct (maxn =? 0); [exact I|].
  pose proof (type_from_der_nofault 48 inp) as NF.
  destruct (type_from_der 48 inp) as [[d r]| | |] eqn:E; try exact I; [|congruence].
  apply type_from_der_suffix in E. destruct E as [E _].
  pose proof (seq_ints_loop_fixed_safe cap maxn (length d) d 0 [] Hcap (le_n _) eq_refl) as S.
  destruct (seq_ints_loop Fixed cap maxn (length d) d 0 []); auto.
  split; [|exact E]. destruct S as [_ [S|S]]; lia.
Qed.

Example seq_of_int_asis_faults :
  seq_of_int_from_der AsIs 1 1 [48; 6; 2; 1; 1; 2; 1; 2] = Fault /\
  seq_of_int_from_der Fixed 1 1 [48; 6; 2; 1; 1; 2; 1; 2] = Err.
Proof. split; reflexivity. Qed.

Definition int_range (a : Z) : Prop := (0 <= a < 2 ^ 31)%Z.

Lemma int_to_der_cons tag a e : int_range a -> int_to_der tag a = Ok e -> exists t, e = tag :: t.
Proof.
  intros Ha HE. destruct (int_to_der_shape tag a Ha) as (p & E1 & _). rewrite E1 in HE.
  apply integer_to_der_shape in HE. destruct HE as (_ & _ & b & r & _ & ->). destruct (hibit b); eauto.
Qed.

Lemma seq_ints_loop_body cap maxn fuel nums body cnt acc :
  maxn <= cap -> Forall int_range nums -> seq_ints_body 2 nums = Ok body -> cnt + len nums <= maxn ->
  (length body <= fuel)%nat ->
  seq_ints_loop Fixed cap maxn fuel body cnt acc = Ok (rev acc ++ map Z.to_N nums).
Proof.
  intros Hcap. revert fuel body cnt acc. induction nums as [|a nums IH]; intros fuel body cnt acc HA HB HC HF.
  - cbn in HB. injection HB as <-. cbn. destruct fuel; rewrite app_nil_r; reflexivity.
  - inversion HA as [|? ? Ha HA']; subst. cbn [seq_ints_body] in HB.
    destruct (int_to_der 2 a) as [e| | |] eqn:Ee; try discriminate.
    destruct (seq_ints_body 2 nums) as [e'| | |] eqn:Ee'; try discriminate. injection HB as <-.
    destruct (int_to_der_cons 2 a e Ha Ee) as (t & Et).
    destruct fuel as [|fuel]; [rewrite Et in HF; cbn in HF; lia|].
    assert (U : seq_ints_loop Fixed cap maxn (S fuel) (e ++ e') cnt acc =
                if maxn <=? cnt then Err else
                match int_from_der Fixed 2 (e ++ e') with
                | Ok (v, r) => if cap <=? cnt then Fault else seq_ints_loop Fixed cap maxn fuel r (cnt + 1) (v :: acc)
                | Fault => Fault | _ => Err end).
    { rewrite Et. reflexivity. }
    rewrite U. rewrite len_cons in HC.
    destruct (N.leb_spec maxn cnt); [lia|]. rewrite (int_roundtrip 2 a e e' Ha Ee).
    destruct (N.leb_spec cap cnt); [lia|].
    rewrite (IH fuel e' (cnt + 1) (Z.to_N a :: acc)); [cbn [rev map]; rewrite <- app_assoc; reflexivity|assumption|reflexivity|lia|].
    rewrite app_length, Et in HF. cbn [length] in HF. lia.
Qed.

Theorem seq_of_int_roundtrip cap maxn nums e rest :
  maxn <= cap -> Forall int_range nums -> len nums <= maxn -> len e <= INT_MAX ->
  seq_of_int_to_der nums = Ok e ->
  seq_of_int_from_der Fixed cap maxn (e ++ rest) = Ok (map Z.to_N nums, rest).
Proof.
  intros Hcap HA HN HM. unfold seq_of_int_to_der.
  destruct (N.eqb_spec (len nums) 0); [discriminate|].
  destruct (seq_ints_body 2 nums) as [body| | |] eqn:EB; try discriminate.
  intros HE; injection HE as <-. unfold seq_of_int_from_der.
  destruct (N.eqb_spec maxn 0); [lia|].
  cbn [app]. rewrite <- app_assoc.
  rewrite type_roundtrip by (rewrite len_cons, len_app in HM; lia).
  rewrite (seq_ints_loop_body cap maxn (length body) nums body 0 [] Hcap HA EB); [reflexivity|lia|apply le_n].
Qed.
(* ------------------------------------------------------------------ character strings *)
Theorem string_roundtrip valid tag d e rest :
  d <> [] -> len d <= INT_MAX -> string_to_der valid tag (Some d) = Ok e ->
  string_from_der valid tag (e ++ rest) = Ok (d, rest).
Proof.
  intros Hd HM. unfold string_to_der, string_from_der. destruct (valid d) eqn:V; cbn [negb]; [|discriminate].
  cbn [type_to_der]. intros HE; injection HE as <-. cbn [app]. rewrite <- app_assoc.
  rewrite type_roundtrip by assumption.
  destruct (N.eqb_spec (len d) 0) as [E|]; [apply len_0 in E; contradiction|]. rewrite V. reflexivity.
Qed.
Theorem string_from_der_valid valid tag inp d rest :
  string_from_der valid tag inp = Ok (d, rest) -> valid d = true /\ d <> [] /\ type_from_der tag inp = Ok (d, rest).
Proof.
  unfold string_from_der. destruct (type_from_der tag inp) as [[d' r]| | |]; try discriminate.
  destruct (N.eqb_spec (len d') 0); [discriminate|]. destruct (valid d') eqn:V; [|discriminate].
  intros H; injection H as <- <-. repeat split; auto. intros ->. rewrite len_nil in *. lia.
Qed.

(* Spec: X.680 41.4 PrintableString alphabet; IA5 = 7-bit *)
Definition printable_alphabet : list N :=
  [65;66;67;68;69;70;71;72;73;74;75;76;77;78;79;80;81;82;83;84;85;86;87;88;89;90;
   97;98;99;100;101;102;103;104;105;106;107;108;109;110;111;112;113;114;115;116;117;118;119;120;121;122;
   48;49;50;51;52;53;54;55;56;57; 32; 39; 40; 41; 43; 44; 45; 46; 47; 58; 61; 63].
Theorem printable_spec c : char_is_printable c = existsb (N.eqb c) printable_alphabet.
Proof.
  destruct (N.ltb_spec c 256) as [H|H].
  - pose proof (sweep256 (fun c => Bool.eqb (char_is_printable c) (existsb (N.eqb c) printable_alphabet)) eq_refl c H) as E.
    apply eqb_prop in E. exact E.
  - unfold char_is_printable, printable_alphabet. cbn [existsb].
    repeat match goal with |- context [N.eqb c ?k] => destruct (N.eqb_spec c k); [lia|] end.
    repeat match goal with |- context [N.leb c ?k] => destruct (N.leb_spec c k); [lia|] end.
    rewrite !andb_false_r. reflexivity.
Qed.

(* Spec: RFC 3629 section 4 (UTF8-octets = *( UTF8-char )) *)
Definition tail (c : N) : Prop := 128 <= c <= 191.
Inductive utf8_char : list N -> Prop :=
| U1 b : b <= 127 -> utf8_char [b]
| U2 b c : 194 <= b <= 223 -> tail c -> utf8_char [b; c]
| U3a c d : 160 <= c <= 191 -> tail d -> utf8_char [224; c; d]
| U3b b c d : 225 <= b <= 236 -> tail c -> tail d -> utf8_char [b; c; d]
| U3c c d : 128 <= c <= 159 -> tail d -> utf8_char [237; c; d]
| U3d b c d : 238 <= b <= 239 -> tail c -> tail d -> utf8_char [b; c; d]
| U4a c d e : 144 <= c <= 191 -> tail d -> tail e -> utf8_char [240; c; d; e]
| U4b b c d e : 241 <= b <= 243 -> tail c -> tail d -> tail e -> utf8_char [b; c; d; e]
| U4c c d e : 128 <= c <= 143 -> tail d -> tail e -> utf8_char [244; c; d; e].
Inductive utf8_octets : list N -> Prop :=
| UNil : utf8_octets []
| UCons ch s : utf8_char ch -> utf8_octets s -> utf8_octets (ch ++ s).

Definition lead_len (b : N) : N :=
  if N.land b 128 =? 0 then 1 else if N.land b 224 =? 192 then 2 else if N.land b 240 =? 224 then 3
  else if N.land b 248 =? 240 then 4 else 0.
Lemma lead_len_spec b : b < 256 ->
  lead_len b = if b <? 128 then 1 else if b <? 192 then 0 else if b <? 224 then 2 else if b <? 240 then 3 else if b <? 248 then 4 else 0.
Proof.
  intros H.
  pose proof (sweep256 (fun b => lead_len b =? (if b <? 128 then 1 else if b <? 192 then 0 else if b <? 224 then 2 else if b <? 240 then 3 else if b <? 248 then 4 else 0)) eq_refl b H) as E.
  apply N.eqb_eq in E. exact E.
Qed.
Lemma cont_ok c : tail c -> utf8_cont_bad Fixed c = false.
Proof.
  intros [H1 H2].
  pose proof (sweep256 (fun c => (c <? 128) || (191 <? c) || negb (utf8_cont_bad Fixed c)) eq_refl c ltac:(lia)) as E.
  cbv beta in E.
  assert (A1 : (c <? 128) = false) by (apply N.ltb_ge; lia).
  assert (A2 : (191 <? c) = false) by (apply N.ltb_ge; lia).
  rewrite A1, A2 in E. cbn [orb] in E.
  destruct (utf8_cont_bad Fixed c); [discriminate|reflexivity].
Qed.

Lemma ll1 b : b <= 127 -> lead_len b = 1.
Proof. intros. rewrite lead_len_spec by lia. destruct (N.ltb_spec b 128); [reflexivity|lia]. Qed.
Lemma ll2 b : 192 <= b <= 223 -> lead_len b = 2.
Proof. intros. rewrite lead_len_spec by lia. destruct (N.ltb_spec b 128); [lia|]. destruct (N.ltb_spec b 192); [lia|].
  destruct (N.ltb_spec b 224); [reflexivity|lia]. Qed.
Lemma ll3 b : 224 <= b <= 239 -> lead_len b = 3.
Proof. intros. rewrite lead_len_spec by lia. destruct (N.ltb_spec b 128); [lia|]. destruct (N.ltb_spec b 192); [lia|].
  destruct (N.ltb_spec b 224); [lia|]. destruct (N.ltb_spec b 240); [reflexivity|lia]. Qed.
Lemma ll4 b : 240 <= b <= 247 -> lead_len b = 4.
Proof. intros. rewrite lead_len_spec by lia. destruct (N.ltb_spec b 128); [lia|]. destruct (N.ltb_spec b 192); [lia|].
  destruct (N.ltb_spec b 224); [lia|]. destruct (N.ltb_spec b 240); [lia|]. destruct (N.ltb_spec b 248); [reflexivity|lia]. Qed.

Lemma utf8char_unfold m b r :
  utf8char_from_bytes m (b :: r) =
  if lead_len b =? 0 then Err else if len (b :: r) <? lead_len b then Err
  else if existsb (utf8_cont_bad m) (takeN (lead_len b - 1) r) then Err else Ok (dropN (lead_len b - 1) r).
Proof. reflexivity. Qed.

Lemma u_case1 b s : lead_len b = 1 -> utf8char_from_bytes Fixed (b :: s) = Ok s.
Proof.
  intros E. rewrite utf8char_unfold, E. rewrite len_cons. destruct (N.ltb_spec (1 + len s) 1); [lia|]. reflexivity.
Qed.
Lemma u_case2 b c s : lead_len b = 2 -> tail c -> utf8char_from_bytes Fixed (b :: c :: s) = Ok s.
Proof.
  intros E Hc. rewrite utf8char_unfold, E. rewrite !len_cons. destruct (N.ltb_spec (1 + (1 + len s)) 2); [lia|].
  change (takeN (2 - 1) (c :: s)) with [c]. change (dropN (2 - 1) (c :: s)) with s.
  cbn [existsb N.eqb]. rewrite (cont_ok c Hc). reflexivity.
Qed.
Lemma u_case3 b c d s : lead_len b = 3 -> tail c -> tail d -> utf8char_from_bytes Fixed (b :: c :: d :: s) = Ok s.
Proof.
  intros E Hc Hd. rewrite utf8char_unfold, E. rewrite !len_cons. destruct (N.ltb_spec (1 + (1 + (1 + len s))) 3); [lia|].
  change (takeN (3 - 1) (c :: d :: s)) with [c; d]. change (dropN (3 - 1) (c :: d :: s)) with s.
  cbn [existsb N.eqb]. rewrite (cont_ok c Hc), (cont_ok d Hd). reflexivity.
Qed.
Lemma u_case4 b c d e s : lead_len b = 4 -> tail c -> tail d -> tail e -> utf8char_from_bytes Fixed (b :: c :: d :: e :: s) = Ok s.
Proof.
  intros E Hc Hd He. rewrite utf8char_unfold, E. rewrite !len_cons. destruct (N.ltb_spec (1 + (1 + (1 + (1 + len s)))) 4); [lia|].
  change (takeN (4 - 1) (c :: d :: e :: s)) with [c; d; e]. change (dropN (4 - 1) (c :: d :: e :: s)) with s.
  cbn [existsb N.eqb]. rewrite (cont_ok c Hc), (cont_ok d Hd), (cont_ok e He). reflexivity.
Qed.

Lemma utf8char_accepts ch s : utf8_char ch -> utf8char_from_bytes Fixed (ch ++ s) = Ok s.
Proof.
  intros H. inversion H; subst; cbn [app]; unfold tail in *.
  - apply u_case1, ll1; lia.
  - apply u_case2; [apply ll2; lia|unfold tail; lia].
  - apply u_case3; [apply ll3; lia|unfold tail; lia|unfold tail; lia].
  - apply u_case3; [apply ll3; lia|unfold tail; lia|unfold tail; lia].
  - apply u_case3; [apply ll3; lia|unfold tail; lia|unfold tail; lia].
  - apply u_case3; [apply ll3; lia|unfold tail; lia|unfold tail; lia].
  - apply u_case4; [apply ll4; lia|unfold tail; lia|unfold tail; lia|unfold tail; lia].
  - apply u_case4; [apply ll4; lia|unfold tail; lia|unfold tail; lia|unfold tail; lia].
  - apply u_case4; [apply ll4; lia|unfold tail; lia|unfold tail; lia|unfold tail; lia].
Qed.

Lemma utf8_char_nonempty ch : utf8_char ch -> exists b t, ch = b :: t.
Proof. intros H; inversion H; eauto. Qed.

Lemma is_utf8_loop_accepts s : utf8_octets s -> forall fuel, (length s <= fuel)%nat -> is_utf8_loop Fixed fuel s = true.
Proof.
  induction 1 as [|ch s Hc Hs IH]; intros fuel Hf.
  - destruct fuel; reflexivity.
  - destruct (utf8_char_nonempty ch Hc) as (b & t & ->).
    destruct fuel as [|fuel]; [cbn in Hf; lia|].
    change (is_utf8_loop Fixed (S fuel) ((b :: t) ++ s)) with
      (match utf8char_from_bytes Fixed ((b :: t) ++ s) with Ok r => is_utf8_loop Fixed fuel r | _ => false end).
    rewrite (utf8char_accepts _ s Hc). apply IH. rewrite app_length in Hf. cbn [length] in Hf. lia.
Qed.

(* every non-empty RFC 3629 string is accepted by the corrected validator ... *)
Theorem utf8_valid_accepted s : utf8_octets s -> s <> [] -> is_utf8_string Fixed s = true.
Proof.
  intros H Hne. unfold is_utf8_string. destruct s; [contradiction|]. apply is_utf8_loop_accepts; [exact H|apply le_n].
Qed.
(* ... and the validator of the pinned tree refuses every multi-byte character, e.g. U+00E9 *)
Example utf8_asis_refuses_e_acute :
  utf8_octets [195; 169] /\ is_utf8_string AsIs [195; 169] = false /\ is_utf8_string Fixed [195; 169] = true.
Proof.
  split; [|split; reflexivity].
  change [195; 169] with ([195; 169] ++ []). constructor; [|constructor].
  apply U2; unfold tail; lia.
Qed.
Theorem utf8_asis_only_ascii s : is_utf8_string AsIs s = true -> Forall (fun b => N.land b 128 = 0) s.
Proof.
  unfold is_utf8_string. destruct s as [|x s']; [discriminate|]. generalize (length (x :: s')) as fuel. generalize (x :: s') as s.
  clear. intros s fuel. revert s. induction fuel; intros s.
  - destruct s; [constructor|discriminate].
  - destruct s as [|b r]; [constructor|]. cbn [is_utf8_loop]. rewrite utf8char_unfold.
    unfold lead_len. destruct (N.eqb_spec (N.land b 128) 0) as [E|E].
    + cbn [N.eqb Pos.eqb]. destruct (len (b :: r) <? 1); [discriminate|].
      change (takeN (1 - 1) r) with (@nil N). change (dropN (1 - 1) r) with r. cbn [existsb].
      intros H. constructor; [exact E|apply IHfuel; exact H].
    + (* a multi-byte lead needs a continuation byte c with (c & 0x60) = 0x80, which does not exist *)
      assert (NC : forall c, utf8_cont_bad AsIs c = true).
      { intros c. unfold utf8_cont_bad. cbn [fx_utf8 AsIs]. apply negb_true_iff. apply N.eqb_neq. intros Hc.
        assert (T : N.testbit (N.land c 96) 7 = true) by (rewrite Hc; reflexivity).
        rewrite N.land_spec in T. change (N.testbit 96 7) with false in T. rewrite andb_false_r in T. discriminate. }
      destruct (N.land b 224 =? 192); [|destruct (N.land b 240 =? 224); [|destruct (N.land b 248 =? 240)]].
      * cbn [N.eqb]. destruct (len (b :: r) <? 2) eqn:EL; [discriminate|].
        destruct r as [|c r']; [cbn in EL; discriminate|]. change (takeN (2 - 1) (c :: r')) with [c].
        cbn [existsb]. rewrite NC. discriminate.
      * cbn [N.eqb]. destruct (len (b :: r) <? 3) eqn:EL; [discriminate|].
        destruct r as [|c r']; [cbn in EL; discriminate|]. change (takeN (3 - 1) (c :: r')) with (c :: firstn 1 r').
        cbn [existsb]. rewrite NC. discriminate.
      * cbn [N.eqb]. destruct (len (b :: r) <? 4) eqn:EL; [discriminate|].
        destruct r as [|c r']; [cbn in EL; discriminate|]. change (takeN (4 - 1) (c :: r')) with (c :: firstn 2 r').
        cbn [existsb]. rewrite NC. discriminate.
      * discriminate.
Qed.
(* ------------------------------------------------------------------ SM2 signature *)
Lemma strip0_length a : (length (strip0 a) <= length a)%nat.
Proof. pose proof (strip0_len a). unfold len in *. lia. Qed.
Lemma zeros_strip0 a : zeros (length a - length (strip0 a)) ++ strip0 a = a.
Proof.
  induction a as [|x a IH]; [reflexivity|].
  destruct a as [|y a'].
  - destruct x; cbn; reflexivity.
  - destruct x as [|p].
    + change (strip0 (0 :: y :: a')) with (strip0 (y :: a')).
      pose proof (strip0_length (y :: a')).
      replace (length (0%N :: y :: a') - length (strip0 (y :: a')))%nat with (S (length (y :: a') - length (strip0 (y :: a')))) by (cbn [length] in *; lia).
      cbn [zeros app]. rewrite IH. reflexivity.
    + cbn [strip0]. rewrite Nat.sub_diag. reflexivity.
Qed.
Lemma pad32_strip0 a : length a = 32%nat -> pad32 (strip0 a) = a.
Proof. intros H. unfold pad32. rewrite <- H. apply zeros_strip0. Qed.
Lemma strip0_zeros k a : int_norm a -> strip0 (zeros k ++ a) = a.
Proof.
  intros H. induction k; [apply strip0_id; exact H|].
  cbn [zeros app]. destruct (zeros k ++ a) as [|y t] eqn:E.
  - destruct k; cbn in E; [subst a; contradiction|discriminate].
  - exact IHk.
Qed.
Lemma integer_to_der_strip tag a a' :
  a <> [] -> len a <= INT_MAX -> strip0 a = strip0 a' -> a' <> [] -> len a' <= INT_MAX ->
  integer_to_der tag (Some a) = integer_to_der tag (Some a').
Proof.
  intros H1 H2 E H3 H4. unfold integer_to_der. rewrite E.
  destruct (N.eqb_spec (len a) 0) as [Z|]; [apply len_0 in Z; contradiction|].
  destruct (N.eqb_spec (len a') 0) as [Z|]; [apply len_0 in Z; contradiction|].
  destruct (N.ltb_spec INT_MAX (len a)); [lia|]. destruct (N.ltb_spec INT_MAX (len a')); [lia|]. reflexivity.
Qed.
Lemma integer_size_strip a a' : strip0 a = strip0 a' -> integer_size (Some a) = integer_size (Some a').
Proof. intros E. unfold integer_size. rewrite E. reflexivity. Qed.

Lemma integer_to_der_ok32 tag a : length a = 32%nat -> exists e, integer_to_der tag (Some a) = Ok e /\ len e <= 35.
Proof.
  intros H. assert (Ha : a <> []) by (intros ->; discriminate).
  pose proof (strip0_norm a Ha) as Hn. pose proof (strip0_len a) as Hl.
  assert (L : len a = 32) by (unfold len; rewrite H; reflexivity).
  rewrite (integer_to_der_strip tag a (strip0 a)); try assumption.
  - destruct (strip0 a) as [|b r] eqn:ES; [contradiction|].
    rewrite integer_to_der_norm by (auto; unfold INT_MAX; lia).
    eexists; split; [reflexivity|].
    assert (LE : forall l, l <= 33 -> len (len_enc l) = 1).
    { intros l Hl'. unfold len_enc, len_to_der. destruct (N.ltb_spec INT_MAX l); [unfold INT_MAX in *; lia|].
      destruct (N.ltb_spec l 128); [reflexivity|lia]. }
    destruct (hibit b); rewrite (len_cons tag), len_app, LE, ?(len_cons 0) by lia; lia.
  - unfold INT_MAX; lia.
  - symmetry. apply strip0_id. exact Hn.
  - destruct (strip0 a); [contradiction|discriminate].
  - unfold INT_MAX; lia.
Qed.

Theorem sm2_sig_roundtrip r s e rest :
  length r = 32%nat -> length s = 32%nat -> sm2_sig_to_der r s = Ok e ->
  sm2_sig_from_der (e ++ rest) = Ok (r, s, rest).
Proof.
  intros Hr Hs. unfold sm2_sig_to_der.
  destruct (integer_to_der_ok32 2 r Hr) as (er & Er & Lr). destruct (integer_to_der_ok32 2 s Hs) as (es & Es & Ls).
  rewrite Er, Es. intros HE; injection HE as <-.
  unfold sm2_sig_from_der. cbn [app]. rewrite <- (len_app er es), <- !app_assoc.
  rewrite (app_assoc er es rest). rewrite type_roundtrip by (rewrite len_app; unfold INT_MAX; lia).
  assert (L32 : forall a : list N, length a = 32%nat -> len a < INT_MAX) by (intros a Ha; unfold len, INT_MAX; rewrite Ha; lia).
  rewrite (integer_roundtrip 2 r er es Er (L32 r Hr)).
  rewrite <- (app_nil_r es) at 1. rewrite (integer_roundtrip 2 s es [] Es (L32 s Hs)).
  pose proof (strip0_len r). pose proof (strip0_len s).
  assert (len r = 32) by (unfold len; rewrite Hr; reflexivity). assert (len s = 32) by (unfold len; rewrite Hs; reflexivity).
  destruct (N.ltb_spec 32 (len (strip0 r))); [lia|]. destruct (N.ltb_spec 32 (len (strip0 s))); [lia|].
  cbn [orb len length N.of_nat N.eqb negb]. rewrite !pad32_strip0 by assumption. reflexivity.
Qed.

Theorem sm2_sig_dry r s e : sm2_sig_to_der r s = Ok e -> sm2_sig_size r s = len e.
Proof.
  unfold sm2_sig_to_der, sm2_sig_size.
  destruct (integer_to_der 2 (Some r)) as [er| | |] eqn:Er; try discriminate.
  destruct (integer_to_der 2 (Some s)) as [es| | |] eqn:Es; try discriminate.
  intros HE; injection HE as <-.
  rewrite (integer_dry 2 _ _ Er), (integer_dry 2 _ _ Es).
  rewrite len_cons, !len_app, len_sz_eq. lia.
Qed.

Lemma pad32_length a : len a <= 32 -> length (pad32 a) = 32%nat.
Proof. intros H. unfold pad32. rewrite app_length, zeros_length. unfold len in H. lia. Qed.

Theorem sm2_sig_canonical inp r s rest :
  bytes_okP inp -> len inp <= INT_MAX -> sm2_sig_from_der inp = Ok (r, s, rest) ->
  length r = 32%nat /\ length s = 32%nat /\ exists e, sm2_sig_to_der r s = Ok e /\ inp = e ++ rest.
Proof.
  intros HB HM. unfold sm2_sig_from_der.
  destruct (type_from_der 48 inp) as [[d rest']| | |] eqn:ET; try discriminate.
  destruct (integer_from_der 2 d) as [[r' d1]| | |] eqn:ER; try discriminate.
  destruct (integer_from_der 2 d1) as [[s' d2]| | |] eqn:ES; try discriminate.
  destruct (N.ltb_spec 32 (len r')) as [|Lr]; [discriminate|]. destruct (N.ltb_spec 32 (len s')) as [|Ls]; [discriminate|].
  destruct (N.eqb_spec (len d2) 0) as [Z|]; [|discriminate]. apply len_0 in Z. subst d2.
  cbn [orb negb]. intros HE; injection HE as <- <- <-.
  pose proof (type_canonical 48 inp d rest' HB HM ET) as EI.
  assert (HBd : bytes_okP d).
  { rewrite EI in HB. apply Forall_cons_iff in HB. destruct HB as [_ HB]. apply Forall_app in HB. destruct HB as [_ HB].
    apply Forall_app in HB. tauto. }
  assert (HMd : len d <= INT_MAX).
  { rewrite EI in HM. rewrite len_cons, !len_app in HM. lia. }
  destruct (integer_canonical 2 d r' d1 HBd HMd ER) as (Nr & er & Er & Ed).
  assert (HBd1 : bytes_okP d1) by (rewrite Ed in HBd; apply Forall_app in HBd; tauto).
  assert (HMd1 : len d1 <= INT_MAX) by (rewrite Ed, len_app in HMd; lia).
  destruct (integer_canonical 2 d1 s' [] HBd1 HMd1 ES) as (Ns & es & Es & Ed1).
  rewrite app_nil_r in Ed1. subst d1.
  split; [apply pad32_length; exact Lr|]. split; [apply pad32_length; exact Ls|].
  unfold sm2_sig_to_der.
  assert (P : forall a, int_norm a -> len a <= 32 -> integer_to_der 2 (Some (pad32 a)) = integer_to_der 2 (Some a)).
  { intros a Na La. pose proof (pad32_length a La) as PL.
    apply integer_to_der_strip.
    - intros E. rewrite E in PL. discriminate.
    - unfold len, INT_MAX. rewrite PL. lia.
    - unfold pad32. rewrite strip0_zeros by exact Na. symmetry. apply strip0_id. exact Na.
    - intros ->. contradiction.
    - unfold INT_MAX; lia. }
  rewrite (P r' Nr Lr), (P s' Ns Ls), Er, Es.
  eexists. split; [reflexivity|]. rewrite EI, Ed. rewrite <- (len_app er es). cbn [app]. rewrite <- !app_assoc. reflexivity.
Qed.

Lemma sm2_sig_from_der_nofault inp : sm2_sig_from_der inp <> Fault.
Proof.
  unfold sm2_sig_from_der. pose proof (type_from_der_nofault 48 inp).
  destruct (type_from_der 48 inp) as [[d rest']| | |]; try congruence; try discriminate.
  pose proof (integer_from_der_nofault 2 d).
  destruct (integer_from_der 2 d) as [[r' d1]| | |]; try congruence; try discriminate.
  pose proof (integer_from_der_nofault 2 d1).
  destruct (integer_from_der 2 d1) as [[s' d2]| | |]; try congruence; try discriminate.
  destruct ((32 <? len r') || (32 <? len s') || negb (len d2 =? 0)); discriminate.
Qed.
(* ------------------------------------------------------------------ OID arcs: canonicity (Fixed) *)
Definition hiP (b : N) : Prop := 128 <= b < 256.
Definition nolead (pre : list N) : Prop := match pre with [] => True | b :: _ => b <> 128 end.

Lemma septet_val_pos pre : Forall hiP pre -> nolead pre -> pre <> [] -> septet_val pre <> 0.
Proof.
  induction pre as [|x pre IH] using rev_ind; intros HB HN HE; [contradiction|].
  apply Forall_app in HB. destruct HB as [HB Hx]. inversion Hx as [|? ? Hx' _]; subst. unfold hiP in Hx'.
  rewrite septet_val_snoc. destruct pre as [|b t].
  - cbn in HN. cbn. lia.
  - assert (septet_val (b :: t) <> 0) by (apply IH; [exact HB|exact HN|discriminate]). lia.
Qed.

Lemma b128_hi_canon pre : Forall hiP pre -> nolead pre ->
  forall f acc, (length pre <= f)%nat -> b128_hi f (septet_val pre) acc = pre ++ acc.
Proof.
  induction pre as [|x pre IH] using rev_ind; intros HB HN f acc Hf.
  - cbn [septet_val fold_left]. destruct f; reflexivity.
  - apply Forall_app in HB. destruct HB as [HB Hx]. inversion Hx as [|? ? Hx' _]; subst. unfold hiP in Hx'.
    rewrite app_length in Hf. cbn [length] in Hf. destruct f as [|f]; [lia|].
    assert (HN' : nolead pre) by (destruct pre; [exact I|exact HN]).
    assert (NZ : septet_val (pre ++ [x]) <> 0).
    { apply septet_val_pos; [apply Forall_app; split; [exact HB|constructor; [exact Hx'|constructor]]| |destruct pre; discriminate].
      destruct pre; [cbn; cbn in HN; exact HN|exact HN]. }
    cbn [b128_hi]. destruct (N.eqb_spec (septet_val (pre ++ [x])) 0); [contradiction|].
    rewrite septet_val_snoc.
    replace ((septet_val pre * 128 + x mod 128) / 128) with (septet_val pre)
      by (apply N.div_unique with (x mod 128); [apply N.mod_lt; lia|lia]).
    replace ((septet_val pre * 128 + x mod 128) mod 128) with (x mod 128)
      by (apply N.mod_unique with (septet_val pre); [apply N.mod_lt; lia|lia]).
    replace (128 + x mod 128) with x by lia.
    rewrite IH by (auto; lia). rewrite <- app_assoc. reflexivity.
Qed.

Lemma node_read_shape f inp acc buf r :
  node_read f inp acc = Ok (buf, r) -> bytes_okP inp ->
  exists pre d0, buf = rev acc ++ pre ++ [d0] /\ inp = pre ++ d0 :: r /\ Forall hiP pre /\ d0 < 128 /\ (length pre < f)%nat.
Proof.
  revert inp acc; induction f; intros inp acc; cbn [node_read]; [discriminate|].
  destruct inp as [|b t]; [discriminate|]. intros H HB. apply Forall_cons_iff in HB. destruct HB as [Hb HB].
  destruct (hibit b) eqn:E.
  - apply IHf in H; [|exact HB]. destruct H as (pre & d0 & -> & -> & F & D & L).
    exists (b :: pre), d0. cbn [rev]. rewrite <- app_assoc. repeat split; auto; [|cbn [length]; lia].
    constructor; [|exact F]. rewrite hibit_ge in E by exact Hb. apply N.leb_le in E. unfold hiP. lia.
  - injection H as <- <-. exists [], b. cbn [rev app]. repeat split; auto; [|cbn; lia].
    rewrite hibit_ge in E by exact Hb. apply N.leb_gt in E. exact E.
Qed.

Lemma septet_val_bound pre : Forall hiP pre -> septet_val pre < 128 ^ len pre.
Proof.
  induction pre as [|x pre IH] using rev_ind; intros HB; [cbn; lia|].
  apply Forall_app in HB. destruct HB as [HB Hx]. rewrite septet_val_snoc, len_app. change (len [x]) with 1.
  rewrite N.pow_add_r. change (128 ^ 1) with 128. specialize (IH HB). pose proof (N.mod_lt x 128). nia.
Qed.

Theorem node_canonical inp a rest :
  bytes_okP inp -> node_from_base128 Fixed inp = Ok (a, rest) ->
  a < 2 ^ 32 /\ inp = node_to_base128 a ++ rest.
Proof.
  intros HB. unfold node_from_base128.
  destruct (node_read 5 inp []) as [[buf r]| | |] eqn:ER; try discriminate.
  destruct (node_read_shape _ _ _ _ _ ER HB) as (pre & d0 & -> & -> & F & D & L). cbn [rev app] in *.
  destruct (pre ++ [d0]) as [|b0 t] eqn:EP; [destruct pre; discriminate|].
  destruct ((len (b0 :: t) =? 5) && negb (N.land b0 112 =? 0)) eqn:E5; [discriminate|].
  cbn [fx_oid_lead Fixed andb]. destruct (N.eqb_spec b0 128) as [|Hb0]; [discriminate|].
  intros H; injection H as <- <-. rewrite <- EP.
  assert (HN : nolead pre).
  { destruct pre as [|p0 pt]; [exact I|]. cbn [app] in EP. injection EP as <- _. exact Hb0. }
  assert (SV : septet_val (pre ++ [d0]) = septet_val pre * 128 + d0).
  { rewrite septet_val_snoc. rewrite N.mod_small by lia. reflexivity. }
  assert (Bnd : septet_val (pre ++ [d0]) < 2 ^ 32).
  { rewrite SV. pose proof (septet_val_bound pre F) as B.
    assert (Lp : len pre <= 4) by (unfold len; lia).
    destruct (N.eq_dec (len pre) 4) as [E4|NE4].
    - (* five septets: the top one is below 16 *)
      destruct pre as [|p0 [|p1 [|p2 [|p3 [|p4 pt]]]]]; rewrite ?len_cons, ?len_nil in *; try lia.
      cbn [app] in EP. injection EP as <- <-.
      change (len (p0 :: [p1; p2; p3] ++ [d0])) with 5 in E5. cbn [N.eqb Pos.eqb andb] in E5.
      apply negb_false_iff in E5. apply N.eqb_eq in E5.
      inversion F as [|? ? H0 F1]; subst. inversion F1 as [|? ? H1 F2]; subst. inversion F2 as [|? ? H2 F3]; subst. inversion F3 as [|? ? H3 _]; subst.
      unfold hiP in *.
      assert (T : p0 - 128 < 16).
      { pose proof (sweep_lt (fun q => negb (N.land (128 + q) 112 =? 0) || (q <? 16)) 128 eq_refl (p0 - 128) ltac:(lia)) as S.
        cbv beta in S. replace (128 + (p0 - 128)) with p0 in S by lia. rewrite E5 in S. cbn in S. apply N.ltb_lt in S. exact S. }
      unfold septet_val. cbn [fold_left]. change (2 ^ 32) with 4294967296. lia.
    - assert (len pre <= 3) by lia.
      assert (128 ^ len pre <= 128 ^ 3) by (apply N.pow_le_mono_r; lia).
      change (128 ^ 3) with 2097152 in *. change (2 ^ 32) with 4294967296. nia. }
  rewrite node_val_eq by exact Bnd. split; [exact Bnd|].
  unfold node_to_base128. rewrite SV.
  replace ((septet_val pre * 128 + d0) / 128) with (septet_val pre) by (apply N.div_unique with d0; lia).
  replace ((septet_val pre * 128 + d0) mod 128) with d0 by (apply N.mod_unique with (septet_val pre); lia).
  rewrite (b128_hi_canon pre F HN 4 [d0]) by lia. rewrite <- app_assoc. reflexivity.
Qed.

Lemma oid_loop_inv cap fuel inp cnt acc ns :
  bytes_okP inp -> oid_loop Fixed cap fuel inp cnt acc = Ok ns ->
  exists arcs, ns = rev acc ++ arcs /\ inp = concat (map node_to_base128 arcs) /\
               Forall (fun a => a < 2 ^ 32) arcs /\ (arcs <> [] -> cnt + len arcs <= OID_MAX_NODES).
Proof.
  revert inp cnt acc. induction fuel; intros inp cnt acc HB.
  - destruct inp; cbn [oid_loop]; [|discriminate]. intros H; injection H as <-.
    exists []. rewrite app_nil_r. repeat split; auto. intros C; contradiction.
  - destruct inp as [|b t]; cbn [oid_loop fx_oid_cap Fixed].
    + intros H; injection H as <-. exists []. rewrite app_nil_r. repeat split; auto. intros C; contradiction.
    + destruct (N.leb_spec OID_MAX_NODES cnt); [discriminate|].
      destruct (node_from_base128 Fixed (b :: t)) as [[v r]| | |] eqn:EN; try discriminate.
      destruct (cap <=? cnt); [discriminate|].
      destruct (node_canonical _ _ _ HB EN) as [Hv Einp].
      assert (HBr : bytes_okP r) by (rewrite Einp in HB; apply Forall_app in HB; tauto).
      intros HL. destruct (IHfuel r (cnt + 1) (v :: acc) HBr HL) as (arcs & -> & Er & FA & C).
      exists (v :: arcs). cbn [rev map concat]. rewrite <- app_assoc. repeat split; auto.
      * rewrite Einp, Er. reflexivity.
      * intros _. rewrite len_cons. destruct arcs as [|a0 ar]; [rewrite len_nil; lia|].
        specialize (C ltac:(discriminate)). lia.
Qed.

Theorem oid_octets_canonical inp nodes :
  bytes_okP inp -> oid_from_octets Fixed 32 inp = Ok nodes -> oid_to_octets Fixed nodes = Ok inp.
Proof.
  intros HB. unfold oid_from_octets. destruct inp as [|b r]; [discriminate|].
  change (32 <? 2) with false. cbn [fx_oid_first Fixed].
  destruct (node_from_base128 Fixed (b :: r)) as [[v r']| | |] eqn:EN; try discriminate.
  destruct (node_canonical _ _ _ HB EN) as [Hv Einp].
  assert (HBr : bytes_okP r') by (rewrite Einp in HB; apply Forall_app in HB; tauto).
  set (p := if v <? 40 then (0, v) else if v <? 80 then (1, v - 40) else (2, v - 80)).
  assert (Hp : fst p <= 2 /\ (fst p < 2 -> snd p < 40) /\ fst p * 40 + snd p = v).
  { subst p. destruct (N.ltb_spec v 40); [cbn [fst snd]; lia|]. destruct (N.ltb_spec v 80); cbn [fst snd]; lia. }
  destruct p as [n0 n1]. cbn [fst snd] in Hp. destruct Hp as (H0 & H1 & H2).
  intros H. destruct (oid_loop_inv _ _ _ _ _ _ HBr H) as (arcs & -> & Er & FA & C).
  cbn [rev app]. unfold oid_to_octets. rewrite !len_cons.
  destruct (N.ltb_spec (1 + (1 + len arcs)) 2); [lia|].
  assert (LA : 2 + len arcs <= OID_MAX_NODES).
  { destruct arcs; [rewrite len_nil; unfold OID_MAX_NODES; lia|apply C; discriminate]. }
  destruct (N.ltb_spec OID_MAX_NODES (1 + (1 + len arcs))); [lia|]. cbn [orb].
  unfold oid_first_to. cbn [fx_oid_first Fixed].
  destruct (N.ltb_spec 2 n0); [lia|]. cbn [orb].
  assert (E1 : (n0 <? 2) && (39 <? n1) = false).
  { destruct (N.ltb_spec n0 2); [|reflexivity]. cbn [andb]. destruct (N.ltb_spec 39 n1); [specialize (H1 ltac:(lia)); lia|reflexivity]. }
  rewrite E1. cbn [orb]. destruct (N.leb_spec (2 ^ 32) (n0 * 40 + n1)); [lia|].
  rewrite H2. rewrite Einp, Er. reflexivity.
Qed.
