(* Concrete instances of the key-opening parameters for the correspondence run:
   PBKDF2-HMAC-SM3 (Hash/, proved equal to RFC 8018 in C03) and SM4-CBC with PKCS#7 padding
   (Cipher/, C04).  Imported read-only. *)
From GmVerif Require Import Base.Bytes Hash.Instances Cipher.SM4 Cipher.Modes.
Definition kdf_sm3 (pass salt : list N) (iter : Z) : list N := sm3_pbkdf2 pass salt (Z.to_nat iter) 16.
Definition cbcdec_sm4 (key iv c : list N) : option (list N) := cbc_padding_decrypt (sm4_decrypt_block key) iv c.
Definition cbcenc_sm4 (key iv p : list N) : list N := cbc_padding_encrypt (sm4_encrypt_block key) iv p.
