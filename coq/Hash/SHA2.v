(* SHA-224/256/384/512 (FIPS 180-4) and SHA-1, standard form, as instances of MD.v.
   Round constants are the fractional parts of cube/square roots of primes,
   generated independently of the C source (see DESIGN.md) and pinned by the
   FIPS vectors in SHA2Proofs.v. *)
From GmVerif Require Import Base.ListX Base.Bytes Hash.MD Hash.SM3.
Local Open Scope N_scope.

Definition ror32 (x n : N) : N := rol32 x (32 - n).
Definition ror64 (x n : N) : N :=
  w64 (N.lor (N.shiftr (w64 x) n) (N.shiftl x (64 - n))).
Definition not64 (x : N) : N := N.lxor (w64 x) mask64.

Definition K256 : list N := [0x428a2f98; 0x71374491; 0xb5c0fbcf; 0xe9b5dba5; 0x3956c25b; 0x59f111f1; 0x923f82a4; 0xab1c5ed5; 0xd807aa98; 0x12835b01; 0x243185be; 0x550c7dc3; 0x72be5d74; 0x80deb1fe; 0x9bdc06a7; 0xc19bf174; 0xe49b69c1; 0xefbe4786; 0xfc19dc6; 0x240ca1cc; 0x2de92c6f; 0x4a7484aa; 0x5cb0a9dc; 0x76f988da; 0x983e5152; 0xa831c66d; 0xb00327c8; 0xbf597fc7; 0xc6e00bf3; 0xd5a79147; 0x6ca6351; 0x14292967; 0x27b70a85; 0x2e1b2138; 0x4d2c6dfc; 0x53380d13; 0x650a7354; 0x766a0abb; 0x81c2c92e; 0x92722c85; 0xa2bfe8a1; 0xa81a664b; 0xc24b8b70; 0xc76c51a3; 0xd192e819; 0xd6990624; 0xf40e3585; 0x106aa070; 0x19a4c116; 0x1e376c08; 0x2748774c; 0x34b0bcb5; 0x391c0cb3; 0x4ed8aa4a; 0x5b9cca4f; 0x682e6ff3; 0x748f82ee; 0x78a5636f; 0x84c87814; 0x8cc70208; 0x90befffa; 0xa4506ceb; 0xbef9a3f7; 0xc67178f2].
Definition K512 : list N := [0x428a2f98d728ae22; 0x7137449123ef65cd; 0xb5c0fbcfec4d3b2f; 0xe9b5dba58189dbbc; 0x3956c25bf348b538; 0x59f111f1b605d019; 0x923f82a4af194f9b; 0xab1c5ed5da6d8118; 0xd807aa98a3030242; 0x12835b0145706fbe; 0x243185be4ee4b28c; 0x550c7dc3d5ffb4e2; 0x72be5d74f27b896f; 0x80deb1fe3b1696b1; 0x9bdc06a725c71235; 0xc19bf174cf692694; 0xe49b69c19ef14ad2; 0xefbe4786384f25e3; 0xfc19dc68b8cd5b5; 0x240ca1cc77ac9c65; 0x2de92c6f592b0275; 0x4a7484aa6ea6e483; 0x5cb0a9dcbd41fbd4; 0x76f988da831153b5; 0x983e5152ee66dfab; 0xa831c66d2db43210; 0xb00327c898fb213f; 0xbf597fc7beef0ee4; 0xc6e00bf33da88fc2; 0xd5a79147930aa725; 0x6ca6351e003826f; 0x142929670a0e6e70; 0x27b70a8546d22ffc; 0x2e1b21385c26c926; 0x4d2c6dfc5ac42aed; 0x53380d139d95b3df; 0x650a73548baf63de; 0x766a0abb3c77b2a8; 0x81c2c92e47edaee6; 0x92722c851482353b; 0xa2bfe8a14cf10364; 0xa81a664bbc423001; 0xc24b8b70d0f89791; 0xc76c51a30654be30; 0xd192e819d6ef5218; 0xd69906245565a910; 0xf40e35855771202a; 0x106aa07032bbd1b8; 0x19a4c116b8d2d0c8; 0x1e376c085141ab53; 0x2748774cdf8eeb99; 0x34b0bcb5e19b48a8; 0x391c0cb3c5c95a63; 0x4ed8aa4ae3418acb; 0x5b9cca4f7763e373; 0x682e6ff3d6b2b8a3; 0x748f82ee5defb2fc; 0x78a5636f43172f60; 0x84c87814a1f0ab72; 0x8cc702081a6439ec; 0x90befffa23631e28; 0xa4506cebde82bde9; 0xbef9a3f7b2c67915; 0xc67178f2e372532b; 0xca273eceea26619c; 0xd186b8c721c0c207; 0xeada7dd6cde0eb1e; 0xf57d4f7fee6ed178; 0x6f067aa72176fba; 0xa637dc5a2c898a6; 0x113f9804bef90dae; 0x1b710b35131c471b; 0x28db77f523047d84; 0x32caab7b40c72493; 0x3c9ebe0a15c9bebc; 0x431d67c49c100d4c; 0x4cc5d4becb3e42b6; 0x597f299cfc657e2a; 0x5fcb6fab3ad6faec; 0x6c44198c4a475817].
Definition H256 : list N := [0x6a09e667; 0xbb67ae85; 0x3c6ef372; 0xa54ff53a; 0x510e527f; 0x9b05688c; 0x1f83d9ab; 0x5be0cd19].
Definition H224 : list N := [0xc1059ed8; 0x367cd507; 0x3070dd17; 0xf70e5939; 0xffc00b31; 0x68581511; 0x64f98fa7; 0xbefa4fa4].
Definition H512 : list N := [0x6a09e667f3bcc908; 0xbb67ae8584caa73b; 0x3c6ef372fe94f82b; 0xa54ff53a5f1d36f1; 0x510e527fade682d1; 0x9b05688c2b3e6c1f; 0x1f83d9abfb41bd6b; 0x5be0cd19137e2179].
Definition H384 : list N := [0xcbbb9d5dc1059ed8; 0x629a292a367cd507; 0x9159015a3070dd17; 0x152fecd8f70e5939; 0x67332667ffc00b31; 0x8eb44a8768581511; 0xdb0c2e0d64f98fa7; 0x47b5481dbefa4fa4].

Section SHA2.
  (* word-size generic description *)
  Variable wmask : N -> N.
  Variable ror : N -> N -> N.
  Variable wnot : N -> N.
  Variable S0a S0b S0c S1a S1b S1c s0a s0b s0c s1a s1b s1c : N.
  Variable Kc : list N.
  Variable nrounds : nat.

  Definition Ch (x y z : N) := N.lxor (N.land x y) (N.land (wnot x) z).
  Definition Maj (x y z : N) := N.lxor (N.lxor (N.land x y) (N.land x z)) (N.land y z).
  Definition Sig0 x := N.lxor (N.lxor (ror x S0a) (ror x S0b)) (ror x S0c).
  Definition Sig1 x := N.lxor (N.lxor (ror x S1a) (ror x S1b)) (ror x S1c).
  Definition sig0 x := N.lxor (N.lxor (ror x s0a) (ror x s0b)) (N.shiftr (wmask x) s0c).
  Definition sig1 x := N.lxor (N.lxor (ror x s1a) (ror x s1b)) (N.shiftr (wmask x) s1c).

  Definition Wnext2 (w : list N) : N :=
    let j := length w in
    let g i := nth (j - i) w 0 in
    wmask (sig1 (g 2%nat) + g 7%nat + sig0 (g 15%nat) + g 16%nat).
  Fixpoint expand2 (n : nat) (w : list N) : list N :=
    match n with O => w | S k => expand2 k (w ++ [Wnext2 w]) end.

  Definition round2 (w : list N) (r : regs) (t : nat) : regs :=
    let '(a, b, c, d, e, f, g, h) := r in
    let T1 := wmask (h + Sig1 e + Ch e f g + nth t Kc 0 + nth t w 0) in
    let T2 := wmask (Sig0 a + Maj a b c) in
    (wmask (T1 + T2), a, b, c, wmask (d + T1), e, f, g).

  Definition sha2_compress (words : list N) (st : list N) : list N :=
    match st with
    | [a; b; c; d; e; f; g; h] =>
      let w := expand2 (nrounds - 16) words in
      let '(A, B, C, D, E, F, G, H) :=
          fold_left (round2 w) (seq 0 nrounds) (a, b, c, d, e, f, g, h) in
      [wmask (a + A); wmask (b + B); wmask (c + C); wmask (d + D);
       wmask (e + E); wmask (f + F); wmask (g + G); wmask (h + H)]
    | _ => st
    end.
End SHA2.

Definition sha256_compress (st blk : list N) : list N :=
  sha2_compress w32 ror32 not32 2 13 22 6 11 25 7 18 3 17 19 10 K256 64 (words_be 16 blk) st.

Fixpoint words_be64 (n : nat) (l : list N) : list N :=
  match n with
  | O => []
  | S k => (N.lor (N.shiftl (get_be32 l) 32) (get_be32 (skipn 4 l))) :: words_be64 k (skipn 8 l)
  end.
Definition sha512_compress (st blk : list N) : list N :=
  sha2_compress w64 ror64 not64 28 34 39 14 18 41 1 8 7 19 61 6 K512 80 (words_be64 16 blk) st.

Definition sha256_out (st : list N) : list N := flat_map be32 st.
Definition sha512_out (st : list N) : list N := flat_map be64 st.

(* 128-bit big-endian bit length (SHA-384/512) *)
Definition len128_spec (nbytes : N) : list N := be64 (N.shiftr (8 * nbytes) 64) ++ be64 (8 * nbytes).
(* sha512_finish: PUTU64(nblocks >> 54); PUTU64((nblocks << 10) + (num << 3)) *)
Definition len128_impl (nblocks : N) (num : nat) : list N :=
  be64 (N.shiftr nblocks 54) ++ be64 (w64 (N.shiftl nblocks 10 + N.shiftl (N.of_nat num) 3)).

Definition sha256_init := init (list N) H256 0.
Definition sha256_update := update (list N) sha256_compress 64.
Definition sha256_finish := finish (list N) sha256_compress sha256_out 64 8 len64_impl.
Definition sha256 := md_hash (list N) sha256_compress sha256_out H256 64 8 len64_spec 0.

Definition sha224_init := init (list N) H224 0.
Definition sha224_finish c := firstn 28 (sha256_finish c).
Definition sha224 m := firstn 28 (md_hash (list N) sha256_compress sha256_out H224 64 8 len64_spec 0 m).

Definition sha512_init := init (list N) H512 0.
Definition sha512_update := update (list N) sha512_compress 128.
Definition sha512_finish := finish (list N) sha512_compress sha512_out 128 16 len128_impl.
Definition sha512 := md_hash (list N) sha512_compress sha512_out H512 128 16 len128_spec 0.

(* SHA-512/224 and SHA-512/256 (FIPS 180-4 5.3.6; src/digest.c sha512_224/256_digest_init since commit
   93078f3; before it both started from H512 -- see sha512t_before_93078f3 in SHA2Proofs.v) *)
Definition H512_224 : list N := [0x8c3d37c819544da2; 0x73e1996689dcd4d6; 0x1dfab7ae32ff9c82; 0x679dd514582f9fcf; 0x0f6d2b697bd44da8; 0x77e36f7304c48942; 0x3f9d85a86a1d36c8; 0x1112e6ad91d692a1].
Definition H512_256 : list N := [0x22312194fc2bf72c; 0x9f555fa3c84c64c2; 0x2393b86b6f53b151; 0x963877195940eabd; 0x96283ee2a88effe3; 0xbe5e1e2553863992; 0x2b0199fc2c85b8aa; 0x0eb72ddc81c52ca2].
Definition sha512_224_init := init (list N) H512_224 0.
Definition sha512_224_finish c := firstn 28 (sha512_finish c).
Definition sha512_224 m := firstn 28 (md_hash (list N) sha512_compress sha512_out H512_224 128 16 len128_spec 0 m).
Definition sha512_256_init := init (list N) H512_256 0.
Definition sha512_256_finish c := firstn 32 (sha512_finish c).
Definition sha512_256 m := firstn 32 (md_hash (list N) sha512_compress sha512_out H512_256 128 16 len128_spec 0 m).
(* the standard's IV generation function: SHA-512 started from H512 xor a5..a5 applied to "SHA-512/t" *)
Definition sha512t_iv_gen (name : list N) : list N :=
  md_hash (list N) sha512_compress sha512_out (map (fun h => N.lxor h 0xa5a5a5a5a5a5a5a5) H512) 128 16 len128_spec 0 name.

Definition sha384_init := init (list N) H384 0.
Definition sha384_finish c := firstn 48 (sha512_finish c).
Definition sha384 m := firstn 48 (md_hash (list N) sha512_compress sha512_out H384 128 16 len128_spec 0 m).

(* ---------------- SHA-1 ---------------- *)
Definition sha1_f (t : nat) (b c d : N) : N :=
  if (t <? 20)%nat then N.lxor (N.land b c) (N.land (not32 b) d)
  else if (t <? 40)%nat then N.lxor (N.lxor b c) d
  else if (t <? 60)%nat then N.lxor (N.lxor (N.land b c) (N.land b d)) (N.land c d)
  else N.lxor (N.lxor b c) d.
Definition sha1_k (t : nat) : N :=
  if (t <? 20)%nat then 0x5A827999 else if (t <? 40)%nat then 0x6ED9EBA1
  else if (t <? 60)%nat then 0x8F1BBCDC else 0xCA62C1D6.
Definition Wnext1 (w : list N) : N :=
  let j := length w in
  let g i := nth (j - i) w 0 in
  rol32 (N.lxor (N.lxor (g 3%nat) (g 8%nat)) (N.lxor (g 14%nat) (g 16%nat))) 1.
Fixpoint expand1 (n : nat) (w : list N) : list N :=
  match n with O => w | S k => expand1 k (w ++ [Wnext1 w]) end.
Definition sha1_round (w : list N) (r : N * N * N * N * N) (t : nat) :=
  let '(a, b, c, d, e) := r in
  let T := w32 (rol32 a 5 + sha1_f t b c d + e + sha1_k t + nth t w 0) in
  (T, a, rol32 b 30, c, d).
Definition sha1_compress (st blk : list N) : list N :=
  match st with
  | [a; b; c; d; e] =>
    let w := expand1 64 (words_be 16 blk) in
    let '(A, B, C, D, E) := fold_left (sha1_round w) (seq 0 80) (a, b, c, d, e) in
    [w32 (a + A); w32 (b + B); w32 (c + C); w32 (d + D); w32 (e + E)]
  | _ => st
  end.
Definition H1 : list N := [0x67452301; 0xEFCDAB89; 0x98BADCFE; 0x10325476; 0xC3D2E1F0].
Definition sha1_init := init (list N) H1 0.
Definition sha1_update := update (list N) sha1_compress 64.
Definition sha1_finish := finish (list N) sha1_compress sha256_out 64 8 len64_impl.
Definition sha1 := md_hash (list N) sha1_compress sha256_out H1 64 8 len64_spec 0.
