(* HMAC / KDF / PBKDF2 / HKDF: Impl models transcribed from src/sm3_hmac.c,
   src/hmac.c, src/sm3_kdf.c, src/sm2_enc.c (sm2_kdf), src/sm3_pbkdf2.c,
   src/hkdf.c over the streaming context of MD.v, and the standards' definitions
   (RFC 2104, GB/T 32918.4 KDF, RFC 8018 PBKDF2, RFC 5869) over the one-shot hash. *)
From GmVerif Require Import Base.ListX Base.Bytes Hash.MD.
Local Open Scope nat_scope.

Definition xorc (c : N) (l : list N) : list N := map (fun b => N.lxor b c) l.
Definition pad_to (n : nat) (l : list N) : list N := l ++ zeros (n - length l).

Section OverHash.
  (* streaming interface of the underlying hash (an instance of MD.v) *)
  Variable C : Type.
  Variable h_init : C.
  Variable h_update : C -> list N -> C.
  Variable h_finish : C -> list N.
  (* its one-shot specification *)
  Variable H : list N -> list N.
  Variable B : nat.      (* block size *)
  Variable hlen : nat.   (* digest size *)

  (* ================= HMAC ================= *)
  (* -- Spec: RFC 2104 -- *)
  Definition hmac_k0 (key : list N) : list N :=
    if length key <=? B then pad_to B key else pad_to B (H key).
  Definition hmac_spec (key msg : list N) : list N :=
    let k0 := hmac_k0 key in
    H (xorc 0x5c k0 ++ H (xorc 0x36 k0 ++ msg)).

  (* -- Impl A: sm3_hmac.c (key block kept in the context, re-xored at finish) -- *)
  Definition hmacA_ctx := (C * list N)%type.
  Definition hmacA_init (key : list N) : hmacA_ctx :=
    let k0 := if length key <=? B then pad_to B key
              else pad_to B (h_finish (h_update h_init key)) in
    let ik := xorc 0x36 k0 in
    (h_update h_init ik, ik).
  Definition hmacA_update (c : hmacA_ctx) (d : list N) : hmacA_ctx :=
    (h_update (fst c) d, snd c).
  Definition hmacA_finish (c : hmacA_ctx) : list N :=
    let ok := xorc (N.lxor 0x36 0x5c) (snd c) in
    let inner := h_finish (fst c) in
    h_finish (h_update (h_update h_init ok) inner).

  (* -- Impl B: hmac.c (pre-absorbed inner and outer contexts; empty update is a no-op) -- *)
  Definition hmacB_ctx := (C * C)%type.   (* running digest_ctx, o_ctx *)
  Definition hmacB_init (key : list N) : hmacB_ctx :=
    let k0 := if length key <=? B then pad_to B key
              else pad_to B (h_finish (h_update h_init key)) in
    (h_update h_init (xorc 0x36 k0), h_update h_init (xorc 0x5c k0)).
  Definition hmacB_update (c : hmacB_ctx) (d : list N) : hmacB_ctx :=
    match d with [] => c | _ => (h_update (fst c) d, snd c) end.
  Definition hmacB_finish (c : hmacB_ctx) : list N :=
    h_finish (h_update (snd c) (h_finish (fst c))).

  (* ================= counter-mode KDF (sm3_kdf.c, sm2_kdf) ================= *)
  Definition kdf_nblocks (outlen : nat) : nat := (outlen + hlen - 1) / hlen.
  Definition ctr_be (ct : nat) : list N := be32 (N.of_nat ct).
  (* Spec: K = leftmost outlen bytes of H(Z||1) || H(Z||2) || ... *)
  Definition kdf_spec (z : list N) (outlen : nat) : list N :=
    firstn outlen (flat_map (fun ct => H (z ++ ctr_be ct)) (seq 1 (kdf_nblocks outlen))).
  (* Impl: the while(outlen) loop; [gen ct] is the digest for counter ct *)
  Fixpoint kdf_loop (fuel : nat) (gen : nat -> list N) (ct outlen : nat) : list N :=
    match fuel with
    | O => []
    | S f =>
      if outlen =? 0 then [] else
      let len := Nat.min outlen hlen in
      firstn len (gen ct) ++ kdf_loop f gen (ct + 1) (outlen - len)
    end.
  (* sm3_kdf_init/update/finish: absorbed context copied per counter *)
  Definition kdf_stream (chunks : list (list N)) (outlen : nat) : list N :=
    let c := fold_left h_update chunks h_init in
    kdf_loop outlen (fun ct => h_finish (h_update c (ctr_be ct))) 1 outlen.
  (* sm2_kdf: re-hash input for every counter *)
  Definition kdf_oneshot (z : list N) (outlen : nat) : list N :=
    kdf_loop outlen (fun ct => h_finish (h_update (h_update h_init z) (ctr_be ct))) 1 outlen.

  (* ================= PBKDF2 (sm3_pbkdf2.c) ================= *)
  Fixpoint pb_iter (n : nat) (prf : list N -> list N) (u acc : list N) : list N :=
    match n with
    | O => acc
    | S k => let u' := prf u in pb_iter k prf u' (xor_bytes acc u')
    end.
  (* Spec: F(P,S,c,i) = U_1 xor ... xor U_c *)
  Definition pbkdf2_F (pass salt : list N) (count i : nat) : list N :=
    let prf := hmac_spec pass in
    let u1 := prf (salt ++ ctr_be i) in
    pb_iter (count - 1) prf u1 u1.
  Definition pbkdf2_spec (pass salt : list N) (count outlen : nat) : list N :=
    firstn outlen (flat_map (pbkdf2_F pass salt count) (seq 1 (kdf_nblocks outlen))).
  (* Impl: template context copied for every PRF call *)
  Definition pbkdf2_impl (pass salt : list N) (count outlen : nat) : list N :=
    let tmpl := hmacA_init pass in
    let prf1 i := hmacA_finish (hmacA_update (hmacA_update tmpl salt) (ctr_be i)) in
    let prf u := hmacA_finish (hmacA_update tmpl u) in
    kdf_loop outlen (fun i => let u1 := prf1 i in pb_iter (count - 1) prf u1 u1) 1 outlen.

  (* ================= HKDF (hkdf.c) ================= *)
  Definition hkdf_extract_spec (salt ikm : list N) : list N :=
    hmac_spec (match salt with [] => zeros hlen | _ => salt end) ikm.
  (* T(n) chain of RFC 5869 *)
  Fixpoint hkdf_Ts (n : nat) (prk info Tprev : list N) (i : nat) : list N :=
    match n with
    | O => []
    | S k => let T := hmac_spec prk (Tprev ++ info ++ [N.of_nat i]) in
             T ++ hkdf_Ts k prk info T (i + 1)
    end.
  Definition hkdf_expand_spec (prk info : list N) (L : nat) : list N :=
    firstn L (hkdf_Ts (kdf_nblocks L) prk info [] 1).
  (* Impl B-style (generic hmac.c); result None = error (counter wrapped to 0) *)
  Definition hmacB (key : list N) (chunks : list (list N)) : list N :=
    hmacB_finish (fold_left hmacB_update chunks (hmacB_init key)).
  Fixpoint hkdf_expand_loop (fuel : nat) (prk info T : list N) (counter L : nat)
    : option (list N) :=
    match fuel with
    | O => Some []
    | S f =>
      if L =? 0 then Some [] else
      if counter =? 0 then None else
      let T' := hmacB prk [T; info; [N.of_nat counter]] in
      let len := Nat.min (length T') L in
      match hkdf_expand_loop f prk info T' ((counter + 1) mod 256) (L - len) with
      | Some r => Some (firstn len T' ++ r)
      | None => None
      end
    end.
  Definition hkdf_expand_impl (prk info : list N) (L : nat) : option (list N) :=
    hkdf_expand_loop L prk info [] 1 L.
  Definition hkdf_extract_impl (salt ikm : list N) : list N :=
    hmacB (match salt with [] => zeros hlen | _ => salt end) [ikm].
End OverHash.
