From GmVerif Require Import Base.ListX Base.Bytes Hash.SM3 Hash.SM3Proofs Hash.SM3Unrolled.
From Coq Require Import ZifyN ZifyNat ZifyBool.
Local Open Scope N_scope.

Lemma K_table_ok : K_table = map Kj (seq 0 64).
Proof. vm_compute. reflexivity. Qed.

Lemma K_nth j : (j < 64)%nat -> nth j K_table 0 = Kj j.
Proof.
  intros H. rewrite K_table_ok.
  rewrite (nth_indep _ 0 (Kj 0%nat)) by (rewrite map_length, seq_length; exact H).
  rewrite map_nth. rewrite seq_nth by exact H. reflexivity.
Qed.

Lemma w32_mod x : w32 x = x mod 2^32.
Proof. unfold w32, mask32. change 0xFFFFFFFF with (N.ones 32). apply N.land_ones. Qed.

Lemma w32_add_congr a b c : w32 a = w32 b -> w32 (a + c) = w32 (b + c).
Proof.
  rewrite !w32_mod. intros H.
  rewrite (N.add_mod a c), (N.add_mod b c) by (cbv; discriminate). rewrite H. reflexivity.
Qed.

Lemma testbit_w32 x i : N.testbit (w32 x) i = N.testbit x i && (i <? 32).
Proof.
  unfold w32, mask32. change 0xFFFFFFFF with (N.ones 32).
  rewrite N.land_spec. f_equal.
  destruct (N.ltb_spec i 32) as [H|H].
  - apply N.ones_spec_low. exact H.
  - apply N.ones_spec_high. exact H.
Qed.

(* ((y ^ z) & x) ^ z  and  (x & y) | (~x & z)  agree on the low 32 bits *)
Lemma GG16_forms x y z :
  w32 (N.lxor (N.land (N.lxor y z) x) z) = w32 (N.lor (N.land x y) (N.land (not32 x) z)).
Proof.
  apply N.bits_inj. intros i. rewrite !testbit_w32.
  rewrite N.lxor_spec, N.land_spec, N.lxor_spec, N.lor_spec, !N.land_spec.
  unfold not32. rewrite N.lxor_spec, testbit_w32.
  unfold mask32. change 0xFFFFFFFF with (N.ones 32).
  destruct (N.ltb_spec i 32) as [H|H].
  - rewrite N.ones_spec_low by exact H.
    destruct (N.testbit x i), (N.testbit y i), (N.testbit z i); reflexivity.
  - rewrite !andb_false_r. reflexivity.
Qed.

Lemma GG_forms j x y z : w32 (GGc j x y z) = w32 (GG j x y z).
Proof.
  unfold GGc, GG. destruct (j <? 16)%nat; [reflexivity | apply GG16_forms].
Qed.

Lemma FF_forms j x y z : FFc j x y z = FF j x y z.
Proof. reflexivity. Qed.

(* the message schedule computed on the fly is a prefix of the full schedule *)
Lemma expand_length n w : length (expand n w) = (length w + n)%nat.
Proof.
  revert w; induction n as [|n IH]; intros w; cbn [expand]; [lia|].
  rewrite IH, app_length. cbn [length]. lia.
Qed.

Lemma expand_nth n w i : (i < length w)%nat -> nth i (expand n w) 0 = nth i w 0.
Proof.
  revert w; induction n as [|n IH]; intros w Hi; cbn [expand]; [reflexivity|].
  rewrite IH by (rewrite app_length; lia). apply app_nth1. exact Hi.
Qed.

Lemma expand_snoc j w : expand (S j) w = expand j w ++ [Wnext (expand j w)].
Proof.
  revert w; induction j as [|j IH]; intros w; [reflexivity|].
  change (expand (S (S j)) w) with (expand (S j) (w ++ [Wnext w])).
  rewrite IH. reflexivity.
Qed.

Lemma expand_S n w : expand (S n) w = expand n (w ++ [Wnext w]).
Proof. reflexivity. Qed.

(* one unrolled round = one standard round, reading from a partial schedule *)
Lemma uround_round wfull r w j :
  (j < 64)%nat -> (j + 4 < length w)%nat ->
  (forall i, (i < length w)%nat -> nth i w 0 = nth i wfull 0) ->
  fst (uround (r, w) j) = round wfull r j.
Proof.
  intros Hj Hl Hw.
  destruct r as [[[[[[[A B] C] D] E] F] G] H].
  unfold uround, round. cbn [fst].
  rewrite K_nth by exact Hj.
  rewrite <- (Hw j) by lia. rewrite <- (Hw (j + 4)%nat) by lia.
  rewrite FF_forms.
  set (SS0 := rol32 A 12). set (SS1 := rol32 (w32 (SS0 + E + Kj j)) 7).
  set (wj := nth j w 0). set (wj4 := nth (j + 4) w 0).
  assert (E1 : w32 (D + (FF j A B C + N.lxor SS1 SS0 + N.lxor wj wj4))
               = w32 (FF j A B C + D + N.lxor SS1 SS0 + N.lxor wj wj4)) by (f_equal; lia).
  assert (E2 : w32 (SS1 + (GGc j E F G + H + wj)) = w32 (GG j E F G + H + SS1 + wj)).
  { replace (SS1 + (GGc j E F G + H + wj)) with (GGc j E F G + (H + SS1 + wj)) by lia.
    replace (GG j E F G + H + SS1 + wj) with (GG j E F G + (H + SS1 + wj)) by lia.
    apply w32_add_congr. apply GG_forms. }
  rewrite E1, E2. reflexivity.
Qed.

Lemma uround_w r w j :
  snd (uround (r, w) j) = if (j <? 52)%nat then w ++ [Wnext w] else w.
Proof.
  destruct r as [[[[[[[A B] C] D] E] F] G] H]. reflexivity.
Qed.

(* n rounds from round j on, starting from the schedule prefix of length 16 + min j 52 *)
Lemma urounds_rounds w16 n j r :
  length w16 = 16%nat -> (j + n <= 64)%nat ->
  fst (fold_left uround (seq j n) (r, expand (Nat.min j 52) w16))
  = fold_left (round (expand 52 w16)) (seq j n) r.
Proof.
  intros H16. revert j r; induction n as [|n IH]; intros j r Hn; cbn [seq fold_left].
  - reflexivity.
  - set (w := expand (Nat.min j 52) w16).
    assert (Hlen : length w = (16 + Nat.min j 52)%nat) by (unfold w; rewrite expand_length; lia).
    assert (Hpre : forall i, (i < length w)%nat -> nth i w 0 = nth i (expand 52 w16) 0).
    { intros i Hi. unfold w in *.
      replace 52%nat with ((52 - Nat.min j 52) + Nat.min j 52)%nat at 2 by lia.
      clear -Hi. revert Hi. generalize (52 - Nat.min j 52)%nat as d.
      intros d Hi.
      assert (Hx : forall a b u, expand (a + b) u = expand a (expand b u)).
      { intros a b; revert a; induction b as [|b IHb]; intros a u.
        - rewrite Nat.add_0_r. reflexivity.
        - replace (a + S b)%nat with (S (a + b)) by lia. cbn [expand]. apply IHb. }
      rewrite Hx. symmetry. apply expand_nth. exact Hi. }
    rewrite (surjective_pairing (uround (r, w) j)).
    rewrite uround_round with (wfull := expand 52 w16); [| lia | lia | exact Hpre].
    rewrite uround_w.
    replace (if (j <? 52)%nat then w ++ [Wnext w] else w) with (expand (Nat.min (S j) 52) w16).
    + apply IH. lia.
    + unfold w. destruct (j <? 52)%nat eqn:E.
      * apply Nat.ltb_lt in E. rewrite (Nat.min_l (S j)), (Nat.min_l j) by lia.
        rewrite expand_snoc. reflexivity.
      * apply Nat.ltb_ge in E. rewrite !Nat.min_r by lia. reflexivity.
Qed.

Theorem sm3_unrolled_eq_rounds st blk :
  sm3_compress_unrolled st blk = sm3_compress st blk.
Proof.
  unfold sm3_compress_unrolled, sm3_compress.
  destruct st as [|a [|b [|c [|d [|e [|f [|g [|h [|]]]]]]]]]; try reflexivity.
  pose proof (urounds_rounds (words_be 16 blk) 64 0 (a, b, c, d, e, f, g, h)
                ltac:(reflexivity) ltac:(lia)) as Hr.
  change (expand (Nat.min 0 52) (words_be 16 blk)) with (words_be 16 blk) in Hr.
  assert (Hg : forall (X : regs * list N) (R : regs), fst X = R ->
            (let '((A, B, C, D, E, F, G, H), _) := X in
             [N.lxor a A; N.lxor b B; N.lxor c C; N.lxor d D;
              N.lxor e E; N.lxor f F; N.lxor g G; N.lxor h H])
            = (let '(A, B, C, D, E, F, G, H) := R in
               [N.lxor a A; N.lxor b B; N.lxor c C; N.lxor d D;
                N.lxor e E; N.lxor f F; N.lxor g G; N.lxor h H])).
  { intros [[[[[[[[A B] C] D] E] F] G] H] w] R HX. cbn [fst] in HX. subst R. reflexivity. }
  apply Hg. exact Hr.
Qed.
