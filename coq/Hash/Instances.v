(* Concrete instances used by the extracted model and by the property theorems. *)
From GmVerif Require Import Base.ListX Base.Bytes Hash.MD Hash.SM3 Hash.SHA2 Hash.Hmac.
Local Open Scope nat_scope.

(* SM3-HMAC (src/sm3_hmac.c) *)
Definition sm3_hmac_init := hmacA_init sm3_ctx sm3_init sm3_update sm3_finish 64.
Definition sm3_hmac_update := hmacA_update sm3_ctx sm3_update.
Definition sm3_hmac_finish := hmacA_finish sm3_ctx sm3_init sm3_update sm3_finish.
Definition sm3_hmac_spec := hmac_spec sm3 64.
Definition sm3_hmac (key : list N) (chunks : list (list N)) : list N :=
  sm3_hmac_finish (fold_left sm3_hmac_update chunks (sm3_hmac_init key)).

(* generic hmac.c over each digest *)
Definition hmacB_sm3 := hmacB sm3_ctx sm3_init sm3_update sm3_finish 64.
Definition hmacB_sha1 := hmacB _ sha1_init sha1_update sha1_finish 64.
Definition hmacB_sha224 := hmacB _ sha224_init sha256_update sha224_finish 64.
Definition hmacB_sha256 := hmacB _ sha256_init sha256_update sha256_finish 64.
Definition hmacB_sha384 := hmacB _ sha384_init sha512_update sha384_finish 128.
Definition hmacB_sha512 := hmacB _ sha512_init sha512_update sha512_finish 128.
Definition hmacB_sha512_224 := hmacB _ sha512_224_init sha512_update sha512_224_finish 128.
Definition hmacB_sha512_256 := hmacB _ sha512_256_init sha512_update sha512_256_finish 128.

(* src/sm3_digest.c: one context that is plain SM3 (key = NULL) or SM3-HMAC with a 12..64-byte key.
   Since commit (see KNOWN_FINDINGS) an empty update is a no-op; before it returned -1. *)
Definition sm3_digest_api (key : option (list N)) (chunks : list (list N)) : option (list N) :=
  match key with
  | None => Some (sm3_finish (fold_left sm3_update chunks sm3_init))
  | Some k => if (length k <? 12) || (64 <? length k) then None else Some (sm3_hmac k chunks)
  end.
Definition sm3_digest_api_spec (key : option (list N)) (m : list N) : option (list N) :=
  match key with
  | None => Some (sm3 m)
  | Some k => if (length k <? 12) || (64 <? length k) then None else Some (sm3_hmac_spec k m)
  end.

(* src/hmac.c hmac_finish_and_verify: maclen != hmaclen || memcmp(hmac, mac, maclen) *)
Definition bytes_eqb (a b : list N) : bool := if list_eq_dec N.eq_dec a b then true else false.
Definition mac_verify (h mac : list N) : bool := (length mac =? length h) && bytes_eqb (firstn (length mac) h) mac.
Definition hmacB_verify_sm3 key chunks mac := mac_verify (hmacB_sm3 key chunks) mac.
Definition hmacB_verify_sha1 key chunks mac := mac_verify (hmacB_sha1 key chunks) mac.
Definition hmacB_verify_sha224 key chunks mac := mac_verify (hmacB_sha224 key chunks) mac.
Definition hmacB_verify_sha256 key chunks mac := mac_verify (hmacB_sha256 key chunks) mac.
Definition hmacB_verify_sha384 key chunks mac := mac_verify (hmacB_sha384 key chunks) mac.
Definition hmacB_verify_sha512 key chunks mac := mac_verify (hmacB_sha512 key chunks) mac.

(* KDFs *)
Definition sm3_kdf_stream := kdf_stream sm3_ctx sm3_init sm3_update sm3_finish 32.
Definition sm2_kdf := kdf_oneshot sm3_ctx sm3_init sm3_update sm3_finish 32.
Definition sm3_kdf_spec := kdf_spec sm3 32.
Definition sm3_pbkdf2 := pbkdf2_impl sm3_ctx sm3_init sm3_update sm3_finish 64 32.
Definition sm3_pbkdf2_spec := pbkdf2_spec sm3 64 32.
Definition sm3_hkdf_extract := hkdf_extract_impl sm3_ctx sm3_init sm3_update sm3_finish 64 32.
Definition sm3_hkdf_expand := hkdf_expand_impl sm3_ctx sm3_init sm3_update sm3_finish 64.
Definition sm3_hkdf_extract_spec := hkdf_extract_spec sm3 64 32.
Definition sm3_hkdf_expand_spec := hkdf_expand_spec sm3 64 32.
Definition sha256_hkdf_extract := hkdf_extract_impl _ sha256_init sha256_update sha256_finish 64 32.
Definition sha256_hkdf_expand := hkdf_expand_impl _ sha256_init sha256_update sha256_finish 64.
Definition sha256_hkdf_extract_spec := hkdf_extract_spec sha256 64 32.
Definition sha256_hkdf_expand_spec := hkdf_expand_spec sha256 64 32.

(* Generic "continue from an installed (chaining state, block counter)" through the
   public context structs of every digest: Impl = the streaming code started from that
   state (MD.init with iv := st, n0 := nblocks), Spec = the standard's padding for a
   message whose first [nblocks] blocks have already been compressed into [st]. *)
Definition from_state_impl (compress : list N -> list N -> list N) (out : list N -> list N)
    (B LB : nat) (len_impl : N -> nat -> list N) (st : list N) (nblocks : N)
    (chunks : list (list N)) : list N :=
  finish (list N) compress out B LB len_impl
    (fold_left (update (list N) compress B) chunks (init (list N) st nblocks)).
Definition from_state_spec (compress : list N -> list N -> list N) (out : list N -> list N)
    (B LB : nat) (len_spec : N -> list N) (st : list N) (nblocks : N) (m : list N) : list N :=
  md_hash (list N) compress out st B LB len_spec nblocks m.

Definition sm3_from_state := from_state_impl sm3_compress sm3_out 64 8 len64_impl.
Definition sm3_from_state_spec := from_state_spec sm3_compress sm3_out 64 8 len64_spec.
Definition sha1_from_state := from_state_impl sha1_compress sha256_out 64 8 len64_impl.
Definition sha1_from_state_spec := from_state_spec sha1_compress sha256_out 64 8 len64_spec.
Definition sha256_from_state := from_state_impl sha256_compress sha256_out 64 8 len64_impl.
Definition sha256_from_state_spec := from_state_spec sha256_compress sha256_out 64 8 len64_spec.
Definition sha512_from_state := from_state_impl sha512_compress sha512_out 128 16 len128_impl.
Definition sha512_from_state_spec := from_state_spec sha512_compress sha512_out 128 16 len128_spec.
