From GmVerif Require Import Base.ListX Base.Bytes Hash.MD Hash.Hmac.
Local Open Scope nat_scope.

Section Proofs.
  Variable C : Type.
  Variable h_init : C.
  Variable h_update : C -> list N -> C.
  Variable h_finish : C -> list N.
  Variable H : list N -> list N.
  Variable B hlen : nat.
  Hypothesis stream_ok : forall chunks,
    h_finish (fold_left h_update chunks h_init) = H (concat chunks).
  Hypothesis H_len : forall m, length (H m) = hlen.
  Hypothesis hlen_pos : 0 < hlen.

  Notation hmac_spec := (hmac_spec H B).
  Notation hmacA_init := (hmacA_init C h_init h_update h_finish B).
  Notation hmacA_update := (hmacA_update C h_update).
  Notation hmacA_finish := (hmacA_finish C h_init h_update h_finish).
  Notation hmacB_init := (hmacB_init C h_init h_update h_finish B).
  Notation hmacB_update := (hmacB_update C h_update).
  Notation hmacB_finish := (hmacB_finish C h_update h_finish).

  Lemma oneshot_ok m : h_finish (h_update h_init m) = H m.
  Proof. rewrite <- (app_nil_r m) at 2. exact (stream_ok [m]). Qed.

  Lemma two_ok a b : h_finish (h_update (h_update h_init a) b) = H (a ++ b).
  Proof. rewrite <- (app_nil_r b) at 2. exact (stream_ok [a; b]). Qed.

  Lemma k0_eq key :
    (if length key <=? B then pad_to B key
     else pad_to B (h_finish (h_update h_init key))) = hmac_k0 H B key.
  Proof. unfold hmac_k0. rewrite oneshot_ok. reflexivity. Qed.

  Lemma xorc_ipad_opad l : xorc (N.lxor 0x36 0x5c) (xorc 0x36 l) = xorc 0x5c l.
  Proof.
    unfold xorc. rewrite map_map. apply map_ext. intros b.
    rewrite N.lxor_assoc, <- (N.lxor_assoc 0x36), N.lxor_nilpotent, N.lxor_0_l.
    reflexivity.
  Qed.

  Lemma foldA chunks c ik :
    fold_left hmacA_update chunks (c, ik) = (fold_left h_update chunks c, ik).
  Proof.
    revert c; induction chunks as [|d ds IH]; intros c; cbn [fold_left]; [reflexivity|].
    unfold Hmac.hmacA_update at 2. cbn [fst snd]. apply IH.
  Qed.

  Theorem hmacA_stream key chunks :
    hmacA_finish (fold_left hmacA_update chunks (hmacA_init key))
    = hmac_spec key (concat chunks).
  Proof.
    unfold Hmac.hmacA_init. rewrite k0_eq, foldA.
    unfold Hmac.hmacA_finish. cbn [fst snd].
    rewrite xorc_ipad_opad, two_ok.
    change (fold_left h_update chunks (h_update h_init (xorc 54 (hmac_k0 H B key))))
      with (fold_left h_update (xorc 54 (hmac_k0 H B key) :: chunks) h_init).
    rewrite stream_ok. reflexivity.
  Qed.

  Lemma foldB chunks pre o :
    exists pre',
      fold_left hmacB_update chunks (fold_left h_update pre h_init, o)
      = (fold_left h_update pre' h_init, o)
      /\ concat pre' = concat pre ++ concat chunks.
  Proof.
    revert pre; induction chunks as [|d ds IH]; intros pre; cbn [fold_left concat].
    - exists pre. rewrite app_nil_r. split; reflexivity.
    - destruct d as [|x d'].
      + cbn [Hmac.hmacB_update app]. apply IH.
      + unfold Hmac.hmacB_update at 2. cbn [fst snd].
        change (h_update (fold_left h_update pre h_init) (x :: d'))
          with (fold_left h_update [x :: d'] (fold_left h_update pre h_init)).
        rewrite <- fold_left_app.
        destruct (IH (pre ++ [x :: d'])) as [pre' [E1 E2]].
        exists pre'. split; [exact E1|].
        rewrite E2, concat_app. cbn [concat]. rewrite app_nil_r, app_assoc. reflexivity.
  Qed.

  Theorem hmacB_stream key chunks :
    hmacB_finish (fold_left hmacB_update chunks (hmacB_init key))
    = hmac_spec key (concat chunks).
  Proof.
    unfold Hmac.hmacB_init. rewrite k0_eq.
    set (k0 := hmac_k0 H B key).
    change (h_update h_init (xorc 54 k0)) with (fold_left h_update [xorc 54 k0] h_init).
    destruct (foldB chunks [xorc 54 k0] (h_update h_init (xorc 92 k0))) as [pre' [E1 E2]].
    rewrite E1. unfold Hmac.hmacB_finish. cbn [fst snd].
    rewrite stream_ok, E2, two_ok. cbn [concat]. rewrite app_nil_r. reflexivity.
  Qed.

  (* ---------- counter-mode KDF ---------- *)
  Lemma kdf_loop_0 fuel gen ct : kdf_loop hlen fuel gen ct 0 = [].
  Proof. destruct fuel; reflexivity. Qed.

  Lemma kdf_loop_ext fuel g1 g2 ct outlen :
    (forall i, g1 i = g2 i) ->
    kdf_loop hlen fuel g1 ct outlen = kdf_loop hlen fuel g2 ct outlen.
  Proof.
    intros E. revert ct outlen; induction fuel as [|f IH]; intros ct outlen; cbn [kdf_loop].
    - reflexivity.
    - rewrite E, IH. reflexivity.
  Qed.

  Lemma kdf_loop_spec fuel gen ct outlen :
    (forall i, length (gen i) = hlen) -> outlen <= fuel ->
    kdf_loop hlen fuel gen ct outlen
    = firstn outlen (flat_map gen (seq ct (kdf_nblocks hlen outlen))).
  Proof.
    intros Hg. revert ct outlen; induction fuel as [|f IH]; intros ct outlen Hle.
    - replace outlen with 0 by lia. reflexivity.
    - cbn [kdf_loop]. destruct (outlen =? 0) eqn:E0.
      + apply Nat.eqb_eq in E0. subst outlen. reflexivity.
      + apply Nat.eqb_neq in E0.
        destruct (Nat.le_gt_cases outlen hlen) as [Hs|Hb].
        * rewrite Nat.min_l by lia.
          replace (outlen - outlen) with 0 by lia. rewrite kdf_loop_0, app_nil_r.
          unfold kdf_nblocks.
          replace ((outlen + hlen - 1) / hlen) with 1.
          2:{ symmetry. replace (outlen + hlen - 1) with (1 * hlen + (outlen - 1)) by lia.
              rewrite Nat.div_add_l by lia. rewrite Nat.div_small by lia. lia. }
          cbn [seq flat_map]. rewrite app_nil_r. reflexivity.
        * rewrite Nat.min_r by lia.
          rewrite IH by lia.
          unfold kdf_nblocks.
          replace ((outlen + hlen - 1) / hlen) with (S ((outlen - hlen + hlen - 1) / hlen)).
          2:{ replace (outlen + hlen - 1) with (1 * hlen + (outlen - hlen + hlen - 1)) by lia.
              rewrite Nat.div_add_l by lia. lia. }
          cbn [seq flat_map].
          rewrite firstn_app, Hg.
          assert (Ha : forall n, hlen <= n -> firstn n (gen ct) = gen ct) by (intros n Hn; apply firstn_all2; rewrite Hg; exact Hn).
          rewrite !Ha by lia.
          replace (ct + 1) with (S ct) by lia. reflexivity.
  Qed.

  Lemma flat_map_ext' {A} (f g : A -> list N) l :
    (forall a, f a = g a) -> flat_map f l = flat_map g l.
  Proof. intros E. induction l as [|a l IH]; cbn; [reflexivity|]. rewrite E, IH. reflexivity. Qed.

  Theorem kdf_stream_eq chunks outlen :
    kdf_stream C h_init h_update h_finish hlen chunks outlen
    = kdf_spec H hlen (concat chunks) outlen.
  Proof.
    unfold kdf_stream, kdf_spec.
    rewrite kdf_loop_ext with (g2 := fun ct => H (concat chunks ++ ctr_be ct)).
    - apply kdf_loop_spec; [intros; apply H_len | lia].
    - intros i.
      change (h_update (fold_left h_update chunks h_init) (ctr_be i))
        with (fold_left h_update [ctr_be i] (fold_left h_update chunks h_init)).
      rewrite <- fold_left_app, stream_ok, concat_app. cbn [concat].
      rewrite app_nil_r. reflexivity.
  Qed.

  Theorem kdf_oneshot_eq z outlen :
    kdf_oneshot C h_init h_update h_finish hlen z outlen = kdf_spec H hlen z outlen.
  Proof.
    unfold kdf_oneshot, kdf_spec.
    rewrite kdf_loop_ext with (g2 := fun ct => H (z ++ ctr_be ct)).
    - apply kdf_loop_spec; [intros; apply H_len | lia].
    - intros i. apply two_ok.
  Qed.

  (* ---------- PBKDF2 ---------- *)
  Lemma pb_iter_ext n p1 p2 u acc :
    (forall x, p1 x = p2 x) -> pb_iter n p1 u acc = pb_iter n p2 u acc.
  Proof.
    intros E. revert u acc; induction n as [|n IH]; intros u acc; cbn [pb_iter].
    - reflexivity.
    - rewrite E, IH. reflexivity.
  Qed.

  Lemma xor_bytes_length a b : length a = length b -> length (xor_bytes a b) = length a.
  Proof.
    intros E. unfold xor_bytes. rewrite map_length, combine_length. lia.
  Qed.

  Lemma pb_iter_length n prf u acc :
    (forall x, length (prf x) = hlen) -> length u = hlen -> length acc = hlen ->
    length (pb_iter n prf u acc) = hlen.
  Proof.
    intros Hp. revert u acc; induction n as [|n IH]; intros u acc Hu Ha; cbn [pb_iter].
    - exact Ha.
    - apply IH; [apply Hp|]. rewrite xor_bytes_length; [exact Ha| rewrite Hp; exact Ha].
  Qed.

  Theorem pbkdf2_eq pass salt count outlen :
    pbkdf2_impl C h_init h_update h_finish B hlen pass salt count outlen
    = pbkdf2_spec H B hlen pass salt count outlen.
  Proof.
    unfold pbkdf2_impl, pbkdf2_spec.
    rewrite kdf_loop_ext with (g2 := pbkdf2_F H B pass salt count).
    - apply kdf_loop_spec; [|lia].
      intros i. unfold pbkdf2_F.
      apply pb_iter_length; intros; unfold Hmac.hmac_spec; apply H_len.
    - intros i. unfold pbkdf2_F.
      assert (E1 : hmacA_finish (hmacA_update (hmacA_update (hmacA_init pass) salt) (ctr_be i))
                   = hmac_spec pass (salt ++ ctr_be i)).
      { pose proof (hmacA_stream pass [salt; ctr_be i]) as Hs.
        cbn [fold_left concat] in Hs. rewrite app_nil_r in Hs. exact Hs. }
      rewrite E1. apply pb_iter_ext. intros x.
      pose proof (hmacA_stream pass [x]) as Hs.
      cbn [fold_left concat] in Hs. rewrite app_nil_r in Hs. exact Hs.
  Qed.

  (* ---------- HKDF extract ---------- *)
  Theorem hkdf_extract_eq salt ikm :
    hkdf_extract_impl C h_init h_update h_finish B hlen salt ikm
    = hkdf_extract_spec H B hlen salt ikm.
  Proof.
    unfold hkdf_extract_impl, hkdf_extract_spec, hmacB.
    rewrite hmacB_stream. cbn [concat]. rewrite app_nil_r. reflexivity.
  Qed.
  (* ---------- HKDF expand ---------- *)
  Lemma hmacB3 prk T info c :
    hmacB C h_init h_update h_finish B prk [T; info; [c]] = hmac_spec prk (T ++ info ++ [c]).
  Proof.
    unfold hmacB. rewrite hmacB_stream. cbn [concat]. rewrite app_nil_r. reflexivity.
  Qed.

  Lemma nblocks_small L : 0 < L -> L <= hlen -> kdf_nblocks hlen L = 1.
  Proof.
    intros H0 H1. unfold kdf_nblocks.
    replace (L + hlen - 1) with (1 * hlen + (L - 1)) by lia.
    rewrite Nat.div_add_l by lia. rewrite Nat.div_small by lia. lia.
  Qed.

  Lemma nblocks_big L : hlen < L -> kdf_nblocks hlen L = S (kdf_nblocks hlen (L - hlen)).
  Proof.
    intros H1. unfold kdf_nblocks.
    replace (L + hlen - 1) with (1 * hlen + (L - hlen + hlen - 1)) by lia.
    rewrite Nat.div_add_l by lia. lia.
  Qed.

  Lemma nblocks_pos L : 0 < L -> 1 <= kdf_nblocks hlen L.
  Proof.
    intros H0. unfold kdf_nblocks. apply Nat.div_le_lower_bound; lia.
  Qed.

  Lemma hkdf_loop_0 fuel prk info T c :
    hkdf_expand_loop C h_init h_update h_finish B fuel prk info T c 0 = Some [].
  Proof. destruct fuel; reflexivity. Qed.

  Lemma hkdf_loop_ok fuel prk info T c L :
    L <= fuel -> 1 <= c -> c + kdf_nblocks hlen L <= 256 ->
    hkdf_expand_loop C h_init h_update h_finish B fuel prk info T c L
    = Some (firstn L (hkdf_Ts H B (kdf_nblocks hlen L) prk info T c)).
  Proof.
    revert T c L; induction fuel as [|f IH]; intros T c L Hf Hc Hn.
    - replace L with 0 by lia. reflexivity.
    - cbn [hkdf_expand_loop]. destruct (L =? 0) eqn:E0.
      + apply Nat.eqb_eq in E0. subst L. reflexivity.
      + apply Nat.eqb_neq in E0.
        replace (c =? 0) with false by (symmetry; apply Nat.eqb_neq; lia).
        rewrite hmacB3. set (T' := hmac_spec prk (T ++ info ++ [N.of_nat c])).
        assert (HT' : length T' = hlen) by (unfold T', Hmac.hmac_spec; apply H_len).
        rewrite HT'.
        destruct (Nat.le_gt_cases L hlen) as [Hs|Hb].
        * rewrite Nat.min_r by lia. replace (L - L) with 0 by lia.
          rewrite hkdf_loop_0, app_nil_r.
          rewrite nblocks_small by lia. cbn [hkdf_Ts]. fold T'.
          rewrite app_nil_r. reflexivity.
        * rewrite Nat.min_l by lia.
          rewrite nblocks_big in * by lia.
          pose proof (nblocks_pos (L - hlen) ltac:(lia)) as Hpos.
          rewrite Nat.mod_small by lia.
          rewrite IH by lia.
          cbn [hkdf_Ts]. fold T'.
          rewrite firstn_app, HT'.
          assert (Ha : forall n, hlen <= n -> firstn n T' = T')
            by (intros n Hn'; apply firstn_all2; lia).
          rewrite !Ha by lia. reflexivity.
  Qed.

  Lemma hkdf_loop_err fuel prk info T c L :
    L <= fuel -> 1 <= c <= 256 -> 256 < c + kdf_nblocks hlen L ->
    hkdf_expand_loop C h_init h_update h_finish B fuel prk info T (c mod 256) L = None.
  Proof.
    revert T c L; induction fuel as [|f IH]; intros T c L Hf Hc Hn.
    - replace L with 0 in Hn by lia. unfold kdf_nblocks in Hn.
      rewrite Nat.div_small in Hn by lia. lia.
    - cbn [hkdf_expand_loop]. destruct (L =? 0) eqn:E0.
      + apply Nat.eqb_eq in E0. subst L. unfold kdf_nblocks in Hn.
        rewrite Nat.div_small in Hn by lia. lia.
      + apply Nat.eqb_neq in E0.
        destruct (Nat.eq_dec c 256) as [->|Hne].
        * rewrite Nat.mod_same by lia. reflexivity.
        * rewrite Nat.mod_small by lia.
          replace (c =? 0) with false by (symmetry; apply Nat.eqb_neq; lia).
          rewrite hmacB3. set (T' := hmac_spec prk (T ++ info ++ [N.of_nat c])).
          assert (HT' : length T' = hlen) by (unfold T', Hmac.hmac_spec; apply H_len).
          rewrite HT'.
          destruct (Nat.le_gt_cases L hlen) as [Hs|Hb].
          -- rewrite nblocks_small in Hn by lia. lia.
          -- rewrite Nat.min_l by lia. rewrite nblocks_big in Hn by lia.
             rewrite IH; [reflexivity | lia | lia | lia].
  Qed.

  Theorem hkdf_expand_eq prk info L :
    L <= 255 * hlen ->
    hkdf_expand_impl C h_init h_update h_finish B prk info L
    = Some (hkdf_expand_spec H B hlen prk info L).
  Proof.
    intros HL. unfold hkdf_expand_impl, hkdf_expand_spec.
    apply hkdf_loop_ok; [lia | lia |].
    assert (kdf_nblocks hlen L < 256); [|lia].
    unfold kdf_nblocks. apply Nat.div_lt_upper_bound; lia.
  Qed.

  Theorem hkdf_expand_too_long prk info L :
    255 * hlen < L -> hkdf_expand_impl C h_init h_update h_finish B prk info L = None.
  Proof.
    intros HL. unfold hkdf_expand_impl.
    change 1 with (1 mod 256) at 1.
    apply hkdf_loop_err; [lia | lia |].
    assert (256 <= kdf_nblocks hlen L); [|lia].
    unfold kdf_nblocks. apply Nat.div_le_lower_bound; lia.
  Qed.
End Proofs.
