(* Generic Merkle-Damgard streaming context, transcribed from src/sm3.c
   (sm3_init / sm3_update / sm3_finish; the same shape is used by sha1.c,
   sha256.c and, with a 128-byte block and 16-byte length field, sha512.c).

   Impl model : [ctx], [update], [finish]   (mirrors the C control flow)
   Spec       : [md_hash]                   (pad the whole message, fold)       *)
From GmVerif Require Import Base.ListX Base.Bytes.
Local Open Scope nat_scope.

Section MD.
  Variable S : Type.
  Variable compress : S -> list N -> S.
  Variable out : S -> list N.
  Variable iv : S.
  Variable B : nat.          (* block size in bytes *)
  Variable LB : nat.         (* size of the length field in bytes *)
  (* length field as written by the C code from (nblocks mod 2^64, num) *)
  Variable len_impl : N -> nat -> list N.
  (* length field of the standard, from the total byte length *)
  Variable len_spec : N -> list N.
  (* number of blocks already absorbed into [iv] before this run (0 for a fresh
     context; the public context structs let a caller install any counter) *)
  Variable n0 : N.

  (* ---------- folding whole blocks ---------- *)
  Fixpoint foldn (k : nat) (st : S) (d : list N) : S :=
    match k with
    | O => st
    | Datatypes.S k' => foldn k' (compress st (firstn B d)) (skipn B d)
    end.

  (* ---------- Impl model ---------- *)
  Record ctx := mk { st : S; nb : N; buf : list N }.

  Definition init : ctx := mk iv (n0 mod 2^64)%N [].

  Definition tail (s : S) (n : N) (d : list N) : ctx :=
    let k := length d / B in
    mk (foldn k s d) ((n + N.of_nat k) mod 2^64)%N (skipn (k * B) d).

  Definition update (c : ctx) (d : list N) : ctx :=
    match buf c with
    | [] => tail (st c) (nb c) d
    | _ =>
      let left := B - length (buf c) in
      if length d <? left then mk (st c) (nb c) (buf c ++ d)
      else tail (compress (st c) (buf c ++ firstn left d))
                ((nb c + 1) mod 2^64)%N (skipn left d)
    end.

  Definition finish (c : ctx) : list N :=
    let num := length (buf c) in
    let lenf := len_impl (nb c) num in
    if num + 1 + LB <=? B then
      out (compress (st c) (buf c ++ [128%N] ++ zeros (B - num - 1 - LB) ++ lenf))
    else
      let s1 := compress (st c) (buf c ++ [128%N] ++ zeros (B - num - 1)) in
      out (compress s1 (zeros (B - LB) ++ lenf)).

  (* ---------- Spec ---------- *)
  Definition padz (len : nat) : nat :=
    let r := len mod B in
    if r + 1 + LB <=? B then B - (r + 1 + LB) else 2 * B - (r + 1 + LB).

  Definition md_pad (msg : list N) : list N :=
    msg ++ [128%N] ++ zeros (padz (length msg))
        ++ len_spec (n0 * N.of_nat B + N.of_nat (length msg))%N.

  Definition md_hash (msg : list N) : list N :=
    let p := md_pad msg in out (foldn (length p / B) iv p).

  (* state reached after absorbing [msg], as a function of msg alone *)
  Definition ctx_of (msg : list N) : ctx :=
    let k := length msg / B in
    mk (foldn k iv msg) ((n0 + N.of_nat k) mod 2^64)%N (skipn (k * B) msg).

  (* ---------- Theorems ---------- *)
  Hypothesis B_pos : 0 < B.
  Hypothesis LB_lt : LB < B.
  Hypothesis len_spec_length : forall n, length (len_spec n) = LB.
  (* admissible number of whole blocks (True for the 64-bit length field of the
     64-byte family; < 2^64 blocks for the 128-bit field of SHA-384/512, whose
     C block counter is 64 bits wide) *)
  Variable Lok : nat -> Prop.
  Hypothesis len_impl_ok : forall (k r : nat), r < B -> Lok k ->
    len_impl ((n0 + N.of_nat k) mod 2^64)%N r
    = len_spec (n0 * N.of_nat B + N.of_nat (k * B + r))%N.

  Lemma foldn_add j k s d :
    foldn (j + k) s d = foldn k (foldn j s d) (skipn (j * B) d).
  Proof.
    revert s d; induction j as [|j IH]; intros s d; cbn [foldn Nat.add Nat.mul].
    - reflexivity.
    - rewrite IH. rewrite skipn_skipn_nat. reflexivity.
  Qed.

  Lemma foldn_app_l k s a b : k * B <= length a -> foldn k s (a ++ b) = foldn k s a.
  Proof.
    revert s a; induction k as [|k IH]; intros s a Hl; cbn [foldn]; [reflexivity|].
    cbn [Nat.mul] in Hl.
    rewrite firstn_app, skipn_app.
    replace (B - length a) with 0 by lia. cbn [firstn skipn].
    rewrite app_nil_r. apply IH. rewrite skipn_length. lia.
  Qed.

  Lemma foldn_one s blk : length blk = B -> foldn 1 s blk = compress s blk.
  Proof. intros H; cbn [foldn]. rewrite <- H, firstn_all. reflexivity. Qed.

  Lemma foldn_snoc k s a blk : length a = k * B -> length blk = B ->
    foldn (k + 1) s (a ++ blk) = compress (foldn k s a) blk.
  Proof.
    intros Ha Hb. rewrite foldn_add.
    rewrite foldn_app_l by lia.
    rewrite skipn_app, <- Ha, skipn_all, Nat.sub_diag. cbn [skipn app].
    apply foldn_one; assumption.
  Qed.

  Lemma tail_ok k (m d : list N) : length m = k * B ->
    tail (foldn k iv m) ((n0 + N.of_nat k) mod 2^64)%N d = ctx_of (m ++ d).
  Proof.
    intros Hm. unfold tail, ctx_of.
    rewrite app_length, Hm.
    replace ((k * B + length d) / B) with (k + length d / B)
      by (rewrite Nat.div_add_l by lia; reflexivity).
    f_equal.
    - rewrite foldn_add. rewrite (foldn_app_l k) by lia.
      rewrite skipn_app, <- Hm, skipn_all, Nat.sub_diag. reflexivity.
    - rewrite N.add_mod_idemp_l by (cbv; discriminate).
      rewrite Nat2N.inj_add, N.add_assoc. reflexivity.
    - rewrite Nat.mul_add_distr_r, <- Hm.
      rewrite skipn_app.
      replace (length m + length d / B * B - length m) with (length d / B * B) by lia.
      rewrite (skipn_all2 m) by lia. reflexivity.
  Qed.

  Lemma buf_length (m : list N) : length (skipn (length m / B * B) m) = length m mod B.
  Proof.
    rewrite skipn_length.
    pose proof (Nat.div_mod (length m) B ltac:(lia)). lia.
  Qed.

  Theorem update_ctx_of (m d : list N) : update (ctx_of m) d = ctx_of (m ++ d).
  Proof.
    unfold update.
    set (k := length m / B).
    assert (Hdm : length m = k * B + length m mod B)
      by (pose proof (Nat.div_mod (length m) B ltac:(lia)); subst k; lia).
    assert (Hr : length m mod B < B) by (apply Nat.mod_upper_bound; lia).
    assert (Hbl : length (buf (ctx_of m)) = length m mod B) by apply buf_length.
    destruct (buf (ctx_of m)) as [|b0 bs] eqn:Hbuf.
    - (* empty buffer: length m is a multiple of B *)
      cbn [length] in Hbl.
      change (st (ctx_of m)) with (foldn k iv m).
      change (nb (ctx_of m)) with ((n0 + N.of_nat k) mod 2^64)%N.
      apply tail_ok. lia.
    - rewrite <- Hbuf in *. clear Hbuf b0 bs.
      change (st (ctx_of m)) with (foldn k iv m).
      change (nb (ctx_of m)) with ((n0 + N.of_nat k) mod 2^64)%N.
      rewrite Hbl.
      destruct (length d <? B - length m mod B) eqn:Hlt.
      + apply Nat.ltb_lt in Hlt.
        unfold ctx_of. rewrite app_length.
        replace ((length m + length d) / B) with k.
        2:{ rewrite Hdm at 1. rewrite <- Nat.add_assoc, Nat.div_add_l by lia.
            rewrite Nat.div_small by lia. lia. }
        fold k. f_equal.
        * symmetry. apply foldn_app_l. lia.
        * change (buf (ctx_of m)) with (skipn (k * B) m).
          rewrite skipn_app. replace (k * B - length m) with 0 by lia. reflexivity.
      + apply Nat.ltb_ge in Hlt.
        set (left := B - length m mod B) in *.
        set (m' := m ++ firstn left d).
        assert (Hm' : length m' = (k + 1) * B).
        { unfold m'. rewrite app_length, firstn_length_le by lia. lia. }
        replace (m ++ d) with (m' ++ skipn left d)
          by (unfold m'; rewrite <- app_assoc, firstn_skipn; reflexivity).
        rewrite <- tail_ok with (k := k + 1) by exact Hm'.
        f_equal.
        * unfold m'.
          replace (m ++ firstn left d)
            with (firstn (k * B) m ++ (skipn (k * B) m ++ firstn left d))
            by (rewrite app_assoc, firstn_skipn; reflexivity).
          rewrite foldn_snoc.
          -- change (buf (ctx_of m)) with (skipn (k * B) m).
             f_equal. rewrite <- (firstn_skipn (k * B) m) at 1.
             apply foldn_app_l. rewrite firstn_length_le by lia. lia.
          -- rewrite firstn_length_le by lia. reflexivity.
          -- rewrite app_length, skipn_length, firstn_length_le by lia. lia.
        * rewrite N.add_mod_idemp_l by (cbv; discriminate).
          rewrite Nat2N.inj_add, N.add_assoc. reflexivity.
  Qed.

  Lemma init_ctx_of : init = ctx_of [].
  Proof.
    unfold init, ctx_of. cbn [length]. rewrite Nat.div_0_l by lia.
    cbn [N.of_nat foldn skipn Nat.mul]. rewrite N.add_0_r. reflexivity.
  Qed.

  Theorem updates_ctx_of chunks m :
    fold_left update chunks (ctx_of m) = ctx_of (m ++ concat chunks).
  Proof.
    revert m; induction chunks as [|c cs IH]; intros m; cbn [fold_left concat].
    - rewrite app_nil_r; reflexivity.
    - rewrite update_ctx_of, IH, app_assoc. reflexivity.
  Qed.

  Lemma padz_spec len : (len + 1 + padz len + LB) mod B = 0 /\ padz len < B.
  Proof.
    unfold padz.
    pose proof (Nat.div_mod len B ltac:(lia)) as Hd.
    pose proof (Nat.mod_upper_bound len B ltac:(lia)) as Hr.
    set (r := len mod B) in *. set (q := len / B) in *.
    destruct (r + 1 + LB <=? B) eqn:E.
    - apply Nat.leb_le in E. split; [|lia].
      replace (len + 1 + (B - (r + 1 + LB)) + LB) with ((q + 1) * B) by lia.
      apply Nat.mod_mul; lia.
    - apply Nat.leb_gt in E. split; [|lia].
      replace (len + 1 + (2 * B - (r + 1 + LB)) + LB) with ((q + 2) * B) by lia.
      apply Nat.mod_mul; lia.
  Qed.

  Theorem finish_ctx_of m : Lok (length m / B) -> finish (ctx_of m) = md_hash m.
  Proof.
    intros HLok. unfold finish, md_hash, md_pad.
    set (k := length m / B) in *.
    assert (Hdm : length m = k * B + length m mod B)
      by (pose proof (Nat.div_mod (length m) B ltac:(lia)); subst k; lia).
    assert (Hr : length m mod B < B) by (apply Nat.mod_upper_bound; lia).
    change (buf (ctx_of m)) with (skipn (k * B) m).
    change (st (ctx_of m)) with (foldn k iv m).
    change (nb (ctx_of m)) with ((n0 + N.of_nat k) mod 2^64)%N.
    assert (Hbl : length (skipn (k * B) m) = length m mod B) by apply buf_length.
    rewrite Hbl.
    rewrite len_impl_ok by assumption. rewrite <- Hdm.
    set (lf := len_spec (n0 * N.of_nat B + N.of_nat (length m))%N).
    assert (Hlf : length lf = LB) by apply len_spec_length.
    set (r := length m mod B) in *.
    set (pre := firstn (k * B) m). set (bf := skipn (k * B) m).
    assert (Hpre : length pre = k * B) by (unfold pre; rewrite firstn_length_le; lia).
    assert (Hbf : length bf = r) by (unfold bf; rewrite skipn_length; lia).
    assert (Hm : m = pre ++ bf) by (unfold pre, bf; rewrite firstn_skipn; reflexivity).
    assert (Hfold : foldn k iv m = foldn k iv pre)
      by (rewrite Hm at 1; apply foldn_app_l; lia).
    unfold padz. fold r.
    clearbody lf r pre bf k. subst m.
    destruct (r + 1 + LB <=? B) eqn:E.
    - apply Nat.leb_le in E.
      set (blk := bf ++ [128%N] ++ zeros (B - r - 1 - LB) ++ lf).
      assert (Hblk : length blk = B).
      { unfold blk. rewrite !app_length, zeros_length. cbn [length]. lia. }
      replace (B - (r + 1 + LB)) with (B - r - 1 - LB) by lia.
      replace ((pre ++ bf) ++ [128%N] ++ zeros (B - r - 1 - LB) ++ lf) with (pre ++ blk)
        by (unfold blk; rewrite <- !app_assoc; reflexivity).
      rewrite app_length, Hpre, Hblk.
      replace ((k * B + B) / B) with (k + 1)
        by (replace (k * B + B) with ((k + 1) * B) by lia; rewrite Nat.div_mul; lia).
      rewrite foldn_snoc by assumption. rewrite Hfold. reflexivity.
    - apply Nat.leb_gt in E.
      set (b1 := bf ++ [128%N] ++ zeros (B - r - 1)).
      set (b2 := zeros (B - LB) ++ lf).
      assert (Hb1 : length b1 = B).
      { unfold b1. rewrite !app_length, zeros_length. cbn [length]. lia. }
      assert (Hb2 : length b2 = B).
      { unfold b2. rewrite !app_length, zeros_length. lia. }
      replace ((pre ++ bf) ++ [128%N] ++ zeros (2 * B - (r + 1 + LB)) ++ lf)
        with ((pre ++ b1) ++ b2).
      2:{ unfold b1, b2. rewrite <- !app_assoc. do 3 f_equal.
          rewrite app_assoc. f_equal.
          replace (2 * B - (r + 1 + LB)) with ((B - r - 1) + (B - LB)) by lia.
          clear. induction (B - r - 1); cbn; congruence. }
      rewrite !app_length, Hpre, Hb1, Hb2.
      replace ((k * B + B + B) / B) with ((k + 1) + 1)
        by (replace (k * B + B + B) with ((k + 2) * B) by lia; rewrite Nat.div_mul; lia).
      rewrite foldn_snoc; [| rewrite app_length; lia | assumption].
      rewrite foldn_snoc by assumption. rewrite Hfold. reflexivity.
  Qed.

  (* The property-level statement: any chunking = the standard's hash. *)
  Theorem md_stream chunks : Lok (length (concat chunks) / B) ->
    finish (fold_left update chunks init) = md_hash (concat chunks).
  Proof.
    intros HLok. rewrite init_ctx_of, updates_ctx_of. cbn [app]. apply finish_ctx_of. exact HLok.
  Qed.

  (* The buffer never reaches a whole block (memory-safety side of the model). *)
  Theorem buf_lt_B chunks : length (buf (fold_left update chunks init)) < B.
  Proof.
    rewrite init_ctx_of, updates_ctx_of. cbn [app].
    change (buf (ctx_of (concat chunks)))
      with (skipn (length (concat chunks) / B * B) (concat chunks)).
    rewrite buf_length. apply Nat.mod_upper_bound. lia.
  Qed.
End MD.
