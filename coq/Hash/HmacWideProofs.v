(* HMAC over a hash whose streaming theorem carries a length premise (SHA-384/512 and the
   SHA-512/t variants: the C block counter is 64 bits wide).  Same argument as HmacProofs.v
   (hmac.c, "Impl B"), with the premise threaded through: the three hash computations of HMAC
   are over key, ipad-block ++ message and opad-block ++ inner digest. *)
From GmVerif Require Import Base.ListX Base.Bytes Hash.MD Hash.Hmac.
From Coq Require Import Lia.
Local Open Scope nat_scope.

Section Wide.
  Variable C : Type.
  Variable h_init : C.
  Variable h_update : C -> list N -> C.
  Variable h_finish : C -> list N.
  Variable H : list N -> list N.
  Variable B hlen : nat.
  Variable ok : nat -> Prop.                       (* admissible total byte length *)
  Hypothesis ok_mono : forall a b, a <= b -> ok b -> ok a.
  Hypothesis stream_ok : forall chunks, ok (length (concat chunks)) ->
    h_finish (fold_left h_update chunks h_init) = H (concat chunks).
  Hypothesis H_len : forall m, length (H m) = hlen.
  Hypothesis hlen_le : hlen <= B.

  Notation hmac_spec := (hmac_spec H B).
  Notation hmacB_init := (hmacB_init C h_init h_update h_finish B).
  Notation hmacB_update := (hmacB_update C h_update).
  Notation hmacB_finish := (hmacB_finish C h_update h_finish).

  Lemma w_oneshot m : ok (length m) -> h_finish (h_update h_init m) = H m.
  Proof.
    intros Hm. rewrite <- (app_nil_r m) at 2. apply (stream_ok [m]). cbn [concat]. rewrite app_nil_r. exact Hm.
  Qed.

  Lemma w_two a b : ok (length (a ++ b)) -> h_finish (h_update (h_update h_init a) b) = H (a ++ b).
  Proof.
    intros Hm. rewrite <- (app_nil_r b) at 2. apply (stream_ok [a; b]). cbn [concat]. rewrite app_nil_r. exact Hm.
  Qed.

  Lemma k0_length key : length (hmac_k0 H B key) = B.
  Proof.
    unfold hmac_k0, pad_to. destruct (length key <=? B) eqn:E.
    - apply Nat.leb_le in E. rewrite app_length, zeros_length. lia.
    - rewrite app_length, zeros_length, H_len. lia.
  Qed.

  Lemma xorc_length c l : length (xorc c l) = length l.
  Proof. unfold xorc. apply map_length. Qed.

  Lemma w_foldB chunks pre o :
    exists pre',
      fold_left hmacB_update chunks (fold_left h_update pre h_init, o)
      = (fold_left h_update pre' h_init, o)
      /\ concat pre' = concat pre ++ concat chunks.
  Proof.
    revert pre; induction chunks as [|d ds IH]; intros pre; cbn [fold_left concat].
    - exists pre. rewrite app_nil_r. split; reflexivity.
    - destruct d as [|x d'].
      + cbn [Hmac.hmacB_update app]. apply IH.
      + unfold Hmac.hmacB_update at 2. cbn [fst snd].
        change (h_update (fold_left h_update pre h_init) (x :: d'))
          with (fold_left h_update [x :: d'] (fold_left h_update pre h_init)).
        rewrite <- fold_left_app.
        destruct (IH (pre ++ [x :: d'])) as [pre' [E1 E2]].
        exists pre'. split; [exact E1|].
        rewrite E2, concat_app. cbn [concat]. rewrite app_nil_r, app_assoc. reflexivity.
  Qed.

  Theorem hmacB_stream_wide key chunks :
    ok (length key + B + hlen + length (concat chunks)) ->
    hmacB_finish (fold_left hmacB_update chunks (hmacB_init key)) = hmac_spec key (concat chunks).
  Proof.
    intros Hok.
    assert (Hk : ok (length key)) by (eapply ok_mono; [|exact Hok]; lia).
    unfold Hmac.hmacB_init.
    assert (K0 : (if length key <=? B then pad_to B key
                  else pad_to B (h_finish (h_update h_init key))) = hmac_k0 H B key)
      by (unfold hmac_k0; rewrite (w_oneshot key Hk); reflexivity).
    rewrite K0.
    set (k0 := hmac_k0 H B key).
    assert (Lk0 : length k0 = B) by apply k0_length.
    change (h_update h_init (xorc 54 k0)) with (fold_left h_update [xorc 54 k0] h_init).
    destruct (w_foldB chunks [xorc 54 k0] (h_update h_init (xorc 92 k0))) as [pre' [E1 E2]].
    rewrite E1. unfold Hmac.hmacB_finish. cbn [fst snd].
    cbn [concat] in E2. rewrite app_nil_r in E2.
    rewrite stream_ok.
    2:{ rewrite E2, app_length, xorc_length, Lk0. eapply ok_mono; [|exact Hok]; lia. }
    rewrite E2. rewrite w_two.
    2:{ rewrite app_length, xorc_length, Lk0, H_len. eapply ok_mono; [|exact Hok]; lia. }
    reflexivity.
  Qed.
End Wide.
