(* FIPS 180-4 defines the SHA-2 constants arithmetically: K256[i] / K512[i] are the first 32 / 64
   bits of the fractional part of the cube root of the i-th prime, H256 / H512 of the square root
   of the first eight primes, H224 (second 32 bits) / H384 of the square roots of the 9th..16th
   primes.  Proved here for the literal lists of Hash/SHA2.v by exact integer-root bracketing:
     v^k <= p * 2^(k*s) < (v+1)^k   and   constant = v mod 2^s         (k = 2 or 3)
   so that the Spec's tables are the standard's by computation, not by transcription. *)
From Coq Require Import List NArith Arith Lia Bool.
Import ListNotations.
From GmVerif Require Import Hash.SHA2.
Local Open Scope N_scope.

(* trial division: n >= 2 has no divisor in 2..n-1 *)
Definition is_prime_b (n : N) : bool :=
  (2 <=? n) && forallb (fun d => negb (n mod d =? 0)) (map N.of_nat (seq 2 (N.to_nat n - 2))).
Definition primes_upto (m : nat) : list N := filter is_prime_b (map N.of_nat (seq 0 (S m))).

(* floor of the k-th root, bit by bit from bit [b] down; only used to *find* the witness *)
Fixpoint iroot_bits (k : N) (n : N) (b : nat) (r : N) : N :=
  let c := r + 2 ^ N.of_nat b in
  let r' := if c ^ k <=? n then c else r in
  match b with O => r' | S b' => iroot_bits k n b' r' end.
Definition iroot (k n : N) : N := iroot_bits k n 80 0.

(* [v] is the exact floor k-th root of [n] *)
Definition is_iroot (k n v : N) : bool := (v ^ k <=? n) && (n <? (v + 1) ^ k).

(* the s fraction bits of the k-th root of p *)
Definition frac_root (k s p : N) : N := iroot k (p * 2 ^ (k * s)) mod 2 ^ s.
Definition root_ok (k s p c : N) : bool :=
  let n := p * 2 ^ (k * s) in let v := iroot k n in is_iroot k n v && (c =? v mod 2 ^ s).

Fixpoint all2 {A B} (f : A -> B -> bool) (l : list A) (m : list B) : bool :=
  match l, m with
  | [], [] => true
  | a :: l', b :: m' => f a b && all2 f l' m'
  | _, _ => false
  end.

Definition primes80 : list N := primes_upto 409.
Definition primes_9_16 : list N := firstn 8 (skipn 8 primes80).

Lemma primes80_length : length primes80 = 80%nat.
Proof. vm_compute. reflexivity. Qed.

Theorem K256_is_cube_roots : all2 (root_ok 3 32) (firstn 64 primes80) K256 = true.
Proof. vm_compute. reflexivity. Qed.
Theorem K512_is_cube_roots : all2 (root_ok 3 64) primes80 K512 = true.
Proof. vm_compute. reflexivity. Qed.
Theorem H256_is_square_roots : all2 (root_ok 2 32) (firstn 8 primes80) H256 = true.
Proof. vm_compute. reflexivity. Qed.
Theorem H512_is_square_roots : all2 (root_ok 2 64) (firstn 8 primes80) H512 = true.
Proof. vm_compute. reflexivity. Qed.
Theorem H384_is_square_roots : all2 (root_ok 2 64) primes_9_16 H384 = true.
Proof. vm_compute. reflexivity. Qed.
(* SHA-224: the second 32 bits of the fraction = low 32 bits of the 64-bit fraction *)
Theorem H224_is_square_roots_low32 :
  all2 (fun p c => root_ok 2 64 p (N.shiftl (N.shiftr (frac_root 2 64 p) 32) 32 + c)) primes_9_16 H224 = true.
Proof. vm_compute. reflexivity. Qed.

(* SHA-1: K_t = floor(2^30 * sqrt(2, 3, 5, 10)) *)
Theorem sha1_K_is_square_roots :
  all2 (fun p c => is_iroot 2 (p * 2 ^ 60) c) [2; 3; 5; 10] [sha1_k 0; sha1_k 20; sha1_k 40; sha1_k 60] = true.
Proof. vm_compute. reflexivity. Qed.

(* what [root_ok] means, for the reader: a bracketing, independent of how the witness was found *)
Lemma root_ok_spec k s p c :
  root_ok k s p c = true ->
  exists v, v ^ k <= p * 2 ^ (k * s) /\ p * 2 ^ (k * s) < (v + 1) ^ k /\ c = v mod 2 ^ s.
Proof.
  unfold root_ok, is_iroot. intros H.
  apply andb_true_iff in H. destruct H as [H Hc]. apply andb_true_iff in H. destruct H as [H1 H2].
  exists (iroot k (p * 2 ^ (k * s))).
  apply N.leb_le in H1. apply N.ltb_lt in H2. apply N.eqb_eq in Hc. auto.
Qed.

Theorem sha2_constants_are_fips180 :
  all2 (root_ok 3 32) (firstn 64 primes80) K256 = true /\
  all2 (root_ok 3 64) primes80 K512 = true /\
  all2 (root_ok 2 32) (firstn 8 primes80) H256 = true /\
  all2 (root_ok 2 64) (firstn 8 primes80) H512 = true /\
  all2 (root_ok 2 64) primes_9_16 H384 = true /\
  all2 (fun p c => root_ok 2 64 p (N.shiftl (N.shiftr (frac_root 2 64 p) 32) 32 + c)) primes_9_16 H224 = true.
Proof.
  split; [exact K256_is_cube_roots|]. split; [exact K512_is_cube_roots|].
  split; [exact H256_is_square_roots|]. split; [exact H512_is_square_roots|].
  split; [exact H384_is_square_roots | exact H224_is_square_roots_low32].
Qed.
