From GmVerif Require Import Base.ListX Base.Bytes Hash.MD Hash.SM3 Hash.SM3Proofs
  Hash.SHA2 Hash.SHA2Proofs Hash.Hmac Hash.HmacProofs Hash.HmacWideProofs Hash.Instances.
Local Open Scope nat_scope.

Lemma sm3_len m : length (sm3 m) = 32.
Proof.
  unfold sm3, md_hash, sm3_out.
  set (s := foldn _ _ _ _ _ _).
  assert (H : forall k st d, length st = 8 -> length (foldn (list N) sm3_compress 64 k st d) = 8).
  { induction k as [|k IH]; intros st d Hs; cbn [foldn]; [exact Hs|].
    apply IH. unfold sm3_compress.
    destruct st as [|a [|b [|c [|d0 [|e [|f [|g [|h [|]]]]]]]]]; try discriminate Hs.
    destruct (fold_left _ _ _) as [[[[[[[A B] C] D] E] F] G] Hh]. reflexivity. }
  assert (Hs : length s = 8) by (apply H; reflexivity).
  destruct s as [|a [|b [|c [|d0 [|e [|f [|g [|h [|]]]]]]]]]; try discriminate Hs.
  reflexivity.
Qed.

Lemma sm3_hmac_stream key chunks : sm3_hmac key chunks = sm3_hmac_spec key (concat chunks).
Proof. apply hmacA_stream. exact sm3_stream. Qed.

Lemma hmac_generic_stream key chunks :
  hmacB_sm3 key chunks = hmac_spec sm3 64 key (concat chunks) /\
  hmacB_sha1 key chunks = hmac_spec sha1 64 key (concat chunks) /\
  hmacB_sha224 key chunks = hmac_spec sha224 64 key (concat chunks) /\
  hmacB_sha256 key chunks = hmac_spec sha256 64 key (concat chunks).
Proof.
  repeat split; apply hmacB_stream.
  - exact sm3_stream.
  - exact sha1_stream.
  - exact sha224_stream.
  - exact sha256_stream.
Qed.

Lemma sm3_kdf_stream_eq chunks outlen :
  sm3_kdf_stream chunks outlen = sm3_kdf_spec (concat chunks) outlen.
Proof. apply kdf_stream_eq; [exact sm3_stream | exact sm3_len | lia]. Qed.

Lemma sm2_kdf_eq z outlen : sm2_kdf z outlen = sm3_kdf_spec z outlen.
Proof. apply kdf_oneshot_eq; [exact sm3_stream | exact sm3_len | lia]. Qed.

Lemma sm3_pbkdf2_eq pass salt count outlen :
  sm3_pbkdf2 pass salt count outlen = sm3_pbkdf2_spec pass salt count outlen.
Proof. apply pbkdf2_eq; [exact sm3_stream | exact sm3_len | lia]. Qed.

Lemma hkdf_extract_both salt ikm :
  sm3_hkdf_extract salt ikm = sm3_hkdf_extract_spec salt ikm /\
  sha256_hkdf_extract salt ikm = sha256_hkdf_extract_spec salt ikm.
Proof.
  split; apply hkdf_extract_eq; [exact sm3_stream | exact sha256_stream].
Qed.

Lemma sha256_len m : length (sha256 m) = 32.
Proof.
  unfold sha256, md_hash, sha256_out.
  set (s := foldn _ _ _ _ _ _).
  assert (H : forall k st d, length st = 8 -> length (foldn (list N) sha256_compress 64 k st d) = 8).
  { induction k as [|k IH]; intros st d Hs; cbn [foldn]; [exact Hs|].
    apply IH. unfold sha256_compress, sha2_compress.
    destruct st as [|a [|b [|c [|d0 [|e [|f [|g [|h [|]]]]]]]]]; try discriminate Hs.
    destruct (fold_left _ _ _) as [[[[[[[A B] C] D] E] F] G] Hh]. reflexivity. }
  assert (Hs : length s = 8) by (apply H; reflexivity).
  destruct s as [|a [|b [|c [|d0 [|e [|f [|g [|h [|]]]]]]]]]; try discriminate Hs.
  reflexivity.
Qed.

Lemma hkdf_expand_both prk info L :
  (L <= 255 * 32 ->
     sm3_hkdf_expand prk info L = Some (sm3_hkdf_expand_spec prk info L) /\
     sha256_hkdf_expand prk info L = Some (sha256_hkdf_expand_spec prk info L)) /\
  (255 * 32 < L -> sm3_hkdf_expand prk info L = None /\ sha256_hkdf_expand prk info L = None).
Proof.
  split; intros HL; split.
  - apply hkdf_expand_eq; [exact sm3_stream | exact sm3_len | lia | exact HL].
  - apply hkdf_expand_eq; [exact sha256_stream | exact sha256_len | lia | exact HL].
  - apply hkdf_expand_too_long with (H := sm3) (hlen := 32); [exact sm3_stream | exact sm3_len | lia | exact HL].
  - apply hkdf_expand_too_long with (H := sha256) (hlen := 32); [exact sha256_stream | exact sha256_len | lia | exact HL].
Qed.

(* continuing from any installed chaining state and block counter *)
Lemma from_state_64 compress out st nb chunks :
  from_state_impl compress out 64 8 len64_impl st nb chunks
  = from_state_spec compress out 64 8 len64_spec st nb (concat chunks).
Proof.
  unfold from_state_impl, from_state_spec.
  apply md_stream with (Lok := fun _ => True);
    [lia | lia | apply len64_spec_length
    | intros k r Hr _; apply len64_md; exact Hr | exact I].
Qed.

Lemma from_state_128 compress out st nb chunks :
  (nb + N.of_nat (length (concat chunks) / 128) < 2^64)%N ->
  from_state_impl compress out 128 16 len128_impl st nb chunks
  = from_state_spec compress out 128 16 len128_spec st nb (concat chunks).
Proof.
  intros H. unfold from_state_impl, from_state_spec.
  apply md_stream with (Lok := fun k => (nb + N.of_nat k < 2^64)%N);
    [lia | lia | reflexivity
    | intros k r Hr Hk; apply len128_md; assumption | exact H].
Qed.

(* src/sm3_digest.c *)
Lemma sm3_digest_api_eq key chunks : sm3_digest_api key chunks = sm3_digest_api_spec key (concat chunks).
Proof.
  destruct key as [k|]; cbn [sm3_digest_api sm3_digest_api_spec].
  - destruct ((length k <? 12) || (64 <? length k)); [reflexivity|]. rewrite sm3_hmac_stream. reflexivity.
  - rewrite sm3_stream. reflexivity.
Qed.

(* hmac_finish_and_verify accepts exactly the MAC *)
Lemma mac_verify_iff h mac : mac_verify h mac = true <-> mac = h.
Proof.
  unfold mac_verify, bytes_eqb. split.
  - intros H. apply Bool.andb_true_iff in H. destruct H as [Hl He].
    apply Nat.eqb_eq in Hl. destruct (list_eq_dec N.eq_dec (firstn (length mac) h) mac) as [E|]; [|discriminate].
    rewrite Hl, firstn_all in E. symmetry. exact E.
  - intros ->. rewrite Nat.eqb_refl, firstn_all. destruct (list_eq_dec N.eq_dec h h); [reflexivity|contradiction].
Qed.

Lemma hmac_verify_generic key chunks mac :
  (hmacB_verify_sm3 key chunks mac = true <-> mac = hmac_spec sm3 64 key (concat chunks)) /\
  (hmacB_verify_sha1 key chunks mac = true <-> mac = hmac_spec sha1 64 key (concat chunks)) /\
  (hmacB_verify_sha224 key chunks mac = true <-> mac = hmac_spec sha224 64 key (concat chunks)) /\
  (hmacB_verify_sha256 key chunks mac = true <-> mac = hmac_spec sha256 64 key (concat chunks)).
Proof.
  destruct (hmac_generic_stream key chunks) as (E1 & E2 & E3 & E4).
  unfold hmacB_verify_sm3, hmacB_verify_sha1, hmacB_verify_sha224, hmacB_verify_sha256.
  rewrite <- E1, <- E2, <- E3, <- E4. repeat split; apply mac_verify_iff.
Qed.

(* ---------- HMAC over the 128-byte-block digests (hmac.c), premise: fewer than 2^64 blocks ---------- *)
Definition ok128 (n : nat) : Prop := (N.of_nat (n / 128) < 2^64)%N.
Lemma ok128_mono a b : a <= b -> ok128 b -> ok128 a.
Proof.
  unfold ok128. intros Hab Hb.
  assert (a / 128 <= b / 128) by (apply Nat.div_le_mono; lia). lia.
Qed.

Lemma sha512_state_len iv m :
  length iv = 8 ->
  length (md_hash (list N) sha512_compress sha512_out iv 128 16 len128_spec 0 m) = 64.
Proof.
  intros Hiv. unfold md_hash, sha512_out.
  set (s := foldn _ _ _ _ _ _).
  assert (H : forall k st d, length st = 8 -> length (foldn (list N) sha512_compress 128 k st d) = 8).
  { induction k as [|k IH]; intros st d Hs; cbn [foldn]; [exact Hs|].
    apply IH. unfold sha512_compress, sha2_compress.
    destruct st as [|a [|b [|c [|d0 [|e [|f [|g [|h [|]]]]]]]]]; try discriminate Hs.
    destruct (fold_left _ _ _) as [[[[[[[A B] C] D] E] F] G] Hh]. reflexivity. }
  assert (Hs : length s = 8) by (apply H; exact Hiv).
  destruct s as [|a [|b [|c [|d0 [|e [|f [|g [|h [|]]]]]]]]]; try discriminate Hs.
  reflexivity.
Qed.
Lemma sha512_len m : length (sha512 m) = 64.
Proof. apply sha512_state_len. reflexivity. Qed.
Lemma sha384_len m : length (sha384 m) = 48.
Proof. unfold sha384. rewrite firstn_length, sha512_state_len by reflexivity. reflexivity. Qed.
Lemma sha512_224_len m : length (sha512_224 m) = 28.
Proof. unfold sha512_224. rewrite firstn_length, sha512_state_len by reflexivity. reflexivity. Qed.
Lemma sha512_256_len m : length (sha512_256 m) = 32.
Proof. unfold sha512_256. rewrite firstn_length, sha512_state_len by reflexivity. reflexivity. Qed.

Lemma hmac_generic_stream_wide key chunks :
  (N.of_nat ((length key + 192 + length (concat chunks)) / 128) < 2^64)%N ->
  hmacB_sha384 key chunks = hmac_spec sha384 128 key (concat chunks) /\
  hmacB_sha512 key chunks = hmac_spec sha512 128 key (concat chunks) /\
  hmacB_sha512_224 key chunks = hmac_spec sha512_224 128 key (concat chunks) /\
  hmacB_sha512_256 key chunks = hmac_spec sha512_256 128 key (concat chunks).
Proof.
  intros Hok. fold (ok128 (length key + 192 + length (concat chunks))) in Hok.
  repeat split.
  - apply hmacB_stream_wide with (hlen := 48) (ok := ok128);
      [exact ok128_mono | intros c Hc; apply sha384_stream; exact Hc | exact sha384_len | lia
      | eapply ok128_mono; [|exact Hok]; lia].
  - apply hmacB_stream_wide with (hlen := 64) (ok := ok128);
      [exact ok128_mono | intros c Hc; apply sha512_stream; exact Hc | exact sha512_len | lia
      | eapply ok128_mono; [|exact Hok]; lia].
  - apply hmacB_stream_wide with (hlen := 28) (ok := ok128);
      [exact ok128_mono | intros c Hc; apply sha512_224_stream; exact Hc | exact sha512_224_len | lia
      | eapply ok128_mono; [|exact Hok]; lia].
  - apply hmacB_stream_wide with (hlen := 32) (ok := ok128);
      [exact ok128_mono | intros c Hc; apply sha512_256_stream; exact Hc | exact sha512_256_len | lia
      | eapply ok128_mono; [|exact Hok]; lia].
Qed.
