(* Proof obligations that instantiate MD.v for the 64-byte / 8-byte-length family. *)
From GmVerif Require Import Base.ListX Base.Bytes Hash.MD Hash.SM3.
From Coq Require Import ZifyN ZifyNat ZifyBool.
Local Open Scope N_scope.
Ltac Zify.zify_post_hook ::= Z.div_mod_to_equations.

Lemma w8_mod x : w8 x = x mod 256.
Proof. unfold w8. change 255 with (N.ones 8). rewrite N.land_ones. reflexivity. Qed.

Lemma w64_mod x : w64 x = x mod 2^64.
Proof. unfold w64, mask64. change 0xFFFFFFFFFFFFFFFF with (N.ones 64). rewrite N.land_ones. reflexivity. Qed.

Lemma be32_mod x y : x mod 2^32 = y mod 2^32 -> be32 x = be32 y.
Proof.
  intros H. unfold be32. rewrite !w8_mod, !N.shiftr_div_pow2.
  change (2^32) with 4294967296 in H. change (2^24) with 16777216.
  change (2^16) with 65536. change (2^8) with 256.
  f_equal; [|f_equal; [|f_equal; [|f_equal]]]; lia.
Qed.

Lemma len64_impl_okN (K : N) (r : nat) : (r < 64)%nat ->
  len64_impl (K mod 2^64) r = len64_spec (K * 64 + N.of_nat r).
Proof.
  intros Hr. unfold len64_impl, len64_spec, be64.
  rewrite w64_mod, !N.shiftr_div_pow2, !N.shiftl_mul_pow2.
  set (R := N.of_nat r).
  assert (HR : R < 64) by lia. clearbody R.
  change (2^64) with 18446744073709551616.
  change (2^23) with 8388608. change (2^32) with 4294967296.
  change (2^9) with 512. change (2^3) with 8.
  f_equal; apply be32_mod; change (2^32) with 4294967296; lia.
Qed.

Lemma len64_impl_ok (k r : nat) : (r < 64)%nat ->
  len64_impl (N.of_nat k mod 2^64) r = len64_spec (N.of_nat (k * 64 + r)).
Proof.
  intros Hr. rewrite len64_impl_okN by exact Hr. f_equal. lia.
Qed.

(* the form MD.v asks for, with [n0] blocks absorbed before the run *)
Lemma len64_md (n0 : N) (k r : nat) : (r < 64)%nat ->
  len64_impl ((n0 + N.of_nat k) mod 2^64) r
  = len64_spec (n0 * N.of_nat 64 + N.of_nat (k * 64 + r)).
Proof.
  intros Hr. rewrite len64_impl_okN by exact Hr. f_equal. lia.
Qed.

Lemma len64_spec_length n : length (len64_spec n) = 8%nat.
Proof. reflexivity. Qed.

Theorem sm3_stream chunks :
  sm3_finish (fold_left sm3_update chunks sm3_init) = sm3 (concat chunks).
Proof.
  apply md_stream with (Lok := fun _ => True);
    [lia | lia | apply len64_spec_length
    | intros k r Hr _; apply len64_md; exact Hr | exact I].
Qed.

Theorem sm3_oneshot_eq m : sm3_oneshot m = sm3 m.
Proof.
  unfold sm3_oneshot. rewrite <- (app_nil_r m) at 2.
  change (m ++ []) with (concat [m]). rewrite <- sm3_stream. reflexivity.
Qed.

(* GB/T 32905 appendix A vectors pin the Spec to the standard. *)
Definition hexs (l : list N) : list N := l.
Example sm3_abc :
  sm3 [0x61; 0x62; 0x63] =
  [0x66;0xc7;0xf0;0xf4;0x62;0xee;0xed;0xd9;0xd1;0xf2;0xd4;0x6b;0xdc;0x10;0xe4;0xe2;
   0x41;0x67;0xc4;0x87;0x5c;0xf2;0xf7;0xa2;0x29;0x7d;0xa0;0x2b;0x8f;0x4b;0xa8;0xe0].
Proof. vm_compute. reflexivity. Qed.

Example sm3_abcd16 :
  sm3 (concat (repeat [0x61; 0x62; 0x63; 0x64] 16)) =
  [0xde;0xbe;0x9f;0xf9;0x22;0x75;0xb8;0xa1;0x38;0x60;0x48;0x89;0xc1;0x8e;0x5a;0x4d;
   0x6f;0xdb;0x70;0xe5;0x38;0x7e;0x57;0x65;0x29;0x3d;0xcb;0xa3;0x9c;0x0c;0x57;0x32].
Proof. vm_compute. reflexivity. Qed.
