(* The constant tables of src/sm3.c, sm3_sse.c, sha1.c, sha256.c, sha512.c (copied into
   Gen/HashTables.v by tools/consts_hash.py on every run) equal the constants of the standards
   used by the Spec: SM3 K_j = T_j <<< (j mod 32) and IV (GB/T 32905), SHA-1 / SHA-2 round constants
   and initial hash values (FIPS 180-4).  Closed computations: a changed entry in the C source
   breaks the corresponding theorem. *)
From Coq Require Import List NArith.
Import ListNotations.
From GmVerif Require Import Hash.SM3 Hash.SHA2 Hash.SM3Unrolled Gen.HashTables.
Local Open Scope N_scope.

Definition sm3_K_spec : list N := map Kj (seq 0 64).
Definition sha1_K_spec : list N := [sha1_k 0; sha1_k 20; sha1_k 40; sha1_k 60].

(* (table name, index, value in the C source, value of the standard) for every differing entry *)
Fixpoint diff_at (name : nat) (i : nat) (c s : list N) : list (nat * nat * N * N) :=
  match c, s with
  | [], [] => []
  | x :: c', y :: s' => (if N.eqb x y then [] else [(name, i, x, y)]) ++ diff_at name (S i) c' s'
  | x :: c', [] => (name, i, x, 0) :: diff_at name (S i) c' []
  | [], y :: s' => [(name, i, 0, y)]
  end.

Definition hash_table_pairs : list (list N * list N) :=
  [ (c_sm3_K, sm3_K_spec); (c_sm3_iv, sm3_iv); (c_sm3sse_K, sm3_K_spec); (c_sm3sse_iv, sm3_iv);
    (c_sha1_K, sha1_K_spec); (c_sha1_iv, H1);
    (c_sha256_K, K256); (c_sha256_iv, H256); (c_sha224_iv, H224);
    (c_sha512_K, K512); (c_sha512_iv, H512); (c_sha384_iv, H384);
    (c_sha512_224_iv, H512_224); (c_sha512_256_iv, H512_256) ].

Fixpoint mismatches_from (k : nat) (l : list (list N * list N)) : list (nat * nat * N * N) :=
  match l with
  | [] => []
  | (c, s) :: l' => diff_at k 0 c s ++ mismatches_from (S k) l'
  end.
Definition hash_table_mismatches : list (nat * nat * N * N) := mismatches_from 0 hash_table_pairs.

Lemma diff_at_nil name i c s : diff_at name i c s = [] -> c = s.
Proof.
  revert i s; induction c as [|x c IH]; intros i [|y s] H; cbn [diff_at] in H;
    try reflexivity; try discriminate.
  destruct (N.eqb x y) eqn:E.
  - apply N.eqb_eq in E. subst y. cbn [app] in H. f_equal. exact (IH _ _ H).
  - cbn [app] in H. discriminate.
Qed.

Lemma mismatches_from_nil k l :
  mismatches_from k l = [] -> Forall (fun p => fst p = snd p) l.
Proof.
  revert k; induction l as [|[c s] l IH]; intros k H; [constructor|].
  cbn [mismatches_from] in H. apply app_eq_nil in H. destruct H as [H1 H2].
  constructor; [exact (diff_at_nil _ _ _ _ H1) | exact (IH _ H2)].
Qed.

Theorem hash_tables_no_mismatch : hash_table_mismatches = [].
Proof. vm_compute. reflexivity. Qed.

Theorem hash_tables_ok :
  c_sm3_K = sm3_K_spec /\ c_sm3_iv = sm3_iv /\ c_sm3sse_K = sm3_K_spec /\ c_sm3sse_iv = sm3_iv /\
  c_sha1_K = sha1_K_spec /\ c_sha1_iv = H1 /\
  c_sha256_K = K256 /\ c_sha256_iv = H256 /\ c_sha224_iv = H224 /\
  c_sha512_K = K512 /\ c_sha512_iv = H512 /\ c_sha384_iv = H384 /\
  c_sha512_224_iv = H512_224 /\ c_sha512_256_iv = H512_256.
Proof.
  pose proof (mismatches_from_nil 0 hash_table_pairs hash_tables_no_mismatch) as H.
  unfold hash_table_pairs in H.
  repeat match type of H with
         | Forall _ (_ :: _) => let a := fresh "E" in let b := fresh "H" in
                               inversion H as [|? ? a b]; subst; clear H; rename b into H; cbn [fst snd] in a
         end.
  repeat split; assumption.
Qed.

(* the table-driven round constant of the C code at round j is the standard's K_j *)
Corollary sm3_K_entry j : (j < 64)%nat -> nth j c_sm3_K 0 = Kj j /\ nth j c_sm3sse_K 0 = Kj j.
Proof.
  intros Hj. destruct hash_tables_ok as (E1 & _ & E3 & _). rewrite E1, E3. unfold sm3_K_spec.
  assert (Hn : nth j (map Kj (seq 0 64)) 0 = Kj j).
  { rewrite (nth_indep _ 0 (Kj 0%nat)) by (rewrite map_length, seq_length; exact Hj).
    rewrite map_nth, seq_nth by exact Hj. reflexivity. }
  split; exact Hn.
Qed.

(* the literal table of the unrolled-compression model (Hash/SM3Unrolled.v) is the source's *)
Lemma unrolled_K_table_is_source : K_table = c_sm3_K.
Proof. vm_compute. reflexivity. Qed.
