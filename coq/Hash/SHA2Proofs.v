From GmVerif Require Import Base.ListX Base.Bytes Hash.MD Hash.SM3 Hash.SM3Proofs Hash.SHA2.
From Coq Require Import ZifyN ZifyNat ZifyBool.
Local Open Scope N_scope.
Ltac Zify.zify_post_hook ::= Z.div_mod_to_equations.

Lemma be64_mod x y : x mod 2^64 = y mod 2^64 -> be64 x = be64 y.
Proof.
  intros H. unfold be64. rewrite !N.shiftr_div_pow2.
  change (2^64) with 18446744073709551616 in H. change (2^32) with 4294967296.
  f_equal; apply be32_mod; change (2^32) with 4294967296; lia.
Qed.

Lemma len128_impl_okN (K : N) (r : nat) : (r < 128)%nat -> K < 2^64 ->
  len128_impl (K mod 2^64) r = len128_spec (K * 128 + N.of_nat r).
Proof.
  intros Hr Hk. unfold len128_impl, len128_spec.
  rewrite w64_mod, !N.shiftr_div_pow2, !N.shiftl_mul_pow2.
  set (R := N.of_nat r).
  assert (HR : R < 128) by lia. clearbody R.
  change (2^64) with 18446744073709551616 in *.
  change (2^54) with 18014398509481984.
  change (2^10) with 1024. change (2^3) with 8.
  f_equal; apply be64_mod; change (2^64) with 18446744073709551616; lia.
Qed.

Lemma len128_md (n0 : N) (k r : nat) : (r < 128)%nat -> n0 + N.of_nat k < 2^64 ->
  len128_impl ((n0 + N.of_nat k) mod 2^64) r
  = len128_spec (n0 * N.of_nat 128 + N.of_nat (k * 128 + r)).
Proof.
  intros Hr Hk. rewrite len128_impl_okN by assumption. f_equal. lia.
Qed.

Theorem sha256_stream chunks :
  sha256_finish (fold_left sha256_update chunks sha256_init) = sha256 (concat chunks).
Proof.
  apply md_stream with (Lok := fun _ => True);
    [lia | lia | apply len64_spec_length
    | intros k r Hr _; apply len64_md; exact Hr | exact I].
Qed.

Theorem sha224_stream chunks :
  sha224_finish (fold_left sha256_update chunks sha224_init) = sha224 (concat chunks).
Proof.
  unfold sha224_finish, sha224. f_equal.
  apply md_stream with (Lok := fun _ => True);
    [lia | lia | apply len64_spec_length
    | intros k r Hr _; apply len64_md; exact Hr | exact I].
Qed.

Theorem sha1_stream chunks :
  sha1_finish (fold_left sha1_update chunks sha1_init) = sha1 (concat chunks).
Proof.
  apply md_stream with (Lok := fun _ => True);
    [lia | lia | apply len64_spec_length
    | intros k r Hr _; apply len64_md; exact Hr | exact I].
Qed.

Theorem sha512_stream chunks :
  N.of_nat (length (concat chunks) / 128) < 2^64 ->
  sha512_finish (fold_left sha512_update chunks sha512_init) = sha512 (concat chunks).
Proof.
  intros H.
  apply md_stream with (Lok := fun k => N.of_nat k < 2^64);
    [lia | lia | reflexivity
    | intros k r Hr Hk; apply len128_md; [exact Hr | rewrite N.add_0_l; exact Hk] | exact H].
Qed.

Theorem sha384_stream chunks :
  N.of_nat (length (concat chunks) / 128) < 2^64 ->
  sha384_finish (fold_left sha512_update chunks sha384_init) = sha384 (concat chunks).
Proof.
  intros H. unfold sha384_finish, sha384. f_equal.
  apply md_stream with (Lok := fun k => N.of_nat k < 2^64);
    [lia | lia | reflexivity
    | intros k r Hr Hk; apply len128_md; [exact Hr | rewrite N.add_0_l; exact Hk] | exact H].
Qed.

Theorem sha512_224_stream chunks :
  N.of_nat (length (concat chunks) / 128) < 2^64 ->
  sha512_224_finish (fold_left sha512_update chunks sha512_224_init) = sha512_224 (concat chunks).
Proof.
  intros H. unfold sha512_224_finish, sha512_224. f_equal.
  apply md_stream with (Lok := fun k => N.of_nat k < 2^64);
    [lia | lia | reflexivity
    | intros k r Hr Hk; apply len128_md; [exact Hr | rewrite N.add_0_l; exact Hk] | exact H].
Qed.

Theorem sha512_256_stream chunks :
  N.of_nat (length (concat chunks) / 128) < 2^64 ->
  sha512_256_finish (fold_left sha512_update chunks sha512_256_init) = sha512_256 (concat chunks).
Proof.
  intros H. unfold sha512_256_finish, sha512_256. f_equal.
  apply md_stream with (Lok := fun k => N.of_nat k < 2^64);
    [lia | lia | reflexivity
    | intros k r Hr Hk; apply len128_md; [exact Hr | rewrite N.add_0_l; exact Hk] | exact H].
Qed.

(* the initial values are the ones the standard's IV generation function yields *)
Theorem sha512t_iv_is_generated :
  flat_map be64 H512_224 = sha512t_iv_gen [0x53;0x48;0x41;0x2d;0x35;0x31;0x32;0x2f;0x32;0x32;0x34] /\
  flat_map be64 H512_256 = sha512t_iv_gen [0x53;0x48;0x41;0x2d;0x35;0x31;0x32;0x2f;0x32;0x35;0x36].
Proof. split; vm_compute; reflexivity. Qed.

(* FIPS 180-4 / RFC 3174 vectors for "abc" *)
Definition abc : list N := [0x61; 0x62; 0x63].
Example sha256_abc : sha256 abc =
  [0xba;0x78;0x16;0xbf;0x8f;0x01;0xcf;0xea;0x41;0x41;0x40;0xde;0x5d;0xae;0x22;0x23;
   0xb0;0x03;0x61;0xa3;0x96;0x17;0x7a;0x9c;0xb4;0x10;0xff;0x61;0xf2;0x00;0x15;0xad].
Proof. vm_compute. reflexivity. Qed.
Example sha224_abc : sha224 abc =
  [0x23;0x09;0x7d;0x22;0x34;0x05;0xd8;0x22;0x86;0x42;0xa4;0x77;0xbd;0xa2;0x55;0xb3;
   0x2a;0xad;0xbc;0xe4;0xbd;0xa0;0xb3;0xf7;0xe3;0x6c;0x9d;0xa7].
Proof. vm_compute. reflexivity. Qed.
Example sha1_abc : sha1 abc =
  [0xa9;0x99;0x3e;0x36;0x47;0x06;0x81;0x6a;0xba;0x3e;0x25;0x71;0x78;0x50;0xc2;0x6c;
   0x9c;0xd0;0xd8;0x9d].
Proof. vm_compute. reflexivity. Qed.
Example sha512_abc : sha512 abc =
  [0xdd;0xaf;0x35;0xa1;0x93;0x61;0x7a;0xba;0xcc;0x41;0x73;0x49;0xae;0x20;0x41;0x31;
   0x12;0xe6;0xfa;0x4e;0x89;0xa9;0x7e;0xa2;0x0a;0x9e;0xee;0xe6;0x4b;0x55;0xd3;0x9a;
   0x21;0x92;0x99;0x2a;0x27;0x4f;0xc1;0xa8;0x36;0xba;0x3c;0x23;0xa3;0xfe;0xeb;0xbd;
   0x45;0x4d;0x44;0x23;0x64;0x3c;0xe8;0x0e;0x2a;0x9a;0xc9;0x4f;0xa5;0x4c;0xa4;0x9f].
Proof. vm_compute. reflexivity. Qed.
Example sha384_abc : sha384 abc =
  [0xcb;0x00;0x75;0x3f;0x45;0xa3;0x5e;0x8b;0xb5;0xa0;0x3d;0x69;0x9a;0xc6;0x50;0x07;
   0x27;0x2c;0x32;0xab;0x0e;0xde;0xd1;0x63;0x1a;0x8b;0x60;0x5a;0x43;0xff;0x5b;0xed;
   0x80;0x86;0x07;0x2b;0xa1;0xe7;0xcc;0x23;0x58;0xba;0xec;0xa1;0x34;0xc8;0x25;0xa7].
Proof. vm_compute. reflexivity. Qed.

Example sha512_256_abc : sha512_256 abc =
  [0x53;0x04;0x8e;0x26;0x81;0x94;0x1e;0xf9;0x9b;0x2e;0x29;0xb7;0x6b;0x4c;0x7d;0xab;
   0xe4;0xc2;0xd0;0xc6;0x34;0xfc;0x6d;0x46;0xe0;0xe2;0xf1;0x31;0x07;0xe7;0xaf;0x23].
Proof. vm_compute. reflexivity. Qed.
Example sha512_224_abc : sha512_224 abc =
  [0x46;0x34;0x27;0x0f;0x70;0x7b;0x6a;0x54;0xda;0xae;0x75;0x30;0x46;0x08;0x42;0xe2;
   0x0e;0x37;0xed;0x26;0x5c;0xee;0xe9;0xa4;0x3e;0x89;0x24;0xaa].
Proof. vm_compute. reflexivity. Qed.
(* History: before commit 93078f3 src/digest.c started both from H512, i.e. returned a truncated
   SHA-512, which is not the standard's function. *)
Example sha512t_before_93078f3 :
  firstn 32 (sha512 abc) <> sha512_256 abc /\ firstn 28 (sha512 abc) <> sha512_224 abc.
Proof. split; vm_compute; discriminate. Qed.
