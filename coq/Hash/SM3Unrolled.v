(* The default (non-ENABLE_SMALL_FOOTPRINT) sm3_compress_blocks of src/sm3.c:
   64 unrolled rounds that update the registers in place under rotating roles
   (A,B,C,D,E,F,G,H) -> (D,A,B,C,H,E,F,G), compute the message schedule on the fly
   (W[j+16] in round j, j < 52), use the literal table K[64] and the GG16 form
   ((y ^ z) & x) ^ z.  Proved equal to the standard form of SM3.v. *)
From GmVerif Require Import Base.ListX Base.Bytes Hash.SM3.
Local Open Scope N_scope.

(* the literal table of src/sm3.c *)
Definition K_table : list N := [
  0x79cc4519; 0xf3988a32; 0xe7311465; 0xce6228cb; 0x9cc45197; 0x3988a32f; 0x7311465e; 0xe6228cbc;
  0xcc451979; 0x988a32f3; 0x311465e7; 0x6228cbce; 0xc451979c; 0x88a32f39; 0x11465e73; 0x228cbce6;
  0x9d8a7a87; 0x3b14f50f; 0x7629ea1e; 0xec53d43c; 0xd8a7a879; 0xb14f50f3; 0x629ea1e7; 0xc53d43ce;
  0x8a7a879d; 0x14f50f3b; 0x29ea1e76; 0x53d43cec; 0xa7a879d8; 0x4f50f3b1; 0x9ea1e762; 0x3d43cec5;
  0x7a879d8a; 0xf50f3b14; 0xea1e7629; 0xd43cec53; 0xa879d8a7; 0x50f3b14f; 0xa1e7629e; 0x43cec53d;
  0x879d8a7a; 0x0f3b14f5; 0x1e7629ea; 0x3cec53d4; 0x79d8a7a8; 0xf3b14f50; 0xe7629ea1; 0xcec53d43;
  0x9d8a7a87; 0x3b14f50f; 0x7629ea1e; 0xec53d43c; 0xd8a7a879; 0xb14f50f3; 0x629ea1e7; 0xc53d43ce;
  0x8a7a879d; 0x14f50f3b; 0x29ea1e76; 0x53d43cec; 0xa7a879d8; 0x4f50f3b1; 0x9ea1e762; 0x3d43cec5].

Definition FFc (j : nat) (x y z : N) : N :=
  if (j <? 16)%nat then N.lxor (N.lxor x y) z
  else N.lor (N.lor (N.land x y) (N.land x z)) (N.land y z).
Definition GGc (j : nat) (x y z : N) : N :=
  if (j <? 16)%nat then N.lxor (N.lxor x y) z
  else N.lxor (N.land (N.lxor y z) x) z.

(* one SM3_ROUND_x(j, A..H) followed by the renaming of the next macro call *)
Definition uround (s : regs * list N) (j : nat) : regs * list N :=
  let '((A, B, C, D, E, F, G, H), w) := s in
  let wj := nth j w 0 in
  let SS0 := rol32 A 12 in
  let SS1 := rol32 (w32 (SS0 + E + nth j K_table 0)) 7 in
  let SS2 := N.lxor SS1 SS0 in
  let D' := w32 (D + (FFc j A B C + SS2 + N.lxor wj (nth (j + 4) w 0))) in
  let SS1' := w32 (SS1 + (GGc j E F G + H + wj)) in
  let B' := rol32 B 9 in
  let H' := P0 SS1' in
  let F' := rol32 F 19 in
  let w' := if (j <? 52)%nat then w ++ [Wnext w] else w in
  ((D', A, B', C, H', E, F', G), w').

Definition sm3_compress_unrolled (st : list N) (blk : list N) : list N :=
  match st with
  | [a; b; c; d; e; f; g; h] =>
    let '((A, B, C, D, E, F, G, H), _) :=
        fold_left uround (seq 0 64) ((a, b, c, d, e, f, g, h), words_be 16 blk) in
    [N.lxor a A; N.lxor b B; N.lxor c C; N.lxor d D;
     N.lxor e E; N.lxor f F; N.lxor g G; N.lxor h H]
  | _ => st
  end.
