(* SM3 (GB/T 32905-2016): the standard's message expansion + 64 rounds form
   (this is also the ENABLE_SMALL_FOOTPRINT code of src/sm3.c), and the
   streaming interface as an instance of MD.v. *)
From GmVerif Require Import Base.ListX Base.Bytes Hash.MD.
Local Open Scope N_scope.

Definition P0 (x : N) : N := N.lxor (N.lxor x (rol32 x 9)) (rol32 x 17).
Definition P1 (x : N) : N := N.lxor (N.lxor x (rol32 x 15)) (rol32 x 23).

Definition FF (j : nat) (x y z : N) : N :=
  if (j <? 16)%nat then N.lxor (N.lxor x y) z
  else N.lor (N.lor (N.land x y) (N.land x z)) (N.land y z).
Definition GG (j : nat) (x y z : N) : N :=
  if (j <? 16)%nat then N.lxor (N.lxor x y) z
  else N.lor (N.land x y) (N.land (not32 x) z).

Definition Tj (j : nat) : N := if (j <? 16)%nat then 0x79cc4519 else 0x7a879d8a.
Definition Kj (j : nat) : N := rol32 (Tj j) (N.of_nat (j mod 32)).

(* message expansion: W_0..W_67, built by appending *)
Definition Wnext (w : list N) : N :=
  let j := length w in
  let g i := nth (j - i) w 0 in
  N.lxor (N.lxor (P1 (N.lxor (N.lxor (g 16%nat) (g 9%nat)) (rol32 (g 3%nat) 15)))
                 (rol32 (g 13%nat) 7)) (g 6%nat).
Fixpoint expand (n : nat) (w : list N) : list N :=
  match n with O => w | S k => expand k (w ++ [Wnext w]) end.

Definition regs := (N * N * N * N * N * N * N * N)%type.

Definition round (w : list N) (r : regs) (j : nat) : regs :=
  let '(A, B, C, D, E, F, G, H) := r in
  let wj := nth j w 0 in
  let wj' := N.lxor wj (nth (j + 4) w 0) in
  let a12 := rol32 A 12 in
  let SS1 := rol32 (w32 (a12 + E + Kj j)) 7 in
  let SS2 := N.lxor SS1 a12 in
  let TT1 := w32 (FF j A B C + D + SS2 + wj') in
  let TT2 := w32 (GG j E F G + H + SS1 + wj) in
  (TT1, A, rol32 B 9, C, P0 TT2, E, rol32 F 19, G).

Definition sm3_compress (st : list N) (blk : list N) : list N :=
  match st with
  | [a; b; c; d; e; f; g; h] =>
    let w := expand 52 (words_be 16 blk) in
    let '(A, B, C, D, E, F, G, H) :=
        fold_left (round w) (seq 0 64) (a, b, c, d, e, f, g, h) in
    [N.lxor a A; N.lxor b B; N.lxor c C; N.lxor d D;
     N.lxor e E; N.lxor f F; N.lxor g G; N.lxor h H]
  | _ => st
  end.

Definition sm3_iv : list N :=
  [0x7380166F; 0x4914B2B9; 0x172442D7; 0xDA8A0600;
   0xA96F30BC; 0x163138AA; 0xE38DEE4D; 0xB0FB0E4E].

Definition sm3_out (st : list N) : list N := flat_map be32 st.

(* 64-bit big-endian bit length: the standard's length field *)
Definition len64_spec (nbytes : N) : list N := be64 (8 * nbytes).
(* what sm3_finish writes: PUTU32(nblocks >> 23), PUTU32((nblocks << 9) + (num << 3)) *)
Definition len64_impl (nblocks : N) (num : nat) : list N :=
  be32 (N.shiftr nblocks 23) ++ be32 (w64 (N.shiftl nblocks 9 + N.shiftl (N.of_nat num) 3)).

Definition sm3_ctx := ctx (list N).
Definition sm3_init : sm3_ctx := init (list N) sm3_iv 0.
Definition sm3_update : sm3_ctx -> list N -> sm3_ctx := update (list N) sm3_compress 64.
Definition sm3_finish : sm3_ctx -> list N :=
  finish (list N) sm3_compress sm3_out 64 8 len64_impl.
Definition sm3 : list N -> list N :=
  md_hash (list N) sm3_compress sm3_out sm3_iv 64 8 len64_spec 0.

(* one-shot as the C callers do it: init; update(whole); finish *)
Definition sm3_oneshot (m : list N) : list N := sm3_finish (sm3_update sm3_init m).
