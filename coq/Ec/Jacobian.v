(* C13 — Impl models of the Jacobian point arithmetic of src/sm2_z256.c
   (coordinates are Montgomery residues mod p; infinity is Z = 0).  The formulas are
   phrased over an abstract record of field operations [fops] so that
   (1) JacobianProofs.v proves the polynomial identities once for every instance that
       satisfies the ring-homomorphism laws, and
   (2) the same text runs over BigOps inside Coq for the correspondence check. *)
From Coq Require Import ZArith List Bool.
From Bignums Require Import BigZ.
From GmVerif Require Import Ec.Num Ec.Mont.
Import ListNotations.
Local Open Scope Z_scope.

Record fops (F : Type) := {
  f_mul : F -> F -> F;        (* sm2_z256_modp_mont_mul *)
  f_sqr : F -> F;             (* sm2_z256_modp_mont_sqr *)
  f_add : F -> F -> F;        (* sm2_z256_modp_add *)
  f_sub : F -> F -> F;        (* sm2_z256_modp_sub *)
  f_dbl : F -> F;             (* sm2_z256_modp_dbl *)
  f_tri : F -> F;             (* sm2_z256_modp_tri *)
  f_haf : F -> F;             (* sm2_z256_modp_haf *)
  f_neg : F -> F;             (* sm2_z256_modp_neg *)
  f_eqb : F -> F -> bool;     (* sm2_z256_equ / sm2_z256_cmp == 0 *)
  f_zero : F;                 (* the all-zero limbs *)
  f_one : F;                  (* SM2_Z256_MODP_MONT_ONE *)
  f_b : F;                    (* SM2_Z256_MODP_MONT_B *)
  f_inv : F -> F;             (* sm2_z256_modp_mont_inv *)
  f_from_mont : F -> F;
  f_to_mont : F -> F;
}.
Arguments f_mul {F}. Arguments f_sqr {F}. Arguments f_add {F}. Arguments f_sub {F}.
Arguments f_dbl {F}. Arguments f_tri {F}. Arguments f_haf {F}. Arguments f_neg {F}.
Arguments f_eqb {F}. Arguments f_zero {F}. Arguments f_one {F}. Arguments f_b {F}.
Arguments f_inv {F}. Arguments f_from_mont {F}. Arguments f_to_mont {F}.

Section J.
  Variable F : Type.
  Variable fo : fops F.
  Notation mul := (f_mul fo). Notation sqr := (f_sqr fo). Notation add := (f_add fo).
  Notation sub := (f_sub fo). Notation dbl := (f_dbl fo). Notation tri := (f_tri fo).
  Notation haf := (f_haf fo). Notation neg := (f_neg fo). Notation eqb := (f_eqb fo).
  Notation zero := (f_zero fo). Notation one := (f_one fo).

  Definition jpoint := (F * F * F)%type.       (* X, Y, Z *)
  Definition apoint := (F * F)%type.           (* x, y (SM2_Z256_AFFINE_POINT) *)
  Definition iszero (x : F) : bool := eqb x zero.

  Definition point_infinity : jpoint := (one, one, zero).   (* sm2_z256_point_set_infinity *)
  Definition point_zero : jpoint := (zero, zero, zero).     (* memset(r, 0, sizeof *r) *)

  (* sm2_z256_point_is_at_infinity: Z == 0 and X^3 == Y^2 *)
  Definition point_is_at_infinity (P : jpoint) : bool :=
    let '(X, Y, Z) := P in
    if iszero Z then eqb (mul (sqr X) X) (sqr Y) else false.

  (* sm2_z256_point_is_on_curve *)
  Definition point_is_on_curve (P : jpoint) : bool :=
    let '(X, Y, Z) := P in
    if eqb Z one then
      let t0 := sqr Y in
      let t0 := add t0 X in
      let t0 := add t0 X in
      let t0 := add t0 X in
      let t1 := sqr X in
      let t1 := mul t1 X in
      let t1 := add t1 (f_b fo) in
      eqb t0 t1
    else
      let t0 := sqr Y in
      let t1 := sqr Z in
      let t2 := sqr t1 in
      let t1 := mul t1 t2 in
      let t1 := mul t1 (f_b fo) in
      let t2 := mul t2 X in
      let t0 := add t0 t2 in
      let t0 := add t0 t2 in
      let t0 := add t0 t2 in
      let t2 := sqr X in
      let t2 := mul t2 X in
      let t1 := add t1 t2 in
      eqb t0 t1.

  (* sm2_z256_point_get_xy: (return value, x, y); x,y are ordinary (non-Montgomery) numbers *)
  Definition point_get_xy (P : jpoint) : Z * F * F :=
    let '(X, Y, Z) := P in
    if point_is_at_infinity P then (0, zero, zero)
    else if eqb Z one then (1, f_from_mont fo X, f_from_mont fo Y)
    else
      let z_inv := f_inv fo Z in
      let y := mul Y z_inv in
      let z_inv := sqr z_inv in
      let x := mul X z_inv in
      let x := f_from_mont fo x in
      let y := mul y z_inv in
      let y := f_from_mont fo y in
      (1, x, y).

  (* sm2_z256_point_dbl, steps 1-18 as numbered in the C source *)
  Definition point_dbl (A : jpoint) : jpoint :=
    let '(X1, Y1, Z1) := A in
    let S := dbl Y1 in
    let Zsqr := sqr Z1 in
    let S := sqr S in
    let Z3 := mul Z1 Y1 in
    let Z3 := dbl Z3 in
    let M := add X1 Zsqr in
    let Zsqr := sub X1 Zsqr in
    let Y3 := sqr S in
    let Y3 := haf Y3 in
    let M := mul M Zsqr in
    let M := tri M in
    let S := mul S X1 in
    let tmp0 := dbl S in
    let X3 := sqr M in
    let X3 := sub X3 tmp0 in
    let S := sub S X3 in
    let S := mul S M in
    let Y3 := sub S Y3 in
    (X3, Y3, Z3).

  (* the generic part of sm2_z256_point_add after H, R, U1, S1 are known *)
  Definition point_add (a b : jpoint) : jpoint :=
    let '(in1_x, in1_y, in1_z) := a in
    let '(in2_x, in2_y, in2_z) := b in
    let in1infty := iszero in1_z in
    let in2infty := iszero in2_z in
    let Z2sqr := sqr in2_z in
    let Z1sqr := sqr in1_z in
    let S1 := mul Z2sqr in2_z in
    let S2 := mul Z1sqr in1_z in
    let S1 := mul S1 in1_y in
    let S2 := mul S2 in2_y in
    let R := sub S2 S1 in
    let U1 := mul in1_x Z2sqr in
    let U2 := mul in2_x Z1sqr in
    let H := sub U2 U1 in
    if eqb U1 U2 && negb in1infty && negb in2infty then
      (if eqb S1 S2 then point_dbl a else point_zero)
    else
      let Rsqr := sqr R in
      let res_z := mul H in1_z in
      let Hsqr := sqr H in
      let res_z := mul res_z in2_z in
      let Hcub := mul Hsqr H in
      let U2 := mul U1 Hsqr in
      let Hsqr := dbl U2 in
      let res_x := sub Rsqr Hsqr in
      let res_x := sub res_x Hcub in
      let res_y := sub U2 res_x in
      let S2 := mul S1 Hcub in
      let res_y := mul R res_y in
      let res_y := sub res_y S2 in
      let '(res_x, res_y, res_z) :=
        if in1infty then (in2_x, in2_y, in2_z) else (res_x, res_y, res_z) in
      let '(res_x, res_y, res_z) :=
        if in2infty then (in1_x, in1_y, in1_z) else (res_x, res_y, res_z) in
      (res_x, res_y, res_z).

  Definition point_neg (P : jpoint) : jpoint :=
    let '(X, Y, Z) := P in (X, neg Y, Z).
  Definition point_sub (A B : jpoint) : jpoint := point_add A (point_neg B).

  Definition point_copy_affine (P : apoint) : jpoint := (fst P, snd P, one).

  (* the straight-line formulas of the mixed addition (second operand affine, Z2 = 1) with the
     infinity masks; this was the whole of sm2_z256_point_add_affine before the repair of
     DESIGN section 5, defect 1: there is no test for H = 0, so P + P gives (0,0,0) *)
  Definition point_add_affine_old (a : jpoint) (b : apoint) : jpoint :=
    let '(in1_x, in1_y, in1_z) := a in
    let '(in2_x, in2_y) := b in
    let in1infty := iszero in1_z in
    let in2infty := iszero in2_x && iszero in2_y in
    let Z1sqr := sqr in1_z in
    let U2 := mul in2_x Z1sqr in
    let H := sub U2 in1_x in
    let S2 := mul Z1sqr in1_z in
    let res_z := mul H in1_z in
    let S2 := mul S2 in2_y in
    let R := sub S2 in1_y in
    let Hsqr := sqr H in
    let Rsqr := sqr R in
    let Hcub := mul Hsqr H in
    let U2 := mul in1_x Hsqr in
    let Hsqr := dbl U2 in
    let res_x := sub Rsqr Hsqr in
    let res_x := sub res_x Hcub in
    let H := sub U2 res_x in
    let S2 := mul in1_y Hcub in
    let H := mul H R in
    let res_y := sub H S2 in
    let res_x := if in1infty then in2_x else res_x in
    let res_x := if in2infty then in1_x else res_x in
    let res_y := if in1infty then in2_y else res_y in
    let res_y := if in2infty then in1_y else res_y in
    let res_z := if in1infty then one else res_z in
    let res_z := if in2infty then in1_z else res_z in
    (res_x, res_y, res_z).

  (* sm2_z256_point_add_affine: after R is known, two finite inputs with H = 0 take the
     branches of the full addition (double when R = 0, the all-zero triple otherwise);
     everything else is the straight-line code above *)
  Definition point_add_affine (a : jpoint) (b : apoint) : jpoint :=
    let '(in1_x, in1_y, in1_z) := a in
    let '(in2_x, in2_y) := b in
    let in1infty := iszero in1_z in
    let in2infty := iszero in2_x && iszero in2_y in
    let Z1sqr := sqr in1_z in
    let U2 := mul in2_x Z1sqr in
    let H := sub U2 in1_x in
    let S2 := mul Z1sqr in1_z in
    let S2 := mul S2 in2_y in
    let R := sub S2 in1_y in
    if iszero H && negb in1infty && negb in2infty then
      (if iszero R then point_dbl a else point_zero)
    else point_add_affine_old a b.

  Definition point_sub_affine (A : jpoint) (B : apoint) : jpoint :=
    point_add_affine A (fst B, neg (snd B)).
  Definition point_sub_affine_old (A : jpoint) (B : apoint) : jpoint :=
    point_add_affine_old A (fst B, neg (snd B)).

  (* sm2_z256_point_equ *)
  Definition point_equ (P Q : jpoint) : bool :=
    let '(X1, Y1, Z1) := P in
    let '(X2, Y2, Z2) := Q in
    let z1 := sqr Z1 in
    let z2 := sqr Z2 in
    let V1 := mul X1 z2 in
    let V2 := mul X2 z1 in
    if negb (eqb V1 V2) then false else
    let z1 := mul z1 Z1 in
    let z2 := mul z2 Z2 in
    let V1 := mul Y1 z2 in
    let V2 := mul Y2 z1 in
    eqb V1 V2.
End J.

(* ---- the concrete field-operation record built from the value-level model ---- *)
Section Inst.
  Variable O : numops.
  Variable ltb : T O -> T O -> bool.
  Variable K : mconsts O.
  Definition modp_fops : fops (T O) :=
    {| f_mul := vmont_mul O ltb K; f_sqr := vmont_sqr O ltb K;
       f_add := vmod_add O ltb K; f_sub := vmod_sub O ltb K;
       f_dbl := vmod_dbl O ltb K; f_tri := vmod_tri O ltb K;
       f_haf := vmod_haf O K; f_neg := vmod_neg O ltb K;
       f_eqb := neqb O; f_zero := k0 K; f_one := knegm K;
       f_b := nofZ O c_mont_b;
       f_inv := vmodp_mont_inv O ltb K;
       f_from_mont := vfrom_mont O ltb K; f_to_mont := vto_mont O ltb K |}.
End Inst.
Definition FpZ : fops Z := modp_fops ZOps Z.ltb KpZ.
Definition c_mont_b_B : bigZ := Eval vm_compute in BigZ.of_Z c_mont_b.
Definition FpB : fops bigZ :=
  {| f_mul := vmont_mul BigOps BigZ.ltb KpB; f_sqr := vmont_sqr BigOps BigZ.ltb KpB;
     f_add := vmod_add BigOps BigZ.ltb KpB; f_sub := vmod_sub BigOps BigZ.ltb KpB;
     f_dbl := vmod_dbl BigOps BigZ.ltb KpB; f_tri := vmod_tri BigOps BigZ.ltb KpB;
     f_haf := vmod_haf BigOps KpB; f_neg := vmod_neg BigOps BigZ.ltb KpB;
     f_eqb := BigZ.eqb; f_zero := k0 KpB; f_one := knegm KpB;
     f_b := c_mont_b_B;
     f_inv := vmodp_mont_inv BigOps BigZ.ltb KpB;
     f_from_mont := vfrom_mont BigOps BigZ.ltb KpB; f_to_mont := vto_mont BigOps BigZ.ltb KpB |}.
