(* SM2 public-key encryption and ECDH (src/sm2_enc.c, src/sm2_exch.c and the point import
   functions of src/sm2_z256.c they call), Impl model over the generic curve operations.
   Same abstraction level and entropy model as Ec/SM2Sign.v.  Error returns are [None]. *)
From GmVerif Require Import Base.Bytes Ec.Num Ec.CurveSpec Hash.MD Hash.SM3 Hash.Hmac Hash.Instances
  Ec.Sm2Der Ec.SM2Sign.
Local Open Scope Z_scope.

Definition all_zero (l : list N) : bool := forallb (fun b => N.eqb b 0) l.

(* the three sm3_update calls computing C3 = Hash(x2 || M || y2) *)
Definition c3_hash (x2 m y2 : list N) : list N :=
  sm3_finish (sm3_update (sm3_update (sm3_update sm3_init x2) m) y2).

(* sm2_z256_point_from_bytes: 1 / 0 (the encoding (0,0) of infinity) / -1 *)
Inductive fbres (A : Type) := FbOk (P : A) | FbInf | FbErr.
Arguments FbOk {A} P. Arguments FbInf {A}. Arguments FbErr {A}.
Section Enc.
  Variable NO : numops.
  Notation pt := (point NO).

  Definition mkpt (x y : Z) : pt := Some (nofZ NO x, nofZ NO y).

  Definition point_from_bytes (b : list N) : fbres pt :=
    let x := be_to_Z (firstn 32 b) in
    let y := be_to_Z (firstn 32 (skipn 32 b)) in
    if sm2_p <=? x then FbErr
    else if sm2_p <=? y then FbErr
    else if (x =? 0) && (y =? 0) then FbInf
    else if sm2_on_curve NO (mkpt x y) then FbOk (mkpt x y) else FbErr.

  (* ---------- sm2_do_encrypt ---------- *)
  (* the body after the nonce has been drawn; None = goto retry (KDF output all zero) *)
  Definition enc_try (P : pt) (m : list N) (k : Z) : option sm2_ct :=
    let C1 := sm2_mulG NO k in
    let kP := sm2_mul NO k P in
    let x2 := to32 (get_x NO kP) in
    let y2 := to32 (get_y NO kP) in
    let t := sm2_kdf (x2 ++ y2) (length m) in
    if all_zero t then None
    else Some (mkct (to32 (get_x NO C1)) (to32 (get_y NO C1)) (c3_hash x2 m y2) (xor_bytes t m)).

  Fixpoint enc_loop (fuel : nat) (P : pt) (m : list N) (en : ent) : option (sm2_ct * ent) :=
    match fuel with
    | O => None
    | S f =>
      match rand_k en with
      | None => None
      | Some (k, en') =>
        match enc_try P m k with
        | Some c => Some (c, en')
        | None => enc_loop f P m en'
        end
      end
    end.

  Definition len_ok (m : list N) : bool := (1 <=? lenN m)%N && (lenN m <=? 255)%N.

  Definition do_encrypt (P : pt) (m : list N) (en : ent) : option (sm2_ct * ent) :=
    if len_ok m then enc_loop (S (length en)) P m en else None.

  Definition sm2_encrypt (P : pt) (m : list N) (en : ent) : option (list N * ent) :=
    match do_encrypt P m en with
    | None => None
    | Some (c, en') => Some (ct_to_der c, en')
    end.

  (* ---------- sm2_do_encrypt_fixlen: at most 200 nonces whose C1 does not have the wanted
     DER size are skipped; the 201st draw fails ---------- *)
  Definition point_der_len (C1 : pt) : N :=
    (lenN (enc_int (to32 (get_x NO C1))) + lenN (enc_int (to32 (get_y NO C1))))%N.
  Fixpoint fix_loop (fuel trys : nat) (P : pt) (m : list N) (psize : N) (en : ent)
    : option (sm2_ct * ent) :=
    match fuel with
    | O => None
    | S f =>
      match rand_k en with
      | None => None
      | Some (k, en') =>
        match trys with
        | O => None
        | S t =>
          if N.eqb (point_der_len (sm2_mulG NO k)) psize then
            match enc_try P m k with
            | Some c => Some (c, en')
            | None => fix_loop f trys P m psize en'
            end
          else fix_loop f t P m psize en'
        end
      end
    end.
  Definition do_encrypt_fixlen (P : pt) (m : list N) (psize : N) (en : ent) : option (sm2_ct * ent) :=
    if negb (len_ok m) then None
    else if N.eqb psize 68 || N.eqb psize 69 || N.eqb psize 70
    then fix_loop (S (length en)) 200 P m psize en else None.
  Definition sm2_encrypt_fixlen (P : pt) (m : list N) (psize : N) (en : ent) : option (list N * ent) :=
    match do_encrypt_fixlen P m psize en with
    | None => None
    | Some (c, en') => Some (ct_to_der c, en')
    end.

  (* ---------- sm2_do_decrypt ---------- *)
  Definition do_decrypt (d : Z) (c : sm2_ct) : option (list N) :=
    match point_from_bytes (ct_x c ++ ct_y c) with
    | FbOk C1 =>
      let Q := sm2_mul NO d C1 in
      let x2 := to32 (get_x NO Q) in
      let y2 := to32 (get_y NO Q) in
      let t := sm2_kdf (x2 ++ y2) (length (ct_c c)) in
      if all_zero t then None                        (* also refuses an empty C2 *)
      else
        let m := xor_bytes t (ct_c c) in
        if list_eq_dec N.eq_dec (c3_hash x2 m y2) (ct_hash c) then Some m else None
    | _ => None
    end.

  Definition sm2_decrypt (d : Z) (inp : list N) : option (list N) :=
    match ct_from_der inp with
    | Some (c, []) => do_decrypt d c
    | _ => None
    end.

  (* ---------- SM2_ENC_CTX / SM2_DEC_CTX (ENABLE_SM2_ENC_PRE_COMPUTE is not defined by the
     build, so sm2_encrypt_finish calls sm2_encrypt) ---------- *)
  Definition buf_update (cap : N) (buf : option (list N)) (inp : list N) : option (list N) :=
    match buf with
    | None => None
    | Some b =>
      if (cap <? lenN b)%N then None
      else if (cap - lenN b <? lenN inp)%N then None
      else Some (b ++ inp)
    end.
  Definition encrypt_stream (P : pt) (chunks : list (list N)) (en : ent) : option (list N * ent) :=
    match fold_left (buf_update 255) chunks (Some []) with
    | None => None
    | Some b => if (255 <? lenN b)%N then None else if (lenN b =? 0)%N then None else sm2_encrypt P b en
    end.
  Definition decrypt_stream (d : Z) (chunks : list (list N)) : option (list N) :=
    match fold_left (buf_update 366) chunks (Some []) with
    | None => None
    | Some b => if (366 <? lenN b)%N then None else if (lenN b <? 45)%N then None else sm2_decrypt d b
    end.

  (* ---------- sm2_encrypt_pre_compute (8 nonces, C1 = [k]G made affine with ONE shared inversion,
     exactly as coded: see batch_inv in Ec/SM2Sign.v) and sm2_do_encrypt_ex.  [zs] = the Jacobian Z
     coordinates produced by sm2_z256_point_mul_generator (not observable; theorem
     enc_pre_compute_eq_partial shows the result does not depend on them). ---------- *)
  Definition enc_pre_slot (ks zs zinv : list Z) (i : nat) : Z * (Z * Z) :=
    let k := nth i ks 0 in
    let P := sm2_mulG NO k in
    let z := nth i zs 1 in
    let zi := nth i zinv 0 in
    let y1 := mulm sm2_p (jac_Y NO P z) zi in       (* Y * Z^-1 *)
    let z2 := mulm sm2_p zi zi in                    (* Z^-2 *)
    (k, (mulm sm2_p (jac_X NO P z) z2, mulm sm2_p y1 z2)).
  Definition enc_pre_compute (zs : list Z) (en : ent) : option (list (Z * (Z * Z)) * ent) :=
    match draw_ks 8 en with
    | None => None
    | Some (ks, en') =>
      let Zs := map (fun i => jac_Z NO (sm2_mulG NO (nth i ks 0)) (nth i zs 1)) (seq 0 8) in
      let zinv := batch_inv sm2_p (inv_p NO) Zs in
      Some (map (enc_pre_slot ks zs zinv) (seq 0 8), en')
    end.

  (* sm2_do_encrypt_ex: 1 / 0 (KDF output all zero: caller must take another slot) / -1 *)
  Inductive exres := ExOk (c : sm2_ct) | ExRetry | ExErr.
  Definition do_encrypt_ex (P : pt) (pc : Z * (Z * Z)) (m : list N) : exres :=
    if negb (len_ok m) then ExErr
    else
      let kP := sm2_mul NO (fst pc) P in
      let x2 := to32 (get_x NO kP) in
      let y2 := to32 (get_y NO kP) in
      let t := sm2_kdf (x2 ++ y2) (length m) in
      if all_zero t then ExRetry
      else ExOk (mkct (to32 (fst (snd pc))) (to32 (snd (snd pc))) (c3_hash x2 m y2) (xor_bytes t m)).

  (* SM2_ENC_CTX when the library is built with -DENABLE_SM2_ENC_PRE_COMPUTE=1: init pre-computes
     8 slots, every finish takes slot num-1 (refill at 0); a 0 from sm2_do_encrypt_ex is an error.
     One round = updates, finish, reset. *)
  Fixpoint pre_rounds (zs : list Z) (P : pt) (pre : list (Z * (Z * Z))) (num : nat)
           (rounds : list (list (list N))) (en : ent) : option (list (list N) * ent) :=
    match rounds with
    | [] => Some ([], en)
    | chunks :: rest =>
      match fold_left (buf_update 255) chunks (Some []) with
      | None => None
      | Some b =>
        if (255 <? lenN b)%N then None else if (lenN b =? 0)%N then None
        else
          match (if Nat.eqb num 0
                 then match enc_pre_compute zs en with
                      | None => None
                      | Some (pre', en') => Some (pre', 8%nat, en')
                      end
                 else Some (pre, num, en)) with
          | None => None
          | Some (pre1, num1, en1) =>
            let num' := (num1 - 1)%nat in
            match do_encrypt_ex P (nth num' pre1 (0, (0, 0))) b with
            | ExOk c =>
              match pre_rounds zs P pre1 num' rest en1 with
              | None => None
              | Some (outs, en2) => Some (ct_to_der c :: outs, en2)
              end
            | _ => None
            end
          end
      end
    end.
  Definition encrypt_ctx_pre (zs : list Z) (P : pt) (rounds : list (list (list N))) (en : ent)
    : option (list (list N) * ent) :=
    match enc_pre_compute zs en with
    | None => None
    | Some (pre, en') => pre_rounds zs P pre 8 rounds en'
    end.

  (* size queries: sm2_encrypt_finish / sm2_decrypt_finish with out == NULL report the maximum *)
  Definition encrypt_finish_query (chunks : list (list N)) : option N :=
    match fold_left (buf_update 255) chunks (Some []) with
    | None => None
    | Some b => if (255 <? lenN b)%N then None else if (lenN b =? 0)%N then None else Some 366%N
    end.
  Definition decrypt_finish_query (chunks : list (list N)) : option N :=
    match fold_left (buf_update 366) chunks (Some []) with
    | None => None
    | Some b => if (366 <? lenN b)%N then None else if (lenN b <? 45)%N then None else Some 255%N
    end.
  (* return value of sm2_ciphertext_print: the same parse as sm2_decrypt *)
  Definition ciphertext_print_ok (a : list N) : bool :=
    match ct_from_der a with Some (_, []) => true | _ => false end.

  (* ---------- point import for ECDH: sm2_z256_point_from_octets ---------- *)
  Fixpoint fpow_pos (x : T NO) (e : positive) : T NO :=
    match e with
    | xH => x
    | xO e' => let h := fpow_pos x e' in fmul NO (Sp NO) h h
    | xI e' => let h := fpow_pos x e' in fmul NO (Sp NO) x (fmul NO (Sp NO) h h)
    end.
  (* sm2_z256_point_from_x_bytes: y = rhs^((p+1)/4), checked, parity selected *)
  Definition from_x_bytes (xb : list N) (odd : bool) : option pt :=
    let x := be_to_Z xb in
    if sm2_p <=? x then None
    else
      let X := nofZ NO x in
      let rhs := fadd NO (Sp NO) (fmul NO (Sp NO) (fsub NO (Sp NO) (fmul NO (Sp NO) X X) (nofZ NO 3)) X) (Sb NO) in
      let y := match (sm2_p + 1) / 4 with Zpos e => fpow_pos rhs e | _ => rhs end in
      if neqb NO (fmul NO (Sp NO) y y) rhs then
        let yz := ntoZ NO y in
        let y' := if Bool.eqb (Z.odd yz) odd then yz else sm2_p - yz in
        Some (mkpt x y')
      else None.

  (* sm2_z256_point_from_octets (as repaired by a33c088): inlen >= 1; 02/03 || x with 33 octets;
     04 || x || y with 65 octets and sm2_z256_point_from_bytes == 1 (range, not (0,0), on curve);
     everything else, including the encoding 00 of the point at infinity, is an error.
     The result is always a finite point. *)
  Definition point_from_octets (b : list N) : option pt :=
    match b with
    | [] => None
    | t :: r =>
      if N.eqb t 2 then (if Nat.eqb (length r) 32 then from_x_bytes r false else None)
      else if N.eqb t 3 then (if Nat.eqb (length r) 32 then from_x_bytes r true else None)
      else if N.eqb t 4 then
        if negb (Nat.eqb (length r) 64) then None
        else match point_from_bytes r with FbOk P => Some P | _ => None end
      else None
    end.

  (* sm2_ecdh: out = x || y of [d]P *)
  Definition sm2_ecdh (d : Z) (peer : list N) : option (list N) :=
    match peer with
    | [] => None
    | _ =>
      match point_from_octets peer with
      | Some P => Some (point_bytes NO (sm2_mul NO d P))
      | None => None
      end
    end.
  Definition do_ecdh (d : Z) (P : pt) : pt := sm2_mul NO d P.
End Enc.

(* ---------------- Spec: GB/T 32918.4 ---------------- *)
(* C1 = [k]G, (x2,y2) = [k]P, t = KDF(x2||y2, |M|), C2 = M xor t, C3 = SM3(x2||M||y2) *)
Definition std_ct (P : point ZOps) (m : list N) (k : Z) : sm2_ct :=
  let C1 := sm2_mulG ZOps k in
  let kP := sm2_mul ZOps k P in
  let x2 := to32 (get_x ZOps kP) in
  let y2 := to32 (get_y ZOps kP) in
  mkct (to32 (get_x ZOps C1)) (to32 (get_y ZOps C1)) (sm3 (x2 ++ m ++ y2))
       (xor_bytes (sm3_kdf_spec (x2 ++ y2) (length m)) m).
Definition std_kdf_zero (P : point ZOps) (m : list N) (k : Z) : bool :=
  let kP := sm2_mul ZOps k P in
  all_zero (sm3_kdf_spec (to32 (get_x ZOps kP) ++ to32 (get_y ZOps kP)) (length m)).
