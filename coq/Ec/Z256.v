(* C13 — limb-level Impl models of src/sm2_z256.c (portable C back-end).
   A z256 is a little-endian list of four 64-bit limbs, a z512 a list of eight; every
   place where the C arithmetic on uint64_t can wrap carries an explicit [w64].
   Control flow, carry chains and masks are transcribed as written. *)
From Coq Require Import ZArith List Bool.
Import ListNotations.
Local Open Scope Z_scope.

Definition w64 (x : Z) : Z := x mod 2^64.
Definition b2z (b : bool) : Z := if b then 1 else 0.
Definition ones64 : Z := 0xFFFFFFFFFFFFFFFF.
Definition not64 (x : Z) : Z := Z.lxor x ones64.          (* ~x on uint64_t *)

Fixpoint val (l : list Z) : Z :=
  match l with [] => 0 | x :: r => x + 2^64 * val r end.
Definition limb_ok (x : Z) : Prop := 0 <= x < 2^64.
Definition limbs_ok (l : list Z) : Prop := Forall limb_ok l.
(* value -> n limbs *)
Fixpoint limbs (n : nat) (x : Z) : list Z :=
  match n with O => [] | S k => (x mod 2^64) :: limbs k (x / 2^64) end.

(* ---- static uint64_t is_zero(uint64_t in) ---- *)
Definition is_zero64 (x : Z) : Z :=
  let x1 := Z.lor x (w64 (0 - x)) in
  let x2 := not64 x1 in
  Z.shiftr x2 63.

(* ---- sm2_z256_equ ---- *)
Definition z256_equ (a b : list Z) : Z :=
  match a, b with
  | [a0; a1; a2; a3], [b0; b1; b2; b3] =>
    let res := Z.lxor a0 b0 in
    let res := Z.lor res (Z.lxor a1 b1) in
    let res := Z.lor res (Z.lxor a2 b2) in
    let res := Z.lor res (Z.lxor a3 b3) in
    is_zero64 res
  | _, _ => 0
  end.

(* ---- sm2_z256_cmp : 1 / -1 / 0 ---- *)
Definition z256_cmp (a b : list Z) : Z :=
  match a, b with
  | [a0; a1; a2; a3], [b0; b1; b2; b3] =>
    if a3 >? b3 then 1 else if a3 <? b3 then -1 else
    if a2 >? b2 then 1 else if a2 <? b2 then -1 else
    if a1 >? b1 then 1 else if a1 <? b1 then -1 else
    if a0 >? b0 then 1 else if a0 <? b0 then -1 else 0
  | _, _ => 0
  end.

(* ---- sm2_z256_is_zero ---- *)
Definition z256_is_zero (a : list Z) : Z :=
  match a with
  | [a0; a1; a2; a3] =>
    Z.land (Z.land (Z.land (is_zero64 a0) (is_zero64 a1)) (is_zero64 a2)) (is_zero64 a3)
  | _ => 0
  end.

(* ---- sm2_z256_copy_conditional(dst, src, move) ---- *)
Definition z256_copy_conditional (dst src : list Z) (move : Z) : list Z :=
  let mask1 := w64 (0 - move) in
  let mask2 := not64 mask1 in
  let f d s := Z.lxor (Z.land s mask1) (Z.land d mask2) in
  match dst, src with
  | [d0; d1; d2; d3], [s0; s1; s2; s3] => [f d0 s0; f d1 s1; f d2 s2; f d3 s3]
  | _, _ => dst
  end.

(* ---- sm2_z256_rshift ---- *)
Definition z256_rshift (a : list Z) (nbits : Z) : list Z :=
  let n := Z.land nbits 0x3f in
  if n =? 0 then a else
  match a with
  | [a0; a1; a2; a3] =>
    [ Z.lor (Z.shiftr a0 n) (w64 (Z.shiftl a1 (64 - n)));
      Z.lor (Z.shiftr a1 n) (w64 (Z.shiftl a2 (64 - n)));
      Z.lor (Z.shiftr a2 n) (w64 (Z.shiftl a3 (64 - n)));
      Z.shiftr a3 n ]
  | _ => a
  end.

(* ---- sm2_z256_from_bytes / to_bytes (big-endian, GETU64/PUTU64) ---- *)
Definition getu64 (b : list Z) : Z :=
  fold_left (fun acc x => acc * 256 + x) (firstn 8 b) 0.
Definition z256_from_bytes (inb : list Z) : list Z :=
  [ getu64 (skipn 24 inb); getu64 (skipn 16 inb); getu64 (skipn 8 inb); getu64 inb ].
Definition putu64 (x : Z) : list Z :=
  map (fun k => Z.land (Z.shiftr x (8 * k)) 255) [7; 6; 5; 4; 3; 2; 1; 0].
Definition z256_to_bytes (a : list Z) : list Z :=
  match a with
  | [a0; a1; a2; a3] => putu64 a3 ++ putu64 a2 ++ putu64 a1 ++ putu64 a0
  | _ => []
  end.

(* ---- sm2_z256_add / sm2_z512_add: the carry chain as written ----
     t = a[0] + b[0]; c = t < a[0]; r[0] = t;
     t = a[i] + c;  c = t < a[i];  r[i] = t + b[i];  c += r[i] < t;        *)
Definition add_first (a0 b0 : Z) : Z * Z :=
  let t := w64 (a0 + b0) in (t, b2z (t <? a0)).
Definition add_next (ai bi c : Z) : Z * Z :=
  let t := w64 (ai + c) in
  let c1 := b2z (t <? ai) in
  let r := w64 (t + bi) in
  (r, c1 + b2z (r <? t)).
Fixpoint add_rest (a b : list Z) (c : Z) : list Z * Z :=
  match a, b with
  | ai :: a', bi :: b' =>
    let '(r, c') := add_next ai bi c in
    let '(rs, cf) := add_rest a' b' c' in (r :: rs, cf)
  | _, _ => ([], c)
  end.
Definition zadd (a b : list Z) : list Z * Z :=
  match a, b with
  | a0 :: a', b0 :: b' =>
    let '(r0, c) := add_first a0 b0 in
    let '(rs, cf) := add_rest a' b' c in (r0 :: rs, cf)
  | _, _ => ([], 0)
  end.
Definition z256_add := zadd.   (* on 4 limbs *)
Definition z512_add := zadd.   (* on 8 limbs *)

(* ---- sm2_z256_sub:
     t = a[0] - b[0]; c = t > a[0]; r[0] = t;
     t = a[i] - c;  c = t > a[i];  r[i] = t - b[i];  c += r[i] > t;        *)
Definition sub_first (a0 b0 : Z) : Z * Z :=
  let t := w64 (a0 - b0) in (t, b2z (t >? a0)).
Definition sub_next (ai bi c : Z) : Z * Z :=
  let t := w64 (ai - c) in
  let c1 := b2z (t >? ai) in
  let r := w64 (t - bi) in
  (r, c1 + b2z (r >? t)).
Fixpoint sub_rest (a b : list Z) (c : Z) : list Z * Z :=
  match a, b with
  | ai :: a', bi :: b' =>
    let '(r, c') := sub_next ai bi c in
    let '(rs, cf) := sub_rest a' b' c' in (r :: rs, cf)
  | _, _ => ([], c)
  end.
Definition zsub (a b : list Z) : list Z * Z :=
  match a, b with
  | a0 :: a', b0 :: b' =>
    let '(r0, c) := sub_first a0 b0 in
    let '(rs, cf) := sub_rest a' b' c in (r0 :: rs, cf)
  | _, _ => ([], 0)
  end.
Definition z256_sub := zsub.

(* ---- sm2_z256_mul: 8x8 schoolbook on 32-bit halves, accumulator s[16] ----
     for i: u = 0; for j: u = s[i+j] + a_[i]*b_[j] + u; s[i+j] = u & 0xffffffff; u >>= 32;
            s[i+8] = u;
     r[i] = (s[2i+1] << 32) | s[2i]                                                  *)
Definition mask32 : Z := 0xffffffff.
Definition split32 (a : list Z) : list Z :=
  flat_map (fun x => [Z.land x mask32; Z.shiftr x 32]) a.
(* one row; [s] is the accumulator from index i on *)
Fixpoint mul_inner (ai : Z) (b_ s : list Z) (u : Z) : list Z :=
  match b_ with
  | [] => match s with [] => [] | _ :: s' => u :: s' end
  | bj :: b' =>
    match s with
    | [] => []
    | sk :: s' =>
      let u1 := w64 (sk + ai * bj + u) in
      Z.land u1 mask32 :: mul_inner ai b' s' (Z.shiftr u1 32)
    end
  end.
Fixpoint mul_outer (a_ b_ s : list Z) : list Z :=
  match a_ with
  | [] => s
  | ai :: a' =>
    match mul_inner ai b_ s 0 with
    | [] => []
    | s0 :: s' => s0 :: mul_outer a' b_ s'
    end
  end.
Fixpoint join32 (s : list Z) : list Z :=
  match s with
  | lo :: hi :: r => Z.lor (w64 (Z.shiftl hi 32)) lo :: join32 r
  | _ => []
  end.
Definition z256_mul (a b : list Z) : list Z :=
  join32 (mul_outer (split32 a) (split32 b) (repeat 0 16)).

(* ---- sm2_z256_get_booth(a, window_size, i) ---- *)
Definition z256_get_booth (a : list Z) (w i : Z) : Z :=
  let mask := Z.shiftl 1 w - 1 in
  if i =? 0 then
    Z.land (w64 (Z.shiftl (nth 0 a 0) 1)) mask - Z.land (nth 0 a 0) mask
  else
    let j0 := i * w - 1 in
    let n := j0 / 64 in
    let j := j0 mod 64 in
    let wbits := Z.shiftr (nth (Z.to_nat n) a 0) j in
    let wbits :=
      if ((64 - j) <? (w + 1)) && (n <? 3)
      then Z.lor wbits (w64 (Z.shiftl (nth (Z.to_nat (n + 1)) a 0) (64 - j)))
      else wbits in
    Z.land wbits mask - Z.land (Z.shiftr wbits 1) mask.

(* ---- constants of the C file (little-endian limbs) ---- *)
Definition SM2_Z256_ONE : list Z := [1; 0; 0; 0].
Definition SM2_Z256_P : list Z :=
  [0xffffffffffffffff; 0xffffffff00000000; 0xffffffffffffffff; 0xfffffffeffffffff].
Definition SM2_Z256_NEG_P : list Z := [1; 2^32 - 1; 0; 2^32].
Definition SM2_Z256_P_PRIME : list Z :=
  [0x0000000000000001; 0xffffffff00000001; 0xfffffffe00000000; 0xfffffffc00000001].
Definition SM2_Z256_2e512modp : list Z :=
  [0x0000000200000003; 0x00000002ffffffff; 0x0000000100000001; 0x0000000400000002].
Definition SM2_Z256_SQRT_EXP : list Z :=
  [0x4000000000000000; 0xffffffffc0000000; 0xffffffffffffffff; 0x3fffffffbfffffff].
Definition SM2_Z256_N : list Z :=
  [0x53bbf40939d54123; 0x7203df6b21c6052b; 0xffffffffffffffff; 0xfffffffeffffffff].
Definition SM2_Z256_N_MINUS_ONE : list Z :=
  [0x53bbf40939d54122; 0x7203df6b21c6052b; 0xffffffffffffffff; 0xfffffffeffffffff].
Definition SM2_Z256_NEG_N : list Z :=
  [0xac440bf6c62abedd; 0x8dfc2094de39fad4; 0x0000000000000000; 0x0000000100000000].
Definition SM2_Z256_N_PRIME : list Z :=
  [0x327f9e8872350975; 0xdf1e8d34fc8319a5; 0x2b0068d3b08941d4; 0x6f39132f82e4c7bc].
Definition SM2_Z256_N_MINUS_TWO : list Z :=
  [0x53bbf40939d54121; 0x7203df6b21c6052b; 0xffffffffffffffff; 0xfffffffeffffffff].
Definition SM2_Z256_2e512modn : list Z :=
  [0x901192af7c114f20; 0x3464504ade6fa2fa; 0x620fc84c3affe0d4; 0x1eb5e412a22b3d3b].
Definition SM2_Z256_MODP_MONT_B : list Z :=
  [0x90d230632bc0dd42; 0x71cf379ae9b537ab; 0x527981505ea51c3c; 0x240fe188ba20e2c8].
Definition SM2_Z256_MODP_MONT_THREE : list Z :=
  [0x0000000000000003; 0x00000002fffffffd; 0x0000000000000000; 0x0000000300000000].

(* ---- modular add, sub, neg: shared shape of the modp and modn functions ---- *)
Definition z256_modm_add (m negm a b : list Z) : list Z :=
  let '(r, c) := z256_add a b in
  if negb (c =? 0) then fst (z256_add r negm)
  else if z256_cmp r m >=? 0 then fst (z256_sub r m) else r.
Definition z256_modm_sub (negm a b : list Z) : list Z :=
  let '(r, c) := z256_sub a b in
  if negb (c =? 0) then fst (z256_sub r negm) else r.
(* sm2_z256_modp_neg / modn_neg:  nonzero = 0 - (1 - is_zero(a));  r = m - a;  r[i] &= nonzero
   (so that -0 is 0 and not the modulus) *)
Definition z256_modm_neg (m a : list Z) : list Z :=
  let nonzero := w64 (0 - (1 - z256_is_zero a)) in
  map (fun x => Z.land x nonzero) (fst (z256_sub m a)).
(* the function before the repair (returned m for a = 0); kept for the refutation witness *)
Definition z256_modm_neg_old (m a : list Z) : list Z := fst (z256_sub m a).

Definition z256_modp_add := z256_modm_add SM2_Z256_P SM2_Z256_NEG_P.
Definition z256_modp_sub := z256_modm_sub SM2_Z256_NEG_P.
Definition z256_modp_neg := z256_modm_neg SM2_Z256_P.
Definition z256_modp_dbl (a : list Z) := z256_modp_add a a.
Definition z256_modp_tri (a : list Z) := z256_modp_add (z256_modp_add a a) a.
Definition z256_modp_haf (a : list Z) : list Z :=
  let '(r, c) := if Z.land (nth 0 a 0) 1 =? 1 then z256_add a SM2_Z256_P else (a, 0) in
  match r with
  | [r0; r1; r2; r3] =>
    [ Z.lor (Z.shiftr r0 1) (w64 (Z.shiftl (Z.land r1 1) 63));
      Z.lor (Z.shiftr r1 1) (w64 (Z.shiftl (Z.land r2 1) 63));
      Z.lor (Z.shiftr r2 1) (w64 (Z.shiftl (Z.land r3 1) 63));
      Z.lor (Z.shiftr r3 1) (w64 (Z.shiftl (Z.land c 1) 63)) ]
  | _ => r
  end.
Definition z256_modn_add := z256_modm_add SM2_Z256_N SM2_Z256_NEG_N.
Definition z256_modn_sub := z256_modm_sub SM2_Z256_NEG_N.
Definition z256_modn_neg := z256_modm_neg SM2_Z256_N.

(* ---- Montgomery multiplication (sm2_z256_modp_mont_mul / modn_mont_mul) ----
     z = a*b; t = low(z)*m'; t = low(t)*m; c = z512_add(z, z, t); r = high(z);
     if (c) r += mont_one (= 2^256 - m); else if (r >= m) r -= m;                 *)
Definition z256_mont_mul (m m' mont_one a b : list Z) : list Z :=
  let z := z256_mul a b in
  let t := z256_mul (firstn 4 z) m' in
  let t := z256_mul (firstn 4 t) m in
  let '(z, c) := z512_add z t in
  let r := skipn 4 z in
  if negb (c =? 0) then fst (z256_add r mont_one)
  else if z256_cmp r m >=? 0 then fst (z256_sub r m) else r.

Definition z256_modp_mont_mul := z256_mont_mul SM2_Z256_P SM2_Z256_P_PRIME SM2_Z256_NEG_P.
Definition z256_modn_mont_mul := z256_mont_mul SM2_Z256_N SM2_Z256_N_PRIME SM2_Z256_NEG_N.
Definition z256_modp_to_mont (a : list Z) := z256_modp_mont_mul a SM2_Z256_2e512modp.
Definition z256_modp_from_mont (a : list Z) := z256_modp_mont_mul a SM2_Z256_ONE.
Definition z256_modn_to_mont (a : list Z) := z256_modn_mont_mul a SM2_Z256_2e512modn.
Definition z256_modn_from_mont (a : list Z) := z256_modn_mont_mul a SM2_Z256_ONE.
