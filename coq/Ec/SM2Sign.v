(* SM2 signatures (src/sm2_sign.c), Impl model over the generic curve operations of
   Ec/CurveSpec.v (Section over [O : numops]: run with BigOps, proved with ZOps).

   Abstraction level: a [sm2_z256_t] is its integer value in [0, 2^256) (type Z); the
   Montgomery / limb layer below (sm2_z256.c) is property C13's subject and is replaced
   by its mathematical meaning here:
     sm2_z256_modn_mont_mul (with one Montgomery operand)  ->  a*b mod n
     sm2_z256_modn_(mont_)inv                               ->  modinv n (egcd; C uses a^(n-2))
     sm2_z256_point_mul_generator / point_mul / point_add   ->  sm2_mulG / sm2_mul / sm2_add
   while everything sm2_sign.c itself does is kept literally: the single conditional
   subtractions (e >= n, x >= n), modn_add / modn_sub with their carry logic, the 256-bit
   wrap of [t = r + k], the order of the range checks, the retry loops, rand_range's
   100 tries and little-endian read of the entropy bytes, x := 0 for the point at infinity.

   Entropy: [ent : list (list N)] = the successive answers of getentropy(buf, 32);
   the end of the list is a failing source (rand_bytes returns -1).
   Every error return is [None]. *)
From GmVerif Require Import Base.Bytes Ec.Num Ec.CurveSpec Hash.MD Hash.SM3 Ec.Sm2Der.
Local Open Scope Z_scope.

(* ---------------- bytes <-> integers ---------------- *)
Fixpoint be_to_Z_acc (acc : Z) (l : list N) : Z :=
  match l with [] => acc | b :: r => be_to_Z_acc (acc * 256 + Z.of_N b) r end.
Definition be_to_Z (l : list N) : Z := be_to_Z_acc 0 l.
(* rand_bytes((uint8_t * )k, 32) on a little-endian machine: limb 0 = bytes 0..7 *)
Definition le_to_Z (l : list N) : Z := be_to_Z (rev l).
Fixpoint Z_to_be (len : nat) (x : Z) : list N :=
  match len with
  | O => []
  | S k => Z_to_be k (x / 256) ++ [Z.to_N (x mod 256)]
  end.
Definition to32 (x : Z) : list N := Z_to_be 32 x.

Definition n := sm2_n.
Definition two256 : Z := 2 ^ 256.

(* ---------------- sm2_z256 scalar helpers ---------------- *)
(* if (sm2_z256_cmp(a, n) >= 0) sm2_z256_sub(a, a, n) *)
Definition red_n (a : Z) : Z := if n <=? a then a - n else a.
(* sm2_z256_modn_add: 256-bit add; on carry add 2^256-n (wrapping), else one conditional subtraction *)
Definition modn_add (a b : Z) : Z :=
  let s := a + b in
  if two256 <=? s then ((s - two256) + (two256 - n)) mod two256
  else if n <=? s then s - n else s.
(* sm2_z256_modn_sub: 256-bit sub; on borrow subtract 2^256-n (wrapping) *)
Definition modn_sub (a b : Z) : Z :=
  if a <? b then ((a - b + two256) - (two256 - n)) mod two256 else a - b.
Definition modn_mul (a b : Z) : Z := (a * b) mod n.

(* ---------------- sm2_z256_rand_range(k, range), 100 tries ---------------- *)
Definition ent := list (list N).
Fixpoint rand_range (tries : nat) (range : Z) (e : ent) : option (Z * ent) :=
  match tries with
  | O => None                                 (* returns 0: callers treat as failure *)
  | S t =>
    match e with
    | [] => None                              (* rand_bytes fails *)
    | b :: e' => let r := le_to_Z b in
                 if range <=? r then rand_range t range e' else Some (r, e')
    end
  end.
(* do { rand_range(k, n) } while (is_zero(k)) *)
Fixpoint rand_k_loop (fuel : nat) (e : ent) : option (Z * ent) :=
  match fuel with
  | O => None
  | S f =>
    match rand_range 100 n e with
    | None => None
    | Some (k, e') => if k =? 0 then rand_k_loop f e' else Some (k, e')
    end
  end.
(* every successful rand_range consumes at least one draw, so this fuel is never the reason
   for [None] (lemma rand_k_fuel in the proofs) *)
Definition rand_k (e : ent) : option (Z * ent) := rand_k_loop (S (length e)) e.

(* ---------------- Montgomery's trick, as coded in sm2_fast_sign_pre_compute (N = 32) and
   sm2_encrypt_pre_compute (N = 8): one inversion for the Z coordinates of N Jacobian points.
     f[0] = Z[0];  f[i] = f[i-1] * Z[i]                       (prefix products)
     F    = (f[N-1])^-1                                        (the only inversion)
     g[N-1] = Z[N-1];  g[i] = g[i+1] * Z[i]  for i = N-2 .. 1  (suffix products; g[0] never read)
     Zinv[0] = g[1] * F;  Zinv[i] = (g[i+1] * f[i-1]) * F;  Zinv[N-1] = f[N-2] * F
   Multiplications are modulo [m] (the Montgomery domain of the C code is abstracted). ---------------- *)
Section BatchInv.
  Variable m : Z.
  Definition mulm (a b : Z) : Z := (a * b) mod m.
  Fixpoint prefs (acc : Z) (zs : list Z) : list Z :=
    match zs with
    | [] => []
    | z :: r => let a := mulm acc z in a :: prefs a r
    end.
  Definition f_list (zs : list Z) : list Z :=
    match zs with [] => [] | z0 :: r => z0 :: prefs z0 r end.
  Fixpoint g_list (zs : list Z) : list Z :=
    match zs with
    | [] => []
    | z :: r => match r with
                | [] => [z]
                | _ => let s := g_list r in mulm (hd 0 s) z :: s
                end
    end.
  Definition batch_slot (f g : list Z) (F : Z) (N i : nat) : Z :=
    if Nat.eqb i 0 then mulm (nth 1 g 0) F
    else if Nat.eqb i (N - 1) then mulm (nth (N - 2) f 0) F
    else mulm (mulm (nth (i + 1) g 0) (nth (i - 1) f 0)) F.
  Definition batch_inv (inv : Z -> Z) (zs : list Z) : list Z :=
    let N := length zs in
    let f := f_list zs in
    let g := g_list zs in
    let F := inv (nth (N - 1) f 0) in
    map (batch_slot f g F N) (seq 0 N).
End BatchInv.

(* result of sm2_compute_z: the digest, or an out-of-bounds read of the id buffer *)
Inductive zres := ZOk (z : list N) | ZFault.
(* result of the init functions: ok / error return / out-of-bounds read *)
Inductive ires (A : Type) := IOk (a : A) | IErr | IFault.
Arguments IOk {A} a. Arguments IErr {A}. Arguments IFault {A}.

Section Sign.
  Variable NO : numops.
  Notation pt := (point NO).

  (* sm2_z256_point_get_xy(P, x, NULL): x = 0 for the point at infinity *)
  Definition get_x (P : pt) : Z := match P with None => 0 | Some (x, _) => ntoZ NO x end.
  Definition get_y (P : pt) : Z := match P with None => 0 | Some (_, y) => ntoZ NO y end.
  Definition inv_n (x : Z) : Z := ntoZ NO (modinv NO (nofZ NO n) (nofZ NO x)).
  Definition x1_of (k : Z) : Z := get_x (sm2_mulG NO k).

  (* ---------- sm2_do_sign ---------- *)
  (* one pass of the body after the nonce has been drawn; None = goto retry *)
  Definition sign_try (d dinv e k : Z) : option (Z * Z) :=
    let x := red_n (x1_of k) in
    let e' := red_n e in
    let r := modn_add e' x in
    let t := (r + k) mod two256 in
    if (r =? 0) || (t =? n) then None
    else
      let rd := modn_mul r d in
      let k' := modn_sub k rd in
      let s := modn_mul dinv k' in
      if s =? 0 then None else Some (r, s).

  Fixpoint sign_loop (fuel : nat) (d dinv e : Z) (en : ent) : option ((Z * Z) * ent) :=
    match fuel with
    | O => None
    | S f =>
      match rand_k en with
      | None => None
      | Some (k, en') =>
        match sign_try d dinv e k with
        | Some sg => Some (sg, en')
        | None => sign_loop f d dinv e en'
        end
      end
    end.

  Definition do_sign (d e : Z) (en : ent) : option ((Z * Z) * ent) :=
    let d1 := modn_add d 1 in
    if d1 =? 0 then None
    else sign_loop (S (length en)) d (inv_n d1) e en.

  (* ---------- sm2_do_verify (r, s are the 32-byte fields read big-endian) ---------- *)
  Definition do_verify (P : pt) (e r s : Z) : bool :=
    if r =? 0 then false
    else if n <=? r then false
    else if s =? 0 then false
    else if n <=? s then false
    else
      let t := modn_add r s in
      if t =? 0 then false
      else
        let R := sm2_add NO (sm2_mulG NO s) (sm2_mul NO t P) in
        let x := red_n (get_x R) in
        let e' := red_n e in
        modn_add e' x =? r.

  (* sm2_fast_verify: identical control flow; the 16-entry table of multiples of P is
     represented by P itself (sm2_z256_point_mul_ex = sm2_mul at this level) *)
  Definition fast_verify (P : pt) (e r s : Z) : bool := do_verify P e r s.

  (* ---------- sm2_fast_sign_compute_key / _pre_compute / sm2_fast_sign ---------- *)
  Definition fast_key (d : Z) : option Z :=
    if n - 1 <=? d then None else Some (inv_n (modn_add d 1)).

  (* 32 nonces; pre_comp[i] = (k_i, x([k_i]G) reduced once mod n) *)
  Fixpoint draw_ks (cnt : nat) (en : ent) : option (list Z * ent) :=
    match cnt with
    | O => Some ([], en)
    | S c =>
      match rand_k en with
      | None => None
      | Some (k, en') =>
        match draw_ks c en' with
        | None => None
        | Some (ks, en'') => Some (k :: ks, en'')
        end
      end
    end.
  (* pre_comp[i] = (k_i, x1_modn_i) with x1_modn_i = x([k_i]G) reduced once; x1_modn is a
     pure function of k_i, so the context stores the nonces and [pre_entry] is applied when
     an entry is used (the C code computes all 32 x-coordinates eagerly with one shared
     inversion; evaluating 32 scalar multiplications per context inside Coq would make the
     correspondence run 30 times slower for no change in the values) *)
  Definition pre_entry (k : Z) : Z * Z := (k, red_n (x1_of k)).
  Definition pre_compute (en : ent) : option (list Z * ent) := draw_ks 32 en.

  (* sm2_fast_sign_pre_compute exactly as coded (eager, with the shared inversion).  [zs] are the
     Jacobian Z coordinates that sm2_z256_point_mul_generator happens to produce for the 32 points
     (not observable; lemma fast_pre_compute_eq shows the result does not depend on them):
     point i is represented as (x z^2, y z^3, z); the point at infinity as (1, 1, 0). *)
  Definition inv_p (x : Z) : Z := ntoZ NO (modinv NO (Sp NO) (nofZ NO x)).
  Definition jac_X (P : pt) (z : Z) : Z :=
    match P with None => 1 | Some _ => mulm sm2_p (get_x P) (mulm sm2_p z z) end.
  Definition jac_Y (P : pt) (z : Z) : Z :=
    match P with None => 1 | Some _ => mulm sm2_p (get_y P) (mulm sm2_p z (mulm sm2_p z z)) end.
  Definition jac_Z (P : pt) (z : Z) : Z := match P with None => 0 | Some _ => z mod sm2_p end.
  Definition fast_pre_slot (ks zs zinv : list Z) (i : nat) : Z * Z :=
    let k := nth i ks 0 in
    let zi := nth i zinv 0 in
    let z2 := mulm sm2_p zi zi in
    (k, red_n (mulm sm2_p (jac_X (sm2_mulG NO k) (nth i zs 1)) z2)).
  Definition fast_pre_compute (zs : list Z) (en : ent) : option (list (Z * Z) * ent) :=
    match draw_ks 32 en with
    | None => None
    | Some (ks, en') =>
      let Zs := map (fun i => jac_Z (sm2_mulG NO (nth i ks 0)) (nth i zs 1)) (seq 0 32) in
      let zinv := batch_inv sm2_p inv_p Zs in
      Some (map (fast_pre_slot ks zs zinv) (seq 0 32), en')
    end.

  (* sm2_fast_sign (as repaired by 05ab786): returns 0 (None) for a nonce that gives r = 0,
     (k + r) mod n = 0 (i.e. r + k = n) or s = 0, so that the caller takes another one *)
  Definition fast_sign (fastd : Z) (pc : Z * Z) (e : Z) : option (Z * Z) :=
    let e' := red_n e in
    let r := modn_add e' (snd pc) in
    let s0 := modn_add (fst pc) r in
    if (r =? 0) || (s0 =? 0) then None
    else
      let s := modn_sub (modn_mul s0 fastd) r in
      if s =? 0 then None else Some (r, s).

  (* the code before 05ab786 (DESIGN 5 #3), kept only for the named Examples showing the defect *)
  Definition fast_sign_old (fastd : Z) (pc : Z * Z) (e : Z) : Z * Z :=
    let e' := red_n e in
    let r := modn_add e' (snd pc) in
    let s0 := modn_add (fst pc) r in
    let s1 := modn_mul s0 fastd in
    (r, modn_sub s1 r).

  (* ---------- DER wrappers ---------- *)
  Definition sig_bytes (sg : Z * Z) : list N := sig_to_der (to32 (fst sg)) (to32 (snd sg)).

  Definition sm2_sign (d e : Z) (en : ent) : option (list N * ent) :=
    match do_sign d e en with
    | None => None
    | Some (sg, en') => Some (sig_bytes sg, en')
    end.

  (* sm2_verify: siglen = 0 is refused before parsing; trailing bytes refused *)
  Definition sm2_verify (P : pt) (e : Z) (sg : list N) : bool :=
    match sg with
    | [] => false
    | _ =>
      match sig_from_der sg with
      | Some ((r, s), []) => do_verify P e (be_to_Z r) (be_to_Z s)
      | _ => false
      end
    end.

  (* sm2_sign_fixlen: siglen in {70,71,72}; up to 200 complete signatures *)
  Fixpoint fixlen_loop (trys : nat) (d e : Z) (siglen : nat) (en : ent) : option (list N * ent) :=
    match trys with
    | O => None
    | S t =>
      match sm2_sign d e en with
      | None => None
      | Some (sg, en') =>
        if Nat.eqb (length sg) siglen then Some (sg, en') else fixlen_loop t d e siglen en'
      end
    end.
  Definition sm2_sign_fixlen (d e : Z) (siglen : nat) (en : ent) : option (list N * ent) :=
    if Nat.eqb siglen 70 || Nat.eqb siglen 71 || Nat.eqb siglen 72
    then fixlen_loop 200 d e siglen en else None.

  (* ---------- sm2_compute_z ---------- *)
  Definition default_id : list N :=
    [0x31;0x32;0x33;0x34;0x35;0x36;0x37;0x38;0x31;0x32;0x33;0x34;0x35;0x36;0x37;0x38]%N.
  Definition curve_params : list N :=
    to32 sm2_a ++ to32 sm2_b ++ to32 sm2_Gx ++ to32 sm2_Gy.
  (* sm2_z256_point_to_bytes: (0,0) for infinity *)
  Definition point_bytes (P : pt) : list N := to32 (get_x P) ++ to32 (get_y P).

  (* the caller's buffer [buf] is the memory actually present at id; reading idlen bytes from a
     shorter buffer is an out-of-bounds read (ZFault) *)
  Fixpoint list_eqb (a b : list N) : bool :=
    match a, b with
    | [], [] => true
    | x :: a', y :: b' => N.eqb x y && list_eqb a' b'
    | _, _ => false
    end.

  Definition entl (idlen : nat) : list N :=
    let l := N.of_nat idlen in
    [N.land (N.shiftr l 5) 255; N.land (N.shiftl l 3) 255]%N.

  (* the three sm3_update calls of the non-default branch *)
  Definition z_general (P : pt) (id : list N) (idlen : nat) : list N :=
    sm3_finish (sm3_update (sm3_update (sm3_update sm3_init (entl idlen)) id)
                           (curve_params ++ point_bytes P)).
  Definition z_default (P : pt) : list N :=
    sm3_finish (sm3_update sm3_init ([0x00; 0x80]%N ++ default_id ++ curve_params ++ point_bytes P)).

  (* sm2_compute_z (as repaired by 227cbe8): idlen == 16 && memcmp(id, default, 16) == 0 selects
     the pre-built input block, everything else hashes ENTL || id[0..idlen) || params *)
  Definition compute_z (P : pt) (buf : list N) (idlen : nat) : zres :=
    if Nat.ltb (length buf) idlen then ZFault
    else
      let id := firstn idlen buf in
      if Nat.eqb idlen 16 && list_eqb id default_id then ZOk (z_default P)
      else ZOk (z_general P id idlen).

  (* the code before 227cbe8 (DESIGN 5 #2): strcmp(id, "1234567812345678") ignoring idlen.
       Some true  : equal (16 matching bytes then a NUL)
       Some false : a differing byte was found
       None       : the comparison runs past the end of the buffer (out-of-bounds read)
     Kept only for the named Examples showing the defect. *)
  Fixpoint strcmp_default (buf dflt : list N) : option bool :=
    match dflt with
    | [] => match buf with
            | [] => None
            | b :: _ => Some (N.eqb b 0)
            end
    | c :: dflt' =>
      match buf with
      | [] => None
      | b :: buf' => if N.eqb b c then strcmp_default buf' dflt' else Some false
      end
    end.
  Definition compute_z_old (P : pt) (buf : list N) (idlen : nat) : zres :=
    match strcmp_default buf default_id with
    | None => ZFault
    | Some true => ZOk (z_default P)
    | Some false =>
      if Nat.ltb (length buf) idlen then ZFault
      else ZOk (z_general P (firstn idlen buf) idlen)
    end.

  (* Spec (GB/T 32918.2 5.5): Z = SM3(ENTL || ID || a || b || xG || yG || xA || yA) *)
  Definition z_spec (P : pt) (id : list N) : list N :=
    let bits := (8 * N.of_nat (length id))%N in
    sm3 ([N.shiftr bits 8; N.land bits 255]%N ++ id ++ curve_params ++ point_bytes P).

  (* ---------- sm2_key.c: the key objects every signing / encryption interface starts from ---------- *)
  (* sm2_key_generate: do { rand_range(d, n-1) } while (d == 0);  P = [d]G *)
  Fixpoint keygen_loop (fuel : nat) (e : ent) : option (Z * ent) :=
    match fuel with
    | O => None
    | S f =>
      match rand_range 100 (n - 1) e with
      | None => None
      | Some (d, e') => if d =? 0 then keygen_loop f e' else Some (d, e')
      end
    end.
  Definition key_generate (e : ent) : option (Z * pt * ent) :=
    match keygen_loop (S (length e)) e with
    | None => None
    | Some (d, e') => Some (d, sm2_mulG NO d, e')
    end.
  (* sm2_key_set_private_key: refuses 0 and d >= n-1 *)
  Definition key_set_private (d : Z) : option (Z * pt) :=
    if d =? 0 then None else if n - 1 <=? d then None else Some (d, sm2_mulG NO d).
  (* sm2_public_key_digest: SM3(04 || x || y); error for the point at infinity *)
  Definition public_key_digest (P : pt) : option (list N) :=
    match P with
    | None => None
    | Some _ => Some (sm3_finish (sm3_update sm3_init (4%N :: point_bytes P)))
    end.
  (* sm2_public_key_equ on finite affine keys *)
  Definition public_key_equ (P Q : pt) : bool :=
    (get_x P =? get_x Q) && (get_y P =? get_y Q).
  (* return value of sm2_signature_print: the same parse as sm2_verify (trailing bytes refused) *)
  Definition signature_print_ok (a : list N) : bool :=
    match sig_from_der a with Some (_, []) => true | _ => false end.

  (* ---------- streaming contexts ---------- *)
  (* sm2_sign_update / sm2_verify_update: if (data && datalen > 0) sm3_update *)
  Definition upd (c : sm3_ctx) (d : list N) : sm3_ctx :=
    match d with [] => c | _ => sm3_update c d end.

  (* id = None models id == NULL (no Z prefix) *)
  Definition init_hash (P : pt) (id : option (list N * nat)) : ires sm3_ctx :=
    match id with
    | None => IOk sm3_init
    | Some (buf, idlen) =>
      if Nat.eqb idlen 0 || N.ltb 8191 (N.of_nat idlen) then IErr
      else match compute_z P buf idlen with
           | ZFault => IFault
           | ZOk z => IOk (sm3_update sm3_init z)
           end
    end.

  Record sign_ctx := mksc {
    sc_sm3 : sm3_ctx; sc_saved : sm3_ctx; sc_d : Z; sc_fast : Z;
    sc_pre : list Z; sc_num : nat }.

  (* sm2_sign_init: the return value of sm2_fast_sign_compute_key is ignored by the C code;
     for d >= n-1 fast_sign_private stays uninitialised (not modelled: valid keys only) *)
  Definition sign_init (d : Z) (P : pt) (id : option (list N * nat)) (en : ent)
    : ires (sign_ctx * ent) :=
    match init_hash P id with
    | IErr => IErr | IFault => IFault
    | IOk h =>
      match pre_compute en with
      | None => IErr
      | Some (pre, en') =>
        IOk (mksc h h d (match fast_key d with Some f => f | None => 0 end) pre 32, en')
      end
    end.
  Definition sign_update (c : sign_ctx) (data : list N) : sign_ctx :=
    mksc (upd (sc_sm3 c) data) (sc_saved c) (sc_d c) (sc_fast c) (sc_pre c) (sc_num c).
  Definition sign_reset (c : sign_ctx) : sign_ctx :=
    mksc (sc_saved c) (sc_saved c) (sc_d c) (sc_fast c) (sc_pre c) (sc_num c).
  (* sm2_sign_finish: for (;;) { refill at 0; num--; sm2_fast_sign; 1 => done, 0 => next nonce }.
     Every iteration consumes one pre-computed nonce and every refill at least 32 draws, so the
     loop makes at most num + |en| iterations (fuel). *)
  Fixpoint finish_loop (fuel : nat) (fastd dg : Z) (pre : list Z) (num : nat) (en : ent)
    : option ((Z * Z) * list Z * nat * ent) :=
    match fuel with
    | O => None
    | S f =>
      match (if Nat.eqb num 0
             then match pre_compute en with
                  | None => None
                  | Some (pre', en') => Some (pre', 32%nat, en')
                  end
             else Some (pre, num, en)) with
      | None => None
      | Some (pre1, num1, en1) =>
        let num' := (num1 - 1)%nat in
        match fast_sign fastd (pre_entry (nth num' pre1 0)) dg with
        | Some sg => Some (sg, pre1, num', en1)
        | None => finish_loop f fastd dg pre1 num' en1
        end
      end
    end.
  Definition sign_finish (c : sign_ctx) (en : ent) : option (list N * sign_ctx * ent) :=
    let dg := be_to_Z (sm3_finish (sc_sm3 c)) in
    match finish_loop (S (sc_num c + length en)) (sc_fast c) dg (sc_pre c) (sc_num c) en with
    | None => None
    | Some (sg, pre, num', en') =>
      Some (sig_bytes sg, mksc (sc_sm3 c) (sc_saved c) (sc_d c) (sc_fast c) pre num', en')
    end.
  (* sm2_sign_finish_fixlen: ordinary (retrying) signatures with the stored key *)
  Definition sign_finish_fixlen (c : sign_ctx) (siglen : nat) (en : ent) : option (list N * ent) :=
    if Nat.eqb siglen 0 then None
    else sm2_sign_fixlen (sc_d c) (be_to_Z (sm3_finish (sc_sm3 c))) siglen en.

  Record verify_ctx := mkvc { vc_sm3 : sm3_ctx; vc_saved : sm3_ctx; vc_P : pt }.
  Definition verify_init (P : pt) (id : option (list N * nat)) : ires verify_ctx :=
    match init_hash P id with
    | IErr => IErr | IFault => IFault
    | IOk h => IOk (mkvc h h P)
    end.
  Definition verify_update (c : verify_ctx) (data : list N) : verify_ctx :=
    mkvc (upd (vc_sm3 c) data) (vc_saved c) (vc_P c).
  Definition verify_reset (c : verify_ctx) : verify_ctx := mkvc (vc_saved c) (vc_saved c) (vc_P c).
  (* sm2_verify_finish: no siglen check of its own; the DER parser refuses empty input *)
  Definition verify_finish (c : verify_ctx) (sg : list N) : bool :=
    match sig_from_der sg with
    | Some ((r, s), []) =>
      fast_verify (vc_P c) (be_to_Z (sm3_finish (vc_sm3 c))) (be_to_Z r) (be_to_Z s)
    | _ => false
    end.
End Sign.

(* ---------------- Spec: GB/T 32918.2, 6.1 / 7.1 over Z and the affine group ---------------- *)
Definition std_x1 (k : Z) : Z := get_x ZOps (sm2_mulG ZOps k).
Definition std_r (e k : Z) : Z := (e + std_x1 k) mod n.
Definition std_s (d e k : Z) : Z :=
  (inv_n ZOps (1 + d) * (k - std_r e k * d)) mod n.
(* the nonce is acceptable: k in [1,n-1], r <> 0, r + k <> n, s <> 0 *)
Definition std_good (d e k : Z) : Prop :=
  1 <= k < n /\ std_r e k <> 0 /\ std_r e k + k <> n /\ std_s d e k <> 0.
(* verification equation 7.1 B5-B7 *)
Definition std_verifies (P : point ZOps) (e r s : Z) : Prop :=
  1 <= r < n /\ 1 <= s < n /\ (r + s) mod n <> 0 /\
  (e + get_x ZOps (sm2_add ZOps (sm2_mulG ZOps s) (sm2_mul ZOps ((r + s) mod n) P))) mod n = r.
