(* The DER pieces used by SM2 signatures and ciphertexts, transcribed from
     src/asn1.c   asn1_length_to_der / asn1_length_from_der / asn1_type_to_der /
                  asn1_type_from_der / asn1_integer_to_der_ex / asn1_integer_from_der_ex
     src/sm2_sign.c  sm2_signature_to_der / sm2_signature_from_der
     src/sm2_enc.c   sm2_ciphertext_to_der / sm2_ciphertext_from_der
   Bytes are [N] (< 256, see [bytes_ok]); a C cursor (in, inlen) is the remaining
   byte list.  Every error return of the C code (-1, -2, and the "absent" return 0
   that all callers here treat as an error) is [None]. *)
From GmVerif Require Import Base.Bytes.
Local Open Scope N_scope.

Definition lenN {A} (l : list A) : N := N.of_nat (length l).
Definition takeN {A} (n : N) (l : list A) : list A := firstn (N.to_nat n) l.
Definition dropN {A} (n : N) (l : list A) : list A := skipn (N.to_nat n) l.

(* ---- asn1_length_to_der (len <= INT_MAX; all lengths here are < 2^16) ---- *)
Definition enc_len (len : N) : list N :=
  if len <? 128 then [len]
  else if len <? 256 then [0x81; len]
  else if len <? 65536 then [0x82; len / 256; len mod 256]
  else if len <? 16777216 then [0x83; len / 65536; (len / 256) mod 256; len mod 256]
  else [0x84; (len / 16777216) mod 256; (len / 65536) mod 256; (len / 256) mod 256; len mod 256].

(* ---- asn1_length_from_der: (len, rest); checks the DER minimality of the long
   form and that [len] bytes are available ---- *)
Definition dec_len (inp : list N) : option (N * list N) :=
  match inp with
  | [] => None
  | b :: r =>
    if b <? 128 then
      (if lenN r <? b then None else Some (b, r))
    else
      let nb := N.land b 0x7f in
      if (nb <? 1) || (4 <? nb) then None
      else if lenN r <? nb then None
      else
        let first := hd 0 r in
        if (nb =? 1) && (first <? 0x80) then None
        else if (1 <? nb) && (first =? 0) then None
        else
          let len := be_to_N (takeN nb r) in
          let rest := dropN nb r in
          if lenN rest <? len then None else Some (len, rest)
  end.

(* ---- asn1_type_to_der / asn1_type_from_der (d non-NULL) ---- *)
Definition enc_tlv (tag : N) (d : list N) : list N := tag :: enc_len (lenN d) ++ d.
Definition dec_tlv (tag : N) (inp : list N) : option (list N * list N) :=
  match inp with
  | [] => None
  | t :: r =>
    if t =? tag then
      match dec_len r with
      | Some (len, r') => Some (takeN len r', dropN len r')
      | None => None
      end
    else None
  end.

(* ---- asn1_integer_to_der_ex on a fixed-size big-endian array (alen >= 1) ---- *)
Fixpoint strip0 (a : list N) : list N :=
  match a with
  | 0 :: (_ :: _) as r => strip0 r
  | _ => a
  end.
Definition enc_int (a : list N) : list N :=
  let a' := strip0 a in
  if 0x80 <=? hd 0 a' then 0x02 :: enc_len (lenN a' + 1) ++ 0 :: a'
  else 0x02 :: enc_len (lenN a') ++ a'.

(* ---- asn1_integer_from_der_ex: (magnitude bytes without the sign octet, rest) ---- *)
Definition dec_int (inp : list N) : option (list N * list N) :=
  match inp with
  | [] => None
  | t :: r =>
    if t =? 0x02 then
      match dec_len r with
      | None => None
      | Some (len, r1) =>
        if len =? 0 then None
        else
          let b0 := hd 0 r1 in
          if 0x80 <=? b0 then None                       (* negative *)
          else if (b0 =? 0) && (1 <? len) then
            let r2 := tl r1 in
            let len2 := len - 1 in
            if hd 0 r2 <? 0x80 then None                 (* superfluous leading 00 *)
            else Some (takeN len2 r2, dropN len2 r2)
          else Some (takeN len r1, dropN len r1)
      end
    else None
  end.

Definition pad32 (a : list N) : list N := zeros (32 - length a) ++ a.
Definition is_nil {A} (l : list A) : bool := match l with [] => true | _ => false end.

(* ---- SM2 signature: SEQUENCE { INTEGER r, INTEGER s }; r, s are 32-byte arrays ---- *)
Definition sig_to_der (r s : list N) : list N :=
  let body := enc_int r ++ enc_int s in
  0x30 :: enc_len (lenN body) ++ body.

Definition sig_from_der (inp : list N) : option ((list N * list N) * list N) :=
  match dec_tlv 0x30 inp with
  | None => None
  | Some (d, rest) =>
    match dec_int d with
    | None => None
    | Some (r, d1) =>
      match dec_int d1 with
      | None => None
      | Some (s, d2) =>
        if (32 <? lenN r) || (32 <? lenN s) || negb (is_nil d2) then None
        else Some ((pad32 r, pad32 s), rest)
      end
    end
  end.

(* ---- SM2Cipher ::= SEQUENCE { x INTEGER, y INTEGER, hash OCTET STRING, ct OCTET STRING } ---- *)
Record sm2_ct := mkct { ct_x : list N; ct_y : list N; ct_hash : list N; ct_c : list N }.

Definition ct_to_der (c : sm2_ct) : list N :=
  let body := enc_int (ct_x c) ++ enc_int (ct_y c) ++ enc_tlv 0x04 (ct_hash c) ++ enc_tlv 0x04 (ct_c c) in
  0x30 :: enc_len (lenN body) ++ body.

Definition ct_from_der (inp : list N) : option (sm2_ct * list N) :=
  match dec_tlv 0x30 inp with
  | None => None
  | Some (d, rest) =>
    match dec_int d with
    | None => None
    | Some (x, d1) =>
      if 32 <? lenN x then None else
      match dec_int d1 with
      | None => None
      | Some (y, d2) =>
        if 32 <? lenN y then None else
        match dec_tlv 0x04 d2 with
        | None => None
        | Some (h, d3) =>
          if negb (lenN h =? 32) then None else
          match dec_tlv 0x04 d3 with
          | None => None
          | Some (c, d4) =>
            if 255 <? lenN c then None
            else if negb (is_nil d4) then None
            else Some (mkct (pad32 x) (pad32 y) h c, rest)
          end
        end
      end
    end
  end.
