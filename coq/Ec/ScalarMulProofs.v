(* C13 — scalar multiplication: the pre-computed table, and the defect of
   sm2_z256_point_mul_generator at k = n - 70 (DESIGN section 5, defect 1). *)
From Coq Require Import ZArith List Bool Lia.
From Bignums Require Import BigZ.
From GmVerif Require Import Ec.Num Ec.CurveSpec Ec.Z256 Ec.Mont Ec.Jacobian Ec.Booth Ec.BoothProofs Ec.ScalarMul.
Import ListNotations.
Local Open Scope Z_scope.

(* Spec-level decoding of a raw Jacobian/Montgomery triple over Z (None = infinity) *)
Definition Rinv_pZ : Z := Eval vm_compute in modinv ZOps c_p (2^256).
Definition decodeZ (P : Z * Z * Z) : option (Z * Z) :=
  let '(X, Y, Zc) := P in
  let f v := (v * Rinv_pZ) mod c_p in
  if f Zc =? 0 then None else
  let zi := modinv ZOps c_p (f Zc) in
  let zi2 := (zi * zi) mod c_p in
  Some ((f X * zi2) mod c_p, (f Y * ((zi2 * zi) mod c_p)) mod c_p).

(* the table has 37 rows of 64 entries, none of them (0,0) *)
Lemma table_shape :
  length sm2_pre_table = 37%nat /\
  forallb (fun row => (length row =? 64)%nat && forallb (fun e => negb ((fst e =? 0) && (snd e =? 0))) row)
          sm2_pre_table = true.
Proof. vm_compute. split; reflexivity. Qed.

(* the table is, by definition, the Montgomery image of the Spec recurrence
   B_0 = G, B_(i+1) = 2^7 B_i, E_(i,0) = B_i, E_(i,j+1) = E_(i,j) + B_i *)
Lemma table_is_spec_recurrence :
  sm2_pre_table = map (map table_entry_Z) (spec_table BigOps).
Proof. vm_compute. reflexivity. Qed.
(* pins: corners of the table against the double-and-add Spec [k]G *)
Example table_corners :
  map table_entry_Z [sm2_mulG BigOps 1; sm2_mulG BigOps 64; sm2_mulG BigOps (2^7); sm2_mulG BigOps (64 * 2^(7*36))]
  = [nth 0 (nth 0 sm2_pre_table []) (0,0); nth 63 (nth 0 sm2_pre_table []) (0,0);
     nth 0 (nth 1 sm2_pre_table []) (0,0); nth 63 (nth 36 sm2_pre_table []) (0,0)].
Proof. vm_compute. reflexivity. Qed.

Definition mulgen (k : Z) := point_mul_generator Z FpZ (point_add_affine Z FpZ) sm2_pre_table k.
(* with the mixed addition as it was before the repair of defect 1 *)
Definition mulgen_old (k : Z) := point_mul_generator Z FpZ (point_add_affine_old Z FpZ) sm2_pre_table k.

(* k = n - 70 with the old mixed addition: the last window adds -[35]G to the accumulator
   [n-35]G = -[35]G through formulas without a doubling case; the result has Z = 0 (infinity)
   while [n-70]G is a finite point.  The function as it is now returns exactly that point. *)
Theorem mul_generator_old_refuted :
  exists k, 0 <= k < 2^256 /\
    option_map decodeZ (mulgen_old k) <> Some (point_toZ BigOps (sm2_mulG BigOps k)).
Proof.
  exists (sm2_n - 70). split; [vm_compute; split; [discriminate|reflexivity]|].
  vm_compute. discriminate.
Qed.
Example mul_generator_n70_values :
  option_map decodeZ (mulgen_old (sm2_n - 70)) = Some None /\
  option_map decodeZ (mulgen (sm2_n - 70)) = Some (point_toZ BigOps (sm2_mulG BigOps (sm2_n - 70))) /\
  point_toZ BigOps (sm2_mulG BigOps (sm2_n - 70)) =
    Some (0x092af9a79f4170d181c6dcf871dd881b355386afd494c53d844c475a38b961fa,
          0x365c2d8030f64d0c35a7d471ea3376508d153752345d4cd382c23169340f7aab).
Proof. vm_compute. repeat split; reflexivity. Qed.
(* pins: boundary scalars through the function as it is *)
Example mul_generator_pins :
  forallb (fun k => match option_map decodeZ (mulgen k) with
                    | Some a =>
                      match a, point_toZ BigOps (sm2_mulG BigOps k) with
                      | Some (x1, y1), Some (x3, y3) => (x1 =? x3) && (y1 =? y3)
                      | None, None => true
                      | _, _ => false
                      end
                    | _ => false end)
          [sm2_n - 71; sm2_n - 70; sm2_n - 69; sm2_n; sm2_n - 1; 1; 0; 2^256 - 1] = true.
Proof. vm_compute. reflexivity. Qed.

