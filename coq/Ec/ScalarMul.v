(* C13 — Impl models of the scalar multiplications of src/sm2_z256.c:
   sm2_z256_point_mul_pre_compute, _mul_ex, _mul (w = 5 Booth windows, 16-entry table),
   _mul_generator (w = 7, 37 x 64 pre-computed affine table), _mul_sum.
   The affine addition is a parameter so that the same text gives the code as it is
   ([point_add_affine]) and the code before the repair of defect 1 ([point_add_affine_old]),
   which is kept only for the refutation witness at k = n - 70. *)
From Coq Require Import ZArith List Bool.
From Bignums Require Import BigZ.
From GmVerif Require Import Ec.Num Ec.CurveSpec Ec.Z256 Ec.Mont Ec.Jacobian Ec.Booth.
Import ListNotations.
Local Open Scope Z_scope.

Section S.
  Variable F : Type.
  Variable fo : fops F.
  Notation jpoint := (jpoint F).
  Notation apoint := (apoint F).
  Variable addaff : jpoint -> apoint -> jpoint.       (* sm2_z256_point_add_affine *)
  Notation dbl := (point_dbl F fo).
  Notation add := (point_add F fo).
  Notation sub := (point_sub F fo).
  Definition subaff (A : jpoint) (B : apoint) : jpoint := addaff A (fst B, f_neg fo (snd B)).

  (* sm2_z256_point_mul_pre_compute: T[0..15] = P, 2P, ..., 16P *)
  Definition pre_compute (P : jpoint) : list jpoint :=
    let '(X, Y, Z) := P in
    if f_eqb fo Z (f_one fo) then
      let P_ := (X, Y) in
      let T0 := P in
      let T1 := dbl T0 in
      let T2 := addaff T1 P_ in
      let T3 := dbl T1 in
      let T4 := addaff T3 P_ in
      let T5 := dbl T2 in
      let T6 := addaff T5 P_ in
      let T7 := dbl T3 in
      let T8 := addaff T7 P_ in
      let T9 := dbl T4 in
      let T10 := addaff T9 P_ in
      let T11 := dbl T5 in
      let T12 := addaff T11 P_ in
      let T13 := dbl T6 in
      let T14 := addaff T13 P_ in
      let T15 := dbl T7 in
      [T0; T1; T2; T3; T4; T5; T6; T7; T8; T9; T10; T11; T12; T13; T14; T15]
    else
      let t1 := P in
      let t2 := dbl t1 in
      let t4 := dbl t2 in
      let t8 := dbl t4 in
      let t16 := dbl t8 in
      let t3 := add t2 P in
      let t6 := dbl t3 in
      let t12 := dbl t6 in
      let t5 := add t3 t2 in
      let t10 := dbl t5 in
      let t7 := add t4 t3 in
      let t14 := dbl t7 in
      let t9 := add t4 t5 in
      let t11 := add t6 t5 in
      let t13 := add t7 t6 in
      let t15 := add t8 t7 in
      [t1; t2; t3; t4; t5; t6; t7; t8; t9; t10; t11; t12; t13; t14; t15; t16].

  (* the window loop of sm2_z256_point_mul_ex / _mul; digits most significant first.
     None = the C code would read T[booth-1] with booth < 0 while R is still "infinity"
     (excluded for k < 2^256 by BoothProofs.leading_digit_positive). *)
  Fixpoint mul_loop (T : list jpoint) (ds : list Z) (R : jpoint) (Rinf : bool) : option (jpoint * bool) :=
    match ds with
    | [] => Some (R, Rinf)
    | d :: r =>
      if Rinf then
        if d =? 0 then mul_loop T r R true
        else if d <? 0 then None
        else mul_loop T r (nth (Z.to_nat (d - 1)) T (point_zero F fo)) false
      else
        let R := dbl (dbl (dbl (dbl (dbl R)))) in
        let R := if d >? 0 then add R (nth (Z.to_nat (d - 1)) T (point_zero F fo))
                 else if d <? 0 then sub R (nth (Z.to_nat (- d - 1)) T (point_zero F fo))
                 else R in
        mul_loop T r R false
    end.

  Definition point_mul_ex (k : Z) (T : list jpoint) : option jpoint :=
    match mul_loop T (rev (booth_digits k 5)) (point_zero F fo) true with
    | None => None
    | Some (R, Rinf) => Some (if Rinf then point_zero F fo else R)
    end.
  Definition point_mul (k : Z) (P : jpoint) : option jpoint := point_mul_ex k (pre_compute P).

  (* sm2_z256_point_mul_generator; tab[i][j] = g_pre_comp[i][j]; windows from i = 36 down *)
  Fixpoint gen_loop (rows : list (list apoint)) (ds : list Z) (R : jpoint) (Rinf : bool)
    : option (jpoint * bool) :=
    match ds, rows with
    | d :: r, row :: rows' =>
      let e j := nth (Z.to_nat j) row (f_zero fo, f_zero fo) in
      if Rinf then
        if d =? 0 then gen_loop rows' r R true
        else if d <? 0 then None
        else gen_loop rows' r (point_copy_affine F fo (e (d - 1))) false
      else
        let R := if d >? 0 then addaff R (e (d - 1))
                 else if d <? 0 then subaff R (e (- d - 1))
                 else R in
        gen_loop rows' r R false
    | _, _ => Some (R, Rinf)
    end.
  Definition point_mul_generator (tab : list (list apoint)) (k : Z) : option jpoint :=
    match gen_loop (rev tab) (rev (booth_digits k 7)) (point_zero F fo) true with
    | None => None
    | Some (R, Rinf) => Some (if Rinf then point_infinity F fo else R)
    end.

  (* sm2_z256_point_mul_sum: R = [s]G; Q = [t]P; R = R + Q *)
  Definition point_mul_sum (tab : list (list apoint)) (t : Z) (P : jpoint) (s : Z) : option jpoint :=
    match point_mul_generator tab s, point_mul t P with
    | Some R, Some Q => Some (add R Q)
    | _, _ => None
    end.
End S.

(* ---- the pre-computed table as the Spec defines it: row i, column j holds
   mont([(j+1) * 2^(7 i)]G), built by the recurrence
     B_0 = G, B_(i+1) = 2^7 B_i (seven doublings), E_(i,0) = B_i, E_(i,j+1) = E_(i,j) + B_i
   with the affine group law of CurveSpec. ---- *)
Section Tab.
  Variable O : numops.
  Notation pt := (point O).
  Fixpoint row_of (B : pt) (acc : pt) (n : nat) : list pt :=
    match n with Datatypes.O => [] | S k => acc :: row_of B (sm2_add O acc B) k end.
  Fixpoint rows_of (B : pt) (n : nat) : list (list pt) :=
    match n with
    | Datatypes.O => []
    | S k => row_of B B 64 ::
             rows_of (sm2_dbl O (sm2_dbl O (sm2_dbl O (sm2_dbl O (sm2_dbl O (sm2_dbl O (sm2_dbl O B))))))) k
    end.
  Definition spec_table : list (list pt) := rows_of (SG O) 37.
End Tab.

Definition mont_of_Z (x : Z) : Z := (x * 2^256) mod sm2_p.
Definition mont_of_B (x : bigZ) : Z :=
  BigZ.to_Z (BigZ.modulo (BigZ.mul x (BigZ.of_Z (2^256))) (BigZ.of_Z sm2_p)).
Definition table_entry_Z (P : point BigOps) : Z * Z :=
  match P with
  | Some (x, y) => (mont_of_B x, mont_of_B y)
  | None => (0, 0)
  end.
(* computed once when this file is compiled (about 2400 affine additions over BigZ) *)
Time Definition sm2_pre_table : list (list (Z * Z)) :=
  Eval vm_compute in map (map table_entry_Z) (spec_table BigOps).
Definition table_to_big (t : list (list (Z * Z))) : list (list (bigZ * bigZ)) :=
  map (map (fun e => (BigZ.of_Z (fst e), BigZ.of_Z (snd e)))) t.
