(* C13 — sm2_z256_mod{p,n}_mont_exp for an arbitrary 256-bit exponent *)
From Coq Require Import ZArith List Bool Lia.
From GmVerif Require Import Ec.Num Ec.CurveSpec Ec.Z256 Ec.Mont Ec.MontProofs.
Import ListNotations.
Local Open Scope Z_scope.


Fixpoint valm (bs : list bool) (acc : Z) : Z :=
  match bs with [] => acc | b :: r => valm r (acc + acc + Z.b2z b) end.
Lemma valm_lin : forall bs acc, valm bs acc = acc * 2^(Z.of_nat (length bs)) + valm bs 0.
Proof.
  induction bs as [|b r IH]; intros acc; cbn [valm length].
  - change (2^(Z.of_nat 0)) with 1. lia.
  - rewrite IH. rewrite (IH (0 + 0 + Z.b2z b)). rewrite Nat2Z.inj_succ, Z.pow_succ_r by lia. ring.
Qed.
Lemma valm_bits : forall n e, 0 <= e -> valm (bits_msb n e) 0 = e mod 2^(Z.of_nat n).
Proof.
  unfold bits_msb. induction n as [|n IH]; intros e He.
  - cbn. rewrite Z.mod_1_r. reflexivity.
  - rewrite seq_S, rev_app_distr. cbn [rev app map valm plus]. rewrite valm_lin.
    rewrite map_length, rev_length, seq_length. rewrite IH by lia.
    rewrite Nat2Z.inj_succ, Z.pow_succ_r by lia.
    replace (2 * 2 ^ Z.of_nat n) with (2 ^ Z.of_nat n * 2) by ring.
    rewrite Z.rem_mul_r by (try lia; apply Z.pow_nonzero; lia).
    rewrite Z.testbit_spec' by lia. ring.
Qed.

Lemma runE_app : forall p1 p2 regs, runE (p1 ++ p2) regs = runE p2 (runE p1 regs).
Proof. intros. unfold runE, run. apply fold_left_app. Qed.
Lemma runE_exp : forall bs t, 0 <= t ->
  runE (exp_prog bs) [Some 1; Some t] = [Some 1; Some (valm bs t)].
Proof.
  induction bs as [|b r IH]; intros t Ht; [reflexivity|].
  unfold exp_prog. cbn [flat_map]. fold (exp_prog r). rewrite runE_app.
  destruct b.
  - change (runE [Sq 1 1; Mu 1 1 0] [Some 1; Some t]) with [Some 1; Some (t + t + 1)].
    rewrite IH by lia. reflexivity.
  - change (runE [Sq 1 1] [Some 1; Some t]) with [Some 1; Some (t + t)].
    rewrite IH by lia. cbn [valm Z.b2z]. rewrite Z.add_0_r. reflexivity.
Qed.

Section Exp.
  Variable K : mconsts ZOps.
  Hypothesis HK : Kok K.
  Variable Rinv : Z.
  Hypothesis HRinv : (2^256 * Rinv) mod km K = 1.
  Hypothesis Hm1 : 1 < km K.
  Hypothesis Hbig : 2^256 - km K < km K.      (* mont(1) = 2^256 - m is reduced *)

  (* for a Montgomery residue a of A and any exponent e >= 0, mont_exp returns the residue of
     A ^ (e mod 2^256) (the loop reads exactly the 256 low bits of e) *)
  Theorem vmont_exp_spec : forall a e, 0 <= a < km K -> 0 <= e ->
    let r := vmont_exp ZOps Z.ltb K a e in
    0 <= r < km K /\ frm K Rinv r = (frm K Rinv a) ^ (e mod 2^256) mod km K.
  Proof.
    intros a e Ha He r. unfold r, vmont_exp.
    set (A := frm K Rinv a).
    assert (R0 : rel K Rinv A (Some 1) a).
    { cbn [rel]. split; [lia|]. split; [exact Ha|]. rewrite Z.pow_1_r. unfold A, frm.
      symmetry. apply Z.mod_mod. lia. }
    assert (R1 : rel K Rinv A (Some 0) (knegm K)).
    { cbn [rel]. split; [lia|]. split.
      - rewrite (okneg K HK). pose proof (okm K HK). lia.
      - rewrite (frm_one K HK Rinv HRinv Hm1). rewrite Z.pow_0_r. symmetry. apply Z.mod_small. lia. }
    assert (H0 : Forall2 (rel K Rinv A) [Some 1; Some 0] [a; knegm K])
      by (constructor; [exact R0|]; constructor; [exact R1|]; constructor).
    pose proof (run_rel K HK Rinv HRinv A (exp_prog (bits_msb 256 e)) _ _ H0) as H.
    pose proof (rel_get K Rinv A _ _ 1%nat H) as G.
    rewrite runE_exp in G by lia. unfold getreg in G. cbn [nth] in G.
    rewrite valm_bits in G by lia. change (Z.of_nat 256) with 256 in G.
    cbn [rel] in G. destruct G as (_ & B & Fv). split; [exact B | exact Fv].
  Qed.
End Exp.

Theorem modp_mont_exp_spec : forall a e, 0 <= a < c_p -> 0 <= e ->
  let r := vmont_exp ZOps Z.ltb KpZ a e in
  0 <= r < c_p /\ frm KpZ Rinv_p r = (frm KpZ Rinv_p a) ^ (e mod 2^256) mod c_p.
Proof. exact (vmont_exp_spec KpZ KpZ_ok Rinv_p Rinv_p_ok c_p_pos ltac:(reflexivity)). Qed.
Theorem modn_mont_exp_spec : forall a e, 0 <= a < c_n -> 0 <= e ->
  let r := vmont_exp ZOps Z.ltb KnZ a e in
  0 <= r < c_n /\ frm KnZ Rinv_n r = (frm KnZ Rinv_n a) ^ (e mod 2^256) mod c_n.
Proof. exact (vmont_exp_spec KnZ KnZ_ok Rinv_n Rinv_n_ok c_n_pos ltac:(reflexivity)). Qed.
(* sm2_z256_modn_exp (non-Montgomery wrapper) *)
Theorem modn_exp_spec : forall a e, 0 <= a < c_n -> 0 <= e ->
  vmodn_exp ZOps Z.ltb KnZ a e = a ^ (e mod 2^256) mod c_n.
Proof.
  intros a e Ha He. unfold vmodn_exp.
  destruct (to_from_mont_n a Ha) as (Da & Oa & _).
  destruct (modn_mont_exp_spec _ e Oa He) as (Oe & Fe). cbv zeta in Oe, Fe.
  destruct (to_from_mont_n _ Oe) as (_ & _ & Ff). rewrite Ff, Fe, Da. reflexivity.
Qed.
