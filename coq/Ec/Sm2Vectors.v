(* Vector pins and satisfiability witnesses for the SM2 models (all by vm_compute over BigZ).
   - the GB/T 32918.2 / GM/T 0003.5 Annex A signature and the GB/T 32918.4 encryption example
     (recommended curve) are reproduced by the Impl models;
   - instances of the group-law premises used by the *_partial theorems, showing the premises are
     not vacuous (they are true statements about the curve, checked here on samples including a
     wrap-around modulo n). *)
From Coq Require Import String.
From GmVerif Require Import Base.Bytes Base.HexStr Ec.Num Ec.CurveSpec Hash.MD Hash.SM3
  Ec.Sm2Der Ec.SM2Sign Ec.SM2Enc.
Local Open Scope Z_scope.

Definition vd := 0x3945208F7B2144B13F36E38AC6D39F95889393692860B51A42FB81EF4DF7C5B8.
Definition vk := 0x59276E27D506861A16680F3AD9C02DCCEF3CC1FA3CDBE4CE6D54B80DEAC1BC21.
Definition ve := 0xF0B43E94BA45ACCAACE692ED534382EB17E6AB5A19CE7B31F4486FDFC0D28640.
Definition vr := 0xF5A03B0648D2C4630EEAC513E1BB81A15944DA3827D5B74143AC7EACEEE720B3.
Definition vs := 0xB1B6AA29DF212FD8763182BC0D421CA1BB9038FD1F7F42D4840B69C485BBC1AA.

(* Z_A for ID "1234567812345678" and the Annex A key, e = SM3(Z_A || "message digest") *)
Example std_z_and_digest :
  let P := sm2_mulG BigOps vd in
  match compute_z BigOps P (default_id ++ [0%N]) 16 with
  | ZOk z => be_to_Z z = 0xB2E14C5C79C6DF5B85F4FE7ED8DB7A262B9DA7E07CCB0EA9F4747B8CCDA8A4F3 /\
             be_to_Z (sm3 (z ++ hex_to_bytes "6d65737361676520646967657374")) = ve
  | ZFault => False
  end.
Proof. vm_compute. split; reflexivity. Qed.

Example std_signature :
  do_sign BigOps vd ve [rev (to32 vk)] = Some ((vr, vs), []).
Proof. vm_compute. reflexivity. Qed.

Example std_signature_verifies :
  do_verify BigOps (sm2_mulG BigOps vd) ve vr vs = true.
Proof. vm_compute. reflexivity. Qed.

(* GB/T 32918.4 Annex A: M = "encryption standard" *)
Example std_ciphertext :
  match do_encrypt BigOps (sm2_mulG BigOps vd) (hex_to_bytes "656e6372797074696f6e207374616e64617264") [rev (to32 vk)] with
  | Some (c, _) =>
      be_to_Z (ct_x c) = 0x04EBFC718E8D1798620432268E77FEB6415E2EDE0E073C0F4F640ECD2E149A73 /\
      be_to_Z (ct_y c) = 0xE858F9D81E5430A57B36DAAB8F950A3C64E6EE6A63094D99283AFF767E124DF0 /\
      be_to_Z (ct_hash c) = 0x59983C18F809E262923C53AEC295D30383B54E39D609D160AFCB1908D0BD8766 /\
      bytes_to_hex (ct_c c) = "21886ca989ca9c7d58087307ca93092d651efa"%string /\
      do_decrypt BigOps vd c = Some (hex_to_bytes "656e6372797074696f6e207374616e64617264")
  | None => False
  end.
Proof. vm_compute. repeat split; reflexivity. Qed.

(* ---- instances of the premises of the *_partial theorems ---- *)
Definition eqpt (P Q : point BigOps) : bool :=
  match point_toZ BigOps P, point_toZ BigOps Q with
  | None, None => true
  | Some (a, b), Some (c, d) => (a =? c) && (b =? d)
  | _, _ => false
  end.

(* [a]G + [b]G = [(a+b) mod n]G, including a sum that wraps modulo n and one that gives infinity *)
Example premise_add_instances :
  eqpt (sm2_add BigOps (sm2_mulG BigOps 5) (sm2_mulG BigOps 7)) (sm2_mulG BigOps 12) = true /\
  eqpt (sm2_add BigOps (sm2_mulG BigOps (n - 3)) (sm2_mulG BigOps 10)) (sm2_mulG BigOps 7) = true /\
  eqpt (sm2_add BigOps (sm2_mulG BigOps (n - 3)) (sm2_mulG BigOps 3)) None = true /\
  eqpt (sm2_add BigOps (sm2_mulG BigOps vk) (sm2_mulG BigOps vd)) (sm2_mulG BigOps ((vk + vd) mod n)) = true.
Proof. vm_compute. repeat split; reflexivity. Qed.

(* [a]([b]G) = [(a b) mod n]G *)
Example premise_mul_instances :
  eqpt (sm2_mul BigOps 3 (sm2_mulG BigOps 5)) (sm2_mulG BigOps 15) = true /\
  eqpt (sm2_mul BigOps vk (sm2_mulG BigOps vd)) (sm2_mulG BigOps ((vk * vd) mod n)) = true /\
  eqpt (sm2_mul BigOps vd (sm2_mulG BigOps vk)) (sm2_mul BigOps vk (sm2_mulG BigOps vd)) = true /\
  eqpt (sm2_mul BigOps n (sm2_mulG BigOps vd)) None = true.
Proof. vm_compute. repeat split; reflexivity. Qed.

(* multiples of G are finite curve points *)
Example premise_curve_instances :
  sm2_on_curve BigOps (sm2_mulG BigOps vk) = true /\ sm2_on_curve BigOps (sm2_mulG BigOps (n - 1)) = true /\
  point_toZ BigOps (sm2_mulG BigOps vk) <> None.
Proof. vm_compute. repeat split; try reflexivity. discriminate. Qed.

(* the computed (1 + d)^-1 is an inverse *)
Example premise_inverse_instances :
  ((1 + vd) * inv_n BigOps (1 + vd)) mod n = 1 /\ ((1 + 1) * inv_n BigOps (1 + 1)) mod n = 1 /\
  ((1 + (n - 2)) * inv_n BigOps (1 + (n - 2))) mod n = 1.
Proof. vm_compute. repeat split; reflexivity. Qed.
