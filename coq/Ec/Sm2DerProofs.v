(* Canonicity of the DER layer used by SM2 signatures / ciphertexts:
   whatever [sig_from_der] / [ct_from_der] accept is byte-for-byte the encoding
   that [sig_to_der] / [ct_to_der] produce for the decoded value (followed by the
   unread rest), and conversely the decoders accept the encoders' output. *)
From Coq Require Import ZifyN ZifyNat ZifyBool.
From GmVerif Require Import Base.ListX Base.Bytes Ec.Sm2Der.
Local Open Scope N_scope.
Ltac Zify.zify_post_hook ::= Z.div_mod_to_equations.

Lemma bytes_ok_cons b l : bytes_ok (b :: l) = true <-> b < 256 /\ bytes_ok l = true.
Proof. unfold bytes_ok; cbn [forallb]. rewrite andb_true_iff, N.ltb_lt. tauto. Qed.

Lemma bytes_ok_app a b : bytes_ok (a ++ b) = true <-> bytes_ok a = true /\ bytes_ok b = true.
Proof. unfold bytes_ok. rewrite forallb_app, andb_true_iff. tauto. Qed.

Lemma bytes_ok_firstn n l : bytes_ok l = true -> bytes_ok (firstn n l) = true.
Proof.
  revert l; induction n as [|n IH]; intros [|x l] H; cbn [firstn]; try reflexivity.
  apply bytes_ok_cons in H. apply bytes_ok_cons. split; [tauto|apply IH; tauto].
Qed.

Lemma bytes_ok_skipn n l : bytes_ok l = true -> bytes_ok (skipn n l) = true.
Proof.
  revert l; induction n as [|n IH]; intros [|x l] H; cbn [skipn]; try assumption.
  apply bytes_ok_cons in H. apply IH; tauto.
Qed.

Lemma bytes_ok_zeros n : bytes_ok (zeros n) = true.
Proof. induction n; cbn; auto. Qed.

Lemma land127 b : N.land b 0x7f = b mod 128.
Proof. change 0x7f with (N.ones 7). rewrite N.land_ones. reflexivity. Qed.

Lemma lenN_cons {A} (x : A) l : lenN (x :: l) = lenN l + 1.
Proof. unfold lenN. cbn [length]. lia. Qed.
Lemma lenN_nil {A} : lenN (@nil A) = 0.
Proof. reflexivity. Qed.
Lemma lenN_app {A} (a b : list A) : lenN (a ++ b) = lenN a + lenN b.
Proof. unfold lenN. rewrite app_length. lia. Qed.

Lemma takeN_dropN {A} n (l : list A) : takeN n l ++ dropN n l = l.
Proof. apply firstn_skipn. Qed.

Lemma lenN_takeN {A} n (l : list A) : n <= lenN l -> lenN (takeN n l) = n.
Proof. unfold lenN, takeN. intros H. rewrite firstn_length. lia. Qed.

(* ---------------- length octets ---------------- *)
Ltac solve_enc :=
  unfold enc_len;
  repeat match goal with
         | |- context [if ?c then _ else _] => destruct c eqn:?; try lia
         end;
  cbn [app]; repeat f_equal; lia.
Lemma dec_len_canon inp len rest :
  bytes_ok inp = true -> dec_len inp = Some (len, rest) ->
  inp = enc_len len ++ rest /\ len <= lenN rest.
Proof.
  intros Hok H. destruct inp as [|b r]; [discriminate|].
  apply bytes_ok_cons in Hok. destruct Hok as [Hb Hr].
  cbn [dec_len] in H.
  destruct (b <? 128) eqn:E128.
  - destruct (lenN r <? b) eqn:El; [discriminate|]. inversion H; subst.
    unfold enc_len. rewrite E128. split; [reflexivity|lia].
  - rewrite land127 in H.
    destruct ((b mod 128 <? 1) || (4 <? b mod 128)) eqn:Enb; [discriminate|].
    destruct (lenN r <? b mod 128) eqn:Elr; [discriminate|].
    assert (Hcases : b mod 128 = 1 \/ b mod 128 = 2 \/ b mod 128 = 3 \/ b mod 128 = 4) by lia.
    assert (Hbv : b = 128 + b mod 128) by lia.
    destruct Hcases as [Hn|[Hn|[Hn|Hn]]]; rewrite Hn in *.
    + destruct r as [|c0 r]; [cbn in Elr; discriminate|].
      apply bytes_ok_cons in Hr. destruct Hr as [Hc0 Hr].
      cbn [hd] in H. change (1 =? 1) with true in H. cbn [andb] in H.
      destruct (c0 <? 128) eqn:Ec0; [discriminate|].
      change (1 <? 1) with false in H. cbn [andb] in H.
      unfold takeN, dropN in H. change (N.to_nat 1) with 1%nat in H.
      cbn [firstn skipn be_to_N be_to_N_acc] in H.
      destruct (lenN r <? 0 * 256 + c0) eqn:El; [discriminate|]. inversion H; subst len rest.
      split; [|lia]. rewrite Hbv. solve_enc.
    + destruct r as [|c0 [|c1 r]]; try (cbn in Elr; discriminate).
      apply bytes_ok_cons in Hr. destruct Hr as [Hc0 Hr].
      apply bytes_ok_cons in Hr. destruct Hr as [Hc1 Hr].
      cbn [hd] in H. change (2 =? 1) with false in H. cbn [andb] in H.
      change (1 <? 2) with true in H. cbn [andb] in H.
      destruct (c0 =? 0) eqn:Ec0; [discriminate|].
      unfold takeN, dropN in H. change (N.to_nat 2) with 2%nat in H.
      cbn [firstn skipn be_to_N be_to_N_acc] in H.
      destruct (lenN r <? (0 * 256 + c0) * 256 + c1) eqn:El; [discriminate|].
      inversion H; subst len rest.
      split; [|lia]. rewrite Hbv. solve_enc.
    + destruct r as [|c0 [|c1 [|c2 r]]]; try (cbn in Elr; discriminate).
      apply bytes_ok_cons in Hr. destruct Hr as [Hc0 Hr].
      apply bytes_ok_cons in Hr. destruct Hr as [Hc1 Hr].
      apply bytes_ok_cons in Hr. destruct Hr as [Hc2 Hr].
      cbn [hd] in H. change (3 =? 1) with false in H. cbn [andb] in H.
      change (1 <? 3) with true in H. cbn [andb] in H.
      destruct (c0 =? 0) eqn:Ec0; [discriminate|].
      unfold takeN, dropN in H. change (N.to_nat 3) with 3%nat in H.
      cbn [firstn skipn be_to_N be_to_N_acc] in H.
      destruct (lenN r <? ((0 * 256 + c0) * 256 + c1) * 256 + c2) eqn:El; [discriminate|].
      inversion H; subst len rest.
      split; [|lia]. rewrite Hbv. solve_enc.
    + destruct r as [|c0 [|c1 [|c2 [|c3 r]]]]; try (cbn in Elr; discriminate).
      apply bytes_ok_cons in Hr. destruct Hr as [Hc0 Hr].
      apply bytes_ok_cons in Hr. destruct Hr as [Hc1 Hr].
      apply bytes_ok_cons in Hr. destruct Hr as [Hc2 Hr].
      apply bytes_ok_cons in Hr. destruct Hr as [Hc3 Hr].
      cbn [hd] in H. change (4 =? 1) with false in H. cbn [andb] in H.
      change (1 <? 4) with true in H. cbn [andb] in H.
      destruct (c0 =? 0) eqn:Ec0; [discriminate|].
      unfold takeN, dropN in H. change (N.to_nat 4) with 4%nat in H.
      cbn [firstn skipn be_to_N be_to_N_acc] in H.
      destruct (lenN r <? (((0 * 256 + c0) * 256 + c1) * 256 + c2) * 256 + c3) eqn:El; [discriminate|].
      inversion H; subst len rest.
      split; [|lia]. rewrite Hbv. solve_enc.
Qed.

(* ---------------- TLV ---------------- *)
Lemma dec_tlv_canon tag inp d rest :
  bytes_ok inp = true -> dec_tlv tag inp = Some (d, rest) ->
  inp = enc_tlv tag d ++ rest.
Proof.
  intros Hok H. destruct inp as [|t r]; [discriminate|].
  apply bytes_ok_cons in Hok. destruct Hok as [Ht Hr].
  cbn [dec_tlv] in H. destruct (t =? tag) eqn:Et; [|discriminate].
  apply N.eqb_eq in Et. subst t.
  destruct (dec_len r) as [[len r']|] eqn:El; [|discriminate].
  inversion H; subst d rest.
  destruct (dec_len_canon _ _ _ Hr El) as [Hr' Hle].
  unfold enc_tlv. rewrite lenN_takeN by exact Hle.
  cbn [app]. f_equal. rewrite <- app_assoc, takeN_dropN. exact Hr'.
Qed.

Lemma dec_tlv_rest_ok tag inp d rest :
  bytes_ok inp = true -> dec_tlv tag inp = Some (d, rest) ->
  bytes_ok d = true /\ bytes_ok rest = true.
Proof.
  intros Hok H. pose proof (dec_tlv_canon _ _ _ _ Hok H) as E. rewrite E in Hok.
  unfold enc_tlv in Hok. change (tag :: enc_len (lenN d) ++ d) with ([tag] ++ enc_len (lenN d) ++ d) in Hok.
  rewrite !bytes_ok_app in Hok. tauto.
Qed.

(* ---------------- INTEGER ---------------- *)
Lemma strip0_pad k a :
  a <> [] -> (a = [0] \/ hd 0 a <> 0) -> strip0 (zeros k ++ a) = a.
Proof.
  intros Hne Hh. induction k as [|k IH].
  - cbn [zeros app]. destruct a as [|x a]; [congruence|].
    destruct Hh as [Hh|Hh].
    + inversion Hh; subst. reflexivity.
    + cbn [hd] in Hh. destruct x; [congruence|]. reflexivity.
  - cbn [zeros app]. destruct (zeros k ++ a) as [|y l] eqn:E.
    + destruct k; cbn in E; [congruence|discriminate].
    + cbn [strip0]. exact IH.
Qed.

Lemma hd_takeN n (l : list N) : 1 <= n -> hd 0 (takeN n l) = hd 0 l.
Proof.
  intros H. unfold takeN. destruct (N.to_nat n) eqn:E; [lia|].
  destruct l; reflexivity.
Qed.

Lemma dec_int_canon inp a rest :
  bytes_ok inp = true -> dec_int inp = Some (a, rest) -> lenN a <= 32 ->
  inp = enc_int (pad32 a) ++ rest /\ 1 <= lenN a.
Proof.
  intros Hok H H32. destruct inp as [|t r]; [discriminate|].
  apply bytes_ok_cons in Hok. destruct Hok as [Ht Hr].
  cbn [dec_int] in H. destruct (t =? 2) eqn:Et; [|discriminate].
  apply N.eqb_eq in Et. subst t.
  destruct (dec_len r) as [[len r1]|] eqn:El; [|discriminate].
  destruct (dec_len_canon _ _ _ Hr El) as [Hr1 Hle].
  destruct (len =? 0) eqn:E0; [discriminate|].
  destruct (128 <=? hd 0 r1) eqn:Eneg; [discriminate|].
  destruct r1 as [|b0 r2]; [cbn in Hle; lia|]. cbn [hd tl] in *.
  destruct ((b0 =? 0) && (1 <? len)) eqn:Elead.
  - (* one leading zero octet removed *)
    apply andb_true_iff in Elead. destruct Elead as [Eb0 Elen].
    apply N.eqb_eq in Eb0. subst b0.
    destruct (hd 0 r2 <? 128) eqn:Eh; [discriminate|].
    inversion H; subst a rest. clear H.
    rewrite lenN_cons in Hle.
    assert (Hl2 : lenN (takeN (len - 1) r2) = len - 1) by (apply lenN_takeN; lia).
    split; [|lia].
    unfold enc_int, pad32. rewrite strip0_pad.
    + rewrite hd_takeN by lia.
      replace (128 <=? hd 0 r2) with true by lia.
      rewrite Hl2. replace (len - 1 + 1) with len by lia.
      rewrite Hr1. cbn [app]. f_equal. rewrite <- app_assoc. f_equal.
      cbn [app]. f_equal. symmetry. apply takeN_dropN.
    + intros E. rewrite E in Hl2. cbn in Hl2. lia.
    + right. rewrite hd_takeN by lia. lia.
  - inversion H; subst a rest. clear H.
    assert (Hl : lenN (takeN len (b0 :: r2)) = len) by (apply lenN_takeN; exact Hle).
    split; [|lia].
    assert (Hhd : hd 0 (takeN len (b0 :: r2)) = b0) by (rewrite hd_takeN by lia; reflexivity).
    unfold enc_int, pad32. rewrite strip0_pad.
    + rewrite Hhd. replace (128 <=? b0) with false by lia.
      rewrite Hl, Hr1. cbn [app]. f_equal. rewrite <- app_assoc. f_equal.
      symmetry. apply takeN_dropN.
    + intros E. rewrite E in Hl. cbn in Hl. lia.
    + destruct (b0 =? 0) eqn:Eb0.
      * left. cbn [andb] in Elead. assert (len = 1) by lia. subst len.
        apply N.eqb_eq in Eb0. subst b0. reflexivity.
      * right. rewrite Hhd. lia.
Qed.

Lemma dec_int_rest_ok inp a rest :
  bytes_ok inp = true -> dec_int inp = Some (a, rest) ->
  bytes_ok a = true /\ bytes_ok rest = true.
Proof.
  intros Hok H. destruct inp as [|t r]; [discriminate|].
  apply bytes_ok_cons in Hok. destruct Hok as [Ht Hr].
  cbn [dec_int] in H. destruct (t =? 2); [|discriminate].
  destruct (dec_len r) as [[len r1]|] eqn:El; [|discriminate].
  destruct (dec_len_canon _ _ _ Hr El) as [Hr1 _].
  rewrite Hr1 in Hr. apply bytes_ok_app in Hr. destruct Hr as [_ Hr].
  destruct (len =? 0); [discriminate|].
  destruct (128 <=? hd 0 r1); [discriminate|].
  destruct ((hd 0 r1 =? 0) && (1 <? len)).
  - destruct (hd 0 (tl r1) <? 128); [discriminate|]. inversion H; subst.
    assert (bytes_ok (tl r1) = true) by (destruct r1; [reflexivity|apply bytes_ok_cons in Hr; tauto]).
    split; [apply bytes_ok_firstn|apply bytes_ok_skipn]; assumption.
  - inversion H; subst. split; [apply bytes_ok_firstn|apply bytes_ok_skipn]; assumption.
Qed.

Lemma pad32_length a : lenN a <= 32 -> length (pad32 a) = 32%nat.
Proof. unfold pad32, lenN. intros H. rewrite app_length, zeros_length. lia. Qed.

Lemma is_nil_true {A} (l : list A) : is_nil l = true -> l = [].
Proof. destruct l; [reflexivity|discriminate]. Qed.

(* ---------------- signature ---------------- *)
Theorem sig_der_canonical inp r s rest :
  bytes_ok inp = true -> sig_from_der inp = Some ((r, s), rest) ->
  inp = sig_to_der r s ++ rest /\ length r = 32%nat /\ length s = 32%nat.
Proof.
  intros Hok H. unfold sig_from_der in H.
  destruct (dec_tlv 48 inp) as [[d rest']|] eqn:Eseq; [|discriminate].
  destruct (dec_tlv_rest_ok _ _ _ _ Hok Eseq) as [Hd Hrest].
  destruct (dec_int d) as [[r0 d1]|] eqn:Er; [|discriminate].
  destruct (dec_int_rest_ok _ _ _ Hd Er) as [_ Hd1].
  destruct (dec_int d1) as [[s0 d2]|] eqn:Es; [|discriminate].
  destruct ((32 <? lenN r0) || (32 <? lenN s0) || negb (is_nil d2)) eqn:Echk; [discriminate|].
  apply orb_false_iff in Echk. destruct Echk as [Echk En].
  apply orb_false_iff in Echk. destruct Echk as [Elr Els].
  apply negb_false_iff, is_nil_true in En. subst d2.
  inversion H; subst r s rest'. clear H.
  assert (Hr32 : lenN r0 <= 32) by lia. assert (Hs32 : lenN s0 <= 32) by lia.
  destruct (dec_int_canon _ _ _ Hd Er Hr32) as [Ed _].
  destruct (dec_int_canon _ _ _ Hd1 Es Hs32) as [Ed1 _].
  rewrite app_nil_r in Ed1.
  split; [|split; apply pad32_length; assumption].
  rewrite (dec_tlv_canon _ _ _ _ Hok Eseq). unfold enc_tlv, sig_to_der.
  rewrite Ed, Ed1. reflexivity.
Qed.

(* ---------------- ciphertext ---------------- *)
Theorem ct_der_canonical inp c rest :
  bytes_ok inp = true -> ct_from_der inp = Some (c, rest) ->
  inp = ct_to_der c ++ rest /\
  length (ct_x c) = 32%nat /\ length (ct_y c) = 32%nat /\
  length (ct_hash c) = 32%nat /\ (length (ct_c c) <= 255)%nat.
Proof.
  intros Hok H. unfold ct_from_der in H.
  destruct (dec_tlv 48 inp) as [[d rest']|] eqn:Eseq; [|discriminate].
  destruct (dec_tlv_rest_ok _ _ _ _ Hok Eseq) as [Hd Hrest].
  destruct (dec_int d) as [[x0 d1]|] eqn:Ex; [|discriminate].
  destruct (dec_int_rest_ok _ _ _ Hd Ex) as [_ Hd1].
  destruct (32 <? lenN x0) eqn:Elx; [discriminate|].
  destruct (dec_int d1) as [[y0 d2]|] eqn:Ey; [|discriminate].
  destruct (dec_int_rest_ok _ _ _ Hd1 Ey) as [_ Hd2].
  destruct (32 <? lenN y0) eqn:Ely; [discriminate|].
  destruct (dec_tlv 4 d2) as [[h d3]|] eqn:Eh; [|discriminate].
  destruct (dec_tlv_rest_ok _ _ _ _ Hd2 Eh) as [_ Hd3].
  destruct (negb (lenN h =? 32)) eqn:Elh; [discriminate|].
  destruct (dec_tlv 4 d3) as [[cc d4]|] eqn:Ec; [|discriminate].
  destruct (255 <? lenN cc) eqn:Elc; [discriminate|].
  destruct (negb (is_nil d4)) eqn:En; [discriminate|].
  apply negb_false_iff, is_nil_true in En. subst d4.
  inversion H; subst c rest'. clear H. cbn [ct_x ct_y ct_hash ct_c].
  assert (Hx32 : lenN x0 <= 32) by lia. assert (Hy32 : lenN y0 <= 32) by lia.
  destruct (dec_int_canon _ _ _ Hd Ex Hx32) as [Ed _].
  destruct (dec_int_canon _ _ _ Hd1 Ey Hy32) as [Ed1 _].
  pose proof (dec_tlv_canon _ _ _ _ Hd2 Eh) as Ed2.
  pose proof (dec_tlv_canon _ _ _ _ Hd3 Ec) as Ed3.
  rewrite app_nil_r in Ed3.
  split.
  - rewrite (dec_tlv_canon _ _ _ _ Hok Eseq). unfold enc_tlv at 1. unfold ct_to_der.
    cbn [ct_x ct_y ct_hash ct_c].
    assert (Ebody : d = enc_int (pad32 x0) ++ enc_int (pad32 y0) ++ enc_tlv 4 h ++ enc_tlv 4 cc).
    { rewrite Ed at 1. f_equal. rewrite Ed1 at 1. f_equal. rewrite Ed2 at 1. f_equal. exact Ed3. }
    rewrite <- Ebody. reflexivity.
  - repeat split; try (apply pad32_length; assumption).
    + apply negb_false_iff, N.eqb_eq in Elh. unfold lenN in Elh. lia.
    + unfold lenN in Elc. lia.
Qed.
