(* C12 — evaluation glue for the correspondence run (core.coq_eval): Impl model of the import /
   export functions over BigOps, and the independent Spec predicate on the coordinates. *)
From Coq Require Import ZArith List Bool String Ascii.
From Bignums Require Import BigZ.
From GmVerif Require Import Base.HexStr Ec.Num Ec.CurveSpec Ec.Z256 Ec.Mont Ec.Jacobian Ec.Booth
  Ec.ScalarMul Ec.Point Ec.Z256Eval.
Import ListNotations.
Local Open Scope string_scope.
Local Open Scope Z_scope.

Notation jp := (jpoint bigZ).
Definition dz (r : Z) : string := if r <? 0 then "-" ++ hx1 (- r) else hx1 r.

(* ---- Spec: a pair (x, y) of 256-bit numbers is a valid public point ---- *)
Definition spec_valid_xy (x y : Z) : bool :=
  (x <? sm2_p) && (y <? sm2_p) && negb ((x =? 0) && (y =? 0)) &&
  sm2_on_curve BigOps (Some (B x, B y)).
(* Spec: right-hand side x^3 + a x + b and its square root with the given parity, if any *)
Definition spec_rhs (x : Z) : bigZ :=
  bmod (BigZ.add (BigZ.add (BigZ.mul (BigZ.mul (B x) (B x)) (B x)) (BigZ.mul (B sm2_a) (B x))) (B sm2_b)) bp.
Definition spec_lift_x (x : Z) (odd : bool) : option (Z * Z) :=
  if negb (x <? sm2_p) then None else
  let r := spec_rhs x in
  let y := bpow bp r ((sm2_p + 1) / 4) in
  if negb (BigZ.eqb (bmod (BigZ.mul y y) bp) r) then None else
  let yz := BigZ.to_Z y in
  let y' := if Bool.eqb (Z.odd yz) odd then yz else (sm2_p - yz) mod sm2_p in
  if Bool.eqb (Z.odd y') odd then Some (x, y') else None.

Definition same_pt (P : jp) (x y : Z) : bool :=
  match decode P with Some (px, py) => BigZ.eqb px (B x) && BigZ.eqb py (B y) | None => false end.

Definition rline (r : Z) (P : jp) : string := dz r ++ " " ++ hj P.
Definition vd (ok : bool) (why : string) : string := if ok then "ok" else "BAD " ++ why.

(* ---- sm2_z256_point_from_bytes / set_xy ---- *)
Definition h_frombytes (X0 Y0 Zc0 x y : Z) : string :=
  let '(r, P) := point_from_bytes BigOps ltB KpB (Bj X0 Y0 Zc0) (B x) (B y) in
  let v := spec_valid_xy x y in
  rline r P ++ " | " ++
  vd (Bool.eqb (r =? 1) v && (negb (r =? 1) || same_pt P x y)) (if v then "valid-point-refused" else "invalid-point-accepted").
Definition h_setxy (X0 Y0 Zc0 x y : Z) : string :=
  let '(r, P) := point_set_xy BigOps ltB KpB (Bj X0 Y0 Zc0) (B x) (B y) in
  (* (0,0) is off the curve (b <> 0), so set_xy needs no extra test *)
  let v := spec_valid_xy x y in
  rline r P ++ " | " ++
  vd (Bool.eqb (r =? 1) v && (negb (r =? 1) || same_pt P x y)) (if v then "valid-point-refused" else "invalid-point-accepted").

(* ---- sm2_z256_point_from_x_bytes ---- *)
Definition h_fromx (X0 Y0 Zc0 x odd : Z) : string :=
  let '(r, P) := point_from_x_bytes BigOps ltB KpB (Bj X0 Y0 Zc0) (B x) (odd =? 1) in
  rline r P ++ " | " ++
  match spec_lift_x x (odd =? 1) with
  | Some (sx, sy) => vd ((r =? 1) && same_pt P sx sy) "point-exists-but-not-returned"
  | None => vd (negb (r =? 1)) "no-such-point-but-accepted"
  end.

(* ---- sm2_z256_point_from_octets: the Spec accepts 04||x||y with a valid (x,y) and 02/03||x
   with an x on the curve; everything else (00, other prefixes, wrong lengths) is refused ---- *)
Definition spec_octets (inlen prefix x y : Z) : option (Z * Z) :=
  if (prefix =? 4) && (inlen =? 65) then (if spec_valid_xy x y then Some (x, y) else None)
  else if ((prefix =? 2) || (prefix =? 3)) && (inlen =? 33) then spec_lift_x x (prefix =? 3)
  else None.
Definition oct_verdict (res : option (Z * jp)) (inlen prefix x y : Z) : string :=
  match res with
  | None => "BAD reads-in[0]-with-inlen-0"
  | Some (r, P) =>
    match spec_octets inlen prefix x y with
    | Some (sx, sy) => vd ((r =? 1) && same_pt P sx sy) "valid-encoding-refused"
    | None => vd (negb (r =? 1)) "invalid-encoding-accepted"
    end
  end.
Definition oct_line (res : option (Z * jp)) : string :=
  match res with None => "OOB" | Some (r, P) => rline r P end.
Definition h_fromoct (X0 Y0 Zc0 inlen prefix x y : Z) : string :=
  let cur := point_from_octets BigOps ltB KpB (Bj X0 Y0 Zc0) inlen prefix (B x) (B y) in
  oct_line cur ++ " | " ++ oct_verdict cur inlen prefix x y.
(* what a container that embeds these octets must answer: "1 x y" or "-1" (Spec only) *)
Definition h_expect (inlen prefix x y : Z) : string :=
  match spec_octets inlen prefix x y with
  | Some (sx, sy) => "1 " ++ hx sx ++ " " ++ hx sy
  | None => "-1"
  end.

(* ---- export ---- *)
Definition h_touncomp (X Y Zc : Z) : string :=
  match point_to_uncompressed BigOps ltB KpB (Bj X Y Zc) with
  | None => "-1"
  | Some (x, y) => "1 04" ++ hb x ++ hb y
  end.
Definition comp_line (o : option (Z * bigZ)) : string :=
  match o with None => "-1" | Some (pre, body) => "1 0" ++ hx1 pre ++ hb body end.
Definition h_tocomp (X Y Zc : Z) : string :=
  let P := Bj X Y Zc in
  let cur := point_to_compressed BigOps ltB KpB P in
  (* Spec: finite valid P = (x, y) compresses to (02 | y odd) || x *)
  let verdict o :=
    if negb (valid P) then "nospec" else
    match decode P, o with
    | None, None => "ok"
    | Some (x, y), Some (pre, body) =>
      vd (BigZ.eqb body x && (pre =? (if Z.odd (BigZ.to_Z y) then 3 else 2))) "compressed-form-is-not-(parity,x)"
    | _, _ => "BAD wrong-return"
    end in
  comp_line cur ++ " | " ++ verdict cur.

(* ---- sm2_key_set_private_key: "ret [X Y Z of the public key]" ---- *)
Definition priv_line (d : Z) (pub : option jp) : string :=
  if scalar_ok BigOps ltB KpB KnB (B d) then
    match pub with Some P => "1 " ++ hj P | None => "MODEL-OOB-TABLE-INDEX" end
  else "-1".
Definition priv_verdict (d : Z) (pub : option jp) : string :=
  let acc := scalar_ok BigOps ltB KpB KnB (B d) in
  let specacc := (1 <=? d) && (d <=? sm2_n - 2) in
  if negb (Bool.eqb acc specacc) then "BAD scalar-range"
  else if negb acc then "ok"
  else match pub with
       | Some P => vd (spt_eqb (decode P) (sm2_mulG BigOps d) &&
                       match decode P with None => false | _ => true end) "public-key-is-not-[d]G-or-is-infinity"
       | None => "BAD model"
       end.
Definition h_setpriv (d : Z) : string :=
  let cur := point_mul_generator _ FpB addaff_cur tabB d in
  priv_line d cur ++ " | " ++ priv_verdict d cur.
(* public key expected for a container holding scalar d: "1 x y" or "-1" (Spec only) *)
Definition h_expect_priv (d : Z) : string :=
  if (1 <=? d) && (d <=? sm2_n - 2) then
    match sm2_mulG BigOps d with
    | Some (x, y) => "1 " ++ hb x ++ " " ++ hb y
    | None => "-1"
    end
  else "-1".
(* ECDH with a peer share given as octets: "1 x y" of [d]P for a valid share, "-1" otherwise *)
Definition h_expect_ecdh (d inlen prefix x y : Z) : string :=
  match spec_octets inlen prefix x y with
  | Some (sx, sy) =>
    match sm2_mul BigOps d (Some (B sx, B sy)) with
    | Some (rx, ry) => "1 " ++ hb rx ++ " " ++ hb ry
    | None => "1 inf"
    end
  | None => "-1"
  end.

(* ---------------- scalar generation, hashing to a point, key digest ---------------- *)
From GmVerif Require Import Hash.SM3.
Definition bytes_of_hex (s : string) : list Z := map Z.of_N (hex_to_bytes s).
Definition draw_of (s : string) : option bigZ :=
  if String.eqb s "FAIL" then None else Some (B (le_val (bytes_of_hex s))).
Definition h_randrange (range r0 : Z) (draws : list string) : string :=
  let '(ret, r, _) := rand_range BigOps ltB (B range) (map draw_of draws) (B r0) in
  dz ret ++ " " ++ hb r ++ " | " ++
  vd (negb (ret =? 1) || (BigZ.to_Z r <? range)) "accepted-value-not-below-range".
Definition h_keygen (d0 : Z) (draws : list string) : string :=
  let '(ret, d) := key_generate_loop BigOps ltB KpB 8 (BigZ.sub bn b1) (map draw_of draws) (B d0) in
  if ret =? 1 then
    let dz_ := BigZ.to_Z d in
    match point_mul_generator _ FpB addaff_cur tabB dz_ with
    | Some P => "1 " ++ hb d ++ " " ++ hj P ++ " | " ++
                vd ((1 <=? dz_) && (dz_ <=? sm2_n - 2) && spt_eqb (decode P) (sm2_mulG BigOps dz_) &&
                    match decode P with None => false | _ => true end) "generated-key-out-of-range-or-wrong-public-key"
    | None => "MODEL-OOB-TABLE-INDEX"
    end
  else "-1 | ok".
Definition sm3z (bs : list Z) : list Z := map Z.of_N (sm3 (map Z.to_N bs)).
Definition h_fromhash (X0 Y0 Zc0 : Z) (data : string) (odd : Z) : string :=
  match point_from_hash BigOps ltB KpB sm3z 64 (Bj X0 Y0 Zc0) (bytes_of_hex data) (odd =? 1) with
  | None => "MODEL-FUEL"
  | Some (r, P) =>
    rline r P ++ " | " ++
    vd (negb (r =? 1) ||
        match decode P with
        | Some (x, y) => sm2_on_curve BigOps (Some (x, y)) && Bool.eqb (Z.odd (BigZ.to_Z y)) (odd =? 1)
        | None => false
        end) "hash-to-point-result-not-on-curve-or-wrong-parity"
  end.
(* sm2_public_key_digest = SM3(04 || x || y) *)
Definition h_keydigest (X Y Zc : Z) : string :=
  match point_to_uncompressed BigOps ltB KpB (Bj X Y Zc) with
  | None => "-1"
  | Some (x, y) =>
    "1 " ++ bytes_to_hex (map Z.to_N (sm3z (4 :: bytes_of_hex (hb x) ++ bytes_of_hex (hb y))))
  end.
(* sm2_z256_point_from_hex / point_equ_hex on the 128 hex digits of (x, y) *)
Definition h_hexpt (x y : Z) : string :=
  let '(r, P) := point_from_bytes BigOps ltB KpB (Bj 0xa5 0xa5 0xa5) (B x) (B y) in
  if r =? 1 then "1 " ++ hj P ++ " 1" else dz r.

(* ---------------- SM9 G1 / G2 point import: Spec predicate only ----------------
   G1: y^2 = x^3 + 5 over F_p;  G2 (twist): y^2 = x^3 + 5u over F_p[u]/(u^2 + 2);
   an F_p2 element a0 + a1 u travels as a1 || a0.  Accepted iff prefix 04, every coordinate
   below p, and the curve equation holds; the answer repeats the coordinates. *)
Definition sm9_pZ : Z := 0xb640000002a3a6f1d603ab4ff58ec74521f2934b1a7aeedbe56f9b27e351457d.
Definition h_sm9g1 (prefix x y : Z) : string :=
  if (prefix =? 4) && (x <? sm9_pZ) && (y <? sm9_pZ) && ((y * y) mod sm9_pZ =? (x * x * x + 5) mod sm9_pZ)
  then "1 " ++ hx x ++ hx y else "-1".
Definition fp2mul (a b : Z * Z) : Z * Z :=
  ((fst a * fst b - 2 * (snd a * snd b)) mod sm9_pZ, (fst a * snd b + snd a * fst b) mod sm9_pZ).
Definition h_sm9g2 (prefix xa1 xa0 ya1 ya0 : Z) : string :=
  let X := (xa0, xa1) in let Y := (ya0, ya1) in
  let l := fp2mul Y Y in
  let r := fp2mul (fp2mul X X) X in
  let r := (fst r, (snd r + 5) mod sm9_pZ) in
  if (prefix =? 4) && (xa1 <? sm9_pZ) && (xa0 <? sm9_pZ) && (ya1 <? sm9_pZ) && (ya0 <? sm9_pZ) &&
     (fst l =? fst r) && (snd l =? snd r)
  then "1 " ++ hx xa1 ++ hx xa0 ++ hx ya1 ++ hx ya0 else "-1".
