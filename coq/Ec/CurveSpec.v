(* Short-Weierstrass affine group law (chord-tangent), scalar multiplication and
   the SM2 domain parameters (GB/T 32918.5).  This is the *Spec* of the curve
   arithmetic: point = None (infinity) | Some (x, y) with 0 <= x, y < p. *)
From Coq Require Import ZArith List.
From GmVerif Require Import Ec.Num.
Import ListNotations.

Section Curve.
  Variable O : numops.
  Notation T := (T O).
  Variable p a b : T.

  Definition zero : T := nofZ O 0%Z.
  Definition one : T := nofZ O 1%Z.
  Definition fadd x y := nmod O (nadd O x y) p.
  Definition fsub x y := nmod O (nsub O x y) p.
  Definition fmul x y := nmod O (nmul O x y) p.

  (* extended Euclid: invariant r_i = s_i * a (mod m) *)
  Fixpoint egcd (fuel : nat) (r0 r1 s0 s1 : T) : T :=
    match fuel with
    | Datatypes.O => s0
    | S f => if neqb O r1 zero then s0
             else let q := ndiv O r0 r1 in
                  egcd f r1 (nsub O r0 (nmul O q r1)) s1 (nsub O s0 (nmul O q s1))
    end.
  (* modular inverse modulo m (0 for 0); 600 steps suffice for 256-bit operands *)
  Definition modinv (m x : T) : T := nmod O (egcd 600 m (nmod O x m) zero one) m.
  Definition finv x := modinv p x.

  Definition point := option (T * T).

  Definition on_curve (P : point) : bool :=
    match P with
    | None => true
    | Some (x, y) => neqb O (fmul y y) (fadd (fadd (fmul (fmul x x) x) (fmul a x)) b)
    end.

  Definition pneg (P : point) : point :=
    match P with None => None | Some (x, y) => Some (x, fsub zero y) end.

  Definition pdbl (P : point) : point :=
    match P with
    | None => None
    | Some (x, y) =>
      if neqb O y zero then None else
      let lam := fmul (fadd (fmul (nofZ O 3%Z) (fmul x x)) a) (finv (fadd y y)) in
      let x3 := fsub (fsub (fmul lam lam) x) x in
      Some (x3, fsub (fmul lam (fsub x x3)) y)
    end.

  Definition padd (P Q : point) : point :=
    match P, Q with
    | None, _ => Q
    | _, None => P
    | Some (x1, y1), Some (x2, y2) =>
      if neqb O x1 x2 then
        (if neqb O (fadd y1 y2) zero then None else pdbl P)
      else
        let lam := fmul (fsub y2 y1) (finv (fsub x2 x1)) in
        let x3 := fsub (fsub (fmul lam lam) x1) x2 in
        Some (x3, fsub (fmul lam (fsub x1 x3)) y1)
    end.

  Fixpoint pmul_pos (k : positive) (P : point) : point :=
    match k with
    | xH => P
    | xO k' => pdbl (pmul_pos k' P)
    | xI k' => padd P (pdbl (pmul_pos k' P))
    end.
  (* [k]P for k >= 0 (k <= 0 gives infinity) *)
  Definition pmul (k : Z) (P : point) : point :=
    match k with Zpos q => pmul_pos q P | _ => None end.
End Curve.

(* ---- SM2 recommended curve ---- *)
Definition sm2_p : Z := 0xFFFFFFFEFFFFFFFFFFFFFFFFFFFFFFFFFFFFFFFF00000000FFFFFFFFFFFFFFFF.
Definition sm2_a : Z := 0xFFFFFFFEFFFFFFFFFFFFFFFFFFFFFFFFFFFFFFFF00000000FFFFFFFFFFFFFFFC.
Definition sm2_b : Z := 0x28E9FA9E9D9F5E344D5A9E4BCF6509A7F39789F515AB8F92DDBCBD414D940E93.
Definition sm2_n : Z := 0xFFFFFFFEFFFFFFFFFFFFFFFFFFFFFFFF7203DF6B21C6052B53BBF40939D54123.
Definition sm2_Gx : Z := 0x32C4AE2C1F1981195F9904466A39C9948FE30BBFF2660BE1715A4589334C74C7.
Definition sm2_Gy : Z := 0xBC3736A2F4F6779C59BDCEE36B692153D0A9877CC62A474002DF32E52139F0A0.

Section Sm2.
  Variable O : numops.
  Definition Sp := nofZ O sm2_p.
  Definition Sa := nofZ O sm2_a.
  Definition Sb := nofZ O sm2_b.
  Definition SG : point O := Some (nofZ O sm2_Gx, nofZ O sm2_Gy).
  Definition sm2_add := padd O Sp Sa.
  Definition sm2_dbl := pdbl O Sp Sa.
  Definition sm2_neg := pneg O Sp.
  Definition sm2_mul := pmul O Sp Sa.
  Definition sm2_mulG (k : Z) := sm2_mul k SG.
  Definition sm2_on_curve := on_curve O Sp Sa Sb.
  (* result as a pair of Z for printing / comparison; infinity = None *)
  Definition point_toZ (P : point O) : option (Z * Z) :=
    match P with None => None | Some (x, y) => Some (ntoZ O x, ntoZ O y) end.
End Sm2.
