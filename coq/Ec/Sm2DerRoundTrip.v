(* The decoders accept the encoders' output: sig_from_der (sig_to_der r s ++ rest) = ((r, s), rest)
   for 32-byte fields, hence sm2_verify on sm2_sign's bytes is sm2_do_verify on its (r, s). *)
From Coq Require Import ZifyN ZifyNat ZifyBool.
From GmVerif Require Import Base.ListX Base.Bytes Ec.Num Ec.CurveSpec Ec.Sm2Der Ec.Sm2DerProofs
  Ec.SM2Sign Ec.SM2SignProofs Ec.SM2Enc Ec.SM2EncProofs.
Local Open Scope N_scope.
Ltac Zify.zify_post_hook ::= Z.div_mod_to_equations.

Lemma dec_len_enc len rest :
  len < 65536 -> len <= lenN rest -> dec_len (enc_len len ++ rest) = Some (len, rest).
Proof.
  intros Hlen Hrest. unfold enc_len.
  destruct (len <? 128) eqn:E1.
  - cbn [app dec_len]. rewrite E1. replace (lenN rest <? len) with false by lia. reflexivity.
  - destruct (len <? 256) eqn:E2.
    + cbn [app dec_len]. change (129 <? 128) with false. cbv iota.
      change (N.land 129 127) with 1. change ((1 <? 1) || (4 <? 1)) with false. cbv iota.
      rewrite lenN_cons. replace (lenN rest + 1 <? 1) with false by lia.
      cbn [hd]. change (1 =? 1) with true. cbn [andb]. rewrite E1.
      change (1 <? 1) with false. cbn [andb].
      unfold takeN, dropN. change (N.to_nat 1) with 1%nat. cbn [firstn skipn be_to_N be_to_N_acc].
      replace (0 * 256 + len) with len by lia.
      replace (lenN rest <? len) with false by lia. reflexivity.
    + replace (len <? 65536) with true by lia.
      cbn [app dec_len]. change (130 <? 128) with false. cbv iota.
      change (N.land 130 127) with 2. change ((2 <? 1) || (4 <? 2)) with false. cbv iota.
      rewrite !lenN_cons. replace (lenN rest + 1 + 1 <? 2) with false by lia.
      cbn [hd]. change (2 =? 1) with false. cbn [andb]. change (1 <? 2) with true. cbn [andb].
      replace (len / 256 =? 0) with false by lia.
      unfold takeN, dropN. change (N.to_nat 2) with 2%nat. cbn [firstn skipn be_to_N be_to_N_acc].
      replace ((0 * 256 + len / 256) * 256 + len mod 256) with len by lia.
      replace (lenN rest <? len) with false by lia. reflexivity.
Qed.

Lemma takeN_app_exact {A} (a b : list A) : takeN (lenN a) (a ++ b) = a.
Proof. unfold takeN, lenN. rewrite Nat2N.id, firstn_app, Nat.sub_diag, firstn_all. cbn. apply app_nil_r. Qed.
Lemma dropN_app_exact {A} (a b : list A) : dropN (lenN a) (a ++ b) = b.
Proof. unfold dropN, lenN. rewrite Nat2N.id, skipn_app, Nat.sub_diag, skipn_all. reflexivity. Qed.

Lemma dec_tlv_enc tag d rest :
  lenN d < 65536 -> dec_tlv tag (enc_tlv tag d ++ rest) = Some (d, rest).
Proof.
  intros H. unfold enc_tlv. cbn [app dec_tlv]. rewrite N.eqb_refl, <- app_assoc.
  rewrite dec_len_enc by (try rewrite lenN_app; lia).
  rewrite takeN_app_exact, dropN_app_exact. reflexivity.
Qed.

(* strip0: result is non-empty for a non-empty input, is [0] or starts with a non-zero octet,
   and the input is zeros ++ result *)
Lemma strip0_props a : a <> [] ->
  strip0 a <> [] /\ (strip0 a = [0] \/ hd 0 (strip0 a) <> 0) /\
  exists k, a = zeros k ++ strip0 a.
Proof.
  induction a as [|x a IH]; intros Hne; [congruence|].
  destruct x as [|p].
  - destruct a as [|y a'].
    + cbn. repeat split; [discriminate|left; reflexivity|exists 0%nat; reflexivity].
    + change (strip0 (0 :: y :: a')) with (strip0 (y :: a')).
      destruct (IH ltac:(discriminate)) as (H1 & H2 & k & Hk).
      repeat split; try assumption. exists (S k). cbn [zeros app]. rewrite <- Hk. reflexivity.
  - cbn [strip0]. repeat split; [discriminate|right; cbn; lia|exists 0%nat; reflexivity].
Qed.

Lemma pad32_strip0 a : length a = 32%nat -> pad32 (strip0 a) = a.
Proof.
  intros Hl. destruct (strip0_props a) as (_ & _ & k & Hk); [destruct a; [discriminate|congruence]|].
  unfold pad32. rewrite Hk at 3. f_equal. f_equal.
  rewrite Hk in Hl. rewrite app_length, zeros_length in Hl. lia.
Qed.

Lemma strip0_len_le a : (length (strip0 a) <= length a)%nat.
Proof.
  induction a as [|x a IH]; [cbn; lia|]. destruct x; [|cbn; lia].
  destruct a as [|y a']; [cbn; lia|]. change (strip0 (0 :: y :: a')) with (strip0 (y :: a')). cbn [length] in *. lia.
Qed.

Lemma bytes_ok_strip0 a : bytes_ok a = true -> bytes_ok (strip0 a) = true.
Proof.
  induction a as [|x a IH]; intros H; [reflexivity|]. destruct x; [|exact H].
  destruct a as [|y a']; [exact H|]. change (strip0 (0 :: y :: a')) with (strip0 (y :: a')).
  apply IH. apply bytes_ok_cons in H. tauto.
Qed.

Lemma dec_int_enc a rest :
  a <> [] -> (length a <= 32)%nat -> bytes_ok a = true ->
  dec_int (enc_int a ++ rest) = Some (strip0 a, rest).
Proof.
  intros Hne Hl Hok. destruct (strip0_props a Hne) as (Hn' & Hhd & _).
  pose proof (strip0_len_le a) as Hle. pose proof (bytes_ok_strip0 a Hok) as Hok'.
  unfold enc_int. set (a' := strip0 a) in *.
  assert (Hla : lenN a' <= 32) by (unfold lenN; lia).
  assert (Hla1 : 1 <= lenN a') by (unfold lenN; destruct a'; [congruence|cbn [length]; lia]).
  destruct (128 <=? hd 0 a') eqn:Etop.
  - cbn [app dec_int]. change (2 =? 2) with true. cbv iota. rewrite <- app_assoc.
    rewrite dec_len_enc by (try (cbn [app]; rewrite lenN_cons, lenN_app); lia).
    replace (lenN a' + 1 =? 0) with false by lia.
    cbn [app hd tl]. change (128 <=? 0) with false. cbv iota.
    change (0 =? 0) with true. replace (1 <? lenN a' + 1) with true by lia. cbn [andb].
    destruct a' as [|b0 a'']; [congruence|]. cbn [hd app] in *.
    replace (b0 <? 128) with false by lia.
    replace (lenN (b0 :: a'') + 1 - 1) with (lenN (b0 :: a'')) by lia.
    change (b0 :: a'' ++ rest) with ((b0 :: a'') ++ rest).
    rewrite takeN_app_exact, dropN_app_exact. reflexivity.
  - cbn [app dec_int]. change (2 =? 2) with true. cbv iota. rewrite <- app_assoc.
    rewrite dec_len_enc by (try rewrite lenN_app; lia).
    replace (lenN a' =? 0) with false by lia.
    destruct a' as [|b0 a'']; [congruence|]. cbn [hd app] in *.
    rewrite Etop.
    destruct ((b0 =? 0) && (1 <? lenN (b0 :: a''))) eqn:Elead.
    + exfalso. apply andb_true_iff in Elead. destruct Elead as [E0 E1].
      destruct Hhd as [Hh|Hh]; [injection Hh as -> ->; cbn in E1; discriminate|lia].
    + change (b0 :: a'' ++ rest) with ((b0 :: a'') ++ rest).
      rewrite takeN_app_exact, dropN_app_exact. reflexivity.
Qed.

Lemma enc_int_len a : a <> [] -> (length a <= 32)%nat -> 3 <= lenN (enc_int a) <= 35.
Proof.
  intros Hne Hl. destruct (strip0_props a Hne) as (Hn' & _ & _). pose proof (strip0_len_le a).
  unfold enc_int. set (a' := strip0 a) in *.
  assert (1 <= lenN a' <= 32) by (unfold lenN; destruct a'; [congruence|cbn [length] in *; lia]).
  assert (Hel : forall l, (l < 128)%N -> lenN (enc_len l) = 1%N).
  { intros l Hl0. unfold enc_len. replace (l <? 128)%N with true by lia. reflexivity. }
  destruct (128 <=? hd 0 a').
  - rewrite lenN_cons, lenN_app, lenN_cons, Hel by lia. lia.
  - rewrite lenN_cons, lenN_app, Hel by lia. lia.
Qed.

Lemma bytes_ok_enc_len l : l < 65536 -> bytes_ok (enc_len l) = true.
Proof.
  intros H. unfold enc_len.
  destruct (l <? 128) eqn:E1; [cbn; rewrite andb_true_r; apply N.ltb_lt; lia|].
  destruct (l <? 256) eqn:E2; [cbn; rewrite andb_true_r; apply N.ltb_lt; lia|].
  replace (l <? 65536) with true by lia. cbn. rewrite andb_true_r.
  apply andb_true_iff; split; apply N.ltb_lt; lia.
Qed.

Theorem sig_der_roundtrip r s rest :
  length r = 32%nat -> length s = 32%nat -> bytes_ok r = true -> bytes_ok s = true ->
  sig_from_der (sig_to_der r s ++ rest) = Some ((r, s), rest).
Proof.
  intros Hr Hs Hrok Hsok.
  assert (Hrne : r <> []) by (destruct r; [discriminate|congruence]).
  assert (Hsne : s <> []) by (destruct s; [discriminate|congruence]).
  pose proof (enc_int_len r Hrne ltac:(lia)) as Lr. pose proof (enc_int_len s Hsne ltac:(lia)) as Ls.
  unfold sig_to_der, sig_from_der.
  change (48 :: enc_len (lenN (enc_int r ++ enc_int s)) ++ enc_int r ++ enc_int s)
    with (enc_tlv 48 (enc_int r ++ enc_int s)).
  rewrite dec_tlv_enc by (rewrite lenN_app; lia).
  rewrite dec_int_enc by (try assumption; lia).
  rewrite <- (app_nil_r (enc_int s)).
  rewrite dec_int_enc by (try assumption; lia).
  pose proof (strip0_len_le r). pose proof (strip0_len_le s).
  replace (32 <? lenN (strip0 r)) with false by (unfold lenN; lia).
  replace (32 <? lenN (strip0 s)) with false by (unfold lenN; lia).
  cbn [orb negb is_nil]. rewrite !pad32_strip0 by assumption. reflexivity.
Qed.

Local Open Scope Z_scope.

Lemma bytes_ok_Z_to_be len x : bytes_ok (Z_to_be len x) = true.
Proof.
  revert x; induction len as [|len IH]; intros x; [reflexivity|].
  cbn [Z_to_be]. apply bytes_ok_app. split; [apply IH|].
  cbn. rewrite andb_true_r. apply N.ltb_lt.
  pose proof (Z.mod_pos_bound x 256 ltac:(lia)). lia.
Qed.

(* sm2_verify applied to the bytes of sm2_sign / sm2_signature_to_der is sm2_do_verify on (r, s) *)
Theorem verify_of_sig_bytes (NO : numops) (P : point NO) e r s :
  0 <= r < two256 -> 0 <= s < two256 ->
  sm2_verify NO P e (sig_bytes (r, s)) = do_verify NO P e r s.
Proof.
  intros Hr Hs. unfold sm2_verify, sig_bytes. cbn [fst snd].
  pose proof (sig_der_roundtrip (to32 r) (to32 s) [] (to32_length r) (to32_length s)
                (bytes_ok_Z_to_be 32 r) (bytes_ok_Z_to_be 32 s)) as E.
  rewrite app_nil_r in E. rewrite E.
  rewrite !be_to_Z_to32 by assumption.
  unfold sig_to_der. reflexivity.
Qed.

Local Open Scope N_scope.
Theorem ct_der_roundtrip c rest :
  length (ct_x c) = 32%nat -> length (ct_y c) = 32%nat -> length (ct_hash c) = 32%nat ->
  (length (ct_c c) <= 255)%nat -> bytes_ok (ct_x c) = true -> bytes_ok (ct_y c) = true ->
  ct_from_der (ct_to_der c ++ rest) = Some (c, rest).
Proof.
  destruct c as [x y hh cc]. cbn [ct_x ct_y ct_hash ct_c]. intros Hx Hy Hh Hc Hxok Hyok.
  assert (Hxne : x <> []) by (destruct x; [discriminate|congruence]).
  assert (Hyne : y <> []) by (destruct y; [discriminate|congruence]).
  pose proof (enc_int_len x Hxne ltac:(lia)) as Lx. pose proof (enc_int_len y Hyne ltac:(lia)) as Ly.
  assert (Lh : lenN hh = 32) by (unfold lenN; lia). assert (Lc : lenN cc <= 255) by (unfold lenN; lia).
  assert (Leh : lenN (enc_tlv 4 hh) = 34).
  { unfold enc_tlv. rewrite lenN_cons, lenN_app, Lh. reflexivity. }
  assert (Lec : lenN (enc_tlv 4 cc) <= 258).
  { unfold enc_tlv. rewrite lenN_cons, lenN_app. unfold enc_len.
    destruct (lenN cc <? 128) eqn:E1; [|replace (lenN cc <? 256) with true by lia]; unfold lenN in *; cbn [length]; lia. }
  unfold ct_to_der, ct_from_der. cbn [ct_x ct_y ct_hash ct_c].
  set (body := enc_int x ++ enc_int y ++ enc_tlv 4 hh ++ enc_tlv 4 cc).
  change (48 :: enc_len (lenN body) ++ body) with (enc_tlv 48 body).
  assert (Lb : lenN body < 65536) by (unfold body; rewrite !lenN_app; lia).
  rewrite dec_tlv_enc by exact Lb. unfold body.
  rewrite dec_int_enc by (try assumption; lia).
  pose proof (strip0_len_le x). pose proof (strip0_len_le y).
  replace (32 <? lenN (strip0 x)) with false by (unfold lenN; lia).
  rewrite dec_int_enc by (try assumption; lia).
  replace (32 <? lenN (strip0 y)) with false by (unfold lenN; lia).
  rewrite dec_tlv_enc by lia. rewrite Lh. cbn [N.eqb Pos.eqb negb].
  rewrite <- (app_nil_r (enc_tlv 4 cc)). rewrite dec_tlv_enc by lia.
  replace (255 <? lenN cc) with false by lia. cbn [negb is_nil].
  rewrite !pad32_strip0 by assumption. reflexivity.
Qed.

Local Open Scope Z_scope.

(* sm2_decrypt applied to the bytes of sm2_encrypt is sm2_do_decrypt on the structure *)
Theorem decrypt_of_ct_bytes (NO : numops) d c :
  length (ct_x c) = 32%nat -> length (ct_y c) = 32%nat -> length (ct_hash c) = 32%nat ->
  (length (ct_c c) <= 255)%nat -> bytes_ok (ct_x c) = true -> bytes_ok (ct_y c) = true ->
  sm2_decrypt NO d (ct_to_der c) = do_decrypt NO d c.
Proof.
  intros. unfold sm2_decrypt.
  pose proof (ct_der_roundtrip c [] ltac:(assumption) ltac:(assumption) ltac:(assumption)
                ltac:(assumption) ltac:(assumption) ltac:(assumption)) as E.
  rewrite app_nil_r in E. rewrite E. reflexivity.
Qed.

(* ---------------- byte-level completeness under the group-law premises ---------------- *)
Section BytesComplete.
  Hypothesis Hadd : forall a b, 0 <= a -> 0 <= b ->
    sm2_add ZOps (sm2_mulG ZOps a) (sm2_mulG ZOps b) = sm2_mulG ZOps ((a + b) mod n).
  Hypothesis Hmul : forall a b, 0 <= a -> 0 <= b ->
    sm2_mul ZOps a (sm2_mulG ZOps b) = sm2_mulG ZOps ((a * b) mod n).
  Hypothesis Hcurve : forall k, 1 <= k < n ->
    sm2_mulG ZOps k <> None /\ sm2_on_curve ZOps (sm2_mulG ZOps k) = true.

  Theorem sm2_verify_sm2_sign_partial d e en sg rest :
    0 <= d < n - 1 -> ((1 + d) * inv_n ZOps (1 + d)) mod n = 1 -> 0 <= e < two256 ->
    sm2_sign ZOps d e en = Some (sg, rest) ->
    sm2_verify ZOps (sm2_mulG ZOps d) e sg = true.
  Proof using Hadd Hmul.
    clear Hcurve. intros Hd Hinv He H. unfold sm2_sign in H.
    destruct (do_sign ZOps d e en) as [[[r s] en']|] eqn:Es; [|discriminate].
    apply Some_inj in H. injection H as <- <-.
    destruct (sign_eq_standard _ _ _ _ _ _ Hd He Es) as (_ & _ & _ & _ & _ & _ & _ & Hr & Hs).
    pose proof n_lt_two256.
    rewrite verify_of_sig_bytes by lia.
    eapply verify_sign_partial; eassumption.
  Qed.

  Theorem sm2_decrypt_sm2_encrypt_partial d m en ct rest :
    0 <= d ->
    sm2_encrypt ZOps (sm2_mulG ZOps d) m en = Some (ct, rest) ->
    sm2_decrypt ZOps d ct = Some m.
  Proof using Hmul Hcurve.
    clear Hadd. intros Hd H. unfold sm2_encrypt in H.
    destruct (do_encrypt ZOps (sm2_mulG ZOps d) m en) as [[c en']|] eqn:Ee; [|discriminate].
    apply Some_inj in H. injection H as <- <-.
    pose proof (dec_enc_partial Hmul Hcurve _ _ _ _ _ Hd Ee) as Hdec.
    destruct (enc_eq_standard _ _ _ _ _ Ee) as (Hlen & _ & kb & _ & _ & _ & _ & Ec).
    rewrite decrypt_of_ct_bytes; [exact Hdec| | | | | |]; rewrite Ec; unfold std_ct; cbn [ct_x ct_y ct_hash ct_c].
    - apply to32_length.
    - apply to32_length.
    - apply C03Lemmas.sm3_len.
    - unfold xor_bytes. rewrite map_length, combine_length, kdf_spec_length. lia.
    - apply bytes_ok_Z_to_be.
    - apply bytes_ok_Z_to_be.
  Qed.
End BytesComplete.
